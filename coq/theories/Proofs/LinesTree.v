(* C03, columns = false, part 3 (L3): trees built from raw leaves, OriginalSource,
   SourceMapSource without inner map, ConcatSource and ReplaceSource (class `rshape`), ASCII
   texts and consistent maps (`treeA`), ReplaceSource nodes below 2^32 bytes (`rsmall`).
   - the text-less stream (what map() consumes), looked up by line, attributes every byte of
     source() as the text-carrying stream does (first mapped piece of the output line):
     `final_attr_tree_lines`, with Leibniz equality of the attribution lists (both sides report
     (file, line, 0, no name));
   - hence map() attributes as the stream does, and is None exactly when no text-mode chunk is
     mapped, given that the segment fields stay below 2^30 (the encoder's domain): `C03_tree_lines`. *)
From RS Require Import Base.Prelude Base.Text Rope.RopeModel Codec.Vlq Codec.CodecSpec
  Checkers.ChkCodec Stream.Types Stream.Leaves Stream.Concat Stream.Replace Stream.Combined Stream.Tree
  Sem.Attr Checkers.ChkTree
  Proofs.CodecKept Proofs.StreamText Proofs.StreamLeaves Proofs.StreamMap Proofs.StreamConcat Proofs.StreamTree
  Proofs.WfStream Proofs.WfFinal Proofs.RStreamText Proofs.RStreamPos Proofs.RStreamTree
  Proofs.AttrCodec Proofs.AttrSms Proofs.AttrLeaves Proofs.LawConcatAttr Proofs.LawWrappers
  Proofs.CacheReplay Proofs.FinalDense Proofs.FinalReplace Proofs.FinalConcat Proofs.FinalTree
  Proofs.ReplAttrStream Proofs.ReplAttrOrigin Proofs.ReplAttrSms Proofs.ReplAttrTree
  Proofs.LinesBase Proofs.LinesSelf Proofs.LinesConcat.
Require Import Lia List.

Local Open Scope N_scope.

Definition oLF : opts := mkOpts false true.     (* lines, text-less *)
Definition oLT : opts := mkOpts false false.    (* lines, text-carrying *)

(* ------------------------------------------------------------------ *)
(* A: no text-carrying chunk of these trees is empty (columns = false)  *)
(* ------------------------------------------------------------------ *)
Lemma original_line_chunks_ne : forall (ls : list text) i, (forall l, In l ls -> l <> []) ->
  no_empty_chunks (original_line_chunks ls i) = true.
Proof.
  induction ls as [|l ls IH]; intros i H; [reflexivity|]. cbn [original_line_chunks].
  apply ne_cons; [apply H; left; reflexivity|]. apply IH. intros x Hx. apply H. right. exact Hx.
Qed.

Lemma original_stream_lines_ne v name : no_empty_chunks (fst (original_stream v name oLT)) = true.
Proof.
  unfold oLT. rewrite original_stream_lines_text_fst.
  change (ESource 0 name (Some v) :: original_line_chunks (split_lines v) 1)
    with ([ESource 0 name (Some v)] ++ original_line_chunks (split_lines v) 1).
  rewrite no_empty_chunks_app. cbn [andb]. change (no_empty_chunks [ESource 0 name (Some v)]) with true. cbn [andb].
  apply original_line_chunks_ne. apply split_lines_nonempty.
Qed.

Lemma lines_full_loop_ne ls : (forall l, In l ls -> l <> []) -> forall ms cur,
  no_empty_chunks (snd (sm_lines_full_loop ls ms cur)) = true.
Proof.
  intros H. induction ms as [|m ms IH]; intros cur; [reflexivity|]. cbn [sm_lines_full_loop].
  destruct (m_orig m) as [o|]; [|apply IH].
  match goal with |- context [if ?c then _ else _] => destruct c end; [apply IH|].
  specialize (IH (g_line m + 1)). destruct (sm_lines_full_loop ls ms (g_line m + 1)) as [cur' evs].
  cbn [snd] in *. rewrite !no_empty_chunks_app, IH, (whole_lines_ne_any ls 1 cur (g_line m) H), andb_true_r.
  cbn [andb]. destruct (line_at ls (g_line m)) as [line|] eqn:E; [|reflexivity].
  apply ne_one. apply H. apply line_at_some in E. destruct E as [_ [_ E]]. apply (nth_opt_In _ _ _ E).
Qed.

Lemma announce_sources_silent m srcs i : chunk_texts (announce_sources m srcs i) = [].
Proof. rewrite chunk_texts_chunks_of, announce_sources_chunks. reflexivity. Qed.

Lemma sm_stream_lines_full_ne t m : no_empty_chunks (fst (sm_stream_lines_full t m)) = true.
Proof.
  unfold sm_stream_lines_full. destruct (is_nil (split_lines t)); [reflexivity|].
  pose proof (lines_full_loop_ne (split_lines t) (split_lines_nonempty t) (decode_mappings (sm_mappings m)) 1) as A.
  destruct (sm_lines_full_loop (split_lines t) (decode_mappings (sm_mappings m)) 1) as [cur evs]. cbn [fst snd] in *.
  rewrite !no_empty_chunks_app, A, (ne_silent _ (announce_sources_silent m _ 0)).
  rewrite (whole_lines_ne_any _ 1 cur _ (split_lines_nonempty t)). reflexivity.
Qed.

Definition ne_all (s : src) : Prop := forall st, no_empty_chunks (LawWrappers.evs_of (stream st s oLT)) = true.

Lemma kid_streams_ne cs : Forall ne_all cs -> forall st,
  Forall (fun k => no_empty_chunks (fst k) = true) (fst (kid_streams st cs oLT)).
Proof.
  induction 1 as [|c cs Hc _ IH]; intros st; [constructor|].
  cbn [kid_streams]. specialize (Hc st). unfold LawWrappers.evs_of in Hc.
  destruct (stream st c oLT) as [[evs gi] st1]. specialize (IH st1).
  destruct (kid_streams st1 cs oLT) as [ks st2]. cbn [fst snd] in *.
  constructor; assumption.
Qed.

Theorem ne_tree_lines : forall s, rshape s = true -> treeA s = true -> rsmall s = true -> ne_all s.
Proof.
  apply (src_ind' (fun s => rshape s = true -> treeA s = true -> rsmall s = true -> ne_all s)).
  - intros b v _ _ _ st. unfold LawWrappers.evs_of. cbn [stream fst oLT final_source]. apply raw_stream_ne.
  - intros v _ _ _ st. unfold LawWrappers.evs_of. cbn [stream fst oLT final_source]. apply raw_stream_ne.
  - intros v _ _ _ st. unfold LawWrappers.evs_of. cbn [stream fst oLT final_source]. apply raw_stream_ne.
  - intros v n _ _ _ st. unfold LawWrappers.evs_of. cbn [stream fst]. apply original_stream_lines_ne.
  - intros v n m og i r Hsh HA _ st. cbn [rshape] in Hsh. destruct i as [im|]; [discriminate|].
    unfold LawWrappers.evs_of. cbn [stream fst]. apply sm_stream_lines_full_ne.
  - (* ConcatSource *)
    intros cs IH Hsh HA Hsm st. pose proof (rshape_concat cs Hsh) as Hsh'. pose proof (treeA_concat cs HA) as Ha'.
    pose proof (rsmall_concat cs Hsm) as Hsm'.
    assert (Hall : Forall ne_all cs).
    { rewrite Forall_forall in *. intros c Hc. apply IH; [exact Hc|apply Hsh'|apply Ha'|apply Hsm']; exact Hc. }
    destruct (Nat.eq_dec (length cs) 1) as [E|E].
    + destruct cs as [|c [|c2 r]]; try discriminate. inversion Hall as [|? ? Hc _]. apply Hc.
    + pose proof (kid_streams_ne cs Hall st) as Hkn.
      assert (Hkd : Forall (fun k => dense (fst k) 0 0 = true) (fst (kid_streams st cs (mkOpts false false)))).
      { apply kid_streams_dense_any. rewrite Forall_forall. intros c Hc o st0.
        apply dense_tree_any; [apply Hsh'|apply Ha']; exact Hc. }
      pose proof (concat_kids_ta st cs false E Hkd) as [A1 _].
      rewrite ne_tas. unfold oLT. rewrite A1. apply ne_flat_tas. exact Hkn.
  - (* ReplaceSource *)
    intros i rs IH Hsh HA Hsm st. cbn [rshape rsmall] in Hsh, Hsm.
    apply andb_true_iff in Hsm. destruct Hsm as [Hsm1 Hsm2].
    assert (HAi : treeA i = true /\ forallb (repl_ok (source i)) rs = true).
    { unfold treeA in *. cbn [tree_wf tree_ascii] in HA. apply andb_true_iff in HA. destruct HA as [Hw Ha].
      apply andb_true_iff in Hw. destruct Hw as [Hw1 Hw2]. apply andb_true_iff in Ha. destruct Ha as [Ha1 _].
      rewrite Hw1, Ha1. split; [reflexivity|exact Hw2]. }
    destruct HAi as [HAi Hrs].
    pose proof (IH Hsh HAi Hsm1 st) as N0.
    pose proof (dense_tree_any i st (mkOpts false false) Hsh HAi) as D.
    pose proof (rshape_stream_good st i false Hsh HAi Hsm1) as G.
    unfold LawWrappers.evs_of in *. unfold oLT in *. rewrite stream_replace_eq.
    destruct (stream st i (mkOpts false false)) as [[ievs gi] st1]. cbn [fst snd] in *.
    destruct G as [G1 _].
    apply (ReplAttrOrigin.replace_stream_dense rs ievs (source i) gi (repl_ok_ordered _ _ Hrs) G1 N0 D).
  - intros id i _ Hsh. discriminate.
Qed.

(* B: in particular no mapped chunk is *)
Lemma no_empty_ne_chunk evs : no_empty_chunks evs = true -> Forall ne_chunk evs.
Proof.
  unfold no_empty_chunks. induction evs as [|e evs IH]; intros H; [constructor|].
  destruct e as [t m|i n c|i n]; cbn [chunk_texts forallb] in H.
  - apply andb_true_iff in H. destruct H as [H1 H2]. constructor; [|apply IH; exact H2].
    destruct t as [[|b x]|]; [discriminate|exact I|exact I].
  - constructor; [exact I|apply IH; exact H].
  - constructor; [exact I|apply IH; exact H].
Qed.

(* ------------------------------------------------------------------ *)
(* C: from chunk mappings to the segments `kidL_ok` speaks about        *)
(* ------------------------------------------------------------------ *)
Lemma segs_before_cm evs gi : dense evs 0 0 = true ->
  Forall (fun m => is_mapped m = true -> 1 <= g_line m /\ plt (mpos m) gi) (chunk_mappings evs) ->
  Forall (seg_before gi) (fsegs evs [] []).
Proof.
  intros Hd H. rewrite (fsegs_dense evs Hd), Forall_map. eapply Forall_impl; [|exact H]. cbn beta.
  intros m Hm. unfold seg_before. cbn [rsF fst snd]. intros Ha. apply Hm.
  unfold is_mapped. destruct (m_orig m); [reflexivity|discriminate].
Qed.

(* a text-carrying, well-positioned stream without empty chunks: every segment lies strictly
   before the end *)
Lemma wp_before : forall evs p t, Reass evs t -> WP evs p -> no_empty_chunks evs = true -> 1 <= fst p ->
  Forall (fun m => 1 <= g_line m /\ plt (mpos m) (adv p t)) (chunk_mappings evs).
Proof.
  induction evs as [|e evs IH]; intros p t Hr Hw Hne Hp; [constructor|].
  destruct e as [tx m|i n c|i n].
  - apply Reass_chunk_inv in Hr. destruct Hr as [x [t' [Ex [Et Hr]]]]. subst tx t.
    apply WP_chunk_inv in Hw. destruct Hw as [x' [Ex' [Hl [Hc Hw]]]]. inversion Ex'. subst x'.
    unfold no_empty_chunks in Hne. cbn [chunk_texts forallb] in Hne. apply andb_true_iff in Hne.
    destruct Hne as [Hx Hne]. destruct x as [|b x]; [discriminate|].
    assert (Hp' : 1 <= fst (adv p (b :: x))).
    { unfold adv. pose proof (advance_line_ge (fst p) (snd p) (b :: x)). lia. }
    cbn [chunk_mappings]. constructor; [|rewrite adv_app; apply (IH _ _ Hr Hw Hne Hp')].
    split; [lia|]. rewrite adv_app. eapply plt_ple_trans.
    + unfold mpos. rewrite Hl, Hc. unfold adv. apply advance_plt.
    + unfold adv. apply advance_ple.
  - apply (IH p t); assumption.
  - apply (IH p t); assumption.
Qed.

Lemma text_stream_kidL evs t gi :
  dense evs 0 0 = true -> Reass evs t -> WP evs (1, 0) -> no_empty_chunks evs = true ->
  gi = advance 1 0 t -> kidL_ok (evs, gi, t).
Proof.
  intros Hd Hr Hw Hne Hi. unfold kidL_ok, tr_events, tr_info, tr_text. cbn [fst snd].
  split; [exact Hd|]. split; [exact Hi|]. apply segs_before_cm; [exact Hd|].
  pose proof (wp_before evs (1, 0) t Hr Hw Hne (N.le_refl 1)) as X. unfold adv in X. cbn [fst snd] in X.
  rewrite Hi. eapply Forall_impl; [|exact X]. cbn beta. intros m Hm _. exact Hm.
Qed.

(* ------------------------------------------------------------------ *)
(* D: the text-less streams of the leaves                               *)
(* ------------------------------------------------------------------ *)
Lemma raw_kidL t : kidL_ok (raw_stream t true, t).
Proof.
  unfold kidL_ok, tr_events, tr_info, tr_text, raw_stream. cbn [fst snd].
  split; [reflexivity|]. split; [apply gen_info_advance|constructor].
Qed.

Lemma raw_final_attr_lines t :
  attr_of_final_events (fst (raw_stream t true)) t false = attr_of_stream (fst (raw_stream t false)) false.
Proof.
  rewrite raw_stream_attr. unfold attr_of_final_events, raw_stream. cbn [fst rsegs_of_events map].
  apply attr_by_pos_nil.
Qed.

(* the lemmas of AttrLeaves.v about line marks were proved inside a section with the hypothesis
   len v < 2^30 - 1, which their proofs do not use: instantiate it with the empty text *)
Definition small0 : len (@nil N) < 1073741823 := eq_refl.

Lemma marks_count_lines' v : marks_count v = len (split_lines v).
Proof.
  unfold marks_count, gen_info. destruct (ends_with_nl v).
  - cbn [N.eqb]. lia.
  - destruct (rev (split_lines v)) as [|l r] eqn:E.
    + assert (El : split_lines v = []) by (rewrite <- (rev_involutive (split_lines v)), E; reflexivity).
      rewrite El. reflexivity.
    + assert (Hin : In l (split_lines v)) by (apply in_rev; rewrite E; left; reflexivity).
      pose proof (split_lines_nonempty v l Hin) as Hne.
      assert (H1 : 1 <= len l) by (destruct l; [contradiction|]; rewrite slen_cons; lia).
      assert (H2 : 1 <= len (split_lines v)).
      { rewrite <- slen_rev, E, slen_cons. lia. }
      replace (len l =? 0) with false by (symmetry; apply N.eqb_neq; lia). lia.
Qed.

(* OriginalSource: one mark per line that has a byte *)
Lemma marks_lines : forall n i,
  Forall (fun m => i <= g_line m /\ g_line m < i + N.of_nat n /\ g_col m = 0)
         (chunk_mappings (original_line_marks n i)).
Proof.
  induction n as [|n IH]; intros i; [constructor|]. cbn [original_line_marks chunk_mappings].
  constructor; [cbn [orig_at g_line g_col]; lia|].
  eapply Forall_impl; [|apply (IH (i + 1))]. cbn beta. intros m Hm. lia.
Qed.

Lemma marks_ssorted : forall n i, ssorted (chunk_mappings (original_line_marks n i)).
Proof.
  induction n as [|n IH]; intros i; [exact I|]. cbn [original_line_marks chunk_mappings ssorted]. split; [|apply IH].
  eapply Forall_impl; [|apply (marks_positions [] small0 n (i + 1) i); lia]. cbn beta. intros x Hx. apply ple_pos_le. exact Hx.
Qed.

Lemma count_before (t : text) l : 1 <= l -> l < 1 + marks_count t -> plt (l, 0) (advance 1 0 t).
Proof.
  unfold marks_count. rewrite gen_info_advance. destruct (advance 1 0 t) as [gl gc]. unfold plt. cbn [fst snd].
  destruct (gc =? 0) eqn:E; [apply N.eqb_eq in E|apply N.eqb_neq in E]; lia.
Qed.

Lemma original_kid_lines v name : kid_ok (original_stream v name oLF, v).
Proof.
  unfold kid_ok, tr_events, tr_info, tr_text. cbn [fst snd].
  split; [apply original_stream_dense_any|]. split; [apply (original_stream_pos v name false)|].
  split; [apply original_stream_end|].
  unfold oLF. rewrite original_stream_lines_final_fst. cbn [chunk_mappings]. apply marks_ssorted.
Qed.

Lemma original_kidL v name : kidL_ok (original_stream v name oLF, v).
Proof.
  unfold kidL_ok, tr_events, tr_info, tr_text. cbn [fst snd].
  pose proof (original_stream_dense_any v name oLF) as Hd.
  split; [exact Hd|]. split; [apply original_stream_end|]. apply segs_before_cm; [exact Hd|].
  rewrite original_stream_end. unfold oLF. rewrite original_stream_lines_final_fst. cbn [chunk_mappings].
  eapply Forall_impl; [|apply (marks_lines (N.to_nat (marks_count v)) 1)]. cbn beta.
  intros m [H1 [H2 H3]] _. rewrite N2Nat.id in H2. split; [exact H1|].
  unfold mpos. rewrite H3. apply count_before; assumption.
Qed.

Lemma original_final_attr_lines v name :
  attr_of_final_events (fst (original_stream v name oLF)) v false =
  attr_of_stream (fst (original_stream v name oLT)) false.
Proof.
  unfold oLF, oLT. rewrite original_stream_lines_final_fst, original_stream_lines_text_fst.
  pose proof (original_line_chunks_good _ (split_lines_shape v) 1) as [Hr Hw].
  rewrite concat_split_lines in Hr.
  set (ms := chunk_mappings (original_line_marks (N.to_nat (marks_count v)) 1)).
  assert (Hg : Forall (line_chunk (split_lines v) ms 0) (original_line_chunks (split_lines v) 1)).
  { apply (line_chunks_chunks [] small0); [lia|rewrite sdrop_0; reflexivity|].
    intros j Hj1 Hj2. unfold ms. rewrite (marks_first [] small0), N2Nat.id, marks_count_lines'.
    replace (1 <=? j) with true by (symmetry; apply N.leb_le; lia).
    replace (j <? 1 + len (split_lines v)) with true by (symmetry; apply N.ltb_lt; lia). reflexivity. }
  unfold attr_of_final_events, attr_of_stream. rewrite !rsegs_source0.
  rewrite (rsegs_chunks _ _ _ (line_chunk_only _ _ _ _ Hg)).
  rewrite (lines_cover _ _ _ _ (split_lines_shape v) _ 1 v [] Hr Hw Hg). cbn [rev app].
  rewrite (rsegs_chunks_snd _ _ _ (marks_only _ 1)), attr_by_pos_fun.
  apply attr_by_fun_ext_all. intros l c. rewrite seg_fun_map. reflexivity.
Qed.

(* SourceMapSource without inner map: the first mapped segment of each line that has a byte *)
Lemma lines_final_loop_lines fl : forall ms cur,
  Forall (fun m => cur <= g_line m /\ g_line m <= fl /\ g_col m = 0)
         (chunk_mappings (sm_lines_final_loop ms cur fl)).
Proof.
  induction ms as [|m ms IH]; intros cur; [constructor|]. cbn [sm_lines_final_loop].
  destruct (m_orig m) as [o|]; [|apply IH].
  destruct ((cur <=? g_line m) && (g_line m <=? fl)) eqn:E; [|apply IH].
  apply andb_true_iff in E. destruct E as [E1 E2]. apply N.leb_le in E1. apply N.leb_le in E2.
  cbn [chunk_mappings]. constructor; [cbn [g_line g_col]; lia|].
  eapply Forall_impl; [|apply (IH (g_line m + 1))]. cbn beta. intros x Hx. lia.
Qed.

Lemma lines_final_loop_ssorted fl : forall ms cur, ssorted (chunk_mappings (sm_lines_final_loop ms cur fl)).
Proof.
  induction ms as [|m ms IH]; intros cur; [exact I|]. cbn [sm_lines_final_loop].
  destruct (m_orig m) as [o|]; [|apply IH].
  destruct ((cur <=? g_line m) && (g_line m <=? fl)); [|apply IH].
  cbn [chunk_mappings ssorted]. split; [|apply IH].
  eapply Forall_impl; [|apply (lines_final_loop_lines fl ms (g_line m + 1))]. cbn beta. intros x Hx.
  apply pos_le_iff. cbn [g_line g_col]. lia.
Qed.

Lemma sm_lines_final_cm t m :
  chunk_mappings (fst (sm_stream_lines_final t m)) =
  if (fst (gen_info t) =? 1) && (snd (gen_info t) =? 0) then []
  else chunk_mappings (sm_lines_final_loop (decode_mappings (sm_mappings m)) 1 (marks_count t)).
Proof.
  unfold sm_stream_lines_final, marks_count. destruct (gen_info t) as [rl rc]. cbn [fst snd].
  destruct ((rl =? 1) && (rc =? 0)); cbn [fst]; [reflexivity|].
  rewrite chunk_mappings_app, (chunk_mappings_chunks_of (announce_sources _ _ _)), announce_sources_chunks.
  reflexivity.
Qed.

Lemma sm_kid_lines v m : map_consistent v m = true -> kid_ok (sm_stream v m oLF, v).
Proof.
  intros Hc. unfold kid_ok, tr_events, tr_info, tr_text. cbn [fst snd].
  split; [apply sm_stream_dense_any; exact Hc|]. split; [apply (sm_stream_pos v m false Hc)|].
  split; [apply sm_stream_end|].
  unfold sm_stream, oLF. cbn [columns final_source]. rewrite sm_lines_final_cm.
  destruct ((fst (gen_info v) =? 1) && (snd (gen_info v) =? 0)); [exact I|apply lines_final_loop_ssorted].
Qed.

Lemma sm_kidL v m : map_consistent v m = true -> kidL_ok (sm_stream v m oLF, v).
Proof.
  intros Hc. unfold kidL_ok, tr_events, tr_info, tr_text. cbn [fst snd].
  pose proof (sm_stream_dense_any v m oLF Hc) as Hd.
  split; [exact Hd|]. split; [apply sm_stream_end|]. apply segs_before_cm; [exact Hd|].
  rewrite sm_stream_end. unfold sm_stream, oLF. cbn [columns final_source]. rewrite sm_lines_final_cm.
  destruct ((fst (gen_info v) =? 1) && (snd (gen_info v) =? 0)); [constructor|].
  eapply Forall_impl; [|apply (lines_final_loop_lines (marks_count v) _ 1)]. cbn beta.
  intros x [H1 [H2 H3]] _. split; [exact H1|]. unfold mpos. rewrite H3. apply count_before; lia.
Qed.

Lemma sm_final_text_attr_lines v m : map_consistent v m = true ->
  attr_of_final_events (fst (sm_stream v m oLF)) v false = attr_of_stream (fst (sm_stream v m oLT)) false.
Proof.
  intros Hc. unfold sm_stream, oLF, oLT. cbn [columns final_source].
  rewrite (sm_lines_final_attr v m Hc), (sm_lines_full_attr v m Hc). reflexivity.
Qed.

(* ------------------------------------------------------------------ *)
(* E: the induction                                                    *)
(* ------------------------------------------------------------------ *)
(* what the induction carries for every tree of the class *)
Definition tgoodL (s : src) : Prop :=
  forall st, rshape s = true -> treeA s = true -> rsmall s = true ->
    kid_ok (fst (stream st s oLF), source s) /\ kidL_ok (fst (stream st s oLF), source s) /\
    snd (stream st s oLF) = st /\
    attr_of_final_events (fst (fst (stream st s oLF))) (source s) false =
    attr_of_stream (fst (fst (stream st s oLT))) false.

Lemma concat_tgoodL cs : Forall tgoodL cs -> tgoodL (SConcat cs).
Proof.
  intros IH st Hsh Ha Hsm.
  pose proof (rshape_concat cs Hsh) as Hsh'. pose proof (treeA_concat cs Ha) as Ha'.
  pose proof (rsmall_concat cs Hsm) as Hsm'. rewrite Forall_forall in IH.
  destruct (Nat.eq_dec (length cs) 1) as [E|E].
  { destruct cs as [|c [|c2 r]]; try discriminate.
    assert (Hin : In c [c]) by (left; reflexivity).
    pose proof (IH c Hin st (Hsh' c Hin) (Ha' c Hin) (Hsm' c Hin)) as X.
    change (stream st (SConcat [c]) oLF) with (stream st c oLF).
    change (stream st (SConcat [c]) oLT) with (stream st c oLT).
    cbn [source map concat]. rewrite app_nil_r. exact X. }
  assert (PF : forall c, In c cs -> forall st0, snd (stream st0 c oLF) = st0).
  { intros c Hin st0. apply (IH c Hin st0 (Hsh' c Hin) (Ha' c Hin) (Hsm' c Hin)). }
  assert (PT : forall c, In c cs -> forall st0, snd (stream st0 c oLT) = st0).
  { intros c Hin st0. apply (rgood_all c st0 false (Hsh' c Hin) (Ha' c Hin) (Hsm' c Hin)). }
  rewrite (stream_concat_fold st cs oLF E), (stream_concat_fold st cs oLT E).
  rewrite (kid_streams_pure oLF cs PF st), (kid_streams_pure oLT cs PT st). cbn [fst snd final_source oLF oLT].
  set (trs := map (fun c => (fst (stream st c oLF), source c)) cs : list kid).
  assert (E1 : map (fun c => fst (stream st c oLF)) cs = map fst trs).
  { unfold trs. rewrite map_map. apply map_ext. intros c. reflexivity. }
  assert (E2 : map source cs = map tr_text trs).
  { unfold trs. rewrite map_map. apply map_ext. intros c. reflexivity. }
  assert (Hk : Forall kid_ok trs).
  { unfold trs. rewrite Forall_map. apply Forall_forall. intros c Hin.
    apply (IH c Hin st (Hsh' c Hin) (Ha' c Hin) (Hsm' c Hin)). }
  assert (HkL : Forall kidL_ok trs).
  { unfold trs. rewrite Forall_map. apply Forall_forall. intros c Hin.
    apply (IH c Hin st (Hsh' c Hin) (Ha' c Hin) (Hsm' c Hin)). }
  cbn [source]. rewrite E1, E2.
  split; [apply concat_kid_ok; exact Hk|]. split; [apply concat_kidL_ok; exact HkL|]. split; [reflexivity|].
  apply concat_lines_vs_text; [exact HkL|].
  unfold trs. apply Forall2_map_same. intros c Hin. unfold tr_events, tr_text. cbn [fst snd].
  pose proof (rgood_all c st false (Hsh' c Hin) (Ha' c Hin) (Hsm' c Hin)) as [[A1 _] [A3 _]]. cbn zeta in *.
  split; [apply dense_tree_any; [apply Hsh'|apply Ha']; exact Hin|].
  split; [exact A1|]. split; [exact A3|].
  apply (IH c Hin st (Hsh' c Hin) (Ha' c Hin) (Hsm' c Hin)).
Qed.

(* every text-mode stream of the class attributes by line as it attributes by covering *)
Theorem rshape_self_lines (st : store) (s : src) :
  rshape s = true -> treeA s = true -> rsmall s = true ->
  attr_of_final_events (fst (fst (stream st s (mkOpts false false)))) (source s) false =
  attr_of_stream (fst (fst (stream st s (mkOpts false false)))) false.
Proof.
  intros H1 H2 H3. pose proof (rgood_all s st false H1 H2 H3) as [[A1 A2] [A3 _]]. cbn zeta in *.
  apply self_lines_dense; [|exact A1|exact A2|exact A3|].
  - apply dense_tree_any; assumption.
  - apply no_empty_ne_chunk. apply (ne_tree_lines s H1 H2 H3 st).
Qed.

Lemma replace_tgoodL i rs : tgoodL (SReplace i rs).
Proof.
  intros st Hsh Ha Hsm.
  pose proof (rgood_all (SReplace i rs) st false Hsh Ha Hsm) as [[A1 A2] [A3 [A4 A5]]]. cbn zeta in *.
  pose proof (ne_tree_lines (SReplace i rs) Hsh Ha Hsm st) as Hne. unfold LawWrappers.evs_of in Hne.
  pose proof (dense_tree_any (SReplace i rs) st oLT Hsh Ha) as Hd.
  change (stream st (SReplace i rs) oLF) with (stream st (SReplace i rs) oLT).
  fold oLT in A1, A2, A3, A4, A5.
  split; [|split; [|split; [exact A5|apply (rshape_self_lines st (SReplace i rs)); assumption]]].
  - unfold kid_ok, tr_events, tr_info, tr_text. cbn [fst snd].
    pose proof (wp_facts _ [] _ A1 A2) as [W1 W2]. cbn [app] in W2.
    split; [exact Hd|]. split; [|split; [exact A4|exact W1]].
    apply cm_ev_pos. eapply Forall_impl; [|exact W2]. intros m [Hm _]. exact Hm.
  - destruct (stream st (SReplace i rs) oLT) as [[evs gi] st'] eqn:Es. cbn [fst snd] in *.
    apply text_stream_kidL; assumption.
Qed.

Lemma tgoodL_all : forall s, tgoodL s.
Proof.
  apply src_ind'.
  - intros b v st _ _ _. cbn [stream fst snd final_source oLF oLT].
    split; [apply raw_kid|]. split; [apply raw_kidL|]. split; [reflexivity|apply raw_final_attr_lines].
  - intros v st _ _ _. cbn [stream fst snd final_source oLF oLT].
    split; [apply raw_kid|]. split; [apply raw_kidL|]. split; [reflexivity|apply raw_final_attr_lines].
  - intros v st _ _ _. cbn [stream fst snd final_source oLF oLT].
    split; [apply raw_kid|]. split; [apply raw_kidL|]. split; [reflexivity|apply raw_final_attr_lines].
  - intros v n st _ _ _. cbn [stream fst snd source].
    split; [apply original_kid_lines|]. split; [apply original_kidL|].
    split; [reflexivity|apply original_final_attr_lines].
  - intros v n m og i r st Hsh Ha _. cbn [rshape] in Hsh. destruct i as [im|]; [discriminate|].
    unfold treeA in Ha. apply andb_true_iff in Ha. destruct Ha as [_ Ha].
    destruct (mapped_ascii v n m og r Ha) as [Hav Hmc].
    cbn [stream fst snd source].
    split; [apply sm_kid_lines; exact Hmc|]. split; [apply sm_kidL; exact Hmc|].
    split; [reflexivity|apply sm_final_text_attr_lines; exact Hmc].
  - intros cs IH. apply concat_tgoodL. exact IH.
  - intros i rs _. apply replace_tgoodL.
  - intros id i _ st Hsh. discriminate.
Qed.

(* ------------------------------------------------------------------ *)
(* L3: text-less against text-carrying stream                            *)
(* ------------------------------------------------------------------ *)
Theorem final_attr_tree_lines (st : store) (s : src) :
  rshape s = true -> treeA s = true -> rsmall s = true ->
  attr_of_final_events (fst (fst (stream st s (mkOpts false true)))) (source s) false =
  attr_of_stream (fst (fst (stream st s (mkOpts false false)))) false.
Proof. intros H1 H2 H3. apply (tgoodL_all s st H1 H2 H3). Qed.

Corollary final_attr_tree_lines_fl (st : store) (s : src) :
  rshape s = true -> treeA s = true -> rsmall s = true ->
  list_eqb_attr attr_eqb_fl
    (attr_of_final_events (fst (fst (stream st s (mkOpts false true)))) (source s) false)
    (attr_of_stream (fst (fst (stream st s (mkOpts false false)))) false) = true.
Proof. intros H1 H2 H3. apply attr_lists_eqb_fl. apply final_attr_tree_lines; assumption. Qed.

(* what else the induction gives about the text-less stream: dense announcements, every
   segment on a position of source(), exact end info, segments sorted, store untouched; every
   mapped segment on a line >= 1 strictly before the end *)
Theorem final_stream_facts_lines (st : store) (s : src) :
  rshape s = true -> treeA s = true -> rsmall s = true ->
  let r := stream st s (mkOpts false true) in
  dense (fst (fst r)) 0 0 = true /\
  positions_of_text (source s) (chunks_of (fst (fst r))) = true /\
  snd (fst r) = advance 1 0 (source s) /\
  sorted_by pos_le (chunk_mappings (fst (fst r))) = true /\
  snd r = st /\
  Forall (seg_before (snd (fst r))) (fsegs (fst (fst r)) [] []).
Proof.
  intros H1 H2 H3. destruct (tgoodL_all s st H1 H2 H3) as [[K1 [K2 [K3 K4]]] [[_ [_ L3]] [S _]]].
  unfold tr_events, tr_info, tr_text in *. cbn [fst snd] in *. fold oLF. cbn zeta.
  split; [exact K1|]. split; [apply positions_of_events; exact K2|]. split; [exact K3|].
  split; [apply ssorted_sorted; exact K4|]. split; [exact S|exact L3].
Qed.

(* ------------------------------------------------------------------ *)
(* clause 1: map() attributes as the stream                              *)
(* ------------------------------------------------------------------ *)
Theorem final_enc_domain_lines (st : store) (s : src) :
  rshape s = true -> treeA s = true -> rsmall s = true ->
  forallb mapping_small (chunk_mappings (fst (fst (stream st s (mkOpts false true))))) = true ->
  enc_domain (chunk_mappings (fst (fst (stream st s (mkOpts false true))))) = true.
Proof.
  intros H1 H2 H3 Hs. destruct (final_stream_facts_lines st s H1 H2 H3) as [_ [_ [_ [So _]]]]. cbn zeta in So.
  unfold enc_domain. rewrite So, Hs. reflexivity.
Qed.

Theorem get_map_attr_tree_lines (st : store) (s : src) :
  rshape s = true -> treeA s = true -> rsmall s = true ->
  forallb mapping_small (chunk_mappings (fst (fst (stream st s (mkOpts false true))))) = true ->
  attr_of_map (fst (get_map st s false)) (source s) false =
  attr_of_stream (fst (fst (stream st s (mkOpts false false)))) false.
Proof.
  intros H1 H2 H3 Hs. pose proof (final_enc_domain_lines st s H1 H2 H3 Hs) as He.
  pose proof (dense_tree_any s st (mkOpts false true) H1 H2) as Hd.
  pose proof (final_attr_tree_lines st s H1 H2 H3) as G3.
  unfold get_map. destruct (stream st s (mkOpts false true)) as [[evs gi] st']. cbn [fst snd] in *.
  rewrite (attr_codec_dense evs (source s) false Hd He). exact G3.
Qed.

(* ------------------------------------------------------------------ *)
(* clause 3: a chunk is mapped in one mode iff one is in the other       *)
(* ------------------------------------------------------------------ *)
Lemma whole_lines_unmapped suf : forall i cur tg,
  existsb is_mapped (chunk_mappings (whole_lines suf i cur tg)) = false.
Proof.
  induction suf as [|l suf IH]; intros i cur tg; [reflexivity|]. cbn [whole_lines].
  destruct ((cur <=? i) && (i <? tg)); [cbn [chunk_mappings existsb is_mapped unmapped m_orig orb]|]; apply IH.
Qed.

Lemma existsb_cm_app a b :
  existsb is_mapped (chunk_mappings (a ++ b)) =
  existsb is_mapped (chunk_mappings a) || existsb is_mapped (chunk_mappings b).
Proof. rewrite chunk_mappings_app. apply existsb_app. Qed.

Lemma lines_loops_mapped ls : forall ms cur, 1 <= cur ->
  existsb is_mapped (chunk_mappings (sm_lines_final_loop ms cur (len ls))) =
  existsb is_mapped (chunk_mappings (snd (sm_lines_full_loop ls ms cur))).
Proof.
  induction ms as [|m ms IH]; intros cur Hc; [reflexivity|]. cbn [sm_lines_final_loop sm_lines_full_loop].
  destruct (m_orig m) as [o|]; [|apply IH; exact Hc].
  destruct (N.leb_spec cur (g_line m)) as [L1|L1]; cbn [andb].
  - destruct (N.leb_spec (g_line m) (len ls)) as [L2|L2].
    + replace (g_line m <? cur) with false by (symmetry; apply N.ltb_ge; lia).
      replace (len ls <? g_line m) with false by (symmetry; apply N.ltb_ge; lia). cbn [orb].
      destruct (sm_lines_full_loop ls ms (g_line m + 1)) as [cur' evs]. cbn [snd chunk_mappings existsb is_mapped m_orig orb].
      rewrite !existsb_cm_app.
      assert (Hl : exists line, line_at ls (g_line m) = Some line).
      { unfold line_at. replace (g_line m =? 0) with false by (symmetry; apply N.eqb_neq; lia).
        apply snth_lt_some. lia. }
      destruct Hl as [line Hl]. rewrite Hl. cbn [chunk_mappings existsb is_mapped m_orig orb].
      rewrite orb_true_r. reflexivity.
    + replace (len ls <? g_line m) with true by (symmetry; apply N.ltb_lt; lia). rewrite orb_true_r.
      apply IH. exact Hc.
  - replace (g_line m <? cur) with true by (symmetry; apply N.ltb_lt; lia). cbn [orb]. apply IH. exact Hc.
Qed.

Lemma announce_sources_cm m srcs i : chunk_mappings (announce_sources m srcs i) = [].
Proof. rewrite chunk_mappings_chunks_of, announce_sources_chunks. reflexivity. Qed.

Lemma sm_mapped_same_lines v m :
  mapped_chunk_exists (fst (sm_stream v m oLF)) = mapped_chunk_exists (fst (sm_stream v m oLT)).
Proof.
  unfold sm_stream, oLF, oLT. cbn [columns final_source]. rewrite !mapped_chunk_exists_eq, sm_lines_final_cm.
  unfold sm_stream_lines_full. rewrite gen_info_advance.
  destruct (is_nil (split_lines v)) eqn:En.
  - apply is_nil_true in En. apply split_lines_nil in En. subst v. reflexivity.
  - assert (Hv : v <> []) by (intros ->; discriminate).
    replace ((fst (advance 1 0 v) =? 1) && (snd (advance 1 0 v) =? 0)) with false.
    2:{ symmetry. apply andb_false_iff. destruct (advance 1 0 v) as [gl gc] eqn:Ea. cbn [fst snd].
        destruct (N.eq_dec gl 1) as [->|H1]; [|left; apply N.eqb_neq; exact H1].
        destruct (N.eq_dec gc 0) as [->|H2]; [|right; apply N.eqb_neq; exact H2].
        exfalso. apply Hv. apply advance_start_nil. exact Ea. }
    rewrite marks_count_lines', (lines_loops_mapped (split_lines v) _ 1 (N.le_refl 1)).
    destruct (sm_lines_full_loop (split_lines v) (decode_mappings (sm_mappings m)) 1) as [cur evs].
    cbn [fst snd]. rewrite !existsb_cm_app, announce_sources_cm, whole_lines_unmapped. cbn [existsb orb].
    rewrite orb_false_r. reflexivity.
Qed.

Definition msameL (s : src) : Prop :=
  forall st, rshape s = true -> treeA s = true -> rsmall s = true ->
    mapped_chunk_exists (fst (fst (stream st s oLF))) = mapped_chunk_exists (fst (fst (stream st s oLT))).

Lemma msameL_all : forall s, msameL s.
Proof.
  apply src_ind'.
  - intros b v st _ _ _. cbn [stream fst final_source oLF oLT]. unfold raw_stream. cbn [fst].
    rewrite !mapped_chunk_exists_eq, raw_chunks_unmapped. reflexivity.
  - intros v st _ _ _. cbn [stream fst final_source oLF oLT]. unfold raw_stream. cbn [fst].
    rewrite !mapped_chunk_exists_eq, raw_chunks_unmapped. reflexivity.
  - intros v st _ _ _. cbn [stream fst final_source oLF oLT]. unfold raw_stream. cbn [fst].
    rewrite !mapped_chunk_exists_eq, raw_chunks_unmapped. reflexivity.
  - intros v n st _ _ _. cbn [stream fst]. unfold oLF, oLT.
    rewrite !mapped_chunk_exists_eq, original_stream_lines_final_fst, original_stream_lines_text_fst.
    cbn [chunk_mappings]. rewrite line_chunks_mapped, marks_mapped, marks_count_lines'.
    unfold len. rewrite Nat2N.id. destruct (split_lines v); reflexivity.
  - intros v n m og i r st Hsh Ha _. cbn [rshape] in Hsh. destruct i as [im|]; [discriminate|].
    cbn [stream fst]. apply sm_mapped_same_lines.
  - intros cs IH st Hsh Ha Hsm.
    pose proof (rshape_concat cs Hsh) as Hsh'. pose proof (treeA_concat cs Ha) as Ha'.
    pose proof (rsmall_concat cs Hsm) as Hsm'. rewrite Forall_forall in IH.
    destruct (Nat.eq_dec (length cs) 1) as [E|E].
    { destruct cs as [|c [|c2 r]]; try discriminate.
      assert (Hin : In c [c]) by (left; reflexivity).
      change (stream st (SConcat [c]) oLF) with (stream st c oLF).
      change (stream st (SConcat [c]) oLT) with (stream st c oLT).
      apply (IH c Hin st (Hsh' c Hin) (Ha' c Hin) (Hsm' c Hin)). }
    assert (PF : forall c, In c cs -> forall st0, snd (stream st0 c oLF) = st0).
    { intros c Hin st0. apply (tgoodL_all c st0 (Hsh' c Hin) (Ha' c Hin) (Hsm' c Hin)). }
    assert (PT : forall c, In c cs -> forall st0, snd (stream st0 c oLT) = st0).
    { intros c Hin st0. apply (rgood_all c st0 false (Hsh' c Hin) (Ha' c Hin) (Hsm' c Hin)). }
    rewrite (stream_concat_fold st cs oLF E), (stream_concat_fold st cs oLT E).
    rewrite (kid_streams_pure oLF cs PF st), (kid_streams_pure oLT cs PT st). cbn [fst snd final_source oLF oLT].
    set (trs := map (fun c => (fst (stream st c oLF), source c)) cs : list kid).
    assert (E1 : map (fun c => fst (stream st c oLF)) cs = map fst trs).
    { unfold trs. rewrite map_map. apply map_ext. intros c. reflexivity. }
    assert (Hk : Forall kid_ok trs).
    { unfold trs. rewrite Forall_map. apply Forall_forall. intros c Hin.
      apply (tgoodL_all c st (Hsh' c Hin) (Ha' c Hin) (Hsm' c Hin)). }
    rewrite E1, (concat_final_mapped trs Hk), concat_text_mapped.
    2:{ rewrite Forall_map. apply Forall_forall. intros c Hin.
        apply dense_tree_any; [apply Hsh'|apply Ha']; exact Hin. }
    unfold trs. rewrite !existsb_map'. apply existsb_map_same. intros c Hin.
    unfold tr_events. cbn [fst]. apply (IH c Hin st (Hsh' c Hin) (Ha' c Hin) (Hsm' c Hin)).
  - intros i rs _ st _ _ _. reflexivity.
  - intros id i _ st Hsh. discriminate.
Qed.

Theorem mapped_same_tree_lines (st : store) (s : src) :
  rshape s = true -> treeA s = true -> rsmall s = true ->
  mapped_chunk_exists (fst (fst (stream st s (mkOpts false true)))) =
  mapped_chunk_exists (fst (fst (stream st s (mkOpts false false)))).
Proof. intros H1 H2 H3. apply (msameL_all s st H1 H2 H3). Qed.

Theorem get_map_none_tree_lines (st : store) (s : src) :
  rshape s = true -> treeA s = true -> rsmall s = true ->
  forallb mapping_small (chunk_mappings (fst (fst (stream st s (mkOpts false true))))) = true ->
  is_none (fst (get_map st s false)) =
  negb (mapped_chunk_exists (fst (fst (stream st s (mkOpts false false))))).
Proof.
  intros H1 H2 H3 Hs. pose proof (final_enc_domain_lines st s H1 H2 H3 Hs) as He.
  rewrite <- (mapped_same_tree_lines st s H1 H2 H3).
  unfold get_map. destruct (stream st s (mkOpts false true)) as [[evs gi] st']. cbn [fst snd] in *.
  apply map_of_events_none. exact He.
Qed.

(* L3: property C03, columns = false, for the class *)
Theorem C03_tree_lines (st : store) (s : src) :
  rshape s = true -> treeA s = true -> rsmall s = true ->
  forallb mapping_small (chunk_mappings (fst (fst (stream st s (mkOpts false true))))) = true ->
  attr_of_map (fst (get_map st s false)) (source s) false =
  attr_of_stream (fst (fst (stream st s (mkOpts false false)))) false /\
  is_none (fst (get_map st s false)) =
  negb (mapped_chunk_exists (fst (fst (stream st s (mkOpts false false))))).
Proof.
  intros H1 H2 H3 Hs. split; [apply get_map_attr_tree_lines|apply get_map_none_tree_lines]; assumption.
Qed.

(* the comparison of the checker: (file, line) granularity *)
Corollary C03_tree_lines_fl (st : store) (s : src) :
  rshape s = true -> treeA s = true -> rsmall s = true ->
  forallb mapping_small (chunk_mappings (fst (fst (stream st s (mkOpts false true))))) = true ->
  list_eqb_attr attr_eqb_fl (attr_of_map (fst (get_map st s false)) (source s) false)
                (attr_of_stream (fst (fst (stream st s (mkOpts false false)))) false) = true.
Proof. intros H1 H2 H3 Hs. apply attr_lists_eqb_fl. apply get_map_attr_tree_lines; assumption. Qed.

Print Assumptions ne_tree_lines.
Print Assumptions final_attr_tree_lines.
Print Assumptions final_stream_facts_lines.
Print Assumptions mapped_same_tree_lines.
Print Assumptions C03_tree_lines.
