(* ReplaceSource attribution (C06), R1: every byte streamed by a ReplaceSource has the
   (file, line) origin that the byte-level reference of Checkers/ChkComp.v assigns to it:
   surviving inner bytes keep the origin of their inner chunk, replacement contents take the
   origin of the inner chunk covering the emission point. *)
From RS Require Import Base.Prelude Base.Text Rope.RopeModel Codec.Vlq Codec.CodecSpec
  Stream.Types Stream.Leaves Stream.Replace Stream.Tree Sem.Attr Checkers.ChkTree Checkers.ChkComp
  Proofs.RopeWf Proofs.StreamText Proofs.StreamLeaves Proofs.WfStream Proofs.ReplaceSort Proofs.ReplaceText
  Proofs.RStreamText Proofs.RStreamPos Proofs.AttrCodec Proofs.LawConcatAttr
  Proofs.ReplAttrRef Proofs.ReplAttrStream.
Require Import Lia List ZArith.

Local Open Scope N_scope.

(* ------------------------------------------------------------------ *)
(* facts about one chunk of a dense inner stream, shared by R1-R3        *)
(* ------------------------------------------------------------------ *)
Lemma dense_split a : forall b s nn, dense (a ++ b) (len s) (len nn) = true ->
  dense a (len s) (len nn) = true /\
  dense b (len (fst (tabs a s nn))) (len (snd (tabs a s nn))) = true.
Proof.
  induction a as [|e a IH]; intros b s nn H; [split; [reflexivity|exact H]|].
  destruct e as [t m|i nm c|i nm]; cbn [app dense tabs] in *; apply andb_true_iff in H; destruct H as [H1 H2].
  - rewrite H1. cbn [andb]. apply IH. exact H2.
  - rewrite H1. cbn [andb]. apply N.eqb_eq in H1. subst i. rewrite lm_insert_next.
    rewrite <- (slen_snoc s nm) in *. apply IH. exact H2.
  - rewrite H1. cbn [andb]. apply N.eqb_eq in H1. subst i. rewrite lm_insert_next.
    rewrite <- (slen_snoc nn nm) in *. apply IH. exact H2.
Qed.

Lemma dense_chunk_idx ievs done t m todo :
  ievs = done ++ EChunk (Some t) m :: todo -> dense ievs 0 0 = true ->
  idx_ok (fst (tabs done [] [])) (snd (tabs done [] [])) (m_orig m).
Proof.
  intros -> H. apply (dense_split done _ [] []) in H. destruct H as [_ H].
  cbn [dense] in H. apply andb_true_iff in H. destruct H as [H _].
  unfold idx_ok. destruct (m_orig m) as [o|]; [|exact I].
  apply andb_true_iff in H. destruct H as [H1 H2]. split; [apply N.ltb_lt; exact H1|].
  destruct (o_name o); [apply N.ltb_lt; exact H2|exact I].
Qed.

Lemma ref_len_text ievs T : Reass ievs T -> ref_len ievs = len T.
Proof. intros H. unfold ref_len. rewrite chunks_with_attr_cwa, (cwa_text ievs [] [] T H). reflexivity. Qed.

Lemma ref_table_past ievs rs p : ref_len ievs <= p -> bfun (ref_table ievs rs) p = None.
Proof.
  intros H. unfold bfun, ref_table. cbn zeta. rewrite byte_attr_past; [reflexivity|]. exact H.
Qed.

Lemma ref_table_chunk ievs rs done t m todo pre q :
  ievs = done ++ EChunk (Some t) m :: todo -> Reass done pre -> q < len t ->
  bfun (ref_table ievs rs) (len pre + q)
  = chunk_battr ievs (cuts_from (ref_len ievs) (sort_repls rs) 0) (len pre) t
      (res (fst (tabs done [] [])) (snd (tabs done [] [])) (m_orig m)) q.
Proof.
  intros Hi HR Hq. unfold bfun, ref_table. cbn zeta. fold (ref_len ievs).
  rewrite chunks_with_attr_cwa. rewrite Hi at 2. rewrite cwa_app, cwa_chunk.
  pose proof (byte_attr_chunk ievs (cuts_of (schedule (sort_repls rs) (ref_len ievs) 0)) t
                (res (fst (tabs done [] [])) (snd (tabs done [] [])) (m_orig m))
                (cwa todo (fst (tabs done [] [])) (snd (tabs done [] [])))
                (cwa done [] []) 0 q Hq) as K.
  assert (X : concat (map (@fst (list N) attr) (cwa done [] [])) = pre) by exact (cwa_text done [] [] pre HR).
  rewrite X in K.
  rewrite N.add_0_l in K.
  exact (f_equal (fun o : option attr => match o with Some a => a | None => None end) K).
Qed.

(* adv_col only ever changes the column *)
Lemma adv_col_shape st mo piece :
  adv_col st mo piece = mo \/
  exists o c, mo = Some o /\ adv_col st mo piece = Some (mkOrig (o_src o) (o_line o) c (o_name o)).
Proof.
  unfold adv_col. destruct mo as [o|]; [|left; reflexivity].
  destruct (check_content st o piece); [right; exists o; eexists; split; reflexivity|left; reflexivity].
Qed.

Lemma idx_ok_adv_col S Nn st mo piece : idx_ok S Nn mo -> idx_ok S Nn (adv_col st mo piece).
Proof.
  intros H. destruct (adv_col_shape st mo piece) as [->|[o [c [-> ->]]]]; [exact H|exact H].
Qed.

(* ------------------------------------------------------------------ *)
(* R1                                                                  *)
(* ------------------------------------------------------------------ *)
Definition fl (a : attr) : option (text * N) := option_map (fun l => (l_file l, l_line l)) a.

Lemma fl_content_attrs a nm : forall c b, map fl (content_attrs c a nm b) = map (fun _ => fl a) c.
Proof.
  induction c as [|x c IH]; intros b; [reflexivity|].
  cbn [content_attrs map]. rewrite IH. f_equal. destruct a; reflexivity.
Qed.

Lemma fl_adv_col S Nn st mo piece : fl (res S Nn (adv_col st mo piece)) = fl (res S Nn mo).
Proof.
  destruct (adv_col_shape st mo piece) as [->|[o [c [-> ->]]]]; reflexivity.
Qed.

Lemma fl_chunk_battr ievs cuts start t a q : fl (chunk_battr ievs cuts start t a q) = fl a.
Proof. unfold chunk_battr. destruct a; reflexivity. Qed.

Theorem replace_attr_origin_dense (rs : list repl) (ievs : list event) (T : text) (gi : N * N) :
  Forall (fun r => r_start r <= r_end r) rs ->
  reassembles ievs T = true -> no_empty_chunks ievs = true -> dense ievs 0 0 = true ->
  map fl (attr_of_stream (fst (replace_stream (sort_repls rs) ievs gi)) true)
  = map fl (replace_reference ievs rs) /\
  dense (fst (replace_stream (sort_repls rs) ievs gi)) 0 0 = true /\
  no_empty_chunks (fst (replace_stream (sort_repls rs) ievs gi)) = true.
Proof.
  intros Hord HR Hne Hd. apply reassembles_iff in HR.
  rewrite reference_aspl.
  rewrite (aspl_map fl (bfun (ref_table ievs rs)) cfull (fun r x => map (fun _ => x) (r_content r)))
    by (intros r a; apply fl_content_attrs).
  set (B' := fun x => fl (bfun (ref_table ievs rs) x)).
  set (cattr' := fun (r : repl) (x : option (text * N)) => map (fun _ : N => x) (r_content r)).
  assert (Law : forall r a, cattr' r (fl a) = map fl (cfull r a)).
  { intros r a. symmetry. apply fl_content_attrs. }
  assert (Bend : forall p, ref_len ievs <= p -> B' p = fl None).
  { intros p Hp. unfold B'. rewrite ref_table_past by exact Hp. reflexivity. }
  assert (HCH : forall done t m todo pre, ievs = done ++ EChunk (Some t) m :: todo -> Reass done pre ->
            ChunkOb fl B' (cuts_from (ref_len ievs) (sort_repls rs) 0) (len pre) t (m_orig m)
                    (fst (tabs done [] [])) (snd (tabs done [] [])) (ctab done [])).
  { intros done t m todo pre Hi HRd.
    set (S := fst (tabs done [] [])). set (Nn := snd (tabs done [] [])).
    exists (fun _ mo => idx_ok S Nn mo /\ fl (res S Nn mo) = fl (res S Nn (m_orig m))).
    split; [split; [apply (dense_chunk_idx ievs done t m todo Hi Hd)|reflexivity]|].
    split; [intros cpos mo [H _]; exact H|]. split.
    + intros st cpos k mo _ [H1 H2] _ _ _ _. split; [apply idx_ok_adv_col; exact H1|].
      rewrite fl_adv_col. exact H2.
    + intros cpos k mo q [H1 H2] Hk Hk' _ Hq Hq'. unfold B'.
      rewrite (ref_table_chunk ievs rs done t m todo pre q Hi HRd) by lia.
      rewrite fl_chunk_battr. exact H2. }
  exact (replace_stream_attr fl B' cattr' (ref_len ievs) (cuts_from (ref_len ievs) (sort_repls rs) 0)
           Law Bend ievs HCH (sort_repls rs) T gi (sort_repls_ordered rs Hord) HR
           (ref_len_text ievs T HR) Hne Hd eq_refl).
Qed.

Theorem replace_attr_origin (rs : list repl) (ievs : list event) (T : text) (gi : N * N) :
  Forall (fun r => r_start r <= r_end r) rs ->
  reassembles ievs T = true -> no_empty_chunks ievs = true -> dense ievs 0 0 = true ->
  map fl (attr_of_stream (fst (replace_stream (sort_repls rs) ievs gi)) true)
  = map fl (replace_reference ievs rs).
Proof. intros H1 H2 H3 H4. apply (replace_attr_origin_dense rs ievs T gi H1 H2 H3 H4). Qed.

(* the ReplaceSource's own stream is again dense and without empty chunks: the statements nest *)
Corollary replace_stream_dense (rs : list repl) (ievs : list event) (T : text) (gi : N * N) :
  Forall (fun r => r_start r <= r_end r) rs ->
  reassembles ievs T = true -> no_empty_chunks ievs = true -> dense ievs 0 0 = true ->
  dense (fst (replace_stream (sort_repls rs) ievs gi)) 0 0 = true /\
  no_empty_chunks (fst (replace_stream (sort_repls rs) ievs gi)) = true.
Proof. intros H1 H2 H3 H4. apply (replace_attr_origin_dense rs ievs T gi H1 H2 H3 H4). Qed.

(* the same, as the boolean comparison of the checker restricted to (file, line) *)
Corollary replace_attr_origin_chk (rs : list repl) (ievs : list event) (T : text) (gi : N * N) :
  Forall (fun r => r_start r <= r_end r) rs ->
  reassembles ievs T = true -> no_empty_chunks ievs = true -> dense ievs 0 0 = true ->
  list_eqb_attr attr_eqb_fl (attr_of_stream (fst (replace_stream (sort_repls rs) ievs gi)) true)
                            (replace_reference ievs rs) = true.
Proof.
  intros H1 H2 H3 H4. pose proof (replace_attr_origin rs ievs T gi H1 H2 H3 H4) as E.
  revert E. generalize (attr_of_stream (fst (replace_stream (sort_repls rs) ievs gi)) true) as x.
  generalize (replace_reference ievs rs) as y.
  intros y x. revert y. induction x as [|a x IH]; intros [|b y] E; try discriminate; [reflexivity|].
  cbn [map] in E. inversion E as [[E1 E2]]. cbn [list_eqb_attr]. rewrite (IH y E2), andb_true_r.
  destruct a as [la|], b as [lb|]; try discriminate; [|reflexivity].
  cbn [fl option_map] in E1. inversion E1 as [[F1 F2]]. cbn [attr_eqb_fl opt_eqb]. unfold loc_eqb_fl.
  rewrite F1, F2, N.eqb_refl, andb_true_r. apply text_eqb_refl.
Qed.

(* the empty-chunk side condition cannot be dropped: an empty inner chunk between two chunks
   captures a pending replacement that the reference attributes to the following chunk *)
Example replace_attr_origin_empty_chunk_counterexample :
  let ievs := [ESource 0 [102] None; ESource 1 [103] None; ESource 2 [104] None;
               EChunk (Some [97;98;99;100]) (mkMapping 1 0 (Some (mkOrig 0 1 0 None)));
               EChunk (Some []) (mkMapping 1 4 (Some (mkOrig 1 1 0 None)));
               EChunk (Some [101;102]) (mkMapping 1 4 (Some (mkOrig 2 1 0 None)))] in
  let rs := [mkRepl 1 4 [88] None 1; mkRepl 2 5 [89] None 1] in
  reassembles ievs [97;98;99;100;101;102] = true /\ dense ievs 0 0 = true /\
  well_positioned (chunks_of ievs) 1 0 = true /\ chunks_nl_last ievs = true /\
  map fl (attr_of_stream (fst (replace_stream (sort_repls rs) ievs (1, 6))) true)
  <> map fl (replace_reference ievs rs).
Proof. repeat split; try reflexivity. vm_compute. discriminate. Qed.

(* Full statement asked for (FALSE of the model, see the counterexample above: the inner stream
   is in the good class - reassembles, well positioned, chunks_nl_last, dense, ASCII - but has an
   empty chunk):
     forall rs ievs T gi, Forall (fun r => r_start r <= r_end r) rs ->
       reassembles ievs T = true -> well_positioned (chunks_of ievs) 1 0 = true ->
       chunks_nl_last ievs = true -> dense ievs 0 0 = true -> ascii T = true ->
       map fl (attr_of_stream (fst (replace_stream (sort_repls rs) ievs gi)) true)
       = map fl (replace_reference ievs rs).
   The variant proved needs no_empty_chunks in addition and neither positions, chunks_nl_last nor
   ASCII; the streams of the model's own trees have no empty chunk (ReplAttrTree.tidy_tree). *)
Definition C06_replace_origin_partial := replace_attr_origin.

Print Assumptions replace_attr_origin.
Print Assumptions replace_stream_dense.
Print Assumptions replace_attr_origin_chk.
