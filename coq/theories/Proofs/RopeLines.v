(* Rope: `lines_impl` agrees with line splitting of the flat string (R9),
   every produced line is a well-formed rope, and a valid rope only yields
   valid lines. *)
From RS Require Import Base.Prelude Base.Text Rope.RopeModel Rope.RopeProg
  Proofs.RopeBasic Proofs.RopeWf Proofs.RopeUtf8 Proofs.RopeOps.

(* ------------------------------------------------------------------ *)
(* texts without a line break; first line break of a text              *)
(* ------------------------------------------------------------------ *)
Definition nonl (t : text) : Prop := Forall (fun c => (c =? NL) = false) t.

Lemma nonl_nil : nonl [].
Proof. constructor. Qed.

Lemma nonl_app (a b : text) : nonl (a ++ b) <-> nonl a /\ nonl b.
Proof. apply Forall_app. Qed.

Lemma nonl_app_intro (a b : text) : nonl a -> nonl b -> nonl (a ++ b).
Proof. intros Ha Hb. apply nonl_app. auto. Qed.

Lemma nonl_concat (ts : list text) : nonl (concat ts) <-> Forall nonl ts.
Proof. apply Forall_concat. Qed.

(* a text has no line break, or splits at its first one *)
Lemma nl_decomp (t : text) : nonl t \/ exists a b, t = a ++ NL :: b /\ nonl a.
Proof.
  induction t as [|c t IH]; [left; constructor|].
  destruct (c =? NL) eqn:E.
  - right. exists [], t. apply N.eqb_eq in E. subst c. split; [reflexivity|constructor].
  - destruct IH as [IH|(a & b & -> & Ha)].
    + left. constructor; assumption.
    + right. exists (c :: a), b. split; [reflexivity|constructor; assumption].
Qed.

(* a chunk list has no line break, or splits at the first chunk holding one *)
Lemma nl_decomp_chunks (ts : list text) :
  nonl (concat ts) \/
  exists mid ce post a b, ts = mid ++ ce :: post /\ nonl (concat mid) /\ ce = a ++ NL :: b /\ nonl a.
Proof.
  induction ts as [|t ts IH]; [left; constructor|].
  destruct (nl_decomp t) as [Ht|(a & b & -> & Ha)].
  - destruct IH as [IH|(mid & ce & post & a & b & -> & Hm & -> & Ha)].
    + left. cbn [concat]. apply nonl_app_intro; assumption.
    + right. exists (t :: mid), (a ++ NL :: b), post, a, b.
      split; [reflexivity|]. split; [cbn [concat]; apply nonl_app_intro; assumption|]. auto.
  - right. exists [], (a ++ NL :: b), ts, a, b. split; [reflexivity|].
    split; [constructor|]. auto.
Qed.

Lemma find_nl_nonl (a t : text) (i : N) : nonl a -> find_nl (a ++ t) i = find_nl t (i + len a).
Proof.
  revert i. induction a as [|c a IH]; intros i H.
  - rewrite len_nil, N.add_0_r. reflexivity.
  - inversion H as [|c' a' Hc Ha]; subst. cbn [app find_nl]. rewrite Hc, (IH _ Ha), len_cons.
    f_equal. lia.
Qed.

Lemma find_nl_hit (a b : text) (i : N) : nonl a -> find_nl (a ++ NL :: b) i = Some (i + len a).
Proof. intros H. rewrite (find_nl_nonl a _ i H). cbn [find_nl]. rewrite N.eqb_refl. reflexivity. Qed.

Lemma find_nl_none (t : text) (i : N) : nonl t -> find_nl t i = None.
Proof. intros H. rewrite <- (app_nil_r t), (find_nl_nonl t [] i H). reflexivity. Qed.

(* the index form of the same facts *)
Lemma find_nl_app (x y : text) (i : N) :
  find_nl (x ++ y) i = match find_nl x i with Some k => Some k | None => find_nl y (i + len x) end.
Proof.
  destruct (nl_decomp x) as [Hx|(a & b & -> & Ha)].
  - rewrite (find_nl_none x i Hx). apply find_nl_nonl. exact Hx.
  - rewrite <- app_assoc. cbn [app]. rewrite !find_nl_hit by exact Ha. reflexivity.
Qed.

Lemma find_nl_some_spec (t : text) (i j : N) :
  find_nl t i = Some j -> i <= j /\ j - i < len t /\ nth_opt t (j - i) = Some NL.
Proof.
  destruct (nl_decomp t) as [Ht|(a & b & -> & Ha)].
  - rewrite (find_nl_none t i Ht). discriminate.
  - rewrite (find_nl_hit a b i Ha). intros H. injection H as <-.
    replace (i + len a - i) with (len a) by lia. rewrite nth_opt_len_app, len_app, len_cons.
    repeat split; try reflexivity; lia.
Qed.

Lemma take_snoc_mid {A} (a b : list A) (x : A) : take (len a + 1) (a ++ x :: b) = a ++ [x].
Proof.
  replace (a ++ x :: b) with ((a ++ [x]) ++ b) by (rewrite <- app_assoc; reflexivity).
  replace (len a + 1) with (len (a ++ [x])) by (rewrite len_app, len_cons, len_nil; lia).
  apply take_len_app.
Qed.

Lemma drop_snoc_mid {A} (a b : list A) (x : A) : drop (len a + 1) (a ++ x :: b) = b.
Proof.
  replace (a ++ x :: b) with ((a ++ [x]) ++ b) by (rewrite <- app_assoc; reflexivity).
  replace (len a + 1) with (len (a ++ [x])) by (rewrite len_app, len_cons, len_nil; lia).
  apply drop_len_app.
Qed.

(* ------------------------------------------------------------------ *)
(* str_lines, one line at a time                                       *)
(* ------------------------------------------------------------------ *)
Lemma split_aux_nonl (a t cur : text) :
  nonl a -> split_lines_aux (a ++ t) cur = split_lines_aux t (rev a ++ cur).
Proof.
  revert cur. induction a as [|c a IH]; intros cur H; [reflexivity|].
  inversion H as [|c' a' Hc Ha]; subst. cbn [app split_lines_aux]. rewrite Hc, (IH _ Ha).
  cbn [rev]. rewrite <- app_assoc. reflexivity.
Qed.

Lemma last_byte_snoc (x : text) (z : N) : last_byte (x ++ [z]) = Some z.
Proof. unfold last_byte. rewrite rev_app_distr. reflexivity. Qed.

Lemma ends_with_nl_app (x y : text) : y <> [] -> ends_with_nl (x ++ y) = ends_with_nl y.
Proof.
  intros Hy. destruct (exists_last Hy) as [y' [z ->]]. unfold ends_with_nl.
  rewrite app_assoc, !last_byte_snoc. reflexivity.
Qed.

Lemma ends_with_nl_nonl (s : text) : nonl s -> ends_with_nl s = false.
Proof.
  intros H. destruct s as [|c s]; [reflexivity|].
  assert (Hne : c :: s <> []) by discriminate.
  destruct (exists_last Hne) as [y [z E]]. rewrite E in *.
  unfold ends_with_nl. rewrite last_byte_snoc.
  apply nonl_app in H. destruct H as [_ H]. inversion H; subst. assumption.
Qed.

Lemma str_lines_nil (tr : bool) : str_lines [] tr = if tr then [[]] else [].
Proof. destruct tr; reflexivity. Qed.

Lemma str_lines_nonl (s : text) (tr : bool) : nonl s -> s <> [] -> str_lines s tr = [s].
Proof.
  intros H Hne. unfold str_lines, split_lines.
  rewrite <- (app_nil_r s) at 1. rewrite (split_aux_nonl s [] [] H). cbn [split_lines_aux].
  rewrite app_nil_r. rewrite (ends_with_nl_nonl s H).
  destruct s as [|c s]; [contradiction|]. cbn [is_nil orb]. rewrite andb_false_r.
  destruct (rev (c :: s)) as [|x l] eqn:E.
  - apply (f_equal (@length N)) in E. rewrite rev_length in E. discriminate.
  - rewrite <- E, rev_involutive. reflexivity.
Qed.

Lemma str_lines_hit (a b : text) (tr : bool) :
  nonl a -> str_lines (a ++ NL :: b) tr = (a ++ [NL]) :: str_lines b tr.
Proof.
  intros H. unfold str_lines, split_lines.
  rewrite (split_aux_nonl a _ [] H). cbn [split_lines_aux]. rewrite N.eqb_refl.
  cbn [rev]. rewrite app_nil_r, rev_involutive. cbn [app]. f_equal. f_equal.
  assert (E1 : is_nil (a ++ NL :: b) = false) by (destruct a; reflexivity).
  rewrite E1. cbn [orb].
  destruct b as [|x b].
  - cbn [is_nil orb]. unfold ends_with_nl. rewrite last_byte_snoc. reflexivity.
  - cbn [is_nil orb]. rewrite ends_with_nl_app by discriminate.
    change (NL :: x :: b) with ([NL] ++ x :: b). rewrite ends_with_nl_app by discriminate.
    reflexivity.
Qed.

(* the index forms *)
Lemma find_nl_some_decomp (s : text) (idx : N) :
  find_nl s 0 = Some idx ->
  exists a b, s = a ++ NL :: b /\ nonl a /\ idx = len a /\
              take (idx + 1) s = a ++ [NL] /\ drop (idx + 1) s = b.
Proof.
  destruct (nl_decomp s) as [Hs|(a & b & -> & Ha)].
  - rewrite (find_nl_none s 0 Hs). discriminate.
  - rewrite (find_nl_hit a b 0 Ha), N.add_0_l. intros H. injection H as <-.
    exists a, b. rewrite take_snoc_mid, drop_snoc_mid. auto.
Qed.

Lemma find_nl_none_nonl (s : text) (i : N) : find_nl s i = None -> nonl s.
Proof.
  destruct (nl_decomp s) as [Hs|(a & b & -> & Ha)]; [auto|].
  rewrite (find_nl_hit a b i Ha). discriminate.
Qed.

Lemma str_lines_find_none (s : text) (tr : bool) :
  find_nl s 0 = None -> s <> [] -> str_lines s tr = [s].
Proof. intros H. apply str_lines_nonl. exact (find_nl_none_nonl s 0 H). Qed.

Lemma str_lines_find_some (s : text) (idx : N) (tr : bool) :
  find_nl s 0 = Some idx ->
  str_lines s tr = take (idx + 1) s :: str_lines (drop (idx + 1) s) tr.
Proof.
  intros H. destruct (find_nl_some_decomp s idx H) as (a & b & E & Ha & _ & -> & ->).
  rewrite E. apply str_lines_hit. exact Ha.
Qed.

(* ------------------------------------------------------------------ *)
(* validity across a line break                                        *)
(* ------------------------------------------------------------------ *)
Lemma uv_cut_nl (a b : text) : uv (a ++ NL :: b) -> uv (a ++ [NL]) /\ uv b.
Proof.
  intros H.
  assert (Hb : is_boundary (a ++ NL :: b) (len a + 1) = true).
  { apply (uv_after_ascii _ (len a) NL H); [apply nth_opt_len_app|unfold NL; lia]. }
  assert (Hl : len a + 1 <= len (a ++ NL :: b)) by (rewrite len_app, len_cons; lia).
  destruct (uv_split _ _ H Hl Hb) as [H1 H2].
  rewrite take_snoc_mid in H1. rewrite drop_snoc_mid in H2. auto.
Qed.

Lemma forallb_valid_uv (ts : list text) : Forall uv ts -> forallb valid_utf8 ts = true.
Proof.
  induction 1 as [|t ts Ht Hts IH]; [reflexivity|]. cbn [forallb].
  rewrite (proj2 (valid_uv t) Ht), IH. reflexivity.
Qed.

Lemma forallb_valid_uv_inv (ts : list text) : forallb valid_utf8 ts = true -> Forall uv ts.
Proof.
  induction ts as [|t ts IH]; intros H; [constructor|]. cbn [forallb] in H.
  apply andb_prop in H. destruct H as [H1 H2]. constructor; [apply valid_uv; exact H1|exact (IH H2)].
Qed.

Lemma rope_valid_light_uv (t : text) : uv t -> rope_valid (Light t) = true.
Proof. intros H. rewrite rope_valid_light. apply valid_uv. exact H. Qed.

(* ------------------------------------------------------------------ *)
(* Light ropes                                                         *)
(* ------------------------------------------------------------------ *)
Lemma lines_light_spec (tr : bool) (fuel : nat) :
  forall s : text, (length s < fuel)%nat ->
  map flat (lines_light fuel s tr) = str_lines s tr /\
  Forall (fun l => rope_wf l = true) (lines_light fuel s tr) /\
  (uv s -> Forall (fun l => rope_valid l = true) (lines_light fuel s tr)).
Proof.
  induction fuel as [|f IH]; intros s Hf; [lia|].
  cbn [lines_light]. destruct s as [|c s'].
  - rewrite str_lines_nil. destruct tr; cbn [map flat]; repeat split; auto.
  - set (s := c :: s') in *.
    destruct (nl_decomp s) as [Hs|(a & b & E & Ha)].
    + rewrite (find_nl_none s 0 Hs). cbn [map flat].
      rewrite (str_lines_nonl s tr Hs) by discriminate.
      split; [reflexivity|]. split; [repeat constructor|].
      intros Hv. constructor; [apply rope_valid_light_uv; exact Hv|constructor].
    + rewrite E in *. rewrite (find_nl_hit a b 0 Ha), N.add_0_l.
      rewrite take_snoc_mid, drop_snoc_mid.
      assert (Hb : (length b < f)%nat).
      { rewrite app_length in Hf. cbn [length] in Hf. lia. }
      destruct (IH b Hb) as (I1 & I2 & I3).
      cbn [map flat]. rewrite I1, (str_lines_hit a b tr Ha).
      split; [reflexivity|]. split; [constructor; [reflexivity|exact I2]|].
      intros Hv. apply uv_cut_nl in Hv. destruct Hv as [Hv1 Hv2].
      constructor; [apply rope_valid_light_uv; exact Hv1|exact (I3 Hv2)].
Qed.

(* ------------------------------------------------------------------ *)
(* what a list of line ropes has to satisfy                            *)
(* ------------------------------------------------------------------ *)
Definition lines_ok (tr : bool) (R : text) (V : Prop) (L : list rope) : Prop :=
  map flat L = str_lines R tr /\
  Forall (fun l => rope_wf l = true) L /\
  (V -> Forall (fun l => rope_valid l = true) L).

Lemma lines_ok_nil (tr : bool) (V : Prop) : lines_ok tr [] V (if tr then [Light []] else []).
Proof.
  unfold lines_ok. rewrite str_lines_nil. destruct tr; cbn [map flat]; repeat split; auto.
Qed.

Lemma lines_ok_last (tr : bool) (R : text) (V : Prop) (l : rope) :
  nonl R -> R <> [] -> flat l = R -> rope_wf l = true -> (V -> rope_valid l = true) ->
  lines_ok tr R V [l].
Proof.
  intros Hn Hne Hf Hw Hv. unfold lines_ok. cbn [map]. rewrite Hf, (str_lines_nonl R tr Hn Hne).
  split; [reflexivity|]. split; [repeat constructor; exact Hw|].
  intros HV. constructor; [exact (Hv HV)|constructor].
Qed.

Lemma lines_ok_cons (tr : bool) (a b : text) (V V' : Prop) (l : rope) (L : list rope) :
  nonl a -> flat l = a ++ [NL] -> rope_wf l = true -> (V -> rope_valid l = true) ->
  (V -> V') -> lines_ok tr b V' L ->
  lines_ok tr (a ++ NL :: b) V (l :: L).
Proof.
  intros Ha Hf Hw Hv HVV (I1 & I2 & I3). unfold lines_ok. cbn [map].
  rewrite Hf, I1, (str_lines_hit a b tr Ha).
  split; [reflexivity|]. split; [constructor; assumption|].
  intros HV. constructor; [exact (Hv HV)|exact (I3 (HVV HV))].
Qed.

Lemma lines_ok_weaken (tr : bool) (R : text) (V V' : Prop) (L : list rope) :
  (V -> V') -> lines_ok tr R V' L -> lines_ok tr R V L.
Proof. intros HVV (I1 & I2 & I3). unfold lines_ok. auto. Qed.

(* ------------------------------------------------------------------ *)
(* pieces with fresh offsets                                           *)
(* ------------------------------------------------------------------ *)
Lemma nonnil_len (t : text) : nonnil t = true -> 0 < len t.
Proof. unfold nonnil. intros H. apply negb_true_iff in H. apply is_nil_false. exact H. Qed.

Lemma nonnil_intro (t : text) : 0 < len t -> nonnil t = true.
Proof.
  intros H. unfold nonnil. rewrite is_nil_len.
  replace (len t =? 0) with false by (symmetry; apply N.eqb_neq; lia). reflexivity.
Qed.

Lemma full_with_offsets (ts : list text) :
  forallb nonnil ts = true -> ts <> [] ->
  rope_wf (Full (with_offsets ts 0)) = true /\
  full_len (with_offsets ts 0) = len (concat ts) /\
  flat (Full (with_offsets ts 0)) = concat ts /\
  (Forall uv ts -> rope_valid (Full (with_offsets ts 0)) = true).
Proof.
  intros Hnn Hne.
  assert (Hw : rope_wf (Full (with_offsets ts 0)) = true).
  { apply wf_full_intro; [|apply offsets_ok_with_offsets; exact Hnn].
    destruct ts; [contradiction|discriminate]. }
  split; [exact Hw|]. split.
  - rewrite (full_len_wf _ Hw). unfold cat. rewrite map_fst_with_offsets. reflexivity.
  - split.
    + cbn [flat]. rewrite map_fst_with_offsets. reflexivity.
    + intros Hv. rewrite rope_valid_full, map_fst_with_offsets. apply forallb_valid_uv. exact Hv.
Qed.

(* ------------------------------------------------------------------ *)
(* find_end                                                            *)
(* ------------------------------------------------------------------ *)
Lemma is_nil_mid {A} (pre : list A) (c : A) (post : list A) : is_nil (pre ++ c :: post) = false.
Proof. destruct pre; reflexivity. Qed.

Lemma snoc_cons_assoc {A} (pre : list A) (c : A) (post : list A) :
  (pre ++ [c]) ++ post = pre ++ c :: post.
Proof. rewrite <- app_assoc. reflexivity. Qed.

Lemma len_snoc {A} (pre : list A) (c : A) : len (pre ++ [c]) = len pre + 1.
Proof. rewrite len_app, len_cons, len_nil. lia. Qed.

Lemma find_end_hit (pre : list text) (c : text) (post : list text) (ic : N) (a b : text) (f : nat) :
  drop ic c = a ++ NL :: b -> nonl a ->
  find_end (pre ++ c :: post) (len pre) ic (S f) = Some (len pre, ic + len a + 1).
Proof.
  intros E Ha. cbn [find_end]. rewrite nth_opt_len_app, E, (find_nl_hit a b 0 Ha), N.add_0_l.
  reflexivity.
Qed.

Lemma find_end_skip (pre : list text) (c : text) (post : list text) (ic : N) (f : nat) :
  nonl (drop ic c) ->
  find_end (pre ++ c :: post) (len pre) ic (S f) = find_end (pre ++ c :: post) (len pre + 1) 0 f.
Proof.
  intros H. cbn [find_end]. rewrite nth_opt_len_app, (find_nl_none _ 0 H). reflexivity.
Qed.

Lemma find_end_mid (mid : list text) :
  forall (pre : list text) (ce : text) (post : list text) (a b : text) (f : nat),
  nonl (concat mid) -> ce = a ++ NL :: b -> nonl a -> (length mid < f)%nat ->
  find_end (pre ++ mid ++ ce :: post) (len pre) 0 f = Some (len pre + len mid, len a + 1).
Proof.
  induction mid as [|m mid IH]; intros pre ce post a b f Hm Hce Ha Hf.
  - destruct f as [|f]; [lia|]. cbn [app].
    rewrite (find_end_hit pre ce post 0 a b f); [|exact Hce|exact Ha].
    change (len (@nil text)) with 0. f_equal. f_equal; lia.
  - destruct f as [|f]; [cbn [length] in Hf; lia|]. cbn [concat] in Hm.
    apply nonl_app in Hm. destruct Hm as [Hm1 Hm2]. cbn [app].
    rewrite find_end_skip by exact Hm1.
    rewrite <- (snoc_cons_assoc pre m), <- (len_snoc pre m).
    rewrite (IH (pre ++ [m]) ce post a b f Hm2 Hce Ha) by (cbn [length] in Hf; lia).
    rewrite len_snoc, len_cons. f_equal. f_equal. lia.
Qed.

Lemma find_end_far (pre : list text) (c : text) (mid : list text) (ce : text) (post : list text)
  (ic : N) (a b : text) (f : nat) :
  nonl (drop ic c) -> nonl (concat mid) -> ce = a ++ NL :: b -> nonl a ->
  (length mid + 1 < f)%nat ->
  find_end (pre ++ c :: mid ++ ce :: post) (len pre) ic f = Some (len pre + 1 + len mid, len a + 1).
Proof.
  intros Hd Hm Hce Ha Hf. destruct f as [|f]; [lia|].
  rewrite find_end_skip by exact Hd.
  rewrite <- (snoc_cons_assoc pre c), <- (len_snoc pre c).
  rewrite (find_end_mid mid (pre ++ [c]) ce post a b f Hm Hce Ha) by lia. reflexivity.
Qed.

Lemma find_end_none (post : list text) :
  forall (pre : list text) (f : nat),
  nonl (concat post) -> find_end (pre ++ post) (len pre) 0 f = None.
Proof.
  induction post as [|m post IH]; intros pre f H.
  - destruct f as [|f]; [reflexivity|]. cbn [find_end]. rewrite app_nil_r.
    rewrite nth_opt_none by lia. reflexivity.
  - destruct f as [|f]; [reflexivity|]. cbn [concat] in H.
    apply nonl_app in H. destruct H as [H1 H2].
    rewrite find_end_skip by exact H1.
    rewrite <- (snoc_cons_assoc pre m), <- (len_snoc pre m). apply IH. exact H2.
Qed.

Lemma find_end_nonl (pre : list text) (c : text) (post : list text) (ic : N) (f : nat) :
  nonl (drop ic c) -> nonl (concat post) ->
  find_end (pre ++ c :: post) (len pre) ic f = None.
Proof.
  intros Hd Hp. destruct f as [|f]; [reflexivity|].
  rewrite find_end_skip by exact Hd.
  rewrite <- (snoc_cons_assoc pre c), <- (len_snoc pre c). apply find_end_none. exact Hp.
Qed.

(* ------------------------------------------------------------------ *)
(* span_pieces                                                         *)
(* ------------------------------------------------------------------ *)
Ltac nb_false := symmetry; first [apply N.eqb_neq; lia | apply N.ltb_ge; lia | apply N.leb_gt; lia].
Ltac nb_true := symmetry; first [apply N.eqb_eq; lia | apply N.ltb_lt; lia | apply N.leb_le; lia].

Lemma span_skip (pre rest : list text) :
  forall (i sci sic : N) (e : option (N * N)) (acc : N),
  i + len pre = sci ->
  span_pieces (pre ++ rest) i sci sic e acc = span_pieces rest sci sci sic e acc.
Proof.
  induction pre as [|p pre IH]; intros i sci sic e acc H.
  - rewrite len_nil in H. replace i with sci by lia. reflexivity.
  - rewrite len_cons in H. cbn [app span_pieces].
    replace (i <? sci) with true by nb_true. apply IH. lia.
Qed.

Lemma span_mid_some (mid : list text) (ce : text) (post : list text) :
  forall (i sci sic eci eic acc : N),
  sci < i -> i + len mid = eci ->
  span_pieces (mid ++ ce :: post) i sci sic (Some (eci, eic)) acc
  = with_offsets (mid ++ [take eic ce]) acc.
Proof.
  induction mid as [|m mid IH]; intros i sci sic eci eic acc Hi He.
  - rewrite len_nil in He. assert (i = eci) by lia. subst i. cbn [app span_pieces with_offsets].
    replace (eci <? sci) with false by nb_false.
    rewrite N.ltb_irrefl, N.eqb_refl.
    replace (eci =? sci) with false by nb_false.
    f_equal. destruct post as [|q post]; [reflexivity|]. cbn [span_pieces].
    replace (eci + 1 <? sci) with false by nb_false.
    replace (eci <? eci + 1) with true by nb_true. reflexivity.
  - rewrite len_cons in He. cbn [app span_pieces with_offsets].
    replace (i <? sci) with false by nb_false.
    replace (eci <? i) with false by nb_false.
    replace (i =? sci) with false by nb_false.
    replace (i =? eci) with false by nb_false.
    f_equal. apply IH; lia.
Qed.

Lemma span_rest_none (post : list text) :
  forall (i sci sic acc : N), sci < i ->
  span_pieces post i sci sic None acc = with_offsets post acc.
Proof.
  induction post as [|q post IH]; intros i sci sic acc Hi; [reflexivity|].
  cbn [span_pieces with_offsets].
  replace (i <? sci) with false by nb_false.
  replace (i =? sci) with false by nb_false.
  f_equal. apply IH. lia.
Qed.

Lemma span_some (pre : list text) (c : text) (mid : list text) (ce : text) (post : list text)
  (ic eic : N) :
  span_pieces (pre ++ c :: mid ++ ce :: post) 0 (len pre) ic (Some (len pre + 1 + len mid, eic)) 0
  = with_offsets (drop ic c :: mid ++ [take eic ce]) 0.
Proof.
  rewrite span_skip by lia. cbn [span_pieces with_offsets].
  rewrite N.ltb_irrefl, N.eqb_refl.
  replace (len pre + 1 + len mid <? len pre) with false by nb_false.
  f_equal. apply span_mid_some; lia.
Qed.

Lemma span_none (pre : list text) (c : text) (post : list text) (ic : N) :
  span_pieces (pre ++ c :: post) 0 (len pre) ic None 0 = with_offsets (drop ic c :: post) 0.
Proof.
  rewrite span_skip by lia. cbn [span_pieces with_offsets].
  rewrite N.ltb_irrefl, N.eqb_refl. f_equal. apply span_rest_none. lia.
Qed.

(* ------------------------------------------------------------------ *)
(* lines_complex                                                       *)
(* ------------------------------------------------------------------ *)
Lemma concat_mid (pre : list text) (c : text) (post : list text) :
  concat (pre ++ c :: post) = concat pre ++ c ++ concat post.
Proof. rewrite concat_app. reflexivity. Qed.

Lemma forallb_nonnil_mid (pre : list text) (c : text) (post : list text) :
  forallb nonnil (pre ++ c :: post) = true ->
  forallb nonnil pre = true /\ 0 < len c /\ forallb nonnil post = true.
Proof.
  rewrite forallb_app. cbn [forallb]. intros H. apply andb_prop in H. destruct H as [H1 H].
  apply andb_prop in H. destruct H as [H2 H3]. apply nonnil_len in H2. auto.
Qed.

Lemma Forall_mid_elem {A} (P : A -> Prop) (pre : list A) (c : A) (post : list A) :
  Forall P (pre ++ c :: post) -> Forall P pre /\ P c /\ Forall P post.
Proof.
  intros H. apply Forall_app in H. destruct H as [H1 H]. inversion H; subst. auto.
Qed.

Lemma drop_nonnil (ic : N) (c : text) : ic < len c -> drop ic c <> [].
Proof.
  intros H E. assert (H0 : len (drop ic c) = 0) by (rewrite E; reflexivity).
  rewrite len_drop in H0. lia.
Qed.

Lemma lines_complex_spec (tr : bool) (fuel : nat) :
  forall (pre : list text) (c : text) (post : list text) (ic : N),
  forallb nonnil (pre ++ c :: post) = true -> ic <= len c ->
  (length (drop ic c ++ concat post) + length post < fuel)%nat ->
  lines_ok tr (drop ic c ++ concat post)
    (Forall uv (pre ++ c :: post) /\ uv (drop ic c))
    (lines_complex fuel (pre ++ c :: post) (len pre) ic (len (concat pre) + ic)
       (len (concat (pre ++ c :: post))) tr).
Proof.
  induction fuel as [|f IH]; intros pre c post ic Hnn Hic Hf; [lia|].
  destruct (forallb_nonnil_mid _ _ _ Hnn) as (Hnpre & Hc & Hnpost).
  assert (Etot : len (concat (pre ++ c :: post)) = len (concat pre) + (len c + len (concat post)))
    by (rewrite concat_mid, !len_app; reflexivity).
  cbn [lines_complex].
  destruct (len (concat pre) + ic =? len (concat (pre ++ c :: post))) eqn:Ebi.
  - (* end of the text *)
    apply N.eqb_eq in Ebi. rewrite Etot in Ebi.
    assert (Hp0 : len (concat post) = 0) by lia. apply len_0 in Hp0. rewrite Hp0.
    rewrite drop_all by lia. apply lines_ok_nil.
  - apply N.eqb_neq in Ebi. rewrite Etot in Ebi. rewrite is_nil_mid, nth_opt_len_app.
    destruct (N.eq_dec ic (len c)) as [Eic|Eic].
    + (* chunk exhausted: move to the next chunk *)
      subst ic. destruct post as [|c' post'].
      * exfalso. cbn [concat] in Ebi. change (len (@nil N)) with 0 in Ebi. lia.
      * rewrite N.eqb_refl.
        replace (len pre <? len (pre ++ c :: c' :: post') - 1) with true
          by (rewrite len_app, !len_cons; nb_true).
        cbn [andb].
        assert (E1 : len (pre ++ [c]) = len pre + 1) by apply len_snoc.
        assert (E2 : len (concat (pre ++ [c])) + 0 = len (concat pre) + len c).
        { rewrite concat_app, len_app. cbn [concat]. rewrite app_nil_r. lia. }
        specialize (IH (pre ++ [c]) c' post' 0).
        rewrite snoc_cons_assoc, E1, E2 in IH.
        replace (drop (len c) c ++ concat (c' :: post')) with (drop 0 c' ++ concat post')
          by (rewrite (drop_all (len c) c) by lia; reflexivity).
        eapply lines_ok_weaken; [|apply IH].
        -- intros [Hall _]. split; [exact Hall|].
           destruct (Forall_mid_elem uv (pre ++ [c]) c' post') as (_ & Hc' & _);
             [rewrite snoc_cons_assoc; exact Hall|exact Hc'].
        -- exact Hnn.
        -- lia.
        -- rewrite drop_all in Hf by lia. cbn [app concat length] in Hf.
           change (drop 0 c') with c'. lia.
    + (* a line starts inside chunk c *)
      assert (Hlt : ic < len c) by lia.
      replace (ic =? len c) with false by nb_false. cbn [andb].
      pose proof (drop_nonnil ic c Hlt) as Hdne.
      destruct (nl_decomp (drop ic c)) as [Hd|(a & b & Ed & Ha)].
      * destruct (nl_decomp_chunks post) as [Hp|(mid & ce & post' & a & b & Epost & Hm & Ece & Ha)].
        -- (* no further line break: last line *)
           rewrite (find_end_nonl pre c post ic _ Hd Hp).
           destruct post as [|q post'].
           ++ replace (len (pre ++ [c]) - len pre =? 1) with true by (rewrite len_snoc; nb_true).
              cbn [concat]. rewrite app_nil_r.
              apply lines_ok_last; [exact Hd|exact Hdne|reflexivity|reflexivity|].
              intros [_ Hv]. apply rope_valid_light_uv. exact Hv.
           ++ replace (len (pre ++ c :: q :: post') - len pre =? 1) with false
                by (rewrite len_app, !len_cons; nb_false).
              rewrite span_none.
              destruct (full_with_offsets (drop ic c :: q :: post')) as (W1 & W2 & W3 & W4).
              { change (forallb nonnil (drop ic c :: q :: post'))
                  with (nonnil (drop ic c) && forallb nonnil (q :: post')).
                rewrite (nonnil_intro (drop ic c)) by (rewrite len_drop; lia). exact Hnpost. }
              { discriminate. }
              apply lines_ok_last.
              ** apply nonl_app_intro; assumption.
              ** intros E0. apply app_eq_nil in E0. destruct E0 as [E0 _]. exact (Hdne E0).
              ** rewrite W3. reflexivity.
              ** exact W1.
              ** intros [Hall Hv]. apply W4.
                 destruct (Forall_mid_elem _ _ _ _ Hall) as (_ & _ & Hpost).
                 constructor; assumption.
        -- (* the line ends in a later chunk ce *)
           subst post.
           rewrite (find_end_far pre c mid ce post' ic a b _ Hd Hm Ece Ha)
             by (rewrite app_length; cbn [length]; rewrite app_length; cbn [length]; lia).
           replace (len pre =? len pre + 1 + len mid) with false by nb_false.
           rewrite span_some.
           assert (Etake : take (len a + 1) ce = a ++ [NL]) by (rewrite Ece; apply take_snoc_mid).
           assert (Edrop : drop (len a + 1) ce = b) by (rewrite Ece; apply drop_snoc_mid).
           rewrite Etake.
           destruct (forallb_nonnil_mid _ _ _ Hnpost) as (Hnmid & Hce & Hnpost').
           set (ts := drop ic c :: mid ++ [a ++ [NL]]).
           destruct (full_with_offsets ts) as (W1 & W2 & W3 & W4).
           { unfold ts.
             change (forallb nonnil (drop ic c :: mid ++ [a ++ [NL]]))
               with (nonnil (drop ic c) && forallb nonnil (mid ++ [a ++ [NL]])).
             rewrite (nonnil_intro (drop ic c)) by (rewrite len_drop; lia).
             rewrite forallb_app, Hnmid. cbn [forallb andb].
             rewrite nonnil_intro by (rewrite len_snoc; lia). reflexivity. }
           { discriminate. }
           rewrite W2.
           assert (ER : drop ic c ++ concat (mid ++ ce :: post')
                        = (drop ic c ++ concat mid ++ a) ++ NL :: (b ++ concat post')).
           { rewrite concat_app. cbn [concat]. rewrite Ece. rewrite <- !app_assoc. reflexivity. }
           assert (Eassoc : (pre ++ c :: mid) ++ ce :: post' = pre ++ c :: mid ++ ce :: post')
             by (rewrite <- app_assoc; reflexivity).
           rewrite ER.
           apply (lines_ok_cons tr _ _ _
                    (Forall uv ((pre ++ c :: mid) ++ ce :: post') /\ uv (drop (len a + 1) ce))).
           ++ apply nonl_app_intro; [exact Hd|]. apply nonl_app_intro; assumption.
           ++ rewrite W3. unfold ts. cbn [concat]. rewrite concat_app. cbn [concat].
              rewrite app_nil_r, <- !app_assoc. reflexivity.
           ++ exact W1.
           ++ intros [Hall Hv]. apply W4. unfold ts.
              destruct (Forall_mid_elem _ _ _ _ Hall) as (_ & _ & Hrest).
              destruct (Forall_mid_elem _ _ _ _ Hrest) as (Hmid & Huce & _).
              constructor; [exact Hv|]. apply Forall_app. split; [exact Hmid|].
              rewrite Ece in Huce. apply uv_cut_nl in Huce. destruct Huce as [Hu1 _].
              constructor; [exact Hu1|constructor].
           ++ intros [Hall Hv]. rewrite Eassoc. split; [exact Hall|].
              destruct (Forall_mid_elem _ _ _ _ Hall) as (_ & _ & Hrest).
              destruct (Forall_mid_elem _ _ _ _ Hrest) as (_ & Huce & _).
              rewrite Edrop. rewrite Ece in Huce. apply uv_cut_nl in Huce. tauto.
           ++ assert (E1 : len (pre ++ c :: mid) = len pre + 1 + len mid)
                by (rewrite len_app, len_cons; lia).
              assert (E2 : len (concat (pre ++ c :: mid)) + (len a + 1)
                           = len (concat pre) + ic + len (concat ts)).
              { unfold ts. cbn [concat]. rewrite concat_mid, concat_app. cbn [concat].
                rewrite app_nil_r, !len_app, len_drop, len_cons.
                change (len (@nil N)) with 0. lia. }
              specialize (IH (pre ++ c :: mid) ce post' (len a + 1)).
              rewrite E1, E2, Edrop in IH. rewrite Eassoc in IH. rewrite Eassoc, Edrop. apply IH.
              ** exact Hnn.
              ** rewrite Ece, len_app, len_cons. lia.
              ** rewrite ER in Hf.
                 repeat first [rewrite app_length in Hf | progress cbn [length] in Hf].
                 rewrite app_length. lia.
      * (* the line ends inside chunk c *)
        rewrite (find_end_hit pre c post ic a b _ Ed Ha). rewrite N.eqb_refl.
        assert (Hlen : len c - ic = len a + (len b + 1))
          by (rewrite <- len_drop, Ed, len_app, len_cons; reflexivity).
        assert (Esl : slice ic (ic + len a + 1) c = a ++ [NL]).
        { unfold slice. replace (ic + len a + 1 - ic) with (len a + 1) by lia.
          rewrite Ed. apply take_snoc_mid. }
        assert (Edrop : drop (ic + len a + 1) c = b).
        { rewrite <- N.add_assoc, <- drop_drop, Ed. apply drop_snoc_mid. }
        assert (ER : (a ++ NL :: b) ++ concat post = a ++ NL :: (b ++ concat post))
          by (rewrite <- app_assoc; reflexivity).
        rewrite Esl, Ed, ER.
        apply (lines_ok_cons tr _ _ _
                 (Forall uv (pre ++ c :: post) /\ uv (drop (ic + len a + 1) c))).
        -- exact Ha.
        -- reflexivity.
        -- reflexivity.
        -- intros [_ Hv]. apply rope_valid_light_uv. apply uv_cut_nl in Hv. tauto.
        -- intros [Hall Hv]. split; [exact Hall|]. rewrite Edrop. apply uv_cut_nl in Hv. tauto.
        -- specialize (IH pre c post (ic + len a + 1) Hnn). rewrite Edrop in IH.
           replace (len (concat pre) + ic + (ic + len a + 1 - ic))
             with (len (concat pre) + (ic + len a + 1)) by lia.
           rewrite Edrop. apply IH; [lia|].
           rewrite Ed in Hf.
           repeat first [rewrite app_length in Hf | progress cbn [length] in Hf].
           rewrite app_length. lia.
Qed.

(* ------------------------------------------------------------------ *)
(* R7: lines                                                           *)
(* ------------------------------------------------------------------ *)
Lemma rope_lines_ok (r : rope) (tr : bool) :
  rope_wf r = true ->
  lines_ok tr (flat r) (rope_valid r = true) (rope_lines_impl r tr).
Proof.
  intros Hwf. destruct r as [s|ps].
  - cbn [rope_lines_impl flat].
    destruct (lines_light_spec tr (S (length s)) s ltac:(lia)) as (I1 & I2 & I3).
    split; [exact I1|]. split; [exact I2|].
    intros Hv. apply I3. rewrite rope_valid_light in Hv. apply valid_uv. exact Hv.
  - pose proof (rope_len_flat _ Hwf) as Hlen.
    destruct (wf_full ps Hwf) as [Hne Hok].
    pose proof (offsets_ok_nonnil _ _ Hok) as Hnn.
    cbn [rope_lines_impl]. rewrite Hlen. cbn [flat].
    destruct ps as [|[c s] ps']; [contradiction|].
    cbn [map fst] in *.
    pose proof (lines_complex_spec tr (S (S (length (concat (c :: map fst ps')) + length ((c, s) :: ps'))))
                  [] c (map fst ps') 0) as H.
    cbn [app] in H. change (len (@nil text)) with 0 in H.
    change (len (concat (@nil text)) + 0) with 0 in H. change (drop 0 c) with c in H.
    eapply lines_ok_weaken; [|apply H].
    + intros Hv. rewrite rope_valid_full in Hv. cbn [map fst] in Hv.
      apply forallb_valid_uv_inv in Hv. split; [exact Hv|]. inversion Hv; subst. assumption.
    + exact Hnn.
    + lia.
    + cbn [concat length]. rewrite map_length. lia.
Qed.

Theorem rope_lines_flat (r : rope) (tr : bool) :
  rope_wf r = true ->
  map flat (rope_lines_impl r tr) = str_lines (flat r) tr /\
  Forall (fun l => rope_wf l = true) (rope_lines_impl r tr).
Proof.
  intros Hwf. destruct (rope_lines_ok r tr Hwf) as (I1 & I2 & _). auto.
Qed.

Theorem rope_lines_valid (r : rope) (tr : bool) :
  rope_wf r = true -> rope_valid r = true ->
  Forall (fun l => rope_valid l = true) (rope_lines_impl r tr).
Proof.
  intros Hwf Hv. destruct (rope_lines_ok r tr Hwf) as (_ & _ & I3). exact (I3 Hv).
Qed.

Print Assumptions rope_lines_flat.
Print Assumptions rope_lines_valid.
