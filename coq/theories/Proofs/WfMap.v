(* C11, map part (W7): the tables and alphabet clauses of `map_wf` for the map returned by
   get_map, plus the `lines >= 1` clause. *)
From RS Require Import Base.Prelude Base.Text Rope.RopeModel Codec.Vlq Codec.CodecSpec
  Checkers.ChkCodec
  Stream.Types Stream.Leaves Stream.Concat Stream.Replace Stream.Combined Stream.Tree
  Sem.Attr Checkers.ChkTree
  Proofs.CodecVlq Proofs.CodecKept Proofs.CodecMain
  Proofs.StreamText Proofs.StreamLeaves Proofs.StreamMap Proofs.StreamConcat Proofs.StreamTree
  Proofs.WfStream.
Require Import Lia List.

Local Open Scope N_scope.

(* ------------------------------------------------------------------ *)
(* the clauses of map_wf proved here                                   *)
(* ------------------------------------------------------------------ *)
(* indices of every decoded segment inside the tables *)
Definition tables_clause (m : smap) : bool :=
  forallb (fun mp => match m_orig mp with
                     | Some o => (o_src o <? len (sm_sources m))
                                 && match o_name o with Some n => n <? len (sm_names m) | None => true end
                     | None => true end)
          (decode_mappings (sm_mappings m)).

(* mappings string over the base64 alphabet plus ',' ';' *)
Definition alphabet_clause (m : smap) : bool :=
  forallb (fun c => match b64_digit c with Some _ => true | None => (c =? 44) || (c =? 59) end)
          (sm_mappings m).

(* decoded lines >= 1 *)
Definition lines_clause (m : smap) : bool :=
  forallb (fun mp => 1 <=? g_line mp) (decode_mappings (sm_mappings m)).

(* ------------------------------------------------------------------ *)
(* alphabet and lines: any event list                                  *)
(* ------------------------------------------------------------------ *)
Lemma map_of_events_mappings cols evs m : map_of_events cols evs = Some m ->
  sm_mappings m = encode_mappings cols (chunk_mappings evs).
Proof.
  unfold map_of_events. destruct (is_nil (encode_mappings cols (chunk_mappings evs))); [discriminate|].
  intros H. inversion H. reflexivity.
Qed.

Lemma map_of_events_tables_eq cols evs m : map_of_events cols evs = Some m ->
  sm_sources m = t_sources (fold_left tables_event evs (mkT [] [] [])) /\
  sm_names m = t_names (fold_left tables_event evs (mkT [] [] [])).
Proof.
  unfold map_of_events. destruct (is_nil (encode_mappings cols (chunk_mappings evs))); [discriminate|].
  intros H. inversion H. split; reflexivity.
Qed.

Theorem map_of_events_alphabet cols evs m :
  map_of_events cols evs = Some m -> alphabet_clause m = true.
Proof.
  intros H. unfold alphabet_clause. rewrite (map_of_events_mappings cols evs m H).
  apply forallb_forall. intros c Hc.
  assert (A : c < 128 /\ (b64_digit c <> None \/ c = 44 \/ c = 59)).
  { apply (encode_alphabet (chunk_mappings evs) c). unfold encode_mappings in Hc.
    destruct cols; [left|right]; exact Hc. }
  destruct A as [_ [A|[A|A]]].
  - destruct (b64_digit c); [reflexivity|contradiction].
  - subst c. destruct (b64_digit 44); reflexivity.
  - subst c. destruct (b64_digit 59); [reflexivity|]. reflexivity.
Qed.

Theorem decoded_lines_ge1 (m : smap) : lines_clause m = true.
Proof.
  unfold lines_clause. apply forallb_forall. intros mp Hmp.
  pose proof (decode_lines_ge1 (sm_mappings m)) as F. rewrite Forall_forall in F.
  apply N.leb_le. apply F. exact Hmp.
Qed.

(* ------------------------------------------------------------------ *)
(* the tables cover every announced index                              *)
(* ------------------------------------------------------------------ *)
Lemma tables_event_grow t e :
  len (t_sources t) <= len (t_sources (tables_event t e)) /\
  len (t_names t) <= len (t_names (tables_event t e)).
Proof.
  destruct e as [tx m|i n c|i n]; cbn [tables_event t_sources t_names]; rewrite ?lm_insert_len;
    unfold text, byte in *; lia.
Qed.

Lemma tables_fold_grow evs : forall t,
  len (t_sources t) <= len (t_sources (fold_left tables_event evs t)) /\
  len (t_names t) <= len (t_names (fold_left tables_event evs t)).
Proof.
  induction evs as [|e evs IH]; intros t; [cbn [fold_left]; lia|].
  cbn [fold_left]. pose proof (tables_event_grow t e). pose proof (IH (tables_event t e)).
  unfold text, byte in *. lia.
Qed.

Lemma tables_cover evs : forall ns nn t,
  stream_wf evs ns nn = true -> ns <= len (t_sources t) -> nn <= len (t_names t) ->
  Forall (seg_ok (len (t_sources (fold_left tables_event evs t)))
                 (len (t_names (fold_left tables_event evs t)))) (chunk_mappings evs).
Proof.
  induction evs as [|e evs IH]; intros ns nn t Hwf Hs Hn; [constructor|].
  destruct e as [tx m|i n c|i n]; cbn [stream_wf chunk_mappings fold_left] in *.
  - apply andb_true_iff in Hwf. destruct Hwf as [H1 H2].
    constructor; [|apply (IH ns nn); assumption].
    pose proof (tables_fold_grow evs (tables_event t (EChunk tx m))) as [G1 G2].
    change (tables_event t (EChunk tx m)) with t in *. unfold seg_ok. destruct (m_orig m) as [o|]; [|exact I].
    apply andb_true_iff in H1. destruct H1 as [A B]. apply N.ltb_lt in A.
    split; [unfold text, byte in *; lia|].
    destruct (o_name o); [apply N.ltb_lt in B; unfold text, byte in *; lia|exact I].
  - apply andb_true_iff in Hwf. destruct Hwf as [H1 H2]. apply N.leb_le in H1.
    apply (IH _ _ _ H2); cbn [tables_event t_sources t_names]; [|exact Hn].
    rewrite lm_insert_len. destruct (i =? ns) eqn:E; [apply N.eqb_eq in E|]; unfold text, byte in *; lia.
  - apply andb_true_iff in Hwf. destruct Hwf as [H1 H2]. apply N.leb_le in H1.
    apply (IH _ _ _ H2); cbn [tables_event t_sources t_names]; [exact Hs|].
    rewrite lm_insert_len. destruct (i =? nn) eqn:E; [apply N.eqb_eq in E|]; unfold text, byte in *; lia.
Qed.

Lemma line_firsts_from_ok ns nn ms : Forall (seg_ok ns nn) ms ->
  forall last, Forall (seg_ok ns nn) (line_firsts_from last ms).
Proof.
  induction 1 as [|m ms Hm _ IH]; intros last; [constructor|]. cbn [line_firsts_from].
  unfold seg_ok in Hm. destruct (m_orig m) as [o|]; [|apply IH].
  destruct (last =? g_line m); [apply IH|]. constructor; [|apply IH].
  unfold seg_ok. cbn [m_orig orig_ok o_src o_name]. destruct Hm as [A _]. split; [exact A|exact I].
Qed.

Lemma seg_ok_clause ns nn ms : Forall (seg_ok ns nn) ms ->
  forallb (fun mp => match m_orig mp with
                     | Some o => (o_src o <? ns) && match o_name o with Some n => n <? nn | None => true end
                     | None => true end) ms = true.
Proof.
  intros H. apply forallb_forall. rewrite Forall_forall in H. intros mp Hmp. specialize (H mp Hmp).
  unfold seg_ok in H. destruct (m_orig mp) as [o|]; [|reflexivity]. destruct H as [A B].
  apply andb_true_iff. split; [apply N.ltb_lt; exact A|]. destruct (o_name o); [apply N.ltb_lt; exact B|reflexivity].
Qed.

(* what is needed of the codec: decoding the encoded chunk mappings gives the kept segments
   (columns) / the first mapped segment of each line (lines only) *)
Definition roundtrip (cols : bool) (ms : list mapping) : Prop :=
  decode_mappings (encode_mappings cols ms) = if cols then kept ms else line_firsts ms.

Lemma enc_domain_roundtrip cols ms : enc_domain ms = true -> roundtrip cols ms.
Proof.
  intros Hd. unfold roundtrip, encode_mappings. destruct cols;
    [apply decode_encode|apply lines_only_decode]; exact Hd.
Qed.

Theorem map_of_events_tables_gen cols evs m :
  stream_wf evs 0 0 = true -> roundtrip cols (chunk_mappings evs) ->
  map_of_events cols evs = Some m -> tables_clause m = true.
Proof.
  intros Hwf Hd Hm. unfold tables_clause.
  pose proof (map_of_events_tables_eq cols evs m Hm) as [E1 E2].
  rewrite (map_of_events_mappings cols evs m Hm), E1, E2.
  pose proof (tables_cover evs 0 0 (mkT [] [] []) Hwf (N.le_0_l _) (N.le_0_l _)) as C.
  apply seg_ok_clause. unfold roundtrip in Hd. rewrite Hd. destruct cols.
  - apply kept_from_Forall. exact C.
  - apply line_firsts_from_ok. exact C.
Qed.

(* the map built from a well-formed event list whose chunk mappings are in the encoder's domain *)
Theorem map_of_events_tables cols evs m :
  stream_wf evs 0 0 = true -> enc_domain (chunk_mappings evs) = true ->
  map_of_events cols evs = Some m -> tables_clause m = true.
Proof.
  intros Hwf Hd. apply map_of_events_tables_gen; [exact Hwf|apply enc_domain_roundtrip; exact Hd].
Qed.

(* ------------------------------------------------------------------ *)
(* W7                                                                  *)
(* ------------------------------------------------------------------ *)
Lemma get_map_eq st s cols :
  get_map st s cols =
  (map_of_events cols (fst (fst (stream st s (mkOpts cols true)))), snd (stream st s (mkOpts cols true))).
Proof. unfold get_map. destruct (stream st s (mkOpts cols true)) as [[evs gi] st']. reflexivity. Qed.

(* alphabet and lines clauses: every tree *)
Theorem get_map_alphabet (s : src) (st st' : store) (cols : bool) (m : smap) :
  get_map st s cols = (Some m, st') -> alphabet_clause m = true /\ lines_clause m = true.
Proof.
  rewrite get_map_eq. intros H. inversion H as [[H1 H2]].
  split; [eapply map_of_events_alphabet; exact H1|apply decoded_lines_ge1].
Qed.

(* Full statement of the tables clause:
     rshape s = true -> treeA s = true -> get_map st s cols = (Some m, st') -> tables_clause m = true.
   The decoder is only known to invert the encoder on the encoder's domain (`enc_domain`:
   chunk mappings sorted by generated position, every field < 2^30; theorems `decode_encode`,
   `lines_only_decode`), and neither part of that domain follows from `treeA` (nothing bounds
   the original lines/columns of a SourceMapSource's map or the size of the texts), so it is a
   premise here.  No small counterexample exists: an out-of-table index needs a wrapped VLQ
   delta, i.e. more than 2^30 sources or names. *)
Theorem get_map_tables_partial (s : src) (st st' : store) (cols : bool) (m : smap) :
  rshape s = true -> treeA s = true ->
  enc_domain (chunk_mappings (fst (fst (stream st s (mkOpts cols true))))) = true ->
  get_map st s cols = (Some m, st') ->
  tables_clause m = true /\ alphabet_clause m = true /\ lines_clause m = true.
Proof.
  intros Hsh Ha Hd. rewrite get_map_eq. intros H. inversion H as [[H1 H2]].
  split; [|split; [eapply map_of_events_alphabet; exact H1|apply decoded_lines_ge1]].
  apply (map_of_events_tables cols (fst (fst (stream st s (mkOpts cols true)))) m); [|exact Hd|exact H1].
  apply stream_wf_tree; assumption.
Qed.

Print Assumptions get_map_alphabet.
Print Assumptions map_of_events_tables_gen.
Print Assumptions map_of_events_tables.
Print Assumptions get_map_tables_partial.
