(* C13, law "a ReplaceSource whose replacements are all empty insertions behaves as its inner
   source", E2: the byte-level reference of Checkers/ChkComp.v (`replace_reference`) refines the
   attribution of the inner stream pointwise in the sense of `loc_ref` (Checkers/ChkHist.v): same
   file, line and name, and a column that is never below the inner chunk's column (and never
   beyond the byte's own column: `colH_bounds`).  No hypothesis on the inner stream is needed at
   this level. *)
From RS Require Import Base.Prelude Base.Text Rope.RopeModel Codec.Vlq Codec.CodecSpec
  Stream.Types Stream.Leaves Stream.Replace Stream.Tree Api.ApiTree Sem.Attr Sem.HashEq Api.ApiHist
  Checkers.ChkTree Checkers.ChkComp Checkers.ChkHist
  Proofs.RopeWf Proofs.StreamText Proofs.ReplaceSort Proofs.ReplaceText Proofs.RStreamText
  Proofs.AttrCodec Proofs.LawConcatAttr
  Proofs.ReplAttrRef Proofs.ReplAttrStream Proofs.ReplAttrOrigin Proofs.ReplAttrCols
  Proofs.EmptyReplText.
Require Import Lia List.
Import ListNotations.

Local Open Scope N_scope.

(* ------------------------------------------------------------------ *)
(* the refinement relation, as a boolean and as Forall2                  *)
(* ------------------------------------------------------------------ *)
Definition attr_ref (x y : attr) : bool := opt_eqb loc_ref x y.   (* x refines y *)

Lemma list_eqb_attr_Forall2 (e : attr -> attr -> bool) : forall a b,
  list_eqb_attr e a b = true <-> Forall2 (fun x y => e x y = true) a b.
Proof.
  induction a as [|x a IH]; intros [|y b]; cbn [list_eqb_attr].
  - split; [constructor|reflexivity].
  - split; [discriminate|intros H; inversion H].
  - split; [discriminate|intros H; inversion H].
  - rewrite andb_true_iff, IH. split.
    + intros [H1 H2]. constructor; assumption.
    + intros H. inversion H. subst. split; assumption.
Qed.

Lemma attr_ref_refl x : attr_ref x x = true.
Proof.
  destruct x as [l|]; [|reflexivity]. unfold attr_ref, opt_eqb, loc_ref.
  rewrite text_eqb_refl, N.eqb_refl, N.leb_refl. cbn [andb].
  destruct (l_name l) as [n|]; [apply text_eqb_refl|reflexivity].
Qed.

Lemma attr_ref_col (l : loc) (c : N) : l_col l <= c -> attr_ref (attr_with_col (Some l) c) (Some l) = true.
Proof.
  intros H. unfold attr_ref, attr_with_col, opt_eqb, loc_ref. cbn [l_file l_line l_col l_name].
  rewrite text_eqb_refl, N.eqb_refl. replace (l_col l <=? c) with true by (symmetry; apply N.leb_le; exact H).
  cbn [andb]. destruct (l_name l) as [n|]; [apply text_eqb_refl|reflexivity].
Qed.

Lemma Forall2_app' {X Y} (R : X -> Y -> Prop) a a' b b' :
  Forall2 R a b -> Forall2 R a' b' -> Forall2 R (a ++ a') (b ++ b').
Proof. induction 1; intros H'; [exact H'|]. cbn [app]. constructor; [assumption|]. apply IHForall2. exact H'. Qed.

(* a stretch of bytes all related to the one value a chunk carries *)
Lemma Forall2_nrange_const {X Y} (R : X -> Y -> Prop) (B : N -> X) (v : Y) : forall k p,
  (forall x, p <= x -> x < p + N.of_nat k -> R (B x) v) ->
  Forall2 R (map B (nrange p k)) (repeat v k).
Proof.
  induction k as [|k IH]; intros p H; [constructor|].
  cbn [nrange map repeat]. constructor; [apply H; lia|]. apply IH. intros x H1 H2. apply H; lia.
Qed.

Lemma Forall2_bseg_const {X Y} (R : X -> Y -> Prop) (B : N -> X) (v : Y) (t : text) p q :
  p <= q -> len t = q - p -> (forall x, p <= x -> x < q -> R (B x) v) ->
  Forall2 R (bseg B p q) (map (fun _ => v) t).
Proof.
  intros Hpq Hl H. unfold bseg. rewrite map_const_repeat.
  replace (length t) with (N.to_nat (q - p)) by (unfold len in Hl; lia).
  apply Forall2_nrange_const. intros x H1 H2. apply H; lia.
Qed.

(* ------------------------------------------------------------------ *)
(* empty insertions: the attribute splice is the identity                *)
(* ------------------------------------------------------------------ *)
Lemma cfull_empty r a : r_content r = [] -> cfull r a = [].
Proof. intros H. unfold cfull. rewrite H. reflexivity. Qed.

Lemma aspl_empties {A} (B : N -> A) (cattr : repl -> A -> list A) (n : N) :
  (forall r a, r_content r = [] -> cattr r a = []) ->
  forall rest c, empties rest = true -> c <= n -> aspl B cattr n rest c = bseg B c n.
Proof.
  intros Hc. induction rest as [|r rest IH]; intros c H Hcn; [reflexivity|].
  apply empties_cons in H. destruct H as [Hr H]. apply empty_ins_spec in Hr. destruct Hr as [Hse Hcont].
  cbn [aspl]. rewrite (Hc r _ Hcont), <- Hse. cbn [app]. rewrite IH by (try exact H; lia).
  destruct (N.le_gt_cases c (N.min (r_start r) n)) as [K|K].
  - replace (N.max c (N.min (r_start r) n)) with (N.min (r_start r) n) by lia.
    symmetry. apply bseg_split; lia.
  - rewrite bseg_nil by lia. replace (N.max c (N.min (r_start r) n)) with c by lia. reflexivity.
Qed.

(* the reference for empty insertions: every inner byte, with the reference's piece columns *)
Theorem reference_empties (ievs : list event) (rs : list repl) : empties rs = true ->
  replace_reference ievs rs = bseg (bfun (ref_table ievs rs)) 0 (ref_len ievs).
Proof.
  intros H. rewrite reference_aspl. apply aspl_empties.
  - intros r a. apply cfull_empty.
  - apply empties_sort. exact H.
  - lia.
Qed.

(* ------------------------------------------------------------------ *)
(* the column in force inside a chunk: between the chunk's column and     *)
(* the byte's own column                                                  *)
(* ------------------------------------------------------------------ *)
Lemma cstep_bounds cnt line t p c k : c <= cstep cnt line t p c k /\ cstep cnt line t p c k <= c + (k - p).
Proof.
  unfold cstep. cbn zeta. destruct (piece_match cnt line c (slice p k t)); [|lia].
  split; [lia|]. assert (len (slice p k t) <= k - p); [|lia].
  unfold slice. rewrite len_take. lia.
Qed.

Lemma colH_lower cnt line t : forall cuts prev col q, col <= colH cnt line t prev col cuts q.
Proof.
  induction cuts as [|y cuts IH]; intros prev col q; [rewrite colH_nil; lia|].
  rewrite colH_cons. destruct (y <=? q); [|lia].
  specialize (IH y (cstep cnt line t prev col y) q).
  pose proof (cstep_bounds cnt line t prev col y). lia.
Qed.

Lemma colH_upper cnt line t : forall cuts prev col q, incr prev cuts -> prev <= q ->
  colH cnt line t prev col cuts q <= col + (q - prev).
Proof.
  induction cuts as [|y cuts IH]; intros prev col q Hi Hq; [rewrite colH_nil; lia|].
  destruct Hi as [Hy Hi]. rewrite colH_cons. destruct (N.leb_spec y q) as [K|K]; [|lia].
  specialize (IH y (cstep cnt line t prev col y) q Hi K).
  pose proof (cstep_bounds cnt line t prev col y). lia.
Qed.

Lemma colH_bounds cnt line t cuts col q : incr 0 cuts ->
  col <= colH cnt line t 0 col cuts q /\ colH cnt line t 0 col cuts q <= col + q.
Proof.
  intros Hi. split; [apply colH_lower|].
  pose proof (colH_upper cnt line t cuts 0 col q Hi). lia.
Qed.

(* one byte of one chunk: the reference refines the chunk's attribution *)
Lemma chunk_battr_ref ievs cuts start t a q : attr_ref (chunk_battr ievs cuts start t a q) a = true.
Proof.
  destruct a as [l|]; [|reflexivity]. rewrite chunk_battr_colH. apply attr_ref_col. apply colH_lower.
Qed.

(* ... and stays at or before the byte's own column *)
Lemma chunk_battr_col ievs cuts start t l q :
  exists c, chunk_battr ievs cuts start t (Some l) q = Some (mkLoc (l_file l) (l_line l) c (l_name l)) /\
            l_col l <= c /\ c <= l_col l + q.
Proof.
  rewrite chunk_battr_colH. eexists. split; [reflexivity|]. apply colH_bounds. apply rel_cuts_incr.
Qed.

(* ------------------------------------------------------------------ *)
(* the table, chunk after chunk                                          *)
(* ------------------------------------------------------------------ *)
Definition cover_of (chs : list cchunk) : list attr :=
  flat_map (fun c => map (fun _ => snd c) (fst c)) chs.

Lemma attr_cover_cwa : forall evs S Nn, attr_cover (rsegs_of_events evs S Nn) = cover_of (cwa evs S Nn).
Proof.
  induction evs as [|e evs IH]; intros S Nn; [reflexivity|].
  destruct e as [[t|] m|i nm c|i nm].
  - rewrite cwa_chunk. cbn [rsegs_of_events attr_cover cover_of flat_map fst snd].
    f_equal. apply IH.
  - cbn [rsegs_of_events attr_cover]. rewrite IH. reflexivity.
  - cbn [rsegs_of_events]. rewrite IH. reflexivity.
  - cbn [rsegs_of_events]. rewrite IH. reflexivity.
Qed.

Lemma bfun_row_in ievs cuts t a chs start x : start <= x -> x < start + len t ->
  bfun (inner_expected ievs ((t, a) :: chs) start cuts) x = chunk_battr ievs cuts start t a (x - start).
Proof.
  intros H1 H2. unfold bfun. rewrite inner_expected_cons. cbn [byte_attr].
  replace (start <=? x) with true by (symmetry; apply N.leb_le; exact H1).
  replace (x <? start + len t) with true by (symmetry; apply N.ltb_lt; exact H2).
  cbn [andb]. unfold chunk_battr. reflexivity.
Qed.

Lemma bfun_row_after ievs cuts t a chs start x : start + len t <= x ->
  bfun (inner_expected ievs ((t, a) :: chs) start cuts) x
  = bfun (inner_expected ievs chs (start + len t) cuts) x.
Proof.
  intros H. unfold bfun. rewrite inner_expected_cons. cbn [byte_attr].
  replace (x <? start + len t) with false by (symmetry; apply N.ltb_ge; exact H).
  rewrite andb_false_r. reflexivity.
Qed.

Lemma table_refines ievs cuts : forall chs start,
  Forall2 (fun x y => attr_ref x y = true)
    (bseg (bfun (inner_expected ievs chs start cuts)) start (start + len (concat (map fst chs))))
    (cover_of chs).
Proof.
  induction chs as [|[t a] chs IH]; intros start.
  - cbn [map concat cover_of flat_map]. rewrite len_nil, bseg_nil by lia. constructor.
  - cbn [map fst concat cover_of flat_map snd]. rewrite len_app.
    rewrite (bseg_split _ start (start + len t)) by lia.
    apply Forall2_app'.
    + apply Forall2_bseg_const; [lia|lia|]. intros x H1 H2.
      rewrite bfun_row_in by assumption. apply chunk_battr_ref.
    + rewrite (bseg_ext _ (bfun (inner_expected ievs chs (start + len t) cuts))).
      * replace (start + (len t + len (concat (map fst chs))))
          with (start + len t + len (concat (map fst chs))) by lia.
        apply IH.
      * intros x H1 H2. apply bfun_row_after. exact H1.
Qed.

(* ------------------------------------------------------------------ *)
(* E2                                                                    *)
(* ------------------------------------------------------------------ *)
Theorem replace_reference_empties_Forall2 (ievs : list event) (rs : list repl) :
  empties rs = true ->
  Forall2 (fun x y => opt_eqb loc_ref x y = true)
          (replace_reference ievs rs) (attr_cover (rsegs_of_events ievs [] [])).
Proof.
  intros H. rewrite (reference_empties ievs rs H), attr_cover_cwa, <- chunks_with_attr_cwa.
  unfold ref_table, ref_len. cbn zeta.
  apply (table_refines ievs _ (chunks_with_attr ievs) 0).
Qed.

Theorem replace_reference_empties (ievs : list event) (rs : list repl) :
  empties rs = true ->
  list_eqb_attr (opt_eqb loc_ref) (replace_reference ievs rs) (attr_cover (rsegs_of_events ievs [] [])) = true.
Proof. intros H. apply list_eqb_attr_Forall2. apply replace_reference_empties_Forall2. exact H. Qed.

(* at (file, line) granularity - and (file, line, name) - nothing changes at all *)
Definition fln (a : attr) : option (text * N * option text) :=
  option_map (fun l => (l_file l, l_line l, l_name l)) a.

Lemma attr_ref_fln x y : attr_ref x y = true -> fln x = fln y.
Proof.
  destruct x as [a|], y as [b|]; cbn [attr_ref opt_eqb]; try discriminate; [|reflexivity].
  unfold loc_ref. intros H. apply andb_true_iff in H. destruct H as [H Hn].
  apply andb_true_iff in H. destruct H as [H _]. apply andb_true_iff in H. destruct H as [Hf Hl].
  apply text_eqb_eq in Hf. apply N.eqb_eq in Hl. apply opt_text_eqb_eq in Hn.
  cbn [fln option_map]. rewrite Hf, Hl, Hn. reflexivity.
Qed.

Lemma Forall2_map_eq {X Y} (f : X -> Y) : forall a b, Forall2 (fun x y => f x = f y) a b -> map f a = map f b.
Proof. induction 1; [reflexivity|]. cbn [map]. f_equal; assumption. Qed.

Lemma Forall2_weaken {X Y} (R R' : X -> Y -> Prop) : (forall x y, R x y -> R' x y) ->
  forall a b, Forall2 R a b -> Forall2 R' a b.
Proof. intros H a b. induction 1; constructor; auto. Qed.

Corollary replace_reference_empties_fln (ievs : list event) (rs : list repl) :
  empties rs = true ->
  map fln (replace_reference ievs rs) = map fln (attr_cover (rsegs_of_events ievs [] [])).
Proof.
  intros H. apply Forall2_map_eq. eapply Forall2_weaken; [|apply (replace_reference_empties_Forall2 ievs rs H)].
  intros x y. apply attr_ref_fln.
Qed.

Lemma fln_fl a b : fln a = fln b -> fl a = fl b.
Proof.
  destruct a as [x|], b as [y|]; cbn [fln fl option_map]; intros H; try discriminate; [|reflexivity].
  inversion H. reflexivity.
Qed.

Corollary replace_reference_empties_fl (ievs : list event) (rs : list repl) :
  empties rs = true ->
  map fl (replace_reference ievs rs) = map fl (attr_cover (rsegs_of_events ievs [] [])).
Proof.
  intros H. apply Forall2_map_eq. eapply Forall2_weaken; [|apply (replace_reference_empties_Forall2 ievs rs H)].
  intros x y K. apply fln_fl. apply attr_ref_fln. exact K.
Qed.

(* ------------------------------------------------------------------ *)
(* the identity refinement proper: the column is also never beyond the    *)
(* byte's own column (chunk column + offset of the byte in its chunk)     *)
(* ------------------------------------------------------------------ *)
Definition tight (x : attr) (y : attr * N) : Prop :=
  attr_ref x (fst y) = true /\
  match x, fst y with Some a, Some b => l_col a <= l_col b + snd y | _, _ => True end.

(* every byte of the inner stream with its chunk's attribution and its offset in the chunk *)
Definition cover_off (chs : list cchunk) : list (attr * N) :=
  flat_map (fun c => map (fun k => (snd c, k)) (nrange 0 (length (fst c)))) chs.

Lemma nrange_map_fst {X} (v : X) : forall k o, map fst (map (fun j : N => (v, j)) (nrange o k)) = repeat v k.
Proof. induction k as [|k IH]; intros o; [reflexivity|]. cbn [nrange map fst repeat]. rewrite IH. reflexivity. Qed.

Lemma cover_off_fst : forall chs, map fst (cover_off chs) = cover_of chs.
Proof.
  induction chs as [|[t a] chs IH]; [reflexivity|].
  cbn [cover_off cover_of flat_map fst snd]. rewrite map_app. fold (cover_off chs). fold (cover_of chs).
  rewrite IH, nrange_map_fst, map_const_repeat. reflexivity.
Qed.

Lemma Forall2_nrange_off {X Y} (R : X -> Y * N -> Prop) (B : N -> X) (v : Y) : forall k p o,
  (forall j, j < N.of_nat k -> R (B (p + j)) (v, o + j)) ->
  Forall2 R (map B (nrange p k)) (map (fun j => (v, j)) (nrange o k)).
Proof.
  induction k as [|k IH]; intros p o H; [constructor|].
  cbn [nrange map]. constructor.
  - specialize (H 0). rewrite !N.add_0_r in H. apply H. lia.
  - apply IH. intros j Hj. replace (p + 1 + j) with (p + (1 + j)) by lia.
    replace (o + 1 + j) with (o + (1 + j)) by lia. apply H. lia.
Qed.

Lemma chunk_battr_tight ievs cuts start t a q : tight (chunk_battr ievs cuts start t a q) (a, q).
Proof.
  split; [apply chunk_battr_ref|]. cbn [fst snd]. destruct a as [l|]; [|destruct (chunk_battr _ _ _ _ _ _); exact I].
  destruct (chunk_battr_col ievs cuts start t l q) as [c [E [_ Hc]]]. rewrite E. cbn [l_col]. exact Hc.
Qed.

Lemma table_tight ievs cuts : forall chs start,
  Forall2 tight
    (bseg (bfun (inner_expected ievs chs start cuts)) start (start + len (concat (map fst chs))))
    (cover_off chs).
Proof.
  induction chs as [|[t a] chs IH]; intros start.
  - cbn [map concat cover_off flat_map]. rewrite len_nil, bseg_nil by lia. constructor.
  - cbn [map fst concat cover_off flat_map snd]. rewrite len_app.
    rewrite (bseg_split _ start (start + len t)) by lia.
    apply Forall2_app'.
    + unfold bseg. replace (N.to_nat (start + len t - start)) with (length t) by (unfold len; lia).
      apply Forall2_nrange_off. intros j Hj. fold (len t) in Hj.
      rewrite bfun_row_in by lia. replace (start + j - start) with j by lia. rewrite N.add_0_l.
      apply chunk_battr_tight.
    + rewrite (bseg_ext _ (bfun (inner_expected ievs chs (start + len t) cuts))).
      * replace (start + (len t + len (concat (map fst chs))))
          with (start + len t + len (concat (map fst chs))) by lia.
        apply IH.
      * intros x H1 H2. apply bfun_row_after. exact H1.
Qed.

Theorem replace_reference_empties_tight (ievs : list event) (rs : list repl) :
  empties rs = true ->
  Forall2 tight (replace_reference ievs rs) (cover_off (chunks_with_attr ievs)) /\
  map fst (cover_off (chunks_with_attr ievs)) = attr_cover (rsegs_of_events ievs [] []).
Proof.
  intros H. split.
  - rewrite (reference_empties ievs rs H). unfold ref_table, ref_len. cbn zeta.
    apply (table_tight ievs _ (chunks_with_attr ievs) 0).
  - rewrite cover_off_fst, attr_cover_cwa, <- chunks_with_attr_cwa. reflexivity.
Qed.

Print Assumptions reference_empties.
Print Assumptions replace_reference_empties_Forall2.
Print Assumptions replace_reference_empties.
Print Assumptions replace_reference_empties_fln.
Print Assumptions replace_reference_empties_fl.
Print Assumptions replace_reference_empties_tight.
