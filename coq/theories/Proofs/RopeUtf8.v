(* Structure of valid UTF-8 texts: a valid text is a sequence of characters,
   each a non-continuation lead byte followed by continuation bytes.
   Consequences used by the rope proofs: cutting at char boundaries keeps
   validity, piece starts are boundaries, char_indices distributes. *)
From RS Require Import Base.Prelude Base.Text Rope.RopeModel Proofs.RopeBasic Proofs.RopeWf.

(* number of continuation bytes of the char with lead b0, if t1 continues it validly *)
Definition char_len_ok (b0 : N) (t1 : text) : option nat :=
  if b0 <? 128 then Some 0%nat
  else if in_range 194 223 b0 then
    match t1 with b1 :: _ => if in_range 128 191 b1 then Some 1%nat else None | _ => None end
  else if b0 =? 224 then
    match t1 with b1 :: b2 :: _ => if in_range 160 191 b1 && in_range 128 191 b2 then Some 2%nat else None | _ => None end
  else if in_range 225 236 b0 || in_range 238 239 b0 then
    match t1 with b1 :: b2 :: _ => if in_range 128 191 b1 && in_range 128 191 b2 then Some 2%nat else None | _ => None end
  else if b0 =? 237 then
    match t1 with b1 :: b2 :: _ => if in_range 128 159 b1 && in_range 128 191 b2 then Some 2%nat else None | _ => None end
  else if b0 =? 240 then
    match t1 with b1 :: b2 :: b3 :: _ => if in_range 144 191 b1 && in_range 128 191 b2 && in_range 128 191 b3 then Some 3%nat else None | _ => None end
  else if in_range 241 243 b0 then
    match t1 with b1 :: b2 :: b3 :: _ => if in_range 128 191 b1 && in_range 128 191 b2 && in_range 128 191 b3 then Some 3%nat else None | _ => None end
  else if b0 =? 244 then
    match t1 with b1 :: b2 :: b3 :: _ => if in_range 128 143 b1 && in_range 128 191 b2 && in_range 128 191 b3 then Some 3%nat else None | _ => None end
  else None.

Ltac destr_ifs :=
  repeat match goal with
         | |- context [if ?c then _ else _] => destruct c eqn:?
         end.

Ltac destr_ifs_in H :=
  repeat match type of H with
         | context [if ?c then _ else _] => destruct c eqn:?
         end.

Ltac bool_prop :=
  unfold in_range, is_cont in *;
  repeat (progress (rewrite ?andb_true_iff, ?andb_false_iff, ?orb_true_iff, ?orb_false_iff,
    ?N.leb_le, ?N.ltb_lt, ?N.leb_gt, ?N.ltb_ge, ?N.eqb_eq, ?N.eqb_neq in * )).

Lemma valid_fuel_step (f : nat) (b0 : N) (t1 : text) :
  valid_utf8_fuel (S f) (b0 :: t1) =
  match char_len_ok b0 t1 with Some k => valid_utf8_fuel f (skipn k t1) | None => false end.
Proof.
  cbn [valid_utf8_fuel]. unfold char_len_ok.
  destruct t1 as [|b1 [|b2 [|b3 t4]]]; destr_ifs; reflexivity.
Qed.

Definition char_ok (b0 : N) (cs : text) : Prop := char_len_ok b0 cs = Some (length cs).

Lemma char_len_ok_firstn (b0 : N) (t1 : text) (k : nat) :
  char_len_ok b0 t1 = Some k -> char_ok b0 (firstn k t1) /\ (k <= length t1)%nat.
Proof.
  unfold char_ok, char_len_ok. intros H.
  destruct t1 as [|b1 [|b2 [|b3 t4]]]; destr_ifs_in H; try discriminate;
    injection H as H; subst k; cbn [firstn length];
    repeat match goal with E : ?c = _ |- context [?c] => rewrite E end;
    cbn [andb orb]; split; try reflexivity; lia.
Qed.

Lemma char_ok_ext (b0 : N) (cs t : text) :
  char_ok b0 cs -> char_len_ok b0 (cs ++ t) = Some (length cs).
Proof.
  unfold char_ok, char_len_ok. intros H.
  destruct cs as [|b1 [|b2 [|b3 t4]]]; cbn [app length] in *; destr_ifs_in H; try discriminate;
    try (injection H as H; try discriminate H; try lia);
    repeat match goal with E : ?c = _ |- context [?c] => rewrite E end; cbn [andb orb]; try reflexivity.
Qed.

Lemma char_ok_lead (b0 : N) (cs : text) : char_ok b0 cs -> is_cont b0 = false.
Proof.
  unfold char_ok, char_len_ok. intros H.
  destr_ifs_in H; try discriminate; bool_prop; lia.
Qed.

Lemma char_ok_conts (b0 : N) (cs : text) : char_ok b0 cs -> forallb is_cont cs = true.
Proof.
  unfold char_ok, char_len_ok. intros H.
  destruct cs as [|b1 [|b2 [|b3 [|b4 t5]]]]; cbn [length] in H; destr_ifs_in H; try discriminate;
    try (injection H as H; try discriminate H; try lia);
    cbn [forallb]; bool_prop; repeat split; lia.
Qed.

Lemma char_ok_ascii (b0 : N) (cs : text) : char_ok b0 cs -> b0 < 128 -> cs = [].
Proof.
  unfold char_ok, char_len_ok. intros H Hb.
  replace (b0 <? 128) with true in H by (symmetry; apply N.ltb_lt; exact Hb).
  injection H as H. destruct cs; [reflexivity|discriminate].
Qed.

Lemma char_ok_ascii_intro (b0 : N) : b0 < 128 -> char_ok b0 [].
Proof.
  intros Hb. unfold char_ok, char_len_ok.
  replace (b0 <? 128) with true by (symmetry; apply N.ltb_lt; exact Hb). reflexivity.
Qed.

Lemma char_ok_decode (b0 : N) (cs t : text) :
  char_ok b0 cs -> decode_char b0 (cs ++ t) = decode_char b0 cs.
Proof.
  unfold char_ok, char_len_ok. intros H.
  assert (E0 : forall (x : N) l, nth_opt (x :: l) 0 = Some x) by reflexivity.
  assert (E1 : forall (x y : N) l, nth_opt (x :: y :: l) 1 = Some y) by reflexivity.
  assert (E2 : forall (x y z : N) l, nth_opt (x :: y :: z :: l) 2 = Some z) by reflexivity.
  destruct cs as [|b1 [|b2 [|b3 [|b4 t5]]]]; cbn [length app] in *; destr_ifs_in H; try discriminate;
    try (injection H as H; try discriminate H; try lia);
    unfold decode_char; rewrite ?E0, ?E1, ?E2;
    repeat match goal with E : (_ <? _) = _ |- _ => rewrite E end; try reflexivity;
    bool_prop; destr_ifs; try reflexivity; bool_prop; lia.
Qed.

(* ---- valid texts as sequences of chars ---- *)
Inductive uv : text -> Prop :=
| uv_nil : uv []
| uv_cons (b0 : N) (cs t : text) : char_ok b0 cs -> uv t -> uv (b0 :: cs ++ t).

Lemma skipn_length_app {A} (a b : list A) : skipn (length a) (a ++ b) = b.
Proof. induction a as [|x a IH]; [reflexivity|exact IH]. Qed.

Lemma valid_fuel_uv (f : nat) (t : text) : valid_utf8_fuel f t = true -> uv t.
Proof.
  revert t. induction f as [|f IH]; intros t H.
  - destruct t; [constructor|discriminate].
  - destruct t as [|b0 t1]; [constructor|].
    rewrite valid_fuel_step in H.
    destruct (char_len_ok b0 t1) as [k|] eqn:E; [|discriminate].
    apply char_len_ok_firstn in E. destruct E as [E _].
    rewrite <- (firstn_skipn k t1). apply uv_cons; [exact E|exact (IH _ H)].
Qed.

Lemma uv_valid_fuel (t : text) : uv t -> forall f, (length t <= f)%nat -> valid_utf8_fuel f t = true.
Proof.
  induction 1 as [|b0 cs t Hc Ht IH]; intros f Hf.
  - destruct f; reflexivity.
  - destruct f as [|f]; [cbn [length] in Hf; lia|].
    rewrite valid_fuel_step. rewrite (char_ok_ext b0 cs t Hc).
    rewrite skipn_length_app. apply IH.
    cbn [length] in Hf. rewrite app_length in Hf. lia.
Qed.

Theorem valid_uv (t : text) : valid_utf8 t = true <-> uv t.
Proof.
  split.
  - apply valid_fuel_uv.
  - intros H. apply (uv_valid_fuel t H). lia.
Qed.

Lemma uv_hd (b : N) (t : text) : uv (b :: t) -> is_cont b = false.
Proof. intros H. inversion H; subst. eapply char_ok_lead; eassumption. Qed.

Lemma uv_app (a b : text) : uv a -> uv b -> uv (a ++ b).
Proof.
  induction 1 as [|b0 cs t Hc Ht IH]; intros Hb; [exact Hb|].
  cbn [app]. rewrite <- app_assoc. apply uv_cons; [exact Hc|exact (IH Hb)].
Qed.

Lemma uv_ascii (c : N) (t : text) : c < 128 -> uv t -> uv (c :: t).
Proof. intros Hc Ht. apply (uv_cons c [] t); [apply char_ok_ascii_intro; exact Hc|exact Ht]. Qed.

Lemma conts_nth (cs : text) (i : nat) (b : N) :
  forallb is_cont cs = true -> nth_error cs i = Some b -> is_cont b = true.
Proof.
  intros H Hn. apply nth_error_In in Hn. rewrite forallb_forall in H. exact (H _ Hn).
Qed.

(* nat-indexed boundary condition *)
Definition bnd (t : text) (i : nat) : Prop :=
  i = 0%nat \/ match nth_error t i with Some b => is_cont b = false | None => True end.

Lemma uv_split_nat (t : text) :
  uv t -> forall i, (i <= length t)%nat -> bnd t i -> uv (firstn i t) /\ uv (skipn i t).
Proof.
  induction 1 as [|b0 cs t Hc Ht IH]; intros i Hi Hb.
  - rewrite firstn_nil, skipn_nil. split; constructor.
  - destruct i as [|i'].
    + cbn [firstn skipn]. split; [constructor|apply uv_cons; assumption].
    + destruct Hb as [Hb|Hb]; [discriminate|]. cbn [nth_error] in Hb.
      cbn [length] in Hi. rewrite app_length in Hi.
      destruct (Nat.lt_ge_cases i' (length cs)) as [Hlt|Hge].
      * exfalso. rewrite nth_error_app1 in Hb by exact Hlt.
        destruct (nth_error cs i') as [b|] eqn:En.
        -- rewrite (conts_nth cs i' b (char_ok_conts _ _ Hc) En) in Hb. discriminate.
        -- apply nth_error_None in En. lia.
      * replace i' with (length cs + (i' - length cs))%nat by lia.
        set (j := (i' - length cs)%nat).
        assert (Hj : (j <= length t)%nat) by (unfold j; lia).
        assert (Hbj : bnd t j).
        { destruct j as [|j'] eqn:Ej; [left; reflexivity|right].
          rewrite nth_error_app2 in Hb by exact Hge. fold j in Hb. rewrite Ej in Hb. exact Hb. }
        destruct (IH j Hj Hbj) as [IH1 IH2].
        cbn [firstn skipn]. rewrite firstn_app_2.
        split; [apply uv_cons; assumption|].
        rewrite skipn_app, skipn_all2 by lia.
        replace (length cs + j - length cs)%nat with j by lia. exact IH2.
Qed.

Lemma is_boundary_bnd (t : text) (i : N) : is_boundary t i = true -> bnd t (N.to_nat i).
Proof.
  unfold is_boundary, bnd, nth_opt. destruct (i =? 0) eqn:E0.
  - intros _. left. apply N.eqb_eq in E0. lia.
  - intros H. right. destruct (nth_error t (N.to_nat i)) as [b|]; [|exact I].
    apply negb_true_iff in H. exact H.
Qed.

Theorem uv_split (t : text) (i : N) :
  uv t -> i <= len t -> is_boundary t i = true -> uv (take i t) /\ uv (drop i t).
Proof.
  intros Ht Hi Hb. unfold take, drop. apply uv_split_nat; [exact Ht| |apply is_boundary_bnd; exact Hb].
  unfold len in Hi. lia.
Qed.

Lemma uv_slice (t : text) (a b : N) :
  uv t -> a <= b -> b <= len t -> is_boundary t a = true -> is_boundary t b = true ->
  uv (slice a b t).
Proof.
  intros Ht Hab Hb Ba Bb. unfold slice.
  destruct (uv_split t b Ht Hb Bb) as [H1 _].
  rewrite take_drop_comm. replace (a + (b - a)) with b by lia.
  assert (Ha' : a <= len (take b t)) by (rewrite len_take; lia).
  assert (Ba' : is_boundary (take b t) a = true).
  { unfold is_boundary in *. destruct (a =? 0) eqn:E0; [reflexivity|].
    destruct (N.eq_dec a b) as [->|Hne].
    - rewrite nth_opt_none by (rewrite len_take; lia).
      rewrite len_take. apply N.eqb_eq. lia.
    - rewrite nth_opt_take by lia.
      destruct (nth_opt t a) as [x|] eqn:En; [exact Ba|].
      apply N.eqb_eq in Ba. lia. }
  exact (proj2 (uv_split _ a H1 Ha' Ba')).
Qed.

(* the byte after an ASCII byte starts a char *)
Lemma uv_after_ascii_nat (t : text) :
  uv t -> forall i c, nth_error t i = Some c -> c < 128 -> bnd t (S i).
Proof.
  induction 1 as [|b0 cs t Hc Ht IH]; intros i c Hn Hlt.
  - destruct i; discriminate.
  - right. destruct i as [|i'].
    + cbn [nth_error] in Hn. injection Hn as ->.
      rewrite (char_ok_ascii _ _ Hc Hlt). cbn [app nth_error].
      destruct t as [|b t]; [exact I|]. exact (uv_hd _ _ Ht).
    + change (nth_error (cs ++ t) i' = Some c) in Hn.
      change (nth_error (b0 :: cs ++ t) (S (S i'))) with (nth_error (cs ++ t) (S i')).
      destruct (Nat.lt_ge_cases i' (length cs)) as [Hl|Hge].
      * exfalso. rewrite nth_error_app1 in Hn by exact Hl.
        pose proof (conts_nth cs i' c (char_ok_conts _ _ Hc) Hn) as Hcont.
        unfold is_cont in Hcont. apply andb_prop in Hcont. destruct Hcont as [H1 _].
        apply N.leb_le in H1. lia.
      * rewrite nth_error_app2 in Hn by exact Hge.
        specialize (IH _ _ Hn Hlt). destruct IH as [IH|IH]; [discriminate|].
        rewrite nth_error_app2 by lia.
        replace (S i' - length cs)%nat with (S (i' - length cs)) by lia. exact IH.
Qed.

Lemma uv_after_ascii (t : text) (i c : N) :
  uv t -> nth_opt t i = Some c -> c < 128 -> is_boundary t (i + 1) = true.
Proof.
  intros Ht Hn Hc. unfold is_boundary.
  replace (i + 1 =? 0) with false by (symmetry; apply N.eqb_neq; lia).
  pose proof (uv_after_ascii_nat t Ht (N.to_nat i) c Hn Hc) as Hb.
  destruct Hb as [Hb|Hb]; [discriminate|].
  unfold nth_opt. replace (N.to_nat (i + 1)) with (S (N.to_nat i)) by lia.
  destruct (nth_error t (S (N.to_nat i))) as [b|] eqn:En.
  - rewrite Hb. reflexivity.
  - apply nth_error_None in En. apply nth_opt_some_lt in Hn. unfold len in *.
    apply N.eqb_eq. lia.
Qed.

(* ---- boundaries of a piece inside a concatenation ---- *)
Lemma is_boundary_0 (t : text) : is_boundary t 0 = true.
Proof. reflexivity. Qed.

Lemma is_boundary_len (t : text) : is_boundary t (len t) = true.
Proof.
  unfold is_boundary. destruct (len t =? 0); [reflexivity|].
  rewrite nth_opt_none by lia. apply N.eqb_refl.
Qed.

Lemma is_boundary_start (p q : text) : uv q -> is_boundary (p ++ q) (len p) = true.
Proof.
  intros Hq. unfold is_boundary. destruct (len p =? 0); [reflexivity|].
  rewrite nth_opt_app_r by lia. rewrite N.sub_diag.
  destruct q as [|b q].
  - rewrite nth_opt_nil, len_app, len_nil. apply N.eqb_eq. lia.
  - rewrite nth_opt_cons_0. rewrite (uv_hd _ _ Hq). reflexivity.
Qed.

(* offset x inside piece c of p ++ c ++ q *)
Lemma is_boundary_piece (p c q : text) (x : N) :
  uv c -> uv q -> x <= len c ->
  is_boundary (p ++ c ++ q) (len p + x) = is_boundary c x.
Proof.
  intros Hc Hq Hx.
  destruct (N.eq_dec x 0) as [->|Hx0].
  - rewrite N.add_0_r, is_boundary_0. apply is_boundary_start. apply uv_app; assumption.
  - destruct (N.eq_dec x (len c)) as [->|Hxl].
    + rewrite is_boundary_len. rewrite app_assoc.
      replace (len p + len c) with (len (p ++ c)) by apply len_app.
      apply is_boundary_start. exact Hq.
    + unfold is_boundary.
      replace (len p + x =? 0) with false by (symmetry; apply N.eqb_neq; lia).
      replace (x =? 0) with false by (symmetry; apply N.eqb_neq; lia).
      rewrite nth_opt_app_r by lia. replace (len p + x - len p) with x by lia.
      rewrite nth_opt_app_l by lia.
      destruct (nth_opt_some c x ltac:(lia)) as [b ->]. reflexivity.
Qed.

(* ---- char_indices over a concatenation ---- *)
Lemma char_indices_from_conts (cs t : text) (i : N) :
  forallb is_cont cs = true ->
  char_indices_from (cs ++ t) i = char_indices_from t (i + len cs).
Proof.
  revert i. induction cs as [|b cs IH]; intros i H.
  - rewrite len_nil, N.add_0_r. reflexivity.
  - cbn [forallb] in H. apply andb_prop in H. destruct H as [Hb Hcs].
    cbn [app char_indices_from]. rewrite Hb, (IH _ Hcs), len_cons. f_equal. lia.
Qed.

Lemma char_indices_from_app (c t : text) (i : N) :
  uv c -> char_indices_from (c ++ t) i = char_indices_from c i ++ char_indices_from t (i + len c).
Proof.
  intros Hc. revert i. induction Hc as [|b0 cs c Hch Hc IH]; intros i.
  - rewrite len_nil, N.add_0_r. reflexivity.
  - cbn [app char_indices_from]. rewrite (char_ok_lead _ _ Hch).
    rewrite <- app_assoc. rewrite !(char_ok_decode _ _ _ Hch).
    cbn [app]. f_equal.
    rewrite !(char_indices_from_conts cs) by (eapply char_ok_conts; eassumption).
    rewrite IH. rewrite len_cons, !len_app. f_equal. f_equal. lia.
Qed.

Lemma char_indices_from_shift (t : text) (i k : N) :
  char_indices_from t (k + i) = map (fun ic => (k + fst ic, snd ic)) (char_indices_from t i).
Proof.
  revert i. induction t as [|b t IH]; intros i; [reflexivity|].
  cbn [char_indices_from]. replace (k + i + 1) with (k + (i + 1)) by lia.
  rewrite IH. destruct (is_cont b); reflexivity.
Qed.

(* the encoding of a char: lead byte then continuation bytes *)
Lemma utf8_encode_conts (c : N) : forallb is_cont (tl (utf8_encode_char c)) = true.
Proof.
  unfold utf8_encode_char. destr_ifs; cbn [tl forallb]; rewrite ?andb_true_r;
    unfold is_cont; rewrite ?andb_true_iff, ?N.leb_le, ?N.ltb_lt; try reflexivity;
    repeat split; try lia;
    match goal with |- context [?x mod 64] =>
      let H := fresh in assert (H : x mod 64 < 64) by (apply N.mod_lt; lia);
      set (m := x mod 64) in *; clearbody m; lia end.
Qed.

Lemma utf8_encode_nonnil (c : N) : utf8_encode_char c <> [].
Proof. unfold utf8_encode_char. destr_ifs; discriminate. Qed.

Print Assumptions valid_uv.
Print Assumptions uv_split.
Print Assumptions is_boundary_piece.
Print Assumptions char_indices_from_app.
