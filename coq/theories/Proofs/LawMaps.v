(* Property C13, map()-level: boxed nesting of ConcatSources does not change what
   map() attributes (columns = true), for all trees over Raw* / Original /
   SourceMapSource / Concat / Replace.  Built from the stream-level law
   (the concat_nest lemmas of LawWrappers) and map = stream attribution (FinalTree). *)
From RS Require Import Base.Prelude Base.Text Codec.Vlq Codec.CodecSpec Stream.Types Stream.Leaves
  Stream.Concat Stream.Replace Stream.Tree Sem.Attr Checkers.ChkCodec Checkers.ChkTree
  Proofs.AttrCodec Proofs.LawConcatAttr Proofs.LawWrappers Proofs.RStreamTree Proofs.FinalDense Proofs.FinalTree Proofs.LinesTree.
Require Import List Bool.
Import ListNotations.

Lemma dense_all_any (s : src) : RStreamTree.rshape s = true -> treeA s = true -> dense_all s.
Proof. intros Hs Ha st cols. unfold evs_of. apply dense_tree_any; assumption. Qed.

Lemma treeA_concat_inv (cs : list src) : treeA (SConcat cs) = true -> Forall (fun c => treeA c = true) cs.
Proof.
  unfold treeA. cbn [tree_wf tree_ascii]. intros H. apply andb_true_iff in H. destruct H as [Hw Ha].
  rewrite forallb_forall in Hw, Ha. apply Forall_forall. intros c Hc.
  rewrite (Hw c Hc), (Ha c Hc). reflexivity.
Qed.

Lemma rshape_concat_inv (cs : list src) : RStreamTree.rshape (SConcat cs) = true -> Forall (fun c => RStreamTree.rshape c = true) cs.
Proof. cbn [RStreamTree.rshape]. intros H. rewrite forallb_forall in H. apply Forall_forall. exact H. Qed.

(* the stream-level nesting law for this class (Replace with replacements included) *)
Theorem concat_nest_any (st : store) (a b c : src) (cols cl : bool) :
  RStreamTree.rshape (SConcat [a; b; c]) = true -> treeA (SConcat [a; b; c]) = true ->
  attr_of_stream (evs_of (stream st (SConcat [a; SConcat [b; c]]) (mkOpts cols false))) cl
  = attr_of_stream (evs_of (stream st (SConcat [a; b; c]) (mkOpts cols false))) cl /\
  attr_of_stream (evs_of (stream st (SConcat [SConcat [a; b]; c]) (mkOpts cols false))) cl
  = attr_of_stream (evs_of (stream st (SConcat [a; b; c]) (mkOpts cols false))) cl.
Proof.
  intros Hs Ha.
  pose proof (rshape_concat_inv _ Hs) as Hs'. pose proof (treeA_concat_inv _ Ha) as Ha'.
  assert (Hd : Forall (fun k => dense (fst k) 0 0 = true) (fst (kid_streams st [a; b; c] (mkOpts cols false)))).
  { apply kid_streams_dense.
    inversion Hs' as [|? ? Sa Hs1]; subst. inversion Hs1 as [|? ? Sb Hs2]; subst. inversion Hs2 as [|? ? Sc _]; subst.
    inversion Ha' as [|? ? Aa Ha1]; subst. inversion Ha1 as [|? ? Ab Ha2]; subst. inversion Ha2 as [|? ? Ac _]; subst.
    repeat constructor; apply dense_all_any; assumption. }
  destruct (concat_nest_right st a b c cols cl Hd) as [A1 _].
  destruct (concat_nest_left st a b c cols cl Hd) as [B1 _].
  split; assumption.
Qed.

(* whether some chunk is mapped can be read off the (text, attribution) sequence *)
Lemma mapped_exists_rsegs (evs : list event) : forall srcs names,
  mapped_chunk_exists evs
  = existsb (fun x : option text * attr => match snd x with Some _ => true | None => false end)
            (ta (rsegs_of_events evs srcs names)).
Proof.
  unfold mapped_chunk_exists, ta.
  induction evs as [|e evs IH]; intros srcs names; [reflexivity|].
  destruct e as [t m|i n c|i n]; cbn [chunk_mappings rsegs_of_events map existsb fst snd].
  - rewrite (IH srcs names). destruct (m_orig m); reflexivity.
  - apply IH.
  - apply IH.
Qed.

Lemma mapped_exists_tas (evs : list event) :
  mapped_chunk_exists evs
  = existsb (fun x : option text * attr => match snd x with Some _ => true | None => false end) (tas evs).
Proof. apply mapped_exists_rsegs. Qed.

Definition small_final (st : store) (s : src) : Prop :=
  forallb mapping_small (chunk_mappings (fst (fst (stream st s (mkOpts true true))))) = true.

Definition good (s : src) : Prop :=
  RStreamTree.rshape s = true /\ treeA s = true /\ rsmall s = true.

(* map() of the nested and of the flat ConcatSource attribute every byte alike (columns = true);
   source() is the same text *)
Theorem boxed_nesting_map (st : store) (a b c : src) :
  let F := SConcat [a; b; c] in
  let R := SConcat [a; SConcat [b; c]] in
  let L := SConcat [SConcat [a; b]; c] in
  good F -> good R -> good L -> small_final st F -> small_final st R -> small_final st L ->
  attr_of_map (fst (get_map st R true)) (source R) true = attr_of_map (fst (get_map st F true)) (source F) true /\
  attr_of_map (fst (get_map st L true)) (source L) true = attr_of_map (fst (get_map st F true)) (source F) true /\
  is_none (fst (get_map st R true)) = is_none (fst (get_map st F true)) /\
  is_none (fst (get_map st L true)) = is_none (fst (get_map st F true)).
Proof.
  intros F R L [F1 [F2 F3]] [R1 [R2 R3]] [L1 [L2 L3]] SF SR SL.
  destruct (C03_tree_cols st F F1 F2 F3 SF) as [AF NF].
  destruct (C03_tree_cols st R R1 R2 R3 SR) as [AR NR].
  destruct (C03_tree_cols st L L1 L2 L3 SL) as [AL NL].
  destruct (concat_nest_any st a b c true true F1 F2) as [N1 N2]. unfold evs_of in N1, N2.
  rewrite AF, AR, AL. split; [exact N1|]. split; [exact N2|].
  rewrite NF, NR, NL.
  pose proof (rshape_concat_inv _ F1) as Hs'. pose proof (treeA_concat_inv _ F2) as Ha'.
  assert (Hd : Forall (fun k => dense (fst k) 0 0 = true) (fst (kid_streams st [a; b; c] (mkOpts true false)))).
  { apply kid_streams_dense.
    inversion Hs' as [|? ? Sa Hs1]; subst. inversion Hs1 as [|? ? Sb Hs2]; subst. inversion Hs2 as [|? ? Sc _]; subst.
    inversion Ha' as [|? ? Aa Ha1]; subst. inversion Ha1 as [|? ? Ab Ha2]; subst. inversion Ha2 as [|? ? Ac _]; subst.
    repeat constructor; apply dense_all_any; assumption. }
  destruct (concat_nest_right_ta st a b c true Hd) as [T1 _].
  destruct (concat_nest_left_ta st a b c true Hd) as [T2 _].
  unfold evs_of in T1, T2. unfold F, R, L.
  rewrite !mapped_exists_tas, T1, T2. split; reflexivity.
Qed.

Print Assumptions concat_nest_any.
Print Assumptions boxed_nesting_map.

(* the same for columns = false *)
Definition small_final_lines (st : store) (s : src) : Prop :=
  forallb mapping_small (chunk_mappings (fst (fst (stream st s (mkOpts false true))))) = true.

Theorem boxed_nesting_map_lines (st : store) (a b c : src) :
  let F := SConcat [a; b; c] in
  let R := SConcat [a; SConcat [b; c]] in
  let L := SConcat [SConcat [a; b]; c] in
  good F -> good R -> good L -> small_final_lines st F -> small_final_lines st R -> small_final_lines st L ->
  attr_of_map (fst (get_map st R false)) (source R) false = attr_of_map (fst (get_map st F false)) (source F) false /\
  attr_of_map (fst (get_map st L false)) (source L) false = attr_of_map (fst (get_map st F false)) (source F) false /\
  is_none (fst (get_map st R false)) = is_none (fst (get_map st F false)) /\
  is_none (fst (get_map st L false)) = is_none (fst (get_map st F false)).
Proof.
  intros F R L [F1 [F2 F3]] [R1 [R2 R3]] [L1 [L2 L3]] SF SR SL.
  destruct (C03_tree_lines st F F1 F2 F3 SF) as [AF NF].
  destruct (C03_tree_lines st R R1 R2 R3 SR) as [AR NR].
  destruct (C03_tree_lines st L L1 L2 L3 SL) as [AL NL].
  destruct (concat_nest_any st a b c false false F1 F2) as [N1 N2]. unfold evs_of in N1, N2.
  rewrite AF, AR, AL. split; [exact N1|]. split; [exact N2|].
  rewrite NF, NR, NL.
  pose proof (rshape_concat_inv _ F1) as Hs'. pose proof (treeA_concat_inv _ F2) as Ha'.
  assert (Hd : Forall (fun k => dense (fst k) 0 0 = true) (fst (kid_streams st [a; b; c] (mkOpts false false)))).
  { apply kid_streams_dense.
    inversion Hs' as [|? ? Sa Hs1]; subst. inversion Hs1 as [|? ? Sb Hs2]; subst. inversion Hs2 as [|? ? Sc _]; subst.
    inversion Ha' as [|? ? Aa Ha1]; subst. inversion Ha1 as [|? ? Ab Ha2]; subst. inversion Ha2 as [|? ? Ac _]; subst.
    repeat constructor; apply dense_all_any; assumption. }
  destruct (concat_nest_right_ta st a b c false Hd) as [T1 _].
  destruct (concat_nest_left_ta st a b c false Hd) as [T2 _].
  unfold evs_of in T1, T2. unfold F, R, L.
  rewrite !mapped_exists_tas, T1, T2. split; reflexivity.
Qed.
Print Assumptions boxed_nesting_map_lines.

(* ------------------------------------------------------------------ *)
(* empty neighbours, single child and an empty ReplaceSource through map() *)
(* ------------------------------------------------------------------ *)
Definition small_final_c (st : store) (s : src) (c : bool) : Prop :=
  forallb mapping_small (chunk_mappings (fst (fst (stream st s (mkOpts c true))))) = true.

Lemma C03_tree_any (st : store) (s : src) (c : bool) : good s -> small_final_c st s c ->
  attr_of_map (fst (get_map st s c)) (source s) c = attr_of_stream (fst (fst (stream st s (mkOpts c false)))) c /\
  is_none (fst (get_map st s c)) = negb (mapped_chunk_exists (fst (fst (stream st s (mkOpts c false))))).
Proof.
  intros [H1 [H2 H3]] Hs. destruct c; [apply C03_tree_cols|apply C03_tree_lines]; assumption.
Qed.

(* concatenating empty sources around `a` changes neither what get_map attributes nor whether it
   returns a map (both column settings) *)
Theorem empty_neighbours_map (st : store) (e a e' : src) (c : bool) :
  empty_leaf e = true -> empty_leaf e' = true ->
  good (SConcat [e; a; e']) -> good a ->
  small_final_c st (SConcat [e; a; e']) c -> small_final_c st a c ->
  source (SConcat [e; a; e']) = source a /\
  attr_of_map (fst (get_map st (SConcat [e; a; e']) c)) (source a) c = attr_of_map (fst (get_map st a c)) (source a) c /\
  is_none (fst (get_map st (SConcat [e; a; e']) c)) = is_none (fst (get_map st a c)).
Proof.
  intros He He' G Ga S Sa.
  destruct (C03_tree_any st _ c G S) as [A N]. destruct (C03_tree_any st a c Ga Sa) as [Aa Na].
  destruct Ga as [Ga1 [Ga2 _]].
  pose proof (dense_all_any a Ga1 Ga2 st c) as Hd.
  destruct (concat_empty_neighbours st e a e' c c He He' Hd) as [E1 [_ E3]].
  destruct (concat_empty_neighbours_ta st e a e' c He He' Hd) as [T _].
  unfold evs_of in E1, T. split; [exact E3|].
  rewrite E3 in A. rewrite A, Aa, N, Na. split; [exact E1|].
  rewrite !mapped_exists_tas, T. reflexivity.
Qed.

(* a single-child ConcatSource and a ReplaceSource without replacements delegate map() *)
Theorem single_child_map (st : store) (a : src) (c : bool) :
  get_map st (SConcat [a]) c = get_map st a c.
Proof. unfold get_map. rewrite (concat_single_stream st a (mkOpts c true)). reflexivity. Qed.

Print Assumptions empty_neighbours_map.
Print Assumptions single_child_map.
