(* C18, ReplaceSource part: safety of the lazily sorted index under every
   interleaving of the model `Sem/Conc.v`, for any number of threads, any
   programs and any schedule.

   R1  `GInv` is an inductive invariant of `rstep1 true` (clone reads the flag
       first, fix F9), hence of `rrun_schedule`, `rfinish`, `replace_run`.
   R2  corollaries: every observer renders with the sequential index
       (`C18_replace_sequential`), every clone satisfies the object invariant
       (`C18_clone_invariant`), the final shared state too
       (`C18_final_shared`); every thread finishes with one result per
       operation (`C18_replace_terminates`).
   R3  the pinned clone order (index first, flag second) is refuted by a
       concrete schedule (`C18_clone_pinned_refuted`).
   C4  no deadlock: every step of a non finished thread strictly decreases a
       natural-number measure (`rstep1_progress`), for both clone orders. *)
From RS Require Import Base.Prelude Base.Text Rope.RopeModel Stream.Types Stream.Replace
  Sem.ReplaceObj Sem.Conc.
From Coq Require Import Lia List.
Import ListNotations.

Local Open Scope nat_scope.

(* ================= update_nth / nth_error ================= *)

Lemma update_nth_length {A} (l : list A) n x : length (update_nth l n x) = length l.
Proof. revert n; induction l as [|y l IH]; intros [|n]; cbn; auto. Qed.

Lemma nth_error_update_nth_eq {A} (l : list A) n x :
  n < length l -> nth_error (update_nth l n x) n = Some x.
Proof.
  revert n; induction l as [|y l IH]; intros [|n] H; cbn in *; try lia; auto.
  apply IH; lia.
Qed.

Lemma nth_error_update_nth_neq {A} (l : list A) n m x :
  n <> m -> nth_error (update_nth l n x) m = nth_error l m.
Proof.
  revert n m; induction l as [|y l IH]; intros [|n] [|m] H; cbn; auto; try congruence.
Qed.

Lemma Forall_nth_error {A} (P : A -> Prop) l n x :
  Forall P l -> nth_error l n = Some x -> P x.
Proof. intros H E. rewrite Forall_forall in H. apply H. eapply nth_error_In; eauto. Qed.

Lemma Forall_update_nth {A} (P : A -> Prop) l n x :
  Forall P l -> P x -> Forall P (update_nth l n x).
Proof.
  revert n; induction l as [|y l IH]; intros [|n] H Hx; cbn; auto;
    inversion H; subst; constructor; auto.
Qed.

Lemma Forall2_nth_error_r {A B} (P : A -> B -> Prop) la lb n b :
  Forall2 P la lb -> nth_error lb n = Some b -> exists a, nth_error la n = Some a /\ P a b.
Proof.
  intros H; revert n; induction H; intros [|n] E; cbn in *; try discriminate.
  - inversion E; subst; eauto.
  - eauto.
Qed.

Lemma Forall2_update_nth_r {A B} (P : A -> B -> Prop) la lb n a b :
  Forall2 P la lb -> nth_error la n = Some a -> P a b -> Forall2 P la (update_nth lb n b).
Proof.
  intros H; revert n; induction H; intros [|n] E Hp; cbn in *; try discriminate.
  - inversion E; subst; constructor; auto.
  - constructor; eauto.
Qed.

Lemma Forall2_rev' {A B} (P : A -> B -> Prop) la lb :
  Forall2 P la lb -> Forall2 P (rev la) (rev lb).
Proof.
  induction 1; cbn; [constructor|]. apply Forall2_app; auto.
Qed.

(* ================= the invariant ================= *)

Section Inv.
Variable sorted : list N.

(* the sequential object invariant of ReplaceSource: is_sorted -> the index is the sorted one *)
Definition ObjInv (o : rshared) : Prop := sh_flag o = true -> sh_index o = sorted.

Definition ResInv (r : rresult) : Prop :=
  rr_view r = sorted /\ match rr_clone r with Some c => ObjInv c | None => True end.

(* what a thread at program counter `pc` knows about the shared state.
   For the private observer pass this is (necessarily, for inductiveness)
   a little stronger than the bare object invariant of the clone: after the
   private index store (pc 2) and at the private index read (pc >= 3) the
   clone's index is the sorted one.  `pc = 100` (pinned order, flag pending)
   is not reachable under `rstep1 true`; it is allowed in the invariant
   when the index already read is the sorted one. *)
Definition PcInv (sh : rshared) (pc : rpc) : Prop :=
  match pc with
  | RIndexRead => sh_index sh = sorted
  | RFlagStore => sh_index sh = sorted
  | RCloneSecond f => f = true -> sh_index sh = sorted
  | RPrivate init obj pc =>
    if Nat.eqb pc 100 then sh_index obj = sorted
    else ObjInv init /\ ObjInv obj /\ (2 <= pc -> sh_index obj = sorted)
  | _ => True
  end.

Definition TInv (sh : rshared) (t : rthread) : Prop :=
  PcInv sh (rt_pc t) /\ Forall ResInv (rt_results t).

Definition ShInv (init : list N) (sh : rshared) : Prop :=
  ObjInv sh /\ (sh_index sh = init \/ sh_index sh = sorted).

Definition GInv (init : list N) (sh : rshared) (ts : list rthread) : Prop :=
  ShInv init sh /\ Forall (TInv sh) ts.

(* The items of the invariant as listed in the specification follow from GInv. *)
Lemma GInv_spec init sh ts :
  GInv init sh ts ->
  (sh_flag sh = true -> sh_index sh = sorted) /\
  (sh_index sh = init \/ sh_index sh = sorted) /\
  (forall t, In t ts ->
     (rt_pc t = RIndexRead -> sh_index sh = sorted) /\
     (rt_pc t = RFlagStore -> sh_index sh = sorted) /\
     (rt_pc t = RCloneSecond true -> sh_index sh = sorted) /\
     (forall init' obj pc, rt_pc t = RPrivate init' obj pc -> pc <> 100 ->
        (sh_flag obj = true -> sh_index obj = sorted) /\
        (sh_flag init' = true -> sh_index init' = sorted)) /\
     (forall r, In r (rt_results t) ->
        rr_view r = sorted /\
        (forall c, rr_clone r = Some c -> sh_flag c = true -> sh_index c = sorted))).
Proof.
  intros [[Ho Hi] Hts]. split; [exact Ho|]. split; [exact Hi|].
  intros t Ht. rewrite Forall_forall in Hts. destruct (Hts t Ht) as [Hpc Hres].
  repeat split.
  - intros E; rewrite E in Hpc; exact Hpc.
  - intros E; rewrite E in Hpc; exact Hpc.
  - intros E; rewrite E in Hpc; cbn in Hpc; auto.
  - rewrite H in Hpc. cbn in Hpc. apply Nat.eqb_neq in H0. rewrite H0 in Hpc. apply Hpc.
  - rewrite H in Hpc. cbn in Hpc. apply Nat.eqb_neq in H0. rewrite H0 in Hpc. apply Hpc.
  - rewrite Forall_forall in Hres. apply (Hres r H).
  - intros c Ec. rewrite Forall_forall in Hres. destruct (Hres r H) as [_ Hc].
    rewrite Ec in Hc. exact Hc.
Qed.

(* ---- stability: the only thing other threads rely on is `index = sorted`,
        which no step ever falsifies ---- *)
Lemma PcInv_stable sh sh' pc :
  (sh_index sh = sorted -> sh_index sh' = sorted) -> PcInv sh pc -> PcInv sh' pc.
Proof. intros H; destruct pc; cbn; auto. Qed.

Lemma TInv_stable sh sh' t :
  (sh_index sh = sorted -> sh_index sh' = sorted) -> TInv sh t -> TInv sh' t.
Proof. intros H [Hp Hr]; split; auto. eapply PcInv_stable; eauto. Qed.

(* ---- helper: results after at_pc / next_op ---- *)
Lemma TInv_at_pc sh t pc site :
  Forall ResInv (rt_results t) -> PcInv sh pc -> TInv sh (at_pc t pc site).
Proof. intros; split; cbn; auto. Qed.

Lemma TInv_next_op sh t r site :
  Forall ResInv (rt_results t) -> ResInv r -> TInv sh (next_op t r site).
Proof.
  intros Hr Hn. unfold next_op.
  assert (Forall ResInv (rt_results t ++ [r])) by (apply Forall_app; split; auto).
  destruct (rt_ops t) as [|o [|o' rest]]; split; cbn; auto.
  destruct o'; cbn; auto.
Qed.

(* ---- the step lemma ---- *)
Lemma rstep1_inv init sh t :
  ShInv init sh -> TInv sh t ->
  ShInv init (fst (rstep1 true sorted sh t)) /\
  TInv (fst (rstep1 true sorted sh t)) (snd (rstep1 true sorted sh t)) /\
  (sh_index sh = sorted -> sh_index (fst (rstep1 true sorted sh t)) = sorted).
Proof.
  intros [Ho Hi] [Hpc Hres]. unfold rstep1.
  destruct (rt_pc t) as [ | | | | | f | init' obj pc | ] eqn:E; cbn [PcInv] in Hpc.
  - (* RFlagLoad *)
    destruct (sh_flag sh) eqn:F; cbn [fst snd]; (split; [split; auto|]); (split; [|auto]);
      apply TInv_at_pc; cbn; auto.
  - (* RIndexStore *)
    cbn [fst snd]. split; [|split].
    + split; [intros _; reflexivity | right; reflexivity].
    + apply TInv_at_pc; cbn; auto.
    + reflexivity.
  - (* RFlagStore *)
    cbn [fst snd]. split; [|split].
    + split; [intros _; exact Hpc | exact Hi].
    + apply TInv_at_pc; cbn; auto.
    + auto.
  - (* RIndexRead *)
    cbn [fst snd]. split; [split; auto|]. split; [|auto].
    apply TInv_next_op; auto. split; cbn; auto.
  - (* RCloneFirst, fixed order *)
    cbn [fst snd]. split; [split; auto|]. split; [|auto].
    apply TInv_at_pc; cbn; auto.
  - (* RCloneSecond *)
    cbn [fst snd]. split; [split; auto|]. split; [|auto].
    apply TInv_at_pc; auto. cbn. repeat split; unfold ObjInv; cbn; auto. lia.
  - (* RPrivate *)
    destruct (Nat.eqb pc 100) eqn:P.
    + cbn [fst snd]. split; [split; auto|]. split; [|auto].
      apply TInv_at_pc; auto. cbn. repeat split; unfold ObjInv; cbn; auto.
    + destruct Hpc as (Hin & Hob & Hge).
      destruct pc as [|[|[|pc]]].
      * destruct (sh_flag obj) eqn:F; cbn [fst snd]; (split; [split; auto|]); (split; [|auto]);
          apply TInv_at_pc; auto; cbn; repeat split; auto; try lia.
      * cbn [fst snd]. split; [split; auto|]. split; [|auto].
        apply TInv_at_pc; auto; cbn; repeat split; unfold ObjInv; cbn; auto.
      * cbn [fst snd]. split; [split; auto|]. split; [|auto].
        apply TInv_at_pc; auto; cbn; repeat split; unfold ObjInv; cbn; auto; intros; apply Hge; lia.
      * cbn [fst snd]. split; [split; auto|]. split; [|auto].
        apply TInv_next_op; auto. split; cbn; auto. apply Hge; lia.
  - (* RDone *)
    cbn [fst snd]. split; [split; auto|]. split; [|auto]. split; auto. rewrite E; exact I.
Qed.

(* R1: preservation by a step of any thread *)
Theorem GInv_step init sh ts n t :
  GInv init sh ts -> nth_error ts n = Some t ->
  GInv init (fst (rstep1 true sorted sh t)) (update_nth ts n (snd (rstep1 true sorted sh t))).
Proof.
  intros [Hs Hts] E.
  destruct (rstep1_inv init sh t Hs (Forall_nth_error _ _ _ _ Hts E)) as (Hs' & Ht' & Hst).
  split; auto. apply Forall_update_nth; auto.
  eapply Forall_impl; [|exact Hts]. intros u. apply TInv_stable; auto.
Qed.

(* R1: the invariant holds initially *)
Lemma TInv_init sh ops : TInv sh (rthread_init ops).
Proof. split; cbn; auto. destruct ops as [|[|] ?]; cbn; auto. Qed.

Theorem GInv_init init_index init_flag progs :
  (init_flag = true -> init_index = sorted) ->
  GInv init_index (mkRS init_index init_flag) (map rthread_init progs).
Proof.
  intros H. split; [split; cbn; auto|].
  apply Forall_forall. intros t Ht. apply in_map_iff in Ht. destruct Ht as (ops & <- & _).
  apply TInv_init.
Qed.

(* R1: preservation by a whole schedule *)
Theorem GInv_rrun_schedule init sched : forall sh ts,
  GInv init sh ts ->
  GInv init (fst (rrun_schedule true sorted sh ts sched)) (snd (rrun_schedule true sorted sh ts sched)).
Proof.
  induction sched as [|tid sched IH]; intros sh ts H; cbn [rrun_schedule]; auto.
  destruct (nth_error ts (N.to_nat tid)) as [t|] eqn:E; auto.
  pose proof (GInv_step init sh ts _ t H E) as H'.
  destruct (rstep1 true sorted sh t) as [sh' t']. apply IH. exact H'.
Qed.

(* finishing one thread *)
Lemma rfinish_thread_inv init fuel : forall sh t,
  ShInv init sh -> TInv sh t ->
  ShInv init (fst (rfinish_thread fuel true sorted sh t)) /\
  TInv (fst (rfinish_thread fuel true sorted sh t)) (snd (rfinish_thread fuel true sorted sh t)) /\
  (sh_index sh = sorted -> sh_index (fst (rfinish_thread fuel true sorted sh t)) = sorted).
Proof.
  induction fuel as [|fuel IH]; intros sh t Hs Ht; cbn [rfinish_thread]; auto.
  destruct (rstep1_inv init sh t Hs Ht) as (Hs' & Ht' & Hst).
  destruct (rt_pc t) eqn:E; auto;
    destruct (rstep1 true sorted sh t) as [sh' t']; cbn [fst snd] in *;
    destruct (IH sh' t' Hs' Ht') as (A & B & C); auto.
Qed.

Theorem GInv_rfinish init : forall ts sh done,
  GInv init sh ts -> Forall (TInv sh) done ->
  GInv init (fst (rfinish true sorted sh ts done)) (snd (rfinish true sorted sh ts done)).
Proof.
  induction ts as [|t ts IH]; intros sh done [Hs Hts] Hd; cbn [rfinish].
  - cbn. split; auto. apply Forall_rev; auto.
  - inversion Hts as [|? ? Ht Hts']; subst.
    destruct (rfinish_thread_inv init (20 * S (length (rt_ops t))) sh t Hs Ht) as (Hs' & Ht' & Hst).
    destruct (rfinish_thread (20 * S (length (rt_ops t))) true sorted sh t) as [sh' t'].
    cbn [fst snd] in *. apply IH.
    + split; auto. eapply Forall_impl; [|exact Hts']. intros u; apply TInv_stable; auto.
    + constructor; auto. eapply Forall_impl; [|exact Hd]. intros u; apply TInv_stable; auto.
Qed.

End Inv.

(* R1: the invariant holds in the final configuration of `replace_run true` *)
Theorem GInv_replace_run rs init_index init_flag progs sched :
  (init_flag = true -> init_index = sort_index rs) ->
  GInv (sort_index rs) init_index
       (fst (replace_run true rs init_index init_flag progs sched))
       (snd (replace_run true rs init_index init_flag progs sched)).
Proof.
  intros H. unfold replace_run.
  pose proof (GInv_rrun_schedule (sort_index rs) init_index sched _ _
                (GInv_init (sort_index rs) init_index init_flag progs H)) as G.
  destruct (rrun_schedule true (sort_index rs) (mkRS init_index init_flag) (map rthread_init progs) sched)
    as [sh ts]. cbn [fst snd] in G.
  apply GInv_rfinish; auto.
Qed.

(* ================= R2: corollaries ================= *)

Theorem C18_replace_sequential : forall rs init_index init_flag progs sched,
  (init_flag = true -> init_index = sort_index rs) ->
  let '(sh, ts) := replace_run true rs init_index init_flag progs sched in
  Forall (fun t => Forall (fun r => rr_view r = sort_index rs) (rt_results t)) ts.
Proof.
  intros rs init_index init_flag progs sched H.
  pose proof (GInv_replace_run rs init_index init_flag progs sched H) as [_ G].
  destruct (replace_run true rs init_index init_flag progs sched) as [sh ts]. cbn [fst snd] in G.
  eapply Forall_impl; [|exact G]. intros t [_ Hr].
  eapply Forall_impl; [|exact Hr]. intros r [Hv _]; exact Hv.
Qed.

Theorem C18_clone_invariant : forall rs init_index init_flag progs sched,
  (init_flag = true -> init_index = sort_index rs) ->
  let '(sh, ts) := replace_run true rs init_index init_flag progs sched in
  Forall (fun t => Forall (fun r => forall c, rr_clone r = Some c ->
                                    sh_flag c = true -> sh_index c = sort_index rs)
                          (rt_results t)) ts.
Proof.
  intros rs init_index init_flag progs sched H.
  pose proof (GInv_replace_run rs init_index init_flag progs sched H) as [_ G].
  destruct (replace_run true rs init_index init_flag progs sched) as [sh ts]. cbn [fst snd] in G.
  eapply Forall_impl; [|exact G]. intros t [_ Hr].
  eapply Forall_impl; [|exact Hr]. intros r [_ Hc] c Ec. rewrite Ec in Hc. exact Hc.
Qed.

Theorem C18_final_shared : forall rs init_index init_flag progs sched,
  (init_flag = true -> init_index = sort_index rs) ->
  let '(sh, ts) := replace_run true rs init_index init_flag progs sched in
  (sh_flag sh = true -> sh_index sh = sort_index rs) /\
  (sh_index sh = init_index \/ sh_index sh = sort_index rs).
Proof.
  intros rs init_index init_flag progs sched H.
  pose proof (GInv_replace_run rs init_index init_flag progs sched H) as [G _].
  destruct (replace_run true rs init_index init_flag progs sched) as [sh ts]. exact G.
Qed.

(* ================= C4: progress measure ================= *)

Definition rpc_measure (pc : rpc) : nat :=
  match pc with
  | RFlagLoad => 4 | RIndexStore => 3 | RFlagStore => 2 | RIndexRead => 1
  | RCloneFirst => 6 | RCloneSecond _ => 5
  | RPrivate _ _ pc =>
    if Nat.eqb pc 100 then 5 else
    match pc with 0 => 4 | 1 => 3 | 2 => 2 | _ => 1 end
  | RDone => 0
  end.

Definition rmeasure (t : rthread) : nat := 7 * length (rt_ops t) + rpc_measure (rt_pc t).

Lemma start_pc_measure o : rpc_measure (start_pc o) <= 6.
Proof. destruct o; cbn; lia. Qed.

Lemma next_op_measure t r site :
  rt_pc t <> RDone -> rmeasure (next_op t r site) < rmeasure t.
Proof.
  intros H. unfold rmeasure, next_op.
  assert (1 <= rpc_measure (rt_pc t)).
  { destruct (rt_pc t) as [ | | | | | f | i o pc | ]; cbn; try lia; try congruence.
    destruct (Nat.eqb pc 100); [lia|]. destruct pc as [|[|[|pc]]]; lia. }
  destruct (rt_ops t) as [|o [|o' rest]]; cbn [rt_ops rt_pc length]; cbn [rpc_measure]; try lia.
  pose proof (start_pc_measure o'). lia.
Qed.

(* C4 (ReplaceSource): a non finished thread always makes progress, for both clone orders *)
Theorem rstep1_progress fixed_f9 sorted sh t :
  rt_pc t <> RDone ->
  rmeasure (snd (rstep1 fixed_f9 sorted sh t)) < rmeasure t.
Proof.
  intros H. unfold rstep1.
  destruct (rt_pc t) as [ | | | | | f | init obj pc | ] eqn:E; try congruence.
  - destruct (sh_flag sh); cbn [snd]; unfold rmeasure; rewrite E; cbn; lia.
  - cbn [snd]; unfold rmeasure; rewrite E; cbn; lia.
  - cbn [snd]; unfold rmeasure; rewrite E; cbn; lia.
  - cbn [snd]. apply next_op_measure. congruence.
  - destruct fixed_f9; cbn [snd]; unfold rmeasure; rewrite E; cbn; lia.
  - cbn [snd]; unfold rmeasure; rewrite E; cbn; lia.
  - destruct (Nat.eqb pc 100) eqn:P.
    + cbn [snd]; unfold rmeasure; rewrite E; cbn [at_pc rt_ops rt_pc rpc_measure]. rewrite P. cbn. lia.
    + destruct pc as [|[|[|pc]]].
      * destruct (sh_flag obj); cbn [snd]; unfold rmeasure; rewrite E; cbn; lia.
      * cbn [snd]; unfold rmeasure; rewrite E; cbn; lia.
      * cbn [snd]; unfold rmeasure; rewrite E; cbn; lia.
      * cbn [snd]. apply next_op_measure. congruence.
Qed.

(* the step is a no-op on a finished thread *)
Lemma rstep1_done fixed_f9 sorted sh t :
  rt_pc t = RDone -> rstep1 fixed_f9 sorted sh t = (sh, t).
Proof. intros E; unfold rstep1; rewrite E; reflexivity. Qed.

(* ================= R2: termination of the finishing phase ================= *)

(* bookkeeping: results + remaining operations = the program; RDone iff nothing remains *)
Definition WfT (prog : list rop) (t : rthread) : Prop :=
  length (rt_results t) + length (rt_ops t) = length prog /\
  (rt_pc t = RDone <-> rt_ops t = []).

Lemma start_pc_not_done o : start_pc o <> RDone.
Proof. destruct o; discriminate. Qed.

Lemma WfT_init prog : WfT prog (rthread_init prog).
Proof.
  split; cbn; auto. destruct prog as [|o ?]; split; auto; try discriminate.
  intros H; exfalso; exact (start_pc_not_done _ H).
Qed.

Lemma WfT_at_pc prog t pc site :
  WfT prog t -> rt_pc t <> RDone -> pc <> RDone -> WfT prog (at_pc t pc site).
Proof.
  intros [Hl Hd] Hn Hp. split; cbn; auto. split; intros H; [congruence|].
  apply Hd in H. congruence.
Qed.

Lemma WfT_next_op prog t r site :
  WfT prog t -> rt_pc t <> RDone -> WfT prog (next_op t r site).
Proof.
  intros [Hl Hd] Hn. unfold next_op.
  destruct (rt_ops t) as [|o [|o' rest]] eqn:E.
  - exfalso. apply Hn, Hd. reflexivity.
  - split; cbn; [rewrite app_length; cbn in *; lia | tauto].
  - split; cbn; [rewrite app_length; cbn in *; lia |].
    split; [intros H; exfalso; exact (start_pc_not_done _ H) | discriminate].
Qed.

Lemma rstep1_wf fixed_f9 sorted sh prog t :
  WfT prog t -> WfT prog (snd (rstep1 fixed_f9 sorted sh t)).
Proof.
  intros W. unfold rstep1.
  destruct (rt_pc t) as [ | | | | | f | init obj pc | ] eqn:E;
    try (cbn [snd]; first [ apply WfT_next_op | apply WfT_at_pc ]; auto; congruence).
  - destruct (sh_flag sh); cbn [snd]; apply WfT_at_pc; auto; congruence.
  - destruct fixed_f9; cbn [snd]; apply WfT_at_pc; auto; congruence.
  - destruct (Nat.eqb pc 100); [cbn [snd]; apply WfT_at_pc; auto; congruence|].
    destruct pc as [|[|[|pc]]]; [destruct (sh_flag obj)| | |]; cbn [snd];
      first [ apply WfT_next_op | apply WfT_at_pc ]; auto; congruence.
  - exact W.
Qed.

Lemma rrun_schedule_wf fixed_f9 sorted sched : forall sh progs ts,
  Forall2 WfT progs ts ->
  Forall2 WfT progs (snd (rrun_schedule fixed_f9 sorted sh ts sched)).
Proof.
  induction sched as [|tid sched IH]; intros sh progs ts H; cbn [rrun_schedule]; auto.
  destruct (nth_error ts (N.to_nat tid)) as [t|] eqn:E; auto.
  destruct (Forall2_nth_error_r _ _ _ _ _ H E) as (prog & Ep & W).
  pose proof (rstep1_wf fixed_f9 sorted sh prog t W) as W'.
  destruct (rstep1 fixed_f9 sorted sh t) as [sh' t']. apply IH.
  eapply Forall2_update_nth_r; eauto.
Qed.

(* enough fuel: the thread ends in RDone *)
Lemma rfinish_thread_done fixed_f9 sorted prog fuel : forall sh t,
  WfT prog t -> rmeasure t <= fuel ->
  WfT prog (snd (rfinish_thread fuel fixed_f9 sorted sh t)) /\
  rt_pc (snd (rfinish_thread fuel fixed_f9 sorted sh t)) = RDone.
Proof.
  induction fuel as [|fuel IH]; intros sh t W M; cbn [rfinish_thread].
  - cbn [snd]. split; auto.
    unfold rmeasure in M. destruct (rt_pc t) as [ | | | | | f | i o pc | ]; cbn in M; try lia; auto.
    destruct (Nat.eqb pc 100); [lia|]. destruct pc as [|[|[|pc]]]; lia.
  - pose proof (rstep1_progress fixed_f9 sorted sh t) as P.
    pose proof (rstep1_wf fixed_f9 sorted sh prog t W) as W'.
    destruct (rt_pc t) eqn:E; try (cbn [snd]; split; auto; fail);
      destruct (rstep1 fixed_f9 sorted sh t) as [sh' t']; cbn [snd] in *;
      apply IH; auto; assert (rmeasure t' < rmeasure t) by (apply P; congruence); lia.
Qed.

Lemma rmeasure_fuel t : rmeasure t <= 20 * S (length (rt_ops t)).
Proof.
  unfold rmeasure.
  assert (rpc_measure (rt_pc t) <= 6).
  { destruct (rt_pc t) as [ | | | | | f | i o pc | ]; cbn; try lia.
    destruct (Nat.eqb pc 100); [lia|]. destruct pc as [|[|[|pc]]]; lia. }
  lia.
Qed.

Definition Finished (prog : list rop) (t : rthread) : Prop :=
  rt_pc t = RDone /\ rt_ops t = [] /\ length (rt_results t) = length prog.

Lemma WfT_done_finished prog t : WfT prog t -> rt_pc t = RDone -> Finished prog t.
Proof.
  intros [Hl Hd] E. pose proof (proj1 Hd E) as Eo. repeat split; auto.
  rewrite Eo in Hl; cbn in Hl; lia.
Qed.

Lemma rfinish_finished fixed_f9 sorted : forall ts progs sh done dprogs,
  Forall2 WfT progs ts -> Forall2 Finished dprogs done ->
  Forall2 Finished (rev dprogs ++ progs) (snd (rfinish fixed_f9 sorted sh ts done)).
Proof.
  induction ts as [|t ts IH]; intros progs sh done dprogs H Hd; cbn [rfinish].
  - inversion H; subst. cbn [snd]. rewrite app_nil_r. apply Forall2_rev'; auto.
  - inversion H as [|prog ? progs' ? W H']; subst.
    destruct (rfinish_thread_done fixed_f9 sorted prog (20 * S (length (rt_ops t))) sh t W
                (rmeasure_fuel t)) as (W' & D).
    destruct (rfinish_thread (20 * S (length (rt_ops t))) fixed_f9 sorted sh t) as [sh' t'].
    cbn [snd] in *.
    replace (rev dprogs ++ prog :: progs') with (rev (prog :: dprogs) ++ progs')
      by (cbn; rewrite <- app_assoc; reflexivity).
    apply IH; auto. constructor; auto. apply WfT_done_finished; auto.
Qed.

(* R2 (termination): after `replace_run`, for both clone orders, every thread is
   RDone, has no operation left and has exactly one result per operation of
   its program: no thread gets stuck and the fuel of `rfinish` suffices. *)
Theorem C18_replace_terminates : forall fixed_f9 rs init_index init_flag progs sched,
  let '(sh, ts) := replace_run fixed_f9 rs init_index init_flag progs sched in
  Forall2 (fun ops t => rt_pc t = RDone /\ rt_ops t = [] /\ length (rt_results t) = length ops)
          progs ts.
Proof.
  intros fixed_f9 rs init_index init_flag progs sched. unfold replace_run.
  assert (W0 : Forall2 WfT progs (map rthread_init progs)).
  { induction progs; cbn; constructor; auto. apply WfT_init. }
  pose proof (rrun_schedule_wf fixed_f9 (sort_index rs) sched (mkRS init_index init_flag) _ _ W0) as W.
  destruct (rrun_schedule fixed_f9 (sort_index rs) (mkRS init_index init_flag) (map rthread_init progs) sched)
    as [sh ts]. cbn [snd] in W.
  pose proof (rfinish_finished fixed_f9 (sort_index rs) ts progs sh [] [] W (Forall2_nil _)) as F.
  destruct (rfinish fixed_f9 (sort_index rs) sh ts []) as [sh' ts']. exact F.
Qed.

(* ================= R3: the pinned clone order is refuted ================= *)

Local Open Scope N_scope.

(* two replacements given out of order: the sorted index is [1; 0]; the shared
   index is stale ([0; 1]) with the flag reset.  Thread 1 clones: reads the
   stale index; thread 0 sorts (index store, flag store); thread 1 then reads
   flag = true: the clone claims to be sorted with a stale index. *)
Definition r3_rs : list repl := [mkRepl 3 5 [1] None 1; mkRepl 0 2 [2] None 1].
Definition r3_progs : list (list rop) := [[RopSorted]; [RopClone]].
Definition r3_sched : list N := [1; 0; 0; 0; 1].

Example r3_witness :
  sort_index r3_rs = [1; 0] /\
  replace_run false r3_rs [0; 1] false r3_progs r3_sched =
  (mkRS [1; 0] true,
   [mkRT [] RDone [mkRR [1; 0] None] [0; 1; 2; 3];
    mkRT [] RDone [mkRR [0; 1] (Some (mkRS [0; 1] true))] [4; 5; 0; 3]]).
Proof. vm_compute. split; reflexivity. Qed.

(* the same schedule is harmless with the fixed order *)
Example r3_fixed_ok :
  replace_run true r3_rs [0; 1] false r3_progs r3_sched =
  (mkRS [1; 0] true,
   [mkRT [] RDone [mkRR [1; 0] None] [0; 1; 2; 3];
    mkRT [] RDone [mkRR [1; 0] (Some (mkRS [1; 0] false))] [4; 5; 0; 1; 2; 3]]).
Proof. vm_compute. reflexivity. Qed.

Theorem C18_clone_pinned_refuted :
  exists rs init_index progs sched,
    let '(sh, ts) := replace_run false rs init_index false progs sched in
    exists t r c, In t ts /\ In r (rt_results t) /\ rr_clone r = Some c /\
                  sh_flag c = true /\ sh_index c <> sort_index rs.
Proof.
  exists r3_rs, [0; 1], r3_progs, r3_sched.
  destruct r3_witness as [Es Er]. rewrite Er, Es.
  exists (mkRT [] RDone [mkRR [0; 1] (Some (mkRS [0; 1] true))] [4; 5; 0; 3]),
         (mkRR [0; 1] (Some (mkRS [0; 1] true))), (mkRS [0; 1] true).
  cbn. repeat split; auto. discriminate.
Qed.

(* the pinned order also breaks the observer result of the clone (it renders with the stale index) *)
Theorem C18_replace_sequential_pinned_refuted :
  exists rs init_index progs sched,
    let '(sh, ts) := replace_run false rs init_index false progs sched in
    ~ Forall (fun t => Forall (fun r => rr_view r = sort_index rs) (rt_results t)) ts.
Proof.
  exists r3_rs, [0; 1], r3_progs, r3_sched.
  destruct r3_witness as [Es Er]. rewrite Er, Es.
  intros H. inversion H as [|? ? _ H1]; subst. inversion H1 as [|? ? H2 _]; subst.
  inversion H2 as [|? ? H3 _]; subst. cbn in H3. discriminate.
Qed.

Print Assumptions GInv_step.
Print Assumptions GInv_replace_run.
Print Assumptions C18_replace_sequential.
Print Assumptions C18_clone_invariant.
Print Assumptions C18_final_shared.
Print Assumptions C18_replace_terminates.
Print Assumptions rstep1_progress.
Print Assumptions C18_clone_pinned_refuted.
Print Assumptions C18_replace_sequential_pinned_refuted.
