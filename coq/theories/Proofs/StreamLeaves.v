(* Stream proofs, part 2: the reassembly / position judgements and the leaf
   sources without a source map.
   L3: raw_stream.   L4: original_stream. *)
From RS Require Import Base.Prelude Base.Text Rope.RopeModel Stream.Types Stream.Leaves
  Stream.Replace Stream.Tree Checkers.ChkTree Proofs.StreamText.
Require Import Lia List.

Local Open Scope N_scope.

(* ------------------------------------------------------------------ *)
(* Reass: propositional reading of `reassembles`                       *)
(* ------------------------------------------------------------------ *)
Definition Reass (evs : list event) (t : text) : Prop :=
  exists ts, all_some (chunk_texts evs) = Some ts /\ concat ts = t.

Lemma reassembles_iff evs t : reassembles evs t = true <-> Reass evs t.
Proof.
  unfold reassembles, Reass. split.
  - destruct (all_some (chunk_texts evs)) as [ts|]; [|discriminate].
    intros H. apply text_eqb_eq in H. exists ts. split; [reflexivity|exact H].
  - intros [ts [-> H]]. apply text_eqb_eq. exact H.
Qed.

Lemma chunk_texts_app a b : chunk_texts (a ++ b) = chunk_texts a ++ chunk_texts b.
Proof.
  induction a as [|e a IH]; [reflexivity|].
  destruct e; cbn [app chunk_texts]; rewrite IH; reflexivity.
Qed.

Lemma chunks_of_app a b : chunks_of (a ++ b) = chunks_of a ++ chunks_of b.
Proof.
  induction a as [|e a IH]; [reflexivity|].
  destruct e; cbn [app chunks_of]; rewrite IH; reflexivity.
Qed.

Lemma all_some_app a b :
  all_some (a ++ b) =
  match all_some a, all_some b with Some x, Some y => Some (x ++ y) | _, _ => None end.
Proof.
  induction a as [|[t|] a IH]; cbn [app all_some].
  - destruct (all_some b); reflexivity.
  - rewrite IH. destruct (all_some a), (all_some b); reflexivity.
  - reflexivity.
Qed.

Lemma Reass_nil : Reass [] [].
Proof. exists []. split; reflexivity. Qed.

Lemma Reass_app a b ta tb : Reass a ta -> Reass b tb -> Reass (a ++ b) (ta ++ tb).
Proof.
  intros [xs [Ha Hxa]] [ys [Hb Hyb]]. exists (xs ++ ys).
  rewrite chunk_texts_app, all_some_app, Ha, Hb, concat_app, Hxa, Hyb. split; reflexivity.
Qed.

Lemma Reass_chunk t m evs x : Reass evs x -> Reass (EChunk (Some t) m :: evs) (t ++ x).
Proof.
  intros [xs [Ha Hx]]. exists (t :: xs). cbn [chunk_texts all_some]. rewrite Ha.
  split; [reflexivity|]. cbn [concat]. rewrite Hx. reflexivity.
Qed.

Lemma Reass_one t m : Reass [EChunk (Some t) m] t.
Proof. rewrite <- (app_nil_r t) at 2. apply Reass_chunk. apply Reass_nil. Qed.

Lemma Reass_source i n c evs x : Reass evs x -> Reass (ESource i n c :: evs) x.
Proof. intros H. exact H. Qed.

Lemma Reass_name i n evs x : Reass evs x -> Reass (EName i n :: evs) x.
Proof. intros H. exact H. Qed.

Lemma Reass_chunk_inv t m evs x : Reass (EChunk t m :: evs) x ->
  exists t' x', t = Some t' /\ x = t' ++ x' /\ Reass evs x'.
Proof.
  intros [ts [H Hx]]. cbn [chunk_texts all_some] in H. destruct t as [t'|]; [|discriminate].
  destruct (all_some (chunk_texts evs)) as [xs|] eqn:E; [|discriminate].
  inversion H. subst ts. exists t', (concat xs). split; [reflexivity|]. split.
  - rewrite <- Hx. reflexivity.
  - exists xs. split; [exact E|reflexivity].
Qed.

Lemma Reass_fun evs x y : Reass evs x -> Reass evs y -> x = y.
Proof. intros [a [Ha Hx]] [b [Hb Hy]]. congruence. Qed.

(* ------------------------------------------------------------------ *)
(* WP: positions, as a judgement on pairs                              *)
(* ------------------------------------------------------------------ *)
Definition adv (p : N * N) (t : text) : N * N := advance (fst p) (snd p) t.

Lemma adv_app p a b : adv p (a ++ b) = adv (adv p a) b.
Proof.
  unfold adv. rewrite advance_app. destruct (advance (fst p) (snd p) a); reflexivity.
Qed.

Lemma adv_nil p : adv p [] = p.
Proof. destruct p; reflexivity. Qed.

Definition WP (evs : list event) (p : N * N) : Prop :=
  well_positioned (chunks_of evs) (fst p) (snd p) = true.

Lemma WP_nil p : WP [] p.
Proof. reflexivity. Qed.

Lemma WP_chunk t m evs p :
  g_line m = fst p -> g_col m = snd p -> WP evs (adv p t) -> WP (EChunk (Some t) m :: evs) p.
Proof.
  unfold WP, adv. intros Hl Hc H. cbn [chunks_of well_positioned].
  rewrite Hl, Hc, !N.eqb_refl. cbn [andb].
  destruct (advance (fst p) (snd p) t) as [l' c']. exact H.
Qed.

Lemma WP_chunk_inv t m evs p : WP (EChunk t m :: evs) p ->
  exists t', t = Some t' /\ g_line m = fst p /\ g_col m = snd p /\ WP evs (adv p t').
Proof.
  unfold WP, adv. cbn [chunks_of well_positioned]. destruct t as [t'|]; [|discriminate].
  intros H. apply andb_true_iff in H. destruct H as [H H3]. apply andb_true_iff in H.
  destruct H as [H1 H2]. apply N.eqb_eq in H1. apply N.eqb_eq in H2.
  exists t'. split; [reflexivity|]. split; [exact H1|]. split; [exact H2|].
  destruct (advance (fst p) (snd p) t') as [l' c']. exact H3.
Qed.

Lemma WP_source i n c evs p : WP evs p -> WP (ESource i n c :: evs) p.
Proof. intros H. exact H. Qed.

Lemma WP_name i n evs p : WP evs p -> WP (EName i n :: evs) p.
Proof. intros H. exact H. Qed.

(* the combined judgement: evs carry exactly t, every chunk reported where it starts *)
Definition Good (evs : list event) (p : N * N) (t : text) : Prop := Reass evs t /\ WP evs p.

Lemma Good_nil p : Good [] p [].
Proof. split; [apply Reass_nil|apply WP_nil]. Qed.

Lemma Good_chunk t m evs p x :
  g_line m = fst p -> g_col m = snd p -> Good evs (adv p t) x ->
  Good (EChunk (Some t) m :: evs) p (t ++ x).
Proof.
  intros Hl Hc [H1 H2]. split; [apply Reass_chunk; exact H1|apply WP_chunk; assumption].
Qed.

Lemma Good_one t m p : g_line m = fst p -> g_col m = snd p -> Good [EChunk (Some t) m] p t.
Proof.
  intros Hl Hc. rewrite <- (app_nil_r t) at 2. apply Good_chunk; [exact Hl|exact Hc|apply Good_nil].
Qed.

Lemma Good_source i n c evs p x : Good evs p x -> Good (ESource i n c :: evs) p x.
Proof. intros H. exact H. Qed.

Lemma WP_app a : forall b p ta, Reass a ta -> WP a p -> WP b (adv p ta) -> WP (a ++ b) p.
Proof.
  induction a as [|e a IH]; intros b p ta Hr Hw Hb.
  - destruct Hr as [ts [H1 H2]]. cbn in H1. inversion H1. subst ts. cbn in H2. subst ta.
    rewrite adv_nil in Hb. exact Hb.
  - destruct e as [t m|i n c|i n].
    + apply Reass_chunk_inv in Hr. destruct Hr as [t' [x' [-> [-> Hr]]]].
      apply WP_chunk_inv in Hw. destruct Hw as [t'' [Ht [Hl [Hc Hw]]]]. inversion Ht. subst t''.
      cbn [app]. apply WP_chunk; [exact Hl|exact Hc|].
      apply (IH b (adv p t') x' Hr Hw). rewrite <- adv_app. exact Hb.
    + cbn [app]. apply WP_source. apply (IH b p ta); assumption.
    + cbn [app]. apply WP_name. apply (IH b p ta); assumption.
Qed.

Lemma Good_app a b p ta tb : Good a p ta -> Good b (adv p ta) tb -> Good (a ++ b) p (ta ++ tb).
Proof.
  intros [Ha1 Ha2] [Hb1 Hb2]. split; [apply Reass_app; assumption|].
  apply (WP_app a b p ta); assumption.
Qed.

(* ------------------------------------------------------------------ *)
(* L3: raw leaves                                                      *)
(* ------------------------------------------------------------------ *)
Lemma raw_chunks_good ls : lines_shape ls -> forall line,
  Good (raw_chunks ls line) (line, 0) (concat ls).
Proof.
  induction 1 as [|b Hne Hb|b ls Hb Hls IH]; intros line.
  - apply Good_nil.
  - cbn [raw_chunks concat]. apply Good_chunk; [reflexivity|reflexivity|apply Good_nil].
  - cbn [raw_chunks concat]. apply Good_chunk; [reflexivity|reflexivity|].
    unfold adv. cbn [fst snd]. rewrite advance_nl_end by exact Hb. apply IH.
Qed.

Theorem raw_stream_good (t : text) : Good (fst (raw_stream t false)) (1, 0) t.
Proof.
  unfold raw_stream. cbn [fst]. rewrite <- (concat_split_lines t) at 2.
  apply raw_chunks_good. apply split_lines_shape.
Qed.

Theorem raw_stream_reassembles (t : text) : reassembles (fst (raw_stream t false)) t = true.
Proof. apply reassembles_iff. apply raw_stream_good. Qed.

Theorem raw_stream_positioned (t : text) :
  well_positioned (chunks_of (fst (raw_stream t false))) 1 0 = true.
Proof. apply (raw_stream_good t). Qed.

Theorem raw_stream_end (t : text) (b : bool) : snd (raw_stream t b) = advance 1 0 t.
Proof.
  unfold raw_stream. destruct b; cbn [snd].
  - apply gen_info_advance.
  - apply lines_end_info_advance.
Qed.

(* ------------------------------------------------------------------ *)
(* L4: OriginalSource                                                  *)
(* ------------------------------------------------------------------ *)
Lemma original_tokens_end toks : Forall piece_shape toks -> forall final line col,
  snd (original_tokens toks final line col) = advance line col (concat toks).
Proof.
  induction 1 as [|tk toks Htk _ IH]; intros final line col; [reflexivity|].
  cbn [original_tokens concat].
  rewrite (advance_app line col tk (concat toks)), (piece_advance line col tk Htk).
  destruct (ends_with_nl tk).
  - specialize (IH final (line + 1) 0).
    destruct (original_tokens toks final (line + 1) 0) as [evs gi]. exact IH.
  - specialize (IH final line (col + len tk)).
    destruct (original_tokens toks final line (col + len tk)) as [evs gi]. exact IH.
Qed.

Lemma original_tokens_good toks : Forall piece_shape toks -> forall line col,
  Good (fst (original_tokens toks false line col)) (line, col) (concat toks).
Proof.
  induction 1 as [|tk toks Htk _ IH]; intros line col; [apply Good_nil|].
  cbn [original_tokens concat].
  assert (Hadv : adv (line, col) tk = if ends_with_nl tk then (line + 1, 0) else (line, col + len tk)).
  { unfold adv. cbn [fst snd]. apply piece_advance. exact Htk. }
  destruct (ends_with_nl tk).
  - specialize (IH (line + 1) 0).
    destruct (original_tokens toks false (line + 1) 0) as [evs gi]. cbn [fst] in *.
    destruct (true && (len tk =? 1)); cbn [app]; (apply Good_chunk; [reflexivity|reflexivity|]);
      rewrite Hadv; exact IH.
  - specialize (IH line (col + len tk)).
    destruct (original_tokens toks false line (col + len tk)) as [evs gi]. cbn [fst andb app] in *.
    apply Good_chunk; [reflexivity|reflexivity|]. rewrite Hadv. exact IH.
Qed.

Lemma original_line_chunks_good ls : lines_shape ls -> forall line,
  Good (original_line_chunks ls line) (line, 0) (concat ls).
Proof.
  induction 1 as [|b Hne Hb|b ls Hb Hls IH]; intros line.
  - apply Good_nil.
  - cbn [original_line_chunks concat]. apply Good_chunk; [reflexivity|reflexivity|apply Good_nil].
  - cbn [original_line_chunks concat]. apply Good_chunk; [reflexivity|reflexivity|].
    unfold adv. cbn [fst snd]. rewrite advance_nl_end by exact Hb. apply IH.
Qed.

Theorem original_stream_good (v name : text) (o : opts) :
  final_source o = false -> Good (fst (original_stream v name o)) (1, 0) v.
Proof.
  destruct o as [cols fin]. cbn [final_source]. intros ->. unfold original_stream.
  cbn [columns final_source]. destruct cols.
  - pose proof (original_tokens_good _ (potential_tokens_pieces v) 1 0) as H.
    rewrite concat_potential_tokens in H.
    destruct (original_tokens (potential_tokens v) false 1 0) as [evs gi]. cbn [fst] in *.
    apply Good_source. exact H.
  - cbn [fst]. apply Good_source. rewrite <- (concat_split_lines v) at 2.
    apply original_line_chunks_good. apply split_lines_shape.
Qed.

Theorem original_stream_reassembles (v name : text) (o : opts) :
  final_source o = false -> reassembles (fst (original_stream v name o)) v = true.
Proof. intros H. apply reassembles_iff. apply (original_stream_good v name o H). Qed.

Theorem original_stream_positioned (v name : text) (o : opts) :
  final_source o = false -> well_positioned (chunks_of (fst (original_stream v name o))) 1 0 = true.
Proof. intros H. apply (original_stream_good v name o H). Qed.

Theorem original_stream_end (v name : text) (o : opts) :
  snd (original_stream v name o) = advance 1 0 v.
Proof.
  destruct o as [cols fin]. unfold original_stream. cbn [columns final_source]. destruct cols.
  - pose proof (original_tokens_end _ (potential_tokens_pieces v) fin 1 0) as H.
    rewrite concat_potential_tokens in H.
    destruct (original_tokens (potential_tokens v) fin 1 0) as [evs gi]. exact H.
  - destruct fin.
    + pose proof (gen_info_advance v) as H. destruct (gen_info v) as [gl gc]. exact H.
    + cbn [snd]. apply lines_end_info_advance.
Qed.

Print Assumptions raw_stream_reassembles.
Print Assumptions raw_stream_positioned.
Print Assumptions raw_stream_end.
Print Assumptions original_stream_reassembles.
Print Assumptions original_stream_positioned.
Print Assumptions original_stream_end.
