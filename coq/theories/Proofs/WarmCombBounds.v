(* Warm caches over combined-map leaves, part 1: input-side size bounds for trees whose leaves
   may be SourceMapSources WITH an inner map (class `rshape2`, CombLeafTree.v).
   `asrc2` / `anam2` count what a tree can announce - a combined leaf announces sources and names
   of BOTH of its maps -, `maps_tiny2` bounds every field of the inner map and the length of the
   supplied original text as `maps_tiny` bounds the outer map, and `tiny2` is `tiny` over these.
   For a tree of the class every stream
     - carries original lines / columns and announced contents of at most KB2 = 2^29
       (`obnd2_tree`; a combined leaf may advance an inner column by an outer one, hence 2 * KB),
     - announces at most asrc2 sources and anam2 names (`cnt2_tree`). *)
From RS Require Import Base.Prelude Base.Text Rope.RopeModel Codec.Vlq Codec.CodecSpec
  Checkers.ChkCodec Stream.Types Stream.Leaves Stream.Concat Stream.Replace Stream.Combined Stream.Tree
  Sem.Attr Checkers.ChkTree Checkers.ChkCombined
  Proofs.StreamText Proofs.StreamLeaves Proofs.StreamMap Proofs.StreamConcat Proofs.StreamTree
  Proofs.WfStream Proofs.WfFinal Proofs.RStreamText Proofs.RStreamPos Proofs.RStreamTree
  Proofs.AttrCodec Proofs.AttrSms Proofs.AttrLeaves Proofs.LawConcatAttr Proofs.LawWrappers
  Proofs.CacheReplay Proofs.FinalDense Proofs.FinalReplace Proofs.FinalConcat Proofs.FinalTree
  Proofs.CombSearch Proofs.CombPass Proofs.CombRows Proofs.CombReach
  Proofs.CombAllSpec Proofs.CombAllInner Proofs.CombAllRun Proofs.CombAllStep Proofs.CombAllStream
  Proofs.CombAllT12 Proofs.CombLeafBase Proofs.CombLeafTree
  Proofs.BoundsPos Proofs.BoundsOrig Proofs.BoundsIdx.
Require Import Lia List ZArith.

Local Open Scope N_scope.

(* ------------------------------------------------------------------ *)
(* the bound                                                           *)
(* ------------------------------------------------------------------ *)
Definition KB2 : N := 536870912.       (* 2^29 = 2 * KB *)

Definition im_sources (i : option smap) : N := match i with Some im => len (sm_sources im) | None => 0 end.
Definition im_names (i : option smap) : N := match i with Some im => len (sm_names im) | None => 0 end.

Fixpoint asrc2 (s : src) : N :=
  match s with
  | SOriginal _ _ => 1
  | SMapped _ _ m _ i _ => len (sm_sources m) + im_sources i
  | SConcat cs => fold_right (fun c acc => asrc2 c + acc) 0 cs
  | SReplace inner _ => asrc2 inner
  | SCached _ inner => asrc2 inner
  | _ => 0
  end.

Fixpoint anam2 (s : src) : N :=
  match s with
  | SMapped _ _ m _ i _ => len (sm_names m) + im_names i
  | SConcat cs => fold_right (fun c acc => anam2 c + acc) 0 cs
  | SReplace inner rs => anam2 inner + len rs
  | SCached _ inner => anam2 inner
  | _ => 0
  end.

(* the inner map and the supplied original text of a combined leaf *)
Definition inner_tiny (og : option text) (i : option smap) : bool :=
  match i with
  | Some im => map_tiny im && match og with Some t => len t <? KB | None => true end
  | None => true
  end.

Fixpoint maps_tiny2 (s : src) : bool :=
  match s with
  | SMapped _ _ m og i _ => map_tiny m && inner_tiny og i
  | SConcat cs => forallb maps_tiny2 cs
  | SReplace inner _ => maps_tiny2 inner
  | SCached _ inner => maps_tiny2 inner
  | _ => true
  end.

Definition tiny2 (s : src) : bool :=
  (tsize s <? KB) && (asrc2 s <? KB) && (anam2 s <? KB) && (nleaves s <? KB) && maps_tiny2 s.

Lemma tiny2_parts s : tiny2 s = true ->
  tsize s < KB /\ asrc2 s < KB /\ anam2 s < KB /\ nleaves s < KB /\ maps_tiny2 s = true.
Proof.
  unfold tiny2. intros H.
  apply andb_true_iff in H. destruct H as [H H5]. apply andb_true_iff in H. destruct H as [H H4].
  apply andb_true_iff in H. destruct H as [H H3]. apply andb_true_iff in H. destruct H as [H1 H2].
  apply N.ltb_lt in H1, H2, H3, H4. auto.
Qed.

(* `tiny2` is `tiny` and more *)
Lemma asrc_le2 : forall s, asrc s <= asrc2 s.
Proof.
  apply (src_ind' (fun s => asrc s <= asrc2 s)); cbn [asrc asrc2]; try (intros; lia).
  intros cs IH. induction IH as [|c cs Hc _ IHl]; cbn [fold_right]; lia.
Qed.

Lemma anam_le2 : forall s, anam s <= anam2 s.
Proof.
  apply (src_ind' (fun s => anam s <= anam2 s)); cbn [anam anam2]; try (intros; lia).
  intros cs IH. induction IH as [|c cs Hc _ IHl]; cbn [fold_right]; lia.
Qed.

Lemma maps_tiny2_1 : forall s, maps_tiny2 s = true -> maps_tiny s = true.
Proof.
  apply (src_ind' (fun s => maps_tiny2 s = true -> maps_tiny s = true)); cbn [maps_tiny maps_tiny2]; try (intros; reflexivity).
  - intros v n m og i r H. apply andb_true_iff in H. apply H.
  - intros cs IH H. rewrite Forall_forall in IH. rewrite forallb_forall in H. apply forallb_forall.
    intros c Hc. apply (IH c Hc (H c Hc)).
  - intros i rs IH H. apply IH. exact H.
  - intros k i IH H. apply IH. exact H.
Qed.

Lemma tiny2_tiny s : tiny2 s = true -> tiny s = true.
Proof.
  intros H. destruct (tiny2_parts s H) as [T1 [T2 [T3 [T4 T5]]]].
  pose proof (asrc_le2 s). pose proof (anam_le2 s). unfold tiny.
  rewrite (maps_tiny2_1 s T5), andb_true_r.
  repeat (apply andb_true_iff; split); apply N.ltb_lt; lia.
Qed.

(* trees without combined leaves: nothing changes *)
Lemma rshape_counts2 : forall s, rshape s = true -> asrc2 s = asrc s /\ anam2 s = anam s /\ maps_tiny2 s = maps_tiny s.
Proof.
  apply (src_ind' (fun s => rshape s = true -> asrc2 s = asrc s /\ anam2 s = anam s /\ maps_tiny2 s = maps_tiny s));
    cbn [rshape asrc asrc2 anam anam2 maps_tiny maps_tiny2]; try (intros; repeat split; reflexivity).
  - intros v n m og i r H. destruct i as [im|]; [discriminate|]. cbn [im_sources im_names inner_tiny].
    rewrite !N.add_0_r, andb_true_r. repeat split; reflexivity.
  - intros cs IH H. rewrite Forall_forall in IH. rewrite forallb_forall in H.
    assert (G : forall c, In c cs -> asrc2 c = asrc c /\ anam2 c = anam c /\ maps_tiny2 c = maps_tiny c)
      by (intros c Hc; apply (IH c Hc (H c Hc))).
    clear IH H. induction cs as [|c cs IHc]; [repeat split; reflexivity|].
    destruct (G c (or_introl eq_refl)) as [A [B C]].
    destruct (IHc (fun x Hx => G x (or_intror Hx))) as [A' [B' C']].
    cbn [fold_right forallb]. rewrite A, B, C, A', B', C'. repeat split; reflexivity.
  - intros i rs IH H. destruct (IH H) as [A [B C]]. rewrite A, B, C. repeat split; reflexivity.
  - intros k i _ H. discriminate.
Qed.

Lemma rshape_tiny2 s : rshape s = true -> tiny2 s = tiny s.
Proof. intros H. destruct (rshape_counts2 s H) as [A [B C]]. unfold tiny2, tiny. rewrite A, B, C. reflexivity. Qed.

(* ------------------------------------------------------------------ *)
(* the per-event bound is monotone                                      *)
(* ------------------------------------------------------------------ *)
Lemma ob_mono D D' mo : D <= D' -> ob D mo -> ob D' mo.
Proof. intros H. destruct mo as [o|]; cbn [ob]; [lia|tauto]. Qed.

Lemma evb_mono D D' e : D <= D' -> evb D e -> evb D' e.
Proof.
  intros H. destruct e as [t m|i n c|i n]; cbn [evb]; [apply ob_mono; exact H| |tauto].
  destruct c as [c|]; [lia|tauto].
Qed.

Lemma evbs_mono D D' evs : D <= D' -> Forall (evb D) evs -> Forall (evb D') evs.
Proof. intros H F. eapply Forall_impl; [|exact F]. intros e. apply evb_mono. exact H. Qed.

Lemma KB_KB2 : KB <= KB2.
Proof. unfold KB, KB2. lia. Qed.

(* ------------------------------------------------------------------ *)
(* the bound, read off resolved segments and announced contents          *)
(* ------------------------------------------------------------------ *)
Definition attrb (D : N) (a : attr) : Prop :=
  match a with Some l => l_line l <= D /\ l_col l <= D | None => True end.

Definition contb (D : N) (p : text * option text) : Prop :=
  match snd p with Some c => len c <= D | None => True end.

Lemma evb_rsegs D : forall evs S Nn, Forall (evb D) evs ->
  Forall (fun r : option text * rseg => attrb D (snd (snd r))) (rsegs_of_events evs S Nn).
Proof.
  induction evs as [|e evs IH]; intros S Nn H; [constructor|]. inversion H as [|? ? He H']. subst.
  destruct e as [t m|i n c|i n]; cbn [rsegs_of_events]; [|apply IH; exact H'..].
  constructor; [|apply IH; exact H']. cbn [snd evb] in *. destruct (m_orig m) as [o|]; [|exact I].
  cbn [attrb l_line l_col ob] in *. exact He.
Qed.

Lemma rsegs_evb D : forall evs S Nn,
  Forall (fun r : option text * rseg => attrb D (snd (snd r))) (rsegs_of_events evs S Nn) ->
  Forall (contb D) (contents_of_events evs) -> Forall (evb D) evs.
Proof.
  induction evs as [|e evs IH]; intros S Nn H1 H2; [constructor|].
  destruct e as [t m|i n c|i n]; cbn [rsegs_of_events contents_of_events] in *.
  - inversion H1 as [|? ? Hr H1']. subst. constructor; [|apply (IH S Nn); assumption].
    cbn [snd evb] in *. destruct (m_orig m) as [o|]; [|exact I]. cbn [attrb l_line l_col ob] in *. exact Hr.
  - inversion H2 as [|? ? Hc H2']. subst. constructor; [|apply (IH _ _ H1 H2')].
    cbn [evb]. unfold contb in Hc. cbn [snd] in Hc. destruct c; [exact Hc|exact I].
  - constructor; [exact I|apply (IH _ _ H1 H2)].
Qed.

Lemma evb_tchunks D evs : Forall (evb D) evs -> Forall (fun ch : text * mapping => ob D (m_orig (snd ch))) (tchunks evs).
Proof.
  induction 1 as [|e evs He _ IH]; [constructor|].
  destruct e as [[x|] mp|? ? ?|? ?]; cbn [tchunks]; try exact IH. constructor; [exact He|exact IH].
Qed.

(* ------------------------------------------------------------------ *)
(* the combined leaf: original positions and contents                   *)
(* ------------------------------------------------------------------ *)
Section LeafB.
Variables (v name : text) (m : smap) (given : option text) (im : smap) (remove : bool).
Hypothesis Hwf : c09_wf v m name given im.
Hypothesis Hm : map_tiny m = true.
Hypothesis Him : map_tiny im = true.
Hypothesis Hg : match given with Some t => len t < KB | None => True end.

Lemma resolve_b cols a : attrb KB a -> attrb KB2 (resolve_combined cols m im name given remove a).
Proof.
  intros Ha. pose proof KB_KB2 as HK. destruct a as [l|]; [|exact I]. cbn [attrb] in Ha. unfold resolve_combined.
  destruct (text_eqb (l_file l) name); [|cbn [attrb]; lia].
  assert (Fb : attrb KB2 (rc_fallback name remove l)).
  { unfold rc_fallback. destruct remove; [exact I|]. cbn [attrb l_line l_col]. lia. }
  unfold rc_inner. destruct (original_of m name given) as [ot|]; [|exact Fb].
  destruct (last_at (inner_chunks cols im ot) (l_line l) (l_col l) None) as [[x mp]|] eqn:E; [|exact Fb].
  destruct (last_at_some _ _ _ _ _ E) as [Q|[Q _]]; [discriminate|].
  destruct (m_orig mp) as [io|] eqn:Eo; [|exact Fb].
  destruct (map_tiny_segb im Him) as [S1 S2].
  pose proof (evb_tchunks KB _ (sm_stream_b KB ot im (mkOpts cols false) S1 S2)) as F.
  rewrite Forall_forall in F. specialize (F (x, mp) Q). cbn [snd] in F. rewrite Eo in F. cbn [ob] in F.
  unfold rc_row. cbn [attrb l_line l_col]. unfold rc_col. unfold KB, KB2 in *.
  destruct (rc_adv im (l_col l) x mp io); lia.
Qed.

Lemma files_b : Forall (contb KB) (FILES m im name given).
Proof.
  destruct (map_tiny_segb m Hm) as [_ M2]. destruct (map_tiny_segb im Him) as [_ I2].
  assert (SP : forall mm, (forall c, In c (sm_contents mm) -> len c <= KB) ->
                forall srcs i, Forall (contb KB) (src_pairs mm srcs i)).
  { intros mm Hc srcs i. unfold src_pairs. rewrite Forall_map.
    eapply Forall_impl; [|apply (announce_sources_b KB mm Hc srcs i)].
    intros [t mp|j s c|j s]; cbn [evb contb snd]; try tauto. }
  unfold FILES. apply Forall_app. split.
  - apply Forall_forall. intros p Hp. apply filter_In in Hp. destruct Hp as [Hp _].
    pose proof (SP m M2 (sm_sources m) 0) as F. rewrite Forall_forall in F. apply F. exact Hp.
  - apply Forall_app. split; [apply (SP im I2)|]. constructor; [|constructor].
    unfold contb. cbn [snd]. unfold original, original_of. destruct given as [t|]; [lia|].
    generalize 0. induction (sm_sources m) as [|s srcs IH]; intros i; cbn [outer_content_of]; [exact I|].
    destruct (text_eqb (get_source m s) name); [|apply IH].
    unfold content_in. destruct (nth_opt (sm_contents m) i) as [c|] eqn:E; [|exact I].
    apply M2. unfold nth_opt in E. apply nth_error_In in E. exact E.
Qed.

Theorem combined_stream_b o : Forall (evb KB2) (fst (combined_stream v m name given im remove o)).
Proof.
  destruct (map_tiny_segb m Hm) as [M1 M2].
  apply (rsegs_evb KB2 _ [] []).
  - rewrite (combined_rsegs v m name given im remove o Hwf), Forall_map.
    pose proof (evb_rsegs KB _ [] [] (sm_stream_b KB v m o M1 M2)) as F.
    eapply Forall_impl; [|exact F]. intros [t [[gl gc] a]]. cbn [rc_seg snd]. apply resolve_b.
  - pose proof (combined_contents v m name given im remove o Hwf) as F.
    pose proof files_b as G. rewrite Forall_forall in G.
    eapply Forall_impl; [|exact F]. cbn beta. intros p Hp. specialize (G p Hp).
    unfold contb in *. destruct (snd p); [pose proof KB_KB2; lia|exact I].
Qed.

End LeafB.

(* ------------------------------------------------------------------ *)
(* the combined leaf: how many sources and names it announces            *)
(* ------------------------------------------------------------------ *)
Lemma run_counts evs S Nn S' N' : run evs S Nn S' N' -> len S' = len S + nS evs /\ len N' = len Nn + nN evs.
Proof.
  induction 1 as [S Nn|s c evs S Nn S' N' _ IH|n evs S Nn S' N' _ IH|t mp evs S Nn S' N' _ _ IH];
    cbn [nS nN]; try rewrite slen_app in IH; try change (len [s]) with 1 in IH; try change (len [n]) with 1 in IH; lia.
Qed.

Section StreamN.
Variables (cols : bool) (m im : smap) (name : text) (given : option text) (remove : bool) (i0 : N).

Let f := fun c : text => fst (sm_stream c im (mkOpts cols false)).

Hypothesis Hi0 : nth_opt (S_out m) i0 = Some name.
Hypothesis Huniq : forall j, nth_opt (S_out m) j = Some name -> j = i0.
Hypothesis HboundS : len (ALLS m im) < two32.
Hypothesis HboundN : len (ALLN cols m im) < two32.
Hypothesis Hinner_fit : forall ot, original m name given = Some ot ->
  Forall (fun ch : text * mapping => inner_fit cols im (m_orig (snd ch))) (tchunks (f ot)).
Hypothesis Horig : original m name given =
  match given with Some s => Some s | None => nth_opt (sm_contents m) i0 end.
Hypothesis Hok : forall ot, original m name given = Some ot ->
  ascii ot = true /\ map_consistent ot im = true.

(* `CombAllStream.whole_stream`, keeping what the invariants say of the final tables *)
Lemma whole_stream_tables chunks :
  Forall (chunkP (chunk_fit cols m)) chunks ->
  exists st' out,
    outer_events f name remove (b_init given)
      (announce_sources m (sm_sources m) 0 ++ announce_names (N_out cols m) 0 ++ chunks) = (st', out) /\
    run out [] [] (b_sources st') (b_names st') /\
    NoDup (b_sources st') /\ incl (b_sources st') (ALLS m im) /\
    NoDup (b_names st') /\ incl (b_names st') (ALLN cols m im).
Proof.
  intros Hall. destruct (b_init_invs cols m im name given i0) as (Hs0 & Hn0 & Hi0').
  assert (Hlt : i0 < len (sm_sources m)).
  { pose proof (cs_nth_opt_lt _ _ _ Hi0) as H. rewrite S_out_eq, slen_map in H. exact H. }
  assert (Hi0'' : iinv cols m im name given i0 (b_init given) (i0 <? len (@nil text))).
  { replace (i0 <? len (@nil text)) with false; [exact Hi0'|]. symmetry. apply N.ltb_ge. cbn. lia. }
  destruct (sources_phase cols m im name given remove i0 Hi0 Huniq HboundS HboundN Horig Hok (sm_sources m) [] (b_init given)
              eq_refl Hs0 Hn0 Hi0'')
    as (st1 & an1 & E1 & A1 & A2 & A3 & A4 & A5 & A6).
  replace (i0 <? len (sm_sources m)) with true in A3 by (symmetry; apply N.ltb_lt; exact Hlt).
  destruct (names_phase cols m im name given remove i0 (N_out cols m) [] st1 A1 A2 A3) as (st2 & E2 & B1 & B2 & B3 & B4 & B5).
  cbn [app] in B2.
  destruct (chunks_phase cols m im name given remove i0 Hi0 Huniq HboundS HboundN Hinner_fit chunks st2 B1 B2 B3 Hall)
    as (st3 & out & E3 & C1 & C2 & C3 & C4 & C5).
  change (len (@nil text)) with 0 in E1, E2. fold f in E1, E2, E3.
  rewrite !outer_events_app, E1. cbn [fst snd]. rewrite E2. cbn [fst snd]. rewrite E3. cbn [fst snd app].
  exists st3, (an1 ++ out). split; [reflexivity|].
  rewrite B4, B5 in C3. split; [apply (run_app _ _ _ _ (b_sources st1) (b_names st1)); assumption|].
  destruct C1 as (_ & _ & _ & Q1 & Q2). destruct C2 as (_ & _ & Q3 & Q4).
  repeat (split; [assumption|]). assumption.
Qed.

End StreamN.

Theorem combined_stream_n v m name given im remove o : c09_wf v m name given im ->
  nS (fst (combined_stream v m name given im remove o)) <= len (sm_sources m) + len (sm_sources im) /\
  nN (fst (combined_stream v m name given im remove o)) <= len (sm_names m) + len (sm_names im).
Proof.
  intros (Hc & Hone & Hin & Hsz).
  destruct (one_inner_facts m name given Hone) as (i0 & Hi0 & Huniq & Horig).
  destruct (sized_bounds m im (columns o) Hsz) as (BS & BN & C1 & C2).
  set (ns := len (sm_sources m)). set (nn := len (sm_names m)).
  pose proof (sm_stream_shape
                (fun mo => orig_fit ns nn mo /\ col31 mo) (fun mo => orig_fit ns 0 mo /\ col31 mo)
                (conj (conj I I) I) (conj (conj I I) I)) as Hshape.
  assert (PQ : forall o0, orig_fit ns nn (Some o0) /\ col31 (Some o0) ->
                          orig_fit ns 0 (Some (strip_name o0)) /\ col31 (Some (strip_name o0))).
  { intros o0 [[[A _] (B1 & B2 & B3 & _)] C]. split; [split|exact C].
    - split; [exact A|exact I].
    - repeat split; assumption. }
  specialize (Hshape PQ v m o (segs_fit v m Hc C1)).
  unfold combined_stream. destruct (sm_stream v m o) as [oevs gi]. cbn [fst] in Hshape |- *.
  destruct Hshape as [->|[chunks [-> Hch]]].
  { cbn [outer_events fst nS nN]. lia. }
  assert (Hfit : Forall (chunkP (chunk_fit (columns o) m)) chunks).
  { unfold chunk_fit, N_out. rewrite S_out_eq, slen_map. fold ns.
    destruct (columns o); (eapply Forall_impl; [|exact Hch]); intros [? ?|? ? ?|? ?]; cbn [chunkP]; try tauto. }
  assert (Hif : forall ot, original m name given = Some ot ->
            Forall (fun ch : text * mapping => inner_fit (columns o) im (m_orig (snd ch)))
                   (tchunks (fst (sm_stream ot im (mkOpts (columns o) false))))).
  { intros ot Eot. destruct (Hin ot Eot) as [_ Hci]. apply inner_fit_all; assumption. }
  destruct (whole_stream_tables (columns o) m im name given remove i0 Hi0 Huniq BS BN Hif Horig Hin chunks Hfit)
    as (st' & out & E & R & D1 & I1 & D2 & I2).
  change (if columns o then sm_names m else []) with (N_out (columns o) m).
  rewrite E. cbn [fst].
  destruct (run_counts _ _ _ _ _ R) as [L1 L2]. change (len (@nil text)) with 0 in L1, L2.
  pose proof (nodup_incl_len _ _ D1 I1) as P1. pose proof (nodup_incl_len _ _ D2 I2) as P2.
  assert (Q1 : len (ALLS m im) = len (sm_sources m) + len (sm_sources im)).
  { unfold ALLS. rewrite slen_app, S_out_eq, !slen_map. unfold ISfull. rewrite src_pairs_len. reflexivity. }
  assert (Q2 : len (ALLN (columns o) m im) <= len (sm_names m) + len (sm_names im)).
  { unfold ALLN, N_out, INfull. rewrite slen_app. destruct (columns o); [lia|cbn; lia]. }
  lia.
Qed.

(* ------------------------------------------------------------------ *)
(* trees                                                               *)
(* ------------------------------------------------------------------ *)
Lemma inner_tiny_parts og im : inner_tiny og (Some im) = true ->
  map_tiny im = true /\ match og with Some t => len t < KB | None => True end.
Proof.
  cbn [inner_tiny]. intros H. apply andb_true_iff in H. destruct H as [H1 H2]. split; [exact H1|].
  destruct og; [apply N.ltb_lt; exact H2|exact I].
Qed.

Definition obnd2_all (s : src) : Prop :=
  forall o st, Forall (evb KB2) (fst (fst (stream st s o))).

Lemma kid_streams_b2 o cs : Forall obnd2_all cs -> forall st,
  Forall (fun k => Forall (evb KB2) (fst k)) (fst (kid_streams st cs o)).
Proof.
  induction 1 as [|c cs Hc _ IH]; intros st; [constructor|].
  cbn [kid_streams]. specialize (Hc o st).
  destruct (stream st c o) as [[evs gi] st1]. specialize (IH st1).
  destruct (kid_streams st1 cs o) as [ks st2]. cbn [fst snd] in *.
  constructor; assumption.
Qed.

Lemma rshape_obnd2 s : rshape s = true -> treeA s = true -> tsize s < KB -> maps_tiny2 s = true -> obnd2_all s.
Proof.
  intros H1 H2 H3 H4 o st. apply (evbs_mono KB KB2 _ KB_KB2).
  apply (obnd_tree s H1 H2 H3 (maps_tiny2_1 s H4)).
Qed.

Theorem obnd2_tree : forall s,
  rshape2 s = true -> treeA s = true -> tsize s < KB -> maps_tiny2 s = true -> obnd2_all s.
Proof.
  apply (src_ind' (fun s => rshape2 s = true -> treeA s = true -> tsize s < KB -> maps_tiny2 s = true -> obnd2_all s)).
  - intros b v _ H2 H3 H4. apply rshape_obnd2; [reflexivity|assumption..].
  - intros v _ H2 H3 H4. apply rshape_obnd2; [reflexivity|assumption..].
  - intros v _ H2 H3 H4. apply rshape_obnd2; [reflexivity|assumption..].
  - intros v n _ H2 H3 H4. apply rshape_obnd2; [reflexivity|assumption..].
  - intros v n m og i r Hsh Ha Ht Hm. destruct i as [im|].
    + intros o st. cbn [rshape2] in Hsh. apply c09_wfb_iff in Hsh. cbn [maps_tiny2] in Hm.
      apply andb_true_iff in Hm. destruct Hm as [Hm Hi]. destruct (inner_tiny_parts og im Hi) as [Hi1 Hi2].
      cbn [stream fst]. apply combined_stream_b; assumption.
    + apply rshape_obnd2; [reflexivity|assumption..].
  - intros cs IH Hsh Ha Ht Hm o st. cbn [rshape2 maps_tiny2] in Hsh, Hm.
    assert (Hall : Forall obnd2_all cs).
    { rewrite Forall_forall in *. rewrite forallb_forall in Hsh, Hm. intros c Hc.
      apply IH; [exact Hc|apply Hsh; exact Hc|apply (treeA_concat cs Ha c Hc)| |apply Hm; exact Hc].
      pose proof (tsize_child cs c Hc). lia. }
    destruct (Nat.eq_dec (length cs) 1) as [E|E].
    + destruct cs as [|c [|c2 r]]; try discriminate. inversion Hall as [|? ? Hc _]. apply Hc.
    + rewrite (stream_concat_fold st cs o E). cbn [fst].
      apply concat_fold_b; [|constructor]. apply kid_streams_b2. exact Hall.
  - intros i rs IH Hsh Ha Ht Hm o st. cbn [rshape2 maps_tiny2 tsize] in Hsh, Hm, Ht.
    assert (HAi : treeA i = true).
    { unfold treeA in *. cbn [tree_wf tree_ascii] in Ha. apply andb_true_iff in Ha. destruct Ha as [Hw Ha].
      apply andb_true_iff in Hw. destruct Hw as [Hw1 Hw2]. apply andb_true_iff in Ha. destruct Ha as [Ha1 _].
      rewrite Hw1, Ha1. reflexivity. }
    assert (Hti : tsize i < KB) by lia.
    cbn [stream]. pose proof (IH Hsh HAi Hti Hm (mkOpts (columns o) false) st) as A.
    destruct (stream st i (mkOpts (columns o) false)) as [[ievs gi] st']. cbn [fst snd] in *.
    apply replace_stream_b. exact A.
  - intros id i _ Hsh. discriminate.
Qed.

Definition cnt2_all (s : src) : Prop :=
  forall o st, nS (fst (fst (stream st s o))) <= asrc2 s /\ nN (fst (fst (stream st s o))) <= anam2 s.

Lemma kid_streams_n2 o cs : Forall cnt2_all cs -> forall st,
  sumS (fst (kid_streams st cs o)) <= fold_right (fun c acc => asrc2 c + acc) 0 cs /\
  sumN (fst (kid_streams st cs o)) <= fold_right (fun c acc => anam2 c + acc) 0 cs.
Proof.
  induction 1 as [|c cs Hc _ IH]; intros st; [cbn; lia|].
  cbn [kid_streams]. specialize (Hc o st).
  destruct (stream st c o) as [[evs gi] st1]. specialize (IH st1).
  destruct (kid_streams st1 cs o) as [ks st2]. cbn [fst snd] in *.
  unfold sumS, sumN in *. cbn [fold_right fst]. lia.
Qed.

Lemma rshape_cnt2 s : rshape s = true -> cnt2_all s.
Proof.
  intros H o st. destruct (rshape_counts2 s H) as [A [B _]]. rewrite A, B. apply (cnt_tree s H).
Qed.

Theorem cnt2_tree : forall s, rshape2 s = true -> cnt2_all s.
Proof.
  apply (src_ind' (fun s => rshape2 s = true -> cnt2_all s)).
  - intros b v _. apply rshape_cnt2. reflexivity.
  - intros v _. apply rshape_cnt2. reflexivity.
  - intros v _. apply rshape_cnt2. reflexivity.
  - intros v n _. apply rshape_cnt2. reflexivity.
  - intros v n m og i r Hsh. destruct i as [im|]; [|apply rshape_cnt2; reflexivity].
    intros o st. cbn [rshape2] in Hsh. apply c09_wfb_iff in Hsh.
    cbn [stream fst asrc2 anam2 im_sources im_names]. apply combined_stream_n. exact Hsh.
  - intros cs IH Hsh o st. cbn [rshape2] in Hsh.
    assert (Hall : Forall cnt2_all cs).
    { rewrite Forall_forall in *. rewrite forallb_forall in Hsh. intros c Hc. apply IH; [exact Hc|apply Hsh; exact Hc]. }
    destruct (Nat.eq_dec (length cs) 1) as [E|E].
    + destruct cs as [|c [|c2 r]]; try discriminate. inversion Hall as [|? ? Hc _].
      specialize (Hc o st). cbn [asrc2 anam2 fold_right]. cbn [stream]. lia.
    + rewrite (stream_concat_fold st cs o E). cbn [fst asrc2 anam2].
      pose proof (concat_fold_n (final_source o) (fst (kid_streams st cs o)) concat_init []) as [A1 A2].
      pose proof (kid_streams_n2 o cs Hall st) as [B1 B2]. cbn [nS nN] in A1, A2. lia.
  - intros i rs IH Hsh o st. cbn [rshape2] in Hsh. cbn [stream asrc2 anam2].
    pose proof (IH Hsh (mkOpts (columns o) false) st) as [A1 A2].
    destruct (stream st i (mkOpts (columns o) false)) as [[ievs gi] st']. cbn [fst snd] in *.
    pose proof (replace_stream_n (sort_repls rs) ievs gi) as [B1 B2]. rewrite len_sort_repls in B2. lia.
  - intros id i _ Hsh. discriminate.
Qed.

Print Assumptions tiny2_tiny.
Print Assumptions combined_stream_b.
Print Assumptions combined_stream_n.
Print Assumptions obnd2_tree.
Print Assumptions cnt2_tree.
