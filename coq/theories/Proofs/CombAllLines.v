(* C09, whole stream, part 8: columns = false.  Clause 2 of `chk_C09` (and the second half of
   clause 3): with line granularity every output line is attributed to (file, line) of
   `resolve_combined false` of the line's first mapped outer segment, and the reference
   accepts it. *)
From RS Require Import Base.Prelude Base.Text Rope.RopeModel Codec.Vlq Codec.CodecSpec
  Checkers.ChkCodec Stream.Types Stream.Leaves Stream.Combined Stream.Tree Api.ApiTree Sem.Attr
  Checkers.ChkTree Checkers.ChkCombined
  Proofs.CodecKept Proofs.StreamText Proofs.StreamLeaves Proofs.StreamMap Proofs.WfStream Proofs.AttrCodec Proofs.AttrSms
  Proofs.CombSearch Proofs.CombPass Proofs.CombRows Proofs.CombReach Proofs.CacheReplay Proofs.FinalConcat Proofs.FinalTree
  Proofs.LinesTree
  Proofs.CombAllSpec Proofs.CombAllInner Proofs.CombAllRun Proofs.CombAllStep Proofs.CombAllStream
  Proofs.CombAllT12 Proofs.CombAllLookup Proofs.CombAllChk.
Require Import Lia List ZArith.

Local Open Scope N_scope.

(* ------------------------------------------------------------------ *)
(* the inner line chunk covering a character                            *)
(* ------------------------------------------------------------------ *)
Theorem inner_line_lookup (ot : text) (im : smap) (L c : N) :
  ascii ot = true -> sorted_by pos_le (decode_mappings (sm_mappings im)) = true ->
  real (split_lines ot) (L, c) ->
  exists x mpi,
    last_at (inner_chunks false im ot) L c None = Some (x, mpi) /\
    pair_of (m_orig mpi) = first_mapped (decode_mappings (sm_mappings im)) L.
Proof.
  intros Ha Hs Hreal. set (ms := decode_mappings (sm_mappings im)) in *.
  pose proof (sm_stream_lines_full_good ot im) as [Hr Hw].
  unfold inner_chunks, sm_stream. cbn [columns final_source].
  unfold sm_stream_lines_full in *. destruct (is_nil (split_lines ot)) eqn:Hnil.
  { exfalso. apply is_nil_true in Hnil. destruct Hreal as [line [Hl _]]. rewrite Hnil in Hl.
    unfold line_at in Hl. cbn [fst] in Hl. destruct (L =? 0); [discriminate|]. rewrite nth_opt_nil in Hl. discriminate. }
  assert (H11 : 1 <= 1) by lia.
  pose proof (lines_loop_chunks (split_lines ot) ms 1 (sorted_ssorted _ Hs) H11) as Hg.
  fold ms in Hr, Hw |- *.
  destruct (sm_lines_full_loop (split_lines ot) ms 1) as [cur evs]. cbn [fst snd] in *.
  apply Reass_nochunk_inv in Hr; [|apply announce_sources_chunks].
  apply WP_nochunk_inv in Hw; [|apply announce_sources_chunks].
  rewrite tchunks_app, (tchunks_nochunks _ (announce_sources_chunks _ _ _)). cbn [app].
  destruct (real_offset ot L c Ha Hreal) as [j [Hj Hpos]].
  assert (Hnl : Forall nl_chunk (evs ++ whole_lines (split_lines ot) 1 cur (len (split_lines ot) + 1))).
  { pose proof (lines_shape_pieces _ (split_lines_shape ot)) as Hp. rewrite Forall_forall in Hp.
    eapply Forall_impl; [|exact Hg]. intros [[x|] mp|? ? ?|? ?]; cbn [line_chunk nl_chunk]; try tauto.
    intros [H1 _]. apply nl_last_piece. apply Hp. eapply line_at_in. exact H1. }
  destruct (cover_last _ (1, 0) ot None L c j Hr Hw Hnl Hj Hpos) as (x & mpi & E & Hin & Q1 & Q2 & Q3).
  exists x, mpi. split; [exact E|].
  rewrite Forall_forall in Hg. pose proof (Hg _ Hin) as G. cbn [line_chunk] in G.
  destruct G as (_ & _ & _ & G). rewrite Q1 in G. exact G.
Qed.

(* ------------------------------------------------------------------ *)
(* the text-less line splitter: one chunk per line                      *)
(* ------------------------------------------------------------------ *)
Fixpoint lines_incr (ms : list mapping) : Prop :=
  match ms with
  | [] => True
  | a :: r => Forall (fun b => g_line a < g_line b) r /\ lines_incr r
  end.

Lemma lines_final_incr fl : forall ms cur,
  lines_incr (chunk_mappings (sm_lines_final_loop ms cur fl)) /\
  Forall (fun b => cur <= g_line b) (chunk_mappings (sm_lines_final_loop ms cur fl)).
Proof.
  induction ms as [|m ms IH]; intros cur; [split; [exact I|constructor]|].
  cbn [sm_lines_final_loop]. destruct (m_orig m) as [o|]; [|apply IH].
  destruct ((cur <=? g_line m) && (g_line m <=? fl)) eqn:E; [|apply IH].
  apply andb_true_iff in E. destruct E as [E1 _]. apply N.leb_le in E1.
  destruct (IH (g_line m + 1)) as [A B]. cbn [chunk_mappings lines_incr g_line]. split.
  - split; [|exact A]. eapply Forall_impl; [|exact B]. cbn beta. intros b Hb. lia.
  - constructor; [cbn [g_line]; exact E1|]. eapply Forall_impl; [|exact B]. cbn beta. intros b Hb. lia.
Qed.

Definition on_l (l : N) (mp : mapping) : bool := g_line mp =? l.
Definition mapped_on (l : N) (mp : mapping) : bool :=
  (g_line mp =? l) && match m_orig mp with Some _ => true | None => false end.

Lemma find_none_forall {A} (p : A -> bool) l : Forall (fun x => p x = false) l -> find p l = None.
Proof. induction 1 as [|x l Hx _ IH]; [reflexivity|]. cbn [find]. rewrite Hx. exact IH. Qed.

Lemma lines_final_find fl l : forall ms cur, ssorted ms -> cur <= l -> l <= fl ->
  find (on_l l) (chunk_mappings (sm_lines_final_loop ms cur fl)) =
  match find (mapped_on l) ms with
  | Some mp => match m_orig mp with Some o => Some (mkMapping l 0 (Some (strip_name o))) | None => None end
  | None => None
  end.
Proof.
  induction ms as [|m ms IH]; intros cur Hs Hc Hl; [reflexivity|].
  destruct Hs as [Hm Hs]. apply ssorted_lines in Hm. cbn [sm_lines_final_loop find]. unfold mapped_on at 1.
  destruct (m_orig m) as [o|] eqn:Eo.
  - destruct ((cur <=? g_line m) && (g_line m <=? fl)) eqn:E.
    + cbn [chunk_mappings find]. unfold on_l at 1. cbn [g_line].
      destruct (g_line m =? l) eqn:El; cbn [andb].
      * rewrite Eo. apply N.eqb_eq in El. rewrite El. reflexivity.
      * apply N.eqb_neq in El. destruct (N.lt_ge_cases (g_line m) l) as [Hlt|Hge].
        -- apply IH; [exact Hs|lia|exact Hl].
        -- rewrite find_none_forall.
           ++ rewrite find_none_forall; [reflexivity|].
              eapply Forall_impl; [|exact Hm]. cbn beta. intros x Hx. unfold mapped_on.
              replace (g_line x =? l) with false by (symmetry; apply N.eqb_neq; lia). reflexivity.
           ++ destruct (lines_final_incr fl ms (g_line m + 1)) as [_ B].
              eapply Forall_impl; [|exact B]. cbn beta. intros x Hx. unfold on_l. apply N.eqb_neq. lia.
    + replace (g_line m =? l) with false.
      * cbn [andb]. apply IH; assumption.
      * symmetry. apply N.eqb_neq. intros El. apply andb_false_iff in E.
        destruct E as [E|E]; apply N.leb_gt in E; lia.
  - rewrite andb_false_r. apply IH; assumption.
Qed.

(* the reference's outer lookup for a line *)
Lemma first_mapped_find l : forall ms,
  match first_mapped ms l with Some _ => find (mapped_on l) ms | None => None end = find (mapped_on l) ms.
Proof.
  induction ms as [|m ms IH]; [reflexivity|]. cbn [first_mapped find]. unfold mapped_on at 1 3.
  destruct (g_line m =? l); cbn [andb]; [|exact IH].
  destruct (m_orig m); [reflexivity|exact IH].
Qed.

Definition norm_fl (a : attr) : attr :=
  match a with Some x => Some (mkLoc (l_file x) (l_line x) 0 None) | None => None end.

Lemma sfm_incr (G : option orig -> attr) : forall ms l, lines_incr ms ->
  seg_first_mapped (map (fun mp => (g_line mp, g_col mp, G (m_orig mp))) ms) l =
  match find (on_l l) ms with Some mp => norm_fl (G (m_orig mp)) | None => None end.
Proof.
  induction ms as [|m ms IH]; intros l Hi; [reflexivity|]. destruct Hi as [Hm Hi].
  cbn [map seg_first_mapped find]. unfold on_l at 1. destruct (g_line m =? l) eqn:El.
  - destruct (G (m_orig m)) as [x|]; [reflexivity|]. cbn [norm_fl].
    rewrite (IH l Hi), find_none_forall; [reflexivity|].
    apply N.eqb_eq in El. eapply Forall_impl; [|exact Hm]. cbn beta. intros b Hb. unfold on_l. apply N.eqb_neq. lia.
  - apply (IH l Hi).
Qed.

(* ------------------------------------------------------------------ *)
(* the reference accepts the line attribution                           *)
(* ------------------------------------------------------------------ *)
Section AdmL.
Variables (m im : smap) (name : text) (given : option text) (remove : bool) (res : smap).

Notation RCf := (resolve_combined false m im name given remove).
Notation FILESv := (FILES m im name given).

Hypothesis Hin : forall ot, original_of m name given = Some ot -> ascii ot = true /\ map_consistent ot im = true.
Hypothesis Hfc : files_consistent FILESv.
Hypothesis Hres : res_ok FILESv res.

Definition line_loc (o : orig) : loc := mkLoc (ChkCombined.file_of m o) (o_line o) (o_col o) None.

Lemma fallback_adm_l l o :
  l_file l = name -> l_line l = o_line o ->
  (match rc_fallback name remove l with Some l' => In (l_file l') (sm_sources res) | None => True end) ->
  (if remove then match norm_fl (rc_fallback name remove l) with None => true | Some _ => false end
   else match norm_fl (rc_fallback name remove l) with
        | Some l0 =>
          text_eqb (l_file l0) name && (l_line l0 =? o_line o) && true
          && content_eqv (map_content res name) (original_of m name given)
        | None => false
        end) = true.
Proof.
  intros H1 H2 Hf. unfold rc_fallback in *. destruct remove; [reflexivity|].
  cbn [norm_fl l_file l_line l_col l_name] in *. rewrite H2, text_eqb_refl, N.eqb_refl. cbn [andb].
  apply (map_content_ok FILESv res name _ Hres Hfc Hf (name_orig_in_FILES m im name given)).
Qed.

Theorem adm_line mp o :
  m_orig mp = Some o -> o_src o < len (sm_sources m) ->
  (match RCf (Some (line_loc o)) with Some l' => In (l_file l') (sm_sources res) | None => True end) ->
  admissible false m im name (original_of m name given) remove res (Some mp) (norm_fl (RCf (Some (line_loc o)))) = true.
Proof.
  intros Eo Hs Hfile. unfold admissible. rewrite Eo.
  set (l := line_loc o) in *. change (ChkCombined.file_of m o) with (l_file l).
  cbn [resolve_combined] in *. destruct (text_eqb (l_file l) name) eqn:Efn; cbn [negb].
  2: { cbn [norm_fl]. change (l_line l) with (o_line o). cbn [l_file l_line].
       rewrite text_eqb_refl, N.eqb_refl. cbn [andb].
       apply (map_content_ok FILESv res _ _ Hres Hfc Hfile). apply outer_pair_in_FILES; [exact Hs|].
       intros Q. change (ChkCombined.file_of m o) with (l_file l) in Q. rewrite Q, text_eqb_refl in Efn. discriminate. }
  apply text_eqb_eq in Efn.
  assert (A1 : l_line l = o_line o) by reflexivity. assert (A2 : l_col l = o_col o) by reflexivity.
  pose proof (fallback_adm_l l o Efn A1) as FB.
  unfold rc_inner in *. revert Hfile FB. case_eq (original_of m name given); [intros ot Eorig|intros Eorig]; intros Hfile FB.
  2: { cbn [negb]. apply (FB Hfile). }
  destruct (Hin ot Eorig) as [Hasc Hcons]. destruct (map_consistent_ok ot im Hcons) as [Hso _].
  match goal with |- (if negb ?g then _ else _) = true => destruct g eqn:EG end; cbn [negb]; [|reflexivity].
  assert (Hreal : real (split_lines ot) (o_line o, o_col o)).
  { unfold real, line_at. cbn [fst snd].
    destruct (if o_line o =? 0 then None else nth_opt (split_lines ot) (o_line o - 1)) as [ln|]; [|discriminate].
    exists ln. split; [reflexivity|apply N.ltb_lt; exact EG]. }
  destruct (inner_line_lookup ot im (o_line o) (o_col o) Hasc Hso Hreal) as (x & mpi & E1 & E3).
  rewrite A1, A2, E1 in *.
  destruct (first_mapped (decode_mappings (sm_mappings im)) (o_line o)) as [[si ol]|] eqn:Efm.
  2: { destruct (m_orig mpi); [discriminate|]. apply (FB Hfile). }
  destruct (m_orig mpi) as [io|] eqn:Eio; [|discriminate]. cbn [pair_of] in E3. inversion E3 as [[Q1 Q2]].
  cbn [m_orig norm_fl rc_row l_file l_line o_src o_line].
  assert (Hfo : ChkCombined.file_of im {| o_src := o_src io; o_line := o_line io; o_col := 0; o_name := None |}
                = ChkCombined.file_of im io) by reflexivity.
  rewrite Hfo, text_eqb_refl, N.eqb_refl. cbn [andb].
  assert (Hio : o_src io < len (sm_sources im)).
  { assert (Hex : exists sg, In sg (decode_mappings (sm_mappings im)) /\ exists o', m_orig sg = Some o' /\ o_src o' = o_src io).
    { clear -Efm Q1. revert Efm. induction (decode_mappings (sm_mappings im)) as [|s0 r IH]; [discriminate|].
      cbn [first_mapped]. destruct (g_line s0 =? o_line o).
      - destruct (m_orig s0) as [o'|] eqn:E0.
        + intros H. inversion H. exists s0. split; [left; reflexivity|]. exists o'. split; [exact E0|]. congruence.
        + intros H. destruct (IH H) as [sg [A B]]. exists sg. split; [right; exact A|exact B].
      - intros H. destruct (IH H) as [sg [A B]]. exists sg. split; [right; exact A|exact B]. }
    destruct Hex as [sg [Hsg [o' [Eo' Es]]]].
    pose proof (map_consistent_segs ot im Hcons) as Hseg. rewrite Forall_forall in Hseg.
    specialize (Hseg sg Hsg). unfold seg_ok in Hseg. rewrite Eo' in Hseg. cbn [orig_ok] in Hseg. lia. }
  cbn [rc_row l_file] in Hfile.
  apply (map_content_ok FILESv res _ _ Hres Hfc Hfile (inner_pair_in_FILES m im name given io Hio)).
Qed.

End AdmL.

(* ------------------------------------------------------------------ *)
(* clause 2 and the second half of clause 3                             *)
(* ------------------------------------------------------------------ *)
Section Lines.
Variables (v : text) (m im : smap) (name : text) (given : option text) (remove : bool).

Let evs0 := fst (combined_stream v m name given im remove (mkOpts false true)).
Let m0 := map_of_events false evs0.
Let r0 := match m0 with Some r => r | None => empty_map end.

Hypothesis Hwf : c09_wf v m name given im.
Hypothesis Hfc : files_consistent (FILES m im name given).
Hypothesis Hsmall : forallb mapping_small (chunk_mappings evs0) = true.

Lemma lines_final_chunks_eq chunks : v <> [] ->
  fst (sm_stream v m (mkOpts false true)) =
    announce_sources m (sm_sources m) 0 ++ announce_names (N_out false m) 0 ++ chunks ->
  chunks = sm_lines_final_loop (decode_mappings (sm_mappings m)) 1
             (if snd (advance 1 0 v) =? 0 then fst (advance 1 0 v) - 1 else fst (advance 1 0 v)).
Proof.
  intros Hv E. unfold sm_stream in E. cbn [columns final_source] in E. unfold sm_stream_lines_final in E.
  rewrite gen_info_advance in E. destruct (advance 1 0 v) as [rl rc] eqn:Eadv.
  destruct ((rl =? 1) && (rc =? 0)) eqn:E0.
  - exfalso. apply andb_true_iff in E0. destruct E0 as [E1 E2]. apply N.eqb_eq in E1. apply N.eqb_eq in E2. subst.
    apply Hv. apply (advance_start_nil v Eadv).
  - cbn [fst snd] in E |- *. unfold N_out in E. cbn [announce_names app] in E. apply app_inv_head in E. symmetry. exact E.
Qed.

Theorem lines_clauses :
  check_bytes false m im name (original_of m name given) remove r0 (decode_mappings (sm_mappings m)) v
              (attr_of_map m0 v false) 1 0 = true /\
  nodup_texts_c (sm_sources r0) = true.
Proof.
  pose proof Hwf as (Hc & Hone & Hin & Hsz).
  destruct (combined_run v m name given im remove (mkOpts false true) Hwf)
    as [[E1 E2]|(chunks & S' & N' & E & Hoc & R & Hnd & Hf & Rs)].
  { fold evs0 in E1.
    assert (Hm0 : m0 = None) by (unfold m0; rewrite E1; reflexivity).
    unfold r0. rewrite Hm0. split; [|reflexivity].
    assert (Hv : v = []).
    { unfold sm_stream in E2. cbn [columns final_source] in E2. unfold sm_stream_lines_final in E2.
      rewrite gen_info_advance in E2. destruct (advance 1 0 v) as [rl rc] eqn:Eadv.
      destruct ((rl =? 1) && (rc =? 0)) eqn:E0.
      - apply andb_true_iff in E0. destruct E0 as [A B]. apply N.eqb_eq in A. apply N.eqb_eq in B. subst.
        apply (advance_start_nil v Eadv).
      - exfalso. cbn [fst] in E2. destruct (sm_sources m) as [|s0 ss]; [cbn in Hone; lia|].
        cbn [announce_sources app] in E2. discriminate. }
    subst v. reflexivity. }
  fold evs0 in R, Hf, Rs. cbn [columns] in E, Rs.
  assert (Hres : res_ok (FILES m im name given) r0 /\ (m0 <> None -> sm_sources r0 = S')).
  { unfold r0. destruct m0 as [r|] eqn:Em0.
    - destruct (res_ok_run _ evs0 S' N' false r R Hnd Hf Em0) as [A B]. split; [exact A|intros _; exact B].
    - split; [apply res_ok_empty|intros Q; contradiction]. }
  destruct Hres as [Hres Hsrc].
  split.
  2: { unfold r0 in *. destruct m0 as [r|]; [|reflexivity]. rewrite Hsrc by discriminate.
       apply nodup_texts_c_iff. exact Hnd. }
  assert (Hv : v = [] \/ v <> []) by (destruct v; [left; reflexivity|right; discriminate]).
  destruct Hv as [Hv|Hv].
  { rewrite Hv. unfold attr_of_map. destruct m0; reflexivity. }
  pose proof (lines_final_chunks_eq chunks Hv E) as Hch.
  destruct (advance 1 0 v) as [rl rc] eqn:Eadv. cbn [fst snd] in Hch.
  set (fl := if rc =? 0 then rl - 1 else rl) in *.
  destruct (map_consistent_ok v m Hc) as [Hso _].
  set (osegs := decode_mappings (sm_mappings m)) in *.
  assert (Hsorted : sorted_by pos_le (chunk_mappings evs0) = true).
  { apply ssorted_sorted. apply ssorted_psorted. rewrite (chunk_positions evs0 [] []), Rs, map_map.
    assert (Q : map (fun x => fst (snd (rc_chunk false m im name given remove x))) (chunks_of chunks)
                = map mpos (chunk_mappings chunks)).
    { rewrite chunk_mappings_chunks_of, map_map. apply map_ext. intros [t mp]. reflexivity. }
    rewrite Q. apply ssorted_psorted. rewrite Hch. apply lines_final_loop_ssorted. }
  assert (Hdom : enc_domain (chunk_mappings evs0) = true) by (unfold enc_domain; rewrite Hsorted, Hsmall; reflexivity).
  pose proof (combined_dense v m name given im remove (mkOpts false true) Hwf) as Hdense. fold evs0 in Hdense.
  unfold m0 at 1. rewrite (attr_codec_lines evs0 v (dense_ann_ok evs0 [] [] Hdense) Hdom).
  unfold attr_of_final_events. rewrite attr_by_pos_fun, check_bytes_fun.
  apply check_fun_by_fun. intros l c Hge Hlt. rewrite Eadv in Hlt.
  assert (Hl1 : 1 <= l) by (unfold ple in Hge; cbn [fst snd] in Hge; lia).
  assert (Hlf : l <= fl).
  { unfold fl. unfold plt in Hlt. cbn [fst snd] in Hlt. destruct (rc =? 0) eqn:Erc; [apply N.eqb_eq in Erc|]; lia. }
  set (G := fun mo => resolve_combined false m im name given remove
                        (optF (fileT (S_out m)) (fileT (N_out false m)) mo)).
  assert (Hsegs : map snd (rsegs_of_events evs0 [] []) =
                  map (fun mp => (g_line mp, g_col mp, G (m_orig mp))) (chunk_mappings chunks)).
  { rewrite Rs, chunk_mappings_chunks_of, !map_map. apply map_ext. intros [t mp]. reflexivity. }
  unfold seg_fun. rewrite Hsegs.
  assert (Hincr : lines_incr (chunk_mappings chunks)) by (rewrite Hch; apply lines_final_incr).
  rewrite (sfm_incr G _ l Hincr). rewrite Hch at 1.
  rewrite (lines_final_find fl l osegs 1 (sorted_ssorted _ Hso) Hl1 Hlf).
  change (fun mp : mapping => (g_line mp =? l) && match m_orig mp with Some _ => true | None => false end)
    with (mapped_on l).
  rewrite first_mapped_find.
  destruct (find (mapped_on l) osegs) as [mp|] eqn:Eout; [|reflexivity].
  pose proof (find_some _ _ Eout) as [Hmp Hq]. unfold mapped_on in Hq. apply andb_true_iff in Hq. destruct Hq as [Hq1 Hq2].
  destruct (m_orig mp) as [o|] eqn:Eo; [|discriminate]. cbn [m_orig].
  assert (HG : G (Some (strip_name o)) = resolve_combined false m im name given remove (Some (line_loc m o))).
  { unfold G, line_loc, optF, resF, strip_name. cbn [o_src o_line o_col o_name].
    rewrite S_out_eq, fileT_get_source. reflexivity. }
  rewrite HG.
  pose proof (map_consistent_segs v m Hc) as Hseg. rewrite Forall_forall in Hseg. specialize (Hseg mp Hmp).
  unfold seg_ok in Hseg. rewrite Eo in Hseg. cbn [orig_ok] in Hseg. destruct Hseg as [Hs1 _].
  apply (adm_line m im name given remove r0 Hin Hfc Hres mp o Eo Hs1).
  (* the file of the attribution is listed in the result map *)
  assert (HinF : In (mkMapping l 0 (Some (strip_name o))) (chunk_mappings chunks)).
  { pose proof (lines_final_find fl l osegs 1 (sorted_ssorted _ Hso) Hl1 Hlf) as Q. rewrite Eout, Eo, <- Hch in Q.
    apply (find_some _ _ Q). }
  destruct (in_chunk_mappings _ _ HinF) as [t Ht].
  assert (Hin_r : In (rc_chunk false m im name given remove (t, mkMapping l 0 (Some (strip_name o))))
                     (rsegs_of_events evs0 [] [])).
  { rewrite Rs. apply in_map. exact Ht. }
  pose proof (run_files _ _ _ _ _ R) as Hrf. rewrite Forall_forall in Hrf. specialize (Hrf _ Hin_r).
  unfold rc_chunk in Hrf. cbn [fst snd m_orig] in Hrf. fold (G (Some (strip_name o))) in Hrf. rewrite HG in Hrf.
  destruct (resolve_combined false m im name given remove (Some (line_loc m o))) as [l'|] eqn:Erc; [|exact I].
  assert (Hm0 : m0 <> None).
  { intros Q. pose proof (map_of_events_none false evs0 Hdom) as Hn. fold m0 in Hn. rewrite Q in Hn. cbn [is_none] in Hn.
    symmetry in Hn. apply negb_true_iff in Hn.
    pose proof (unmapped_rsegs evs0 [] [] Hn) as Hu. rewrite Forall_forall in Hu. specialize (Hu _ Hin_r).
    unfold rc_chunk in Hu. cbn [fst snd m_orig] in Hu. fold (G (Some (strip_name o))) in Hu. rewrite HG in Hu. discriminate. }
  rewrite (Hsrc Hm0). exact Hrf.
Qed.

End Lines.

Print Assumptions inner_line_lookup.
Print Assumptions adm_line.
Print Assumptions lines_clauses.
