(* C20, N4: SourceMapSources WITH an inner map.  The hash of a SourceMapSource does not feed
   its `name` to the hasher (Sem/HashEq.v, as source_map_source.rs: value, source_map,
   original_source, inner_source_map, remove_original_source).  Without an inner map the name is
   never used (HashObsLeaf.N1c).  With an inner map the name selects WHICH source of the outer
   map is resolved through the inner map (Stream/Combined.v, `outer_event`: `text_eqb source
   inner_name`), so it is observable in map() and in the chunk stream:

     FINDING (hash collision between observably different sources).
       a = SourceMapSource { value "a", name "i", source_map {mappings "AAAA", sources ["i"]},
                             original_source Some "b",
                             inner_source_map Some {mappings "AAAA", sources ["o"]}, remove false }
       b = the same with name ""
     feed the hasher identical streams, have the same source() and buffer(), but
       a.map() has sources ["o"]   (the segment is resolved through the inner map)
       b.map() has sources ["i"]   (no source of the outer map is the inner source).
     With remove_original_source = true and no source content anywhere the difference is
     map() = None against map() = Some.  `==` DOES distinguish the two (PartialEq compares the
     names), so Hash/Eq consistency (a == b -> equal hashes) is not affected; what fails is the
     separation half of C20 ("observably different => different hashes").

   FULL STATEMENT (false of the model), N2/N3 without `noinner`:
     forall a b, delimited a = true -> delimited b = true ->
       all_leaves_valid a = true -> all_leaves_valid b = true -> ids_distinct a -> ids_distinct b ->
       (exists c, fst (map_of [] a c) <> fst (map_of [] b c)) \/ source a <> source b \/
       buffer a <> buffer b -> hash_events a <> hash_events b.
   Refuted by `N4_full_statement_refuted`.  The strongest true variants:
     - `N4_hash_and_names_partial`: the hasher stream TOGETHER WITH the names of the combined
       leaves determines every observation (equivalently `normI`, HashObsTree.v);
     - `N4_observable_difference_unequal`: `==` separates observably different sources on ALL
       trees (no hypothesis but distinct cache ids). *)
From RS Require Import Base.Prelude Base.Text Rope.RopeModel Codec.Vlq
  Stream.Types Stream.Leaves Stream.Concat Stream.Replace Stream.Combined Stream.Tree
  Sem.HashEq Checkers.ChkTree Checkers.ChkHist
  Proofs.ReplaceSort Proofs.HashEqBasic Proofs.HashInjective Proofs.HashViews
  Proofs.StreamTree Proofs.CacheStore Proofs.EqObsTree Proofs.ReassAll
  Proofs.HashObsLeaf Proofs.HashObsTree.
Require Import Lia List.

Local Open Scope N_scope.

(* ------------------------------------------------------------------ *)
(* the witnesses                                                       *)
(* ------------------------------------------------------------------ *)
Definition n4_AAAA : text := [65; 65; 65; 65].                      (* "AAAA" *)
Definition n4_outer : smap := mkSmap None n4_AAAA [[105]] [] [] None None.   (* sources ["i"] *)
Definition n4_inner : smap := mkSmap None n4_AAAA [[111]] [] [] None None.   (* sources ["o"] *)

(* name, original_source, remove_original_source *)
Definition n4_src (name : text) (orig : option text) (rm : bool) : src :=
  SMapped [97] name n4_outer orig (Some n4_inner) rm.

Definition n4_a : src := n4_src [105] (Some [98]) false.   (* name "i" *)
Definition n4_b : src := n4_src [] (Some [98]) false.      (* name ""  *)

Definition n4_map (sources : list text) : option smap :=
  Some (mkSmap None n4_AAAA sources [] [] None None).

(* the outcome, computed *)
Example N4_maps_computed :
  map (fun c => (fst (map_of [] n4_a c), fst (map_of [] n4_b c))) [true; false] =
  [(n4_map [[111]], n4_map [[105]]); (n4_map [[111]], n4_map [[105]])].
Proof. vm_compute. reflexivity. Qed.

Example N4_no_content_map_none_vs_some :
  map (fun c => (fst (map_of [] (n4_src [105] None true) c), fst (map_of [] (n4_src [] None true) c)))
      [true; false] =
  [(None, n4_map [[105]]); (None, n4_map [[105]])].
Proof. vm_compute. reflexivity. Qed.

(* the pair lies in every class of N3 except `noinner`; everything the hash sees, and source()
   and buffer(), agree; map() (both column settings) and the chunk stream differ; `==` is false *)
Theorem N4_name_observable :
  delimited n4_a = true /\ delimited n4_b = true /\
  all_leaves_valid n4_a = true /\ all_leaves_valid n4_b = true /\
  tree_wf n4_a = true /\ tree_wf n4_b = true /\
  ids_distinct n4_a /\ ids_distinct n4_b /\
  noinner n4_a = false /\
  hash_events n4_a = hash_events n4_b /\ norm n4_a = norm n4_b /\
  source n4_a = source n4_b /\ buffer n4_a = buffer n4_b /\
  (forall c, fst (map_of [] n4_a c) <> fst (map_of [] n4_b c)) /\
  (forall o, fst (stream [] n4_a o) <> fst (stream [] n4_b o)) /\
  src_eqb n4_a n4_b = false.
Proof.
  repeat split; try reflexivity; try (constructor; fail).
  - intros [|]; vm_compute; discriminate.
  - intros [[|] [|]]; vm_compute; discriminate.
Qed.

(* the same with remove_original_source = true and no content: no map at all vs a map *)
Theorem N4_name_observable_none :
  let a := n4_src [105] None true in
  let b := n4_src [] None true in
  hash_events a = hash_events b /\ source a = source b /\ buffer a = buffer b /\
  (forall c, fst (map_of [] a c) = None /\ fst (map_of [] b c) <> None) /\
  src_eqb a b = false.
Proof.
  cbn zeta. repeat split; try reflexivity.
  - destruct c; vm_compute; reflexivity.
  - destruct c; vm_compute; discriminate.
Qed.

(* the full statement of N3, without `noinner`, is refuted *)
Theorem N4_full_statement_refuted :
  ~ (forall a b, delimited a = true -> delimited b = true ->
       all_leaves_valid a = true -> all_leaves_valid b = true -> ids_distinct a -> ids_distinct b ->
       (exists c, fst (map_of [] a c) <> fst (map_of [] b c)) \/ source a <> source b \/
       buffer a <> buffer b -> hash_events a <> hash_events b).
Proof.
  intros H.
  destruct N4_name_observable as (Da & Db & Va & Vb & _ & _ & Ia & Ib & _ & Hh & _ & _ & _ & Hm & _).
  apply (H n4_a n4_b Da Db Va Vb Ia Ib); [|exact Hh].
  left. exists true. exact (Hm true).
Qed.

(* ... and so is "equal normal forms have equal maps" *)
Theorem N4_norm_maps_refuted :
  ~ (forall a b, all_leaves_valid a = true -> all_leaves_valid b = true ->
       ids_distinct a -> ids_distinct b -> norm a = norm b ->
       forall c, fst (map_of [] a c) = fst (map_of [] b c)).
Proof.
  intros H.
  destruct N4_name_observable as (_ & _ & Va & Vb & _ & _ & Ia & Ib & _ & _ & Hn & _ & _ & Hm & _).
  exact (Hm true (H n4_a n4_b Va Vb Ia Ib Hn true)).
Qed.

(* ------------------------------------------------------------------ *)
(* the strongest true variants                                          *)
(* ------------------------------------------------------------------ *)
Lemma inner_names_normI (s : src) : inner_names (normI s) = inner_names s.
Proof.
  induction s as [b v|v|v|v n|v n m o i r|cs IH|inner rs IH|id inner IH]
    using src_nested_ind; try reflexivity.
  - destruct i; reflexivity.
  - cbn [normI inner_names]. induction IH as [|x l Hx HF IHl]; [reflexivity|].
    cbn [map flat_map]. rewrite Hx, IHl. reflexivity.
  - exact IH.
  - exact IH.
Qed.

(* normI = norm + the names of the combined leaves *)
Theorem normI_iff_norm_names (a b : src) :
  normI a = normI b <-> norm a = norm b /\ inner_names a = inner_names b.
Proof.
  split.
  - intros H. split; [exact (normI_norm a b H)|].
    rewrite <- (inner_names_normI a), <- (inner_names_normI b), H. reflexivity.
  - intros [H1 H2]. exact (norm_names_normI a b H1 H2).
Qed.

(* on the delimited class: hasher stream + names of the combined leaves = normI *)
Theorem N4_hash_names_iff_normI (a b : src) :
  delimited a = true -> delimited b = true ->
  (hash_events a = hash_events b /\ inner_names a = inner_names b <-> normI a = normI b).
Proof.
  intros Da Db. rewrite normI_iff_norm_names.
  pose proof (hash_injective_iff a b Da Db) as H. split.
  - intros [H1 H2]. split; [apply H; exact H1|exact H2].
  - intros [H1 H2]. split; [apply H; exact H1|exact H2].
Qed.

Section Partial.
Variables a b : src.
Hypothesis Va : all_leaves_valid a = true.
Hypothesis Vb : all_leaves_valid b = true.
Hypothesis Ia : ids_distinct a.
Hypothesis Ib : ids_distinct b.

(* N2 with combined leaves: equal normal forms and equal names of the combined leaves *)
Theorem N4_norm_and_names_partial :
  norm a = norm b -> inner_names a = inner_names b ->
  (forall o, fst (stream [] a o) = fst (stream [] b o)) /\
  (forall c, fst (map_of [] a c) = fst (map_of [] b c)) /\
  source a = source b /\ buffer a = buffer b.
Proof.
  intros Hn Hi. pose proof (norm_names_normI a b Hn Hi) as HI.
  split; [|split].
  - intros o. exact (proj1 (N2I_cold_answers a b Va Vb Ia Ib HI o true)).
  - intros c. exact (proj2 (N2I_cold_answers a b Va Vb Ia Ib HI (mkOpts c false) c)).
  - exact (norm_views_valid a b Va Vb Hn).
Qed.

Hypothesis Da : delimited a = true.
Hypothesis Db : delimited b = true.

(* N3 with combined leaves: the hasher stream and the names of the combined leaves *)
Theorem N4_hash_and_names_partial :
  inner_names a = inner_names b ->
  (exists c, fst (map_of [] a c) <> fst (map_of [] b c)) \/
  (exists o, fst (stream [] a o) <> fst (stream [] b o)) \/
  source a <> source b \/ buffer a <> buffer b ->
  hash_events a <> hash_events b.
Proof.
  intros Hi Hd Hh.
  destruct (N4_norm_and_names_partial (hash_injective a b Da Db Hh) Hi) as [Hst [Hm [Hs Hb]]].
  destruct Hd as [[c Hc]|[[o Ho]|[Hd|Hd]]].
  - exact (Hc (Hm c)).
  - exact (Ho (Hst o)).
  - exact (Hd Hs).
  - exact (Hd Hb).
Qed.

(* read the other way: if the hashes collide although something observable differs, the two
   trees differ in the name of a combined leaf *)
Corollary N4_collision_is_a_name :
  hash_events a = hash_events b ->
  (exists c, fst (map_of [] a c) <> fst (map_of [] b c)) \/
  (exists o, fst (stream [] a o) <> fst (stream [] b o)) ->
  inner_names a <> inner_names b.
Proof.
  intros Hh Hd Hi. apply (N4_hash_and_names_partial Hi); [|exact Hh].
  destruct Hd as [H|H]; [left; exact H|right; left; exact H].
Qed.
End Partial.

(* `==` separates observably different sources on ALL trees: no class, no validity *)
Theorem N4_observable_difference_unequal (a b : src) :
  ids_distinct a -> ids_distinct b ->
  (exists c, fst (map_of [] a c) <> fst (map_of [] b c)) \/
  (exists o, fst (stream [] a o) <> fst (stream [] b o)) \/
  source a <> source b \/ buffer a <> buffer b ->
  src_eqb a b = false.
Proof.
  intros Ia Ib Hd. destruct (src_eqb a b) eqn:E; [|reflexivity]. exfalso.
  destruct Hd as [[c Hc]|[[o Ho]|Hd]].
  - exact (Hc (proj2 (proj2 (E3_eq_cold_answers a b E Ia Ib (mkOpts c false) c)))).
  - destruct (E3_eq_cold_answers a b E Ia Ib o true) as [A1 [A2 _]].
    destruct (stream [] a o) as [[e1 g1] s1]. destruct (stream [] b o) as [[e2 g2] s2].
    cbn [fst snd] in *. subst. apply Ho. reflexivity.
  - destruct (eq_implies_views a b E) as [Hs Hb]. destruct Hd as [Hd|Hd]; [exact (Hd Hs)|exact (Hd Hb)].
Qed.

Print Assumptions N4_maps_computed.
Print Assumptions N4_no_content_map_none_vs_some.
Print Assumptions N4_name_observable.
Print Assumptions N4_name_observable_none.
Print Assumptions N4_full_statement_refuted.
Print Assumptions N4_norm_maps_refuted.
Print Assumptions normI_iff_norm_names.
Print Assumptions N4_hash_names_iff_normI.
Print Assumptions N4_norm_and_names_partial.
Print Assumptions N4_hash_and_names_partial.
Print Assumptions N4_collision_is_a_name.
Print Assumptions N4_observable_difference_unequal.
