(* C06, part 4 (G4): ALL clauses of chk_C06 on the model's own observations (Api/ApiCheck.v:
   api_comp), for a ConcatSource / ReplaceSource whose children are trees built from raw
   leaves, OriginalSource, SourceMapSource without inner map, ConcatSource and ReplaceSource
   (class rshape / treeA / rsmall of Proofs/RStreamTree.v):
     ConcatSource:  clauses 9, 1, 2, 3   (`C06_concat_checker`)
     ReplaceSource: clauses 9, 4, 5, 6   (`C06_replace_checker`, recorded contents below 2^32
                                          bytes: ReplAttrTree.csmall, needed by clause 4 only)
   The verdict is 0 exactly when the checker's domain condition `bindings_consistent` holds of
   the children's announcements, and 100 (outside the domain) otherwise.
   Trees of the class contain no CachedSource: a warming history changes nothing. *)
From RS Require Import Base.Prelude Base.Text Rope.RopeModel Codec.Vlq Codec.CodecSpec
  Stream.Types Stream.Leaves Stream.Concat Stream.Replace Stream.Combined Stream.Tree
  Api.ApiTree Sem.Attr Checkers.ChkTree Checkers.ChkComp Api.ApiCheck
  Proofs.StreamText Proofs.StreamLeaves Proofs.StreamConcat Proofs.StreamTree
  Proofs.WfStream Proofs.WfFinal Proofs.ReplaceSort Proofs.ReplaceText
  Proofs.RStreamText Proofs.RStreamPos Proofs.RStreamTree
  Proofs.AttrCodec Proofs.AttrSms Proofs.LawConcatAttr Proofs.LawWrappers
  Proofs.FinalDense Proofs.FinalTree
  Proofs.ReplAttrRef Proofs.ReplAttrStream Proofs.ReplAttrOrigin Proofs.ReplAttrCols Proofs.ReplAttrTree
  Proofs.LinesBase Proofs.LinesTree Proofs.WfAllChk
  Proofs.CompLinesBridge Proofs.CompLinesConcat Proofs.CompLinesReplace.
Require Import Lia List.

Local Open Scope N_scope.

Notation rshape := RStreamTree.rshape.

(* ------------------------------------------------------------------ *)
(* the streams of a tree of the class                                   *)
(* ------------------------------------------------------------------ *)
Lemma tree_stream_facts (st : store) (s : src) (cols : bool) :
  rshape s = true -> treeA s = true -> rsmall s = true ->
  let r := stream st s (mkOpts cols false) in
  reassembles (evs_of r) (source s) = true /\ chunks_nl_last (evs_of r) = true /\ snd r = st.
Proof.
  intros H1 H2 H3. pose proof (rgood_all s st cols H1 H2 H3) as [[A1 _] [A3 [_ A5]]]. cbn zeta in *.
  unfold evs_of. split; [apply reassembles_iff; exact A1|]. split; [apply chunks_nl_last_iff; exact A3|exact A5].
Qed.

Lemma kids_pure (cols : bool) (cs : list src) (st : store) :
  rshape (SConcat cs) = true -> treeA (SConcat cs) = true -> rsmall (SConcat cs) = true ->
  kid_streams st cs (mkOpts cols false) = (map (fun c => fst (stream st c (mkOpts cols false))) cs, st).
Proof.
  intros Hsh Ha Hsm. apply kid_streams_pure. intros c Hin st0.
  apply (tree_stream_facts st0 c cols (rshape_concat cs Hsh c Hin) (treeA_concat cs Ha c Hin) (rsmall_concat cs Hsm c Hin)).
Qed.

Lemma kids_dense (o : opts) (cs : list src) (st : store) :
  rshape (SConcat cs) = true -> treeA (SConcat cs) = true ->
  Forall (fun k : list event * (N * N) => dense (fst k) 0 0 = true) (map (fun c => fst (stream st c o)) cs).
Proof.
  intros Hsh Ha. rewrite Forall_map. apply Forall_forall. intros c Hin.
  apply dense_tree_any; [apply (rshape_concat cs Hsh c Hin)|apply (treeA_concat cs Ha c Hin)].
Qed.

Lemma kids_evs (o : opts) (cs : list src) (st : store) :
  map (fun c => evs_of (stream st c o)) cs = map fst (map (fun c => fst (stream st c o)) cs).
Proof. rewrite map_map. reflexivity. Qed.

Lemma concat_expected_one k : concat_expected [k] = attr_of_stream k true.
Proof. unfold concat_expected. cbn [flat_map]. apply app_nil_r. Qed.

(* ------------------------------------------------------------------ *)
(* ConcatSource: clauses 1, 2, 3                                         *)
(* ------------------------------------------------------------------ *)
Theorem concat_tree_clauses (st : store) (cs : list src) :
  rshape (SConcat cs) = true -> treeA (SConcat cs) = true -> rsmall (SConcat cs) = true ->
  let c10 := evs_of (stream st (SConcat cs) (mkOpts true false)) in
  let c00 := evs_of (stream st (SConcat cs) (mkOpts false false)) in
  let k10 := map (fun c => evs_of (stream st c (mkOpts true false))) cs in
  let k00 := map (fun c => evs_of (stream st c (mkOpts false false))) cs in
  attr_of_stream c10 true = concat_expected k10 /\
  (bindings_consistent (flat_map contents_of_events k10) = true -> contents_preserved c10 k10 = true) /\
  attr_of_stream c00 false = line_first_bytes (source (SConcat cs)) (concat_expected k00) None 0 [].
Proof.
  intros Hsh Ha Hsm c10 c00 k10 k00.
  pose proof (tree_stream_facts st (SConcat cs) false Hsh Ha Hsm) as [R0 [N0 _]]. cbn zeta in R0, N0. fold c00 in R0, N0.
  destruct (Nat.eq_dec (length cs) 1) as [E|E].
  - destruct cs as [|c [|c2 r]]; try discriminate.
    assert (E1 : c10 = evs_of (stream st c (mkOpts true false))) by reflexivity.
    assert (E0 : c00 = evs_of (stream st c (mkOpts false false))) by reflexivity.
    unfold k10, k00. cbn [map]. rewrite <- E1, <- E0, !concat_expected_one.
    split; [reflexivity|]. split; [intros _; apply contents_preserved_same; reflexivity|].
    apply (lines_bridge c00 _ R0 N0).
  - pose proof (kids_dense (mkOpts true false) cs st Hsh Ha) as D1.
    pose proof (kids_dense (mkOpts false false) cs st Hsh Ha) as D0.
    unfold c10, c00, k10, k00, evs_of in *.
    rewrite (stream_concat_fold st cs _ E), (kids_pure true cs st Hsh Ha Hsm) in *.
    rewrite (stream_concat_fold st cs (mkOpts false false) E), (kids_pure false cs st Hsh Ha Hsm) in *.
    cbn [fst snd final_source] in *.
    fold (evs_of) in *.
    change (map (fun c => fst (fst (stream st c (mkOpts true false)))) cs)
      with (map (fun c => evs_of (stream st c (mkOpts true false))) cs).
    change (map (fun c => fst (fst (stream st c (mkOpts false false)))) cs)
      with (map (fun c => evs_of (stream st c (mkOpts false false))) cs).
    rewrite !kids_evs.
    split; [apply list_eqb_attr_eq; apply concat_attr_expected; exact D1|].
    split; [intros Hb; apply concat_contents_preserved; assumption|].
    apply (concat_lines_attr _ _ D0 R0 N0).
Qed.

(* ------------------------------------------------------------------ *)
(* ReplaceSource: clauses 4, 5, 6                                        *)
(* ------------------------------------------------------------------ *)
Lemma treeA_replace_inv inner rs : treeA (SReplace inner rs) = true ->
  treeA inner = true /\ forallb (repl_ok (source inner)) rs = true.
Proof.
  intros HA. unfold treeA in *. cbn [tree_wf tree_ascii] in HA. apply andb_true_iff in HA. destruct HA as [Hw Ha].
  apply andb_true_iff in Hw. destruct Hw as [Hw1 Hw2]. apply andb_true_iff in Ha. destruct Ha as [Ha1 _].
  rewrite Hw1, Ha1. split; [reflexivity|exact Hw2].
Qed.

(* clauses 5 and 6 need neither `bindings_consistent` nor a bound on the recorded contents *)
Theorem replace_tree_lines (st : store) (inner : src) (rs : list repl) :
  rshape inner = true -> treeA (SReplace inner rs) = true -> rsmall (SReplace inner rs) = true ->
  let c10 := evs_of (stream st (SReplace inner rs) (mkOpts true false)) in
  let c00 := evs_of (stream st (SReplace inner rs) (mkOpts false false)) in
  let k10 := evs_of (stream st inner (mkOpts true false)) in
  let k00 := evs_of (stream st inner (mkOpts false false)) in
  contents_preserved c10 [k10] = true /\
  attr_of_stream c00 false
  = line_first_bytes (source (SReplace inner rs)) (replace_reference k00 rs) None 0 [].
Proof.
  intros Hsh HA Hsm c10 c00 k10 k00.
  destruct (treeA_replace_inv inner rs HA) as [HAi Hrs].
  assert (Hsmi : rsmall inner = true).
  { cbn [rsmall] in Hsm. apply andb_true_iff in Hsm. apply Hsm. }
  split.
  - unfold c10, k10, evs_of. rewrite stream_replace_eq.
    destruct (stream st inner (mkOpts true false)) as [[ievs gi] st1]. cbn [fst snd].
    apply replace_contents_preserved.
  - pose proof (tree_stream_facts st (SReplace inner rs) false Hsh HA Hsm) as [R0 [N0 _]]. cbn zeta in R0, N0.
    fold c00 in R0, N0.
    pose proof (tree_stream_facts st inner false Hsh HAi Hsmi) as [Ri _]. cbn zeta in Ri. fold k00 in Ri.
    pose proof (ne_tree_lines inner Hsh HAi Hsmi st) as Hne. unfold oLT in Hne. fold k00 in Hne.
    pose proof (dense_tree_any inner st (mkOpts false false) Hsh HAi) as Hd. fold (evs_of (stream st inner (mkOpts false false))) in Hd.
    fold k00 in Hd.
    unfold c00, k00, evs_of in *. rewrite stream_replace_eq in *.
    destruct (stream st inner (mkOpts false false)) as [[ievs gi] st1]. cbn [fst snd] in *.
    apply (replace_lines_attr_gen rs ievs (source inner) _ gi (repl_ok_ordered _ _ Hrs) Ri Hne Hd R0 N0).
Qed.

Theorem replace_tree_clauses (st : store) (inner : src) (rs : list repl) :
  rshape inner = true -> treeA (SReplace inner rs) = true -> rsmall (SReplace inner rs) = true ->
  csmall inner = true ->
  let c10 := evs_of (stream st (SReplace inner rs) (mkOpts true false)) in
  let c00 := evs_of (stream st (SReplace inner rs) (mkOpts false false)) in
  let k10 := evs_of (stream st inner (mkOpts true false)) in
  let k00 := evs_of (stream st inner (mkOpts false false)) in
  (bindings_consistent (contents_of_events k10) = true -> attr_of_stream c10 true = replace_reference k10 rs) /\
  contents_preserved c10 [k10] = true /\
  attr_of_stream c00 false
  = line_first_bytes (source (SReplace inner rs)) (replace_reference k00 rs) None 0 [].
Proof.
  intros Hsh HA Hsm Hc c10 c00 k10 k00.
  destruct (treeA_replace_inv inner rs HA) as [HAi Hrs].
  assert (Hsmi : rsmall inner = true).
  { cbn [rsmall] in Hsm. apply andb_true_iff in Hsm. apply Hsm. }
  split; [|apply (replace_tree_lines st inner rs Hsh HA Hsm)].
  intros Hb. apply (replace_tree_attr st inner rs Hsh HA Hsmi Hb).
  apply csm_contents_small. apply (csmall_tree inner Hsh HAi Hc st).
Qed.

(* ------------------------------------------------------------------ *)
(* the model's own observations                                         *)
(* ------------------------------------------------------------------ *)
Lemma api_comp_concat (cs : list src) (ws : list (N * wop)) : rshape (SConcat cs) = true ->
  api_comp (SConcat cs) ws =
  (evs_of (stream [] (SConcat cs) (mkOpts true false)), evs_of (stream [] (SConcat cs) (mkOpts false false)),
   map (fun c => evs_of (stream [] c (mkOpts true false))) cs,
   map (fun c => evs_of (stream [] c (mkOpts false false))) cs).
Proof.
  intros Hsh. unfold api_comp. rewrite (run_warm_rshape (SConcat cs) Hsh ws []).
  f_equal; [f_equal|]; apply map_ext_in; intros c Hin;
    rewrite (run_warm_rshape c (rshape_concat cs Hsh c Hin) ws []); reflexivity.
Qed.

Lemma api_comp_replace (inner : src) (rs : list repl) (ws : list (N * wop)) : rshape inner = true ->
  api_comp (SReplace inner rs) ws =
  (evs_of (stream [] (SReplace inner rs) (mkOpts true false)), evs_of (stream [] (SReplace inner rs) (mkOpts false false)),
   [evs_of (stream [] inner (mkOpts true false))], [evs_of (stream [] inner (mkOpts false false))]).
Proof.
  intros Hsh. unfold api_comp. rewrite (run_warm_rshape (SReplace inner rs) Hsh ws []).
  cbn [map]. rewrite (run_warm_rshape inner Hsh ws []). reflexivity.
Qed.

Lemma slen_map' {A B} (f : A -> B) (l : list A) : len (map f l) = len l.
Proof. unfold len. rewrite map_length. reflexivity. Qed.

(* G4, ConcatSource: clauses 9, 1, 2, 3 never fire *)
Theorem C06_concat_checker (cs : list src) (ws : list (N * wop)) :
  rshape (SConcat cs) = true -> treeA (SConcat cs) = true -> rsmall (SConcat cs) = true ->
  let '(c10, c00, k10, k00) := api_comp (SConcat cs) ws in
  chk_C06 (SConcat cs) (source (SConcat cs)) c10 c00 k10 k00 =
  if bindings_consistent (flat_map contents_of_events k10) then 0 else 100.
Proof.
  intros Hsh HA Hsm. rewrite (api_comp_concat cs ws Hsh).
  pose proof (concat_tree_clauses [] cs Hsh HA Hsm) as [C1 [C2 C3]]. cbn zeta in C1, C2, C3.
  unfold chk_C06. rewrite HA. cbn [negb].
  destruct (bindings_consistent _) eqn:Hb; cbn [negb]; [|reflexivity].
  rewrite slen_map', N.eqb_refl. cbn [negb].
  rewrite C1, (list_eqb_attr_refl attr_eqb attr_eqb_refl). cbn [negb].
  rewrite (C2 eq_refl). cbn [negb].
  rewrite C3, (list_eqb_attr_refl attr_eqb_fl attr_eqb_fl_refl). reflexivity.
Qed.

(* G4, ReplaceSource: clauses 9, 4, 5, 6 never fire *)
Theorem C06_replace_checker (inner : src) (rs : list repl) (ws : list (N * wop)) :
  rshape inner = true -> treeA (SReplace inner rs) = true -> rsmall (SReplace inner rs) = true ->
  csmall inner = true ->
  let '(c10, c00, k10, k00) := api_comp (SReplace inner rs) ws in
  chk_C06 (SReplace inner rs) (source (SReplace inner rs)) c10 c00 k10 k00 =
  if bindings_consistent (flat_map contents_of_events k10) then 0 else 100.
Proof.
  intros Hsh HA Hsm Hc. rewrite (api_comp_replace inner rs ws Hsh).
  pose proof (replace_tree_clauses [] inner rs Hsh HA Hsm Hc) as [C4 [C5 C6]]. cbn zeta in C4, C5, C6.
  unfold chk_C06. rewrite HA. cbn [negb flat_map]. rewrite app_nil_r.
  destruct (bindings_consistent _) eqn:Hb; cbn [negb]; [|reflexivity].
  rewrite (C4 eq_refl), (list_eqb_attr_refl attr_eqb attr_eqb_refl). cbn [negb].
  rewrite C5. cbn [negb].
  rewrite C6, (list_eqb_attr_refl attr_eqb_fl attr_eqb_fl_refl). reflexivity.
Qed.

(* G4: every composite of the class *)
Definition composite (s : src) : bool :=
  match s with SConcat _ | SReplace _ _ => true | _ => false end.

Theorem C06_tree (s : src) (ws : list (N * wop)) :
  composite s = true -> rshape s = true -> treeA s = true -> rsmall s = true -> csmall s = true ->
  let '(c10, c00, k10, k00) := api_comp s ws in
  bindings_consistent (flat_map contents_of_events k10) = true ->
  chk_C06 s (source s) c10 c00 k10 k00 = 0.
Proof.
  intros Hcomp Hsh HA Hsm Hc. destruct s as [| | | | |cs|inner rs|]; try discriminate.
  - pose proof (C06_concat_checker cs ws Hsh HA Hsm) as K.
    destruct (api_comp (SConcat cs) ws) as [[[c10 c00] k10] k00]. intros Hb. rewrite Hb in K. exact K.
  - pose proof (C06_replace_checker inner rs ws Hsh HA Hsm Hc) as K.
    destruct (api_comp (SReplace inner rs) ws) as [[[c10 c00] k10] k00]. intros Hb. rewrite Hb in K. exact K.
Qed.

(* outside the composites the checker answers 100: the property does not apply *)
Lemma C06_not_composite (s : src) (t : text) (c10 c00 : list event) (k10 k00 : list (list event)) :
  composite s = false -> chk_C06 s t c10 c00 k10 k00 = 100.
Proof.
  intros H. unfold chk_C06. destruct (negb (treeA s)); [reflexivity|].
  destruct (negb (bindings_consistent _)); [reflexivity|].
  destruct s; try discriminate; reflexivity.
Qed.

(* the hypotheses are satisfiable: ReplaceSource over a ConcatSource of a ReplaceSource (with a
   multi-line replacement, a deletion and a named insertion) over a ConcatSource of
   OriginalSource / RawSource / SourceMapSource leaves, and two more children *)
Definition ex_o1 : src := SOriginal [97;98;10;99;100] [102;49].
Definition ex_t1 : src :=
  SConcat [ex_o1; SRaw false [120;120;10;121;121];
           SMapped [97;98;10;99;100] [109]
             (mkSmap None [65;65;65;65;59;65;65;67;65] [[121]] [[97;10;98]] [] None None) None None true;
           SOriginal [113;10] [102;50]; SOriginal [113;32;114] [102;51]].
Definition ex_t2 : src :=
  SReplace ex_t1 [mkRepl 1 4 [90;10;87] None 1; mkRepl 7 9 [] None 1;
                  mkRepl 12 12 [105;110;115] (Some [110]) 1; mkRepl 14 18 [10;10;88] None 1].
Definition ex_t3 : src := SConcat [ex_t2; ex_o1; SReplace ex_o1 [mkRepl 2 3 [] None 1]].
Definition ex_t4 : src :=
  SReplace ex_t3 [mkRepl 0 2 [65] None 1; mkRepl 20 30 [66;10] None 1; mkRepl 31 31 [67] None 1].

Example C06_tree_hyps_hold :
  forallb (fun s => composite s && rshape s && treeA s && rsmall s && csmall s &&
                    (let '(_, _, k10, _) := api_comp s [] in
                     bindings_consistent (flat_map contents_of_events k10)))
          [ex_t1; ex_t2; ex_t3; ex_t4] = true.
Proof. vm_compute. reflexivity. Qed.

Print Assumptions concat_tree_clauses.
Print Assumptions replace_tree_lines.
Print Assumptions replace_tree_clauses.
Print Assumptions C06_concat_checker.
Print Assumptions C06_replace_checker.
Print Assumptions C06_tree.
Print Assumptions C06_not_composite.
Print Assumptions C06_tree_hyps_hold.
