(* ReplaceSource, sorting: the insertion sort of the model is a stable sort by
   (start, end, enforce); it produces exactly the declaratively defined
   reference order; the sorted index of the object model denotes it. *)
From Coq Require Import List NArith Bool Lia Arith Permutation Sorted.
From RS Require Import Base.Prelude Base.Text Rope.RopeModel Stream.Types Stream.Replace Sem.ReplaceObj.
Import ListNotations.

(* ------------------------------------------------------------------ *)
(* The key order *)

Definition rle (a b : repl) : Prop := repl_le a b = true.

Lemma repl_le_spec (a b : repl) :
  repl_le a b = true <->
  (r_start a < r_start b \/
   (r_start a = r_start b /\
    (r_end a < r_end b \/ (r_end a = r_end b /\ r_enforce a <= r_enforce b)))).
Proof.
  unfold repl_le.
  rewrite orb_true_iff, andb_true_iff, orb_true_iff, andb_true_iff.
  rewrite !N.ltb_lt, !N.eqb_eq, N.leb_le. reflexivity.
Qed.

Lemma key_lt_spec (a b : repl) :
  key_lt a b = true <->
  (r_start a < r_start b \/
   (r_start a = r_start b /\
    (r_end a < r_end b \/ (r_end a = r_end b /\ r_enforce a < r_enforce b)))).
Proof.
  unfold key_lt.
  rewrite orb_true_iff, andb_true_iff, orb_true_iff, andb_true_iff.
  rewrite !N.ltb_lt, !N.eqb_eq. reflexivity.
Qed.

Lemma repl_le_false (a b : repl) : repl_le a b = false <-> key_lt b a = true.
Proof.
  rewrite <- not_true_iff_false, repl_le_spec, key_lt_spec. lia.
Qed.

Lemma key_lt_false (a b : repl) : key_lt a b = false <-> repl_le b a = true.
Proof.
  rewrite <- not_true_iff_false, repl_le_spec, key_lt_spec. lia.
Qed.

Lemma key_lt_negb_le (a b : repl) : key_lt a b = negb (repl_le b a).
Proof.
  destruct (repl_le b a) eqn:E; cbn [negb].
  - apply key_lt_false. exact E.
  - apply repl_le_false. exact E.
Qed.

Lemma repl_le_refl (a : repl) : repl_le a a = true.
Proof. apply repl_le_spec. lia. Qed.

Lemma repl_le_trans (a b c : repl) :
  repl_le a b = true -> repl_le b c = true -> repl_le a c = true.
Proof. rewrite !repl_le_spec. lia. Qed.

Lemma repl_le_total (a b : repl) : repl_le a b = true \/ repl_le b a = true.
Proof. rewrite !repl_le_spec. lia. Qed.

Lemma key_lt_irrefl (a : repl) : key_lt a a = false.
Proof. apply key_lt_false. apply repl_le_refl. Qed.

Lemma key_lt_le (a b : repl) : key_lt a b = true -> repl_le a b = true.
Proof. rewrite repl_le_spec, key_lt_spec. lia. Qed.

Lemma key_lt_trans (a b c : repl) :
  key_lt a b = true -> key_lt b c = true -> key_lt a c = true.
Proof. rewrite !key_lt_spec. lia. Qed.

Lemma le_lt_trans (a b c : repl) :
  repl_le a b = true -> key_lt b c = true -> key_lt a c = true.
Proof. rewrite repl_le_spec, !key_lt_spec. lia. Qed.

Lemma lt_le_trans (a b c : repl) :
  key_lt a b = true -> repl_le b c = true -> key_lt a c = true.
Proof. rewrite repl_le_spec, !key_lt_spec. lia. Qed.

(* same key: equal (start, end, enforce) *)
Definition same_key (k r : repl) : bool := repl_le k r && repl_le r k.

Lemma same_key_spec (k r : repl) :
  same_key k r = true <->
  (r_start k = r_start r /\ r_end k = r_end r /\ r_enforce k = r_enforce r).
Proof.
  unfold same_key. rewrite andb_true_iff, !repl_le_spec. lia.
Qed.

(* ------------------------------------------------------------------ *)
(* S1: permutation, sortedness, stability *)

Lemma sort_repls_snoc (rs : list repl) (x : repl) :
  sort_repls (rs ++ [x]) = insert_sorted x (sort_repls rs).
Proof. unfold sort_repls. rewrite fold_left_app. reflexivity. Qed.

Lemma insert_sorted_perm (x : repl) (l : list repl) :
  Permutation (insert_sorted x l) (x :: l).
Proof.
  induction l as [|y l IH]; cbn [insert_sorted]; [apply Permutation_refl|].
  destruct (repl_le y x).
  - eapply Permutation_trans; [apply perm_skip, IH|apply perm_swap].
  - apply Permutation_refl.
Qed.

Theorem sort_repls_perm (rs : list repl) : Permutation (sort_repls rs) rs.
Proof.
  induction rs as [|x rs IH] using rev_ind; [apply Permutation_refl|].
  rewrite sort_repls_snoc.
  eapply Permutation_trans; [apply insert_sorted_perm|].
  eapply Permutation_trans; [apply perm_skip, IH|].
  apply Permutation_cons_append.
Qed.

(* where the insertion lands: after everything <= x, before everything > x *)
Lemma insert_sorted_split (x : repl) (l : list repl) :
  StronglySorted rle l ->
  exists A B, l = A ++ B /\ insert_sorted x l = A ++ x :: B /\
              Forall (fun a => repl_le a x = true) A /\
              Forall (fun b => key_lt x b = true) B.
Proof.
  intros Hs. induction Hs as [|y l Hs IH Hy].
  - exists [], []. repeat split; constructor.
  - cbn [insert_sorted]. destruct (repl_le y x) eqn:E.
    + destruct IH as (A & B & HlA & Hins & HA & HB).
      exists (y :: A), B. rewrite Hins, HlA. repeat split; [|exact HB].
      constructor; assumption.
    + exists [], (y :: l). repeat split; [constructor|].
      apply repl_le_false in E. constructor; [exact E|].
      eapply Forall_impl; [|exact Hy]. intros z Hz.
      eapply lt_le_trans; [exact E|exact Hz].
Qed.

Lemma insert_sorted_sorted (x : repl) (l : list repl) :
  StronglySorted rle l -> StronglySorted rle (insert_sorted x l).
Proof.
  intros Hs. induction Hs as [|y l Hs IH Hy].
  - cbn [insert_sorted]. constructor; constructor.
  - cbn [insert_sorted]. destruct (repl_le y x) eqn:E.
    + constructor; [exact IH|].
      eapply Permutation_Forall; [apply Permutation_sym, insert_sorted_perm|].
      constructor; [exact E|exact Hy].
    + apply repl_le_false in E.
      constructor; [constructor; assumption|].
      constructor; [apply key_lt_le; exact E|].
      eapply Forall_impl; [|exact Hy]. intros z Hz.
      apply key_lt_le. eapply lt_le_trans; [exact E|exact Hz].
Qed.

Theorem sort_repls_sorted (rs : list repl) :
  StronglySorted (fun a b => repl_le a b = true) (sort_repls rs).
Proof.
  change (StronglySorted rle (sort_repls rs)).
  induction rs as [|x rs IH] using rev_ind; [constructor|].
  rewrite sort_repls_snoc. apply insert_sorted_sorted. exact IH.
Qed.

Lemma filter_none {A} (f : A -> bool) (l : list A) :
  Forall (fun a => f a = false) l -> filter f l = [].
Proof.
  induction 1 as [|a l Ha _ IH]; [reflexivity|].
  cbn [filter]. rewrite Ha. exact IH.
Qed.

Lemma insert_sorted_filter_key (k x : repl) (l : list repl) :
  StronglySorted rle l ->
  filter (same_key k) (insert_sorted x l) =
  filter (same_key k) l ++ (if same_key k x then [x] else []).
Proof.
  intros Hs. destruct (insert_sorted_split x l Hs) as (A & B & HlA & Hins & HA & HB).
  rewrite Hins, HlA, !filter_app. cbn [filter].
  destruct (same_key k x) eqn:E.
  - assert (HBn : filter (same_key k) B = []).
    { apply filter_none. eapply Forall_impl; [|exact HB].
      intros b Hb. cbn beta in Hb. apply not_true_iff_false. intros Hk.
      apply same_key_spec in E. apply same_key_spec in Hk.
      apply key_lt_spec in Hb. lia. }
    rewrite HBn, app_nil_r. reflexivity.
  - rewrite app_nil_r. reflexivity.
Qed.

(* stability: for every key, the elements carrying that key appear in the
   sorted list in exactly their insertion order *)
Theorem sort_repls_stable (k : repl) (rs : list repl) :
  filter (same_key k) (sort_repls rs) = filter (same_key k) rs.
Proof.
  induction rs as [|x rs IH] using rev_ind; [reflexivity|].
  rewrite sort_repls_snoc, insert_sorted_filter_key by apply sort_repls_sorted.
  rewrite IH, filter_app. cbn [filter]. destruct (same_key k x); reflexivity.
Qed.

(* ------------------------------------------------------------------ *)
(* S2: the insertion sort produces the reference order *)

Local Open Scope nat_scope.

Lemma filter_length_le {A} (f g : A -> bool) (l : list A) :
  (forall j, In j l -> f j = true -> g j = true) ->
  length (filter f l) <= length (filter g l).
Proof.
  induction l as [|a l IH]; intros H; [apply Nat.le_refl|].
  assert (IH' : length (filter f l) <= length (filter g l)).
  { apply IH. intros j Hj. apply H. right. exact Hj. }
  cbn [filter]. destruct (f a) eqn:Ef.
  - rewrite (H a (or_introl eq_refl) Ef). cbn [length]. lia.
  - destruct (g a); cbn [length]; lia.
Qed.

Lemma filter_length_lt {A} (f g : A -> bool) (l : list A) (i : A) :
  (forall j, In j l -> f j = true -> g j = true) ->
  In i l -> f i = false -> g i = true ->
  length (filter f l) < length (filter g l).
Proof.
  induction l as [|a l IH]; intros H Hi Hf Hg; [destruct Hi|].
  assert (Hle : length (filter f l) <= length (filter g l)).
  { apply filter_length_le. intros j Hj. apply H. right. exact Hj. }
  destruct Hi as [Hi|Hi].
  - subst a. cbn [filter]. rewrite Hf, Hg. cbn [length]. lia.
  - assert (IH' : length (filter f l) < length (filter g l)).
    { apply IH; try assumption. intros j Hj. apply H. right. exact Hj. }
    cbn [filter]. destruct (f a) eqn:Ef.
    + rewrite (H a (or_introl eq_refl) Ef). cbn [length]. lia.
    + destruct (g a); cbn [length]; lia.
Qed.

Lemma flat_map_ext_in {A B} (f g : A -> list B) (l : list A) :
  (forall a, In a l -> f a = g a) -> flat_map f l = flat_map g l.
Proof.
  induction l as [|a l IH]; intros H; [reflexivity|].
  cbn [flat_map]. rewrite (H a (or_introl eq_refl)), IH; [reflexivity|].
  intros b Hb. apply H. right. exact Hb.
Qed.

Lemma flat_map_nil_in {A B} (f : A -> list B) (l : list A) :
  (forall a, In a l -> f a = []) -> flat_map f l = [].
Proof.
  induction l as [|a l IH]; intros H; [reflexivity|].
  cbn [flat_map]. rewrite (H a (or_introl eq_refl)), IH; [reflexivity|].
  intros b Hb. apply H. right. exact Hb.
Qed.

Lemma flat_map_map {A B C} (f : B -> list C) (g : A -> B) (l : list A) :
  flat_map f (map g l) = flat_map (fun a => f (g a)) l.
Proof.
  induction l as [|a l IH]; [reflexivity|].
  cbn [map flat_map]. rewrite IH. reflexivity.
Qed.

(* elements <= x, counted by position *)
Definition lex (rs : list repl) (x : repl) (j : nat) : bool :=
  match nth_error rs j with Some a => repl_le a x | None => false end.
Definition cnt (rs : list repl) (x : repl) : nat :=
  length (filter (lex rs x) (seq 0 (length rs))).

Lemma filter_length_bound {A} (f : A -> bool) (l : list A) :
  length (filter f l) <= length l.
Proof.
  induction l as [|a l IH]; [apply Nat.le_refl|].
  cbn [filter]. destruct (f a); cbn [length]; lia.
Qed.

Lemma cnt_le (rs : list repl) (x : repl) : cnt rs x <= length rs.
Proof.
  unfold cnt.
  rewrite <- (seq_length (length rs) 0) at 2. apply filter_length_bound.
Qed.

Lemma comes_before_snoc_old (rs : list repl) (x : repl) (j i : nat) :
  j < length rs -> i < length rs ->
  comes_before (rs ++ [x]) j i = comes_before rs j i.
Proof.
  intros Hj Hi. unfold comes_before.
  rewrite !nth_error_app1 by assumption. reflexivity.
Qed.

Lemma nth_error_snoc_last {A} (l : list A) (x : A) :
  nth_error (l ++ [x]) (length l) = Some x.
Proof.
  rewrite nth_error_app2 by apply Nat.le_refl.
  rewrite Nat.sub_diag. reflexivity.
Qed.

Lemma rank_snoc_old (rs : list repl) (x a : repl) (i : nat) :
  nth_error rs i = Some a ->
  rank (rs ++ [x]) i = rank rs i + (if key_lt x a then 1 else 0).
Proof.
  intros Ha.
  assert (Hi : i < length rs) by (apply nth_error_Some; rewrite Ha; discriminate).
  unfold rank. rewrite app_length. cbn [length].
  rewrite seq_app, filter_app, app_length. cbn [seq filter plus].
  f_equal.
  - f_equal. apply filter_ext_in. intros j Hj. apply in_seq in Hj.
    apply comes_before_snoc_old; [lia|exact Hi].
  - unfold comes_before. rewrite nth_error_snoc_last.
    rewrite nth_error_app1 by exact Hi. rewrite Ha.
    assert (Hn : Nat.ltb (length rs) i = false) by (apply Nat.ltb_ge; lia).
    rewrite Hn, andb_false_r, orb_false_r.
    destruct (key_lt x a); reflexivity.
Qed.

Lemma rank_snoc_new (rs : list repl) (x : repl) :
  rank (rs ++ [x]) (length rs) = cnt rs x.
Proof.
  unfold rank, cnt. rewrite app_length. cbn [length].
  rewrite seq_app, filter_app, app_length. cbn [seq filter plus].
  assert (Hlast : comes_before (rs ++ [x]) (length rs) (length rs) = false).
  { unfold comes_before. rewrite nth_error_snoc_last.
    rewrite key_lt_irrefl, Nat.ltb_irrefl, andb_false_r. reflexivity. }
  rewrite Hlast. cbn [length]. rewrite Nat.add_0_r.
  f_equal. apply filter_ext_in. intros j Hj. apply in_seq in Hj.
  unfold comes_before, lex. rewrite nth_error_snoc_last.
  rewrite nth_error_app1 by lia.
  destruct (nth_error rs j) as [b|] eqn:Eb.
  - assert (Hlt : Nat.ltb j (length rs) = true) by (apply Nat.ltb_lt; lia).
    rewrite Hlt, andb_true_r, (key_lt_negb_le x b), negb_involutive.
    destruct (repl_le b x) eqn:E; [apply orb_true_r|].
    rewrite orb_false_r. apply key_lt_false.
    apply repl_le_false in E. apply key_lt_le. exact E.
  - exfalso. apply nth_error_None in Eb. lia.
Qed.

(* elements <= x have rank below cnt; elements > x have rank at least cnt *)
Lemma rank_lt_cnt (rs : list repl) (x a : repl) (i : nat) :
  nth_error rs i = Some a -> repl_le a x = true -> rank rs i < cnt rs x.
Proof.
  intros Ha Hle.
  assert (Hi : i < length rs) by (apply nth_error_Some; rewrite Ha; discriminate).
  unfold rank, cnt. apply filter_length_lt with (i := i).
  - intros j _ Hcb. unfold comes_before in Hcb. unfold lex.
    destruct (nth_error rs j) as [b|]; [|discriminate].
    rewrite Ha in Hcb. eapply repl_le_trans; [|exact Hle].
    apply orb_true_iff in Hcb. destruct Hcb as [Hcb|Hcb].
    + apply key_lt_le. exact Hcb.
    + apply andb_true_iff in Hcb. destruct Hcb as [Hcb _].
      apply negb_true_iff in Hcb. apply key_lt_false in Hcb. exact Hcb.
  - apply in_seq. lia.
  - unfold comes_before. rewrite Ha, key_lt_irrefl, Nat.ltb_irrefl. reflexivity.
  - unfold lex. rewrite Ha. exact Hle.
Qed.

Lemma rank_ge_cnt (rs : list repl) (x a : repl) (i : nat) :
  nth_error rs i = Some a -> key_lt x a = true -> cnt rs x <= rank rs i.
Proof.
  intros Ha Hlt. unfold rank, cnt. apply filter_length_le.
  intros j _ Hlex. unfold lex in Hlex. unfold comes_before.
  destruct (nth_error rs j) as [b|]; [|discriminate].
  rewrite Ha. apply orb_true_iff. left.
  eapply le_lt_trans; [exact Hlex|exact Hlt].
Qed.

Definition sel1 (rs : list repl) (k i : nat) : list repl :=
  if Nat.eqb (rank rs i) k
  then match nth_error rs i with Some r => [r] | None => [] end else [].

Lemma select_eq (rs : list repl) (k : nat) :
  select rs k = flat_map (sel1 rs k) (seq 0 (length rs)).
Proof. reflexivity. Qed.

Lemma select_snoc (rs : list repl) (x : repl) (k : nat) :
  select (rs ++ [x]) k =
  flat_map (sel1 (rs ++ [x]) k) (seq 0 (length rs)) ++
  (if Nat.eqb (cnt rs x) k then [x] else []).
Proof.
  rewrite select_eq, app_length. cbn [length].
  rewrite seq_app, flat_map_app. cbn [seq flat_map plus]. rewrite app_nil_r.
  f_equal. unfold sel1. rewrite rank_snoc_new, nth_error_snoc_last. reflexivity.
Qed.

Lemma in_select (rs : list repl) (k : nat) (r : repl) :
  In r (select rs k) ->
  exists i, rank rs i = k /\ nth_error rs i = Some r.
Proof.
  rewrite select_eq. intros H. apply in_flat_map in H.
  destruct H as (i & _ & Hr). unfold sel1 in Hr.
  destruct (Nat.eqb (rank rs i) k) eqn:E; [|destruct Hr].
  apply Nat.eqb_eq in E.
  destruct (nth_error rs i) as [r'|] eqn:En; [|destruct Hr].
  destruct Hr as [Hr|[]]. subst r'. exists i. split; assumption.
Qed.

(* how sel1 of the extended list relates to sel1 of the old one *)
Lemma sel1_snoc_cases (rs : list repl) (x : repl) (i : nat) :
  i < length rs ->
  exists a, nth_error rs i = Some a /\ nth_error (rs ++ [x]) i = Some a /\
    ((repl_le a x = true /\ rank (rs ++ [x]) i = rank rs i /\ rank rs i < cnt rs x) \/
     (key_lt x a = true /\ rank (rs ++ [x]) i = S (rank rs i) /\ cnt rs x <= rank rs i)).
Proof.
  intros Hi. destruct (nth_error rs i) as [a|] eqn:Ea.
  - exists a. split; [reflexivity|]. split.
    + rewrite nth_error_app1 by exact Hi. exact Ea.
    + pose proof (rank_snoc_old rs x a i Ea) as Hr.
      destruct (key_lt x a) eqn:E.
      * right. split; [reflexivity|]. split; [lia|].
        eapply rank_ge_cnt; eassumption.
      * left. apply key_lt_false in E. split; [exact E|]. split; [lia|].
        eapply rank_lt_cnt; eassumption.
  - exfalso. apply nth_error_None in Ea. lia.
Qed.

Lemma select_snoc_below (rs : list repl) (x : repl) (k : nat) :
  k < cnt rs x -> select (rs ++ [x]) k = select rs k.
Proof.
  intros Hk. rewrite select_snoc, (select_eq rs k).
  assert (Hne : Nat.eqb (cnt rs x) k = false) by (apply Nat.eqb_neq; lia).
  rewrite Hne, app_nil_r. apply flat_map_ext_in. intros i Hi. apply in_seq in Hi.
  destruct (sel1_snoc_cases rs x i) as (a & Ha & Ha' & [(H1 & H2 & H3)|(H1 & H2 & H3)]); [lia| |].
  - unfold sel1. rewrite H2, Ha, Ha'. reflexivity.
  - unfold sel1. rewrite H2.
    assert (E1 : Nat.eqb (S (rank rs i)) k = false) by (apply Nat.eqb_neq; lia).
    assert (E2 : Nat.eqb (rank rs i) k = false) by (apply Nat.eqb_neq; lia).
    rewrite E1, E2. reflexivity.
Qed.

Lemma select_snoc_at (rs : list repl) (x : repl) :
  select (rs ++ [x]) (cnt rs x) = [x].
Proof.
  rewrite select_snoc, Nat.eqb_refl.
  rewrite flat_map_nil_in; [reflexivity|].
  intros i Hi. apply in_seq in Hi.
  destruct (sel1_snoc_cases rs x i) as (a & Ha & Ha' & [(H1 & H2 & H3)|(H1 & H2 & H3)]); [lia| |].
  - unfold sel1. rewrite H2.
    assert (E : Nat.eqb (rank rs i) (cnt rs x) = false) by (apply Nat.eqb_neq; lia).
    rewrite E. reflexivity.
  - unfold sel1. rewrite H2.
    assert (E : Nat.eqb (S (rank rs i)) (cnt rs x) = false) by (apply Nat.eqb_neq; lia).
    rewrite E. reflexivity.
Qed.

Lemma select_snoc_above (rs : list repl) (x : repl) (k : nat) :
  cnt rs x <= k -> select (rs ++ [x]) (S k) = select rs k.
Proof.
  intros Hk. rewrite select_snoc, (select_eq rs k).
  assert (Hne : Nat.eqb (cnt rs x) (S k) = false) by (apply Nat.eqb_neq; lia).
  rewrite Hne, app_nil_r. apply flat_map_ext_in. intros i Hi. apply in_seq in Hi.
  destruct (sel1_snoc_cases rs x i) as (a & Ha & Ha' & [(H1 & H2 & H3)|(H1 & H2 & H3)]); [lia| |].
  - unfold sel1. rewrite H2.
    assert (E1 : Nat.eqb (rank rs i) (S k) = false) by (apply Nat.eqb_neq; lia).
    assert (E2 : Nat.eqb (rank rs i) k = false) by (apply Nat.eqb_neq; lia).
    rewrite E1, E2. reflexivity.
  - unfold sel1. rewrite H2, Ha, Ha'. reflexivity.
Qed.

Lemma insert_sorted_app (x : repl) (A B : list repl) :
  Forall (fun a => repl_le a x = true) A ->
  Forall (fun b => repl_le b x = false) B ->
  insert_sorted x (A ++ B) = A ++ x :: B.
Proof.
  intros HA HB. induction HA as [|a A Ha _ IH].
  - destruct HB as [|b B Hb _]; [reflexivity|].
    cbn [app insert_sorted]. rewrite Hb. reflexivity.
  - cbn [app insert_sorted]. rewrite Ha, IH. reflexivity.
Qed.

Lemma ref_order_snoc (rs : list repl) (x : repl) :
  ref_order (rs ++ [x]) = insert_sorted x (ref_order rs).
Proof.
  pose proof (cnt_le rs x) as Hc.
  set (c := cnt rs x) in *. set (n := length rs) in *.
  assert (Hold : ref_order rs =
                 flat_map (select rs) (seq 0 c) ++ flat_map (select rs) (seq c (n - c))).
  { unfold ref_order. fold n. rewrite <- flat_map_app, <- seq_app.
    replace (c + (n - c)) with n by lia. reflexivity. }
  assert (Hnew : ref_order (rs ++ [x]) =
                 flat_map (select rs) (seq 0 c) ++ x :: flat_map (select rs) (seq c (n - c))).
  { unfold ref_order. rewrite app_length. cbn [length]. fold n.
    replace (n + 1) with (c + (1 + (n - c))) by lia.
    rewrite seq_app, flat_map_app. cbn [plus]. f_equal.
    - apply flat_map_ext_in. intros k Hk. apply in_seq in Hk.
      apply select_snoc_below. fold c. lia.
    - cbn [seq flat_map].
      unfold c at 1. rewrite select_snoc_at. cbn [app]. f_equal.
      rewrite <- seq_shift, flat_map_map.
      apply flat_map_ext_in. intros k Hk. apply in_seq in Hk.
      apply select_snoc_above. fold c. lia. }
  rewrite Hnew, Hold. symmetry. apply insert_sorted_app.
  - apply Forall_forall. intros r Hr. apply in_flat_map in Hr.
    destruct Hr as (k & Hk & Hr). apply in_seq in Hk.
    apply in_select in Hr. destruct Hr as (i & Hrk & Hn).
    destruct (repl_le r x) eqn:E; [reflexivity|]. exfalso.
    apply repl_le_false in E.
    pose proof (rank_ge_cnt rs x r i Hn E) as Hge. fold c in Hge. lia.
  - apply Forall_forall. intros r Hr. apply in_flat_map in Hr.
    destruct Hr as (k & Hk & Hr). apply in_seq in Hk.
    apply in_select in Hr. destruct Hr as (i & Hrk & Hn).
    destruct (repl_le r x) eqn:E; [|reflexivity]. exfalso.
    pose proof (rank_lt_cnt rs x r i Hn E) as Hlt. fold c in Hlt. lia.
Qed.

Theorem sort_repls_ref (rs : list repl) : sort_repls rs = ref_order rs.
Proof.
  induction rs as [|x rs IH] using rev_ind; [reflexivity|].
  rewrite sort_repls_snoc, ref_order_snoc, IH. reflexivity.
Qed.

(* ------------------------------------------------------------------ *)
(* S3: the sorted index denotes the sorted replacements *)

Definition getl (rs : list repl) (l : list N) : list repl :=
  flat_map (fun i => match nth_opt rs i with Some r => [r] | None => [] end) l.

Definition valid_idx (rs : list repl) (i : N) : Prop := exists r, nth_opt rs i = Some r.

Lemma insert_idx_get (rs : list repl) (x : N) (r : repl) (l : list N) :
  nth_opt rs x = Some r -> Forall (valid_idx rs) l ->
  getl rs (insert_idx rs x l) = insert_sorted r (getl rs l).
Proof.
  intros Hx Hl. induction Hl as [|y l [ry Hy] _ IH].
  - unfold getl. cbn [insert_idx flat_map]. rewrite Hx. reflexivity.
  - cbn [insert_idx]. unfold key_le. rewrite Hy, Hx.
    unfold getl in *. cbn [flat_map]. rewrite Hy. cbn [app insert_sorted].
    destruct (repl_le ry r).
    + cbn [flat_map]. rewrite Hy, IH. reflexivity.
    + cbn [flat_map]. rewrite Hx, Hy. reflexivity.
Qed.

Lemma insert_idx_valid (rs : list repl) (x : N) (l : list N) :
  valid_idx rs x -> Forall (valid_idx rs) l -> Forall (valid_idx rs) (insert_idx rs x l).
Proof.
  intros Hx Hl. induction Hl as [|y l Hy Hl IH].
  - cbn [insert_idx]. constructor; [exact Hx|constructor].
  - cbn [insert_idx]. destruct (key_le rs y x).
    + constructor; assumption.
    + constructor; [exact Hx|]. constructor; assumption.
Qed.

Lemma fold_insert_idx_get (rs : list repl) (is acc : list N) :
  Forall (valid_idx rs) is -> Forall (valid_idx rs) acc ->
  getl rs (fold_left (fun a i => insert_idx rs i a) is acc) =
  fold_left (fun a x => insert_sorted x a) (getl rs is) (getl rs acc).
Proof.
  intros His. revert acc. induction His as [|i is [r Hi] _ IH]; intros acc Hacc.
  - reflexivity.
  - cbn [fold_left]. rewrite IH.
    + rewrite (insert_idx_get rs i r acc Hi Hacc).
      unfold getl at 3. cbn [flat_map]. rewrite Hi. cbn [app fold_left]. reflexivity.
    + apply insert_idx_valid; [exists r; exact Hi|exact Hacc].
Qed.

Lemma nth_opt_of_nat {A} (l : list A) (i : nat) : nth_opt l (N.of_nat i) = nth_error l i.
Proof. unfold nth_opt. rewrite Nat2N.id. reflexivity. Qed.

Lemma getl_iota (rs : list repl) : getl rs (map N.of_nat (seq 0 (length rs))) = rs.
Proof.
  unfold getl. rewrite flat_map_map.
  induction rs as [|x rs IH] using rev_ind; [reflexivity|].
  rewrite app_length. cbn [length]. rewrite seq_app, flat_map_app.
  cbn [seq flat_map plus]. rewrite app_nil_r, nth_opt_of_nat, nth_error_snoc_last.
  f_equal. rewrite <- IH at 2. apply flat_map_ext_in.
  intros i Hi. apply in_seq in Hi. rewrite !nth_opt_of_nat.
  rewrite nth_error_app1 by lia. reflexivity.
Qed.

Lemma iota_valid (rs : list repl) : Forall (valid_idx rs) (map N.of_nat (seq 0 (length rs))).
Proof.
  apply Forall_forall. intros i Hi. apply in_map_iff in Hi.
  destruct Hi as (j & Hj & Hin). subst i. apply in_seq in Hin.
  unfold valid_idx. rewrite nth_opt_of_nat.
  destruct (nth_error rs j) as [r|] eqn:E; [exists r; reflexivity|].
  apply nth_error_None in E. lia.
Qed.

Theorem sort_index_get (rs : list repl) : getl rs (sort_index rs) = sort_repls rs.
Proof.
  unfold sort_index. rewrite fold_insert_idx_get; [|apply iota_valid|constructor].
  rewrite getl_iota. reflexivity.
Qed.

Theorem sort_index_correct (rs : list repl) (idx : list N) :
  snd (robj_sorted (mkRobj rs idx false)) = sort_repls rs.
Proof.
  unfold robj_sorted, robj_sort. cbn [ob_sorted ob_repls ob_index snd].
  apply sort_index_get.
Qed.

(* the sorted index is a permutation of 0 .. n-1 *)
Lemma insert_idx_perm (rs : list repl) (x : N) (l : list N) :
  Permutation (insert_idx rs x l) (x :: l).
Proof.
  induction l as [|y l IH]; cbn [insert_idx]; [apply Permutation_refl|].
  destruct (key_le rs y x).
  - eapply Permutation_trans; [apply perm_skip, IH|apply perm_swap].
  - apply Permutation_refl.
Qed.

Lemma fold_insert_idx_perm (rs : list repl) (is acc : list N) :
  Permutation (fold_left (fun a i => insert_idx rs i a) is acc) (acc ++ is).
Proof.
  revert acc. induction is as [|i is IH]; intros acc.
  - rewrite app_nil_r. apply Permutation_refl.
  - cbn [fold_left]. eapply Permutation_trans; [apply IH|].
    eapply Permutation_trans; [apply Permutation_app_tail, insert_idx_perm|].
    cbn [app]. apply Permutation_middle.
Qed.

Theorem sort_index_perm (rs : list repl) :
  Permutation (sort_index rs) (map N.of_nat (seq 0 (length rs))).
Proof. unfold sort_index. apply (fold_insert_idx_perm rs _ []). Qed.

(* the same in nth form *)
Lemma fold_insert_idx_valid (rs : list repl) (is acc : list N) :
  Forall (valid_idx rs) is -> Forall (valid_idx rs) acc ->
  Forall (valid_idx rs) (fold_left (fun a i => insert_idx rs i a) is acc).
Proof.
  intros His. revert acc. induction His as [|i is Hi _ IH]; intros acc Hacc; [exact Hacc|].
  cbn [fold_left]. apply IH. apply insert_idx_valid; assumption.
Qed.

Lemma sort_index_valid (rs : list repl) : Forall (valid_idx rs) (sort_index rs).
Proof. unfold sort_index. apply fold_insert_idx_valid; [apply iota_valid|constructor]. Qed.

Lemma getl_map_nth (rs : list repl) (d : repl) (l : list N) :
  Forall (valid_idx rs) l -> getl rs l = map (fun i => nth (N.to_nat i) rs d) l.
Proof.
  induction 1 as [|i l [r Hi] _ IH]; [reflexivity|].
  unfold getl in *. cbn [flat_map map]. rewrite Hi, IH. cbn [app]. f_equal.
  symmetry. apply nth_error_nth. exact Hi.
Qed.

Theorem sort_index_nth (rs : list repl) (d : repl) :
  map (fun i => nth i rs d) (map N.to_nat (sort_index rs)) = sort_repls rs.
Proof.
  rewrite map_map, <- (getl_map_nth rs d) by apply sort_index_valid.
  apply sort_index_get.
Qed.

(* sanity: the statements on a small example with ties, computed *)
Local Open Scope N_scope.
Example sort_example :
  let a := mkRepl 3 5 [1] None 1 in
  let b := mkRepl 0 2 [2] None 1 in
  let c := mkRepl 3 5 [3] None 1 in
  let d := mkRepl 3 5 [4] None 0 in
  let e := mkRepl 3 4 [5] None 2 in
  sort_repls [a; b; c; d; e] = [b; e; d; a; c] /\
  ref_order [a; b; c; d; e] = [b; e; d; a; c] /\
  sort_index [a; b; c; d; e] = [1; 4; 3; 0; 2]%N.
Proof. vm_compute. repeat split. Qed.

Print Assumptions sort_repls_perm.
Print Assumptions sort_repls_sorted.
Print Assumptions sort_repls_stable.
Print Assumptions sort_repls_ref.
Print Assumptions sort_index_correct.
Print Assumptions sort_index_perm.
Print Assumptions sort_index_nth.
