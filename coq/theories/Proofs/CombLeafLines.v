(* A SourceMapSource WITH an inner source map as a LEAF of the tree theorems, part 3
   (L1 c, d for columns = false).
   With columns = false a line is attributed by its FIRST MAPPED segment, and `resolve_combined`
   can turn a mapped outer segment into an unmapped one (remove_original_source = true and no
   inner mapping found): `seg_first_mapped` does NOT commute with such a transformer in general
   (`sfm_not_commuting` below).  For the line splitters of a SourceMapSource it does not matter:
   the text-less splitter streams AT MOST ONE segment per line (the line's first mapped segment,
   `lines_incr`), and the text-carrying splitter streams every line as ONE chunk carrying that
   same original position.  Both are proved here for an arbitrary resolution `G` of original
   positions with `G None = None`, which covers the outer splitter composed with
   `resolve_combined`; no restriction on `remove` is needed. *)
From RS Require Import Base.Prelude Base.Text Rope.RopeModel Codec.Vlq Codec.CodecSpec
  Checkers.ChkCodec Stream.Types Stream.Leaves Stream.Concat Stream.Replace Stream.Combined Stream.Tree
  Sem.Attr Checkers.ChkTree Checkers.ChkCombined
  Proofs.CodecKept Proofs.StreamText Proofs.StreamLeaves Proofs.StreamMap Proofs.StreamConcat Proofs.StreamTree
  Proofs.WfStream Proofs.WfFinal Proofs.RStreamText Proofs.RStreamPos Proofs.RStreamTree
  Proofs.AttrCodec Proofs.AttrSms Proofs.AttrLeaves Proofs.LawConcatAttr Proofs.LawWrappers
  Proofs.CacheReplay Proofs.FinalDense Proofs.FinalReplace Proofs.FinalConcat Proofs.FinalTree
  Proofs.ReplAttrStream Proofs.ReplAttrOrigin Proofs.ReplAttrSms Proofs.ReplAttrTree
  Proofs.LinesBase Proofs.LinesSelf Proofs.LinesConcat Proofs.LinesTree
  Proofs.CombAllSpec Proofs.CombAllT12 Proofs.CombAllChk Proofs.CombAllLines Proofs.CombLeafBase.
Require Import Lia List.

Local Open Scope N_scope.

(* seg_first_mapped does not commute with a transformer that unmaps: two segments on line 1,
   the transformer unmaps the first one *)
Example sfm_not_commuting :
  let a := mkLoc [97] 1 0 None in
  let b := mkLoc [98] 1 0 None in
  let f := fun x : attr => match x with Some l => if text_eqb (l_file l) [97] then None else Some l | None => None end in
  let segs : list rseg := [(1, 0, Some a); (1, 2, Some b)] in
  f None = None /\
  seg_first_mapped (map (on_seg f) segs) 1 = Some b /\
  f (seg_first_mapped segs 1) = None.
Proof. vm_compute. repeat split; reflexivity. Qed.

(* ------------------------------------------------------------------ *)
(* the original position the line splitters give to a line              *)
(* ------------------------------------------------------------------ *)
Definition fml (ms : list mapping) (l : N) : option orig :=
  match find (mapped_on l) ms with
  | Some mp => match m_orig mp with Some o => Some (strip_name o) | None => None end
  | None => None
  end.

Lemma fml_cons m ms l :
  fml (m :: ms) l =
  if g_line m =? l then match m_orig m with Some o => Some (strip_name o) | None => fml ms l end
  else fml ms l.
Proof.
  unfold fml. cbn [find]. unfold mapped_on at 1. destruct (g_line m =? l); cbn [andb]; [|reflexivity].
  destruct (m_orig m) as [o|] eqn:Eo; [rewrite Eo|]; reflexivity.
Qed.

Lemma fml_beyond l : forall ms, Forall (fun x => l < g_line x) ms -> fml ms l = None.
Proof.
  induction ms as [|m ms IH]; intros H; [reflexivity|]. inversion H as [|? ? Hm Hms]; subst.
  rewrite fml_cons. replace (g_line m =? l) with false by (symmetry; apply N.eqb_neq; lia). apply IH. exact Hms.
Qed.

(* ---- the text-less splitter ---- *)
Lemma lines_final_sfm (G : option orig -> attr) fl l ms : G None = None -> ssorted ms -> 1 <= l -> l <= fl ->
  seg_first_mapped (map (fun mp => (g_line mp, g_col mp, G (m_orig mp)))
                        (chunk_mappings (sm_lines_final_loop ms 1 fl))) l = norm (G (fml ms l)).
Proof.
  intros HG Hs H1 Hl. destruct (lines_final_incr fl ms 1) as [Hi _].
  rewrite (sfm_incr G _ l Hi), (lines_final_find fl l ms 1 Hs H1 Hl). unfold fml.
  destruct (find (mapped_on l) ms) as [mp|]; [|rewrite HG; reflexivity].
  destruct (m_orig mp) as [o|]; [reflexivity|rewrite HG; reflexivity].
Qed.

(* ---- the text-carrying splitter: every chunk is a whole line with the line's position ---- *)
Definition line_chunkG (ls : list text) (ms : list mapping) (lo : N) (e : event) : Prop :=
  match e with
  | EChunk (Some x) mp =>
    line_at ls (g_line mp) = Some x /\ g_col mp = 0 /\ lo <= g_line mp /\
    m_orig mp = fml ms (g_line mp)
  | _ => False
  end.

Lemma line_chunkG_ext ls ms ms' lo lo' e : lo' <= lo ->
  (forall j, lo <= j -> j <= len ls -> fml ms' j = fml ms j) ->
  line_chunkG ls ms lo e -> line_chunkG ls ms' lo' e.
Proof.
  intros Hlo H. destruct e as [[x|] mp|i n c|i n]; cbn [line_chunkG]; try (intros F; exact F).
  intros [H1 [H2 [H3 H4]]]. pose proof (line_at_some _ _ _ H1) as [_ [HL _]].
  split; [exact H1|]. split; [exact H2|]. split; [lia|]. rewrite H by assumption. exact H4.
Qed.

Lemma whole_lines_chunksG ls ms : forall suf i cur tg, 1 <= i -> suf = drop (i - 1) ls ->
  (forall j, cur <= j -> j < tg -> fml ms j = None) ->
  Forall (line_chunkG ls ms cur) (whole_lines suf i cur tg).
Proof.
  induction suf as [|l suf IH]; intros i cur tg H1 Hsuf Hnone; [constructor|].
  symmetry in Hsuf. apply drop_cons_nth in Hsuf. destruct Hsuf as [Hnth Hdrop].
  assert (Hl : line_at ls i = Some l).
  { unfold line_at. replace (i =? 0) with false by (symmetry; apply N.eqb_neq; lia). exact Hnth. }
  assert (Hrec : Forall (line_chunkG ls ms cur) (whole_lines suf (i + 1) cur tg)).
  { apply IH; [lia| |exact Hnone]. rewrite <- Hdrop. f_equal. lia. }
  cbn [whole_lines]. destruct ((cur <=? i) && (i <? tg)) eqn:E; [|exact Hrec].
  apply andb_true_iff in E. destruct E as [E1 E2]. apply N.leb_le in E1. apply N.ltb_lt in E2.
  constructor; [|exact Hrec]. cbn [line_chunkG unmapped g_line g_col m_orig].
  split; [exact Hl|]. split; [reflexivity|]. split; [exact E1|]. symmetry. apply Hnone; assumption.
Qed.

Lemma lines_loop_chunksG ls : forall ms cur, ssorted ms -> 1 <= cur ->
  Forall (line_chunkG ls ms cur)
    (snd (sm_lines_full_loop ls ms cur) ++ whole_lines ls 1 (fst (sm_lines_full_loop ls ms cur)) (len ls + 1)).
Proof.
  induction ms as [|m ms IH]; intros cur Hs H1.
  - cbn [sm_lines_full_loop fst snd app]. apply whole_lines_chunksG; [lia|rewrite sdrop_0; reflexivity|reflexivity].
  - destruct Hs as [Hm Hs]. apply ssorted_lines in Hm. cbn [sm_lines_full_loop].
    destruct (m_orig m) as [o|] eqn:Eo.
    + destruct ((g_line m <? cur) || (len ls <? g_line m)) eqn:E.
      * eapply Forall_impl; [|apply (IH cur Hs H1)]. intros e. apply line_chunkG_ext; [lia|].
        intros j Hj1 Hj2. rewrite fml_cons. replace (g_line m =? j) with false; [reflexivity|].
        symmetry. apply N.eqb_neq. apply orb_true_iff in E.
        destruct E as [E|E]; apply N.ltb_lt in E; lia.
      * apply orb_false_iff in E. destruct E as [E1 E2]. apply N.ltb_ge in E1. apply N.ltb_ge in E2.
        assert (Hg1 : 1 <= g_line m) by lia.
        destruct (line_at_exists ls (g_line m) Hg1 E2) as [line Hline]. rewrite Hline.
        assert (Hc1 : 1 <= g_line m + 1) by lia.
        pose proof (IH (g_line m + 1) Hs Hc1) as Hrec.
        destruct (sm_lines_full_loop ls ms (g_line m + 1)) as [cur' evs]. cbn [fst snd] in *.
        rewrite <- !app_assoc. apply Forall_app. split; [|cbn [app]; constructor].
        -- apply whole_lines_chunksG; [lia|rewrite sdrop_0; reflexivity|].
           intros j Hj1 Hj2. rewrite fml_cons.
           replace (g_line m =? j) with false by (symmetry; apply N.eqb_neq; lia).
           apply fml_beyond. eapply Forall_impl; [|exact Hm]. cbn beta. intros x Hx. lia.
        -- cbn [line_chunkG g_line g_col m_orig].
           split; [exact Hline|]. split; [reflexivity|]. split; [exact E1|].
           rewrite fml_cons, N.eqb_refl, Eo. reflexivity.
        -- eapply Forall_impl; [|exact Hrec]. intros e. apply line_chunkG_ext; [lia|].
           intros j Hj1 Hj2. rewrite fml_cons.
           replace (g_line m =? j) with false by (symmetry; apply N.eqb_neq; lia). reflexivity.
    + eapply Forall_impl; [|apply (IH cur Hs H1)]. intros e. apply line_chunkG_ext; [lia|].
      intros j Hj1 Hj2. rewrite fml_cons, Eo. destruct (g_line m =? j); reflexivity.
Qed.

Lemma line_chunkG_only ls ms lo evs : Forall (line_chunkG ls ms lo) evs -> only_chunks evs = true.
Proof.
  induction 1 as [|e evs He _ IH]; [reflexivity|]. cbn [only_chunks forallb].
  destruct e as [[x|] mp|i n c|i n]; cbn [line_chunkG] in He; try contradiction. exact IH.
Qed.

Lemma lines_coverG (G : option orig -> attr) ls ms : lines_shape ls -> forall evs L t acc,
  Reass evs t -> WP evs (L, 0) -> Forall (line_chunkG ls ms 0) evs ->
  line_firsts_cover (map (fun ch : option text * mapping =>
                            (fst ch, (g_line (snd ch), g_col (snd ch), G (m_orig (snd ch))))) (chunks_of evs))
                    None acc 0 =
  rev acc ++ attr_by_fun (fun l _ => norm (G (fml ms l))) t L 0.
Proof.
  intros Hshape. pose proof (lines_shape_pieces ls Hshape) as Hpieces. rewrite Forall_forall in Hpieces.
  induction evs as [|e evs IH]; intros L t acc Hr Hw Hg.
  - rewrite (Reass_nil_inv t Hr). cbn. rewrite app_nil_r. reflexivity.
  - inversion Hg as [|? ? He Hg']; subst.
    destruct e as [[x|] mp|i n0 c|i n0]; cbn [line_chunkG] in He; try contradiction.
    destruct He as [Hl [Hc0 [_ Hlab]]].
    apply Reass_chunk_inv in Hr. destruct Hr as [x' [t' [Ex [Et Hr]]]]. inversion Ex. subst x' t.
    apply WP_chunk_inv in Hw. destruct Hw as [x' [Ex' [HL [_ Hw]]]]. inversion Ex'. subst x'.
    cbn [fst] in HL. rewrite HL in *.
    assert (Hpc : piece_shape x) by (apply Hpieces; eapply line_at_in; exact Hl).
    assert (Hne : is_nil x = false).
    { destruct x; [exfalso; apply (piece_nonempty _ Hpc); reflexivity|reflexivity]. }
    pose proof (nl_last_piece x Hpc) as Hnl.
    cbn [chunks_of map fst snd]. rewrite (lfc_cons_none _ _ _ _ _ _ Hne).
    rewrite Hlab. rewrite attr_by_fun_app, (abf_line (fun l => norm (G (fml ms l))) x L 0 Hnl).
    unfold adv in Hw. cbn [fst snd] in Hw. rewrite (piece_advance L 0 x Hpc) in *.
    destruct (ends_with_nl x).
    + cbn [fst snd]. rewrite (IH (L + 1) t' _ Hr Hw Hg'). rewrite rev_app_distr, rev_repeat', <- app_assoc.
      reflexivity.
    + destruct evs as [|e' evs'].
      * rewrite (Reass_nil_inv t' Hr). cbn [map chunks_of line_firsts_cover attr_by_fun].
        rewrite rev_app_distr, rev_repeat', app_nil_r. reflexivity.
      * exfalso. inversion Hg' as [|? ? He' _]; subst.
        destruct e' as [[y|] mp'|i n0 c|i n0]; cbn [line_chunkG] in He'; try contradiction.
        destruct He' as [_ [Hc0' _]].
        apply WP_chunk_inv in Hw. destruct Hw as [y' [_ [_ [Hc' _]]]]. cbn [snd] in Hc'.
        assert (E0 : len x = 0) by lia. apply slen_0 in E0. apply (piece_nonempty _ Hpc). exact E0.
Qed.

(* ------------------------------------------------------------------ *)
(* both line splitters, under an arbitrary resolution G                 *)
(* ------------------------------------------------------------------ *)
Definition Gseg (G : option orig -> attr) (mp : mapping) : rseg := (g_line mp, g_col mp, G (m_orig mp)).

Lemma lines_final_G (G : option orig -> attr) (t : text) (m : smap) :
  G None = None -> sorted_by pos_le (decode_mappings (sm_mappings m)) = true ->
  attr_by_pos (map (Gseg G) (chunk_mappings (fst (sm_stream_lines_final t m)))) false t 1 0 =
  attr_by_fun (fun l _ => norm (G (fml (decode_mappings (sm_mappings m)) l))) t 1 0.
Proof.
  intros HG Hs. rewrite sm_lines_final_cm, gen_info_advance, marks_count_lines'.
  destruct (advance 1 0 t) as [rl rc] eqn:Eadv. cbn [fst snd].
  destruct ((rl =? 1) && (rc =? 0)) eqn:E.
  - apply andb_true_iff in E. destruct E as [E1 E2]. apply N.eqb_eq in E1. apply N.eqb_eq in E2. subst.
    rewrite (advance_start_nil t Eadv). reflexivity.
  - rewrite attr_by_pos_fun. apply attr_by_fun_ext. intros l c Hle Hlt. rewrite Eadv in Hlt.
    unfold seg_fun. unfold ple in Hle. unfold plt in Hlt. cbn [fst snd] in Hle, Hlt.
    apply (lines_final_sfm G); [exact HG|apply sorted_ssorted; exact Hs|lia|].
    rewrite <- marks_count_lines'. unfold marks_count. rewrite gen_info_advance, Eadv.
    destruct (rc =? 0) eqn:Erc; [apply N.eqb_eq in Erc|apply N.eqb_neq in Erc]; lia.
Qed.

Lemma lines_full_G (G : option orig -> attr) (t : text) (m : smap) :
  sorted_by pos_le (decode_mappings (sm_mappings m)) = true ->
  line_firsts_cover (map (fun ch : option text * mapping => (fst ch, Gseg G (snd ch)))
                         (chunks_of (fst (sm_stream_lines_full t m)))) None [] 0 =
  attr_by_fun (fun l _ => norm (G (fml (decode_mappings (sm_mappings m)) l))) t 1 0.
Proof.
  intros Hs. pose proof (sm_stream_lines_full_good t m) as [Hr Hw].
  unfold sm_stream_lines_full in *. destruct (is_nil (split_lines t)) eqn:Hnil.
  - apply is_nil_true in Hnil. rewrite (split_lines_nil t Hnil). reflexivity.
  - assert (H11 : 1 <= 1) by lia.
    pose proof (lines_loop_chunksG (split_lines t) _ 1 (sorted_ssorted _ Hs) H11) as Hg.
    destruct (sm_lines_full_loop (split_lines t) (decode_mappings (sm_mappings m)) 1) as [cur evs].
    cbn [fst snd] in *.
    apply Reass_nochunk_inv in Hr; [|apply announce_sources_chunks].
    apply WP_nochunk_inv in Hw; [|apply announce_sources_chunks].
    assert (Hg0 : Forall (line_chunkG (split_lines t) (decode_mappings (sm_mappings m)) 0)
                         (evs ++ whole_lines (split_lines t) 1 cur (len (split_lines t) + 1))).
    { eapply Forall_impl; [|exact Hg]. intros e. apply line_chunkG_ext; [lia|reflexivity]. }
    rewrite chunks_of_app, announce_sources_chunks. cbn [app].
    apply (lines_coverG G _ _ (split_lines_shape t) _ 1 t [] Hr Hw Hg0).
Qed.

(* the resolved sequences of the outer line splitters, through the tables of the outer map *)
Lemma sm_lines_final_fsegs v m :
  fsegs (fst (sm_stream_lines_final v m)) [] [] =
  map (rsF (fileM m) (fileT [])) (chunk_mappings (fst (sm_stream_lines_final v m))).
Proof.
  unfold sm_stream_lines_final, fsegs. destruct (gen_info v) as [rl rc].
  destruct ((rl =? 1) && (rc =? 0)); cbn [fst]; [reflexivity|].
  rewrite (rsegs_sm_sources m [] _ (lines_final_loop_chunks _ _ 1)), map_map. cbn [snd].
  rewrite chunk_mappings_app, announce_sources_cm. cbn [app].
  rewrite chunk_mappings_chunks_of, map_map. reflexivity.
Qed.

Lemma sm_lines_full_rsegs v m :
  rsegs_of_events (fst (sm_stream_lines_full v m)) [] [] =
  map (fun ch : option text * mapping => (fst ch, rsF (fileM m) (fileT []) (snd ch)))
      (chunks_of (fst (sm_stream_lines_full v m))).
Proof.
  unfold sm_stream_lines_full. destruct (is_nil (split_lines v)); [reflexivity|].
  pose proof (lines_full_loop_only (split_lines v) (decode_mappings (sm_mappings m)) 1) as O.
  destruct (sm_lines_full_loop (split_lines v) (decode_mappings (sm_mappings m)) 1) as [cur evs].
  cbn [fst snd] in *.
  assert (O' : only_chunks (evs ++ whole_lines (split_lines v) 1 cur (len (split_lines v) + 1)) = true).
  { rewrite only_chunks_app, O, whole_lines_only. reflexivity. }
  rewrite (rsegs_sm_sources m [] _ O'), (chunks_of_app (announce_sources _ _ _)), announce_sources_chunks. reflexivity.
Qed.

(* ------------------------------------------------------------------ *)
(* the combined leaf                                                   *)
(* ------------------------------------------------------------------ *)
Section Leaf.
Variables (v name : text) (m : smap) (given : option text) (im : smap) (remove : bool).
Hypothesis Hwf : c09_wf v m name given im.

Let F := fst (combined_stream v m name given im remove oLF).
Let T := fst (combined_stream v m name given im remove oLT).
Let G (o : option orig) : attr := RC name m given im remove false (optF (fileM m) (fileT []) o).

Lemma G_none : G None = None.
Proof. reflexivity. Qed.

Lemma outer_sorted : sorted_by pos_le (decode_mappings (sm_mappings m)) = true.
Proof. destruct (map_consistent_ok v m (wf_consistent v name m given im Hwf)) as [Hs _]. exact Hs. Qed.

Lemma combined_lines_final_segs :
  fsegs F [] [] = map (Gseg G) (chunk_mappings (fst (sm_stream_lines_final v m))).
Proof.
  unfold F. rewrite (combined_fsegs v name m given im remove Hwf oLF).
  change (fst (sm_stream v m oLF)) with (fst (sm_stream_lines_final v m)).
  rewrite sm_lines_final_fsegs, map_map. apply map_ext. intros mp. reflexivity.
Qed.

Lemma combined_lines_text_segs :
  rsegs_of_events T [] [] =
  map (fun ch : option text * mapping => (fst ch, Gseg G (snd ch))) (chunks_of (fst (sm_stream_lines_full v m))).
Proof.
  unfold T. rewrite (combined_rsegs_on v name m given im remove Hwf oLT).
  change (fst (sm_stream v m oLT)) with (fst (sm_stream_lines_full v m)).
  rewrite sm_lines_full_rsegs, map_map. apply map_ext. intros ch. reflexivity.
Qed.

(* L1 (c), columns = false *)
Theorem combined_final_text_attr_lines : attr_of_final_events F v false = attr_of_stream T false.
Proof.
  unfold attr_of_final_events, attr_of_stream. fold (fsegs F [] []).
  rewrite combined_lines_final_segs, combined_lines_text_segs.
  rewrite (lines_final_G G v m G_none outer_sorted), (lines_full_G G v m outer_sorted). reflexivity.
Qed.

(* the mapped chunks of the text-carrying line splitter are the chunks of the text-less one *)
Lemma existsb_filter {A} (p q : A -> bool) (l : list A) : (forall x, p x = true -> q x = true) ->
  existsb p (filter q l) = existsb p l.
Proof.
  intros H. induction l as [|x l IH]; [reflexivity|]. cbn [filter existsb]. destruct (q x) eqn:Eq.
  - cbn [existsb]. rewrite IH. reflexivity.
  - rewrite IH. destruct (p x) eqn:Ep; [|reflexivity]. rewrite (H x Ep) in Eq. discriminate.
Qed.

Lemma whole_lines_filter suf : forall i cur tg, filter is_mapped (chunk_mappings (whole_lines suf i cur tg)) = [].
Proof.
  induction suf as [|l suf IH]; intros i cur tg; [reflexivity|]. cbn [whole_lines].
  destruct ((cur <=? i) && (i <? tg)); [cbn [chunk_mappings filter is_mapped unmapped m_orig]|]; apply IH.
Qed.

Lemma lines_loops_filter ls : forall ms cur, 1 <= cur ->
  filter is_mapped (chunk_mappings (snd (sm_lines_full_loop ls ms cur))) =
  chunk_mappings (sm_lines_final_loop ms cur (len ls)).
Proof.
  induction ms as [|mp ms IH]; intros cur Hc; [reflexivity|]. cbn [sm_lines_final_loop sm_lines_full_loop].
  destruct (m_orig mp) as [o|]; [|apply IH; exact Hc].
  destruct (N.leb_spec cur (g_line mp)) as [L1|L1]; cbn [andb].
  - destruct (N.leb_spec (g_line mp) (len ls)) as [L2|L2].
    + replace (g_line mp <? cur) with false by (symmetry; apply N.ltb_ge; lia).
      replace (len ls <? g_line mp) with false by (symmetry; apply N.ltb_ge; lia). cbn [orb].
      assert (Hc' : 1 <= g_line mp + 1) by lia. pose proof (IH (g_line mp + 1) Hc') as R.
      destruct (sm_lines_full_loop ls ms (g_line mp + 1)) as [cur' evs]. cbn [snd] in *.
      assert (Hl : exists line, line_at ls (g_line mp) = Some line).
      { unfold line_at. replace (g_line mp =? 0) with false by (symmetry; apply N.eqb_neq; lia).
        apply snth_lt_some. lia. }
      destruct Hl as [line Hl]. rewrite Hl.
      rewrite !chunk_mappings_app, !filter_app, whole_lines_filter. cbn [app chunk_mappings filter is_mapped m_orig].
      rewrite R. reflexivity.
    + replace (len ls <? g_line mp) with true by (symmetry; apply N.ltb_lt; lia). rewrite orb_true_r.
      apply IH. exact Hc.
  - replace (g_line mp <? cur) with true by (symmetry; apply N.ltb_lt; lia). cbn [orb]. apply IH. exact Hc.
Qed.

Lemma sm_lines_filter :
  filter is_mapped (chunk_mappings (fst (sm_stream_lines_full v m))) =
  chunk_mappings (fst (sm_stream_lines_final v m)).
Proof.
  rewrite sm_lines_final_cm. unfold sm_stream_lines_full. rewrite gen_info_advance.
  destruct (is_nil (split_lines v)) eqn:En.
  - apply is_nil_true in En. apply split_lines_nil in En. subst v. reflexivity.
  - assert (Hv : v <> []) by (intros ->; discriminate).
    replace ((fst (advance 1 0 v) =? 1) && (snd (advance 1 0 v) =? 0)) with false.
    2:{ symmetry. apply andb_false_iff. destruct (advance 1 0 v) as [gl gc] eqn:Ea. cbn [fst snd].
        destruct (N.eq_dec gl 1) as [->|H1]; [|left; apply N.eqb_neq; exact H1].
        destruct (N.eq_dec gc 0) as [->|H2]; [|right; apply N.eqb_neq; exact H2].
        exfalso. apply Hv. apply advance_start_nil. exact Ea. }
    rewrite marks_count_lines', <- (lines_loops_filter (split_lines v) _ 1 (N.le_refl 1)).
    destruct (sm_lines_full_loop (split_lines v) (decode_mappings (sm_mappings m)) 1) as [cur evs].
    cbn [fst snd]. rewrite !chunk_mappings_app, !filter_app, announce_sources_cm, whole_lines_filter.
    cbn [filter app]. rewrite app_nil_r. reflexivity.
Qed.

(* L1 (d), columns = false *)
Theorem combined_mapped_same_lines : mapped_chunk_exists F = mapped_chunk_exists T.
Proof.
  rewrite (mce_fsegs F [] []), (mce_rsegs T [] []), combined_lines_final_segs, combined_lines_text_segs.
  assert (A : forall l, smapped (map (Gseg G) l) = existsb (fun mp => asome (G (m_orig mp))) l).
  { intros l. unfold smapped. rewrite existsb_map'. reflexivity. }
  assert (B : forall chs : list (option text * mapping),
            existsb seg_mapped (map (fun ch => (fst ch, Gseg G (snd ch))) chs) =
            existsb (fun mp => asome (G (m_orig mp))) (map snd chs)).
  { intros chs. rewrite !existsb_map'. reflexivity. }
  rewrite A, B, <- chunk_mappings_chunks_of, <- sm_lines_filter. apply existsb_filter.
  intros mp. unfold is_mapped. destruct (m_orig mp); [reflexivity|discriminate].
Qed.

End Leaf.

(* the statements on `stream`, for any store *)
Section LeafStream.
Variables (v name : text) (m : smap) (given : option text) (im : smap) (remove : bool).
Let s := SMapped v name m given (Some im) remove.
Hypothesis Hwf : c09_wf v m name given im.

Theorem comb_leaf_attr_lines (st : store) :
  attr_of_final_events (fst (fst (stream st s (mkOpts false true)))) v false =
  attr_of_stream (fst (fst (stream st s (mkOpts false false)))) false.
Proof. unfold s. cbn [stream fst]. apply combined_final_text_attr_lines; assumption. Qed.

Theorem comb_leaf_mapped_lines (st : store) :
  mapped_chunk_exists (fst (fst (stream st s (mkOpts false true)))) =
  mapped_chunk_exists (fst (fst (stream st s (mkOpts false false)))).
Proof. unfold s. cbn [stream fst]. apply combined_mapped_same_lines; assumption. Qed.

End LeafStream.

Print Assumptions comb_leaf_attr_lines.
Print Assumptions comb_leaf_mapped_lines.
