(* Rope observers agree with the flat string: get_byte (R2), eq_str / hash (R3),
   ends_with (R4), starts_with (R5), eq (R6), char_indices (R8).
   Also: binary search on piece offsets locates "the piece containing x". *)
From RS Require Import Base.Prelude Base.Text Rope.RopeModel Proofs.RopeBasic Proofs.RopeWf
  Proofs.RopeUtf8.

(* ------------------------------------------------------------------ *)
(* text_eqb / is_prefix                                                *)
(* ------------------------------------------------------------------ *)
Lemma text_eqb_refl (a : text) : text_eqb a a = true.
Proof. induction a as [|x a IH]; [reflexivity|]. cbn [text_eqb]. rewrite N.eqb_refl, IH. reflexivity. Qed.

Lemma text_eqb_eq (a b : text) : text_eqb a b = true <-> a = b.
Proof.
  split; [|intros ->; apply text_eqb_refl].
  revert b. induction a as [|x a IH]; intros [|y b] H; try discriminate; [reflexivity|].
  cbn [text_eqb] in H. apply andb_prop in H. destruct H as [H1 H2].
  apply N.eqb_eq in H1. subst y. rewrite (IH _ H2). reflexivity.
Qed.

Lemma text_eqb_sym (a b : text) : text_eqb a b = text_eqb b a.
Proof.
  revert b. induction a as [|x a IH]; intros [|y b]; try reflexivity.
  cbn [text_eqb]. rewrite IH, N.eqb_sym. reflexivity.
Qed.

Lemma text_eqb_len_neq (a b : text) : len a <> len b -> text_eqb a b = false.
Proof.
  intros H. destruct (text_eqb a b) eqn:E; [|reflexivity].
  apply text_eqb_eq in E. subst. contradiction.
Qed.

Lemma text_eqb_app (a b a' b' : text) :
  len a = len a' -> text_eqb (a ++ b) (a' ++ b') = text_eqb a a' && text_eqb b b'.
Proof.
  revert a'. induction a as [|x a IH]; intros [|y a'] H.
  - reflexivity.
  - rewrite len_nil, len_cons in H. lia.
  - rewrite len_nil, len_cons in H. lia.
  - rewrite !len_cons in H. cbn [app text_eqb]. rewrite IH by lia. apply andb_assoc.
Qed.

Lemma is_prefix_nil_r (p : text) : is_prefix p [] = is_nil p.
Proof. destruct p; reflexivity. Qed.

Lemma is_prefix_refl_app (p s : text) : is_prefix p (p ++ s) = true.
Proof. induction p as [|x p IH]; [reflexivity|]. cbn [app is_prefix]. rewrite N.eqb_refl. exact IH. Qed.

Lemma is_prefix_app (a b t : text) :
  is_prefix (a ++ b) t = is_prefix a t && is_prefix b (drop (len a) t).
Proof.
  revert t. induction a as [|x a IH]; intros t; [reflexivity|].
  destruct t as [|y t]; [reflexivity|].
  cbn [app is_prefix]. rewrite len_cons, drop_succ_cons, IH. apply andb_assoc.
Qed.

Lemma is_prefix_len_eq (p t : text) : len p = len t -> is_prefix p t = text_eqb p t.
Proof.
  revert t. induction p as [|x p IH]; intros [|y t] H; try reflexivity.
  - rewrite len_nil, len_cons in H. lia.
  - rewrite !len_cons in H. cbn [is_prefix text_eqb]. rewrite IH by lia. reflexivity.
Qed.

Lemma is_prefix_len (p t : text) : is_prefix p t = true -> len p <= len t.
Proof.
  revert t. induction p as [|x p IH]; intros t H; [rewrite len_nil; lia|].
  destruct t as [|y t]; [discriminate|]. cbn [is_prefix] in H.
  apply andb_prop in H. destruct H as [_ H]. apply IH in H. rewrite !len_cons. lia.
Qed.

Lemma is_prefix_longer (p t : text) : len t < len p -> is_prefix p t = false.
Proof.
  intros H. destruct (is_prefix p t) eqn:E; [|reflexivity]. apply is_prefix_len in E. lia.
Qed.

Lemma text_eqb_take_prefix (c o : text) : text_eqb c (take (len c) o) = is_prefix c o.
Proof.
  revert o. induction c as [|x c IH]; intros o; [reflexivity|].
  destruct o as [|y o]; [rewrite take_nil; reflexivity|].
  rewrite len_cons, take_succ_cons. cbn [text_eqb is_prefix]. rewrite IH. reflexivity.
Qed.

Lemma is_prefix_app_r (p a b : text) : is_prefix p a = true -> is_prefix p (a ++ b) = true.
Proof.
  revert a. induction p as [|x p IH]; intros a H; [reflexivity|].
  destruct a as [|y a]; [discriminate|]. cbn [app is_prefix] in *.
  apply andb_prop in H. destruct H as [H1 H2]. rewrite H1, (IH _ H2). reflexivity.
Qed.

Lemma is_prefix_app_same (c p t : text) : is_prefix (c ++ p) (c ++ t) = is_prefix p t.
Proof. induction c as [|x c IH]; [reflexivity|]. cbn [app is_prefix]. rewrite N.eqb_refl. exact IH. Qed.

Lemma is_prefix_decomp (p t : text) : is_prefix p t = true -> t = p ++ drop (len p) t.
Proof.
  revert t. induction p as [|x p IH]; intros t H; [reflexivity|].
  destruct t as [|y t]; [discriminate|]. cbn [is_prefix] in H.
  apply andb_prop in H. destruct H as [H1 H2]. apply N.eqb_eq in H1. subst y.
  rewrite len_cons, drop_succ_cons. cbn [app]. f_equal. exact (IH _ H2).
Qed.

Lemma is_prefix_comparable (p a b : text) :
  is_prefix p (a ++ b) = true -> is_prefix p a = true \/ is_prefix a p = true.
Proof.
  revert a. induction p as [|x p IH]; intros a H; [left; reflexivity|].
  destruct a as [|y a]; [right; reflexivity|]. cbn [app is_prefix] in *.
  apply andb_prop in H. destruct H as [H1 H2]. rewrite H1. rewrite N.eqb_sym, H1.
  cbn [andb]. exact (IH _ H2).
Qed.

Lemma is_prefix_app_le (p a b : text) : len p <= len a -> is_prefix p (a ++ b) = is_prefix p a.
Proof.
  revert a. induction p as [|x p IH]; intros a H; [reflexivity|].
  destruct a as [|y a]; [rewrite len_cons, len_nil in H; lia|].
  rewrite !len_cons in H. cbn [app is_prefix]. rewrite IH by lia. reflexivity.
Qed.

Lemma is_prefix_split (m : N) (p t : text) :
  m <= len p -> m <= len t ->
  is_prefix p t = text_eqb (take m t) (take m p) && is_prefix (drop m p) (drop m t).
Proof.
  revert m t. induction p as [|x p IH]; intros m t Hp Ht.
  - rewrite len_nil in Hp. assert (m = 0) by lia. subst m. reflexivity.
  - destruct (N.eq_dec m 0) as [->|Hm]; [reflexivity|].
    destruct t as [|y t]; [rewrite len_nil in Ht; lia|].
    rewrite !len_cons in *. replace m with (m - 1 + 1) by lia.
    rewrite !take_succ_cons, !drop_succ_cons. cbn [is_prefix text_eqb].
    rewrite (IH (m - 1) t) by lia. rewrite (N.eqb_sym x y). apply andb_assoc.
Qed.

(* ------------------------------------------------------------------ *)
(* locating the piece that contains an offset                          *)
(* ------------------------------------------------------------------ *)
Lemma offsets_ok_mid pre c s post start :
  offsets_ok (pre ++ (c, s) :: post) start = true ->
  s = start + len (cat pre) /\ 0 < len c /\ offsets_ok pre start = true /\
  offsets_ok post (s + len c) = true.
Proof.
  rewrite offsets_ok_app. intros H. apply andb_prop in H. destruct H as [Hpre H].
  apply offsets_ok_cons in H. destruct H as (-> & Hc & Hpost). auto.
Qed.

Lemma locate_lt ps start x :
  offsets_ok ps start = true -> start <= x -> x < start + len (cat ps) ->
  exists pre c s post, ps = pre ++ (c, s) :: post /\ s <= x /\ x < s + len c.
Proof.
  revert start. induction ps as [|[c s] ps IH]; intros start Hok Hlo Hhi.
  - rewrite cat_nil, len_nil in Hhi. lia.
  - destruct (offsets_ok_cons _ _ _ _ Hok) as (-> & Hc & Hps).
    rewrite cat_cons, len_app in Hhi.
    destruct (N.lt_ge_cases x (start + len c)) as [Hx|Hx].
    + exists [], c, start, ps. auto.
    + destruct (IH _ Hps Hx ltac:(lia)) as (pre & c' & s' & post & -> & H1 & H2).
      exists ((c, start) :: pre), c', s', post. auto.
Qed.

Lemma locate_le ps start x :
  offsets_ok ps start = true -> start < x -> x <= start + len (cat ps) ->
  exists pre c s post, ps = pre ++ (c, s) :: post /\ s < x /\ x <= s + len c.
Proof.
  revert start. induction ps as [|[c s] ps IH]; intros start Hok Hlo Hhi.
  - rewrite cat_nil, len_nil in Hhi. lia.
  - destruct (offsets_ok_cons _ _ _ _ Hok) as (-> & Hc & Hps).
    rewrite cat_cons, len_app in Hhi.
    destruct (N.le_gt_cases x (start + len c)) as [Hx|Hx].
    + exists [], c, start, ps. auto.
    + destruct (IH _ Hps Hx ltac:(lia)) as (pre & c' & s' & post & -> & H1 & H2).
      exists ((c, start) :: pre), c', s', post. auto.
Qed.

(* piece containing x, the last piece if x is the total length or beyond *)
Lemma locate_start ps start x :
  offsets_ok ps start = true -> ps <> [] -> start <= x ->
  exists pre c s post, ps = pre ++ (c, s) :: post /\ s <= x /\ (x < s + len c \/ post = []).
Proof.
  intros Hok Hne Hlo.
  destruct (N.lt_ge_cases x (start + len (cat ps))) as [Hx|Hx].
  - destruct (locate_lt ps start x Hok Hlo Hx) as (pre & c & s & post & E & H1 & H2).
    exists pre, c, s, post. auto.
  - destruct (exists_last Hne) as [pre [[c s] ->]].
    exists pre, c, s, []. split; [reflexivity|]. split; [|right; reflexivity].
    destruct (offsets_ok_mid _ _ _ _ _ Hok) as (-> & Hc & _ & _).
    rewrite cat_app, len_app in Hx. lia.
Qed.

Lemma bsearch_from_skip pre rest start x i :
  offsets_ok pre start = true -> start + len (cat pre) <= x ->
  bsearch_from (map snd (pre ++ rest)) x i = bsearch_from (map snd rest) x (i + len pre).
Proof.
  revert start i. induction pre as [|[c s] pre IH]; intros start i Hok Hx.
  - rewrite len_nil, N.add_0_r. reflexivity.
  - destruct (offsets_ok_cons _ _ _ _ Hok) as (-> & Hc & Hpre).
    rewrite cat_cons, len_app in Hx.
    cbn [app map snd bsearch_from].
    replace (start =? x) with false by (symmetry; apply N.eqb_neq; lia).
    replace (x <? start) with false by (symmetry; apply N.ltb_ge; lia).
    rewrite (IH (start + len c)) by (assumption || lia).
    rewrite len_cons. f_equal. lia.
Qed.

Lemma start_chunk_index_locate pre c s post start x :
  offsets_ok (pre ++ (c, s) :: post) start = true ->
  s <= x -> (x < s + len c \/ post = []) ->
  start_chunk_index (pre ++ (c, s) :: post) x = len pre.
Proof.
  intros Hok Hlo Hhi.
  destruct (offsets_ok_mid _ _ _ _ _ Hok) as (Hs & Hc & Hpre & Hpost).
  unfold start_chunk_index, bsearch.
  rewrite (bsearch_from_skip pre _ start) by (assumption || lia).
  cbn [map snd bsearch_from].
  destruct (s =? x) eqn:E; [lia|]. apply N.eqb_neq in E.
  replace (x <? s) with false by (symmetry; apply N.ltb_ge; lia).
  destruct post as [|[c' s'] post'].
  - cbn [map bsearch_from]. lia.
  - destruct Hhi as [Hhi|Hhi]; [|discriminate].
    destruct (offsets_ok_cons _ _ _ _ Hpost) as (-> & _ & _).
    cbn [map snd bsearch_from].
    replace (s + len c =? x) with false by (symmetry; apply N.eqb_neq; lia).
    replace (x <? s + len c) with true by (symmetry; apply N.ltb_lt; lia). lia.
Qed.

Definition endk (p : text * N) : N := snd p + len (fst p).

Lemma bsearch_from_skip_end pre rest start x i :
  offsets_ok pre start = true -> start + len (cat pre) < x ->
  bsearch_from (map endk (pre ++ rest)) x i = bsearch_from (map endk rest) x (i + len pre).
Proof.
  revert start i. induction pre as [|[c s] pre IH]; intros start i Hok Hx.
  - rewrite len_nil, N.add_0_r. reflexivity.
  - destruct (offsets_ok_cons _ _ _ _ Hok) as (-> & Hc & Hpre).
    rewrite cat_cons, len_app in Hx.
    cbn [app map bsearch_from]. unfold endk at 1 2. cbn [fst snd].
    replace (start + len c =? x) with false by (symmetry; apply N.eqb_neq; lia).
    replace (x <? start + len c) with false by (symmetry; apply N.ltb_ge; lia).
    rewrite (IH (start + len c)) by (assumption || lia).
    rewrite len_cons. f_equal. lia.
Qed.

Lemma end_chunk_index_endk ps x :
  end_chunk_index ps x = match bsearch_from (map endk ps) x 0 with BOk i => i | BErr i => i end.
Proof. reflexivity. Qed.

Lemma end_chunk_index_locate pre c s post start x :
  offsets_ok (pre ++ (c, s) :: post) start = true ->
  (s < x \/ pre = []) -> x <= s + len c ->
  end_chunk_index (pre ++ (c, s) :: post) x = len pre.
Proof.
  intros Hok Hlo Hhi.
  destruct (offsets_ok_mid _ _ _ _ _ Hok) as (Hs & Hc & Hpre & Hpost).
  rewrite end_chunk_index_endk.
  assert (E : bsearch_from (map endk (pre ++ (c, s) :: post)) x 0
              = bsearch_from (map endk ((c, s) :: post)) x (0 + len pre)).
  { destruct Hlo as [Hlo| ->].
    - apply (bsearch_from_skip_end pre _ start); [assumption|lia].
    - reflexivity. }
  rewrite E. cbn [map bsearch_from]. unfold endk at 1 2. cbn [fst snd].
  destruct (s + len c =? x) eqn:E1; [lia|]. apply N.eqb_neq in E1.
  replace (x <? s + len c) with true by (symmetry; apply N.ltb_lt; lia). lia.
Qed.

(* flat string around a located piece *)
Lemma cat_mid pre c s post : cat (pre ++ (c, s) :: post) = cat pre ++ c ++ cat post.
Proof. rewrite cat_app, cat_cons. reflexivity. Qed.

(* ------------------------------------------------------------------ *)
(* R2: get_byte                                                        *)
(* ------------------------------------------------------------------ *)
Theorem rope_get_byte_flat (r : rope) (i : N) :
  rope_wf r = true -> rope_get_byte r i = nth_opt (flat r) i.
Proof.
  intros Hwf. unfold rope_get_byte. rewrite (rope_len_flat r Hwf).
  destruct (len (flat r) <=? i) eqn:E.
  - apply N.leb_le in E. symmetry. apply nth_opt_none. exact E.
  - apply N.leb_gt in E. destruct r as [s|ps]; [reflexivity|].
    destruct (wf_full ps Hwf) as [Hne Hok]. rewrite flat_full in *.
    destruct (locate_lt ps 0 i Hok ltac:(lia) ltac:(lia)) as (pre & c & s & post & -> & H1 & H2).
    rewrite (start_chunk_index_locate pre c s post 0 i Hok H1 (or_introl H2)).
    rewrite nth_opt_len_app.
    destruct (offsets_ok_mid _ _ _ _ _ Hok) as (Hs & _ & _ & _).
    rewrite cat_mid. rewrite nth_opt_app_r by lia. rewrite nth_opt_app_l by lia.
    f_equal. lia.
Qed.

(* ------------------------------------------------------------------ *)
(* R3: eq_str, hash                                                    *)
(* ------------------------------------------------------------------ *)
Lemma eq_str_walk_prefix (cs : list text) (o : text) :
  eq_str_walk cs o = is_prefix (concat cs) o.
Proof.
  revert o. induction cs as [|c cs IH]; intros o; [reflexivity|].
  cbn [eq_str_walk concat]. rewrite is_prefix_app, IH, text_eqb_take_prefix. reflexivity.
Qed.

Theorem rope_eq_str_flat (r : rope) (o : text) :
  rope_wf r = true -> rope_eq_str r o = text_eqb (flat r) o.
Proof.
  intros Hwf. unfold rope_eq_str. rewrite (rope_len_flat r Hwf).
  destruct (len (flat r) =? len o) eqn:E; cbn [negb].
  - apply N.eqb_eq in E. destruct r as [s|ps]; [reflexivity|].
    rewrite eq_str_walk_prefix. apply is_prefix_len_eq. exact E.
  - apply N.eqb_neq in E. symmetry. apply text_eqb_len_neq. exact E.
Qed.

Lemma concat_pieces_of (r : rope) : concat (pieces_of r) = flat r.
Proof. destruct r as [s|ps]; [apply app_nil_r|reflexivity]. Qed.

Theorem rope_hash_flat (r : rope) : concat (rope_hash_pieces r) = flat r.
Proof. apply concat_pieces_of. Qed.

(* ------------------------------------------------------------------ *)
(* R4: ends_with(char)                                                 *)
(* ------------------------------------------------------------------ *)
Lemma ends_with_last_piece (p c ch : text) :
  uv c -> c <> [] -> forallb is_cont (tl ch) = true ->
  ends_with_bytes c ch = ends_with_bytes (p ++ c) ch.
Proof.
  intros Hc Hne Hch. unfold ends_with_bytes. rewrite rev_app_distr.
  destruct (N.le_gt_cases (len ch) (len c)) as [Hl|Hl].
  - symmetry. apply is_prefix_app_le. rewrite !len_rev. exact Hl.
  - rewrite is_prefix_longer by (rewrite !len_rev; exact Hl).
    destruct (is_prefix (rev ch) (rev c ++ rev p)) eqn:E; [exfalso|reflexivity].
    apply is_prefix_comparable in E. destruct E as [E|E].
    + apply is_prefix_len in E. rewrite !len_rev in E. lia.
    + apply is_prefix_decomp in E.
      set (y := drop (len (rev c)) (rev ch)) in E.
      assert (Ech : ch = rev y ++ c).
      { rewrite <- (rev_involutive ch), E, rev_app_distr, rev_involutive. reflexivity. }
      assert (Hy : len (rev y) <> 0).
      { intros H0. apply len_0 in H0. rewrite H0 in Ech. cbn [app] in Ech. subst ch. lia. }
      destruct (rev y) as [|b y'] eqn:Ey; [rewrite len_nil in Hy; lia|].
      subst ch. cbn [app tl] in Hch. rewrite forallb_app in Hch.
      apply andb_prop in Hch. destruct Hch as [_ Hch].
      destruct c as [|x c]; [contradiction|].
      cbn [forallb] in Hch. apply andb_prop in Hch. destruct Hch as [Hx _].
      rewrite (uv_hd _ _ Hc) in Hx. discriminate.
Qed.

Lemma valid_last_piece (ps : list (text * N)) c s :
  rope_valid (Full (ps ++ [(c, s)])) = true -> uv c.
Proof.
  rewrite rope_valid_full, map_app, forallb_app. cbn [map fst forallb].
  intros H. apply andb_prop in H. destruct H as [_ H]. apply andb_prop in H.
  destruct H as [H _]. apply valid_uv. exact H.
Qed.

(* general form: ch is any byte string whose non-first bytes are continuation bytes *)
Theorem rope_ends_with_flat_gen (r : rope) (ch : text) :
  rope_wf r = true -> rope_valid r = true -> forallb is_cont (tl ch) = true ->
  rope_ends_with r ch = ends_with_bytes (flat r) ch.
Proof.
  intros Hwf Hv Hch. destruct r as [s|ps]; [reflexivity|].
  destruct (wf_full ps Hwf) as [Hne Hok].
  destruct (exists_last Hne) as [pre [[c s] ->]].
  cbn [rope_ends_with]. rewrite rev_app_distr. cbn [rev app].
  rewrite flat_full, cat_app. cbn [cat map fst concat]. rewrite app_nil_r.
  destruct (offsets_ok_mid _ _ _ _ _ Hok) as (_ & Hc & _ & _).
  apply ends_with_last_piece; [exact (valid_last_piece _ _ _ Hv)| |exact Hch].
  intros ->. vm_compute in Hc. discriminate.
Qed.

(* the stated form: ch is the UTF-8 encoding of one char *)
Theorem rope_ends_with_flat (r : rope) (c : N) :
  rope_wf r = true -> rope_valid r = true ->
  rope_ends_with r (utf8_encode_char c) = ends_with_bytes (flat r) (utf8_encode_char c).
Proof.
  intros Hwf Hv. apply rope_ends_with_flat_gen; [exact Hwf|exact Hv|apply utf8_encode_conts].
Qed.

(* the unconditional statement is false: the last piece may be shorter than ch *)
Lemma rope_ends_with_flat_counterexample :
  let r := Full [([97], 0); ([98], 1)] in
  rope_wf r = true /\ rope_ends_with r [97; 98] = false /\ ends_with_bytes (flat r) [97; 98] = true.
Proof. vm_compute. auto. Qed.

(* ------------------------------------------------------------------ *)
(* R5: starts_with                                                     *)
(* ------------------------------------------------------------------ *)
Lemma sw_light_full_spec (s : text) (chunks : list text) :
  sw_light_full s chunks = is_prefix (concat chunks) s.
Proof.
  revert s. induction chunks as [|c cs IH]; intros s; [reflexivity|].
  cbn [sw_light_full concat]. rewrite is_prefix_app, IH.
  destruct (is_prefix c s); reflexivity.
Qed.

Lemma sw_full_light_spec (chunks : list text) (o : text) :
  sw_full_light chunks o = is_prefix o (concat chunks).
Proof.
  revert o. induction chunks as [|c cs IH]; intros o.
  - cbn [sw_full_light concat]. symmetry. apply is_prefix_nil_r.
  - cbn [sw_full_light concat].
    destruct (is_nil o) eqn:En; [apply is_nil_true in En; subst o; reflexivity|].
    destruct (is_prefix o c) eqn:E1; [symmetry; apply is_prefix_app_r; exact E1|].
    destruct (is_prefix c o) eqn:E2.
    + rewrite IH. rewrite (is_prefix_decomp c o E2) at 2. rewrite is_prefix_app_same. reflexivity.
    + destruct (is_prefix o (c ++ concat cs)) eqn:E3; [|reflexivity].
      apply is_prefix_comparable in E3. destruct E3 as [E3|E3]; congruence.
Qed.

Lemma forallb_nonnil_cons (c : text) (cs : list text) :
  forallb nonnil (c :: cs) = true -> 0 < len c /\ forallb nonnil cs = true.
Proof.
  cbn [forallb]. intros H. apply andb_prop in H. destruct H as [H1 H2].
  unfold nonnil in H1. apply negb_true_iff in H1. apply is_nil_false in H1. auto.
Qed.

Lemma sw_full_full_spec (fuel : nat) :
  forall (self_it other_it : list text) (rs ro : text),
  forallb nonnil other_it = true ->
  (length rs + length (concat self_it) + length self_it
   + length ro + length (concat other_it) + length other_it < fuel)%nat ->
  sw_full_full fuel self_it other_it rs ro = is_prefix (ro ++ concat other_it) (rs ++ concat self_it).
Proof.
  induction fuel as [|f IH]; intros self_it other_it rs ro Hnn Hfuel; [lia|].
  cbn [sw_full_full].
  (* the "other" cursor *)
  assert (Hother :
    (is_nil ro = true /\ other_it = [] /\ ro = []) \/
    exists ro1 other_it1,
      (if is_nil ro then match other_it with [] => None | c :: cs => Some (c, cs) end
       else Some (ro, other_it)) = Some (ro1, other_it1) /\
      ro ++ concat other_it = ro1 ++ concat other_it1 /\ 0 < len ro1 /\
      forallb nonnil other_it1 = true /\
      (length ro1 + length (concat other_it1) + length other_it1
       <= length ro + length (concat other_it) + length other_it)%nat /\
      (is_nil ro = true ->
       (length ro1 + length (concat other_it1) + length other_it1
        < length ro + length (concat other_it) + length other_it)%nat)).
  { destruct (is_nil ro) eqn:Ero.
    - apply is_nil_true in Ero. subst ro. destruct other_it as [|c cs].
      + left. auto.
      + right. exists c, cs. destruct (forallb_nonnil_cons _ _ Hnn) as [Hc Hcs].
        cbn [concat app length]. rewrite app_length. repeat split; auto; lia.
    - right. exists ro, other_it. apply is_nil_false in Ero.
      repeat split; auto; try lia; discriminate. }
  destruct Hother as [(Ero & -> & ->)|(ro1 & other_it1 & -> & Eo & Hro1 & Hnn1 & Hle & Hlt)].
  { cbn [is_nil]. reflexivity. }
  rewrite Eo.
  destruct (is_nil rs) eqn:Ers.
  - apply is_nil_true in Ers. subst rs. destruct self_it as [|c cs].
    + cbn [concat app]. symmetry. apply is_prefix_longer. rewrite len_nil, len_app. lia.
    + set (m := N.min (len c) (len ro1)).
      assert (Hm1 : m <= len c) by (unfold m; lia).
      assert (Hm2 : m <= len ro1) by (unfold m; lia).
      cbn [concat app length] in *.
      rewrite (is_prefix_split m (ro1 ++ concat other_it1) (c ++ concat cs))
        by (rewrite len_app; lia).
      rewrite !take_app_l, !drop_app_l by lia.
      destruct (text_eqb (take m c) (take m ro1)) eqn:Et; cbn [negb andb]; [|reflexivity].
      apply IH; [exact Hnn1|].
      assert (L1 : length (drop m c) = (length c - N.to_nat m)%nat)
        by (unfold drop; apply skipn_length).
      assert (L2 : length (drop m ro1) = (length ro1 - N.to_nat m)%nat)
        by (unfold drop; apply skipn_length).
      rewrite app_length in Hfuel. lia.
  - set (m := N.min (len rs) (len ro1)).
    assert (Hm1 : m <= len rs) by (unfold m; lia).
    assert (Hm2 : m <= len ro1) by (unfold m; lia).
    rewrite (is_prefix_split m (ro1 ++ concat other_it1) (rs ++ concat self_it))
      by (rewrite len_app; lia).
    rewrite !take_app_l, !drop_app_l by lia.
    destruct (text_eqb (take m rs) (take m ro1)) eqn:Et; cbn [negb andb]; [|reflexivity].
    apply IH; [exact Hnn1|].
    assert (L1 : length (drop m rs) = (length rs - N.to_nat m)%nat)
      by (unfold drop; apply skipn_length).
    assert (L2 : length (drop m ro1) = (length ro1 - N.to_nat m)%nat)
      by (unfold drop; apply skipn_length).
    apply is_nil_false in Ers.
    assert (Hm0 : 0 < m) by (unfold m; lia).
    unfold len in Ers, Hro1, Hm1, Hm2.
    destruct (is_nil ro) eqn:Ero.
    + specialize (Hlt eq_refl). lia.
    + lia.
Qed.

Theorem rope_starts_with_flat (r v : rope) :
  rope_wf r = true -> rope_wf v = true ->
  rope_starts_with r v = is_prefix (flat v) (flat r).
Proof.
  intros Hr Hv. destruct r as [s|ps], v as [o|qs]; cbn [rope_starts_with flat].
  - reflexivity.
  - apply sw_light_full_spec.
  - apply sw_full_light_spec.
  - destruct (wf_full qs Hv) as [_ Hok].
    rewrite sw_full_full_spec.
    + reflexivity.
    + exact (offsets_ok_nonnil _ _ Hok).
    + unfold total_pieces_len. cbn [length]. lia.
Qed.

(* ------------------------------------------------------------------ *)
(* R6: equality never panics and decides flat equality                 *)
(* ------------------------------------------------------------------ *)
Lemma eq_walk_spec (fuel : nat) :
  forall (cs os : list text) (remaining : N),
  len (concat cs) = remaining -> len (concat os) = remaining ->
  (length cs + length os < fuel)%nat ->
  eq_walk fuel cs os remaining = Some (text_eqb (concat cs) (concat os)).
Proof.
  induction fuel as [|f IH]; intros cs os remaining Hc Ho Hfuel; [lia|].
  cbn [eq_walk]. destruct (remaining =? 0) eqn:E0.
  - apply N.eqb_eq in E0. subst remaining. rewrite E0 in Ho.
    apply len_0 in E0. apply len_0 in Ho. rewrite E0, Ho. reflexivity.
  - apply N.eqb_neq in E0.
    destruct cs as [|c cs]; [cbn [concat] in Hc; rewrite len_nil in Hc; lia|].
    destruct os as [|o os]; [cbn [concat] in Ho; rewrite len_nil in Ho; lia|].
    cbn [concat length] in *. rewrite len_app in Hc, Ho.
    destruct (len c <? len o) eqn:E1; [|destruct (len c =? len o) eqn:E2].
    + apply N.ltb_lt in E1.
      assert (Esplit : o ++ concat os = take (len c) o ++ (drop (len c) o ++ concat os))
        by (rewrite app_assoc, take_drop; reflexivity).
      rewrite Esplit. rewrite text_eqb_app by (rewrite len_take; lia).
      rewrite (text_eqb_sym c).
      destruct (text_eqb (take (len c) o) c); cbn [negb andb]; [|reflexivity].
      rewrite IH; [reflexivity| | |cbn [length]; lia].
      * lia.
      * cbn [concat]. rewrite len_app, len_drop. lia.
    + apply N.eqb_eq in E2. rewrite text_eqb_app by exact E2.
      destruct (text_eqb c o); cbn [negb andb]; [|reflexivity].
      rewrite IH; [reflexivity| | |lia]; lia.
    + apply N.ltb_ge in E1. apply N.eqb_neq in E2.
      assert (Esplit : c ++ concat cs = take (len o) c ++ (drop (len o) c ++ concat cs))
        by (rewrite app_assoc, take_drop; reflexivity).
      rewrite Esplit. rewrite text_eqb_app by (rewrite len_take; lia).
      destruct (text_eqb (take (len o) c) o); cbn [negb andb]; [|reflexivity].
      rewrite IH; [reflexivity| | |cbn [length]; lia].
      * cbn [concat]. rewrite len_app, len_drop. lia.
      * lia.
Qed.

Theorem rope_eq_flat (a b : rope) :
  rope_wf a = true -> rope_wf b = true ->
  rope_eq a b = Some (text_eqb (flat a) (flat b)).
Proof.
  intros Ha Hb. unfold rope_eq. rewrite (rope_len_flat a Ha), (rope_len_flat b Hb).
  destruct (len (flat a) =? len (flat b)) eqn:E; cbn [negb].
  - apply N.eqb_eq in E.
    assert (W : eq_walk (S (total_pieces_len (pieces_of a) + total_pieces_len (pieces_of b)))
                  (pieces_of a) (pieces_of b) (len (flat a))
                = Some (text_eqb (flat a) (flat b))).
    { rewrite eq_walk_spec.
      - rewrite !concat_pieces_of. reflexivity.
      - rewrite concat_pieces_of. reflexivity.
      - rewrite concat_pieces_of. symmetry. exact E.
      - unfold total_pieces_len. lia. }
    destruct a as [s|ps], b as [o|qs]; [reflexivity|exact W|exact W|exact W].
  - apply N.eqb_neq in E. rewrite text_eqb_len_neq by exact E. reflexivity.
Qed.

(* ------------------------------------------------------------------ *)
(* R8: char_indices                                                    *)
(* ------------------------------------------------------------------ *)
Lemma ci_full_spec (ps : list (text * N)) (start : N) :
  offsets_ok ps start = true -> forallb valid_utf8 (map fst ps) = true ->
  ci_full ps = char_indices_from (cat ps) start.
Proof.
  revert start. induction ps as [|[c s] ps IH]; intros start Hok Hv; [reflexivity|].
  destruct (offsets_ok_cons _ _ _ _ Hok) as (-> & _ & Hps).
  cbn [map fst forallb] in Hv. apply andb_prop in Hv. destruct Hv as [Hc Hv].
  apply valid_uv in Hc.
  cbn [ci_full]. rewrite cat_cons, (char_indices_from_app c _ start Hc).
  rewrite (IH _ Hps Hv). f_equal.
  unfold char_indices. rewrite <- char_indices_from_shift. rewrite N.add_0_r. reflexivity.
Qed.

Theorem rope_char_indices_flat (r : rope) :
  rope_wf r = true -> rope_valid r = true -> rope_char_indices r = char_indices (flat r).
Proof.
  intros Hwf Hv. destruct r as [s|ps]; [reflexivity|].
  destruct (wf_full ps Hwf) as [_ Hok].
  exact (ci_full_spec ps 0 Hok Hv).
Qed.

Print Assumptions rope_get_byte_flat.
Print Assumptions rope_eq_str_flat.
Print Assumptions rope_hash_flat.
Print Assumptions rope_ends_with_flat_gen.
Print Assumptions rope_ends_with_flat.
Print Assumptions rope_starts_with_flat.
Print Assumptions rope_eq_flat.
Print Assumptions rope_char_indices_flat.
