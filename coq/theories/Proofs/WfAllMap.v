(* C11, map part, step 2 (W1): the map returned by get_map for a tree of the class rshape / treeA /
   rsmall, in the encoder's domain (every field of the streamed segments below 2^30), passes
   every clause of `map_wf`: decoded segments strictly increasing in (line, column), each on a
   line >= 1, on a position of source() and strictly before the end position, every source /
   name index inside the returned tables, mappings string over the base64 alphabet plus , ;
   Both column settings, any store. *)
From RS Require Import Base.Prelude Base.Text Rope.RopeModel Codec.Vlq Codec.CodecSpec
  Checkers.ChkCodec Stream.Types Stream.Leaves Stream.Concat Stream.Replace Stream.Combined Stream.Tree
  Sem.Attr Checkers.ChkTree
  Proofs.CodecKept Proofs.CodecMain Proofs.StreamText Proofs.StreamLeaves Proofs.StreamMap Proofs.StreamConcat
  Proofs.StreamTree Proofs.WfStream Proofs.WfFinal Proofs.WfMap Proofs.RStreamText Proofs.RStreamPos
  Proofs.RStreamTree Proofs.AttrCodec Proofs.AttrSms Proofs.AttrLeaves Proofs.LawConcatAttr Proofs.LawWrappers
  Proofs.CacheReplay Proofs.FinalDense Proofs.FinalReplace Proofs.FinalConcat Proofs.FinalTree
  Proofs.LinesBase Proofs.LinesConcat Proofs.LinesTree Proofs.WfAllStrict.
Require Import Lia List.

Local Open Scope N_scope.

(* what map_wf asks of one decoded segment, apart from the tables *)
Definition seg_inside (t : text) (mp : mapping) : Prop :=
  1 <= g_line mp /\ is_position t (g_line mp) (g_col mp) = true /\
  pos_ltb (g_line mp, g_col mp) (advance 1 0 t) = true.

Lemma plt_pos_ltb a b : plt a b -> pos_ltb a b = true.
Proof.
  unfold plt, pos_ltb. intros [H|[H1 H2]].
  - apply orb_true_iff. left. apply N.ltb_lt. exact H.
  - apply orb_true_iff. right. apply andb_true_iff. split; [apply N.eqb_eq; exact H1|apply N.ltb_lt; exact H2].
Qed.

(* ------------------------------------------------------------------ *)
(* strict order as the checker states it                                *)
(* ------------------------------------------------------------------ *)
Lemma plt_pos_lt a b : plt (mpos a) (mpos b) -> pos_lt a b = true.
Proof.
  unfold pos_lt, plt, mpos. cbn [fst snd].
  rewrite orb_true_iff, andb_true_iff, N.ltb_lt, N.eqb_eq, N.ltb_lt. intros H. exact H.
Qed.

Lemma sstrict_sorted_lt : forall ms, sstrict (map mpos ms) -> sorted_by pos_lt ms = true.
Proof.
  induction ms as [|a ms IH]; [reflexivity|]. intros [H1 H2]. destruct ms as [|b ms']; [reflexivity|].
  change (pos_lt a b && sorted_by pos_lt (b :: ms') = true). apply andb_true_iff. split; [|apply IH; exact H2].
  cbn [map] in H1. inversion H1; subst. apply plt_pos_lt. assumption.
Qed.

Lemma sstrict_kept : forall ms act, sstrict (map mpos ms) -> sstrict (map mpos (kept_from act ms)).
Proof.
  induction ms as [|m ms IH]; intros act H; [exact I|].
  destruct H as [Hm Hs]. rewrite kept_from_cons. destruct (redundant act m).
  - apply IH. exact Hs.
  - cbn [map sstrict]. split; [|apply IH; exact Hs]. rewrite Forall_map in *. apply kept_from_Forall. exact Hm.
Qed.

(* ------------------------------------------------------------------ *)
(* columns = false: the first mapped segment of each line                *)
(* ------------------------------------------------------------------ *)
Lemma line_firsts_from_strict : forall ms last, ssorted ms -> Forall (fun m => last <= g_line m) ms ->
  sstrict (map mpos (line_firsts_from last ms)) /\
  Forall (fun x => last < g_line x) (line_firsts_from last ms).
Proof.
  induction ms as [|m ms IH]; intros last Hs Hl; [split; [exact I|constructor]|].
  destruct Hs as [Hm Hs]. inversion Hl as [|? ? Hl1 Hl2]; subst. cbn [line_firsts_from].
  destruct (m_orig m) as [o|]; [|apply IH; assumption].
  destruct (last =? g_line m) eqn:E; [apply IH; assumption|].
  apply N.eqb_neq in E.
  assert (Hge : Forall (fun x => g_line m <= g_line x) ms).
  { eapply Forall_impl; [|exact Hm]. cbn beta. intros x Hx. apply pos_le_iff in Hx. lia. }
  destruct (IH (g_line m) Hs Hge) as [I1 I2]. cbn [map sstrict]. split.
  - split; [|exact I1]. rewrite Forall_map. eapply Forall_impl; [|exact I2]. cbn beta.
    intros x Hx. unfold plt, mpos. cbn [fst snd g_line g_col]. left. exact Hx.
  - constructor; [cbn [g_line]; lia|]. eapply Forall_impl; [|exact I2]. cbn beta. intros x Hx. lia.
Qed.

Lemma is_position_col0 t l c : is_position t l c = true -> is_position t l 0 = true.
Proof.
  unfold is_position. destruct (l =? 0); [intros H; exact H|].
  destruct (nth_opt (line_contents t) (l - 1)); [|intros H; exact H]. intros _. apply N.leb_le. lia.
Qed.

Lemma line_firsts_from_inside t : forall ms last,
  Forall (fun m => is_mapped m = true -> seg_inside t m) ms ->
  Forall (seg_inside t) (line_firsts_from last ms).
Proof.
  induction ms as [|m ms IH]; intros last H; [constructor|]. inversion H as [|? ? H1 H2]; subst.
  cbn [line_firsts_from]. unfold is_mapped in H1.
  destruct (m_orig m) as [o|]; [|apply IH; exact H2].
  destruct (last =? g_line m); [apply IH; exact H2|]. constructor; [|apply IH; exact H2].
  destruct (H1 eq_refl) as [A [B C]]. unfold seg_inside. cbn [g_line g_col].
  split; [exact A|]. split; [apply (is_position_col0 t _ _ B)|].
  unfold pos_ltb in *. cbn [fst snd] in *. apply orb_true_iff in C. apply orb_true_iff.
  destruct C as [C|C]; [left; exact C|right]. apply andb_true_iff in C. destruct C as [C1 C2].
  apply andb_true_iff. split; [exact C1|]. apply N.ltb_lt in C2. apply N.ltb_lt. lia.
Qed.

(* ------------------------------------------------------------------ *)
(* the streamed segments                                                *)
(* ------------------------------------------------------------------ *)
Lemma positions_cm t evs : positions_of_text t (chunks_of evs) = true ->
  Forall (fun m => is_position t (g_line m) (g_col m) = true) (chunk_mappings evs).
Proof.
  unfold positions_of_text. rewrite forallb_forall. intros H. rewrite chunk_mappings_chunks_of, Forall_map.
  apply Forall_forall. intros x Hx. apply H. exact Hx.
Qed.

(* columns = true *)
Lemma cols_stream_inside st s : rshape s = true -> treeA s = true -> rsmall s = true ->
  let ms := chunk_mappings (fst (fst (stream st s (mkOpts true true)))) in
  sstrict (map mpos ms) /\ Forall (seg_inside (source s)) ms.
Proof.
  intros H1 H2 H3. cbn zeta.
  destruct (strict_tree st s H1 H2 H3) as [A B]. cbn zeta in A, B.
  destruct (final_stream_facts st s H1 H2 H3) as [_ [P _]]. cbn zeta in P. apply positions_cm in P.
  split; [exact A|]. apply Forall_forall. intros m Hm. rewrite Forall_forall in B, P.
  destruct (B m Hm) as [B1 B2]. split; [exact B1|]. split; [apply (P m Hm)|].
  apply plt_pos_ltb in B2. exact B2.
Qed.

(* columns = false *)
Lemma lines_stream_inside st s : rshape s = true -> treeA s = true -> rsmall s = true ->
  let ms := chunk_mappings (fst (fst (stream st s (mkOpts false true)))) in
  ssorted ms /\ Forall (fun m => 1 <= g_line m) ms /\
  Forall (fun m => is_mapped m = true -> seg_inside (source s) m) ms.
Proof.
  intros H1 H2 H3. cbn zeta.
  destruct (final_stream_facts_lines st s H1 H2 H3) as [D [P [E [So [_ Sb]]]]]. cbn zeta in *.
  apply positions_cm in P. rewrite (fsegs_dense _ D), Forall_map in Sb.
  split; [apply sorted_ssorted; exact So|]. split.
  - eapply Forall_impl; [|exact P]. cbn beta. intros m Hm. apply is_position_ple in Hm. apply Hm.
  - apply Forall_forall. intros m Hm Hmp. rewrite Forall_forall in P, Sb.
    specialize (Sb m Hm). unfold seg_before in Sb. cbn [rsF fst snd] in Sb.
    assert (Ha : amap (optF (kfile (fst (fst (stream st s (mkOpts false true)))))
                             (kname (fst (fst (stream st s (mkOpts false true))))) (m_orig m)) = true).
    { unfold is_mapped in Hmp. destruct (m_orig m); [reflexivity|discriminate]. }
    destruct (Sb Ha) as [S1 S2]. rewrite E in S2. split; [exact S1|]. split; [apply (P m Hm)|].
    apply plt_pos_ltb. exact S2.
Qed.

(* ------------------------------------------------------------------ *)
(* W1                                                                  *)
(* ------------------------------------------------------------------ *)
Lemma rshape_wf s : RStreamTree.rshape s = true -> WfStream.rshape s = true.
Proof. intros H. rewrite rshape_eq. exact H. Qed.

Theorem get_map_wf (st st' : store) (s : src) (cols : bool) (m : smap) :
  rshape s = true -> treeA s = true -> rsmall s = true ->
  forallb mapping_small (chunk_mappings (fst (fst (stream st s (mkOpts cols true))))) = true ->
  get_map st s cols = (Some m, st') ->
  sorted_by pos_lt (decode_mappings (sm_mappings m)) = true /\
  Forall (seg_inside (source s)) (decode_mappings (sm_mappings m)) /\
  tables_clause m = true /\ alphabet_clause m = true.
Proof.
  intros H1 H2 H3 Hsm Hg.
  assert (Hd : enc_domain (chunk_mappings (fst (fst (stream st s (mkOpts cols true))))) = true).
  { destruct cols; [apply final_enc_domain|apply final_enc_domain_lines]; assumption. }
  destruct (get_map_tables_partial s st st' cols m (rshape_wf s H1) H2 Hd Hg) as [T [A _]].
  rewrite get_map_eq in Hg. pose proof (f_equal fst Hg) as Hm. cbn [fst] in Hm.
  rewrite (map_of_events_mappings _ _ _ Hm), (enc_domain_roundtrip cols _ Hd).
  split; [|split; [|split; [exact T|exact A]]]; destruct cols.
  - destruct (cols_stream_inside st s H1 H2 H3) as [S _]. cbn zeta in S.
    apply sstrict_sorted_lt. apply sstrict_kept. exact S.
  - destruct (lines_stream_inside st s H1 H2 H3) as [S [L _]]. cbn zeta in S, L.
    apply sstrict_sorted_lt. apply line_firsts_from_strict; [exact S|].
    eapply Forall_impl; [|exact L]. cbn beta. intros x Hx. lia.
  - destruct (cols_stream_inside st s H1 H2 H3) as [_ I0]. cbn zeta in I0.
    apply kept_from_Forall. exact I0.
  - destruct (lines_stream_inside st s H1 H2 H3) as [_ [_ I0]]. cbn zeta in I0.
    apply line_firsts_from_inside. exact I0.
Qed.

(* the checker's clause *)
Lemma map_wf_intro t m :
  sorted_by pos_lt (decode_mappings (sm_mappings m)) = true ->
  Forall (seg_inside t) (decode_mappings (sm_mappings m)) ->
  tables_clause m = true -> alphabet_clause m = true ->
  map_wf t (Some m) = true.
Proof.
  intros S I0 T A. unfold map_wf. rewrite S. cbn [andb]. fold (alphabet_clause m). rewrite A, andb_true_r.
  apply forallb_forall. intros mp Hmp. rewrite Forall_forall in I0. destruct (I0 mp Hmp) as [L [_ B]].
  unfold tables_clause in T. rewrite forallb_forall in T. specialize (T mp Hmp).
  rewrite B, T. replace (1 <=? g_line mp) with true by (symmetry; apply N.leb_le; exact L). reflexivity.
Qed.

Theorem get_map_map_wf (st st' : store) (s : src) (cols : bool) (om : option smap) :
  rshape s = true -> treeA s = true -> rsmall s = true ->
  forallb mapping_small (chunk_mappings (fst (fst (stream st s (mkOpts cols true))))) = true ->
  get_map st s cols = (om, st') -> map_wf (source s) om = true.
Proof.
  intros H1 H2 H3 Hsm Hg. destruct om as [m|]; [|reflexivity].
  destruct (get_map_wf st st' s cols m H1 H2 H3 Hsm Hg) as [A [B [C D]]].
  apply map_wf_intro; assumption.
Qed.

Print Assumptions get_map_wf.
Print Assumptions get_map_map_wf.
