(* Input-side size bounds, part 2 (B3, original lines and columns): every original line and
   column of every segment streamed by a tree of the class stays below the bound of `tiny`.
   They come from the leaf maps (bounded by (iii)), from OriginalSource tokens (positions of the
   leaf's text, bounded by (i)), or from ReplaceSource's column re-basing, which only moves a
   column when the announced original content has the re-based piece at that place, so the
   result is a column of a line of an announced content (bounded by (i) for OriginalSource and
   by (iv) for SourceMapSource).  The invariant is per event, so it passes through ConcatSource
   and ReplaceSource without any positional reasoning. *)
From RS Require Import Base.Prelude Base.Text Rope.RopeModel Codec.Vlq Codec.CodecSpec
  Checkers.ChkCodec Stream.Types Stream.Leaves Stream.Concat Stream.Replace Stream.Combined Stream.Tree
  Sem.Attr Checkers.ChkTree
  Proofs.RopeWf Proofs.RopeOps Proofs.CodecKept Proofs.StreamText Proofs.StreamLeaves Proofs.StreamMap Proofs.StreamConcat Proofs.StreamTree
  Proofs.WfStream Proofs.WfFinal Proofs.RStreamText Proofs.RStreamPos Proofs.RStreamTree
  Proofs.AttrCodec Proofs.AttrSms Proofs.AttrLeaves Proofs.LawConcatAttr Proofs.LawWrappers
  Proofs.CacheReplay Proofs.FinalDense Proofs.FinalReplace Proofs.FinalConcat Proofs.FinalTree
  Proofs.ReplAttrStream Proofs.ReplAttrOrigin Proofs.ReplAttrSms Proofs.ReplAttrTree
  Proofs.LinesBase Proofs.LinesSelf Proofs.LinesConcat Proofs.LinesTree Proofs.BoundsPos.
Require Import Lia List ZArith.

Local Open Scope N_scope.

(* ------------------------------------------------------------------ *)
(* the per-event bound                                                 *)
(* ------------------------------------------------------------------ *)
Definition ob (D : N) (mo : option orig) : Prop :=
  match mo with Some o => o_line o <= D /\ o_col o <= D | None => True end.

(* chunks: original line and column; source announcements: length of the content *)
Definition evb (D : N) (e : event) : Prop :=
  match e with
  | EChunk _ m => ob D (m_orig m)
  | ESource _ _ (Some c) => len c <= D
  | _ => True
  end.

(* a chunk with bounded original position *)
Definition chb (D : N) (e : event) : Prop :=
  match e with EChunk _ m => ob D (m_orig m) | _ => False end.

Lemma chb_evb D e : chb D e -> evb D e.
Proof. destruct e; cbn [chb evb]; tauto. Qed.

Lemma chbs_evb D evs : Forall (chb D) evs -> Forall (evb D) evs.
Proof. intros H. eapply Forall_impl; [|exact H]. apply chb_evb. Qed.

(* ------------------------------------------------------------------ *)
(* raw leaves                                                          *)
(* ------------------------------------------------------------------ *)
Lemma raw_chunks_b D ls : forall line, Forall (chb D) (raw_chunks ls line).
Proof. induction ls as [|l ls IH]; intros line; cbn [raw_chunks]; constructor; [exact I|apply IH]. Qed.

Lemma raw_stream_b D t f : Forall (evb D) (fst (raw_stream t f)).
Proof. unfold raw_stream. destruct f; cbn [fst]; [constructor|]. apply chbs_evb. apply raw_chunks_b. Qed.

(* ------------------------------------------------------------------ *)
(* SourceMapSource without inner map                                   *)
(* ------------------------------------------------------------------ *)
Definition segb (D : N) (mp : mapping) : Prop := ob D (m_orig mp).

Lemma sm_final_loop_b D rl rc ms : Forall (segb D) ms ->
  forall active, Forall (chb D) (sm_final_loop ms rl rc active).
Proof.
  induction 1 as [|m ms Hm _ IH]; intros active; [constructor|]. cbn [sm_final_loop].
  destruct ((rl <=? g_line m) && ((rc <=? g_col m) || (rl <? g_line m))); [apply IH|].
  unfold segb in Hm. destruct (m_orig m) as [o|] eqn:E.
  - constructor; [|apply IH]. cbn [chb]. rewrite E. exact Hm.
  - destruct (active =? g_line m); [constructor; [exact I|]|]; apply IH.
Qed.

Lemma whole_lines_b D ls : forall i cur target, Forall (chb D) (whole_lines ls i cur target).
Proof.
  induction ls as [|l ls IH]; intros i cur target; cbn [whole_lines]; [constructor|].
  destruct ((cur <=? i) && (i <? target)); [constructor; [exact I|]|]; apply IH.
Qed.

Lemma sm_full_step_b D ls fl fc st m :
  ob D (f_orig st) -> ob D (m_orig m) ->
  ob D (f_orig (fst (sm_full_step ls fl fc st m))) /\
  Forall (chb D) (snd (sm_full_step ls fl fc st m)).
Proof.
  intros Hst Hm. rewrite sm_full_step_eq.
  destruct (step_guard st m); [split; [exact Hst|constructor]|].
  assert (P1 : ob D (f_orig (fst (ph1 ls st m))) /\ Forall (chb D) (snd (ph1 ls st m))).
  { unfold ph1. destruct (f_active st && (f_line st <=? len ls)); [|split; [exact Hst|constructor]].
    destruct (line_at ls (f_line st)) as [line|]; [|split; [exact Hst|constructor]].
    destruct (negb (g_line m =? f_line st)); cbn [fst snd f_orig]; (split; [exact Hst|]);
      match goal with |- context [is_nil ?x] => destruct (is_nil x) end;
      repeat constructor; exact Hst. }
  destruct (ph1 ls st m) as [st1 ev1]. cbn [fst snd] in P1. destruct P1 as [H1 E1].
  assert (P2 : ob D (f_orig (fst (ph2 ls st1 m))) /\ Forall (chb D) (snd (ph2 ls st1 m))).
  { unfold ph2. destruct ((f_line st1 <? g_line m) && (0 <? f_col st1)); [|split; [exact H1|constructor]].
    cbn [fst snd f_orig]. split; [exact H1|]. destruct (f_line st1 <=? len ls); [|constructor].
    destruct (line_at ls (f_line st1)); [|constructor]. cbv zeta.
    match goal with |- context [is_nil ?x] => destruct (is_nil x) end; repeat constructor. }
  destruct (ph2 ls st1 m) as [st2 ev2]. cbn [fst snd] in P2. destruct P2 as [H2 E2].
  assert (P3 : ob D (f_orig (fst (ph3 ls st2 m))) /\ Forall (chb D) (snd (ph3 ls st2 m))).
  { unfold ph3. destruct (f_line st2 <? g_line m); [|split; [exact H2|constructor]].
    cbn [fst snd f_orig]. split; [exact H2|apply whole_lines_b]. }
  destruct (ph3 ls st2 m) as [st3 ev3]. cbn [fst snd] in P3. destruct P3 as [H3 E3].
  assert (P4 : ob D (f_orig (fst (ph4 ls st3 m))) /\ Forall (chb D) (snd (ph4 ls st3 m))).
  { unfold ph4. destruct (f_col st3 <? g_col m); [|split; [exact H3|constructor]].
    cbn [fst snd f_orig]. split; [exact H3|]. destruct (f_line st3 <=? len ls); [|constructor].
    destruct (line_at ls (f_line st3)); [|constructor]. cbv zeta.
    match goal with |- context [is_nil ?x] => destruct (is_nil x) end; repeat constructor. }
  destruct (ph4 ls st3 m) as [st4 ev4]. cbn [fst snd] in P4. destruct P4 as [H4 E4].
  cbn [fst snd]. split.
  - unfold ph5. destruct (m_orig m) as [o|]; [|exact H4].
    destruct ((g_line m <? fl) || ((g_line m =? fl) && (g_col m <? fc))); [exact Hm|exact H4].
  - repeat (apply Forall_app; split); assumption.
Qed.

Lemma sm_full_loop_b D ls fl fc ms : Forall (segb D) ms -> forall st,
  ob D (f_orig st) ->
  ob D (f_orig (fst (sm_full_loop ls fl fc st ms))) /\
  Forall (chb D) (snd (sm_full_loop ls fl fc st ms)).
Proof.
  induction 1 as [|m ms Hm _ IH]; intros st Hst; [split; [exact Hst|constructor]|].
  cbn [sm_full_loop]. pose proof (sm_full_step_b D ls fl fc st m Hst Hm) as [A B].
  destruct (sm_full_step ls fl fc st m) as [st1 e1]. cbn [fst snd] in A, B.
  pose proof (IH st1 A) as [C E]. destruct (sm_full_loop ls fl fc st1 ms) as [st2 e2].
  cbn [fst snd] in *. split; [exact C|apply Forall_app; split; assumption].
Qed.

Lemma strip_b D o : ob D (Some o) -> ob D (Some (strip_name o)).
Proof. cbn. tauto. Qed.

Lemma sm_lines_final_loop_b D fin ms : Forall (segb D) ms ->
  forall cur, Forall (chb D) (sm_lines_final_loop ms cur fin).
Proof.
  induction 1 as [|m ms Hm _ IH]; intros cur; [constructor|]. cbn [sm_lines_final_loop].
  unfold segb in Hm. destruct (m_orig m) as [o|]; [|apply IH].
  destruct ((cur <=? g_line m) && (g_line m <=? fin)); [|apply IH].
  constructor; [|apply IH]. cbn [chb m_orig]. apply strip_b. exact Hm.
Qed.

Lemma sm_lines_full_loop_b D ls ms : Forall (segb D) ms ->
  forall cur, Forall (chb D) (snd (sm_lines_full_loop ls ms cur)).
Proof.
  induction 1 as [|m ms Hm _ IH]; intros cur; [constructor|]. cbn [sm_lines_full_loop].
  unfold segb in Hm. destruct (m_orig m) as [o|]; [|apply IH].
  destruct ((g_line m <? cur) || (len ls <? g_line m)); [apply IH|].
  specialize (IH (g_line m + 1)). destruct (sm_lines_full_loop ls ms (g_line m + 1)) as [cur' evs].
  cbn [snd] in *. apply Forall_app. split; [apply whole_lines_b|]. apply Forall_app. split; [|exact IH].
  destruct (line_at ls (g_line m)); constructor; [|constructor].
  cbn [chb m_orig]. apply strip_b. exact Hm.
Qed.

Lemma announce_sources_b D m : (forall c, In c (sm_contents m) -> len c <= D) ->
  forall srcs i, Forall (evb D) (announce_sources m srcs i).
Proof.
  intros Hc. induction srcs as [|s srcs IH]; intros i; cbn [announce_sources]; constructor; [|apply IH].
  cbn [evb]. destruct (nth_opt (sm_contents m) i) as [c|] eqn:E; [|exact I].
  apply Hc. unfold nth_opt in E. apply nth_error_In in E. exact E.
Qed.

Lemma announce_names_b D names : forall i, Forall (evb D) (announce_names names i).
Proof. induction names as [|n names IH]; intros i; cbn [announce_names]; constructor; [exact I|apply IH]. Qed.

Lemma sm_stream_b D t m o :
  Forall (segb D) (decode_mappings (sm_mappings m)) ->
  (forall c, In c (sm_contents m) -> len c <= D) ->
  Forall (evb D) (fst (sm_stream t m o)).
Proof.
  intros Hs Hc. unfold sm_stream. destruct (columns o), (final_source o).
  - unfold sm_stream_final. destruct (gen_info t) as [rl rc].
    destruct ((rl =? 1) && (rc =? 0)); cbn [fst]; [constructor|].
    apply Forall_app. split; [apply announce_sources_b; exact Hc|].
    apply Forall_app. split; [apply announce_names_b|]. apply chbs_evb. apply sm_final_loop_b. exact Hs.
  - unfold sm_stream_full. destruct (is_nil (split_lines t)); [constructor|].
    destruct (lines_end_info (split_lines t)) as [fl fc].
    pose proof (sm_full_loop_b D (split_lines t) fl fc _ Hs (mkF 1 0 false None) I) as [A B].
    destruct (sm_full_loop (split_lines t) fl fc (mkF 1 0 false None) (decode_mappings (sm_mappings m)))
      as [st evs]. cbn [fst snd] in A, B.
    pose proof (sm_full_step_b D (split_lines t) fl fc st (unmapped fl fc) A I) as [_ E].
    destruct (sm_full_step (split_lines t) fl fc st (unmapped fl fc)) as [st' evs']. cbn [fst snd] in *.
    apply Forall_app. split; [apply announce_sources_b; exact Hc|].
    apply Forall_app. split; [apply announce_names_b|]. apply chbs_evb. apply Forall_app. split; assumption.
  - unfold sm_stream_lines_final. destruct (gen_info t) as [rl rc].
    destruct ((rl =? 1) && (rc =? 0)); cbn [fst]; [constructor|].
    apply Forall_app. split; [apply announce_sources_b; exact Hc|].
    apply chbs_evb. apply sm_lines_final_loop_b. exact Hs.
  - unfold sm_stream_lines_full. destruct (is_nil (split_lines t)); [constructor|].
    pose proof (sm_lines_full_loop_b D (split_lines t) _ Hs 1) as A.
    destruct (sm_lines_full_loop (split_lines t) (decode_mappings (sm_mappings m)) 1) as [cur evs].
    cbn [fst snd] in *. apply Forall_app. split; [apply announce_sources_b; exact Hc|].
    apply chbs_evb. apply Forall_app. split; [exact A|apply whole_lines_b].
Qed.

(* what `map_tiny` gives *)
Lemma map_tiny_segb m : map_tiny m = true ->
  Forall (segb KB) (decode_mappings (sm_mappings m)) /\
  (forall c, In c (sm_contents m) -> len c <= KB).
Proof.
  unfold map_tiny. intros H. apply andb_true_iff in H. destruct H as [H1 H2].
  rewrite forallb_forall in H1, H2. split.
  - apply Forall_forall. intros mp Hmp. specialize (H1 mp Hmp). unfold segb.
    destruct (m_orig mp) as [o|]; [|exact I]. unfold orig_tiny in H1. cbn [ob].
    apply andb_true_iff in H1. destruct H1 as [H1 _]. apply andb_true_iff in H1. destruct H1 as [H1 Hc].
    apply andb_true_iff in H1. destruct H1 as [_ Hl]. apply N.ltb_lt in Hl, Hc. lia.
  - intros c Hc. specialize (H2 c Hc). apply N.ltb_lt in H2. lia.
Qed.

(* ------------------------------------------------------------------ *)
(* OriginalSource: every mapped chunk maps to its own generated position *)
(* ------------------------------------------------------------------ *)
Definition selfo (v : text) (e : event) : Prop :=
  match e with
  | EChunk _ m => match m_orig m with Some o => o_line o = g_line m /\ o_col o = g_col m | None => True end
  | ESource _ _ c => c = Some v
  | EName _ _ => True
  end.

Lemma tokens_selfo v : forall toks fin line col, Forall (selfo v) (fst (original_tokens toks fin line col)).
Proof.
  induction toks as [|tk toks IH]; intros fin line col; [constructor|].
  cbn [original_tokens].
  destruct (ends_with_nl tk).
  - specialize (IH fin (line + 1) 0). destruct (original_tokens toks fin (line + 1) 0) as [evs gi].
    cbn [fst] in *. apply Forall_app. split; [|exact IH].
    destruct (true && (len tk =? 1)); [destruct fin; repeat constructor|].
    constructor; [|constructor]. cbn. auto.
  - specialize (IH fin line (col + len tk)). destruct (original_tokens toks fin line (col + len tk)) as [evs gi].
    cbn [fst andb] in *. apply Forall_app. split; [|exact IH].
    constructor; [|constructor]. cbn. auto.
Qed.

Lemma marks_selfo v n : forall line, Forall (selfo v) (original_line_marks n line).
Proof. induction n as [|n IH]; intros line; cbn [original_line_marks]; constructor; [cbn; auto|apply IH]. Qed.

Lemma line_chunks_selfo v ls : forall line, Forall (selfo v) (original_line_chunks ls line).
Proof. induction ls as [|l ls IH]; intros line; cbn [original_line_chunks]; constructor; [cbn; auto|apply IH]. Qed.

Lemma original_stream_selfo v name o : Forall (selfo v) (fst (original_stream v name o)).
Proof.
  unfold original_stream. destruct (columns o).
  - pose proof (tokens_selfo v (potential_tokens v) (final_source o) 1 0) as H.
    destruct (original_tokens (potential_tokens v) (final_source o) 1 0) as [evs gi]. cbn [fst] in *.
    constructor; [reflexivity|exact H].
  - destruct (final_source o).
    + destruct (gen_info v) as [gl gc]. cbn [fst]. constructor; [reflexivity|apply marks_selfo].
    + cbn [fst]. constructor; [reflexivity|apply line_chunks_selfo].
Qed.

Lemma selfo_evb D v : len v + 1 <= D -> forall evs, Forall (selfo v) evs ->
  Forall (gen_in v) (chunk_mappings evs) -> Forall (evb D) evs.
Proof.
  intros HD. induction evs as [|e evs IH]; intros Hs Hg; [constructor|].
  inversion Hs as [|? ? He Hs']. subst.
  destruct e as [t m|i n c|i n]; cbn [chunk_mappings] in Hg.
  - inversion Hg as [|? ? Hm Hg']. subst. constructor; [|apply IH; assumption].
    cbn [evb selfo] in *. destruct (m_orig m) as [o|]; [|exact I]. cbn [ob].
    destruct He as [-> ->]. unfold gen_in in Hm. lia.
  - constructor; [|apply IH; assumption]. cbn [selfo] in He. subst c. cbn [evb]. lia.
  - constructor; [exact I|apply IH; assumption].
Qed.

Lemma original_stream_b D v n o : treeA (SOriginal v n) = true -> len v + 1 <= D ->
  Forall (evb D) (fst (original_stream v n o)).
Proof.
  intros Ha HD. apply (selfo_evb D v HD); [apply original_stream_selfo|].
  destruct o as [c f]. apply (gen_positions [] (SOriginal v n) c f eq_refl Ha eq_refl).
Qed.

(* ------------------------------------------------------------------ *)
(* ConcatSource                                                        *)
(* ------------------------------------------------------------------ *)
Lemma concat_event_b D final st e : evb D e -> Forall (evb D) (snd (concat_event final st e)).
Proof.
  intros He. destruct e as [chunk m|i name content|i name]; cbn [concat_event].
  - cbn [snd]. apply Forall_app. split.
    { destruct (c_close st && negb ((g_line m =? 1) && (g_col m =? 0))); [|constructor].
      constructor; [exact I|constructor]. }
    constructor; [|constructor]. cbn [evb] in He.
    destruct (m_orig m) as [o|]; [|exact I].
    destruct (lm_get (c_src_idx st) (o_src o)); [|exact I]. cbn [evb m_orig ob o_line o_col]. exact He.
  - destruct (find_text (c_sources st) name 0); cbn [snd]; [constructor|].
    constructor; [exact He|constructor].
  - destruct (find_text (c_names st) name 0); cbn [snd]; [constructor|].
    constructor; [exact I|constructor].
Qed.

Lemma concat_events_b D final : forall evs st, Forall (evb D) evs ->
  Forall (evb D) (snd (concat_events final st evs)).
Proof.
  induction evs as [|e evs IH]; intros st H; [constructor|].
  inversion H as [|? ? He H']. subst. cbn [concat_events].
  pose proof (concat_event_b D final st e He) as A.
  destruct (concat_event final st e) as [st1 o1]. specialize (IH st1 H').
  destruct (concat_events final st1 evs) as [st2 o2]. cbn [snd] in *.
  apply Forall_app. split; assumption.
Qed.

Lemma concat_child_b D final st evs gi : Forall (evb D) evs ->
  Forall (evb D) (snd (concat_child final st evs gi)).
Proof.
  intros H. unfold concat_child.
  pose proof (concat_events_b D final evs (concat_child_start st) H) as A.
  destruct (concat_events final (concat_child_start st) evs) as [st1 o1]. cbn [snd] in A.
  unfold concat_child_end. cbn [snd]. apply Forall_app. split; [exact A|].
  destruct (c_close st1 && negb ((fst gi =? 1) && (snd gi =? 0))); [|constructor].
  constructor; [exact I|constructor].
Qed.

Lemma concat_fold_b D final : forall (kids : list (list event * (N * N))) st out,
  Forall (fun k => Forall (evb D) (fst k)) kids -> Forall (evb D) out ->
  Forall (evb D) (snd (concat_fold final kids (st, out))).
Proof.
  induction kids as [|k kids IH]; intros st out Hk Ho; [exact Ho|].
  inversion Hk as [|? ? Hk1 Hk']. subst. rewrite concat_fold_cons. cbn [fst snd].
  pose proof (concat_child_b D final st (fst k) (snd k) Hk1) as A.
  destruct (concat_child final st (fst k) (snd k)) as [st' o]. cbn [fst snd] in *.
  apply IH; [exact Hk'|]. apply Forall_app. split; assumption.
Qed.

(* ------------------------------------------------------------------ *)
(* ReplaceSource                                                       *)
(* ------------------------------------------------------------------ *)
Definition cb (D : N) (oc : option text) : Prop :=
  match oc with Some c => len c <= D | None => True end.
Definition cok (D : N) (st : rstate) : Prop := Forall (cb D) (rs_contents st).

Lemma cok_same D st st' : rs_contents st' = rs_contents st -> cok D st -> cok D st'.
Proof. unfold cok. intros ->. auto. Qed.

Lemma aux_contents st st' : aux st' = aux st -> rs_contents st' = rs_contents st.
Proof. intros H. apply aux_inv in H. apply H. Qed.

Lemma lm_set_Forall {A} (P : A -> Prop) (d v : A) : P d -> P v -> forall k l,
  Forall P l -> Forall P (lm_set d l k v).
Proof.
  intros Hd Hv. induction k as [|k IH]; intros l Hl; destruct l as [|x l]; cbn [lm_set].
  - constructor; [exact Hv|constructor].
  - inversion Hl. subst. constructor; assumption.
  - constructor; [exact Hd|apply IH; constructor].
  - inversion Hl. subst. constructor; [assumption|apply IH; assumption].
Qed.

Lemma char_starts_ge : forall t i k o, nth_error (char_starts t i) k = Some o -> i + N.of_nat k <= o.
Proof.
  induction t as [|b t IH]; intros i k o H; cbn [char_starts] in H.
  - destruct k; discriminate.
  - destruct (is_cont b).
    + specialize (IH _ _ _ H). lia.
    + destruct k as [|k]; cbn [nth_error] in H.
      * inversion H. lia.
      * specialize (IH _ _ _ H). lia.
Qed.

Lemma len_substring_none line s : len (substring line s None) <= len line - s.
Proof.
  unfold substring. destruct (len line + 1 <=? s) eqn:E; [cbn; lia|]. apply N.leb_gt in E.
  pose proof (len_slice_le (char_offset line s) (char_offset line (len line + 1)) line) as H.
  assert (Hs : s <= char_offset line s).
  { unfold char_offset, nth_opt. destruct (nth_error (char_starts line 0) (N.to_nat s)) as [o|] eqn:E2.
    - apply char_starts_ge in E2. rewrite N2Nat.id in E2. lia.
    - lia. }
  lia.
Qed.

Lemma wrap32_le n : wrap32 n <= n.
Proof. unfold wrap32. apply N.mod_le. unfold two32. lia. Qed.

(* the re-based column is a column of a line of an announced content *)
Lemma adv_col_b D st mo piece : cok D st -> ob D mo -> ob D (adv_col st mo piece).
Proof.
  intros Hc Ho. destruct mo as [o|]; [|exact I]. cbn [adv_col].
  destruct (check_content st o piece) eqn:E; [|exact Ho].
  cbn [ob o_line o_col] in *. destruct Ho as [Hl Hcol]. split; [exact Hl|].
  unfold check_content in E.
  destruct (lm_get (rs_contents st) (o_src o)) as [[content|]|] eqn:E1; try discriminate.
  destruct (o_line o =? 0); [discriminate|].
  destruct (nth_opt (split_lines content) (o_line o - 1)) as [line|] eqn:E2; [|discriminate].
  apply is_prefix_len in E. pose proof (len_substring_none line (o_col o)) as S.
  unfold lm_get, nth_opt in E1. apply nth_error_In in E1.
  unfold cok in Hc. rewrite Forall_forall in Hc. specialize (Hc _ E1). cbn [cb] in Hc.
  unfold nth_opt in E2. apply nth_error_In in E2.
  pose proof (in_concat_len _ _ E2) as L. rewrite concat_split_lines in L.
  pose proof (wrap32_le (o_col o + len piece)). lia.
Qed.

Lemma map_name_b D st mo : ob D mo ->
  ob D (match mo with Some o => Some (map_name st o) | None => None end).
Proof. destruct mo as [o|]; [|intros; exact I]. cbn. tauto. Qed.

Lemma emit_content_b D gc mo ls : ob D mo -> forall st line name,
  aux (fst (fst (emit_content st ls line gc mo name))) = aux st /\
  Forall (chb D) (snd (emit_content st ls line gc mo name)).
Proof.
  intros Hmo. induction ls as [|cl ls IH]; intros st line name.
  - cbn [emit_content fst snd]. split; [reflexivity|constructor].
  - cbn [emit_content].
    assert (Hev : chb D (EChunk (Some cl) (mkMapping (wrap32z line) (out_col st line gc)
              match mo with Some o => Some (mkOrig (o_src o) (o_line o) (o_col o) name) | None => None end))).
    { cbn [chb m_orig]. destruct mo as [o|]; [|exact I]. cbn [ob o_line o_col] in *. exact Hmo. }
    destruct (is_nil ls && negb (ends_with_nl cl)); [destruct (rs_cline st =? line)%Z|];
      match goal with |- context [emit_content ?s ls ?l gc mo None] =>
        pose proof (IH s l None) as [A B];
        destruct (emit_content s ls l gc mo None) as [[st2 line2] evs] end;
      cbn [fst snd] in *;
      (split; [rewrite A; apply aux_set_offs|constructor; [exact Hev|exact B]]).
Qed.

Lemma rl_pre_b D r st v chunk line : cok D st -> ob D (v_orig v) ->
  aux (fst (fst (rl_pre r st v chunk line))) = aux st /\
  ob D (v_orig (snd (fst (rl_pre r st v chunk line)))) /\
  Forall (chb D) (snd (rl_pre r st v chunk line)).
Proof.
  intros Hc Hv. unfold rl_pre. destruct (rs_pos st <? r_start r); cbn [fst snd v_orig].
  - split; [apply aux_set_pos|]. split; [apply adv_col_b; assumption|].
    constructor; [|constructor]. cbn [chb m_orig]. apply map_name_b. exact Hv.
  - split; [reflexivity|]. split; [exact Hv|constructor].
Qed.

Lemma rl_name_b D r st1 v1 :
  rs_contents (fst (fst (rl_name r st1 v1))) = rs_contents st1 /\
  Forall (evb D) (snd (rl_name r st1 v1)).
Proof.
  unfold rl_name. destruct (r_name r) as [nm|]; [destruct (v_orig v1) as [o|]|]; cbn zeta.
  - destruct (find_text (rs_names st1) nm 0) as [g|]; cbn [fst snd rs_contents].
    + split; [reflexivity|constructor].
    + split; [reflexivity|]. constructor; [exact I|constructor].
  - cbn [fst snd]. split; [reflexivity|constructor].
  - cbn [fst snd]. split; [reflexivity|constructor].
Qed.

Lemma repl_loop_b D chunk gl end_pos : forall rest st v,
  cok D st -> ob D (v_orig v) ->
  rs_contents (fst (fst (fst (repl_loop rest st v chunk gl end_pos)))) = rs_contents st /\
  ob D (v_orig (snd (fst (fst (repl_loop rest st v chunk gl end_pos))))) /\
  Forall (evb D) (snd (fst (repl_loop rest st v chunk gl end_pos))).
Proof.
  induction rest as [|r rest' IH]; intros st v Hc Hv.
  - cbn [repl_loop fst snd]. split; [reflexivity|]. split; [exact Hv|constructor].
  - rewrite repl_loop_eq. destruct (negb (r_start r <? end_pos)).
    { cbn [fst snd]. split; [reflexivity|]. split; [exact Hv|constructor]. }
    cbn zeta.
    pose proof (rl_pre_b D r st v chunk (Z.of_N gl + rs_loff st)%Z Hc Hv) as [A1 [A2 A3]].
    destruct (rl_pre r st v chunk (Z.of_N gl + rs_loff st)%Z) as [[st1 v1] ev1]. cbn [fst snd] in A1, A2, A3.
    apply aux_contents in A1.
    pose proof (rl_name_b D r st1 v1) as [B1 B2].
    destruct (rl_name r st1 v1) as [[st2 name_idx] ev_name]. cbn [fst snd] in B1, B2.
    pose proof (emit_content_b D (v_gc v1) (v_orig v1) (split_lines (r_content r)) A2
                  st2 (Z.of_N gl + rs_loff st)%Z name_idx) as [C1 C2].
    destruct (emit_content st2 (split_lines (r_content r)) (Z.of_N gl + rs_loff st)%Z (v_gc v1) (v_orig v1) name_idx)
      as [[st3 l3] ev2]. cbn [fst snd] in C1, C2. apply aux_contents in C1.
    assert (E4 : rs_contents (rl_st4 r rest' st3) = rs_contents st) by (cbn [rl_st4 rs_contents]; congruence).
    assert (Hout : Forall (evb D) (ev1 ++ ev_name ++ ev2)).
    { apply Forall_app. split; [apply chbs_evb; exact A3|]. apply Forall_app. split; [exact B2|apply chbs_evb; exact C2]. }
    set (st4 := rl_st4 r rest' st3) in *. clearbody st4.
    assert (Hc4 : cok D st4) by (apply (cok_same D st st4 E4 Hc)).
    match goal with |- context [(0 <? ?off)%Z] => destruct (0 <? off)%Z end.
    + match goal with |- context [end_pos <=? ?re] => destruct (end_pos <=? re) end.
      * cbn [fst snd]. split; [|split; [exact A2|exact Hout]].
        rewrite (aux_contents _ _ (aux_set_pos _ _)), (aux_contents _ _ (aux_skip_whole _ _ _ _ _)). exact E4.
      * match goal with |- context [repl_loop rest' ?s5 ?v2 chunk gl end_pos] =>
          assert (E5 : rs_contents s5 = rs_contents st4)
            by (rewrite (aux_contents _ _ (aux_drop_cols _ _ _)), (aux_contents _ _ (aux_set_pos _ _)); reflexivity);
          pose proof (IH s5 v2 (cok_same D st4 s5 E5 Hc4)) as K;
          destruct (repl_loop rest' s5 v2 chunk gl end_pos) as [[[st6 v3] ev3] early] end.
        cbn [fst snd v_orig] in *. destruct (K (adv_col_b D _ _ _ Hc4 A2)) as [K1 [K2 K3]].
        split; [congruence|]. split; [exact K2|].
        rewrite 2!app_assoc, <- (app_assoc ev1). apply Forall_app. split; [exact Hout|exact K3].
    + pose proof (IH st4 v1 Hc4 A2) as [K1 [K2 K3]].
      destruct (repl_loop rest' st4 v1 chunk gl end_pos) as [[[st6 v3] ev3] early].
      cbn [fst snd] in *. split; [congruence|]. split; [exact K2|].
      rewrite 2!app_assoc, <- (app_assoc ev1). apply Forall_app. split; [exact Hout|exact K3].
Qed.

Lemma rc_pre_b D st chunk m : cok D st -> ob D (m_orig m) ->
  rs_contents (fst (fst (rc_pre st chunk m))) = rs_contents st /\
  ob D (v_orig (snd (fst (rc_pre st chunk m)))).
Proof.
  intros Hc Hm. unfold rc_pre. cbn zeta.
  destruct (match rs_rend st with Some re => if rs_pos st <? re then Some re else None | None => None end)
    as [re|]; [|cbn [fst snd v_orig]; split; [reflexivity|exact Hm]].
  destruct (rs_pos st + len chunk <=? re); cbn [fst snd v_orig].
  - split; [|exact Hm].
    rewrite (aux_contents _ _ (aux_set_pos _ _)), (aux_contents _ _ (aux_skip_whole _ _ _ _ _)). reflexivity.
  - split; [|apply adv_col_b; assumption].
    rewrite (aux_contents _ _ (aux_drop_cols _ _ _)), (aux_contents _ _ (aux_set_pos _ _)). reflexivity.
Qed.

Lemma replace_chunk_b D st chunk m : cok D st -> ob D (m_orig m) ->
  rs_contents (fst (replace_chunk st chunk m)) = rs_contents st /\
  Forall (evb D) (snd (replace_chunk st chunk m)).
Proof.
  intros Hc Hm. rewrite WfStream.replace_chunk_eq. cbn zeta.
  pose proof (rc_pre_b D st chunk m Hc Hm) as [A1 A2].
  destruct (rc_pre st chunk m) as [[st1 v1] early]. cbn [fst snd] in A1, A2.
  destruct early; [cbn [fst snd]; split; [exact A1|constructor]|].
  pose proof (repl_loop_b D chunk (g_line m) (rs_pos st + len chunk) (rs_rest st1) st1 v1
                (cok_same D st st1 A1 Hc) A2) as [B1 [B2 B3]].
  destruct (repl_loop (rs_rest st1) st1 v1 chunk (g_line m) (rs_pos st + len chunk)) as [[[st2 v2] ev2] early2].
  cbn [fst snd] in B1, B2, B3.
  destruct early2; cbn [fst snd]; [split; [congruence|exact B3]|].
  split; [cbn [set_pos rs_contents]; congruence|].
  apply Forall_app. split; [exact B3|].
  destruct (v_cpos v2 <? len chunk); [|constructor]. constructor; [|constructor].
  cbn [evb m_orig]. apply map_name_b. exact B2.
Qed.

Lemma replace_event_b D st e : evb D e -> cok D st ->
  cok D (fst (replace_event st e)) /\ Forall (evb D) (snd (replace_event st e)).
Proof.
  intros He Hc. destruct e as [t m|i name content|i name]; cbn [replace_event].
  - destruct t as [chunk|]; [|cbn [fst snd]; split; [exact Hc|constructor]].
    destruct (replace_chunk_b D st chunk m Hc He) as [A B]. split; [apply (cok_same D st _ A Hc)|exact B].
  - cbn [fst snd]. split; [|constructor; [exact He|constructor]].
    unfold cok. cbn [rs_contents]. unfold lm_insert. apply lm_set_Forall; [exact I| |exact Hc].
    destruct content; [exact He|exact I].
  - destruct (find_text (rs_names st) name 0); cbn [fst snd]; (split; [exact Hc|]); repeat constructor.
Qed.

Lemma replace_events_b D : forall evs st, Forall (evb D) evs -> cok D st ->
  Forall (evb D) (snd (replace_events st evs)).
Proof.
  induction evs as [|e evs IH]; intros st H Hc; [constructor|].
  inversion H as [|? ? He H']. subst. cbn [replace_events].
  pose proof (replace_event_b D st e He Hc) as [A B].
  destruct (replace_event st e) as [st1 o1]. cbn [fst snd] in A, B.
  specialize (IH st1 H' A). destruct (replace_events st1 evs) as [st2 o2]. cbn [snd] in *.
  apply Forall_app. split; assumption.
Qed.

Theorem replace_stream_b D (sorted : list repl) (ievs : list event) (gi : N * N) :
  Forall (evb D) ievs -> Forall (evb D) (fst (replace_stream sorted ievs gi)).
Proof.
  intros H. unfold replace_stream.
  pose proof (replace_events_b D ievs (replace_init sorted) H (Forall_nil _)) as A.
  destruct (replace_events (replace_init sorted) ievs) as [st evs]. cbn [snd] in A.
  rewrite emit_remainder_content.
  pose proof (emit_content_b D (snd gi) None (split_lines (concat (map r_content (rs_rest st)))) I
                st (Z.of_N (fst gi) + rs_loff st)%Z None) as [_ B].
  destruct (emit_content st (split_lines (concat (map r_content (rs_rest st))))
              (Z.of_N (fst gi) + rs_loff st)%Z (snd gi) None None) as [[st' line'] evs'].
  cbn [fst snd] in *. apply Forall_app. split; [exact A|apply chbs_evb; exact B].
Qed.

(* ------------------------------------------------------------------ *)
(* trees                                                               *)
(* ------------------------------------------------------------------ *)
Definition obnd_all (s : src) : Prop :=
  forall o st, Forall (evb KB) (fst (fst (stream st s o))).

Lemma kid_streams_b o cs : Forall obnd_all cs -> forall st,
  Forall (fun k => Forall (evb KB) (fst k)) (fst (kid_streams st cs o)).
Proof.
  induction 1 as [|c cs Hc _ IH]; intros st; [constructor|].
  cbn [kid_streams]. specialize (Hc o st).
  destruct (stream st c o) as [[evs gi] st1]. specialize (IH st1).
  destruct (kid_streams st1 cs o) as [ks st2]. cbn [fst snd] in *.
  constructor; assumption.
Qed.

Theorem obnd_tree : forall s,
  rshape s = true -> treeA s = true -> tsize s < KB -> maps_tiny s = true -> obnd_all s.
Proof.
  apply (src_ind' (fun s => rshape s = true -> treeA s = true -> tsize s < KB -> maps_tiny s = true -> obnd_all s)).
  - intros b v _ _ _ _ o st. cbn [stream fst]. apply raw_stream_b.
  - intros v _ _ _ _ o st. cbn [stream fst]. apply raw_stream_b.
  - intros v _ _ _ _ o st. cbn [stream fst]. apply raw_stream_b.
  - intros v n _ Ha Ht _ o st. cbn [stream fst]. cbn [tsize source] in Ht.
    apply original_stream_b; [exact Ha|lia].
  - intros v n m og i r Hsh _ _ Hm o st. cbn [rshape] in Hsh. destruct i as [im|]; [discriminate|].
    cbn [stream fst]. cbn [maps_tiny] in Hm. destruct (map_tiny_segb m Hm) as [A B].
    apply sm_stream_b; assumption.
  - intros cs IH Hsh Ha Ht Hm o st. cbn [rshape maps_tiny] in Hsh, Hm.
    assert (Hall : Forall obnd_all cs).
    { rewrite Forall_forall in *. rewrite forallb_forall in Hsh, Hm. intros c Hc.
      apply IH; [exact Hc|apply Hsh; exact Hc|apply (treeA_concat_inv cs c Ha Hc)| |apply Hm; exact Hc].
      pose proof (tsize_child cs c Hc). lia. }
    destruct (Nat.eq_dec (length cs) 1) as [E|E].
    + destruct cs as [|c [|c2 r]]; try discriminate. inversion Hall as [|? ? Hc _]. apply Hc.
    + rewrite (stream_concat_fold st cs o E). cbn [fst].
      apply concat_fold_b; [|constructor]. apply kid_streams_b. exact Hall.
  - intros i rs IH Hsh Ha Ht Hm o st. cbn [rshape maps_tiny tsize] in Hsh, Hm, Ht.
    assert (HAi : treeA i = true).
    { unfold treeA in *. cbn [tree_wf tree_ascii] in Ha. apply andb_true_iff in Ha. destruct Ha as [Hw Ha].
      apply andb_true_iff in Hw. destruct Hw as [Hw1 Hw2]. apply andb_true_iff in Ha. destruct Ha as [Ha1 _].
      rewrite Hw1, Ha1. reflexivity. }
    assert (Hti : tsize i < KB) by lia.
    cbn [stream]. pose proof (IH Hsh HAi Hti Hm (mkOpts (columns o) false) st) as A.
    destruct (stream st i (mkOpts (columns o) false)) as [[ievs gi] st']. cbn [fst snd] in *.
    apply replace_stream_b. exact A.
  - intros id i _ Hsh. discriminate.
Qed.

(* B3, lines and columns *)
Theorem orig_small (st : store) (s : src) (o : opts) :
  rshape s = true -> treeA s = true -> tiny s = true ->
  Forall (fun m => match m_orig m with Some og => o_line og < K30 /\ o_col og < K30 | None => True end)
         (chunk_mappings (fst (fst (stream st s o)))).
Proof.
  intros H1 H2 H3. destruct (tiny_parts s H3) as [T [_ [_ [_ M]]]].
  pose proof (obnd_tree s H1 H2 T M o st) as A.
  induction (fst (fst (stream st s o))) as [|e evs IH]; [constructor|].
  inversion A as [|? ? He A']. subst. destruct e as [t m|i n c|i n]; cbn [chunk_mappings]; [|apply IH; exact A'..].
  constructor; [|apply IH; exact A']. cbn [evb] in He. destruct (m_orig m) as [og|]; [|exact I].
  cbn [ob] in He. unfold KB, K30 in *. lia.
Qed.

Print Assumptions replace_stream_b.
Print Assumptions obnd_tree.
Print Assumptions orig_small.
