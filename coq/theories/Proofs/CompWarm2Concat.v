(* C06 over warm caches AND combined-map leaves, part 2 (K3): ALL ConcatSource clauses
   (9, 1, 2, 3) of chk_C06 on the model's own observations (Api/ApiCheck.v: api_comp) for a
   ConcatSource whose children are trees with CachedSource nodes in ANY warm state and leaves
   that may be SourceMapSources WITH an inner map (each child in the class `cls2` of
   WarmCombDefs.v, every cache id once in the composite).  CompWarmConcat.v re-run over the
   invariant `TX2` of a text-carrying stream over a `SoundW` store (WarmCombWf.warmW_all); the
   store side (CompWarmFrame.v: the children stream inside the warmed composite exactly as
   they do warmed standalone) does not depend on the class of leaves and is used as it is. *)
From RS Require Import Base.Prelude Base.Text Rope.RopeModel Codec.Vlq Codec.CodecSpec
  Stream.Types Stream.Leaves Stream.Concat Stream.Replace Stream.Combined Stream.Tree
  Api.ApiTree Sem.Attr Sem.HashEq Api.ApiHist Checkers.ChkTree Checkers.ChkHist Checkers.ChkComp Api.ApiCheck
  Proofs.StreamText Proofs.StreamLeaves Proofs.StreamConcat Proofs.StreamTree
  Proofs.WfStream Proofs.WfFinal
  Proofs.RStreamText Proofs.RStreamPos Proofs.RStreamTree
  Proofs.AttrCodec Proofs.AttrSms Proofs.LawConcatAttr Proofs.LawWrappers
  Proofs.LinesBase Proofs.CompLinesBridge Proofs.CompLinesConcat Proofs.CompLinesReplace Proofs.CompLinesTree
  Proofs.FinalDense Proofs.FinalTree Proofs.ColdCache Proofs.ColdCacheTree Proofs.BoundsPos
  Proofs.CombLeafTree Proofs.WarmTreeDefs
  Proofs.WarmCombBounds Proofs.WarmCombDefs Proofs.WarmCombMain Proofs.WarmCombHist Proofs.WarmCombWf
  Proofs.CompWarmFrame Proofs.CompWarmConcat.
Require Import Lia List.
Import ListNotations.

Local Open Scope N_scope.

(* ------------------------------------------------------------------ *)
(* a child warmed and observed standalone (CompWarmConcat.kid_obs)      *)
(* ------------------------------------------------------------------ *)
Lemma kid_obs_TX2 (ws : list (N * wop)) (c : bool) (k : src) :
  ids_distinct k -> cls2 k -> TX2 c k (kid_obs ws c k).
Proof.
  intros Hd Hcl. pose proof (warm_soundW k Hd Hcl ws [] (soundW_empty k)) as Hs.
  destruct (warmW_all k Hd k (incl_refl _) Hcl) as [A _]. apply (A _ c Hs).
Qed.

Lemma kid_obs_facts2 (ws : list (N * wop)) (c : bool) (k : src) :
  ids_distinct k -> cls2 k ->
  dense (fst (kid_obs ws c k)) 0 0 = true /\ reassembles (fst (kid_obs ws c k)) (source k) = true /\
  chunks_nl_last (fst (kid_obs ws c k)) = true.
Proof.
  intros Hd Hcl. destruct (kid_obs_TX2 ws c k Hd Hcl) as [[D [R [_ [Nl _]]]] _].
  split; [exact D|]. split; [apply reassembles_iff; exact R|apply chunks_nl_last_iff; exact Nl].
Qed.

Section Concat.
Variable cs : list src.
Variable ws : list (N * wop).
Hypothesis Hd : ids_distinct (SConcat cs).
Hypothesis Hcl : forall c, In c cs -> cls2 c.

Lemma kids_dense_w2 c : Forall (fun k : list event * (N * N) => dense (fst k) 0 0 = true) (map (kid_obs ws c) cs).
Proof.
  rewrite Forall_map. apply Forall_forall. intros k Hk.
  apply (kid_obs_facts2 ws c k (ids_distinct_child cs k Hd Hk) (Hcl k Hk)).
Qed.

Lemma kids_nl_w2 c : Forall (fun k : list event * (N * N) => chunks_nl_last (fst k) = true) (map (kid_obs ws c) cs).
Proof.
  rewrite Forall_map. apply Forall_forall. intros k Hk.
  apply (kid_obs_facts2 ws c k (ids_distinct_child cs k Hd Hk) (Hcl k Hk)).
Qed.

Lemma kids_reass_w2 c :
  Forall2 (fun (k : list event * (N * N)) t => reassembles (fst k) t = true) (map (kid_obs ws c) cs) (map source cs).
Proof.
  apply Forall2_map_same. intros k Hk.
  apply (kid_obs_facts2 ws c k (ids_distinct_child cs k Hd Hk) (Hcl k Hk)).
Qed.

Lemma treeA_of_children2 : treeA (SConcat cs) = true.
Proof.
  unfold treeA. cbn [tree_wf tree_ascii]. apply andb_true_iff. split; apply forallb_forall; intros c Hc;
    destruct (Hcl c Hc) as [_ [_ [A _]]]; unfold treeA in A; apply andb_true_iff in A; apply A.
Qed.

(* the composite's stream is the fold over the children's standalone observations *)
Lemma concat_warm_stream2 c : length cs <> 1%nat ->
  fst (fst (stream (run_warm [] (SConcat cs) ws) (SConcat cs) (mkOpts c false)))
  = snd (concat_fold false (map (kid_obs ws c) cs) (concat_init, [])).
Proof.
  intros Hl. rewrite (stream_concat_fold _ cs _ Hl). cbn [fst snd final_source].
  rewrite (concat_kids_standalone cs ws (mkOpts c false) Hd). reflexivity.
Qed.

(* clauses 1, 2, 3 *)
Theorem concat_warm_clauses2 :
  let st := run_warm [] (SConcat cs) ws in
  let c10 := fst (fst (stream st (SConcat cs) (mkOpts true false))) in
  let c00 := fst (fst (stream st (SConcat cs) (mkOpts false false))) in
  let k10 := map (fun k => fst (kid_obs ws true k)) cs in
  let k00 := map (fun k => fst (kid_obs ws false k)) cs in
  attr_of_stream c10 true = concat_expected k10 /\
  (bindings_consistent (flat_map contents_of_events k10) = true -> contents_preserved c10 k10 = true) /\
  attr_of_stream c00 false = line_first_bytes (source (SConcat cs)) (concat_expected k00) None 0 [].
Proof.
  intros st c10 c00 k10 k00.
  assert (K1 : k10 = map fst (map (kid_obs ws true) cs)) by (unfold k10; rewrite map_map; reflexivity).
  assert (K0 : k00 = map fst (map (kid_obs ws false) cs)) by (unfold k00; rewrite map_map; reflexivity).
  destruct (Nat.eq_dec (length cs) 1) as [E|E].
  - destruct cs as [|c [|c2 r]]; try discriminate.
    assert (Hc : In c [c]) by (left; reflexivity).
    assert (E1 : c10 = fst (kid_obs ws true c)).
    { unfold c10, st, kid_obs. rewrite (concat_single_standalone c ws _ Hd). reflexivity. }
    assert (E0 : c00 = fst (kid_obs ws false c)).
    { unfold c00, st, kid_obs. rewrite (concat_single_standalone c ws _ Hd). reflexivity. }
    destruct (kid_obs_facts2 ws false c (ids_distinct_child [c] c Hd Hc) (Hcl c Hc)) as [_ [R0 N0]].
    unfold k10, k00. cbn [map]. rewrite <- E1, <- E0, !concat_expected_one.
    split; [reflexivity|]. split; [intros _; apply contents_preserved_same; reflexivity|].
    cbn [source map concat]. rewrite app_nil_r. rewrite <- E0 in R0, N0. apply (lines_bridge c00 _ R0 N0).
  - unfold c10, c00, st. rewrite !(concat_warm_stream2 _ E), K1, K0.
    split; [apply list_eqb_attr_eq; apply concat_attr_expected; apply kids_dense_w2|].
    split; [intros Hb; apply concat_contents_preserved; [apply kids_dense_w2|exact Hb]|].
    cbn [source]. apply (concat_lines_attr_kids _ _ (kids_dense_w2 false) (kids_reass_w2 false) (kids_nl_w2 false)).
Qed.

End Concat.

(* ------------------------------------------------------------------ *)
(* the checker on the model's own observations                          *)
(* ------------------------------------------------------------------ *)
Theorem C06_concat_warm2_checker (cs : list src) (ws : list (N * wop)) :
  ids_distinct (SConcat cs) -> (forall c, In c cs -> cls2 c) ->
  let '(c10, c00, k10, k00) := api_comp (SConcat cs) ws in
  chk_C06 (SConcat cs) (source (SConcat cs)) c10 c00 k10 k00 =
  if bindings_consistent (flat_map contents_of_events k10) then 0 else 100.
Proof.
  intros Hd Hcl. pose proof (api_comp_concat_warm cs ws) as E. cbn zeta in E. rewrite E.
  pose proof (concat_warm_clauses2 cs ws Hd Hcl) as [C1 [C2 C3]]. cbn zeta in C1, C2, C3.
  unfold chk_C06. rewrite (treeA_of_children2 cs Hcl). cbn [negb].
  destruct (bindings_consistent _) eqn:Hb; cbn [negb]; [|reflexivity].
  rewrite slen_map', N.eqb_refl. cbn [negb].
  rewrite C1, (list_eqb_attr_refl attr_eqb attr_eqb_refl). cbn [negb].
  rewrite (C2 eq_refl). cbn [negb].
  rewrite C3, (list_eqb_attr_refl attr_eqb_fl attr_eqb_fl_refl). reflexivity.
Qed.

(* inside the checker's domain the verdict is 0 *)
Theorem C06_concat_warm2 (cs : list src) (ws : list (N * wop)) :
  ids_distinct (SConcat cs) -> (forall c, In c cs -> cls2 c) ->
  let '(c10, c00, k10, k00) := api_comp (SConcat cs) ws in
  bindings_consistent (flat_map contents_of_events k10) = true ->
  chk_C06 (SConcat cs) (source (SConcat cs)) c10 c00 k10 k00 = 0.
Proof.
  intros Hd Hcl. pose proof (C06_concat_warm2_checker cs ws Hd Hcl) as K.
  destruct (api_comp (SConcat cs) ws) as [[[c10 c00] k10] k00]. intros Hb. rewrite Hb in K. exact K.
Qed.

(* K3: the composite itself in the class *)
Corollary C06_concat_warm2_cls (cs : list src) (ws : list (N * wop)) :
  ids_distinct (SConcat cs) -> cls2 (SConcat cs) ->
  let '(c10, c00, k10, k00) := api_comp (SConcat cs) ws in
  bindings_consistent (flat_map contents_of_events k10) = true ->
  chk_C06 (SConcat cs) (source (SConcat cs)) c10 c00 k10 k00 = 0.
Proof. intros Hd Hcl. apply C06_concat_warm2; [exact Hd|intros c Hc; apply (cls2_concat cs c Hcl Hc)]. Qed.

(* ... with the class spelled out *)
Corollary C06_concat_warm2_tiny (cs : list src) (ws : list (N * wop)) :
  ids_distinct (SConcat cs) -> k2_shape (SConcat cs) = false -> rshape2 (uncache (SConcat cs)) = true ->
  treeA (SConcat cs) = true -> tiny2 (uncache (SConcat cs)) = true ->
  let '(c10, c00, k10, k00) := api_comp (SConcat cs) ws in
  bindings_consistent (flat_map contents_of_events k10) = true ->
  chk_C06 (SConcat cs) (source (SConcat cs)) c10 c00 k10 k00 = 0.
Proof. intros Hd H1 H2 H3 H4. apply C06_concat_warm2_cls; [exact Hd|apply tiny2_cls2; assumption]. Qed.

Print Assumptions kid_obs_TX2.
Print Assumptions concat_warm_stream2.
Print Assumptions concat_warm_clauses2.
Print Assumptions C06_concat_warm2_checker.
Print Assumptions C06_concat_warm2.
Print Assumptions C06_concat_warm2_cls.
Print Assumptions C06_concat_warm2_tiny.
