(* C13 over warm caches (J3): the law "a CachedSource around `a` behaves as `a`" on the model's
   own pair observations (Api/ApiHist.v: api_pair) - BOTH sides after arbitrary observer
   histories (the root cache of the left side and the inner caches of both sides in any state
   these histories leave, independently of one another).
   Proved (class `cls`, every cache id once):
     C13_cached_warm_relaxed   relaxed comparison: chk_C13 .. true = 0;
     C13_cached_warm_partial   strict comparison: the clauses 1-4 of `obs_equiv_laws` (text,
                               buffer, attribution of map() with and without columns) never
                               fire: the verdict is 0, 5 or 6.
   Clauses 5/6 (the content carried for every file text is attributed to) are NOT a theorem of
   the model without a further domain condition: `cached_law_contents_counterexample` below -
   a file name announced with two different contents (once by a cached subtree that maps no
   chunk of it, class K7) is history-dependent.  chk_C13 has no `bindings_consistent` test.
   With the domain condition "a file name determines its content" all six clauses are proved in
   CompWarmLawsFull.v (C13_cached_warm). *)
From RS Require Import Base.Prelude Base.Text Rope.RopeModel Codec.Vlq Codec.CodecSpec
  Stream.Types Stream.Leaves Stream.Concat Stream.Replace Stream.Combined Stream.Tree
  Api.ApiTree Sem.Attr Sem.HashEq Api.ApiHist Checkers.ChkTree Checkers.ChkHist
  Checkers.ChkComp Proofs.StreamText Proofs.AttrCodec Proofs.LawWrappers Proofs.RStreamTree
  Proofs.ColdCache Proofs.ColdCacheTree Proofs.BoundsPos
  Proofs.WarmTreeDefs Proofs.WarmTreeNodes Proofs.WarmTreeMain Proofs.WarmTreeHist.
Require Import Lia List.
Import ListNotations.

Local Open Scope N_scope.

(* ------------------------------------------------------------------ *)
(* the final answers of one side                                        *)
(* ------------------------------------------------------------------ *)
Lemma run_hops_cons st s o ops :
  run_hops st s (o :: ops) =
  (fst (run_hop st s o) :: fst (run_hops (snd (run_hop st s o)) s ops),
   snd (run_hops (snd (run_hop st s o)) s ops)).
Proof.
  cbn [run_hops]. destruct (run_hop st s o) as [a st1]. cbn [fst snd].
  destruct (run_hops st1 s ops) as [as_ st2]. reflexivity.
Qed.

Lemma run_hop_map st s c : run_hop st s (OMap c) = (AMap (fst (map_of st s c)), snd (map_of st s c)).
Proof. cbn [run_hop]. destruct (map_of st s c) as [m st']. reflexivity. Qed.

Section Side.
Variable s : src.
Hypothesis Hd : ids_distinct s.
Hypothesis Hcl : cls s.

Let W := warm_all s Hd s (incl_refl _) Hcl.

Lemma final_answers (st : store) : Sound st s ->
  let ans := fst (run_hops st s final_ops) in
  get_text (nth_ans ans 1) = source s /\ get_text (nth_ans ans 2) = buffer s /\
  attr_of_map (get_map (nth_ans ans 3)) (source s) true = refA s true /\
  attr_of_map (get_map (nth_ans ans 4)) (source s) false = refA s false.
Proof.
  intros Hs. cbn zeta. unfold final_ops. rewrite !run_hops_cons. cbn [fst].
  change (snd (run_hop st s OHash)) with st.
  change (snd (run_hop st s OSrc)) with st. change (snd (run_hop st s OBuf)) with st.
  rewrite !run_hop_map. cbn [fst snd].
  unfold nth_ans. cbn [nth run_hop fst get_text get_map].
  destruct W as [_ [_ M]]. destruct (M st true Hs) as [[E1 _] S1].
  destruct (M (snd (map_of st s true)) false S1) as [[E0 _] _].
  split; [reflexivity|]. split; [reflexivity|]. split; [exact E1|exact E0].
Qed.

Lemma hops_sound (ops : list hop) : Sound (snd (run_hops [] s ops)) s.
Proof. apply (history_warm_from s Hd Hcl ops [] 0 (sound_empty s)). Qed.

End Side.

(* ------------------------------------------------------------------ *)
(* both sides                                                           *)
(* ------------------------------------------------------------------ *)
Lemma loc_ref_refl (l : loc) : loc_ref l l = true.
Proof.
  unfold loc_ref. rewrite text_eqb_refl, N.eqb_refl, N.leb_refl. cbn [andb].
  destruct (l_name l) as [n|]; [apply text_eqb_refl|reflexivity].
Qed.

Lemma list_loc_ref_refl (l : list attr) : list_eqb_attr (opt_eqb loc_ref) l l = true.
Proof. apply list_eqb_attr_refl. intros [x|]; [apply loc_ref_refl|reflexivity]. Qed.

Section Law.
Variable id : N.
Variable a : src.
Variables opsa opsb : list hop.
Hypothesis Hd : ids_distinct (SCached id a).
Hypothesis Hcl : cls a.

Let A := SCached id a.
Let o := api_pair A opsa a opsb.

Lemma Hda : ids_distinct a.
Proof. unfold ids_distinct in *. cbn [ids] in Hd. inversion Hd. assumption. Qed.

Lemma HclA : cls A.
Proof. exact Hcl. Qed.

Lemma pair_facts :
  get_text (nth_ans (po_a o) 1) = source a /\ get_text (nth_ans (po_b o) 1) = source a /\
  get_text (nth_ans (po_a o) 2) = buffer a /\ get_text (nth_ans (po_b o) 2) = buffer a /\
  (forall c : bool, attr_of_map (get_map (nth_ans (po_a o) (if c then 3 else 4))) (source a) c
                    = attr_of_map (get_map (nth_ans (po_b o) (if c then 3 else 4))) (source a) c).
Proof.
  unfold o, api_pair. cbn [po_a po_b].
  destruct (final_answers A Hd HclA _ (hops_sound A Hd HclA opsa)) as [A1 [A2 [A3 A4]]].
  destruct (final_answers a Hda Hcl _ (hops_sound a Hda Hcl opsb)) as [B1 [B2 [B3 B4]]].
  cbn zeta in *. split; [exact A1|]. split; [exact B1|]. split; [exact A2|]. split; [exact B2|].
  intros [|].
  - change (source A) with (source a) in A3. rewrite A3, B3. reflexivity.
  - change (source A) with (source a) in A4. rewrite A4, B4. reflexivity.
Qed.

Lemma treeA_both : treeA A && treeA a = true.
Proof. destruct Hcl as [_ [_ [T _]]]. change (treeA A) with (treeA a). rewrite T. reflexivity. Qed.

Lemma k2_both : k2_shape A || k2_shape a = false.
Proof. destruct Hcl as [K _]. change (k2_shape A) with (k2_shape a). rewrite K. reflexivity. Qed.

(* the relaxed comparison accepts *)
Theorem C13_cached_warm_relaxed : chk_C13 A a true o = 0.
Proof.
  destruct pair_facts as [A1 [B1 [_ [_ M]]]]. pose proof (M true) as M3. pose proof (M false) as M4. cbn iota in M3, M4.
  unfold chk_C13. rewrite treeA_both. cbn [negb]. rewrite A1, B1, text_eqb_refl. cbn [negb].
  rewrite M3, list_loc_ref_refl. cbn [negb].
  rewrite M4, (list_eqb_attr_refl attr_eqb_fl attr_eqb_fl_refl). reflexivity.
Qed.

(* the strict comparison: text, buffer and attribution never differ *)
Theorem C13_cached_warm_partial :
  chk_C13 A a false o = 0 \/ chk_C13 A a false o = 5 \/ chk_C13 A a false o = 6.
Proof.
  destruct pair_facts as [A1 [B1 [A2 [B2 M]]]]. pose proof (M true) as M3. pose proof (M false) as M4. cbn iota in M3, M4.
  unfold chk_C13. rewrite treeA_both, k2_both. cbn [negb]. unfold obs_equiv_laws.
  rewrite A1, B1, text_eqb_refl. cbn [negb]. rewrite A2, B2, text_eqb_refl. cbn [negb].
  rewrite M3, (list_eqb_attr_refl attr_eqb attr_eqb_refl). cbn [negb].
  rewrite M4, (list_eqb_attr_refl attr_eqb_fl attr_eqb_fl_refl). cbn [negb].
  destruct (referenced_contents_same _ _ _ true); cbn [negb]; [|right; left; reflexivity].
  destruct (referenced_contents_same _ _ _ false); cbn [negb]; [left|right; right]; reflexivity.
Qed.

(* FULL STATEMENT (false without a domain condition on the announced contents, see below):
   Theorem C13_cached_warm : chk_C13 A a false o = 0. *)

End Law.

(* the hypotheses spelled out *)
Theorem C13_cached_warm_checker_partial (id : N) (a : src) (opsa opsb : list hop) :
  ids_distinct (SCached id a) -> k2_shape a = false -> rshape (uncache a) = true -> treeA a = true ->
  tiny (uncache a) = true ->
  let v := chk_C13 (SCached id a) a false (api_pair (SCached id a) opsa a opsb) in
  (v = 0 \/ v = 5 \/ v = 6) /\
  chk_C13 (SCached id a) a true (api_pair (SCached id a) opsa a opsb) = 0.
Proof.
  intros H1 H2 H3 H4 H5. pose proof (tiny_cls a H2 H3 H4 H5) as Hcl. cbn zeta. split.
  - apply C13_cached_warm_partial; assumption.
  - apply C13_cached_warm_relaxed; assumption.
Qed.

(* ------------------------------------------------------------------ *)
(* tests                                                                *)
(* ------------------------------------------------------------------ *)
Definition law_hists : list (list hop) :=
  [[]; [OStream true false]; [OStream false false]; [OMap true]; [OMap false]; [OStream true true]; [OStream false true];
   [OMap false; OStream true false; OMap true]].

(* the bundler's shape of WarmTreeHist.v: every pair of histories is accepted *)
Example law_w_tree_recomputed :
  forallb (fun ha => forallb (fun hb => chk_C13 (SCached 9 w_tree) w_tree false (api_pair (SCached 9 w_tree) ha w_tree hb) =? 0)
                             law_hists) law_hists = true.
Proof. vm_compute. reflexivity. Qed.

(* Concat[Cached(Original "" f); Original "b" f]: the file f is announced with content "" by a
   cached subtree that maps no chunk (class K7: cold it forwards the announcement, warm it
   replays a raw stream and announces nothing) and with content "b" by the second child; the
   ConcatSource keeps the first content it sees.  Left side: no history, right side: map() once.
   Inside every hypothesis of the theorem; the strict verdict is 5. *)
Definition law_k7 : src := SConcat [SCached 1 (SOriginal [] [102]); SOriginal [98] [102]].

Example cached_law_contents_counterexample :
  (ids_distinctb (SCached 9 law_k7), k2_shape law_k7, rshape (uncache law_k7), treeA law_k7, tiny (uncache law_k7),
   k7_shape law_k7,
   bindings_consistent (flat_map (fun k => contents_of_events (fst (fst (stream [] k (mkOpts true false)))))
                                 [SCached 1 (SOriginal [] [102]); SOriginal [98] [102]]))
  = (true, false, true, true, true, true, false) /\
  chk_C13 (SCached 9 law_k7) law_k7 false (api_pair (SCached 9 law_k7) [] law_k7 [OMap true]) = 5 /\
  chk_C13 (SCached 9 law_k7) law_k7 false (api_pair (SCached 9 law_k7) [] law_k7 [OMap false]) = 6 /\
  chk_C13 (SCached 9 law_k7) law_k7 false (api_pair (SCached 9 law_k7) [] law_k7 []) = 0.
Proof. vm_compute. repeat split; reflexivity. Qed.

Print Assumptions final_answers.
Print Assumptions C13_cached_warm_relaxed.
Print Assumptions C13_cached_warm_partial.
Print Assumptions C13_cached_warm_checker_partial.
Print Assumptions law_w_tree_recomputed.
Print Assumptions cached_law_contents_counterexample.
