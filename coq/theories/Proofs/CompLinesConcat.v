(* C06, columns = false, part 2 (G2): clause 3 of chk_C06 for ConcatSource.
   The composite's line-granular attribution equals the line-first broadcast of the children's
   covering attributions back to back - with Leibniz equality, both sides report
   (file, line, 0, no name).
   From the bridge (CompLinesBridge.lines_bridge) applied to the composite's own stream and
   LawConcatAttr.concat_attr_cols, which is about `concat_fold false kids` and the covering
   attribution `attr_of_stream _ true` and only asks the children's event lists to announce
   densely: it applies to events produced in columns = false mode as well. *)
From RS Require Import Base.Prelude Base.Text Rope.RopeModel Codec.Vlq Codec.CodecSpec
  Stream.Types Stream.Leaves Stream.Concat Sem.Attr Checkers.ChkTree Checkers.ChkComp
  Proofs.StreamText Proofs.StreamLeaves Proofs.StreamConcat Proofs.AttrCodec Proofs.AttrSms
  Proofs.LawConcatAttr Proofs.RStreamPos Proofs.LinesBase Proofs.CompLinesBridge.
Require Import Lia List.

Local Open Scope N_scope.

(* ------------------------------------------------------------------ *)
(* a stream whose chunk texts are those of the children, in order       *)
(* ------------------------------------------------------------------ *)
Definition ReassT (cts : list (option text)) (t : text) : Prop :=
  exists ts, all_some cts = Some ts /\ concat ts = t.

Lemma ReassT_app a b ta tb : ReassT a ta -> ReassT b tb -> ReassT (a ++ b) (ta ++ tb).
Proof.
  intros [xs [Ha Hxa]] [ys [Hb Hyb]]. exists (xs ++ ys).
  rewrite all_some_app, Ha, Hb, concat_app, Hxa, Hyb. split; reflexivity.
Qed.

Lemma Reass_flat (kids : list (list event * (N * N))) (ts : list text) (evs : list event) :
  chunk_texts evs = flat_map (fun k => chunk_texts (fst k)) kids ->
  Forall2 (fun k t => Reass (fst k) t) kids ts -> Reass evs (concat ts).
Proof.
  intros E H. change (ReassT (chunk_texts evs) (concat ts)). rewrite E. clear E evs.
  induction H as [|k t kids ts Hk _ IH]; [exists []; split; reflexivity|].
  cbn [flat_map concat]. apply ReassT_app; [exact Hk|exact IH].
Qed.

Lemma F2_impl {A B} (P Q : A -> B -> Prop) la lb :
  (forall a b, P a b -> Q a b) -> Forall2 P la lb -> Forall2 Q la lb.
Proof. intros H. induction 1; constructor; auto. Qed.

Lemma NLL_flat (kids : list (list event * (N * N))) (evs : list event) :
  chunk_texts evs = flat_map (fun k => chunk_texts (fst k)) kids ->
  Forall (fun k => NLL (fst k)) kids -> NLL evs.
Proof. intros E H. unfold NLL. rewrite E. apply Forall_flat_map. exact H. Qed.

(* ------------------------------------------------------------------ *)
(* G2                                                                  *)
(* ------------------------------------------------------------------ *)
(* any text the composite's stream reassembles *)
Theorem concat_lines_attr (kids : list (list event * (N * N))) (t : text) :
  Forall (fun k => dense (fst k) 0 0 = true) kids ->
  let comp := snd (concat_fold false kids (concat_init, [])) in
  reassembles comp t = true -> chunks_nl_last comp = true ->
  attr_of_stream comp false = line_first_bytes t (concat_expected (map fst kids)) None 0 [].
Proof.
  intros Hd comp Hr Hn. rewrite (lines_bridge comp t Hr Hn).
  change (attr_cover (rsegs_of_events comp [] [])) with (attr_of_stream comp true).
  unfold comp. rewrite (concat_attr_cols kids Hd). unfold concat_expected.
  rewrite flat_map_concat_map, flat_map_concat_map, map_map. reflexivity.
Qed.

(* from the children alone: each reassembles its text, chunks with a line feed at most as
   last byte, dense announcements *)
Theorem concat_lines_attr_kids (kids : list (list event * (N * N))) (ts : list text) :
  Forall (fun k => dense (fst k) 0 0 = true) kids ->
  Forall2 (fun k t => reassembles (fst k) t = true) kids ts ->
  Forall (fun k => chunks_nl_last (fst k) = true) kids ->
  let comp := snd (concat_fold false kids (concat_init, [])) in
  attr_of_stream comp false = line_first_bytes (concat ts) (concat_expected (map fst kids)) None 0 [].
Proof.
  intros Hd Hr Hn comp. pose proof (concat_fold_chunk_texts kids Hd) as E. fold comp in E.
  apply (concat_lines_attr kids (concat ts) Hd).
  - apply reassembles_iff. apply (Reass_flat kids ts comp E).
    eapply F2_impl; [|exact Hr]. intros k t H. apply reassembles_iff. exact H.
  - apply chunks_nl_last_iff. apply (NLL_flat kids comp E).
    eapply Forall_impl; [|exact Hn]. intros k H. apply chunks_nl_last_iff. exact H.
Qed.

(* clause 3 of chk_C06 *)
Corollary concat_lines_expected (kids : list (list event * (N * N))) (ts : list text) :
  Forall (fun k => dense (fst k) 0 0 = true) kids ->
  Forall2 (fun k t => reassembles (fst k) t = true) kids ts ->
  Forall (fun k => chunks_nl_last (fst k) = true) kids ->
  list_eqb_attr attr_eqb_fl
    (attr_of_stream (snd (concat_fold false kids (concat_init, []))) false)
    (line_first_bytes (concat ts) (concat_expected (map fst kids)) None 0 []) = true.
Proof. intros Hd Hr Hn. apply attr_lists_eqb_fl. apply concat_lines_attr_kids; assumption. Qed.

Print Assumptions concat_lines_attr.
Print Assumptions concat_lines_attr_kids.
Print Assumptions concat_lines_expected.
