(* C13, "the checker accepts the model" for composition laws between CACHE-FREE trees: the
   generic step.
   Two trees X, Y of the class rshape / treeA / tiny (no CachedSource) that
     - denote the same text and the same buffer,
     - attribute every byte of their text-carrying streams alike (both column settings; this is
       the stream-level form in which the composition laws are already proved),
     - declare (CompWarmContInv.decl) files inside one table D in which a name determines its
       content up to "absent = empty",
   are accepted by the extracted checker chk_C13 in STRICT mode on the model's own pair
   observations (api_pair), whatever observer histories ran on the two sides:
     law_checker : chk_C13 X Y false (api_pair X opsa Y opsb) = 0.
   The observers do not change the store of a cache-free tree; technically the two sides are run
   through the warm-cache machinery (the WarmTree and CompWarm files) whose invariants are trivial here. *)
From RS Require Import Base.Prelude Base.Text Rope.RopeModel Codec.Vlq Codec.CodecSpec
  Stream.Types Stream.Leaves Stream.Concat Stream.Replace Stream.Combined Stream.Tree
  Api.ApiTree Sem.Attr Sem.HashEq Api.ApiHist Checkers.ChkTree Checkers.ChkHist Checkers.ChkCombined Checkers.ChkComp
  Proofs.StreamText Proofs.StreamTree Proofs.AttrCodec Proofs.LawWrappers Proofs.RStreamTree Proofs.FinalCache
  Proofs.ColdCache Proofs.ColdCacheTree Proofs.BoundsPos
  Proofs.WarmTreeDefs Proofs.WarmTreeNodes Proofs.WarmTreeMain Proofs.WarmTreeHist
  Proofs.CompWarmLaws Proofs.CompWarmContBase Proofs.CompWarmContInv Proofs.CompWarmLawsFull.
Require Import Lia List.
Import ListNotations.

Local Open Scope N_scope.

Notation rshape := RStreamTree.rshape.

(* ------------------------------------------------------------------ *)
(* a cache-free tree is in the class of the warm-cache theorems         *)
(* ------------------------------------------------------------------ *)
Lemma nocache_ids : forall s, has_cached s = false -> ids s = [].
Proof.
  apply (src_ind' (fun s => has_cached s = false -> ids s = [])); cbn [ids has_cached]; try reflexivity.
  - intros cs IH H. induction IH as [|c cs Hc _ IHl]; [reflexivity|].
    cbn [existsb] in H. apply orb_false_iff in H. destruct H as [H1 H2].
    cbn [flat_map]. rewrite (Hc H1), (IHl H2). reflexivity.
  - intros i rs IH H. apply IH. exact H.
  - intros id i _ H. discriminate.
Qed.

Lemma rshape_ids_distinct s : rshape s = true -> ids_distinct s.
Proof. intros H. unfold ids_distinct. rewrite (nocache_ids s (rshape_nocache s H)). constructor. Qed.

Lemma rshape_cls s : rshape s = true -> treeA s = true -> tiny s = true -> cls s.
Proof.
  intros H1 H2 H3. pose proof (rshape_nocache s H1) as Hn.
  apply tiny_cls; [apply nocache_k2; exact Hn| |exact H2|]; rewrite (uncache_id s Hn); assumption.
Qed.

Lemma refA_nocache s c : has_cached s = false ->
  refA s c = attr_of_stream (evs_of (stream [] s (mkOpts c false))) c.
Proof. intros H. unfold refA, ref_evs, evs_of. rewrite (uncache_id s H). reflexivity. Qed.

(* ------------------------------------------------------------------ *)
(* one name, one content: list facts                                    *)
(* ------------------------------------------------------------------ *)
Lemma consistent_incl D D' : incl D' D -> consistent D -> consistent D'.
Proof. intros Hi H n c1 c2 H1 H2. apply (H n c1 c2); apply Hi; assumption. Qed.

Lemma tab_ok_mono D D' v : incl D D' -> tab_ok D v -> tab_ok D' v.
Proof. intros Hi H. destruct v as [m|]; [|exact I]. cbn [tab_ok] in *. apply (anns_ok_mono D D'); assumption. Qed.

(* ------------------------------------------------------------------ *)
(* the generic law                                                       *)
(* ------------------------------------------------------------------ *)
Section Law.
Variables X Y : src.
Variables opsa opsb : list hop.
Variable D : list (text * option text).
Hypothesis HsX : rshape X = true.
Hypothesis HaX : treeA X = true.
Hypothesis HtX : tiny X = true.
Hypothesis HsY : rshape Y = true.
Hypothesis HaY : treeA Y = true.
Hypothesis HtY : tiny Y = true.
Hypothesis Hsrc : source X = source Y.
Hypothesis Hbuf : buffer X = buffer Y.
Hypothesis Hattr : forall c : bool,
  attr_of_stream (evs_of (stream [] X (mkOpts c false))) c
  = attr_of_stream (evs_of (stream [] Y (mkOpts c false))) c.
Hypothesis HD : consistent D.
Hypothesis HDX : incl (decl X) D.
Hypothesis HDY : incl (decl Y) D.

Theorem law_checker : chk_C13 X Y false (api_pair X opsa Y opsb) = 0.
Proof.
  pose proof (rshape_ids_distinct X HsX) as HdX. pose proof (rshape_ids_distinct Y HsY) as HdY.
  pose proof (rshape_cls X HsX HaX HtX) as HcX. pose proof (rshape_cls Y HsY HaY HtY) as HcY.
  destruct (final_answers X HdX HcX _ (hops_sound X HdX HcX opsa)) as [A1 [A2 [A3 A4]]].
  destruct (final_answers Y HdY HcY _ (hops_sound Y HdY HcY opsb)) as [B1 [B2 [B3 B4]]].
  pose proof (final_maps_ok X HdX HcX _ (hops_invc X HdX HcX opsa [] (invc_empty X))) as [TA3 [SA3 [TA4 SA4]]].
  pose proof (final_maps_ok Y HdY HcY _ (hops_invc Y HdY HcY opsb [] (invc_empty Y))) as [TB3 [SB3 [TB4 SB4]]].
  cbn zeta in *.
  rewrite (refA_nocache X true (rshape_nocache X HsX)) in A3.
  rewrite (refA_nocache X false (rshape_nocache X HsX)) in A4.
  rewrite (refA_nocache Y true (rshape_nocache Y HsY)) in B3.
  rewrite (refA_nocache Y false (rshape_nocache Y HsY)) in B4.
  rewrite <- Hsrc in B3, B4. rewrite <- (Hattr true) in B3. rewrite <- (Hattr false) in B4.
  rewrite <- A3 in B3. rewrite <- A4 in B4.
  apply (tab_ok_mono _ D _ HDX) in TA3. apply (tab_ok_mono _ D _ HDX) in TA4.
  apply (tab_ok_mono _ D _ HDY) in TB3. apply (tab_ok_mono _ D _ HDY) in TB4.
  unfold chk_C13. rewrite HaX, HaY. cbn [andb negb]. unfold obs_equiv_laws.
  unfold api_pair in *. cbn [po_a po_b] in *.
  rewrite A1, B1, <- Hsrc, text_eqb_refl. cbn [negb]. rewrite A2, B2, <- Hbuf, text_eqb_refl. cbn [negb].
  rewrite (contents_same D _ _ (source X) true HD (eq_sym B3) TA3 TB3 SA3 SB3).
  rewrite (contents_same D _ _ (source X) false HD (eq_sym B4) TA4 TB4 SA4 SB4).
  rewrite B3, (list_eqb_attr_refl attr_eqb attr_eqb_refl). cbn [negb].
  rewrite B4, (list_eqb_attr_refl attr_eqb_fl attr_eqb_fl_refl). reflexivity.
Qed.

End Law.

(* without any hypothesis on the contents: text, buffer and attribution never differ - the strict
   verdict is 0, 5 or 6 (5 / 6: the content carried for a referenced file), the relaxed one is 0 *)
Section LawNoContents.
Variables X Y : src.
Variables opsa opsb : list hop.
Hypothesis HsX : rshape X = true.
Hypothesis HaX : treeA X = true.
Hypothesis HtX : tiny X = true.
Hypothesis HsY : rshape Y = true.
Hypothesis HaY : treeA Y = true.
Hypothesis HtY : tiny Y = true.
Hypothesis Hsrc : source X = source Y.
Hypothesis Hbuf : buffer X = buffer Y.
Hypothesis Hattr : forall c : bool,
  attr_of_stream (evs_of (stream [] X (mkOpts c false))) c
  = attr_of_stream (evs_of (stream [] Y (mkOpts c false))) c.

Lemma law_pair_facts :
  let o := api_pair X opsa Y opsb in
  get_text (nth_ans (po_a o) 1) = source X /\ get_text (nth_ans (po_b o) 1) = source X /\
  get_text (nth_ans (po_a o) 2) = buffer X /\ get_text (nth_ans (po_b o) 2) = buffer X /\
  attr_of_map (get_map (nth_ans (po_a o) 3)) (source X) true = attr_of_map (get_map (nth_ans (po_b o) 3)) (source X) true /\
  attr_of_map (get_map (nth_ans (po_a o) 4)) (source X) false = attr_of_map (get_map (nth_ans (po_b o) 4)) (source X) false.
Proof.
  pose proof (rshape_ids_distinct X HsX) as HdX. pose proof (rshape_ids_distinct Y HsY) as HdY.
  pose proof (rshape_cls X HsX HaX HtX) as HcX. pose proof (rshape_cls Y HsY HaY HtY) as HcY.
  destruct (final_answers X HdX HcX _ (hops_sound X HdX HcX opsa)) as [A1 [A2 [A3 A4]]].
  destruct (final_answers Y HdY HcY _ (hops_sound Y HdY HcY opsb)) as [B1 [B2 [B3 B4]]].
  cbn zeta in *.
  rewrite (refA_nocache X true (rshape_nocache X HsX)) in A3.
  rewrite (refA_nocache X false (rshape_nocache X HsX)) in A4.
  rewrite (refA_nocache Y true (rshape_nocache Y HsY)) in B3.
  rewrite (refA_nocache Y false (rshape_nocache Y HsY)) in B4.
  rewrite <- Hsrc in B1, B3, B4. rewrite <- Hbuf in B2. rewrite <- (Hattr true) in B3. rewrite <- (Hattr false) in B4.
  unfold api_pair. cbn [po_a po_b].
  rewrite A3, A4, B3, B4. repeat split; assumption.
Qed.

Theorem law_checker_relaxed : chk_C13 X Y true (api_pair X opsa Y opsb) = 0.
Proof.
  destruct law_pair_facts as [A1 [B1 [_ [_ [M3 M4]]]]]. cbn zeta in *.
  unfold chk_C13. rewrite HaX, HaY. cbn [andb negb]. rewrite A1, B1, text_eqb_refl. cbn [negb].
  rewrite M3, list_loc_ref_refl. cbn [negb].
  rewrite M4, (list_eqb_attr_refl attr_eqb_fl attr_eqb_fl_refl). reflexivity.
Qed.

Theorem law_checker_partial :
  let v := chk_C13 X Y false (api_pair X opsa Y opsb) in
  (v = 0 \/ v = 5 \/ v = 6) /\ (k2_shape X || k2_shape Y = false).
Proof.
  destruct law_pair_facts as [A1 [B1 [A2 [B2 [M3 M4]]]]]. cbn zeta in *.
  assert (K : k2_shape X || k2_shape Y = false).
  { rewrite (nocache_k2 X (rshape_nocache X HsX)), (nocache_k2 Y (rshape_nocache Y HsY)). reflexivity. }
  split; [|exact K].
  unfold chk_C13. rewrite HaX, HaY, K. cbn [andb negb]. unfold obs_equiv_laws.
  rewrite A1, B1, text_eqb_refl. cbn [negb]. rewrite A2, B2, text_eqb_refl. cbn [negb].
  rewrite M3, (list_eqb_attr_refl attr_eqb attr_eqb_refl). cbn [negb].
  rewrite M4, (list_eqb_attr_refl attr_eqb_fl attr_eqb_fl_refl). cbn [negb].
  destruct (referenced_contents_same _ _ _ true); cbn [negb]; [|right; left; reflexivity].
  destruct (referenced_contents_same _ _ _ false); cbn [negb]; [left|right; right]; reflexivity.
Qed.

End LawNoContents.


(* ASCII trees: the buffer is the text *)
Lemma treeA_wf_ascii s : treeA s = true -> tree_wf s = true /\ tree_ascii s = true.
Proof. unfold treeA. intros H. apply andb_true_iff in H. exact H. Qed.

Print Assumptions law_checker.
Print Assumptions law_checker_relaxed.
Print Assumptions law_checker_partial.
