(* Property C04 for trees with ReplaceSource nodes (class `pshape`): the sources / sourcesContent
   tables of the map returned by map() (R3), and the checker chk_C04 on the model's own
   observations.
     - `sources` has no duplicate; every file with surviving text is listed with the content of
       the OriginalSource of that name; no map at all only if no original text survives.
   A ReplaceSource forwards the announcements of its inner stream unchanged
   (ReplAttrTree.replace_stream_contents) and its tags are tags of the inner source or
   replacement content (`splice_tags_in`); ConcatSource as in ProvConcatTables, in both stream
   modes.  Clause 6 of the checker (columns = false, `line_ok`) is only applied to trees without
   ReplaceSource, where ProvConcatLines proves it. *)
From RS Require Import Base.Prelude Base.Text Rope.RopeModel Codec.Vlq Codec.CodecSpec
  Checkers.ChkCodec Stream.Types Stream.Leaves Stream.Concat Stream.Replace Stream.Tree Api.ApiTree
  Sem.Attr Sem.Prov Checkers.ChkTree Checkers.ChkProv Checkers.ChkComp Proofs.RopeWf Proofs.RopeOps
  Proofs.CodecKept Proofs.CodecEnc Proofs.CodecMain
  Proofs.StreamText Proofs.StreamLeaves Proofs.StreamMap Proofs.StreamConcat Proofs.StreamTree
  Proofs.WfStream Proofs.WfFinal Proofs.ReplaceSort Proofs.ReplaceText
  Proofs.RStreamText Proofs.RStreamPos Proofs.RStreamTree
  Proofs.AttrCodec Proofs.AttrSms Proofs.AttrLeaves Proofs.ProvTokens Proofs.ProvOriginal
  Proofs.LawConcatAttr Proofs.LawWrappers Proofs.FinalDense Proofs.FinalConcat Proofs.FinalTree
  Proofs.ReplAttrRef Proofs.ReplAttrStream Proofs.ReplAttrOrigin Proofs.ReplAttrCols Proofs.ReplAttrTree
  Proofs.ProvConcatBytes Proofs.ProvConcatSegs Proofs.ProvConcatTables Proofs.ProvConcatLines
  Proofs.ProvReplaceStream Proofs.ProvReplaceBytes Proofs.ProvReplaceExact Proofs.ProvReplaceSegs.
Require Import Lia List.

Local Open Scope N_scope.

(* ------------------------------------------------------------------ *)
(* the tags of a ReplaceSource                                          *)
(* ------------------------------------------------------------------ *)
Lemma in_drop {A} (x : A) n l : In x (drop n l) -> In x l.
Proof.
  unfold drop. generalize (N.to_nat n) as k. intros k. revert l. induction k as [|k IH]; intros l H; [exact H|].
  destruct l as [|y l]; [destruct H|]. right. apply IH. exact H.
Qed.

Lemma in_take {A} (x : A) n l : In x (take n l) -> In x l.
Proof.
  unfold take. generalize (N.to_nat n) as k. intros k. revert l. induction k as [|k IH]; intros l H; [destruct H|].
  destruct l as [|y l]; [destruct H|]. destruct H as [H|H]; [left; exact H|right; apply IH; exact H].
Qed.

Lemma splice_tags_in tags g : forall rs pos, In g (splice_tags tags rs pos) -> g = PRepl \/ In g tags.
Proof.
  induction rs as [|r rs IH]; intros pos H.
  - right. apply (in_drop g pos tags H).
  - cbn [splice_tags] in H. apply in_app_or in H. destruct H as [H|H].
    + right. destruct (pos <? r_start r); [|destruct H]. unfold slice in H.
      apply in_take in H. apply in_drop in H. exact H.
    + apply in_app_or in H. destruct H as [H|H]; [|apply (IH _ H)].
      left. apply in_map_iff in H. destruct H as [b [E _]]. symmetry. exact E.
Qed.

(* ------------------------------------------------------------------ *)
(* the induction over the tree, both stream modes                       *)
(* ------------------------------------------------------------------ *)
Definition tb2 (s : src) : Prop :=
  forall st fin, pshape s = true -> tinv s (fst (fst (stream st s (mkOpts true fin)))).

Lemma raw_tb2 s : is_raw s = true -> tb2 s.
Proof.
  intros Hr st fin _.
  assert (Es : anns (fst (fst (stream st s (mkOpts true fin)))) = []).
  { assert (E : fst (fst (stream st s (mkOpts true fin))) = fst (raw_stream (source s) fin))
      by (destruct s; try discriminate; reflexivity).
    rewrite E. unfold raw_stream. destruct fin; [reflexivity|]. cbn [fst].
    apply (contents_chunk_ok 0 0). apply raw_chunks_ok. }
  assert (Ep : prov s = map (fun _ => PRaw) (source_leaf s)) by (destruct s; try discriminate; reflexivity).
  constructor; rewrite Es; [reflexivity|intros n c []|].
  intros f l c b e Hin. rewrite Ep in Hin. apply in_map_iff in Hin. destruct Hin as [x [Hx _]]. discriminate.
Qed.

Lemma original_tb2 v n : tb2 (SOriginal v n).
Proof.
  intros st fin _. rewrite stream_original, original_stream_cols_fst.
  assert (EA : anns (ESource 0 n (Some v) :: fst (original_tokens (potential_tokens v) fin 1 0)) = [(n, Some v)]).
  { cbn [contents_of_events]. rewrite (anns_chunks _ (tokens_only _ fin 1 0)). reflexivity. }
  constructor; rewrite EA.
  - reflexivity.
  - intros n0 c [H|[]]. inversion H. subst. exists v. split; [reflexivity|left; reflexivity].
  - intros f l c b e Hin. cbn [prov] in Hin. unfold original_prov in Hin.
    apply orig_tags_file in Hin. subst f. left. reflexivity.
Qed.

Lemma kid_streams_has o : forall cs st c, In c cs ->
  exists k st', In k (fst (kid_streams st cs o)) /\ fst k = fst (fst (stream st' c o)).
Proof.
  induction cs as [|c0 cs IH]; intros st c H; [destruct H|].
  cbn [kid_streams]. destruct (stream st c0 o) as [[evs gi] st1] eqn:E.
  specialize (IH st1 c). destruct (kid_streams st1 cs o) as [ks st2]. cbn [fst] in *.
  destruct H as [<-|H].
  - exists (evs, gi), st. split; [left; reflexivity|]. rewrite E. reflexivity.
  - destruct (IH H) as [k [st' [H1 H2]]]. exists k, st'. split; [right; exact H1|exact H2].
Qed.

Lemma concat_tb2 cs : Forall tb2 cs -> tb2 (SConcat cs).
Proof.
  intros IH st fin Hp. rewrite Forall_forall in IH. pose proof (pshape_concat cs Hp) as Hp'.
  set (o := mkOpts true fin).
  destruct (Nat.eq_dec (length cs) 1) as [E|E].
  { destruct cs as [|c [|c2 r]]; try discriminate.
    change (stream st (SConcat [c]) o) with (stream st c o).
    destruct (IH c (or_introl eq_refl) st fin (Hp' c (or_introl eq_refl))) as [I1 I2 I3].
    constructor; [exact I1| |].
    - intros n0 c0 Hin. cbn [originals flat_map]. rewrite app_nil_r. apply I2. exact Hin.
    - intros f l c0 b e Hin. cbn [prov flat_map] in Hin. rewrite app_nil_r in Hin. apply (I3 f l c0 b e Hin). }
  rewrite (stream_concat_fold st cs o E). cbn [fst snd].
  change (final_source o) with fin.
  set (kids := fst (kid_streams st cs o)).
  pose proof (concat_fold_contents [] fin kids concat_init [] eq_refl) as [A _].
  pose proof (concat_fold_anns_incl fin kids concat_init []) as B. cbn [contents_of_events app] in B.
  constructor.
  - rewrite A. apply concat_fold_nodup. reflexivity.
  - intros n0 c0 Hin. apply B in Hin. apply in_flat_map in Hin. destruct Hin as [k [Hk Hin]].
    destruct (kid_streams_in o cs st k Hk) as [c [st' [Hc0 Ek]]]. rewrite Ek in Hin.
    destruct (IH c Hc0 st' fin (Hp' c Hc0)) as [_ I2 _].
    destruct (I2 n0 c0 Hin) as [v [-> Hv]]. exists v. split; [reflexivity|].
    cbn [originals]. apply in_flat_map. exists c. split; assumption.
  - intros f l c0 b e Hin. cbn [prov] in Hin. apply in_flat_map in Hin. destruct Hin as [c [Hc0 Hin]].
    destruct (kid_streams_has o cs st c Hc0) as [k [st' [Hk Ek]]].
    destruct (IH c Hc0 st' fin (Hp' c Hc0)) as [_ _ I3].
    pose proof (I3 f l c0 b e Hin) as Hf. fold o in Hf. rewrite <- Ek in Hf.
    assert (Hall : In f (map fst (flat_map (fun k => anns (fst k)) kids))).
    { apply in_map_iff in Hf. destruct Hf as [p [Ep Hp0]]. apply in_map_iff. exists p. split; [exact Ep|].
      apply in_flat_map. exists k. split; [exact Hk|exact Hp0]. }
    destruct (cfind_in f _ Hall) as [c1 E1].
    destruct (concat_fold_contents f fin kids concat_init [] eq_refl) as [_ B2].
    cbn [contents_of_events app] in B2. rewrite E1 in B2. destruct (cfind_some _ _ _ B2) as [X _].
    apply in_map_iff. exists (f, c1). split; [reflexivity|exact X].
Qed.

Lemma replace_tb2 i rs : tb2 i -> tb2 (SReplace i rs).
Proof.
  intros IH st fin Hp. cbn [pshape] in Hp. specialize (IH st false Hp).
  assert (E : anns (fst (fst (stream st (SReplace i rs) (mkOpts true fin)))) =
              anns (fst (fst (stream st i (mkOpts true false))))).
  { cbn [stream columns]. destruct (stream st i (mkOpts true false)) as [[ievs gi] st1]. cbn [fst].
    apply replace_stream_contents. }
  destruct IH as [I1 I2 I3]. constructor; rewrite E.
  - exact I1.
  - exact I2.
  - intros f l c b e Hin. rewrite prov_replace in Hin. apply splice_tags_in in Hin.
    destruct Hin as [Hin|Hin]; [discriminate|]. apply (I3 f l c b e Hin).
Qed.

Lemma tb2_all : forall s, tb2 s.
Proof.
  apply src_ind'.
  - intros b v. apply raw_tb2. reflexivity.
  - intros v. apply raw_tb2. reflexivity.
  - intros v. apply raw_tb2. reflexivity.
  - apply original_tb2.
  - intros v n m og i r st fin Hc. discriminate.
  - intros cs IH. apply concat_tb2. exact IH.
  - intros i rs IH. apply replace_tb2. exact IH.
  - intros id i _ st fin Hc. discriminate.
Qed.

(* ------------------------------------------------------------------ *)
(* the domain of the checker on this class                              *)
(* ------------------------------------------------------------------ *)
Lemma pshape_kinds : forall s b, pshape s = true -> c04_kinds s b = true.
Proof.
  apply (src_ind' (fun s => forall b, pshape s = true -> c04_kinds s b = true));
    try (intros; reflexivity); try (intros; discriminate).
  - intros cs IH b H. cbn [c04_kinds]. apply forallb_forall. intros c Hc.
    rewrite Forall_forall in IH. apply (IH c Hc). apply (pshape_concat cs H c Hc).
  - intros i rs IH b H. cbn [c04_kinds pshape] in *. apply IH. exact H.
Qed.

Lemma pshape_domain s : pshape s = true -> treeA s = true ->
  names_determine_content (originals s) = true -> c04_domain s = true.
Proof. intros Hp Ha Hn. unfold c04_domain. rewrite Ha, (pshape_kinds s false Hp), Hn. reflexivity. Qed.

Lemma pshape_no_replace : forall s, pshape s = true -> has_replace s = false -> cshape s = true.
Proof.
  apply (src_ind' (fun s => pshape s = true -> has_replace s = false -> cshape s = true));
    try (intros; reflexivity); try (intros; discriminate).
  intros cs IH Hp Hr. cbn [cshape]. apply forallb_forall. intros c Hc.
  rewrite Forall_forall in IH. apply (IH c Hc (pshape_concat cs Hp c Hc)).
  cbn [has_replace] in Hr. apply not_true_is_false. intros E.
  assert (X : existsb has_replace cs = true) by (apply existsb_exists; exists c; split; assumption).
  rewrite X in Hr. discriminate.
Qed.

(* ------------------------------------------------------------------ *)
(* R3: the tables clause (clause 5 of chk_C04)                          *)
(* ------------------------------------------------------------------ *)
Theorem replace_c04_tables (st : store) (s : src) :
  pshape s = true -> c04_domain s = true -> rsmall s = true -> csmall s = true -> fields_small st (peel s) ->
  match fst (map_of st s true) with
  | Some m => nodup_texts (sm_sources m)
              && forallb (file_listed m (originals s)) (surviving_files (prov s))
  | None => is_nil (surviving_files (prov s))
  end = true.
Proof.
  intros Hp Hdm Hs Hc Hf. pose proof (c04_domain_treeA s Hdm) as Ha. pose proof (c04_domain_names s Hdm) as Hn.
  pose proof (replace_c04_bytes st s Hp Ha Hs Hc Hf) as Hb. cbn zeta in Hb.
  pose proof (prov_length (fc_of (originals s)) (fc_of_ok s Hc Ha) st s Hp Ha Hs (fc_of_side s Hn)) as Hlen.
  destruct (peel_facts s) as [P1 [P2 [P3 [P4 [P5 [P6 [P7 P8]]]]]]].
  rewrite P1 in *. rewrite P3 in *. rewrite P2 in Hb, Hlen. rewrite <- (peel_originals s).
  set (q := peel s) in *. specialize (P4 Hp). specialize (P5 Ha). specialize (P6 Hs).
  assert (Hnq : names_determine_content (originals q) = true) by (unfold q; rewrite peel_originals; exact Hn).
  destruct (fst (map_of st q true)) as [m|] eqn:Em.
  - destruct (is_raw q) eqn:Er.
    { exfalso. destruct q; try discriminate; cbn [map_of fst] in Em; discriminate. }
    assert (Eg : map_of st q true = get_map st q true).
    { destruct q as [| | | | |cs|i rs|]; try discriminate; try reflexivity.
      destruct rs as [|r rs]; [exfalso; apply (P8 i); reflexivity|reflexivity]. }
    rewrite Eg in Em. unfold get_map in Em.
    pose proof (dense_tree_any q st (mkOpts true true) (pshape_rshape q P4) P5) as Hd.
    pose proof (tb2_all q st true P4) as HI.
    destruct (stream st q (mkOpts true true)) as [[evs gi] st']. cbn [fst snd] in *.
    assert (Hsome : forall p, In p (anns evs) -> snd p <> None).
    { intros [n c] Hp0. destruct (ti_orig _ _ HI n c Hp0) as [v [-> _]]. discriminate. }
    destruct (map_tables evs m Hd Hsome Em) as [Es Ec].
    apply andb_true_iff. split; [rewrite Es; apply (ti_nodup _ _ HI)|].
    apply forallb_forall. intros f Hf0. destruct (surviving_in f _ Hf0) as (l & c & b & Hin).
    apply (file_listed_ok q evs m f Hnq HI Es Ec).
    apply (ti_files _ _ HI f l c b false Hin).
  - (* no map: every byte is raw, replacement content or the line break of an empty line *)
    rewrite byte_ok_all2, attr_by_pos_nil in Hb.
    rewrite (all2_none_surviving _ _ Hb); [reflexivity|].
    rewrite map_length. symmetry. exact Hlen.
Qed.

(* ------------------------------------------------------------------ *)
(* the checker on the model's own observations                           *)
(* ------------------------------------------------------------------ *)
Theorem replace_chk_C04 (s : src) :
  pshape s = true -> c04_domain s = true -> rsmall s = true -> csmall s = true ->
  fields_small [] (peel s) -> (has_replace s = false -> fields_small_lines [] s) ->
  chk_C04 s (api_tree s []) = 0.
Proof.
  intros Hp Hdm Hs Hc Hf Hl0. pose proof (c04_domain_treeA s Hdm) as Ha. pose proof (c04_domain_names s Hdm) as Hn.
  destruct (has_replace s) eqn:Hr.
  2:{ pose proof (pshape_no_replace s Hp Hr) as Hcs.
      assert (Eq : peel s = s) by (destruct s; try reflexivity; discriminate).
      rewrite Eq in Hf. apply (concat_chk_C04 s Hcs Hdm Hf (Hl0 eq_refl)). }
  unfold chk_C04. rewrite Hdm. cbn [negb].
  cbn [api_tree to_source to_maps run_warm].
  assert (Hl : len (prov s) = len (source s)).
  { unfold len. f_equal.
    apply (prov_length (fc_of (originals s)) (fc_of_ok s Hc Ha) [] s Hp Ha Hs (fc_of_side s Hn)). }
  rewrite Hl, N.eqb_refl. cbn [negb].
  pose proof (replace_c04_segs [] s Hp Ha Hs Hc Hn Hf) as H1.
  pose proof (replace_c04_bytes [] s Hp Ha Hs Hc Hf) as H2.
  pose proof (replace_c04_tables [] s Hp Hdm Hs Hc Hf) as H5. cbn zeta in H1, H2.
  rewrite H1, H2, H5, Hr. reflexivity.
Qed.

(* a non-vacuous instance: deletion across a line break, insertion inside a token, a replacement
   reaching beyond the end, a ReplaceSource inside a ConcatSource inside a ReplaceSource, one
   file used twice *)
Example replace_chk_C04_example :
  let o1 := SOriginal [97; 59; 98; 10; 99; 100] [102] in
  let o2 := SOriginal [123; 97; 125; 10] [103] in
  let inner := SConcat [o1; SRawString [120; 10]; o2; o1] in
  let s := SReplace (SConcat [SReplace inner [mkRepl 2 5 [] None 1; mkRepl 5 5 [121; 10; 122] None 1];
                              SRawString [32]])
                    [mkRepl 1 2 [113] None 1; mkRepl 9 40 [10] None 1] in
  (pshape s, c04_domain s, rsmall s, csmall s, has_replace s,
   forallb mapping_small (chunk_mappings (fst (fst (stream [] (peel s) (mkOpts true true))))),
   chk_C04 s (api_tree s [])) = (true, true, true, true, true, true, 0).
Proof. vm_compute. reflexivity. Qed.

Print Assumptions replace_c04_tables.
Print Assumptions replace_chk_C04.
