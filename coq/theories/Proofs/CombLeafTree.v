(* Trees with combined-map leaves, part 1 (L2): the class `rshape2` = `rshape` (RStreamTree.v)
   extended by SourceMapSource leaves WITH an inner source map that satisfy `c09_wf`
   (boolean form `c09_wfb`), and for trees of this class
     - the analogue of `RStreamTree.rshape_stream_good` (both column settings): the
       text-carrying stream reassembles source(), is well positioned from (1,0), reports the
       exact end info, leaves the store alone, no chunk has a line feed before its last byte;
     - every stream (any options) is dense (`dense_tree_any`).
   The inductions of RStreamTree.v and FinalDense.v are re-run with the new leaf case; their
   Concat / Replace steps are used as they are. *)
From RS Require Import Base.Prelude Base.Text Rope.RopeModel Codec.Vlq Codec.CodecSpec
  Checkers.ChkCodec Stream.Types Stream.Leaves Stream.Concat Stream.Replace Stream.Combined Stream.Tree
  Sem.Attr Checkers.ChkTree Checkers.ChkCombined
  Proofs.RopeWf Proofs.CodecKept Proofs.StreamText Proofs.StreamLeaves Proofs.StreamMap Proofs.StreamConcat
  Proofs.StreamTree Proofs.ReplaceSort Proofs.ReplaceText
  Proofs.WfStream Proofs.WfFinal Proofs.RStreamText Proofs.RStreamPos Proofs.RStreamTree
  Proofs.AttrCodec Proofs.AttrSms Proofs.AttrLeaves Proofs.LawConcatAttr Proofs.LawWrappers
  Proofs.CacheReplay Proofs.FinalDense Proofs.FinalReplace Proofs.FinalConcat Proofs.FinalTree
  Proofs.CombAllSpec Proofs.CombAllT12 Proofs.CombLeafBase.
Require Import Lia List ZArith.

Local Open Scope N_scope.

(* ------------------------------------------------------------------ *)
(* the class                                                           *)
(* ------------------------------------------------------------------ *)
Definition c09_wfb (v : text) (m : smap) (name : text) (given : option text) (im : smap) : bool :=
  map_consistent v m
  && (len (filter (is_inner m name) (sm_sources m)) =? 1)
  && match original_of m name given with
     | Some ot => ascii ot && map_consistent ot im
     | None => true
     end
  && c09_sized m im.

Lemma c09_wfb_iff v m name given im : c09_wfb v m name given im = true <-> c09_wf v m name given im.
Proof.
  unfold c09_wfb, c09_wf. split.
  - intros H. apply andb_true_iff in H. destruct H as [H H4]. apply andb_true_iff in H. destruct H as [H H3].
    apply andb_true_iff in H. destruct H as [H1 H2]. apply N.eqb_eq in H2.
    split; [exact H1|]. split; [exact H2|]. split; [|exact H4].
    intros ot E. rewrite E in H3. apply andb_true_iff in H3. exact H3.
  - intros [H1 [H2 [H3 H4]]]. rewrite H1, H4. apply N.eqb_eq in H2. rewrite H2. cbn [andb]. rewrite andb_true_r.
    destruct (original_of m name given) as [ot|]; [|reflexivity].
    destruct (H3 ot eq_refl) as [A B]. rewrite A, B. reflexivity.
Qed.

Fixpoint rshape2 (s : src) : bool :=
  match s with
  | SMapped v n m og (Some im) _ => c09_wfb v m n og im
  | SCached _ _ => false
  | SConcat cs => forallb rshape2 cs
  | SReplace inner _ => rshape2 inner
  | _ => true
  end.

Lemma rshape_rshape2 : forall s, rshape s = true -> rshape2 s = true.
Proof.
  apply (src_ind' (fun s => rshape s = true -> rshape2 s = true)); try (intros; reflexivity).
  - intros v n m og i r H. destruct i; [discriminate|reflexivity].
  - intros cs IH H. cbn [rshape rshape2] in *. rewrite forallb_forall in H. apply forallb_forall.
    rewrite Forall_forall in IH. intros c Hc. apply (IH c Hc (H c Hc)).
  - intros i rs IH H. cbn [rshape rshape2] in *. apply IH. exact H.
  - intros id i _ H. discriminate.
Qed.

Lemma rshape2_concat cs : rshape2 (SConcat cs) = true -> forall c, In c cs -> rshape2 c = true.
Proof. cbn [rshape2]. intros H c Hc. rewrite forallb_forall in H. apply H. exact Hc. Qed.

(* ------------------------------------------------------------------ *)
(* text-carrying streams                                               *)
(* ------------------------------------------------------------------ *)
Definition tfacts (s : src) : Prop :=
  forall st cols,
    let r := stream st s (mkOpts cols false) in
    Good (fst (fst r)) (1, 0) (source s) /\ NLL (fst (fst r)) /\
    snd (fst r) = advance 1 0 (source s) /\ snd r = st.

Definition rgood2 (s : src) : Prop :=
  rshape2 s = true -> treeA s = true -> rsmall s = true -> tfacts s.

Lemma cfold_good2 cols cs : Forall tfacts cs ->
  forall cst evs st T, cinv (cst, evs) T -> WP evs (1, 0) -> NLL evs ->
  let r := fold_left (cfold_step (mkOpts cols false)) cs (cst, evs, st) in
  cinv (fst r) (T ++ concat (map source cs)) /\ snd r = st /\
  WP (snd (fst r)) (1, 0) /\ NLL (snd (fst r)).
Proof.
  induction 1 as [|c cs Hc _ IH]; intros cst evs st T HI HW HN.
  - cbn [fold_left map concat fst snd]. rewrite app_nil_r. auto.
  - cbn [fold_left]. rewrite cfold_step_eq.
    pose proof (Hc st cols) as [[A1 A1w] [A2 [A3 A4]]]. cbn zeta in A1, A1w, A2, A3, A4.
    destruct (stream st c (mkOpts cols false)) as [[cevs gi] st1]. cbn [fst snd] in *. subst st1.
    cbn [final_source].
    pose proof (cinv_step (cst, evs) T cevs gi (source c) HI A1 A3) as [B1 B2]. cbn zeta in B1, B2.
    cbn [fst snd] in B1, B2.
    destruct HI as [HC _]. cbn [fst] in HC.
    pose proof (concat_child_texts cst cevs gi HC) as [_ B3].
    destruct (concat_child false cst cevs gi) as [cst' out]. cbn [fst snd] in *.
    assert (HN' : NLL (evs ++ out)).
    { apply NLL_app; [exact HN|]. apply (NLL_texts _ _ B3). exact A2. }
    pose proof (IH cst' (evs ++ out) st (T ++ source c) B1 (B2 HW A1w) HN') as C.
    cbn zeta in C. cbn [map concat]. rewrite app_assoc. exact C.
Qed.

Lemma treeA_split s : treeA s = true -> tree_wf s = true /\ tree_ascii s = true.
Proof. unfold treeA. intros H. apply andb_true_iff in H. exact H. Qed.

Lemma combined_tfacts v n m og im r :
  treeA (SMapped v n m og (Some im) r) = true -> c09_wf v m n og im -> tfacts (SMapped v n m og (Some im) r).
Proof.
  intros HA Hwf st cols. cbn zeta. cbn [stream fst snd source].
  destruct (combined_text_good v n m og im r Hwf HA cols) as [G [Nl _]].
  split; [exact G|]. split; [exact Nl|]. split; [apply combined_end|reflexivity].
Qed.

Lemma rgood2_all : forall s, rgood2 s.
Proof.
  apply src_ind'.
  - intros b v H1 H2 H3 st cols. apply (rgood_all (SRaw b v) st cols eq_refl H2 H3).
  - intros v H1 H2 H3 st cols. apply (rgood_all (SRawString v) st cols eq_refl H2 H3).
  - intros v H1 H2 H3 st cols. apply (rgood_all (SRawBuffer v) st cols eq_refl H2 H3).
  - intros v n H1 H2 H3 st cols. apply (rgood_all (SOriginal v n) st cols eq_refl H2 H3).
  - intros v n m o i r H1 H2 H3. destruct i as [im|].
    + cbn [rshape2] in H1. apply c09_wfb_iff in H1. apply combined_tfacts; assumption.
    + intros st cols. apply (rgood_all (SMapped v n m o None r) st cols eq_refl H2 H3).
  - (* SConcat *) intros cs IH Hs HA Hm st cols. pose proof (rshape2_concat cs Hs) as Hs'.
    pose proof (treeA_concat cs HA) as Ha'. pose proof (rsmall_concat cs Hm) as Hm'.
    assert (Hall : Forall tfacts cs).
    { rewrite Forall_forall in *. intros c Hc. apply (IH c Hc (Hs' c Hc) (Ha' c Hc) (Hm' c Hc)). }
    cbn zeta. rewrite stream_concat_eq. cbn [source].
    pose proof (cfold_good2 cols cs Hall concat_init [] st [] cinv_init (WP_nil _) NLL_nil)
      as [[A1 [A2 A3]] [A4 [A5 A6]]].
    cbn zeta in *. cbn [app] in *.
    destruct cs as [|c [|c2 r]].
    + cbn [fold_left fst snd map concat]. split; [apply Good_nil|]. split; [apply NLL_nil|]. split; reflexivity.
    + inversion Hall as [|? ? Hc _]. subst. pose proof (Hc st cols) as B. cbn zeta in *.
      cbn [map concat]. rewrite app_nil_r. exact B.
    + destruct (fold_left (cfold_step (mkOpts cols false)) (c :: c2 :: r) (concat_init, [], st))
        as [[cst evs] st']. cbn [fst snd] in *.
      split; [split; assumption|]. split; [exact A6|]. split; [exact A3|exact A4].
  - (* SReplace *) intros i rs IH Hs HA Hm st cols. cbn [rshape2 rsmall] in Hs, Hm.
    unfold treeA in HA. cbn [tree_wf tree_ascii] in HA. apply andb_true_iff in HA. destruct HA as [Hw Ha].
    apply andb_true_iff in Hw. destruct Hw as [Hw1 Hw2].
    apply andb_true_iff in Ha. destruct Ha as [Ha1 Ha2].
    apply andb_true_iff in Hm. destruct Hm as [Hm1 Hm2]. apply N.ltb_lt in Hm2.
    assert (HAi : treeA i = true) by (unfold treeA; rewrite Hw1, Ha1; reflexivity).
    cbn zeta. rewrite stream_replace_eq. cbn [source].
    pose proof (IH Hs HAi Hm1 st cols) as [[A1 A1w] [A2 [A3 A4]]]. cbn zeta in A1, A1w, A2, A3, A4.
    destruct (stream st i (mkOpts cols false)) as [[ievs gi] st1]. cbn [fst snd] in *. subst gi.
    rewrite replace_source_text_splice.
    assert (Hord : Forall ordered (sort_repls rs)).
    { apply sort_repls_ordered. apply (repl_ok_ordered _ _ Hw2). }
    assert (Hb : len (source i) + clen (sort_repls rs) + 1 < two32).
    { rewrite clen_sort. exact Hm2. }
    pose proof (replace_stream_Good (sort_repls rs) ievs (source i) Hord A1 A1w A2 Hb) as [B1 [B2 B3]].
    cbn zeta in *. split; [exact B1|]. split; [exact B2|]. split; [exact B3|exact A4].
  - (* SCached *) intros id i _ Hs. discriminate.
Qed.

(* the analogue of `rshape_stream_good`, both column settings *)
Theorem rshape2_stream_good (st : store) (s : src) (cols : bool) :
  rshape2 s = true -> treeA s = true -> rsmall s = true ->
  let '(evs, gi, st') := stream st s (mkOpts cols false) in
  reassembles evs (source s) = true /\ well_positioned (chunks_of evs) 1 0 = true /\
  gi = advance 1 0 (source s) /\ st' = st.
Proof.
  intros H1 H2 H3. pose proof (rgood2_all s H1 H2 H3 st cols) as [[A1 A2] [A3 [A4 A5]]]. cbn zeta in *.
  destruct (stream st s (mkOpts cols false)) as [[evs gi] st']. cbn [fst snd] in *.
  split; [apply reassembles_iff; exact A1|]. split; [exact A2|]. split; assumption.
Qed.

Theorem rshape2_stream_nl_last (st : store) (s : src) (cols : bool) :
  rshape2 s = true -> treeA s = true -> rsmall s = true ->
  chunks_nl_last (fst (fst (stream st s (mkOpts cols false)))) = true.
Proof.
  intros H1 H2 H3. pose proof (rgood2_all s H1 H2 H3 st cols) as [_ [A3 _]]. cbn zeta in *.
  apply chunks_nl_last_iff. exact A3.
Qed.

(* ------------------------------------------------------------------ *)
(* every stream is dense                                               *)
(* ------------------------------------------------------------------ *)
Lemma dense2_ascii : forall s, rshape2 s = true -> tree_ascii s = true -> dense_any s.
Proof.
  apply (src_ind' (fun s => rshape2 s = true -> tree_ascii s = true -> dense_any s)).
  - intros b v _ _ o st. cbn [stream fst]. apply raw_stream_dense_any.
  - intros v _ _ o st. cbn [stream fst]. apply raw_stream_dense_any.
  - intros v _ _ o st. cbn [stream fst]. apply raw_stream_dense_any.
  - intros v n _ _ o st. cbn [stream fst]. apply original_stream_dense_any.
  - intros v n m og i r Hsh Ha o st. destruct i as [im|].
    + cbn [rshape2] in Hsh. apply c09_wfb_iff in Hsh. cbn [stream fst].
      apply (combined_dense v m n og im r o Hsh).
    + cbn [stream fst]. apply sm_stream_dense_any. apply (mapped_ascii v n m og r Ha).
  - intros cs IH Hsh Ha o st. cbn [rshape2 tree_ascii] in Hsh, Ha.
    assert (Hall : Forall dense_any cs).
    { rewrite Forall_forall in *. rewrite forallb_forall in Hsh, Ha. intros c Hc.
      apply IH; [exact Hc|apply Hsh; exact Hc|apply Ha; exact Hc]. }
    destruct (Nat.eq_dec (length cs) 1) as [E|E].
    + destruct cs as [|c [|c2 r]]; try discriminate. inversion Hall as [|? ? Hc _]. apply Hc.
    + rewrite (stream_concat_fold st cs o E). cbn [fst].
      apply concat_fold_dense_any. apply kid_streams_dense_any. exact Hall.
  - intros i rs IH Hsh Ha o st. cbn [rshape2 tree_ascii] in Hsh, Ha.
    apply andb_true_iff in Ha. destruct Ha as [Ha _].
    cbn [stream]. pose proof (IH Hsh Ha (mkOpts (columns o) false) st) as A.
    destruct (stream st i (mkOpts (columns o) false)) as [[ievs gi] st']. cbn [fst snd] in *.
    apply replace_stream_dense. exact A.
  - intros id i _ Hsh. discriminate.
Qed.

Theorem dense2_tree_any (s : src) (st : store) (o : opts) :
  rshape2 s = true -> treeA s = true -> dense (fst (fst (stream st s o))) 0 0 = true.
Proof.
  intros Hsh Ha. apply treeA_split in Ha. destruct Ha as [_ Ha]. apply dense2_ascii; assumption.
Qed.

Print Assumptions rshape2_stream_good.
Print Assumptions rshape2_stream_nl_last.
Print Assumptions dense2_tree_any.
