(* C09, whole stream, part 5: T1 and T2 for `combined_stream`, under the domain `c09_wf`:
   the outer map is consistent with the text, exactly one of its sources is the inner source,
   the inner map is consistent with the (ASCII) content of the inner source, and the explicit
   size bounds (tables inside u32, original columns below 2^31). *)
From RS Require Import Base.Prelude Base.Text Rope.RopeModel Codec.Vlq Codec.CodecSpec
  Stream.Types Stream.Leaves Stream.Combined Stream.Tree Sem.Attr Checkers.ChkTree Checkers.ChkCombined
  Proofs.StreamText Proofs.StreamLeaves Proofs.StreamMap Proofs.WfStream Proofs.AttrCodec Proofs.AttrSms
  Proofs.CombSearch Proofs.CombPass Proofs.CombRows Proofs.CombReach
  Proofs.CombAllSpec Proofs.CombAllInner Proofs.CombAllRun Proofs.CombAllStep Proofs.CombAllStream.
Require Import Lia List ZArith.

Local Open Scope N_scope.

(* ------------------------------------------------------------------ *)
(* the domain                                                          *)
(* ------------------------------------------------------------------ *)
Definition ocol31 (mp : mapping) : bool :=
  match m_orig mp with Some o => o_col o <? 2147483648 | None => true end.

Definition c09_sized (m im : smap) : bool :=
  (len (sm_sources m) + len (sm_sources im) <? two32)
  && (len (sm_names m) + len (sm_names im) <? two32)
  && forallb ocol31 (decode_mappings (sm_mappings m))
  && forallb ocol31 (decode_mappings (sm_mappings im)).

Definition is_inner (m : smap) (name : text) (x : text) : bool := text_eqb (get_source m x) name.

Definition c09_wf (v : text) (m : smap) (name : text) (given : option text) (im : smap) : Prop :=
  map_consistent v m = true /\
  len (filter (is_inner m name) (sm_sources m)) = 1 /\
  (forall ot, original_of m name given = Some ot -> ascii ot = true /\ map_consistent ot im = true) /\
  c09_sized m im = true.

(* ------------------------------------------------------------------ *)
(* exactly one inner source                                            *)
(* ------------------------------------------------------------------ *)
Lemma filter_one {A} (p : A -> bool) : forall l, len (filter p l) = 1 ->
  exists i x, nth_opt l i = Some x /\ p x = true /\
    forall j y, nth_opt l j = Some y -> p y = true -> j = i.
Proof.
  induction l as [|a l IH]; intros H; [cbn in H; lia|]. cbn [filter] in H. destruct (p a) eqn:Ea.
  - rewrite slen_cons in H. assert (H0 : len (filter p l) = 0) by lia. apply slen_0 in H0.
    exists 0, a. split; [reflexivity|]. split; [exact Ea|]. intros j y Hj Hy.
    destruct (N.eq_dec j 0) as [->|Hne]; [reflexivity|]. exfalso.
    rewrite snth_pos in Hj by lia. apply In_nth_opt in Hj.
    assert (Q : In y (filter p l)) by (apply filter_In; split; assumption). rewrite H0 in Q. destruct Q.
  - destruct (IH H) as (i & x & H1 & H2 & H3). exists (i + 1), x. split; [rewrite snth_succ; exact H1|].
    split; [exact H2|]. intros j y Hj Hy. destruct (N.eq_dec j 0) as [->|Hne].
    + rewrite snth_0 in Hj. inversion Hj. subst y. congruence.
    + rewrite snth_pos in Hj by lia. specialize (H3 _ _ Hj Hy). lia.
Qed.

Lemma outer_content_unique m name : forall srcs i k x,
  nth_opt srcs k = Some x -> is_inner m name x = true ->
  (forall j y, nth_opt srcs j = Some y -> is_inner m name y = true -> j = k) ->
  outer_content_of m srcs i name = content_in m (i + k).
Proof.
  induction srcs as [|a srcs IH]; intros i k x Hk Hx Hu; [rewrite nth_opt_nil in Hk; discriminate|].
  cbn [outer_content_of]. destruct (N.eq_dec k 0) as [->|Hne].
  - rewrite snth_0 in Hk. inversion Hk. subst a. unfold is_inner in Hx. rewrite Hx, N.add_0_r. reflexivity.
  - destruct (text_eqb (get_source m a) name) eqn:Ea.
    + exfalso. apply Hne. symmetry. apply (Hu 0 a); [apply snth_0|exact Ea].
    + rewrite snth_pos in Hk by lia. rewrite (IH (i + 1) (k - 1) x Hk Hx).
      * f_equal. lia.
      * intros j y Hj Hy. assert (Q : j + 1 = k) by (apply (Hu (j + 1) y); [rewrite snth_succ; exact Hj|exact Hy]). lia.
Qed.

Lemma one_inner_facts m name given :
  len (filter (is_inner m name) (sm_sources m)) = 1 ->
  exists i0, nth_opt (S_out m) i0 = Some name /\
    (forall j, nth_opt (S_out m) j = Some name -> j = i0) /\
    original m name given = match given with Some s => Some s | None => nth_opt (sm_contents m) i0 end.
Proof.
  intros H. destruct (filter_one _ _ H) as (i0 & x & H1 & H2 & H3). exists i0.
  pose proof H2 as H2'. unfold is_inner in H2'. apply text_eqb_eq in H2'.
  split; [rewrite S_out_eq, snth_map, H1, H2'; reflexivity|]. split.
  - intros j Hj. rewrite S_out_eq, snth_map in Hj. destruct (nth_opt (sm_sources m) j) as [y|] eqn:Ey; [|discriminate].
    inversion Hj as [Q]. apply (H3 j y Ey). unfold is_inner. rewrite Q. apply text_eqb_refl.
  - unfold original, original_of. destruct given as [s|]; [reflexivity|].
    rewrite (outer_content_unique m name (sm_sources m) 0 i0 x H1 H2 H3). reflexivity.
Qed.

(* ------------------------------------------------------------------ *)
(* chunks of a consistent map fit                                       *)
(* ------------------------------------------------------------------ *)
Lemma tchunks_forall (R : option orig -> Prop) evs : Forall (chunkP R) evs ->
  Forall (fun ch : text * mapping => R (m_orig (snd ch))) (tchunks evs).
Proof.
  induction 1 as [|e evs He _ IH]; [constructor|].
  destruct e as [[x|] mp|? ? ?|? ?]; cbn [chunkP] in He; try contradiction; cbn [tchunks]; [|exact IH].
  constructor; [exact He|exact IH].
Qed.

Lemma ocol31_forall ms : forallb ocol31 ms = true -> Forall (fun mp => col31 (m_orig mp)) ms.
Proof.
  intros H. apply Forall_forall. intros mp Hmp. rewrite forallb_forall in H. specialize (H mp Hmp).
  unfold ocol31 in H. unfold col31. destruct (m_orig mp); [apply N.ltb_lt; exact H|exact I].
Qed.

Lemma segs_fit t m : map_consistent t m = true -> forallb ocol31 (decode_mappings (sm_mappings m)) = true ->
  Forall (fun mp => (orig_ok (len (sm_sources m)) (len (sm_names m)) (m_orig mp) /\ orig_u32 (m_orig mp))
                    /\ col31 (m_orig mp)) (decode_mappings (sm_mappings m)).
Proof.
  intros Hc H31. apply Forall_and; [apply Forall_and|].
  - apply (map_consistent_segs t m Hc).
  - apply decode_mappings_u32.
  - apply ocol31_forall. exact H31.
Qed.

Lemma inner_fit_all cols im ot : map_consistent ot im = true ->
  forallb ocol31 (decode_mappings (sm_mappings im)) = true ->
  Forall (fun ch : text * mapping => inner_fit cols im (m_orig (snd ch)))
         (tchunks (fst (sm_stream ot im (mkOpts cols false)))).
Proof.
  intros Hc H31. set (ns := len (sm_sources im)).
  pose proof (sm_stream_shape
                (fun mo => (orig_ok ns (len (sm_names im)) mo /\ orig_u32 mo) /\ col31 mo)
                (fun mo => (orig_ok ns 0 mo /\ orig_u32 mo) /\ col31 mo)
                (conj (conj I I) I) (conj (conj I I) I)) as Hshape.
  assert (PQ : forall o0, (orig_ok ns (len (sm_names im)) (Some o0) /\ orig_u32 (Some o0)) /\ col31 (Some o0) ->
                          (orig_ok ns 0 (Some (strip_name o0)) /\ orig_u32 (Some (strip_name o0))) /\ col31 (Some (strip_name o0))).
  { intros o0 [[[A _] (B1 & B2 & B3 & _)] C]. cbn in *. tauto. }
  specialize (Hshape PQ ot im (mkOpts cols false) (segs_fit ot im Hc H31)).
  destruct Hshape as [E|[chunks [E Hch]]]; [rewrite E; constructor|].
  rewrite E, !tchunks_app, (tchunks_nochunks _ (announce_sources_chunks _ _ _)),
    (tchunks_nochunks _ (announce_names_chunks _ _)). cbn [app columns] in *.
  unfold inner_fit, INfull. destruct cols.
  - eapply Forall_impl; [|apply (tchunks_forall _ _ Hch)]. cbn beta. intros ch [[A B] C].
    split; [exact A|split; [exact B|exact C]].
  - eapply Forall_impl; [|apply (tchunks_forall _ _ Hch)]. cbn beta. intros ch [[A B] C].
    split; [exact A|split; [exact B|exact C]].
Qed.

Lemma chunkP_only R evs : Forall (chunkP R) evs -> only_chunks evs = true.
Proof.
  induction 1 as [|e evs He _ IH]; [reflexivity|]. destruct e; cbn [chunkP] in He; try contradiction. exact IH.
Qed.

(* ------------------------------------------------------------------ *)
(* the combined stream, as the run of `whole_stream`                    *)
(* ------------------------------------------------------------------ *)
Lemma sized_bounds m im cols : c09_sized m im = true ->
  len (ALLS m im) < two32 /\ len (ALLN cols m im) < two32 /\
  forallb ocol31 (decode_mappings (sm_mappings m)) = true /\
  forallb ocol31 (decode_mappings (sm_mappings im)) = true.
Proof.
  unfold c09_sized. intros H. apply andb_true_iff in H. destruct H as [H H4]. apply andb_true_iff in H.
  destruct H as [H H3]. apply andb_true_iff in H. destruct H as [H1 H2].
  apply N.ltb_lt in H1. apply N.ltb_lt in H2. split; [|split; [|split; assumption]].
  - unfold ALLS. rewrite slen_app, S_out_eq, !slen_map. unfold ISfull. rewrite src_pairs_len. exact H1.
  - unfold ALLN, N_out, INfull. rewrite slen_app. destruct cols; [exact H2|cbn; unfold two32; lia].
Qed.

Theorem combined_run v m name given im remove o :
  c09_wf v m name given im ->
  fst (combined_stream v m name given im remove o) = [] /\ fst (sm_stream v m o) = [] \/
  exists chunks S' N',
    fst (sm_stream v m o) =
      announce_sources m (sm_sources m) 0 ++ announce_names (N_out (columns o) m) 0 ++ chunks /\
    only_chunks chunks = true /\
    run (fst (combined_stream v m name given im remove o)) [] [] S' N' /\ NoDup S' /\
    Forall (fun p => In p (FILES m im name given))
           (contents_of_events (fst (combined_stream v m name given im remove o))) /\
    rsegs_of_events (fst (combined_stream v m name given im remove o)) [] [] =
      map (rc_chunk (columns o) m im name given remove) (chunks_of chunks).
Proof.
  intros (Hc & Hone & Hin & Hsz).
  destruct (one_inner_facts m name given Hone) as (i0 & Hi0 & Huniq & Horig).
  destruct (sized_bounds m im (columns o) Hsz) as (BS & BN & C1 & C2).
  set (ns := len (sm_sources m)). set (nn := len (sm_names m)).
  pose proof (sm_stream_shape
                (fun mo => orig_fit ns nn mo /\ col31 mo) (fun mo => orig_fit ns 0 mo /\ col31 mo)
                (conj (conj I I) I) (conj (conj I I) I)) as Hshape.
  assert (PQ : forall o0, orig_fit ns nn (Some o0) /\ col31 (Some o0) ->
                          orig_fit ns 0 (Some (strip_name o0)) /\ col31 (Some (strip_name o0))).
  { intros o0 [[[A _] (B1 & B2 & B3 & _)] C]. split; [split|exact C].
    - split; [exact A|exact I].
    - repeat split; assumption. }
  specialize (Hshape PQ v m o (segs_fit v m Hc C1)).
  unfold combined_stream. destruct (sm_stream v m o) as [oevs gi]. cbn [fst] in Hshape |- *.
  destruct Hshape as [->|[chunks [-> Hch]]].
  { left. cbn [outer_events fst]. split; reflexivity. }
  right.
  assert (Hfit : Forall (chunkP (chunk_fit (columns o) m)) chunks).
  { unfold chunk_fit, N_out. rewrite S_out_eq, slen_map. fold ns.
    destruct (columns o); (eapply Forall_impl; [|exact Hch]); intros [? ?|? ? ?|? ?]; cbn [chunkP]; try tauto. }
  assert (Hif : forall ot, original m name given = Some ot ->
            Forall (fun ch : text * mapping => inner_fit (columns o) im (m_orig (snd ch)))
                   (tchunks (fst (sm_stream ot im (mkOpts (columns o) false))))).
  { intros ot Eot. destruct (Hin ot Eot) as [_ Hci]. apply inner_fit_all; assumption. }
  destruct (whole_stream (columns o) m im name given remove i0 Hi0 Huniq BS BN Hif Horig Hin chunks Hfit)
    as (st' & out & E & R1 & R2 & R3 & R4).
  change (if columns o then sm_names m else []) with (N_out (columns o) m).
  rewrite E. cbn [fst].
  exists chunks, (b_sources st'), (b_names st'). split; [reflexivity|].
  split; [apply (chunkP_only _ _ Hch)|]. repeat (split; [assumption|]). exact R4.
Qed.

(* ------------------------------------------------------------------ *)
(* T1                                                                  *)
(* ------------------------------------------------------------------ *)
Theorem combined_rsegs v m name given im remove o :
  c09_wf v m name given im ->
  rsegs_of_events (fst (combined_stream v m name given im remove o)) [] [] =
  map (rc_seg (columns o) m im name given remove) (rsegs_of_events (fst (sm_stream v m o)) [] []).
Proof.
  intros Hwf. destruct (combined_run v m name given im remove o Hwf)
    as [[E1 E2]|(chunks & S' & N' & E & Hoc & _ & _ & _ & R)].
  - rewrite E1, E2. reflexivity.
  - rewrite R, E.
    rewrite (rsegs_announce_sources m (sm_sources m) [] []). cbn [app].
    rewrite (rsegs_announce_names (N_out (columns o) m) [] _ chunks). cbn [app].
    rewrite (rsegs_chunks _ _ _ Hoc), map_map. apply map_ext. intros [t mp].
    unfold rc_chunk, rc_seg, rsF. cbn [fst snd]. rewrite <- S_out_eq. reflexivity.
Qed.

(* chunk texts and generated positions are those of the outer splitter (corollary of T1) *)
Corollary combined_texts_positions v m name given im remove o :
  c09_wf v m name given im ->
  map (fun r => (fst r, fst (snd r))) (rsegs_of_events (fst (combined_stream v m name given im remove o)) [] []) =
  map (fun r => (fst r, fst (snd r))) (rsegs_of_events (fst (sm_stream v m o)) [] []).
Proof.
  intros Hwf. rewrite (combined_rsegs v m name given im remove o Hwf), map_map. apply map_ext.
  intros [t [[gl gc] a]]. reflexivity.
Qed.

(* ------------------------------------------------------------------ *)
(* T2                                                                  *)
(* ------------------------------------------------------------------ *)
Theorem combined_dense v m name given im remove o :
  c09_wf v m name given im ->
  dense (fst (combined_stream v m name given im remove o)) 0 0 = true.
Proof.
  intros Hwf. destruct (combined_run v m name given im remove o Hwf)
    as [[E1 _]|(chunks & S' & N' & _ & _ & R & _)].
  - rewrite E1. reflexivity.
  - apply (run_dense_all _ [] [] S' N' R).
Qed.

Theorem combined_sources_once v m name given im remove o :
  c09_wf v m name given im ->
  NoDup (map fst (contents_of_events (fst (combined_stream v m name given im remove o)))).
Proof.
  intros Hwf. destruct (combined_run v m name given im remove o Hwf)
    as [[E1 _]|(chunks & S' & N' & _ & _ & R & Hn & _)].
  - rewrite E1. constructor.
  - pose proof (run_sources _ _ _ _ _ R) as Q. cbn [app] in Q. rewrite <- Q. exact Hn.
Qed.

Theorem combined_contents v m name given im remove o :
  c09_wf v m name given im ->
  Forall (fun p => In p (FILES m im name given))
         (contents_of_events (fst (combined_stream v m name given im remove o))).
Proof.
  intros Hwf. destruct (combined_run v m name given im remove o Hwf)
    as [[E1 _]|(chunks & S' & N' & _ & _ & _ & _ & Hf & _)].
  - rewrite E1. constructor.
  - exact Hf.
Qed.

Print Assumptions combined_rsegs.
Print Assumptions combined_dense.
Print Assumptions combined_sources_once.
Print Assumptions combined_contents.
