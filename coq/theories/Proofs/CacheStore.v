(* C10, part 1 (K1, K2): the caches of CachedSource.
   K1  the store is write-once and keyed by the whole option record; it only grows along
       any computation (stream_chunks / map() of any tree, any history of observer calls).
   K2  the text views of a CachedSource are those of the wrapped source, whatever the store. *)
From RS Require Import Base.Prelude Base.Text Rope.RopeModel Codec.Vlq Codec.CodecSpec
  Stream.Types Stream.Leaves Stream.Concat Stream.Replace Stream.Combined Stream.Tree
  Api.ApiTree Sem.HashEq Api.ApiHist
  Proofs.StreamText Proofs.StreamTree.
Require Import Lia List.

Local Open Scope N_scope.

(* ------------------------------------------------------------------ *)
(* K1a: keys are whole option records                                   *)
(* ------------------------------------------------------------------ *)
Theorem opts_eqb_eq (a b : opts) : opts_eqb a b = true <-> a = b.
Proof.
  destruct a as [ca fa], b as [cb fb]. unfold opts_eqb. cbn [columns final_source]. split.
  - intros H. apply andb_true_iff in H. destruct H as [H1 H2].
    apply Bool.eqb_prop in H1. apply Bool.eqb_prop in H2. subst. reflexivity.
  - intros H. inversion H. subst. rewrite !Bool.eqb_reflx. reflexivity.
Qed.

Lemma opts_eqb_same (o : opts) : opts_eqb o o = true.
Proof. apply opts_eqb_eq. reflexivity. Qed.

Lemma opts_eqb_neq (a b : opts) : a <> b -> opts_eqb a b = false.
Proof.
  intros H. destruct (opts_eqb a b) eqn:E; [|reflexivity]. exfalso. apply H. apply opts_eqb_eq. exact E.
Qed.

Corollary opts_eqb_columns (c c' f f' : bool) : c <> c' -> opts_eqb (mkOpts c f) (mkOpts c' f') = false.
Proof. intros H. apply opts_eqb_neq. intros E. inversion E. contradiction. Qed.

Corollary opts_eqb_final (c c' f f' : bool) : f <> f' -> opts_eqb (mkOpts c f) (mkOpts c' f') = false.
Proof. intros H. apply opts_eqb_neq. intros E. inversion E. contradiction. Qed.

(* a hit returns an entry of the list whose key is exactly the key asked for, and it is the
   first such entry *)
Theorem cache_get_exact (c : cache) (o : opts) (v : option smap) :
  cache_get c o = Some v ->
  exists pre post, c = pre ++ (o, v) :: post /\ cache_get pre o = None.
Proof.
  induction c as [|[k w] c IH]; intros H; [discriminate|].
  cbn [cache_get] in H. destruct (opts_eqb k o) eqn:E.
  - apply opts_eqb_eq in E. subst k. inversion H. subst w. exists [], c. split; reflexivity.
  - destruct (IH H) as [pre [post [Ec Hp]]]. exists ((k, w) :: pre), post. split.
    + rewrite Ec. reflexivity.
    + cbn [cache_get]. rewrite E. exact Hp.
Qed.

Corollary cache_get_in (c : cache) (cols fin : bool) (v : option smap) :
  cache_get c (mkOpts cols fin) = Some v -> In (mkOpts cols fin, v) c.
Proof.
  intros H. destruct (cache_get_exact _ _ _ H) as [pre [post [E _]]]. rewrite E.
  apply in_or_app. right. left. reflexivity.
Qed.

Theorem cache_get_miss (c : cache) (o : opts) :
  cache_get c o = None <-> forall v, ~ In (o, v) c.
Proof.
  induction c as [|[k w] c IH]; cbn [cache_get In].
  - split; [intros _ v F; exact F|reflexivity].
  - destruct (opts_eqb k o) eqn:E.
    + apply opts_eqb_eq in E. subst k. split; [discriminate|]. intros H. exfalso. apply (H w). left. reflexivity.
    + rewrite IH. split.
      * intros H v [F|F]; [|exact (H v F)]. inversion F. subst k. rewrite opts_eqb_same in E. discriminate.
      * intros H v F. apply (H v). right. exact F.
Qed.

(* ------------------------------------------------------------------ *)
(* K1b: store_put is entry().or_insert()                               *)
(* ------------------------------------------------------------------ *)
Lemma cache_get_snoc (c : cache) (o k : opts) (v : option smap) :
  cache_get (c ++ [(k, v)]) o =
  match cache_get c o with Some x => Some x | None => if opts_eqb k o then Some v else None end.
Proof.
  induction c as [|[k' v'] c IH]; [reflexivity|].
  cbn [cache_get app]. destruct (opts_eqb k' o); [reflexivity|exact IH].
Qed.

(* the cache of `id` after a put *)
Lemma store_get_put (st : store) (id : N) (o : opts) (v : option smap) :
  store_get (store_put st id o v) id =
  match cache_get (store_get st id) o with
  | Some _ => store_get st id
  | None => store_get st id ++ [(o, v)]
  end.
Proof.
  induction st as [|[k c] st IH].
  - cbn [store_put store_get cache_get app]. rewrite N.eqb_refl. reflexivity.
  - cbn [store_put store_get]. destruct (k =? id) eqn:E.
    + cbn [store_get]. rewrite E. reflexivity.
    + cbn [store_get]. rewrite E. exact IH.
Qed.

Lemma store_get_put_ne (st : store) (id id' : N) (o : opts) (v : option smap) :
  id' <> id -> store_get (store_put st id o v) id' = store_get st id'.
Proof.
  intros Hne. induction st as [|[k c] st IH].
  - cbn [store_put store_get]. replace (id =? id') with false by (symmetry; apply N.eqb_neq; congruence).
    reflexivity.
  - cbn [store_put store_get]. destruct (k =? id) eqn:E.
    + apply N.eqb_eq in E. subst k. cbn [store_get].
      replace (id =? id') with false by (symmetry; apply N.eqb_neq; congruence). reflexivity.
    + cbn [store_get]. destruct (k =? id'); [reflexivity|exact IH].
Qed.

(* the entry written: the old value when there was one, the new value otherwise *)
Theorem store_put_get_same (st : store) (id : N) (o : opts) (v : option smap) :
  cache_get (store_get (store_put st id o v) id) o =
  Some (match cache_get (store_get st id) o with Some old => old | None => v end).
Proof.
  rewrite store_get_put. destruct (cache_get (store_get st id) o) as [old|] eqn:G.
  - exact G.
  - rewrite cache_get_snoc, G, opts_eqb_same. reflexivity.
Qed.

(* every other (id, key) answers as before *)
Theorem store_put_get_other (st : store) (id id' : N) (o o' : opts) (v : option smap) :
  (id', o') <> (id, o) ->
  cache_get (store_get (store_put st id o v) id') o' = cache_get (store_get st id') o'.
Proof.
  intros Hne. destruct (N.eq_dec id' id) as [E|E].
  - subst id'. assert (Ho : o <> o') by (intros F; apply Hne; subst; reflexivity).
    rewrite store_get_put. destruct (cache_get (store_get st id) o); [reflexivity|].
    rewrite cache_get_snoc, (opts_eqb_neq _ _ Ho). destruct (cache_get (store_get st id) o'); reflexivity.
  - rewrite store_get_put_ne by exact E. reflexivity.
Qed.

(* an existing entry is never changed *)
Theorem store_put_keeps (st : store) (id id' : N) (o o' : opts) (v x : option smap) :
  cache_get (store_get st id') o' = Some x ->
  cache_get (store_get (store_put st id o v) id') o' = Some x.
Proof.
  intros H. destruct (N.eq_dec id' id) as [E|E].
  - subst id'. rewrite store_get_put. destruct (cache_get (store_get st id) o); [exact H|].
    rewrite cache_get_snoc, H. reflexivity.
  - rewrite store_get_put_ne by exact E. exact H.
Qed.

(* results cached for one column setting are never served for the other: a put under
   (c, f) is invisible to every lookup under another record *)
Corollary store_put_other_columns (st : store) (id : N) (c f f' : bool) (v : option smap) :
  cache_get (store_get (store_put st id (mkOpts c f) v) id) (mkOpts (negb c) f') =
  cache_get (store_get st id) (mkOpts (negb c) f').
Proof. apply store_put_get_other. intros E. inversion E. destruct c; discriminate. Qed.

Corollary store_put_other_final (st : store) (id : N) (c c' f : bool) (v : option smap) :
  cache_get (store_get (store_put st id (mkOpts c f) v) id) (mkOpts c' (negb f)) =
  cache_get (store_get st id) (mkOpts c' (negb f)).
Proof. apply store_put_get_other. intros E. inversion E. destruct f; discriminate. Qed.

(* a value found after a put is the old one or the value just put under exactly this key *)
Theorem store_put_get_inv (st : store) (id id' : N) (o o' : opts) (v x : option smap) :
  cache_get (store_get (store_put st id o v) id') o' = Some x ->
  cache_get (store_get st id') o' = Some x \/
  (id' = id /\ o' = o /\ x = v /\ cache_get (store_get st id) o = None).
Proof.
  intros H. destruct (N.eq_dec id' id) as [E|E].
  - subst id'. rewrite store_get_put in H. destruct (cache_get (store_get st id) o) as [old|] eqn:G.
    + left. exact H.
    + rewrite cache_get_snoc in H. destruct (cache_get (store_get st id) o') as [y|] eqn:G'.
      * left. exact H.
      * destruct (opts_eqb o o') eqn:Eo; [|discriminate]. apply opts_eqb_eq in Eo. subst o'.
        inversion H. subst x. right. repeat split.
  - rewrite store_get_put_ne in H by exact E. left. exact H.
Qed.

(* ------------------------------------------------------------------ *)
(* K1c: the store only grows                                            *)
(* ------------------------------------------------------------------ *)
Definition store_le (st st' : store) : Prop :=
  forall id o x, cache_get (store_get st id) o = Some x -> cache_get (store_get st' id) o = Some x.

Lemma store_le_refl st : store_le st st.
Proof. intros id o x H. exact H. Qed.

Lemma store_le_trans a b c : store_le a b -> store_le b c -> store_le a c.
Proof. intros H1 H2 id o x H. apply H2. apply H1. exact H. Qed.

Lemma store_le_put st id o v : store_le st (store_put st id o v).
Proof. intros id' o' x H. apply store_put_keeps. exact H. Qed.

Definition grows (s : src) : Prop :=
  (forall st o, store_le st (snd (stream st s o))) /\
  (forall st cols, store_le st (snd (map_of st s cols))).

Lemma grows_get_map s : (forall st o, store_le st (snd (stream st s o))) ->
  forall st cols, store_le st (snd (get_map st s cols)).
Proof.
  intros H st cols. unfold get_map. specialize (H st (mkOpts cols true)).
  destruct (stream st s (mkOpts cols true)) as [[evs gi] st']. exact H.
Qed.

Lemma cfold_grows o cs : Forall grows cs -> forall cst evs st,
  store_le st (snd (fold_left (cfold_step o) cs (cst, evs, st))).
Proof.
  induction 1 as [|c cs Hc _ IH]; intros cst evs st; [apply store_le_refl|].
  cbn [fold_left]. rewrite cfold_step_eq. destruct Hc as [Hc _]. specialize (Hc st o).
  destruct (stream st c o) as [[cevs gi] st1]. cbn [snd] in Hc.
  destruct (concat_child (final_source o) cst cevs gi) as [cst' out].
  eapply store_le_trans; [exact Hc|apply IH].
Qed.

Theorem store_grows : forall s, grows s.
Proof.
  apply (src_ind' grows).
  - intros b v. split; intros; apply store_le_refl.
  - intros v. split; intros; apply store_le_refl.
  - intros v. split; intros; apply store_le_refl.
  - intros v n.
    assert (S : forall st o, store_le st (snd (stream st (SOriginal v n) o))) by (intros; apply store_le_refl).
    split; [exact S|]. apply grows_get_map. exact S.
  - intros v n m og i r.
    assert (S : forall st o, store_le st (snd (stream st (SMapped v n m og i r) o)))
      by (intros st o; cbn [stream]; destruct i; apply store_le_refl).
    split; [exact S|]. intros st cols. destruct i as [im|]; [|apply store_le_refl].
    apply (grows_get_map _ S).
  - intros cs Hall.
    assert (S : forall st o, store_le st (snd (stream st (SConcat cs) o))).
    { intros st o. rewrite stream_concat_eq. destruct cs as [|c [|c2 r]].
      - apply store_le_refl.
      - inversion Hall as [|? ? [Hc _] _]. apply Hc.
      - pose proof (cfold_grows o (c :: c2 :: r) Hall concat_init [] st) as A.
        destruct (fold_left (cfold_step o) (c :: c2 :: r) (concat_init, [], st)) as [[cst evs] st'].
        exact A. }
    split; [exact S|]. apply grows_get_map. exact S.
  - intros i rs [A B].
    assert (S : forall st o, store_le st (snd (stream st (SReplace i rs) o))).
    { intros st o. cbn [stream]. specialize (A st (mkOpts (columns o) false)).
      destruct (stream st i (mkOpts (columns o) false)) as [[ievs gi] st']. exact A. }
    split; [exact S|]. intros st cols. cbn [map_of]. destruct (is_nil rs); [apply B|].
    apply (grows_get_map _ S).
  - intros k i [A B]. split.
    + intros st o. cbn [stream]. destruct (cache_get (store_get st k) o) as [[m|]|]; try apply store_le_refl.
      specialize (A st o). destruct (stream st i o) as [[evs gi] st']. cbn [snd] in *.
      eapply store_le_trans; [exact A|apply store_le_put].
    + intros st cols. cbn [map_of]. destruct (cache_get (store_get st k) (mkOpts cols false));
        [apply store_le_refl|].
      specialize (B st cols). destruct (map_of st i cols) as [m st']. cbn [snd] in *.
      eapply store_le_trans; [exact B|apply store_le_put].
Qed.

(* the statement asked for: every entry present before is present, unchanged, afterwards *)
Theorem stream_store_mono (s : src) (st : store) (o : opts) (id : N) (k : opts) (x : option smap) :
  cache_get (store_get st id) k = Some x ->
  cache_get (store_get (snd (stream st s o)) id) k = Some x.
Proof. apply (proj1 (store_grows s)). Qed.

Theorem map_store_mono (s : src) (st : store) (cols : bool) (id : N) (k : opts) (x : option smap) :
  cache_get (store_get st id) k = Some x ->
  cache_get (store_get (snd (map_of st s cols)) id) k = Some x.
Proof. apply (proj2 (store_grows s)). Qed.

(* ... and along every history of observer calls *)
Lemma run_hop_grows (st : store) (s : src) (op : hop) : store_le st (snd (run_hop st s op)).
Proof.
  destruct op; cbn [run_hop snd]; try apply store_le_refl.
  - pose proof (proj2 (store_grows s) st cols) as H. destruct (map_of st s cols) as [m st']. exact H.
  - pose proof (proj1 (store_grows s) st (mkOpts cols final)) as H.
    destruct (stream st s (mkOpts cols final)) as [[evs gi] st']. exact H.
Qed.

Theorem run_hops_grows (s : src) : forall ops st, store_le st (snd (run_hops st s ops)).
Proof.
  induction ops as [|op ops IH]; intros st; [apply store_le_refl|].
  cbn [run_hops]. pose proof (run_hop_grows st s op) as H1.
  destruct (run_hop st s op) as [a st1]. cbn [snd] in H1. specialize (IH st1).
  destruct (run_hops st1 s ops) as [as_ st2]. cbn [snd] in *.
  eapply store_le_trans; eassumption.
Qed.

(* a hit is stable: once an entry exists the answer of the lookup never changes again *)
Corollary hit_stable (s : src) (ops : list hop) (st : store) (id : N) (k : opts) (x : option smap) :
  cache_get (store_get st id) k = Some x ->
  cache_get (store_get (snd (run_hops st s ops)) id) k = Some x.
Proof. apply run_hops_grows. Qed.

(* ------------------------------------------------------------------ *)
(* K2: text views                                                       *)
(* ------------------------------------------------------------------ *)
Theorem cached_source (id : N) (a : src) : source (SCached id a) = source a.
Proof. reflexivity. Qed.
Theorem cached_buffer (id : N) (a : src) : buffer (SCached id a) = buffer a.
Proof. reflexivity. Qed.
Theorem cached_size (id : N) (a : src) : size (SCached id a) = size a.
Proof. reflexivity. Qed.
Theorem cached_rope (id : N) (a : src) : rope_of (SCached id a) = rope_of a.
Proof. reflexivity. Qed.
Theorem cached_writer (id : N) (a : src) : writer_calls (SCached id a) = writer_calls a.
Proof. reflexivity. Qed.

Definition text_view (op : hop) : bool :=
  match op with OSrc | OBuf | OSize | ORope => true | _ => false end.

(* a text view neither reads nor writes the store, and answers as the wrapped source *)
Theorem text_view_hop (id : N) (a : src) (op : hop) (st : store) : text_view op = true ->
  run_hop st (SCached id a) op = (fst (run_hop [] a op), st).
Proof. destruct op; try discriminate; reflexivity. Qed.

Theorem text_view_any_store (s : src) (op : hop) (st st' : store) : text_view op = true ->
  fst (run_hop st s op) = fst (run_hop st' s op) /\ snd (run_hop st s op) = st.
Proof. destruct op; try discriminate; split; reflexivity. Qed.

(* inside any history, at any position *)
Theorem text_view_history (id : N) (a : src) : forall (ops : list hop) (st : store) (i : nat) (op : hop),
  nth_error ops i = Some op -> text_view op = true ->
  nth_error (fst (run_hops st (SCached id a) ops)) i = Some (fst (run_hop [] a op)) /\
  nth_error (fresh_answers a ops) i = Some (fst (run_hop [] a op)).
Proof.
  induction ops as [|o ops IH]; intros st i op Hn Hv; [destruct i; discriminate|].
  cbn [run_hops]. destruct (run_hop st (SCached id a) o) as [x st1] eqn:E1.
  specialize (IH st1). destruct (run_hops st1 (SCached id a) ops) as [as_ st2]. cbn [fst] in *.
  destruct i as [|i]; cbn [nth_error] in *.
  - inversion Hn. subst o. rewrite (text_view_hop id a op st Hv) in E1. inversion E1. subst.
    split; reflexivity.
  - apply IH; assumption.
Qed.

(* a history of text views leaves the store alone and is answered as by the wrapped source *)
Theorem text_views_transparent (id : N) (a : src) : forall (ops : list hop) (st : store),
  forallb text_view ops = true ->
  run_hops st (SCached id a) ops = (fresh_answers a ops, st).
Proof.
  induction ops as [|o ops IH]; intros st H; [reflexivity|].
  cbn [forallb] in H. apply andb_true_iff in H. destruct H as [H1 H2].
  cbn [run_hops]. rewrite (text_view_hop id a o st H1), (IH st H2). reflexivity.
Qed.

Print Assumptions opts_eqb_eq.
Print Assumptions cache_get_exact.
Print Assumptions store_put_get_same.
Print Assumptions store_put_get_other.
Print Assumptions store_put_keeps.
Print Assumptions stream_store_mono.
Print Assumptions map_store_mono.
Print Assumptions run_hops_grows.
Print Assumptions text_view_history.
Print Assumptions text_views_transparent.
