(* Property C04 for trees with ReplaceSource nodes, part 3: the exact chunk relation.
   `Rs Fc`: a chunk of the text-carrying stream mapped to (file, line, col) either lies on
   replacement content only, or it lies on consecutive bytes of that very file and line, the
   first of them at column `col` exactly, a statement start at most at its first byte - and its
   text is what the recorded content `Fc file` holds there (`piece_match`).  The last clause is
   what makes `check_original_content` of ReplaceSource succeed on every cut of such a chunk, so
   that the re-based column of a piece is the true column of its first byte: the relation is
   carried through ReplaceSource (ProvReplaceStream) and ConcatSource to every tree of the class
   `pshape` (Theorem pshape_chunks_s). *)
From RS Require Import Base.Prelude Base.Text Rope.RopeModel Codec.Vlq Codec.CodecSpec
  Checkers.ChkCodec Stream.Types Stream.Leaves Stream.Concat Stream.Replace Stream.Tree Api.ApiTree
  Sem.Attr Sem.Prov Checkers.ChkTree Checkers.ChkProv Checkers.ChkComp Proofs.RopeWf Proofs.RopeOps
  Proofs.StreamText Proofs.StreamLeaves Proofs.StreamMap Proofs.StreamConcat Proofs.StreamTree
  Proofs.WfStream Proofs.WfFinal Proofs.ReplaceSort Proofs.ReplaceText
  Proofs.RStreamText Proofs.RStreamPos Proofs.RStreamTree
  Proofs.AttrCodec Proofs.AttrSms Proofs.AttrLeaves Proofs.ProvTokens Proofs.ProvOriginal
  Proofs.LawConcatAttr Proofs.LawWrappers Proofs.FinalDense Proofs.FinalConcat Proofs.FinalTree
  Proofs.ReplAttrRef Proofs.ReplAttrStream Proofs.ReplAttrOrigin Proofs.ReplAttrCols Proofs.ReplAttrTree
  Proofs.ProvConcatBytes Proofs.ProvConcatSegs Proofs.ProvConcatTables Proofs.ProvReplaceStream Proofs.ProvReplaceBytes.
Require Import Lia List.

Local Open Scope N_scope.

(* ------------------------------------------------------------------ *)
(* texts: where a position lies in the lines of a text                  *)
(* ------------------------------------------------------------------ *)
Lemma no_nl_first_nl : forall a b x y, no_nl a -> no_nl b -> a ++ 10 :: x = b ++ 10 :: y -> a = b /\ x = y.
Proof.
  induction a as [|c a IH]; intros b x y Ha Hb H.
  - destruct b as [|d b]; [inversion H; auto|]. cbn [app] in H. inversion H. subst d.
    inversion Hb as [|? ? Hd _]. contradiction.
  - destruct b as [|d b].
    + cbn [app] in H. inversion H. subst c. inversion Ha as [|? ? Hc _]. contradiction.
    + cbn [app] in H. inversion H. subst d. inversion Ha as [|? ? _ Ha']. inversion Hb as [|? ? _ Hb']. subst.
      destruct (IH b x y Ha' Hb' H2) as [-> ->]. auto.
Qed.

Lemma no_nl_prefix_of : forall a b R Y, no_nl a -> no_nl b -> a ++ R = b ++ 10 :: Y -> exists z, b = a ++ z.
Proof.
  induction a as [|c a IH]; intros b R Y Ha Hb H; [exists b; reflexivity|].
  destruct b as [|d b].
  - cbn [app] in H. inversion H. subst c. inversion Ha as [|? ? Hc _]. contradiction.
  - cbn [app] in H. inversion H. subst d. inversion Ha as [|? ? _ Ha']. inversion Hb as [|? ? _ Hb']. subst.
    destruct (IH b R Y Ha' Hb' H2) as [z ->]. exists z. reflexivity.
Qed.

Lemma advance_no_nl t l c : no_nl t -> advance l c t = (l, c + len t).
Proof. intros H. exact (adv_no_nl (l, c) t H). Qed.

Lemma advance_line l c body : no_nl body -> advance l c (body ++ [10]) = (l + 1, 0).
Proof.
  intros H. rewrite advance_app, (advance_no_nl body l c H). cbn [advance]. change (10 =? NL) with true. reflexivity.
Qed.

(* the rest of the line on which a position lies is a prefix of the rest of the text *)
Lemma line_of_prefix : forall ls, lines_shape ls -> forall P X l0 line col,
  concat ls = P ++ X -> X <> [] -> advance l0 0 P = (line, col) ->
  exists ln Y, nth_opt ls (line - l0) = Some ln /\ l0 <= line /\ X = drop col ln ++ Y /\
    (Y = [] \/ exists l', drop col ln = l' ++ [10] /\ no_nl l').
Proof.
  induction 1 as [|body Hne Hb|body ls Hb Hls IH]; intros P X l0 line col Hc HX Ha.
  - cbn [concat] in Hc. destruct P; [|discriminate]. cbn [app] in Hc. subst X. contradiction.
  - cbn [concat] in Hc. rewrite app_nil_r in Hc. subst body.
    destruct (no_nl_app_inv _ _ Hb) as [HP _]. rewrite (advance_no_nl P l0 0 HP) in Ha. inversion Ha. subst line col.
    exists (P ++ X), []. rewrite N.sub_diag, drop_len_app, app_nil_r.
    split; [reflexivity|]. split; [lia|]. split; [reflexivity|left; reflexivity].
  - cbn [concat] in Hc. apply app_eq_app in Hc. destruct Hc as [l [[E1 E2]|[E1 E2]]].
    + destruct l as [|b l].
      * (* the position is the start of the next line *)
        rewrite app_nil_r in E1. subst P. cbn [app] in E2. subst X.
        rewrite (advance_line l0 0 body Hb) in Ha. inversion Ha. subst line col.
        destruct (IH [] (concat ls) (l0 + 1) (l0 + 1) 0 eq_refl HX eq_refl) as [ln [Y [K1 [K2 [K3 K4]]]]].
        exists ln, Y. split; [|split; [lia|split; [exact K3|exact K4]]].
        replace (l0 + 1 - l0) with 1 by lia. rewrite N.sub_diag in K1.
        unfold nth_opt in *. exact K1.
      * (* the position lies on this line *)
        destruct (exists_last (l := b :: l)) as [l' [a El]]; [discriminate|]. rewrite El in E1, E2.
        rewrite app_assoc in E1. apply app_inj_tail in E1. destruct E1 as [E1 <-]. subst body.
        destruct (no_nl_app_inv _ _ Hb) as [HP Hl'].
        rewrite (advance_no_nl P l0 0 HP) in Ha. inversion Ha. subst line col.
        exists ((P ++ l') ++ [10]), (concat ls). rewrite N.sub_diag, <- app_assoc, drop_len_app.
        split; [reflexivity|]. split; [lia|]. split; [exact E2|].
        right. exists l'. split; [reflexivity|exact Hl'].
    + (* the position lies on a later line *)
      subst P. rewrite advance_app, (advance_line l0 0 body Hb) in Ha.
      destruct (IH l X (l0 + 1) line col E2 HX Ha) as [ln [Y [K1 [K2 [K3 K4]]]]].
      exists ln, Y. split; [|split; [lia|split; [exact K3|exact K4]]].
      replace (line - l0) with (line - (l0 + 1) + 1) by lia.
      unfold nth_opt in *. replace (N.to_nat (line - (l0 + 1) + 1)) with (S (N.to_nat (line - (l0 + 1)))) by lia.
      exact K1.
Qed.

Lemma is_prefix_iff (p t : text) : is_prefix p t = true <-> exists r, t = p ++ r.
Proof.
  split.
  - intros H. exists (drop (len p) t). apply is_prefix_decomp. exact H.
  - intros [r ->]. apply is_prefix_refl_app.
Qed.

(* a token lies on one line: it is a prefix of the rest of its line *)
Lemma token_on_line v P tk R line col : v = P ++ tk ++ R -> piece_shape tk -> advance 1 0 P = (line, col) ->
  exists ln, line <> 0 /\ nth_opt (split_lines v) (line - 1) = Some ln /\ is_prefix tk (drop col ln) = true.
Proof.
  intros Hv Hp Ha.
  assert (HX : tk ++ R <> []) by (pose proof (piece_nonempty tk Hp); destruct tk; [contradiction|discriminate]).
  destruct (line_of_prefix (split_lines v) (split_lines_shape v) P (tk ++ R) 1 line col
              ltac:(rewrite concat_split_lines; exact Hv) HX Ha) as [ln [Y [K1 [K2 [K3 K4]]]]].
  exists ln. split; [lia|]. split; [exact K1|].
  destruct K4 as [->|[l' [El Hl']]].
  - rewrite app_nil_r in K3. rewrite <- K3. apply is_prefix_refl_app.
  - rewrite El in *. destruct Hp as [body [Hbody [->|[-> _]]]].
    + rewrite <- !app_assoc in K3. cbn [app] in K3.
      destruct (no_nl_first_nl body l' R Y Hbody Hl' K3) as [-> _]. apply is_prefix_iff. exists []. rewrite app_nil_r. reflexivity.
    + rewrite <- app_assoc in K3. cbn [app] in K3.
      destruct (no_nl_prefix_of body l' R Y Hbody Hl' K3) as [z ->].
      rewrite <- app_assoc. apply is_prefix_refl_app.
Qed.

Lemma ascii_in_concat : forall (ls : list text) l, ascii (concat ls) = true -> In l ls -> ascii l = true.
Proof.
  unfold ascii. induction ls as [|x ls IH]; intros l H Hin; [destruct Hin|].
  cbn [concat] in H. rewrite forallb_app in H. apply andb_true_iff in H. destruct H as [H1 H2].
  destruct Hin as [->|Hin]; [exact H1|apply IH; assumption].
Qed.

Lemma ascii_line v k ln : ascii v = true -> nth_opt (split_lines v) k = Some ln -> ascii ln = true.
Proof.
  intros Ha H. apply (ascii_in_concat (split_lines v)); [rewrite concat_split_lines; exact Ha|].
  unfold nth_opt in H. eapply nth_error_In. exact H.
Qed.

(* what holds of a text at (line, col) of a content holds of its slices further right *)
Lemma piece_match_slice v line col t a b : ascii v = true -> a <= b -> b <= len t ->
  piece_match (Some v) line col t = true -> piece_match (Some v) line (col + a) (slice a b t) = true.
Proof.
  intros Ha Hab Hb H. unfold piece_match in *. destruct (line =? 0); [discriminate|].
  destruct (nth_opt (split_lines v) (line - 1)) as [ln|] eqn:E; [|discriminate].
  pose proof (ascii_line v _ ln Ha E) as Hl.
  rewrite (substring_ascii_none ln col Hl) in H. rewrite (substring_ascii_none ln (col + a) Hl).
  apply is_prefix_iff in H. destruct H as [r Hr]. apply is_prefix_iff.
  rewrite <- (drop_drop a col ln), Hr. unfold slice.
  exists (drop (b - a) (drop a t) ++ r). rewrite drop_app_l by lia.
  rewrite app_assoc, take_drop. reflexivity.
Qed.

(* ------------------------------------------------------------------ *)
(* the exact chunk relation                                             *)
(* ------------------------------------------------------------------ *)
Section Strong.
Variable Fc : text -> option text.
Hypothesis FcOK : forall f v, Fc f = Some v -> len v < two32 /\ ascii v = true.

Definition exb (l : loc) (i : N) (g : ptag) : Prop :=
  exists stmt, g = POrig (l_file l) (l_line l) (l_col l + i) stmt false /\ (stmt = true -> i = 0).

Definition all_repl (g : list ptag) : Prop := Forall (fun x => x = PRepl) g.

Definition Rs (a : attr) (t : text) (g : list ptag) : Prop :=
  match a with
  | None => walkP (bk None) 0 g
  | Some l =>
    all_repl g \/
    (walkP (exb l) 0 g /\
     exists v, Fc (l_file l) = Some v /\ piece_match (Some v) (l_line l) (l_col l) t = true)
  end.

Lemma all_repl_fill (t : text) : all_repl (cfill PRepl t).
Proof. unfold all_repl, cfill. induction t as [|b t IH]; constructor; [reflexivity|exact IH]. Qed.

Lemma walk_none_repl : forall g i, all_repl g -> walkP (bk None) i g.
Proof.
  induction g as [|x g IH]; intros i H; [exact I|]. inversion H as [|? ? Hx Hg]. subst.
  split; [reflexivity|apply IH; exact Hg].
Qed.

Lemma Rs_fill a t : Rs a t (cfill PRepl t).
Proof.
  destruct a as [l|]; cbn [Rs]; [left; apply all_repl_fill|apply walk_none_repl; apply all_repl_fill].
Qed.

(* ------------------------------------------------------------------ *)
(* one inner chunk                                                     *)
(* ------------------------------------------------------------------ *)
Lemma idx_ok_ocol S Nn o c : idx_ok S Nn (Some o) -> idx_ok S Nn (Some (ocol o c)).
Proof. exact (fun H => H). Qed.

Lemma strong_chunk_ob ievs tags L : dense ievs 0 0 = true ->
  (forall nm c, In (nm, c) (contents_of_events ievs) -> c = Fc nm) ->
  CR Rs (tchunks [] [] ievs) tags ->
  forall done t m todo pre, ievs = done ++ EChunk (Some t) m :: todo -> Reass done pre ->
  ChunkObC Rs (tagf tags) L (len pre) t (m_orig m) (fst (tabs done [] [])) (snd (tabs done [] [])) (ctab done []).
Proof.
  intros Hd SF HCR done t m todo pre Hi HRd.
  set (S := fst (tabs done [] [])). set (Nn := snd (tabs done [] [])).
  pose proof (dense_chunk_idx ievs done t m todo Hi Hd) as Hidx. fold S Nn in Hidx.
  rewrite Hi, tchunks_app, tchunks_chunk in HCR. fold S Nn in HCR.
  destruct (CR_app_inv Rs _ _ _ HCR) as [g1 [g2 [Et [C1 C2]]]].
  destruct (CR_cons_inv Rs _ _ _ _ C2) as [g [gs [-> [Hlg [HR _]]]]].
  pose proof (CR_length Rs _ _ C1) as Hl1. rewrite (tchunks_text done [] [] pre HRd) in Hl1.
  assert (HT : forall q, q < len t -> tagf tags (len pre + q) = nth (N.to_nat q) g PRaw).
  { intros q Hq. rewrite Et. apply tagf_middle; [exact Hl1|]. unfold len in *. lia. }
  assert (Hgl : len g = len t) by (unfold len; rewrite Hlg; reflexivity).
  destruct (m_orig m) as [o0|] eqn:Eo.
  2:{ (* an unmapped chunk *)
      cbn [res Rs] in HR.
      exists (fun _ mo => mo = None). split; [reflexivity|]. split; [intros cpos mo ->; exact I|]. split.
      - intros st cpos k mo _ -> _ _ _ _. reflexivity.
      - intros cpos k mo -> Hk Hk' _. cbn [res Rs]. unfold bseg. apply walkP_nrange.
        intros j Hj. replace (len pre + cpos + j) with (len pre + (cpos + j)) by lia.
        rewrite HT by lia.
        pose proof (walkP_nth (bk None) PRaw g 0 (N.to_nat (cpos + j)) HR ltac:(unfold len in *; lia)) as K.
        exact K. }
  destruct (res S Nn (Some o0)) as [l0|] eqn:Er; [|discriminate].
  assert (El : l0 = mkLoc (match nth_opt S (o_src o0) with Some s => s | None => BAD end) (o_line o0) (o_col o0)
                          (match o_name o0 with
                           | Some k => Some (match nth_opt Nn k with Some x => x | None => BAD end)
                           | None => None end)) by (cbn [res] in Er; inversion Er; reflexivity).
  cbn [Rs] in HR. destruct HR as [HA|[HE [v [Hv Hm]]]].
  - (* a chunk of replacement content *)
    assert (HAq : forall q, q < len t -> tagf tags (len pre + q) = PRepl).
    { intros q Hq. rewrite (HT q Hq). unfold all_repl in HA. rewrite Forall_forall in HA. apply HA.
      apply nth_In. unfold len in *. lia. }
    exists (fun _ mo => idx_ok S Nn mo). split; [exact Hidx|]. split; [intros cpos mo H; exact H|]. split.
    + intros st cpos k mo _ H _ _ _ _. apply idx_ok_adv_col. exact H.
    + intros cpos k mo _ Hk Hk' _.
      assert (HAll : all_repl (bseg (tagf tags) (len pre + cpos) (len pre + k))).
      { unfold all_repl, bseg. apply Forall_forall. intros x Hx. apply in_map_iff in Hx.
        destruct Hx as [p [<- Hp]].
        assert (Hr : len pre + cpos <= p /\ p < len pre + k).
        { clear -Hp. remember (N.to_nat (len pre + k - (len pre + cpos))) as kk.
          assert (Hk : N.of_nat kk <= len pre + k - (len pre + cpos)) by lia. clear Heqkk.
          revert Hp Hk. generalize (len pre + cpos) as p0. induction kk as [|kk IHk]; intros p0 Hp Hk; [destruct Hp|].
          cbn [nrange] in Hp. destruct Hp as [<-|Hp]; [lia|]. specialize (IHk (p0 + 1) Hp ltac:(lia)). lia. }
        replace p with (len pre + (p - len pre)) by lia. apply HAq. lia. }
      destruct (res S Nn mo); cbn [Rs]; [left; exact HAll|apply walk_none_repl; exact HAll].
  - (* a chunk of original text *)
    destruct (FcOK _ _ Hv) as [Hvs Hva].
    assert (Hsrc : o_src o0 < len S) by (destruct Hidx as [H _]; exact H).
    destruct (snth_lt_some _ _ Hsrc) as [nm Hnm].
    assert (Hfile : l_file l0 = nm) by (rewrite El; cbn [l_file]; rewrite Hnm; reflexivity).
    assert (Hline : l_line l0 = o_line o0) by (rewrite El; reflexivity).
    assert (Hcol : l_col l0 = o_col o0) by (rewrite El; reflexivity).
    assert (Hd' : dense done (len (@nil text)) (len (@nil text)) = true).
    { rewrite Hi in Hd. apply (dense_split done _ [] []) in Hd. apply Hd. }
    destruct (contents_parallel done [] [] [] [] eq_refl Hd') with (i := o_src o0) (nm := nm) as [c [K1 K2]].
    { intros i0 nm0 H0. rewrite snth_nil in H0. discriminate. }
    { exact Hnm. }
    cbn [app] in K2.
    assert (Hc : c = Some v).
    { rewrite <- Hv, Hfile. apply SF. rewrite Hi, contents_of_events_app. apply in_or_app. left. exact K2. }
    subst c.
    assert (Hne : forall a b, a < b -> b <= len t -> slice a b t <> []).
    { intros a b H1 H2 E. assert (K : len (slice a b t) = b - a) by (apply len_slice; lia).
      rewrite E, len_nil in K. lia. }
    exists (fun cpos mo => mo = Some (ocol o0 (o_col o0 + cpos))).
    split; [rewrite N.add_0_r, ocol_self; reflexivity|]. split; [intros cpos mo ->; exact Hidx|]. split.
    + intros st cpos k mo HC -> Hk Hk' _ _. unfold adv_col.
      rewrite (check_content_match st (ocol o0 (o_col o0 + cpos)) (Some v)) by (rewrite HC; exact K1).
      cbn [ocol o_src o_line o_col o_name].
      pose proof (piece_match_slice v (l_line l0) (l_col l0) t cpos k Hva ltac:(lia) ltac:(lia) Hm) as Hp.
      rewrite Hline, Hcol in Hp. rewrite Hp.
      pose proof (piece_match_bound v _ _ _ (Hne cpos k Hk ltac:(lia)) Hp) as Bd.
      assert (Hlp : len (slice cpos k t) = k - cpos) by (apply len_slice; lia).
      rewrite wrap32_small by lia. rewrite Hlp. unfold ocol. f_equal. f_equal. lia.
    + intros cpos k mo -> Hk Hk' _. rewrite res_ocol. fold S Nn. rewrite Er. cbn [attr_with_col Rs]. right.
      cbn [l_file l_line l_col]. split.
      * unfold bseg. apply walkP_nrange. intros j Hj.
        replace (len pre + cpos + j) with (len pre + (cpos + j)) by lia. rewrite HT by lia.
        pose proof (walkP_nth (exb l0) PRaw g 0 (N.to_nat (cpos + j)) HE ltac:(unfold len in *; lia)) as K.
        replace (0 + N.of_nat (N.to_nat (cpos + j))) with (cpos + j) in K by lia.
        destruct K as [stmt [E1 E2]]. exists stmt. cbn [l_file l_line l_col]. split.
        -- rewrite E1, Hcol. f_equal. lia.
        -- intros Hs. specialize (E2 Hs). lia.
      * exists v. split; [exact Hv|].
        pose proof (piece_match_slice v (l_line l0) (l_col l0) t cpos k Hva ltac:(lia) Hk' Hm) as Hp.
        rewrite Hcol in Hp. exact Hp.
Qed.

(* ------------------------------------------------------------------ *)
(* leaves                                                              *)
(* ------------------------------------------------------------------ *)
Lemma raw_chunks_CR_s S G : forall ls i,
  CR Rs (tchunks S G (raw_chunks ls i)) (map (fun _ => PRaw) (concat ls)).
Proof.
  induction ls as [|l ls IH]; intros i; [apply CR_nil|].
  cbn [raw_chunks concat]. rewrite tchunks_chunk, map_app. cbn [unmapped m_orig res].
  apply CR_cons; [apply map_length|apply walk_raw|apply IH].
Qed.

Lemma raw_stream_CR_s t : CR Rs (tchunks [] [] (fst (raw_stream t false))) (map (fun _ => PRaw) t).
Proof.
  unfold raw_stream. cbn [fst]. rewrite <- (concat_split_lines t) at 2. apply raw_chunks_CR_s.
Qed.

Lemma otg_tail_s n line col b' : no_nl b' -> forall tl col' i, (tl = [] \/ tl = [10]) -> col' = col + i ->
  walkP (exb (mkLoc n line col None)) i
        (map snd (otg n (b' ++ tl) (map (fun _ => false) (b' ++ tl)) line col' false)).
Proof.
  induction 1 as [|x b' Hx Hb IH]; intros tl col' i Htl Hc.
  - destruct Htl as [->| ->]; [exact I|].
    cbn [app map otg]. change (10 =? NL) with true. cbn [map snd walkP].
    split; [|exact I]. exists false. cbn [l_file l_line l_col]. subst col'. split; [reflexivity|discriminate].
  - cbn [app map otg]. replace (x =? NL) with false by (symmetry; apply N.eqb_neq; exact Hx).
    cbn [map snd walkP]. split.
    + exists false. cbn [l_file l_line l_col]. subst col'. split; [reflexivity|discriminate].
    + apply IH; [exact Htl|lia].
Qed.

Lemma otg_token_s n tk line col s : piece_shape tk -> lone tk = false ->
  walkP (exb (mkLoc n line col None)) 0 (map snd (otg n tk (tok_marks tk) line col s)).
Proof.
  intros Hp Hl. destruct (not_lone_shape tk Hp Hl) as (c0 & b' & tl & -> & Hc0 & Hb & Htl).
  assert (E0 : (c0 =? NL) = false) by (apply N.eqb_neq; exact Hc0).
  cbn [tok_marks otg]. rewrite E0. cbn [andb negb map snd walkP]. split.
  - exists true. cbn [l_file l_line l_col]. rewrite N.add_0_r. split; reflexivity.
  - apply otg_tail_s; [exact Hb|exact Htl|lia].
Qed.

Lemma tokens_CR_s n v : Fc n = Some v -> forall (toks : list text) (P : text) line col,
  v = P ++ concat toks -> advance 1 0 P = (line, col) ->
  Forall piece_shape toks -> tok_ok (col =? 0) toks ->
  CR Rs (tchunks [n] [] (fst (original_tokens toks false line col)))
        (map snd (otg n (concat toks) (token_starts toks) line col (col =? 0))).
Proof.
  intros Hv. destruct (FcOK n v Hv) as [_ Hva].
  induction toks as [|tk toks IH]; intros P line col HP Ha Hp Hok; [apply CR_nil|].
  inversion Hp as [|x0 l0 Htk Hp']; subst x0 l0. destruct Hok as [Hlone Hok'].
  pose proof (piece_nonempty tk Htk) as Hne.
  rewrite (otg_tokens_cons n tk toks line col Htk), map_app, original_tokens_cons.
  cbn [concat] in HP.
  assert (Ha' : advance 1 0 (P ++ tk) = (nxt_line tk line, nxt_col tk col)).
  { rewrite advance_app, Ha. apply nxt_advance. exact Htk. }
  specialize (IH (P ++ tk) (nxt_line tk line) (nxt_col tk col) ltac:(rewrite <- app_assoc; exact HP) Ha' Hp').
  rewrite (nxt_col_zero tk col Hne) in IH. specialize (IH Hok').
  rewrite <- (nxt_col_zero tk col Hne) in IH.
  destruct (lone tk) eqn:El.
  - pose proof (lone_eq tk El) as Etk. specialize (Hlone Etk). subst tk.
    cbn [app]. rewrite tchunks_chunk. cbn [unmapped m_orig res].
    apply CR_cons; [reflexivity| |exact IH].
    cbn [Rs tok_marks otg map snd walkP bk]. change (10 =? NL) with true. cbn [map snd walkP].
    rewrite Hlone. split; [reflexivity|exact I].
  - cbn [app]. rewrite tchunks_chunk. cbn [orig_at m_orig]. rewrite res_one.
    apply CR_cons; [| |exact IH].
    + rewrite map_length, otg_length by apply tok_marks_len. reflexivity.
    + cbn [Rs l_file l_line l_col]. right. split; [apply otg_token_s; assumption|].
      exists v. split; [exact Hv|].
      destruct (token_on_line v P tk (concat toks) line col HP Htk Ha) as [ln [H1 [H2 H3]]].
      unfold piece_match. replace (line =? 0) with false by (symmetry; apply N.eqb_neq; exact H1).
      rewrite H2. rewrite (substring_ascii_none ln col (ascii_line v _ ln Hva H2)). exact H3.
Qed.

Lemma original_stream_CR_s v n : Fc n = Some v ->
  CR Rs (tchunks [] [] (fst (original_stream v n oT))) (original_prov v n).
Proof.
  intros Hv. unfold oT. rewrite original_stream_cols_fst. unfold tchunks. rewrite rsegs_source0.
  fold (tchunks [n] [] (fst (original_tokens (potential_tokens v) false 1 0))).
  pose proof (tokens_CR_s n v Hv (potential_tokens v) [] 1 0
                ltac:(rewrite concat_potential_tokens; reflexivity) eq_refl
                (potential_tokens_pieces v) (potential_tokens_ok v)) as H.
  rewrite <- otg_v_tokens in H. unfold otg_v in H. rewrite otg_tags in H. exact H.
Qed.
End Strong.

(* ------------------------------------------------------------------ *)
(* what the text-carrying stream announces: the OriginalSources below    *)
(* ------------------------------------------------------------------ *)
Definition cfrom (s : src) (evs : list event) : Prop :=
  forall n c, In (n, c) (contents_of_events evs) -> exists v, c = Some v /\ In (n, v) (originals s).

Lemma kid_streams_in o : forall cs st k, In k (fst (kid_streams st cs o)) ->
  exists c st', In c cs /\ fst k = fst (fst (stream st' c o)).
Proof.
  induction cs as [|c cs IH]; intros st k H; [destruct H|].
  cbn [kid_streams] in H. destruct (stream st c o) as [[evs gi] st1] eqn:E.
  specialize (IH st1 k). destruct (kid_streams st1 cs o) as [ks st2]. cbn [fst] in *.
  destruct H as [<-|H].
  - exists c, st. split; [left; reflexivity|]. rewrite E. reflexivity.
  - destruct (IH H) as [c' [st' [H1 H2]]]. exists c', st'. split; [right; exact H1|exact H2].
Qed.

Theorem pshape_contents : forall s, pshape s = true -> forall st, cfrom s (fst (fst (stream st s oT))).
Proof.
  apply (src_ind' (fun s => pshape s = true -> forall st, cfrom s (fst (fst (stream st s oT))))).
  - intros b v _ st n c H. cbn [stream fst oT final_source] in H. unfold raw_stream in H. cbn [fst] in H.
    rewrite (contents_chunk_ok 0 0 _ (raw_chunks_ok 0 0 _ 1)) in H. destruct H.
  - intros v _ st n c H. cbn [stream fst oT final_source] in H. unfold raw_stream in H. cbn [fst] in H.
    rewrite (contents_chunk_ok 0 0 _ (raw_chunks_ok 0 0 _ 1)) in H. destruct H.
  - intros v _ st n c H. cbn [stream fst oT final_source] in H. unfold raw_stream in H. cbn [fst] in H.
    rewrite (contents_chunk_ok 0 0 _ (raw_chunks_ok 0 0 _ 1)) in H. destruct H.
  - intros v n0 _ st n c H. unfold oT in H. rewrite stream_original, original_stream_cols_fst in H.
    cbn [contents_of_events] in H. rewrite (anns_chunks _ (tokens_only _ false 1 0)) in H.
    destruct H as [H|[]]. inversion H. subst. exists v. split; [reflexivity|left; reflexivity].
  - intros v n m og i r Hp. discriminate.
  - intros cs IH Hp st. rewrite Forall_forall in IH. pose proof (pshape_concat cs Hp) as Hp'.
    destruct (Nat.eq_dec (length cs) 1) as [E|E].
    { destruct cs as [|c [|c2 r]]; try discriminate.
      change (stream st (SConcat [c]) oT) with (stream st c oT).
      intros n c0 H. destruct (IH c (or_introl eq_refl) (Hp' c (or_introl eq_refl)) st n c0 H) as [v [-> Hv]].
      exists v. split; [reflexivity|]. cbn [originals flat_map]. rewrite app_nil_r. exact Hv. }
    rewrite (stream_concat_fold st cs oT E). cbn [fst snd oT final_source].
    intros n c0 H.
    apply (concat_fold_anns_incl false (fst (kid_streams st cs (mkOpts true false))) concat_init []) in H.
    cbn [contents_of_events app] in H. apply in_flat_map in H. destruct H as [k [Hk H]].
    destruct (kid_streams_in _ cs st k Hk) as [c [st' [Hc Ek]]]. rewrite Ek in H.
    destruct (IH c Hc (Hp' c Hc) st' n c0 H) as [v [-> Hv]]. exists v. split; [reflexivity|].
    cbn [originals]. apply in_flat_map. exists c. split; assumption.
  - intros i rs IH Hp st n c H. cbn [pshape] in Hp. unfold oT in *. rewrite stream_replace_eq in H.
    specialize (IH Hp st n c). destruct (stream st i (mkOpts true false)) as [[ievs gi] st1]. cbn [fst snd] in *.
    rewrite replace_stream_contents in H. apply IH. exact H.
  - intros id i _ Hp. discriminate.
Qed.

(* ------------------------------------------------------------------ *)
(* all trees of the class                                               *)
(* ------------------------------------------------------------------ *)
Definition side_s (Fc : text -> option text) (s : src) : Prop :=
  forall n v, In (n, v) (originals s) -> Fc n = Some v.

Theorem pshape_chunks_s (Fc : text -> option text) (st : store) (s : src) :
  (forall f v, Fc f = Some v -> len v < two32 /\ ascii v = true) ->
  pshape s = true -> treeA s = true -> rsmall s = true -> side_s Fc s ->
  CR (Rs Fc) (tchunks [] [] (fst (fst (stream st s oT)))) (prov s).
Proof.
  intros FcOK Hp Ha Hs Hsd.
  apply (cgood_all (Rs Fc) (side_s Fc) (Rs_fill Fc)); try assumption.
  - intros cs H c Hc n v Hin. apply H. cbn [originals]. apply in_flat_map. exists c. split; assumption.
  - intros i rs H. exact H.
  - apply raw_stream_CR_s.
  - intros v n H _. apply (original_stream_CR_s Fc FcOK). apply H. left. reflexivity.
  - intros st0 inner Hpi Hai _ Hsi tags L HC done t m todo pre Hi HRd.
    refine (strong_chunk_ob Fc FcOK (fst (fst (stream st0 inner oT))) tags L
             (dense_tree_any inner st0 oT (pshape_rshape inner Hpi) Hai) _ HC done t m todo pre Hi HRd).
    intros nm c Hin. destruct (pshape_contents inner Hpi st0 nm c Hin) as [v [-> Hv]].
    symmetry. apply Hsi. exact Hv.
Qed.

Print Assumptions strong_chunk_ob.
Print Assumptions pshape_chunks_s.
