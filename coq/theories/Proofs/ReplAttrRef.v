(* ReplaceSource attribution (C06), part 1: the byte-level reference of Checkers/ChkComp.v
   rewritten as an "attribute splice" `aspl` that walks the sorted replacements exactly like
   `splice` walks them for the text; where the reference's cut points lie (`Sync`);
   what the reference table says about the bytes of one inner chunk. *)
From RS Require Import Base.Prelude Base.Text Rope.RopeModel Codec.Vlq Codec.CodecSpec
  Stream.Types Stream.Leaves Stream.Replace Stream.Tree Sem.Attr Checkers.ChkTree Checkers.ChkComp
  Proofs.RopeWf Proofs.StreamText Proofs.StreamLeaves Proofs.ReplaceSort Proofs.ReplaceText
  Proofs.RStreamText Proofs.AttrCodec Proofs.LawConcatAttr.
Require Import Lia List.

Local Open Scope N_scope.

(* ------------------------------------------------------------------ *)
(* ranges of byte positions                                            *)
(* ------------------------------------------------------------------ *)
Fixpoint nrange (p : N) (k : nat) : list N :=
  match k with O => [] | S k' => p :: nrange (p + 1) k' end.

Lemma nrange_app : forall a b p, nrange p (a + b) = nrange p a ++ nrange (p + N.of_nat a) b.
Proof.
  induction a as [|a IH]; intros b p.
  - cbn [Nat.add nrange app]. rewrite N.add_0_r. reflexivity.
  - cbn [Nat.add nrange app]. rewrite IH. do 2 f_equal. f_equal. rewrite Nat2N.inj_succ. lia.
Qed.

Lemma nrange_length : forall k p, length (nrange p k) = k.
Proof. induction k as [|k IH]; intros p; [reflexivity|]. cbn [nrange length]. rewrite IH. reflexivity. Qed.

Definition bseg {A} (B : N -> A) (p q : N) : list A := map B (nrange p (N.to_nat (q - p))).

Lemma bseg_nil {A} (B : N -> A) p q : q <= p -> bseg B p q = [].
Proof. intros H. unfold bseg. replace (q - p) with 0 by lia. reflexivity. Qed.

Lemma bseg_split {A} (B : N -> A) p m q : p <= m -> m <= q -> bseg B p q = bseg B p m ++ bseg B m q.
Proof.
  intros H1 H2. unfold bseg.
  replace (N.to_nat (q - p)) with (N.to_nat (m - p) + N.to_nat (q - m))%nat by lia.
  rewrite nrange_app, map_app. do 3 f_equal. lia.
Qed.

Lemma bseg_length {A} (B : N -> A) p q : length (bseg B p q) = N.to_nat (q - p).
Proof. unfold bseg. rewrite map_length, nrange_length. reflexivity. Qed.

Lemma nrange_ext {A} (B B' : N -> A) : forall k p,
  (forall x, p <= x -> x < p + N.of_nat k -> B x = B' x) -> map B (nrange p k) = map B' (nrange p k).
Proof.
  induction k as [|k IH]; intros p H; [reflexivity|].
  cbn [nrange map]. rewrite (H p) by lia. f_equal. apply IH. intros x H1 H2. apply H; lia.
Qed.

Lemma bseg_ext {A} (B B' : N -> A) p q :
  (forall x, p <= x -> x < q -> B x = B' x) -> bseg B p q = bseg B' p q.
Proof. intros H. unfold bseg. apply nrange_ext. intros x H1 H2. apply H; lia. Qed.

Lemma bseg_map {A C} (f : A -> C) (B : N -> A) p q : map f (bseg B p q) = bseg (fun x => f (B x)) p q.
Proof. unfold bseg. apply map_map. Qed.

Lemma nrange_const {A} (B : N -> A) (v : A) : forall k p,
  (forall x, p <= x -> x < p + N.of_nat k -> B x = v) -> map B (nrange p k) = repeat v k.
Proof.
  induction k as [|k IH]; intros p H; [reflexivity|].
  cbn [nrange map repeat]. rewrite (H p) by lia. f_equal. apply IH. intros x H1 H2. apply H; lia.
Qed.

Lemma map_const_repeat {A C} (v : C) (t : list A) : map (fun _ => v) t = repeat v (length t).
Proof. induction t as [|x t IH]; [reflexivity|]. cbn [map length repeat]. rewrite IH. reflexivity. Qed.

(* a piece of text lying at [p, q) all of whose bytes carry v *)
Lemma bseg_const {A} (B : N -> A) (v : A) (t : text) p q :
  p <= q -> len t = q - p -> (forall x, p <= x -> x < q -> B x = v) ->
  bseg B p q = map (fun _ => v) t.
Proof.
  intros Hpq Hl H. unfold bseg. rewrite map_const_repeat.
  replace (length t) with (N.to_nat (q - p)) by (unfold len in Hl; lia).
  apply nrange_const. intros x H1 H2. apply H; lia.
Qed.

(* ------------------------------------------------------------------ *)
(* the attribute splice                                                *)
(* ------------------------------------------------------------------ *)
Section Aspl.
Context {A : Type}.
Variable B : N -> A.                    (* what byte p of the inner text carries if it survives *)
Variable cattr : repl -> A -> list A.   (* what the content of r carries when emitted at a byte carrying a *)
Variable n : N.                         (* length of the inner text *)

Fixpoint aspl (rest : list repl) (c : N) : list A :=
  match rest with
  | [] => bseg B c n
  | r :: rest' =>
    let s := N.min (r_start r) n in
    let e := N.min (r_end r) n in
    bseg B c s ++ cattr r (B (N.max c s)) ++ aspl rest' (N.max c e)
  end.

Lemma aspl_walk (rest : list repl) (c q : N) :
  c <= q -> q <= n -> head_from q rest -> aspl rest c = bseg B c q ++ aspl rest q.
Proof.
  intros Hcq Hq Hh. destruct rest as [|r rest]; cbn [aspl].
  - apply bseg_split; assumption.
  - destruct Hh as [Hs Ho]. unfold ordered in Ho.
    rewrite (bseg_split B c q (N.min (r_start r) n)) by lia.
    rewrite <- app_assoc. do 2 f_equal.
    replace (N.max c (N.min (r_start r) n)) with (N.max q (N.min (r_start r) n)) by lia.
    replace (N.max c (N.min (r_end r) n)) with (N.max q (N.min (r_end r) n)) by lia.
    reflexivity.
Qed.

Lemma aspl_here (r : repl) (rest : list repl) (p : N) :
  N.min (r_start r) n <= p ->
  aspl (r :: rest) p = cattr r (B p) ++ aspl rest (N.max p (N.min (r_end r) n)).
Proof.
  intros H. cbn [aspl]. rewrite bseg_nil by exact H. cbn [app].
  replace (N.max p (N.min (r_start r) n)) with p by lia. reflexivity.
Qed.

(* everything is past the end: only replacement contents remain *)
Lemma aspl_end : forall rest, aspl rest n = flat_map (fun r => cattr r (B n)) rest.
Proof.
  induction rest as [|r rest IH]; cbn [aspl flat_map].
  - apply bseg_nil. lia.
  - rewrite bseg_nil by lia. cbn [app].
    replace (N.max n (N.min (r_start r) n)) with n by lia.
    replace (N.max n (N.min (r_end r) n)) with n by lia. rewrite IH. reflexivity.
Qed.
End Aspl.

Lemma aspl_map {A C} (f : A -> C) (B : N -> A) (cattr : repl -> A -> list A) (cattr' : repl -> C -> list C) n :
  (forall r a, map f (cattr r a) = cattr' r (f a)) ->
  forall rest c, map f (aspl B cattr n rest c) = aspl (fun x => f (B x)) cattr' n rest c.
Proof.
  intros H. induction rest as [|r rest IH]; intros c; cbn [aspl].
  - apply bseg_map.
  - rewrite !map_app, bseg_map, H, IH. reflexivity.
Qed.

(* ------------------------------------------------------------------ *)
(* the reference is an attribute splice                                *)
(* ------------------------------------------------------------------ *)
Definition brow := (N * N * text * attr * list (N * N))%type.

Definition bfun (table : list brow) (p : N) : attr :=
  match byte_attr table p with Some a => a | None => None end.

Definition rname (a : attr) (r : repl) : option text :=
  match a with
  | Some l => match r_name r with Some nm => Some nm | None => l_name l end
  | None => None
  end.

Definition cfull (r : repl) (a : attr) : list attr := content_attrs (r_content r) a (rname a r) true.

Lemma range_attrs_map (table : list brow) : forall k p,
  range_attrs table p k = map (bfun table) (nrange p k).
Proof.
  induction k as [|k IH]; intros p; [reflexivity|].
  cbn [range_attrs nrange map]. rewrite IH. reflexivity.
Qed.

Fixpoint fcf (c : N) (sch : list (repl * N * N * N)) : N :=
  match sch with
  | [] => c
  | (_, _, _, c') :: sch' => fcf c' sch'
  end.

Lemma final_consumed_fcf : forall sch c,
  match rev sch with (_, _, _, c') :: _ => c' | [] => c end = fcf c sch.
Proof.
  induction sch as [|[[[r em] c0] c'] sch IH]; intros c; [reflexivity|].
  cbn [rev fcf]. specialize (IH c').
  destruct (rev sch) as [|[[[r1 em1] c1] c1'] t] eqn:E.
  - assert (sch = []) by (rewrite <- (rev_involutive sch), E; reflexivity). subst sch.
    cbn [app fcf]. reflexivity.
  - cbn [app]. exact IH.
Qed.

Lemma ref_from (table : list brow) (n : N) : forall rs c,
  replace_expected table n (schedule rs n c)
  ++ range_attrs table (fcf c (schedule rs n c)) (N.to_nat (n - fcf c (schedule rs n c)))
  = aspl (bfun table) cfull n rs c.
Proof.
  induction rs as [|r rs IH]; intros c.
  - cbn [schedule replace_expected fcf app aspl]. apply range_attrs_map.
  - cbn [schedule replace_expected fcf aspl]. rewrite <- !app_assoc, IH. f_equal.
    destruct (N.ltb_spec c (N.min (r_start r) n)) as [H|H].
    + apply range_attrs_map.
    + rewrite bseg_nil by exact H. reflexivity.
Qed.

Definition ref_table (ievs : list event) (rs : list repl) : list brow :=
  let chs := chunks_with_attr ievs in
  let n := len (concat (map fst chs)) in
  inner_expected ievs chs 0 (cuts_of (schedule (sort_repls rs) n 0)).

Definition ref_len (ievs : list event) : N := len (concat (map fst (chunks_with_attr ievs))).

Theorem reference_aspl (ievs : list event) (rs : list repl) :
  replace_reference ievs rs
  = aspl (bfun (ref_table ievs rs)) cfull (ref_len ievs) (sort_repls rs) 0.
Proof.
  unfold replace_reference, ref_table, ref_len. cbn zeta.
  set (n := len (concat (map fst (chunks_with_attr ievs)))).
  set (table := inner_expected ievs (chunks_with_attr ievs) 0 (cuts_of (schedule (sort_repls rs) n 0))).
  unfold final_consumed. rewrite (final_consumed_fcf (schedule (sort_repls rs) n 0) 0).
  apply ref_from.
Qed.

(* ------------------------------------------------------------------ *)
(* where the reference's cut points lie                                *)
(* ------------------------------------------------------------------ *)
Definition cuts_from (n : N) (rest : list repl) (c : N) : list N := cuts_of (schedule rest n c).

Lemma cuts_from_cons n r rest c :
  cuts_from n (r :: rest) c =
  N.max c (N.min (r_start r) n) :: N.max c (N.min (r_end r) n)
    :: cuts_from n rest (N.max c (N.min (r_end r) n)).
Proof. reflexivity. Qed.

Lemma cuts_from_ge n : forall rest c x, In x (cuts_from n rest c) -> c <= x.
Proof.
  induction rest as [|r rest IH]; intros c x H; [destruct H|].
  rewrite cuts_from_cons in H. destruct H as [H|[H|H]]; [lia|lia|].
  apply IH in H. lia.
Qed.

Lemma cuts_from_head_ge n r rest c x : ordered r ->
  In x (cuts_from n (r :: rest) c) -> N.max c (N.min (r_start r) n) <= x.
Proof.
  unfold ordered. intros Ho H. rewrite cuts_from_cons in H. destruct H as [H|[H|H]]; [lia|lia|].
  apply cuts_from_ge in H. lia.
Qed.

(* walking over unreplaced text does not change the remaining cuts *)
Lemma cuts_from_walk n rest c q : c <= q -> head_from q rest -> q <= n ->
  cuts_from n rest c = cuts_from n rest q.
Proof.
  intros Hcq Hh Hq. destruct rest as [|r rest]; [reflexivity|].
  destruct Hh as [Hs Ho]. unfold ordered in Ho. rewrite !cuts_from_cons.
  replace (N.max c (N.min (r_start r) n)) with (N.max q (N.min (r_start r) n)) by lia.
  replace (N.max c (N.min (r_end r) n)) with (N.max q (N.min (r_end r) n)) by lia.
  reflexivity.
Qed.

Definition NoCutIn (L : list N) (p q : N) : Prop := forall x, In x L -> ~ (p < x /\ x < q).

(* L: all cuts.  rest: replacements not yet emitted.  p: the stream's position (inner bytes
   [0,p) are dealt with).  c: bytes [0,c) are dealt with or replaced. *)
Definition Sync (L : list N) (n : N) (rest : list repl) (p c : N) : Prop :=
  p <= c /\ c <= n /\ (p = c \/ In c L) /\
  exists Ld, L = Ld ++ cuts_from n rest c /\ Forall (fun x => x <= p \/ x = c) Ld.

Lemma Sync_init n sorted : Sync (cuts_from n sorted 0) n sorted 0 0.
Proof.
  split; [lia|]. split; [lia|]. split; [left; reflexivity|]. exists []. split; [reflexivity|constructor].
Qed.

Lemma Sync_walk L n rest p c q :
  Sync L n rest p c -> c <= q -> q <= n -> head_from q rest -> Sync L n rest q q.
Proof.
  intros [H1 [H2 [H3 [Ld [E F]]]]] Hcq Hq Hh.
  split; [lia|]. split; [exact Hq|]. split; [left; reflexivity|].
  exists Ld. split.
  - rewrite E. f_equal. apply cuts_from_walk; assumption.
  - eapply Forall_impl; [|exact F]. cbn beta. intros x [Hx|Hx]; left; lia.
Qed.

(* no cut strictly between the position and the start of the next replacement *)
Lemma Sync_nocut_head L n r rest p : Sync L n (r :: rest) p p -> ordered r ->
  NoCutIn L p (N.max p (N.min (r_start r) n)) /\ In (N.max p (N.min (r_start r) n)) L.
Proof.
  intros [_ [_ [_ [Ld [E F]]]]] Ho. split.
  - intros x Hx [A1 A2]. rewrite E in Hx. apply in_app_or in Hx. destruct Hx as [Hx|Hx].
    + rewrite Forall_forall in F. specialize (F x Hx). lia.
    + apply (cuts_from_head_ge n r rest p x Ho) in Hx. lia.
  - rewrite E. apply in_or_app. right. rewrite cuts_from_cons. left. reflexivity.
Qed.

(* no cut strictly inside the rest of the chunk when the next replacement starts beyond it *)
Lemma Sync_nocut_final L n rest p q : Sync L n rest p p -> head_from q rest -> q <= n ->
  NoCutIn L p q.
Proof.
  intros [_ [_ [_ [Ld [E F]]]]] Hh Hq x Hx [A1 A2].
  rewrite E in Hx. apply in_app_or in Hx. destruct Hx as [Hx|Hx].
  - rewrite Forall_forall in F. specialize (F x Hx). lia.
  - destruct rest as [|r rest]; [destruct Hx|]. destruct Hh as [Hs Ho].
    apply (cuts_from_head_ge n r rest p x Ho) in Hx. lia.
Qed.

(* no cut strictly inside a stretch that is being skipped *)
Lemma Sync_nocut_skip L n rest p c : Sync L n rest p c -> NoCutIn L p c.
Proof.
  intros [_ [_ [_ [Ld [E F]]]]] x Hx [A1 A2].
  rewrite E in Hx. apply in_app_or in Hx. destruct Hx as [Hx|Hx].
  - rewrite Forall_forall in F. specialize (F x Hx). lia.
  - apply cuts_from_ge in Hx. lia.
Qed.

Lemma Sync_cut_in L n rest p c : Sync L n rest p c -> p < c -> In c L.
Proof. intros [_ [_ [[H|H] _]]] Hl; [lia|exact H]. Qed.

(* moving on inside skipped text *)
Lemma Sync_advance L n rest p c p' : Sync L n rest p c -> p <= p' -> p' <= c -> Sync L n rest p' c.
Proof.
  intros [H1 [H2 [H3 [Ld [E F]]]]] Ha Hb.
  split; [exact Hb|]. split; [exact H2|]. split.
  - destruct H3 as [H3|H3]; [left; lia|right; exact H3].
  - exists Ld. split; [exact E|]. eapply Forall_impl; [|exact F]. cbn beta. intros x [Hx|Hx]; [left; lia|right; exact Hx].
Qed.

(* the replacement at the head has been emitted at p1 = max p start; consumed becomes c' *)
Lemma Sync_step L n r rest p p' : Sync L n (r :: rest) p p -> ordered r ->
  N.max p (N.min (r_start r) n) <= p' -> p' <= N.max p (N.min (r_end r) n) ->
  Sync L n rest p' (N.max p (N.min (r_end r) n)).
Proof.
  intros [H1 [H2 [H3 [Ld [E F]]]]] Ho Ha Hb. unfold ordered in Ho.
  set (em := N.max p (N.min (r_start r) n)) in *. set (c' := N.max p (N.min (r_end r) n)) in *.
  assert (Hin : In c' L).
  { rewrite E. apply in_or_app. right. rewrite cuts_from_cons. right. left. reflexivity. }
  split; [exact Hb|]. split; [unfold c'; lia|]. split; [right; exact Hin|].
  exists (Ld ++ [em; c']). split.
  - rewrite E, cuts_from_cons, <- app_assoc. reflexivity.
  - apply Forall_app. split.
    + eapply Forall_impl; [|exact F]. cbn beta. intros x [Hx|Hx]; left; unfold em in Ha; lia.
    + constructor; [left; exact Ha|]. constructor; [right; reflexivity|constructor].
Qed.

Lemma Sync_nocut_step L n r rest p : Sync L n (r :: rest) p p -> ordered r ->
  NoCutIn L (N.max p (N.min (r_start r) n)) (N.max p (N.min (r_end r) n)).
Proof.
  intros [_ [_ [_ [Ld [E F]]]]] Ho x Hx [A1 A2]. unfold ordered in Ho.
  rewrite E in Hx. apply in_app_or in Hx. destruct Hx as [Hx|Hx].
  - rewrite Forall_forall in F. specialize (F x Hx). lia.
  - rewrite cuts_from_cons in Hx. destruct Hx as [Hx|[Hx|Hx]]; [lia|lia|].
    apply cuts_from_ge in Hx. lia.
Qed.

(* ------------------------------------------------------------------ *)
(* the reference table, one chunk at a time                            *)
(* ------------------------------------------------------------------ *)
Definition rel_cuts (cuts : list N) (start : N) (t : text) : list N :=
  fold_right (fun x acc => if (start <? x) && (x <? start + len t) then insert_uniq (x - start) acc else acc) [] cuts.

Definition chunk_pcs (ievs : list event) (cuts : list N) (start : N) (t : text) (a : attr) : list (N * N) :=
  match a with
  | Some l => (0, l_col l) :: piece_cols (content_of ievs (l_file l)) (l_line l) t (rel_cuts cuts start t) 0 (l_col l)
  | None => []
  end.

Definition chunk_battr (ievs : list event) (cuts : list N) (start : N) (t : text) (a : attr) (q : N) : attr :=
  match a with
  | Some l => attr_with_col a (col_at (chunk_pcs ievs cuts start t a) q (l_col l))
  | None => None
  end.

Lemma inner_expected_cons ievs t a chs start cuts :
  inner_expected ievs ((t, a) :: chs) start cuts =
  (start, len t, t, a, chunk_pcs ievs cuts start t a) :: inner_expected ievs chs (start + len t) cuts.
Proof. reflexivity. Qed.

Lemma byte_attr_before ievs cuts : forall chs start p, p < start ->
  byte_attr (inner_expected ievs chs start cuts) p = None.
Proof.
  induction chs as [|[t a] chs IH]; intros start p H; [reflexivity|].
  rewrite inner_expected_cons. cbn [byte_attr].
  replace (start <=? p) with false by (symmetry; apply N.leb_gt; exact H). cbn [andb].
  apply IH. lia.
Qed.

Lemma byte_attr_past ievs cuts : forall chs start p, start + len (concat (map fst chs)) <= p ->
  byte_attr (inner_expected ievs chs start cuts) p = None.
Proof.
  induction chs as [|[t a] chs IH]; intros start p H; [reflexivity|].
  rewrite inner_expected_cons. cbn [byte_attr]. cbn [map fst concat] in H. rewrite len_app in H.
  replace (p <? start + len t) with false by (symmetry; apply N.ltb_ge; lia). rewrite andb_false_r.
  apply IH. lia.
Qed.

Lemma byte_attr_chunk ievs cuts t a after : forall before start q, q < len t ->
  byte_attr (inner_expected ievs (before ++ (t, a) :: after) start cuts)
            (start + len (concat (map fst before)) + q)
  = Some (chunk_battr ievs cuts (start + len (concat (map fst before))) t a q).
Proof.
  induction before as [|[t0 a0] before IH]; intros start q Hq.
  - cbn [app map concat]. rewrite len_nil, N.add_0_r. rewrite inner_expected_cons. cbn [byte_attr].
    replace (start <=? start + q) with true by (symmetry; apply N.leb_le; lia).
    replace (start + q <? start + len t) with true by (symmetry; apply N.ltb_lt; lia).
    cbn [andb]. replace (start + q - start) with q by lia. unfold chunk_battr. reflexivity.
  - cbn [app map fst concat]. rewrite len_app, inner_expected_cons. cbn [byte_attr].
    replace (start + (len t0 + len (concat (map fst before))) + q <? start + len t0) with false
      by (symmetry; apply N.ltb_ge; lia).
    rewrite andb_false_r.
    replace (start + (len t0 + len (concat (map fst before)))) with (start + len t0 + len (concat (map fst before))) by lia.
    apply IH. exact Hq.
Qed.

(* chunks with their resolved attribution, from given tables *)
Definition cwa (evs : list event) (S Nn : list text) : list cchunk :=
  flat_map (fun x => match x with (Some t, (_, _, a)) => [(t, a)] | _ => [] end) (rsegs_of_events evs S Nn).

Definition res (S Nn : list text) (mo : option orig) : attr :=
  match mo with
  | Some o =>
    Some (mkLoc (match nth_opt S (o_src o) with Some s => s | None => BAD end)
                (o_line o) (o_col o)
                (match o_name o with
                 | Some k => Some (match nth_opt Nn k with Some x => x | None => BAD end)
                 | None => None end))
  | None => None
  end.

Lemma chunks_with_attr_cwa evs : chunks_with_attr evs = cwa evs [] [].
Proof. reflexivity. Qed.

Lemma cwa_app a b S Nn :
  cwa (a ++ b) S Nn = cwa a S Nn ++ cwa b (fst (tabs a S Nn)) (snd (tabs a S Nn)).
Proof. unfold cwa. rewrite rsegs_app, flat_map_app. reflexivity. Qed.

Lemma cwa_chunk t m evs S Nn :
  cwa (EChunk (Some t) m :: evs) S Nn = (t, res S Nn (m_orig m)) :: cwa evs S Nn.
Proof. reflexivity. Qed.

Lemma cwa_text : forall evs S Nn t, Reass evs t -> concat (map fst (cwa evs S Nn)) = t.
Proof.
  induction evs as [|e evs IH]; intros S Nn t H.
  - rewrite (Reass_fun [] t [] H Reass_nil). reflexivity.
  - destruct e as [ot m|i nm c|i nm].
    + apply Reass_chunk_inv in H. destruct H as [t' [x [-> [-> H]]]].
      rewrite cwa_chunk. cbn [map fst concat]. rewrite (IH S Nn x H). reflexivity.
    + apply (IH (lm_insert BAD S i nm) Nn t H).
    + apply (IH S (lm_insert BAD Nn i nm) t H).
Qed.

Print Assumptions reference_aspl.
