(* C06 over warm caches, part 1 (J2): ALL ReplaceSource clauses (9, 4, 5, 6) of chk_C06 on the
   model's own observations (Api/ApiCheck.v: api_comp) for a ReplaceSource whose inner tree
   contains CachedSource nodes in ANY warm state (class `cls` of WarmTreeDefs.v, every cache
   id once).  This INCLUDES the shape of known finding K2 (a ReplaceSource with replacements
   above a warm CachedSource): the checker's reference `replace_reference` is computed from the
   inner source's OWN observed stream - whatever chunking the warm replay produced - and the
   event-level theorems (ReplAttrCols.replace_attr_full, CompLinesReplace.replace_lines_attr,
   replace_contents_preserved) hold of ANY inner stream that reassembles its text, announces
   densely, has no empty chunk, is well positioned with line feeds last, and carries
   consistent contents below 2^32 bytes.  All of this is part of the invariant `TX` of a
   text-carrying stream over a `Sound2` store (WfMoreWarm.warm2_all).
   `api_comp` warms the composite and its standalone child by the same calls on the same
   nodes: `find_cached` looks through a ReplaceSource, so the two stores coincide. *)
From RS Require Import Base.Prelude Base.Text Rope.RopeModel Codec.Vlq Codec.CodecSpec
  Stream.Types Stream.Leaves Stream.Concat Stream.Replace Stream.Combined Stream.Tree
  Api.ApiTree Sem.Attr Sem.HashEq Api.ApiHist Checkers.ChkTree Checkers.ChkHist Checkers.ChkComp Api.ApiCheck
  Proofs.StreamText Proofs.StreamLeaves Proofs.StreamConcat Proofs.StreamTree
  Proofs.WfStream Proofs.WfFinal Proofs.ReplaceSort Proofs.ReplaceText
  Proofs.RStreamText Proofs.RStreamPos Proofs.RStreamTree
  Proofs.AttrCodec Proofs.AttrSms Proofs.LawConcatAttr Proofs.LawWrappers
  Proofs.ReplAttrRef Proofs.ReplAttrStream Proofs.ReplAttrOrigin Proofs.ReplAttrCols Proofs.ReplAttrTree
  Proofs.LinesBase Proofs.CompLinesBridge Proofs.CompLinesConcat Proofs.CompLinesReplace Proofs.CompLinesTree
  Proofs.ColdCache Proofs.ColdCacheTree Proofs.BoundsPos Proofs.BoundsOrig
  Proofs.WarmTreeDefs Proofs.WarmTreeNodes Proofs.WarmTreeMain Proofs.WarmTreeHist Proofs.WfMoreWarm.
Require Import Lia List.
Import ListNotations.

Local Open Scope N_scope.

(* ------------------------------------------------------------------ *)
(* warm-up calls look through a ReplaceSource                           *)
(* ------------------------------------------------------------------ *)
Lemma run_warm_replace (inner : src) (rs : list repl) : forall (ws : list (N * wop)) (st : store),
  run_warm st (SReplace inner rs) ws = run_warm st inner ws.
Proof.
  induction ws as [|[id w] ws IH]; intros st; [reflexivity|].
  cbn [run_warm find_cached]. destruct (find_cached inner id) as [node|]; apply IH.
Qed.

(* the observations of api_comp: one store, the inner stream is the standalone child's *)
Lemma api_comp_replace_warm (inner : src) (rs : list repl) (ws : list (N * wop)) :
  let st := run_warm [] inner ws in
  api_comp (SReplace inner rs) ws =
  (fst (fst (stream st (SReplace inner rs) (mkOpts true false))),
   fst (fst (stream st (SReplace inner rs) (mkOpts false false))),
   [fst (fst (stream st inner (mkOpts true false)))],
   [fst (fst (stream st inner (mkOpts false false)))]).
Proof. cbn zeta. unfold api_comp. rewrite run_warm_replace. reflexivity. Qed.

(* ------------------------------------------------------------------ *)
(* what a text-carrying stream over a sound store offers                *)
(* ------------------------------------------------------------------ *)
Lemma evb_contents_small (evs : list event) : Forall (evb KB) evs -> contents_small evs = true.
Proof.
  intros H. unfold contents_small. induction H as [|e evs He _ IH]; [reflexivity|].
  destruct e as [t m|i n c|i n]; cbn [contents_of_events]; try exact IH.
  cbn [forallb snd]. rewrite IH, andb_true_r. destruct c as [c|]; [|reflexivity].
  cbn [evb] in He. apply N.ltb_lt. unfold KB, two32 in *. lia.
Qed.

Record inner_facts (ievs : list event) (gi : N * N) (T : text) : Prop := mkIF {
  if_reass : reassembles ievs T = true;
  if_ne : no_empty_chunks ievs = true;
  if_dense : dense ievs 0 0 = true;
  if_wp : well_positioned (chunks_of ievs) 1 0 = true;
  if_nl : chunks_nl_last ievs = true;
  if_gi : gi = advance 1 0 T;
  if_small : contents_small ievs = true }.

Lemma TX_inner_facts c s r : TX c s r -> inner_facts (fst r) (snd r) (source s).
Proof.
  intros [[Hd [Hr [Hw [Hn [_ [Hi [_ [Hb _]]]]]]]] Hne]. constructor.
  - apply reassembles_iff. exact Hr.
  - exact Hne.
  - exact Hd.
  - exact Hw.
  - apply chunks_nl_last_iff. exact Hn.
  - exact Hi.
  - apply evb_contents_small. exact Hb.
Qed.

(* ------------------------------------------------------------------ *)
(* the clauses, over any Sound2 store                                   *)
(* ------------------------------------------------------------------ *)
Section Clauses.
Variable inner : src.
Variable rs : list repl.
Hypothesis Hd : ids_distinct inner.
Hypothesis Hcl : cls inner.
Hypothesis HA : treeA (SReplace inner rs) = true.

Let W2 := warm2_all inner Hd inner (incl_refl _) Hcl.

Lemma warm_inner_facts (st : store) (c : bool) : Sound2 st inner ->
  let r := stream st inner (mkOpts c false) in
  inner_facts (fst (fst r)) (snd (fst r)) (source inner).
Proof.
  intros Hs. cbn zeta. destruct W2 as [A _]. destruct (A st c Hs) as [T _].
  apply (TX_inner_facts c inner _ T).
Qed.

Lemma repls_ordered : Forall (fun r => r_start r <= r_end r) rs.
Proof. destruct (treeA_replace_inv inner rs HA) as [_ Hrs]. apply (repl_ok_ordered _ _ Hrs). Qed.

(* clause 4: with columns, the ReplaceSource attributes every byte as the reference computed
   from the inner source's own (possibly replayed, coarser) stream *)
Theorem replace_warm_attr (st : store) : Sound2 st inner ->
  let c10 := fst (fst (stream st (SReplace inner rs) (mkOpts true false))) in
  let k10 := fst (fst (stream st inner (mkOpts true false))) in
  bindings_consistent (contents_of_events k10) = true ->
  attr_of_stream c10 true = replace_reference k10 rs.
Proof.
  intros Hs c10 k10 Hb. pose proof (warm_inner_facts st true Hs) as F. cbn zeta in F. fold k10 in F.
  unfold c10, k10 in *. rewrite stream_replace_eq.
  destruct (stream st inner (mkOpts true false)) as [[ievs gi] st1]. cbn [fst snd] in *.
  destruct F as [Fr Fne Fd _ _ _ Fs].
  apply (replace_attr_full rs ievs (source inner) gi repls_ordered Fr Fne Fd Hb Fs).
Qed.

(* clause 5: every file keeps its content *)
Theorem replace_warm_contents (st : store) :
  let c10 := fst (fst (stream st (SReplace inner rs) (mkOpts true false))) in
  let k10 := fst (fst (stream st inner (mkOpts true false))) in
  contents_preserved c10 [k10] = true.
Proof.
  cbn zeta. rewrite stream_replace_eq.
  destruct (stream st inner (mkOpts true false)) as [[ievs gi] st1]. cbn [fst snd].
  apply replace_contents_preserved.
Qed.

(* clause 6: without columns *)
Theorem replace_warm_lines (st : store) : Sound2 st inner ->
  len (source inner) + len (concat (map r_content rs)) + 1 < 4294967296 ->
  let c00 := fst (fst (stream st (SReplace inner rs) (mkOpts false false))) in
  let k00 := fst (fst (stream st inner (mkOpts false false))) in
  attr_of_stream c00 false
  = line_first_bytes (source (SReplace inner rs)) (replace_reference k00 rs) None 0 [].
Proof.
  intros Hs Hsz c00 k00. pose proof (warm_inner_facts st false Hs) as F. cbn zeta in F. fold k00 in F.
  unfold c00, k00 in *. rewrite stream_replace_eq.
  destruct (stream st inner (mkOpts false false)) as [[ievs gi] st1]. cbn [fst snd] in *.
  destruct F as [Fr Fne Fd Fw Fn Fg _]. subst gi.
  apply (replace_lines_attr rs ievs (source inner) repls_ordered Fr Fw Fn Fne Fd Hsz).
Qed.

End Clauses.

(* ------------------------------------------------------------------ *)
(* J2: the checker on the model's own observations                      *)
(* ------------------------------------------------------------------ *)
Theorem C06_replace_warm_checker (inner : src) (rs : list repl) (ws : list (N * wop)) :
  ids_distinct inner -> cls inner -> treeA (SReplace inner rs) = true ->
  len (source inner) + len (concat (map r_content rs)) + 1 < 4294967296 ->
  let '(c10, c00, k10, k00) := api_comp (SReplace inner rs) ws in
  chk_C06 (SReplace inner rs) (source (SReplace inner rs)) c10 c00 k10 k00 =
  if bindings_consistent (flat_map contents_of_events k10) then 0 else 100.
Proof.
  intros Hd Hcl HA Hsz. pose proof (api_comp_replace_warm inner rs ws) as E. cbn zeta in E. rewrite E.
  pose proof (warm_sound2 inner Hd Hcl ws [] (sound2_empty inner)) as Hs.
  set (st := run_warm [] inner ws) in *.
  pose proof (replace_warm_attr inner rs Hd Hcl HA st Hs) as C4.
  pose proof (replace_warm_contents inner rs st) as C5.
  pose proof (replace_warm_lines inner rs Hd Hcl HA st Hs Hsz) as C6. cbn zeta in C4, C5, C6.
  unfold chk_C06. rewrite HA. cbn [negb flat_map]. rewrite app_nil_r.
  destruct (bindings_consistent _) eqn:Hb; cbn [negb]; [|reflexivity].
  rewrite (C4 eq_refl), (list_eqb_attr_refl attr_eqb attr_eqb_refl). cbn [negb].
  rewrite C5. cbn [negb].
  rewrite C6, (list_eqb_attr_refl attr_eqb_fl attr_eqb_fl_refl). reflexivity.
Qed.

(* inside the checker's domain the verdict is 0 *)
Theorem C06_replace_warm (inner : src) (rs : list repl) (ws : list (N * wop)) :
  ids_distinct inner -> cls inner -> treeA (SReplace inner rs) = true ->
  len (source inner) + len (concat (map r_content rs)) + 1 < 4294967296 ->
  let '(c10, c00, k10, k00) := api_comp (SReplace inner rs) ws in
  bindings_consistent (flat_map contents_of_events k10) = true ->
  chk_C06 (SReplace inner rs) (source (SReplace inner rs)) c10 c00 k10 k00 = 0.
Proof.
  intros Hd Hcl HA Hsz. pose proof (C06_replace_warm_checker inner rs ws Hd Hcl HA Hsz) as K.
  destruct (api_comp (SReplace inner rs) ws) as [[[c10 c00] k10] k00]. intros Hb. rewrite Hb in K. exact K.
Qed.

(* the size hypothesis follows from `tiny` of the whole composite *)
Lemma tiny_replace_size (inner : src) (rs : list repl) :
  treeA (SReplace inner rs) = true -> tiny (uncache (SReplace inner rs)) = true ->
  len (source inner) + len (concat (map r_content rs)) + 1 < 4294967296.
Proof.
  intros HA HT. destruct (tiny_parts _ HT) as [T1 _]. cbn [uncache tsize] in T1.
  pose proof (treeA_replace_in inner rs HA) as HAi.
  pose proof (len_source_le (uncache inner) (treeA_wf _ (treeA_uncache inner HAi))) as L.
  rewrite uncache_source in L. unfold KB in T1. lia.
Qed.

Corollary C06_replace_warm_tiny (inner : src) (rs : list repl) (ws : list (N * wop)) :
  ids_distinct inner -> k2_shape inner = false -> rshape (uncache inner) = true ->
  treeA (SReplace inner rs) = true -> tiny (uncache (SReplace inner rs)) = true ->
  let '(c10, c00, k10, k00) := api_comp (SReplace inner rs) ws in
  bindings_consistent (flat_map contents_of_events k10) = true ->
  chk_C06 (SReplace inner rs) (source (SReplace inner rs)) c10 c00 k10 k00 = 0.
Proof.
  intros Hd Hk Hsh HA HT.
  apply C06_replace_warm; [exact Hd| |exact HA|apply (tiny_replace_size inner rs HA HT)].
  apply tiny_cls; [exact Hk|exact Hsh|apply (treeA_replace_in inner rs HA)|].
  apply (tiny_replace_inner (uncache inner) rs). exact HT.
Qed.

(* ------------------------------------------------------------------ *)
(* tests: the K2 witness is inside the hypotheses                       *)
(* ------------------------------------------------------------------ *)
(* Replace(Cached(Concat[Orig "{" a; Orig "{{;" b]), [(2,4,"\n{")]): known finding K2 *)
Definition cw_inner : src := SCached 1 (SConcat [SOriginal [123] [97]; SOriginal [123; 123; 59] [98]]).
Definition cw_k2 : src := SReplace cw_inner [mkRepl 2 4 [10; 123] None 1].
Definition cw_hists : list (list (N * wop)) :=
  [[]; [(1, WStream true false)]; [(1, WStream false false)]; [(1, WMap true)]; [(1, WMap false)];
   [(1, WStream true true)]; [(1, WStream false true)];
   [(1, WMap true); (1, WStream false false)]; [(1, WStream false true); (1, WStream true false); (1, WMap false)]].

Example cw_k2_hyps :
  (ids_distinctb cw_inner, k2_shape cw_inner, k2_shape cw_k2, rshape (uncache cw_inner), treeA cw_k2,
   tiny (uncache cw_k2)) = (true, false, true, true, true, true).
Proof. vm_compute. reflexivity. Qed.

(* the composite's attribution does depend on the warm state (K2) ... *)
Example cw_k2_differs :
  let a ws := attr_of_stream (snd (fst (fst (api_comp cw_k2 ws)))) false in
  list_eqb_attr attr_eqb_fl (a []) (a [(1, WMap false)]) = false.
Proof. vm_compute. reflexivity. Qed.

(* ... and the checker accepts every one of them: an instance of the theorem, and recomputed *)
Example cw_k2_instance (ws : list (N * wop)) :
  let '(c10, c00, k10, k00) := api_comp cw_k2 ws in
  bindings_consistent (flat_map contents_of_events k10) = true ->
  chk_C06 cw_k2 (source cw_k2) c10 c00 k10 k00 = 0.
Proof.
  apply C06_replace_warm_tiny; try (vm_compute; reflexivity).
  apply ids_distinctb_spec. vm_compute. reflexivity.
Qed.

Example cw_k2_recomputed :
  map (fun ws => let '(c10, c00, k10, k00) := api_comp cw_k2 ws in
                 chk_C06 cw_k2 (source cw_k2) c10 c00 k10 k00) cw_hists
  = map (fun _ => 0) cw_hists.
Proof. vm_compute. reflexivity. Qed.

Print Assumptions run_warm_replace.
Print Assumptions replace_warm_attr.
Print Assumptions replace_warm_contents.
Print Assumptions replace_warm_lines.
Print Assumptions C06_replace_warm_checker.
Print Assumptions C06_replace_warm.
Print Assumptions C06_replace_warm_tiny.
Print Assumptions cw_k2_hyps.
Print Assumptions cw_k2_differs.
Print Assumptions cw_k2_instance.
Print Assumptions cw_k2_recomputed.
