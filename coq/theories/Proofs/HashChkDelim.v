(* C20, "the checker accepts the model", part 2 (G2): the delimited class.
   On delimited trees equal hasher streams mean equal normal forms (HashInjective.hash_injective);
   when moreover the names of the combined leaves agree (the one thing the property excludes and
   map() shows) the trees have the same `normI`, and two trees with the same `normI` answer every
   observer alike as long as corresponding caches are in the same state.  So, when the final
   observations of `api_pair` are taken with corresponding caches in the same state, observably
   different recorded answers imply different hasher streams: verdict 0.

   The checker: on two delimited trees whose hasher streams coincide and whose recorded
   observations differ `chk_C20_pair` answers 100 (it used to answer 56, the code of K6; since
   HashChkBase.C20_56_only_outside_delimited the K6 verdict is given outside the delimited class
   only, unconditionally).  This file shows what that exit covers: under the hypotheses below it
   is never taken (`C20_delimited_accepts_partial`: the verdict is 0, or 100 for one of the two
   plain reasons - ill-formed trees, trees differing in SourceMapSource names only), and each
   hypothesis is needed (`names_needed`, `sharing_needed`, `histories_needed`,
   `histories_needed_k7`: the exit IS taken, verdict 100 where the former checker said 56).

   The hypotheses, exactly (besides `delimited a`, `delimited b`):
     inner_names a = inner_names b      the names of the SourceMapSources WITH an inner map agree
                                        (needed: `names_needed`);
     same_sharing a b                   the two trees share caches between their nodes in the
                                        same pattern, e.g. every cache id once in each tree
                                        (needed: `sharing_needed`);
     store_rel (corr a b) (store_after a opsa) (store_after b opsb)
                                        corresponding caches in the same state after the two
                                        histories (needed: `histories_needed`, the K2 class, and
                                        `histories_needed_k7`, the K7 class).
                                        Holds when the two histories make the same stream_chunks /
                                        map() calls in the same order (text views, hash and clone
                                        calls interleaved at will), and for ANY two histories
                                        when the trees have no CachedSource.
   No validity hypothesis on the binary leaves: `tree_wf` (tested by the checker itself) is
   enough - `sim_normI_wf` replaces `all_leaves_valid` of HashObsTree.sim_normI by `tree_wf`. *)
From RS Require Import Base.Prelude Base.Text Rope.RopeModel Codec.Vlq
  Stream.Types Stream.Leaves Stream.Concat Stream.Replace Stream.Combined Stream.Tree
  Api.ApiTree Sem.Attr Sem.HashEq Api.ApiHist Checkers.ChkTree Checkers.ChkHist
  Proofs.ReplaceSort Proofs.ViewsUtf8 Proofs.HashEqBasic Proofs.HashInjective Proofs.HashViews
  Proofs.StreamTree Proofs.CacheStore Proofs.CacheReplay Proofs.EqObsTree Proofs.EqObsHist
  Proofs.ReassAll Proofs.HashObsLeaf Proofs.HashObsTree Proofs.HashObsInner Proofs.HashChkBase.
Require Import Lia List Bool.
Import ListNotations.

Local Open Scope N_scope.

(* ------------------------------------------------------------------ *)
(* text views of well-formed trees with the same normal form            *)
(* ------------------------------------------------------------------ *)
Lemma wf_concat (x : src) (l : list src) :
  tree_wf (SConcat (x :: l)) = true -> tree_wf x = true /\ tree_wf (SConcat l) = true.
Proof. cbn [tree_wf forallb]. intros H. apply andb_true_iff in H. exact H. Qed.

Lemma wf_replace (i : src) (rs : list repl) : tree_wf (SReplace i rs) = true -> tree_wf i = true.
Proof. cbn [tree_wf]. intros H. apply andb_true_iff in H. exact (proj1 H). Qed.

(* the RawSource flag: a well-formed RawSource built from a string holds valid UTF-8, and on
   valid UTF-8 from_utf8_lossy is the identity *)
Lemma raw_source_wf (ba bb : bool) (v : text) :
  tree_wf (SRaw ba v) = true -> tree_wf (SRaw bb v) = true ->
  source (SRaw ba v) = source (SRaw bb v).
Proof.
  destruct ba, bb; cbn [tree_wf source]; intros Ha Hb; try reflexivity.
  - apply utf8_lossy_valid. exact Hb.
  - symmetry. apply utf8_lossy_valid. exact Ha.
Qed.

Theorem norm_views_wf (a : src) : forall b,
  tree_wf a = true -> tree_wf b = true -> norm a = norm b ->
  source a = source b /\ buffer a = buffer b.
Proof.
  induction a as [ba va|va|va|va na|va na ma oa ia ra|ca IH|ia ra IH|ida ia IH]
    using src_nested_ind;
    intros [bb vb|vb|vb|vb nb|vb nb mb ob ib rb|cb|ib rb|idb ib] Wa Wb He;
    cbn [norm] in He; try discriminate.
  - injection He as He. subst vb. split; [apply raw_source_wf; assumption|reflexivity].
  - injection He as He. subst. split; reflexivity.
  - injection He as He. subst. split; reflexivity.
  - injection He as H1 H2. subst. split; reflexivity.
  - injection He as H1 H2 H3 H4 H5. subst. split; reflexivity.
  - injection He as He. cbn [source buffer].
    assert (H : map source ca = map source cb /\ map buffer ca = map buffer cb).
    { revert cb Wb He. induction IH as [|x l Hx _ IHl]; intros [|y cb] Wb He; try discriminate.
      - split; reflexivity.
      - cbn [map] in He. injection He as He1 He2.
        destruct (wf_concat _ _ Wa) as [Wa1 Wa2]. destruct (wf_concat _ _ Wb) as [Wb1 Wb2].
        destruct (Hx y Wa1 Wb1 He1) as [A1 A2]. destruct (IHl Wa2 cb Wb2 He2) as [B1 B2].
        cbn [map]. rewrite A1, A2, B1, B2. split; reflexivity. }
    destruct H as [H1 H2]. rewrite H1, H2. split; reflexivity.
  - injection He as He1 He2.
    destruct (IH ib (wf_replace _ _ Wa) (wf_replace _ _ Wb) He1) as [A _].
    cbn [source buffer]. rewrite A.
    rewrite <- (replace_source_text_sorted (source ib) ra), <- (replace_source_text_sorted (source ib) rb), He2.
    split; reflexivity.
  - injection He as He. cbn [tree_wf] in Wa, Wb. cbn [source buffer]. exact (IH ib Wa Wb He).
Qed.

(* ------------------------------------------------------------------ *)
(* the simulation of HashObsTree.sim_normI under tree_wf                *)
(* ------------------------------------------------------------------ *)
Theorem sim_normI_wf (P : list (N * N)) : biinj P ->
  forall a b, normI a = normI b -> tree_wf a = true -> tree_wf b = true ->
    incl (corr a b) P -> sim P a b.
Proof.
  intros HP. unfold corr.
  induction a as [ba va|va|va|va na|va na ma oa ia ra|ca IH|ia ra IH|ida ia IH] using src_ind';
    intros [bb vb|vb|vb|vb nb|vb nb mb ob ib rb|cb|ib rb|idb ib] He Va Vb Hi;
    try (destruct ia; cbn [normI] in He; discriminate He);
    try (destruct ib; cbn [normI] in He; discriminate He);
    cbn [normI] in He; try discriminate.
  - (* SRaw: the flag *)
    injection He as He. subst vb.
    pose proof (raw_source_wf ba bb va Va Vb) as S.
    split.
    + intros sta stb o HR.
      change (stream sta (SRaw ba va) o) with (raw_stream (source (SRaw ba va)) (final_source o), sta).
      change (stream stb (SRaw bb va) o) with (raw_stream (source (SRaw bb va)) (final_source o), stb).
      rewrite S. split; [reflexivity|exact HR].
    + intros sta stb c HR. split; [reflexivity|exact HR].
  - inversion He. subst. apply sim_leaf; intros; reflexivity.
  - inversion He. subst. apply sim_leaf; intros; reflexivity.
  - (* SOriginal *) inversion He. subst.
    assert (S : forall st o, stream st (SOriginal vb nb) o = (fst (stream [] (SOriginal vb nb) o), st))
      by (intros; reflexivity).
    apply sim_leaf; [exact S|]. intros st c. exact (leaf_get_map _ S st c).
  - (* SMapped *)
    destruct ia as [ima|], ib as [imb|]; try discriminate He.
    + inversion He. subst.
      assert (S : forall st o, stream st (SMapped vb nb mb ob (Some imb) rb) o =
                               (fst (stream [] (SMapped vb nb mb ob (Some imb) rb) o), st))
        by (intros st o; reflexivity).
      apply sim_leaf; [exact S|]. intros st c. exact (leaf_get_map _ S st c).
    + injection He as E1 E2 E3 E4. subst vb mb ob rb.
      split.
      * intros sta stb o HR. cbn [stream fst snd]. split; [reflexivity|exact HR].
      * intros sta stb c HR. cbn [map_of fst snd]. split; [reflexivity|exact HR].
  - (* SConcat *) injection He as He. cbn [ids] in Hi.
    assert (F : Forall2 (sim P) ca cb).
    { revert cb He Vb Hi. induction IH as [|x l Hx HF IHl]; intros [|y cb] He Vb Hi; try discriminate.
      - constructor.
      - cbn [map] in He. injection He as He1 He2. cbn [flat_map] in Hi.
        rewrite (combine_app _ _ _ _ (ids_length_norm x y (normI_norm x y He1))) in Hi.
        destruct (wf_concat _ _ Va) as [Va1 Va2]. destruct (wf_concat _ _ Vb) as [Vb1 Vb2].
        constructor.
        + apply Hx; [exact He1|exact Va1|exact Vb1|].
          intros p Hp. apply Hi. apply in_or_app. left. exact Hp.
        + apply IHl; [exact Va2|exact He2|exact Vb2|].
          intros p Hp. apply Hi. apply in_or_app. right. exact Hp. }
    assert (S : sim_stream P (SConcat ca) (SConcat cb)).
    { intros sta stb o HR. rewrite !stream_concat_eq.
      destruct F as [|x y ca cb Hxy F].
      - cbn [fold_left fst snd]. split; [reflexivity|exact HR].
      - destruct F as [|x2 y2 ca cb Hxy2 F].
        + destruct Hxy as [Hs _]. exact (Hs sta stb o HR).
        + pose proof (sim_cfold P o (x :: x2 :: ca) (y :: y2 :: cb)
                        (Forall2_cons _ _ Hxy (Forall2_cons _ _ Hxy2 F)) concat_init [] sta stb HR) as [A B].
          destruct (fold_left (cfold_step o) (x :: x2 :: ca) (concat_init, [], sta)) as [[ca1 ea] sa].
          destruct (fold_left (cfold_step o) (y :: y2 :: cb) (concat_init, [], stb)) as [[cb1 eb] sb].
          cbn [fst snd] in *. inversion A. subst. split; [reflexivity|exact B]. }
    split; [exact S|]. intros sta stb c HR. exact (sim_get_map P _ _ S sta stb c HR).
  - (* SReplace: the insertion order *)
    injection He as He1 He2. cbn [ids] in Hi.
    destruct (IH ib He1 (wf_replace _ _ Va) (wf_replace _ _ Vb) Hi) as [A B].
    assert (S : sim_stream P (SReplace ia ra) (SReplace ib rb)).
    { intros sta stb o HR. cbn [stream]. rewrite He2.
      destruct (A sta stb (mkOpts (columns o) false) HR) as [A1 A2].
      destruct (stream sta ia (mkOpts (columns o) false)) as [[ea ga] sa].
      destruct (stream stb ib (mkOpts (columns o) false)) as [[eb gb] sb].
      cbn [fst snd] in *. inversion A1. subst. split; [reflexivity|exact A2]. }
    split; [exact S|]. intros sta stb c HR. cbn [map_of].
    assert (En : is_nil ra = is_nil rb).
    { rewrite <- (sort_repls_nil_iff ra), <- (sort_repls_nil_iff rb), He2. reflexivity. }
    rewrite En. destruct (is_nil rb).
    + exact (B sta stb c HR).
    + exact (sim_get_map P _ _ S sta stb c HR).
  - (* SCached: the id *)
    injection He as He. cbn [ids combine] in Hi. cbn [tree_wf] in Va, Vb.
    assert (Hin : In (ida, idb) P) by (apply Hi; left; reflexivity).
    assert (Hi' : incl (combine (ids ia) (ids ib)) P) by (intros p Hp; apply Hi; right; exact Hp).
    destruct (IH ib He Va Vb Hi') as [A B].
    assert (Hsrc : source ia = source ib).
    { exact (proj1 (norm_views_wf ia ib Va Vb (normI_norm ia ib He))). }
    split.
    + intros sta stb o HR. cbn [stream]. rewrite (HR ida idb Hin), Hsrc.
      destruct (cache_get (store_get stb idb) o) as [[m|]|].
      * split; [reflexivity|exact HR].
      * split; [reflexivity|exact HR].
      * destruct (A sta stb o HR) as [A1 A2].
        destruct (stream sta ia o) as [[ea ga] sa]. destruct (stream stb ib o) as [[eb gb] sb].
        cbn [fst snd] in *. inversion A1. subst. split; [reflexivity|].
        apply store_rel_put; assumption.
    + intros sta stb c HR. cbn [map_of]. rewrite (HR ida idb Hin).
      destruct (cache_get (store_get stb idb) (mkOpts c false)) as [m|].
      * split; [reflexivity|exact HR].
      * destruct (B sta stb c HR) as [B1 B2].
        destruct (map_of sta ia c) as [ma sa]. destruct (map_of stb ib c) as [mb sb].
        cbn [fst snd] in *. subst mb.
        pose proof (store_rel_put P sa sb ida idb (mkOpts c false) ma HP Hin B2) as R.
        split; [|exact R]. rewrite (R ida idb Hin). reflexivity.
Qed.

(* ------------------------------------------------------------------ *)
(* histories under a simulation                                         *)
(* ------------------------------------------------------------------ *)
(* an observer call either goes through the simulation (stream_chunks, map()) or answers the
   same on both sides in every store *)
Definition hop_agrees (a b : src) (op : hop) : Prop :=
  touches_store op = true \/ forall st st', fst (run_hop st a op) = fst (run_hop st' b op).

Lemma sim_run_hop_weak P a b : sim P a b ->
  forall op, hop_agrees a b op -> forall sta stb, store_rel P sta stb ->
    fst (run_hop sta a op) = fst (run_hop stb b op) /\
    store_rel P (snd (run_hop sta a op)) (snd (run_hop stb b op)).
Proof.
  intros [Hs Hm] op Hop sta stb HR.
  destruct op as [| | | |cols|cols final| |];
    try (destruct Hop as [Hop|Hop]; [discriminate Hop|];
         split; [exact (Hop sta stb)|cbn [run_hop snd]; exact HR]).
  - cbn [run_hop]. destruct (Hm sta stb cols HR) as [A B].
    destruct (map_of sta a cols) as [ma sa]. destruct (map_of stb b cols) as [mb sb].
    cbn [fst snd] in *. subst. split; [reflexivity|exact B].
  - cbn [run_hop]. destruct (Hs sta stb (mkOpts cols final) HR) as [A B].
    destruct (stream sta a (mkOpts cols final)) as [[ea ga] sa].
    destruct (stream stb b (mkOpts cols final)) as [[eb gb] sb].
    cbn [fst snd] in *. inversion A. subst. split; [reflexivity|exact B].
Qed.

Lemma sim_run_hops_weak P a b : sim P a b ->
  forall ops, Forall (hop_agrees a b) ops -> forall sta stb, store_rel P sta stb ->
    fst (run_hops sta a ops) = fst (run_hops stb b ops) /\
    store_rel P (snd (run_hops sta a ops)) (snd (run_hops stb b ops)).
Proof.
  intros HS. induction ops as [|op ops IH]; intros HF sta stb HR.
  - cbn [run_hops fst snd]. split; [reflexivity|exact HR].
  - inversion HF as [|? ? Hop HF']. subst. cbn [run_hops].
    destruct (sim_run_hop_weak P a b HS op Hop sta stb HR) as [A B].
    destruct (run_hop sta a op) as [xa sa]. destruct (run_hop stb b op) as [xb sb].
    cbn [fst snd] in A, B. subst xb. destruct (IH HF' sa sb B) as [C D].
    destruct (run_hops sa a ops) as [la ta]. destruct (run_hops sb b ops) as [lb tb].
    cbn [fst snd] in *. subst lb. split; [reflexivity|exact D].
Qed.

(* the calls that touch the caches, made in the same order on both sides, leave corresponding
   caches in the same state *)
Lemma filtered_agree (a b : src) (ops : list hop) :
  Forall (hop_agrees a b) (filter touches_store ops).
Proof.
  apply Forall_forall. intros op Hin. apply filter_In in Hin. left. exact (proj2 Hin).
Qed.

Lemma same_calls_related P a b : sim P a b ->
  forall opsa opsb, filter touches_store opsa = filter touches_store opsb ->
    store_rel P (store_after a opsa) (store_after b opsb).
Proof.
  intros HS opsa opsb Hf. unfold store_after.
  rewrite (run_hops_store_filter a opsa), (run_hops_store_filter b opsb), Hf.
  exact (proj2 (sim_run_hops_weak P a b HS _ (filtered_agree a b opsb) [] [] (store_rel_nil P))).
Qed.

(* the final observations of `api_pair` *)
Lemma final_ops_agree (a b : src) :
  source a = source b -> buffer a = buffer b -> hash_events a = hash_events b ->
  Forall (hop_agrees a b) final_ops.
Proof.
  intros Hs Hb Hh. unfold final_ops.
  repeat (apply Forall_cons; [|]); try apply Forall_nil;
    try (left; reflexivity); right; intros st st'; cbn [run_hop fst].
  - rewrite Hh. reflexivity.
  - rewrite Hs. reflexivity.
  - rewrite Hb. reflexivity.
  - rewrite Hh. reflexivity.
Qed.

Lemma smap_opt_eqb_refl (x : option smap) : opt_eqb smap_eqb x x = true.
Proof. apply (opt_eqb_eq smap_eqb smap_eqb_eq). reflexivity. Qed.

Lemma same_answers_not_differ (a b : src) (opsa opsb : list hop) :
  po_a (api_pair a opsa b opsb) = po_b (api_pair a opsa b opsb) ->
  recorded_differ a b opsa opsb = false.
Proof.
  intros H. unfold recorded_differ, maps_differ. rewrite H, !text_eqb_refl, !smap_opt_eqb_refl.
  reflexivity.
Qed.

(* ------------------------------------------------------------------ *)
(* G2                                                                   *)
(* ------------------------------------------------------------------ *)
Section Delimited.
Variables a b : src.
Variables opsa opsb : list hop.
Hypothesis Da : delimited a = true.
Hypothesis Db : delimited b = true.
Hypothesis Hnames : inner_names a = inner_names b.
Hypothesis Hshare : same_sharing a b.
Hypothesis Hrel : store_rel (corr a b) (store_after a opsa) (store_after b opsb).

Let o := api_pair a opsa b opsb.

(* equal hasher streams: every recorded answer coincides *)
Theorem delimited_hash_eq_recorded :
  tree_wf a = true -> tree_wf b = true ->
  hash_events a = hash_events b -> po_a o = po_b o.
Proof.
  intros Wa Wb Hh.
  pose proof (hash_injective a b Da Db Hh) as Hn.
  pose proof (norm_names_normI a b Hn Hnames) as HI.
  pose proof (sim_normI_wf (corr a b) Hshare a b HI Wa Wb (incl_refl _)) as HS.
  destruct (norm_views_wf a b Wa Wb Hn) as [Hs Hb].
  unfold o. rewrite api_pair_po_a, api_pair_po_b.
  exact (proj1 (sim_run_hops_weak (corr a b) a b HS final_ops (final_ops_agree a b Hs Hb Hh) _ _ Hrel)).
Qed.

(* the property, on the recorded answers: an observable difference is a difference of the
   hasher streams, of the recorded hashes, and `==` is false *)
Theorem delimited_differ_separates :
  tree_wf a = true -> tree_wf b = true -> recorded_differ a b opsa opsb = true ->
  hash_events a <> hash_events b /\
  hevs_eqb (get_hash (nth_ans (po_a o) 0)) (get_hash (nth_ans (po_b o) 0)) = false /\
  po_eq o = false /\ chk_C20_pair a b o = 0.
Proof.
  intros Wa Wb Hd.
  assert (Hh : hash_events a <> hash_events b).
  { intros Hh. rewrite (same_answers_not_differ a b opsa opsb (delimited_hash_eq_recorded Wa Wb Hh)) in Hd.
    discriminate Hd. }
  destruct (C20_different_hashes_accepted a b opsa opsb Wa Wb Hh) as (H1 & H2 & H3).
  split; [exact Hh|]. split; [exact H3|]. split; [exact H2|exact H1].
Qed.

(* the verdict: the exit "delimited trees, same hasher stream, different observations" is not
   taken - 0, or 100 for one of the two plain reasons *)
Theorem C20_delimited_accepts_partial :
  chk_C20_pair a b o = 0 \/ (chk_C20_pair a b o = 100 /\ plain_100 a b).
Proof.
  destruct (C20_checker_accepts_model a b opsa opsb) as [H|[H|(_ & Hd & _)]].
  - left. exact H.
  - right. split; [exact H|]. apply C20_verdict_100_iff in H. destruct H as [H|H]; [exact H|].
    exfalso. destruct H as (Wa & Wb & _ & Hd & Hh' & _).
    exact (proj1 (delimited_differ_separates Wa Wb Hd) Hh').
  - exfalso. rewrite Da, Db in Hd. discriminate Hd.
Qed.

Corollary C20_delimited_exit_unused_partial : ~ delimited_100 a b opsa opsb.
Proof.
  intros (Wa & Wb & _ & Hd & Hh & _). exact (proj1 (delimited_differ_separates Wa Wb Hd) Hh).
Qed.
End Delimited.

(* ---- the two readings of the history hypothesis ---- *)

(* (a) the same stream_chunks / map() calls on both sides, in the same order; text views, hash
   and clone calls may differ in number and position *)
Theorem C20_delimited_same_calls_partial (a b : src) (opsa opsb : list hop) :
  delimited a = true -> delimited b = true ->
  inner_names a = inner_names b -> same_sharing a b ->
  filter touches_store opsa = filter touches_store opsb ->
  let o := api_pair a opsa b opsb in
  (chk_C20_pair a b o = 0 \/ (chk_C20_pair a b o = 100 /\ plain_100 a b)) /\
  (tree_wf a = true -> tree_wf b = true -> recorded_differ a b opsa opsb = true ->
   hash_events a <> hash_events b /\ chk_C20_pair a b o = 0).
Proof.
  intros Da Db Hn HS Hf. cbn zeta.
  assert (R : tree_wf a = true -> tree_wf b = true -> hash_events a = hash_events b ->
              store_rel (corr a b) (store_after a opsa) (store_after b opsb)).
  { intros Wa Wb Hh. apply same_calls_related; [|exact Hf].
    apply sim_normI_wf; [exact HS| |exact Wa|exact Wb|apply incl_refl].
    apply norm_names_normI; [apply hash_injective; assumption|exact Hn]. }
  assert (S : tree_wf a = true -> tree_wf b = true -> recorded_differ a b opsa opsb = true ->
              hash_events a <> hash_events b).
  { intros Wa Wb Hd Hh.
    exact (proj1 (delimited_differ_separates a b opsa opsb Da Db Hn HS (R Wa Wb Hh) Wa Wb Hd) Hh). }
  split.
  - destruct (C20_checker_accepts_model a b opsa opsb) as [H|[H|(_ & Hd & _)]].
    + left. exact H.
    + right. split; [exact H|]. apply C20_verdict_100_iff in H. destruct H as [H|H]; [exact H|].
      exfalso. destruct H as (Wa & Wb & _ & Hd & Hh' & _). exact (S Wa Wb Hd Hh').
    + exfalso. rewrite Da, Db in Hd. discriminate Hd.
  - intros Wa Wb Hd. split; [exact (S Wa Wb Hd)|].
    exact (proj1 (C20_different_hashes_accepted a b opsa opsb Wa Wb (S Wa Wb Hd))).
Qed.

Corollary C20_delimited_same_histories_partial (a b : src) (ops : list hop) :
  delimited a = true -> delimited b = true ->
  inner_names a = inner_names b -> ids_distinct a -> ids_distinct b ->
  chk_C20_pair a b (api_pair a ops b ops) = 0 \/
  (chk_C20_pair a b (api_pair a ops b ops) = 100 /\ plain_100 a b).
Proof.
  intros Da Db Hn Ia Ib.
  exact (proj1 (C20_delimited_same_calls_partial a b ops ops Da Db Hn
                  (ids_distinct_same_sharing a b Ia Ib) eq_refl)).
Qed.

(* (b) trees without CachedSource: ANY two histories *)
Lemma ids_no_cached (s : src) : has_cached s = false -> ids s = [].
Proof.
  induction s as [bb v|v|v|v n|v n m o i r|cs IH|inner rs IH|id inner IH]
    using src_nested_ind; intros H; try reflexivity.
  - cbn [has_cached] in H. cbn [ids]. induction IH as [|x l Hx _ IHl]; [reflexivity|].
    cbn [existsb] in H. apply orb_false_iff in H. destruct H as [H1 H2].
    cbn [flat_map]. rewrite (Hx H1), (IHl H2). reflexivity.
  - cbn [has_cached] in H. cbn [ids]. exact (IH H).
  - discriminate H.
Qed.

Theorem C20_delimited_no_cache_partial (a b : src) (opsa opsb : list hop) :
  delimited a = true -> delimited b = true ->
  inner_names a = inner_names b -> has_cached a = false ->
  let o := api_pair a opsa b opsb in
  (chk_C20_pair a b o = 0 \/ (chk_C20_pair a b o = 100 /\ plain_100 a b)) /\
  (tree_wf a = true -> tree_wf b = true -> recorded_differ a b opsa opsb = true ->
   hash_events a <> hash_events b /\ chk_C20_pair a b o = 0).
Proof.
  intros Da Db Hn Ha. cbn zeta.
  assert (C : corr a b = []) by (unfold corr; rewrite (ids_no_cached a Ha); reflexivity).
  assert (HS : same_sharing a b) by (unfold same_sharing; rewrite C; intros x y x' y' []).
  assert (R : store_rel (corr a b) (store_after a opsa) (store_after b opsb))
    by (rewrite C; intros x y []).
  split.
  - exact (C20_delimited_accepts_partial a b opsa opsb Da Db Hn HS R).
  - intros Wa Wb Hd.
    destruct (delimited_differ_separates a b opsa opsb Da Db Hn HS R Wa Wb Hd) as (H1 & _ & _ & H4).
    split; assumption.
Qed.

(* without combined leaves the hypothesis on the names is void *)
Corollary C20_delimited_noinner_no_cache_partial (a b : src) (opsa opsb : list hop) :
  delimited a = true -> delimited b = true -> noinner a = true -> noinner b = true ->
  has_cached a = false ->
  chk_C20_pair a b (api_pair a opsa b opsb) = 0 \/
  (chk_C20_pair a b (api_pair a opsa b opsb) = 100 /\ plain_100 a b).
Proof.
  intros Da Db Na Nb Ha.
  refine (proj1 (C20_delimited_no_cache_partial a b opsa opsb Da Db _ Ha)).
  rewrite (noinner_names a Na), (noinner_names b Nb). reflexivity.
Qed.

(* ------------------------------------------------------------------ *)
(* each hypothesis is needed: the exit IS taken                          *)
(* ------------------------------------------------------------------ *)
(* In each witness the two trees are delimited, well-formed, with valid leaves; their hasher
   streams coincide although the recorded map() answers differ (`delimited_100`), for a reason
   that is not K6: the checker answers 100.  (The former checker answered 56, the code of K6,
   on every one of them.) *)

(* (1) the names: a combined leaf's name (excluded by the property, observable through map())
   together with a second difference the hash ignores and `==` sees - here the RawSource flag -
   so that the pair is not sent to 100 by the erasure test *)
Definition nm_a : src := SConcat [n4_a; SRaw true [122]].
Definition nm_b : src := SConcat [n4_b; SRaw false [122]].

Theorem names_needed :
  delimited nm_a = true /\ delimited nm_b = true /\ tree_wf nm_a = true /\ tree_wf nm_b = true /\
  all_leaves_valid nm_a = true /\ all_leaves_valid nm_b = true /\
  has_cached nm_a = false /\ has_cached nm_b = false /\
  inner_names nm_a <> inner_names nm_b /\
  hash_events nm_a = hash_events nm_b /\
  delimited_100 nm_a nm_b [] [] /\
  chk_C20_pair nm_a nm_b (api_pair nm_a [] nm_b []) = 100.       (* formerly 56 *)
Proof.
  unfold delimited_100.
  repeat split; try reflexivity; try (vm_compute; reflexivity). vm_compute. discriminate.
Qed.

(* (2) the histories: the K2 tree (a ReplaceSource over a CachedSource) next to a RawSource whose
   flag differs; one side streamed once before, the other cold *)
Definition hs_tree (i : N) (f : bool) : src :=
  SConcat [SReplace (SCached i (SConcat [SOriginal [123] [97]; SOriginal [123; 123; 59] [98]]))
                    [mkRepl 2 4 [10; 123] None 1];
           SRaw f [122]].

Theorem histories_needed :
  let a := hs_tree 1 true in let b := hs_tree 2 false in
  delimited a = true /\ delimited b = true /\ tree_wf a = true /\ tree_wf b = true /\
  all_leaves_valid a = true /\ all_leaves_valid b = true /\
  ids_distinct a /\ ids_distinct b /\ inner_names a = inner_names b /\ noinner a = true /\
  hash_events a = hash_events b /\ k2_shape a = true /\
  chk_C20_pair a b (api_pair a [] b []) = 0 /\
  delimited_100 a b [OStream false false] [] /\
  chk_C20_pair a b (api_pair a [OStream false false] b []) = 100 /\     (* formerly 56 *)
  chk_C20_pair a b (api_pair a [OMap false] b []) = 100.                 (* formerly 56 *)
Proof.
  cbn zeta. unfold delimited_100. repeat split; try reflexivity; try (vm_compute; reflexivity);
    (constructor; [intros []|constructor]).
Qed.

(* (2') the same with the observer calls the pair generator uses before the comparison (hash,
   source, map(columns), stream_chunks(columns, not final)): the K7 class - a CachedSource around
   an empty OriginalSource; map() lists the unreferenced file on the cold side only *)
Definition hk_tree (i : N) (f : bool) : src :=
  SConcat [SOriginal [97] [103]; SCached i (SOriginal [] [102]); SRaw f [120]].

Theorem histories_needed_k7 :
  let a := hk_tree 1 false in let b := hk_tree 2 true in
  delimited a = true /\ delimited b = true /\ tree_wf a = true /\ tree_wf b = true /\
  all_leaves_valid a = true /\ all_leaves_valid b = true /\
  ids_distinct a /\ ids_distinct b /\ noinner a = true /\ noinner b = true /\
  hash_events a = hash_events b /\ k2_shape a = false /\ k7_shape a = true /\ k7c_shape a = true /\
  chk_C20_pair a b (api_pair a [] b []) = 0 /\
  chk_C20_pair a b (api_pair a [OMap true] b [OMap true]) = 0 /\
  delimited_100 a b [OMap true] [] /\
  chk_C20_pair a b (api_pair a [OMap true] b []) = 100 /\                        (* formerly 56 *)
  chk_C20_pair a b (api_pair a [OHash] b [OMap true]) = 100 /\                   (* formerly 56 *)
  chk_C20_pair a b (api_pair a [OMap true] b [OStream true false]) = 100.        (* formerly 56 *)
Proof.
  cbn zeta. unfold delimited_100. repeat split; try reflexivity; try (vm_compute; reflexivity);
    (unfold ids_distinct; vm_compute; constructor; [intros []|constructor]).
Qed.

(* (3) the sharing pattern: one cache object under two nodes on one side only *)
Definition sh_tree (j : N) (f : bool) : src :=
  SConcat [SCached 1 (SOriginal [97; 10] [102]); SCached j (SOriginal [98; 10] [103]); SRaw f [122]].

Theorem sharing_needed :
  let a := sh_tree 1 true in let b := sh_tree 2 false in
  delimited a = true /\ delimited b = true /\ tree_wf a = true /\ tree_wf b = true /\
  inner_names a = inner_names b /\ hash_events a = hash_events b /\
  ~ ids_distinct a /\ ids_distinct b /\
  delimited_100 a b [] [] /\
  chk_C20_pair a b (api_pair a [] b []) = 100 /\                                  (* formerly 56 *)
  chk_C20_pair (sh_tree 2 true) (sh_tree 3 false) (api_pair (sh_tree 2 true) [] (sh_tree 3 false) []) = 0.
Proof.
  cbn zeta. unfold delimited_100. repeat split; try reflexivity; try (vm_compute; reflexivity).
  - intros H. inversion H as [|? ? Hn _]. apply Hn. left. reflexivity.
  - constructor; [intros [H|[]]; discriminate H|constructor; [intros []|constructor]].
Qed.

(* ... and validity of the binary leaves is NOT needed: a well-formed pair with invalid bytes *)
Definition iv_tree (f : bool) : src :=
  SConcat [SRawBuffer [255]; SRaw true [255]; SOriginal [97] [102]; SRaw f [122]].

Example invalid_leaves_covered (opsa opsb : list hop) :
  all_leaves_valid (iv_tree true) = false /\ tree_wf (iv_tree true) = true /\
  hash_events (iv_tree true) = hash_events (iv_tree false) /\
  chk_C20_pair (iv_tree true) (iv_tree false) (api_pair (iv_tree true) opsa (iv_tree false) opsb) = 0.
Proof.
  split; [reflexivity|]. split; [reflexivity|]. split; [reflexivity|].
  destruct (proj1 (C20_delimited_no_cache_partial (iv_tree true) (iv_tree false) opsa opsb
                     eq_refl eq_refl eq_refl eq_refl)) as [H|[_ [H|[H _]]]]; [exact H| |];
    vm_compute in H; discriminate H.
Qed.

Print Assumptions norm_views_wf.
Print Assumptions sim_normI_wf.
Print Assumptions sim_run_hops_weak.
Print Assumptions same_calls_related.
Print Assumptions delimited_hash_eq_recorded.
Print Assumptions delimited_differ_separates.
Print Assumptions C20_delimited_accepts_partial.
Print Assumptions C20_delimited_exit_unused_partial.
Print Assumptions C20_delimited_same_calls_partial.
Print Assumptions C20_delimited_same_histories_partial.
Print Assumptions C20_delimited_no_cache_partial.
Print Assumptions C20_delimited_noinner_no_cache_partial.
Print Assumptions names_needed.
Print Assumptions histories_needed.
Print Assumptions histories_needed_k7.
Print Assumptions sharing_needed.
Print Assumptions invalid_leaves_covered.
