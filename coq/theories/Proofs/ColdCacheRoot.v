(* Cold caches, part 3 (K3): later observations of a tree whose ROOT is a CachedSource over a
   tree with further (cold) CachedSource nodes inside.
   Along a history whose stream_chunks / map() calls all use ONE cache key (text views, hash
   and clone calls in any number in between), the root-level CachedSource misses at most once,
   at a moment where every inner cache is still cold; that miss is answered as by the tree
   without inner caches (K1), the value stored is the same, and every later call is a hit of
   the root cache, which never looks at the inner caches again.  Hence such a history is
   answered exactly as by `SCached id (uncache a)`, and `LinesCache.cached_composite_transparent_all`
   applies: every answer is equivalent to the answer of the fresh wrapped tree `a`.
   With two different keys the statement is FALSE of the model (the second root miss
   evaluates `a` over warm inner caches; under a ReplaceSource this is the known K2 class):
   counterexample at the end. *)
From RS Require Import Base.Prelude Base.Text Rope.RopeModel Codec.Vlq Codec.CodecSpec
  Checkers.ChkCodec Stream.Types Stream.Leaves Stream.Concat Stream.Replace Stream.Combined Stream.Tree
  Api.ApiTree Sem.Attr Sem.HashEq Api.ApiHist Checkers.ChkTree Checkers.ChkHist
  Proofs.StreamText Proofs.StreamTree Proofs.RStreamTree Proofs.LawWrappers
  Proofs.CacheStore Proofs.CacheReplay Proofs.FinalCache Proofs.LinesCache
  Proofs.ColdCache Proofs.ColdCacheTree.
Require Import Lia List.

Local Open Scope N_scope.

(* ------------------------------------------------------------------ *)
(* answers up to the hash value                                         *)
(* ------------------------------------------------------------------ *)
(* the hash of a CachedSource wraps the hash of the wrapped tree, so it sees inner wrappers;
   `answer_equiv` does not compare hash values *)
Definition ans_same (x y : answer) : Prop :=
  match x, y with
  | AHash _, AHash _ => True
  | _, _ => x = y
  end.

Lemma ans_same_refl x : ans_same x x.
Proof. destruct x; cbn; trivial. Qed.

Lemma answer_equiv_hash_l t o h h' r : answer_equiv t o (AHash h) r = answer_equiv t o (AHash h') r.
Proof. destruct o as [| | | | c | c f | |]; try destruct f; destruct r; reflexivity. Qed.

Lemma answer_equiv_hash_r t o h h' a : answer_equiv t o a (AHash h) = answer_equiv t o a (AHash h').
Proof. destruct o as [| | | | c | c f | |]; try destruct f; destruct a; reflexivity. Qed.

Lemma answer_equiv_same t o a a' r r' : ans_same a a' -> ans_same r r' ->
  answer_equiv t o a r = answer_equiv t o a' r'.
Proof.
  intros Ha Hr.
  assert (E1 : answer_equiv t o a r = answer_equiv t o a' r).
  { destruct a, a'; cbn in Ha; try discriminate; try (inversion Ha; subst; reflexivity);
      apply answer_equiv_hash_l. }
  rewrite E1. destruct r, r'; cbn in Hr; try discriminate; try (inversion Hr; subst; reflexivity);
    apply answer_equiv_hash_r.
Qed.

Lemma answers_equiv_same t : forall ops ans ans' ref ref' i,
  Forall2 ans_same ans ans' -> Forall2 ans_same ref ref' ->
  answers_equiv t ops ans ref i = answers_equiv t ops ans' ref' i.
Proof.
  induction ops as [|o ops IH]; intros ans ans' ref ref' i Ha Hr.
  - inversion Ha; inversion Hr; subst; reflexivity.
  - inversion Ha as [|a a' l l' Ha1 Ha2]; inversion Hr as [|r r' m m' Hr1 Hr2]; subst; try reflexivity.
    cbn [answers_equiv]. rewrite (answer_equiv_same t o a a' r r' Ha1 Hr1).
    destruct (answer_equiv t o a' r'); [|reflexivity]. apply IH; assumption.
Qed.

Lemma hop_eq_hash (op : hop) : {op = OHash} + {op <> OHash}.
Proof. destruct op; try (right; discriminate). left. reflexivity. Qed.

(* the first observer call of a fresh tree, hash calls included *)
Lemma fresh_answers_uncache (s : src) (ops : list hop) : ids_distinct s ->
  Forall2 ans_same (fresh_answers s ops) (fresh_answers (uncache s) ops).
Proof.
  intros Hd. unfold fresh_answers. induction ops as [|op ops IH]; [constructor|].
  cbn [map]. constructor; [|exact IH].
  destruct (hop_eq_hash op) as [E|E].
  - subst op. cbn. trivial.
  - rewrite (fresh_hop_uncache s op Hd E). apply ans_same_refl.
Qed.

(* ------------------------------------------------------------------ *)
(* one cache key                                                        *)
(* ------------------------------------------------------------------ *)
(* the cache key an observer call looks up in a root-level CachedSource *)
Definition on_key (k : opts) (op : hop) : Prop :=
  match op with
  | OStream c f => mkOpts c f = k
  | OMap c => mkOpts c false = k
  | _ => True
  end.

Section RootKey.
Variables (id : N) (a : src) (k : opts).
Hypothesis Hd : ids_distinct (SCached id a).

Let S := SCached id a.
Let S' := SCached id (uncache a).

Lemma root_no_id : has_id id a = false.
Proof. unfold ids_distinct in Hd. cbn [ids] in Hd. inversion Hd. subst. apply has_id_false. assumption. Qed.

Lemma root_inner_distinct : ids_distinct a.
Proof. unfold ids_distinct in Hd. cbn [ids] in Hd. inversion Hd. assumption. Qed.

(* the two root caches agree; as long as the root has no entry for `k`, the inner caches are cold *)
Definition Inv (st st' : store) : Prop :=
  store_get st id = store_get st' id /\
  (cache_get (store_get st id) k = None -> cold st a).

Lemma inv_empty : Inv [] [].
Proof. split; [reflexivity|]. intros _. apply cold_empty. Qed.

Lemma stream_step st st' : Inv st st' ->
  fst (stream st S k) = fst (stream st' S' k) /\ Inv (snd (stream st S k)) (snd (stream st' S' k)).
Proof.
  intros [E Hc]. unfold S, S'. cbn [stream]. rewrite <- E, uncache_source.
  destruct (cache_get (store_get st id) k) as [[m|]|] eqn:G.
  - split; [reflexivity|]. cbn [snd]. split; [exact E|]. rewrite G. discriminate.
  - split; [reflexivity|]. cbn [snd]. split; [exact E|]. rewrite G. discriminate.
  - specialize (Hc eq_refl).
    pose proof (cold_stream_uncache st a k root_inner_distinct Hc) as A.
    pose proof (proj1 (uncache_pure a) st' k) as P.
    pose proof (proj1 (no_id_keeps id a root_no_id) st k) as Kp.
    rewrite P. destruct (stream st a k) as [[evs gi] st1].
    destruct (fst (stream [] (uncache a) k)) as [evs' gi']. cbn [fst snd] in *. inversion A. subst evs' gi'.
    split; [reflexivity|]. split.
    + rewrite !store_get_put, Kp, <- E, G. reflexivity.
    + rewrite store_put_get_same. discriminate.
Qed.

Lemma map_step st st' c : mkOpts c false = k -> Inv st st' ->
  fst (map_of st S c) = fst (map_of st' S' c) /\ Inv (snd (map_of st S c)) (snd (map_of st' S' c)).
Proof.
  intros Hk [E Hc]. unfold S, S'. cbn [map_of]. rewrite Hk, <- E.
  destruct (cache_get (store_get st id) k) as [m|] eqn:G.
  - split; [reflexivity|]. cbn [snd]. split; [exact E|]. rewrite G. discriminate.
  - specialize (Hc eq_refl).
    pose proof (cold_map_uncache st a c root_inner_distinct Hc) as A.
    pose proof (proj2 (uncache_pure a) st' c) as P.
    pose proof (proj2 (no_id_keeps id a root_no_id) st c) as Kp.
    rewrite P. destruct (map_of st a c) as [m st1]. cbn [fst snd] in *. subst m.
    rewrite !store_put_get_same, Kp, <- E, G. cbn [fst snd].
    split; [reflexivity|]. split.
    + rewrite !store_get_put, Kp, <- E, G. reflexivity.
    + rewrite store_put_get_same. discriminate.
Qed.

Lemma hop_step st st' op : on_key k op -> Inv st st' ->
  ans_same (fst (run_hop st S op)) (fst (run_hop st' S' op)) /\
  Inv (snd (run_hop st S op)) (snd (run_hop st' S' op)).
Proof.
  intros Hk HI. destruct op; cbn [on_key] in Hk; cbn [run_hop fst snd].
  - split; [|exact HI]. unfold S, S'. cbn [source]. rewrite uncache_source. reflexivity.
  - split; [|exact HI]. unfold S, S'. cbn [buffer]. rewrite uncache_buffer. reflexivity.
  - split; [|exact HI]. unfold S, S'. cbn [size]. rewrite uncache_size. reflexivity.
  - split; [|exact HI]. unfold S, S'. cbn [rope_of]. rewrite uncache_rope. reflexivity.
  - destruct (map_step st st' cols Hk HI) as [A B].
    destruct (map_of st S cols) as [m st1]. destruct (map_of st' S' cols) as [m' st1'].
    cbn [fst snd] in *. subst m'. split; [reflexivity|exact B].
  - destruct (stream_step st st' HI) as [A B]. rewrite Hk.
    destruct (stream st S k) as [[e g] st1]. destruct (stream st' S' k) as [[e' g'] st1'].
    cbn [fst snd] in *. inversion A. subst. split; [reflexivity|exact B].
  - split; [exact I|exact HI].
  - split; [reflexivity|exact HI].
Qed.

Lemma history_step : forall ops st st', Forall (on_key k) ops -> Inv st st' ->
  Forall2 ans_same (fst (run_hops st S ops)) (fst (run_hops st' S' ops)).
Proof.
  induction ops as [|op ops IH]; intros st st' Hk HI; [constructor|].
  inversion Hk as [|? ? Hk1 Hk2]. subst. cbn [run_hops].
  destruct (hop_step st st' op Hk1 HI) as [A B].
  destruct (run_hop st S op) as [x st1]. destruct (run_hop st' S' op) as [x' st1'].
  cbn [fst snd] in *. specialize (IH st1 st1' Hk2 B).
  destruct (run_hops st1 S ops) as [xs st2]. destruct (run_hops st1' S' ops) as [xs' st2'].
  cbn [fst] in *. constructor; assumption.
Qed.

(* K3a: a single-key history on the tree with inner caches is answered as on the tree
   without them - identical answers, except that the hash value sees the inner wrappers *)
Theorem cached_root_same_key (ops : list hop) : Forall (on_key k) ops ->
  Forall2 ans_same (fst (run_hops [] (SCached id a) ops)) (fst (run_hops [] (SCached id (uncache a)) ops)).
Proof. intros Hk. apply history_step; [exact Hk|apply inv_empty]. Qed.

(* K3b: ... hence the root CachedSource is transparent along every such history *)
Hypothesis Hsh : RStreamTree.rshape (uncache a) = true.
Hypothesis HA : treeA a = true.
Hypothesis Hsm : rsmall (uncache a) = true.
Hypothesis Hroot : streams_map (uncache a) = true.
Hypothesis Hsmall : forall c f,
  forallb mapping_small (chunk_mappings (CacheReplay.evs_of (uncache a) c f)) = true.

Theorem cached_root_transparent_same_key (ops : list hop) : Forall (on_key k) ops ->
  answers_equiv (source a) ops (fst (run_hops [] (SCached id a) ops)) (fresh_answers a ops) 0 = 0.
Proof.
  intros Hk.
  rewrite (answers_equiv_same (source a) ops _ _ _ _ 0 (cached_root_same_key ops Hk)
             (fresh_answers_uncache a ops root_inner_distinct)).
  rewrite <- (uncache_source a).
  apply (cached_composite_transparent_all (uncache a) Hsh (treeA_uncache a HA) Hsm
           (fun st c => streams_map_get_map (uncache a) st c Hroot) Hsmall).
Qed.

(* the checker's form (C10: s = SCached _ inner, reference = inner fresh for each call) *)
Corollary cached_root_chist_same_key (ops : list hop) : Forall (on_key k) ops ->
  let '(ans, ref) := api_chist (SCached id a) ops in
  answers_equiv (source (SCached id a)) ops ans ref 0 = 0.
Proof. intros Hk. cbn [api_chist source]. apply cached_root_transparent_same_key. exact Hk. Qed.

End RootKey.

(* ------------------------------------------------------------------ *)
(* tests and the limit of the statement                                  *)
(* ------------------------------------------------------------------ *)
Definition r_orig := SOriginal [100; 101; 32; 120; 10; 102; 103; 59; 104] [103].
Definition r_cat := SConcat [r_orig; SRaw false [65; 10; 66]; r_orig; SRaw false [67; 67]].
Definition r_in := SReplace (SCached 2 r_cat) [mkRepl 1 3 [120] None 0; mkRepl 10 12 [121; 10; 122] None 1].
Definition r_root := SCached 1 r_in.

Example r_root_hyps :
  ids_distinctb r_root = true /\ RStreamTree.rshape (uncache r_in) = true /\ treeA r_in = true /\
  rsmall (uncache r_in) = true /\ streams_map (uncache r_in) = true /\
  forallb (fun c => forallb (fun f =>
     forallb mapping_small (chunk_mappings (CacheReplay.evs_of (uncache r_in) c f))) [true; false])
     [true; false] = true.
Proof. vm_compute. repeat split. Qed.

(* one key: transparent (an instance of the theorem, recomputed) *)
Example r_root_one_key :
  let ops := [OStream false false; OSrc; OStream false false; OMap false; OHash; OStream false false] in
  answers_equiv (source r_in) ops (fst (run_hops [] r_root ops)) (fresh_answers r_in ops) 0 = 0.
Proof. vm_compute. reflexivity. Qed.

(* FULL statement, false of the model:
     Forall (fun _ => True) ops ->
     answers_equiv (source a) ops (fst (run_hops [] (SCached id a) ops)) (fresh_answers a ops) 0 = 0
   Two keys: the call `OStream false true` misses in the root cache and evaluates the
   ReplaceSource, which streams its inner CachedSource 2 with (false, false) - warm since the
   call before.  The replayed chunks are cut differently and the ReplaceSource attributes its
   output differently (K2 class: `k2_shape r_root = true`). *)
Example cached_root_two_keys_counterexample :
  let ops := [OStream false false; OStream false true] in
  answers_equiv (source r_in) ops (fst (run_hops [] r_root ops)) (fresh_answers r_in ops) 0 = 2 /\
  k2_shape r_root = true.
Proof. vm_compute. split; reflexivity. Qed.

Print Assumptions answers_equiv_same.
Print Assumptions fresh_answers_uncache.
Print Assumptions cached_root_same_key.
Print Assumptions cached_root_transparent_same_key.
Print Assumptions cached_root_chist_same_key.
