(* C13, law "a ReplaceSource whose replacements are all empty insertions behaves as its inner
   source", E1: the text.  `empties rs`: every replacement has start = end and empty content. *)
From Coq Require Import List NArith Bool Lia Permutation.
From RS Require Import Base.Prelude Base.Text Rope.RopeModel Stream.Types Stream.Replace Stream.Tree
  Sem.ReplaceObj.
From RS Require Import Proofs.RopeWf Proofs.ReplaceSort Proofs.ReplaceText Proofs.RStreamText.
Import ListNotations.

Local Open Scope N_scope.

Definition empty_ins (r : repl) : bool := (r_start r =? r_end r) && is_nil (r_content r).

Definition empties (rs : list repl) : bool := forallb empty_ins rs.

Lemma empty_ins_spec r : empty_ins r = true <-> r_start r = r_end r /\ r_content r = [].
Proof.
  unfold empty_ins. rewrite andb_true_iff, N.eqb_eq, is_nil_spec. reflexivity.
Qed.

Lemma empties_Forall rs : empties rs = true <-> Forall (fun r => empty_ins r = true) rs.
Proof. unfold empties. rewrite forallb_forall, Forall_forall. reflexivity. Qed.

Lemma empties_cons r rs : empties (r :: rs) = true <-> empty_ins r = true /\ empties rs = true.
Proof. unfold empties. cbn [forallb]. apply andb_true_iff. Qed.

Lemma empties_perm a b : Permutation a b -> empties a = true -> empties b = true.
Proof.
  intros P H. apply empties_Forall. apply empties_Forall in H.
  rewrite Forall_forall in *. intros x Hx. apply H. apply (Permutation_in x (Permutation_sym P) Hx).
Qed.

Lemma empties_sort rs : empties rs = true -> empties (sort_repls rs) = true.
Proof. apply empties_perm. apply Permutation_sym. apply sort_repls_perm. Qed.

Lemma empties_sort_inv rs : empties (sort_repls rs) = true -> empties rs = true.
Proof. apply empties_perm. apply sort_repls_perm. Qed.

(* the reference application of empty insertions copies the text *)
Lemma ref_apply_empties (T : text) : forall rs c, empties rs = true -> ref_apply T rs c = drop c T.
Proof.
  induction rs as [|r rs IH]; intros c H; [reflexivity|].
  apply empties_cons in H. destruct H as [Hr H]. apply empty_ins_spec in Hr. destruct Hr as [Hse Hc].
  cbn [ref_apply]. rewrite Hc, <- Hse, (IH _ H). cbn [app].
  destruct (N.ltb_spec c (N.min (r_start r) (len T))) as [K|K].
  - replace (N.max c (N.min (r_start r) (len T))) with (N.min (r_start r) (len T)) by lia.
    symmetry. apply slice_drop_end. lia.
  - replace (N.max c (N.min (r_start r) (len T))) with c by lia. reflexivity.
Qed.

(* E1 *)
Theorem replace_text_empties (T : text) (rs : list repl) :
  empties rs = true -> replace_source_text T rs = T.
Proof.
  intros H. rewrite replace_source_text_ref. unfold ref_text. rewrite <- sort_repls_ref.
  rewrite ref_apply_empties by (apply empties_sort; exact H). apply drop_0.
Qed.

Corollary source_replace_empties (inner : src) (rs : list repl) :
  empties rs = true -> source (SReplace inner rs) = source inner.
Proof. intros H. cbn [source]. apply replace_text_empties. exact H. Qed.

(* the other text views *)
Corollary buffer_replace_empties (inner : src) (rs : list repl) :
  empties rs = true -> buffer (SReplace inner rs) = replace_source_text (source inner) rs /\
  replace_source_text (source inner) rs = source inner.
Proof. intros H. split; [reflexivity|]. apply replace_text_empties. exact H. Qed.

Print Assumptions replace_text_empties.
Print Assumptions source_replace_empties.
