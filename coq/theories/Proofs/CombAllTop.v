(* C09, whole stream, part 9: T3 - `chk_C09` accepts the model's own observations of a
   SourceMapSource with inner map, on the checker's domain (its four guards) strengthened by
     - files_consistentb : a file name determines its content among the outer map's other
       sources, the inner map's sources and the inner source itself;
     - names_nonempty    : no empty name in the outer map;
     - c09_sized         : tables inside u32, original columns below 2^31;
     - the encoder's domain (all emitted fields < 2^30), as in Proofs/FinalTree.v.
   The unrestricted statement is FALSE: two counterexamples below, checked by vm_compute. *)
From RS Require Import Base.Prelude Base.Text Rope.RopeModel Codec.Vlq Codec.CodecSpec
  Checkers.ChkCodec Stream.Types Stream.Leaves Stream.Combined Stream.Tree Api.ApiTree Sem.Attr
  Checkers.ChkTree Checkers.ChkCombined
  Proofs.StreamText Proofs.StreamLeaves Proofs.StreamMap Proofs.WfStream Proofs.AttrCodec Proofs.AttrSms
  Proofs.CombPass
  Proofs.CombAllSpec Proofs.CombAllInner Proofs.CombAllRun Proofs.CombAllStep Proofs.CombAllStream
  Proofs.CombAllT12 Proofs.CombAllLookup Proofs.CombAllChk Proofs.CombAllLines.
Require Import Lia List ZArith.

Local Open Scope N_scope.

(* ------------------------------------------------------------------ *)
(* the extra domain conditions, as booleans                             *)
(* ------------------------------------------------------------------ *)
Definition files_consistentb (F : list (text * option text)) : bool :=
  forallb (fun p => forallb (fun q => implb (text_eqb (fst p) (fst q)) (content_eqv (snd p) (snd q))) F) F.

Lemma files_consistentb_ok F : files_consistentb F = true -> files_consistent F.
Proof.
  unfold files_consistentb, files_consistent. rewrite forallb_forall. intros H p q Hp Hq E.
  specialize (H p Hp). rewrite forallb_forall in H. specialize (H q Hq).
  rewrite E, text_eqb_refl in H. exact H.
Qed.

Definition names_nonempty (m : smap) : bool := forallb (fun n : text => negb (is_nil n)) (sm_names m).

Lemma names_nonempty_ok m : names_nonempty m = true -> Forall (fun n : text => n <> []) (sm_names m).
Proof.
  unfold names_nonempty. rewrite forallb_forall. intros H. apply Forall_forall. intros n Hn E.
  specialize (H n Hn). subst n. discriminate.
Qed.

(* the checker's own domain: its four guards *)
Definition c09_guards (v name : text) (m : smap) (orig : option text) (im : smap) (remove : bool) : bool :=
  let original := original_of m name orig in
  treeA (SMapped v name m orig (Some im) remove)
  && (len (filter (fun x => text_eqb (get_source m x) name) (sm_sources m)) =? 1)
  && (match original with Some ot => map_consistent ot im | None => true end)
  && (match find_text (sm_sources im) name 0 with
      | Some i => content_eqv (content_in im i) original
      | None => true end).

Definition c09_extra (v name : text) (m : smap) (orig : option text) (im : smap) (remove : bool) : bool :=
  c09_sized m im && files_consistentb (FILES m im name orig) && names_nonempty m
  && forallb mapping_small (chunk_mappings (fst (combined_stream v m name orig im remove (mkOpts true true))))
  && forallb mapping_small (chunk_mappings (fst (combined_stream v m name orig im remove (mkOpts false true)))).

(* ------------------------------------------------------------------ *)
(* the guards give the domain of T1/T2                                  *)
(* ------------------------------------------------------------------ *)
Lemma outer_content_in m name : forall srcs i c,
  outer_content_of m srcs i name = Some c -> In c (sm_contents m).
Proof.
  induction srcs as [|s srcs IH]; intros i c H; [discriminate|]. cbn [outer_content_of] in H.
  destruct (text_eqb (get_source m s) name).
  - unfold content_in in H. apply (In_nth_opt _ _ _ H).
  - apply (IH _ _ H).
Qed.

Lemma guards_wf v name m orig im remove : c09_guards v name m orig im remove = true ->
  c09_sized m im = true -> c09_wf v m name orig im.
Proof.
  unfold c09_guards. intros H Hsz. apply andb_true_iff in H. destruct H as [H _].
  apply andb_true_iff in H. destruct H as [H G3]. apply andb_true_iff in H. destruct H as [G1 G2].
  unfold treeA in G1. apply andb_true_iff in G1. destruct G1 as [_ G1]. cbn [tree_ascii] in G1.
  apply andb_true_iff in G1. destruct G1 as [G1 A6]. apply andb_true_iff in G1. destruct G1 as [G1 A5].
  apply andb_true_iff in G1. destruct G1 as [G1 A4]. apply andb_true_iff in G1. destruct G1 as [G1 A3].
  split; [exact A4|]. split; [apply N.eqb_eq in G2; exact G2|]. split; [|exact Hsz].
  intros ot Eot. rewrite Eot in G3. split; [|exact G3].
  unfold original_of in Eot. destruct orig as [t|].
  - inversion Eot. subst t. exact A5.
  - apply outer_content_in in Eot. unfold smap_ascii in A3. apply andb_true_iff in A3. destruct A3 as [A3 _].
    apply andb_true_iff in A3. destruct A3 as [_ A3]. rewrite forallb_forall in A3. apply A3. exact Eot.
Qed.

(* ------------------------------------------------------------------ *)
(* T3                                                                  *)
(* ------------------------------------------------------------------ *)
Theorem chk_C09_model (v name : text) (m : smap) (orig : option text) (im : smap) (remove : bool) :
  c09_guards v name m orig im remove = true ->
  c09_extra v name m orig im remove = true ->
  let s := SMapped v name m orig (Some im) remove in
  chk_C09 s (api_tree s []) = 0.
Proof.
  intros Hg He s. pose proof Hg as Hg'. unfold c09_guards in Hg'.
  apply andb_true_iff in Hg'. destruct Hg' as [Hg' G4]. apply andb_true_iff in Hg'. destruct Hg' as [Hg' G3].
  apply andb_true_iff in Hg'. destruct Hg' as [G1 G2].
  unfold c09_extra in He. apply andb_true_iff in He. destruct He as [He X5]. apply andb_true_iff in He.
  destruct He as [He X4]. apply andb_true_iff in He. destruct He as [He X3]. apply andb_true_iff in He.
  destruct He as [X1 X2].
  pose proof (guards_wf v name m orig im remove Hg X1) as Hwf.
  pose proof (files_consistentb_ok _ X2) as Hfc. pose proof (names_nonempty_ok _ X3) as Hnn.
  destruct (cols_clauses v m im name orig remove Hwf Hfc Hnn X4) as [C1 C3a].
  destruct (lines_clauses v m im name orig remove Hwf Hfc X5) as [C2 C3b].
  subst s. unfold chk_C09. cbv beta iota zeta.
  change (match orig with Some t => Some t | None => outer_content_of m (sm_sources m) 0 name end)
    with (original_of m name orig).
  rewrite G1, G2, G3, G4. cbn [negb].
  unfold api_tree. cbn [to_maps run_warm map_of get_map stream fst snd].
  destruct (combined_stream v m name orig im remove (mkOpts true true)) as [e1 g1] eqn:E1.
  destruct (combined_stream v m name orig im remove (mkOpts false true)) as [e0 g0] eqn:E0.
  cbn [fst snd] in *. rewrite C1, C2, C3a, C3b. reflexivity.
Qed.

(* ------------------------------------------------------------------ *)
(* the unrestricted statement is false                                  *)
(* ------------------------------------------------------------------ *)
(* Full statement (FALSE):
     forall v name m orig im remove, c09_guards v name m orig im remove = true ->
       chk_C09 (SMapped v name m orig (Some im) remove)
               (api_tree (SMapped v name m orig (Some im) remove) []) = 0.
   (a) the outer map lists the file "a" twice with different contents; the stream announces "a"
       once (with the first content), the reference wants the content of the index used;
   (b) an empty outer name on a segment into the inner source whose inner mapping points at an
       original line beyond the content the inner map carries: streamer (model and Rust) compares
       the name with the empty string it reads there and keeps the name, the reference's
       `text_at` answers false for a missing line. *)
Definition cex_seg l c s ol oc n := mkMapping l c (Some (mkOrig s ol oc n)).
Definition cex_map segs srcs cts nms := mkSmap None (encode_mappings true segs) srcs cts nms None None.

Definition cex_a_outer := cex_map [cex_seg 1 0 1 1 0 None; cex_seg 1 1 2 1 0 None]
                                  [[97]; [97]; [105]] [[120]; [121]; [122; 122]] [].
Definition cex_a_inner := cex_map [cex_seg 1 0 0 1 0 None] [[111]] [[120; 121]] [].
Definition cex_a := SMapped [97; 98] [105] cex_a_outer None (Some cex_a_inner) false.

Example cex_a_in_domain_rejected :
  (c09_guards [97; 98] [105] cex_a_outer None cex_a_inner false, chk_C09 cex_a (api_tree cex_a []))
  = (true, 1).
Proof. vm_compute. reflexivity. Qed.

Definition cex_b_outer := cex_map [cex_seg 1 0 0 1 0 (Some 0)] [[105]] [[120; 121]] [[]].
Definition cex_b_inner := cex_map [cex_seg 1 0 0 5 0 None] [[111]] [[113]] [].
Definition cex_b := SMapped [97; 98] [105] cex_b_outer None (Some cex_b_inner) false.

Example cex_b_in_domain_rejected :
  (c09_guards [97; 98] [105] cex_b_outer None cex_b_inner false, chk_C09 cex_b (api_tree cex_b []))
  = (true, 1).
Proof. vm_compute. reflexivity. Qed.

(* the hypotheses of the theorem are satisfiable: an instance with two outer sources besides the
   inner one, names on both maps, an identity-mapped stretch and a fallback *)
Definition ok_outer := cex_map
  [cex_seg 1 0 0 1 0 None; cex_seg 1 2 1 1 1 (Some 0); cex_seg 1 4 1 2 0 (Some 1);
   cex_seg 2 0 1 1 5 None; cex_seg 2 1 2 3 3 None; cex_seg 2 2 1 2 2 (Some 1)]
  [[97]; [105]; [97]]
  [[65]; [120;121;122;32;117;118;119;10;102;111;111;32;98;97;114;10]; [65]]
  [[121;122]; [102;111;111]].
Definition ok_inner := cex_map
  [cex_seg 1 0 0 1 0 None; cex_seg 1 4 1 1 0 (Some 0); mkMapping 1 6 None; cex_seg 2 0 0 2 0 None; cex_seg 2 4 0 2 1 None]
  [[111]; [112]] [[120;121;122;113;10;102;111;111;10]; [113]] [[110;110]].
Definition ok_text : text := [97;98;99;100;101;102;10;103;104;105;10].

Example hypotheses_satisfiable :
  (c09_guards ok_text [105] ok_outer None ok_inner false, c09_extra ok_text [105] ok_outer None ok_inner false)
  = (true, true).
Proof. vm_compute. reflexivity. Qed.

Print Assumptions chk_C09_model.
