(* C06 for ConcatSource, text-carrying mode (Q1, Q2): the composite attributes every
   byte to the same file NAME, line, column and NAME string as the child that
   contributed it (indices are renumbered, strings are not), and every file a child
   references keeps its content.
   Invariant: for the current child, c_src_idx[i] is the global index of the string the
   child announced as i, and the global table maps that index back to the same string. *)
From RS Require Import Base.Prelude Base.Text Rope.RopeModel Codec.Vlq Codec.CodecSpec
  Stream.Types Stream.Leaves Stream.Concat Stream.Replace Stream.Combined Stream.Tree
  Sem.Attr Checkers.ChkTree Checkers.ChkComp
  Proofs.StreamText Proofs.StreamLeaves Proofs.StreamMap Proofs.StreamConcat Proofs.StreamTree
  Proofs.WfStream Proofs.AttrCodec.
Require Import Lia List.

Local Open Scope N_scope.

(* ------------------------------------------------------------------ *)
(* (text, attribution) of every chunk; both attributions factor through it *)
(* ------------------------------------------------------------------ *)
Definition tattr := (option text * attr)%type.

Definition ta (chs : list (option text * rseg)) : list tattr :=
  map (fun x => (fst x, snd (snd x))) chs.

Fixpoint cover (l : list tattr) : list attr :=
  match l with
  | [] => []
  | (Some t, a) :: l' => map (fun _ => a) t ++ cover l'
  | (None, _) :: l' => cover l'
  end.

Fixpoint lfc (l : list tattr) (cur : attr) (acc : list attr) (n : nat) : list attr :=
  match l with
  | [] => rev (repeat cur n ++ acc)
  | (None, _) :: l' => lfc l' cur acc n
  | (Some t, a) :: l' =>
    let cur' := match cur, a with
                | None, Some x => if is_nil t then None else Some (mkLoc (l_file x) (l_line x) 0 None)
                | _, _ => cur end in
    if ends_with_nl t then lfc l' None (repeat cur' (n + length t) ++ acc) 0
    else lfc l' cur' acc (n + length t)
  end.

Lemma ta_app a b : ta (a ++ b) = ta a ++ ta b.
Proof. apply map_app. Qed.

Lemma attr_cover_ta chs : attr_cover chs = cover (ta chs).
Proof.
  induction chs as [|[[t|] [[l c] a]] chs IH]; [reflexivity| |];
    unfold ta in *; cbn [map attr_cover cover fst snd]; rewrite IH; reflexivity.
Qed.

Lemma line_firsts_cover_ta chs : forall cur acc n,
  line_firsts_cover chs cur acc n = lfc (ta chs) cur acc n.
Proof.
  induction chs as [|[[t|] [[l c] a]] chs IH]; intros cur acc n; [reflexivity| |];
    unfold ta in *; cbn [map line_firsts_cover lfc fst snd]; rewrite !IH; reflexivity.
Qed.

Lemma attr_of_stream_ta evs cols :
  attr_of_stream evs cols =
  if cols then cover (ta (rsegs_of_events evs [] [])) else lfc (ta (rsegs_of_events evs [] [])) None [] 0.
Proof. unfold attr_of_stream. destruct cols; [apply attr_cover_ta|apply line_firsts_cover_ta]. Qed.

Lemma ta_attr_of_stream a b cols :
  ta (rsegs_of_events a [] []) = ta (rsegs_of_events b [] []) -> attr_of_stream a cols = attr_of_stream b cols.
Proof. intros H. rewrite !attr_of_stream_ta, H. reflexivity. Qed.

Lemma cover_app a b : cover (a ++ b) = cover a ++ cover b.
Proof.
  induction a as [|[[t|] x] a IH]; [reflexivity| |]; cbn [app cover]; rewrite IH; [|reflexivity].
  apply app_assoc.
Qed.

Lemma cover_flat_map {A} (f : A -> list tattr) (l : list A) :
  cover (flat_map f l) = flat_map (fun x => cover (f x)) l.
Proof. induction l as [|x l IH]; [reflexivity|]. cbn [flat_map]. rewrite cover_app, IH. reflexivity. Qed.

(* chunks without bytes contribute nothing *)
Definition live (x : tattr) : bool := match fst x with Some (_ :: _) => true | _ => false end.

Lemma cover_live l : cover l = cover (filter live l).
Proof.
  induction l as [|[[[|b t]|] a] l IH]; [reflexivity| | |]; cbn [filter live fst cover map app]; rewrite IH; reflexivity.
Qed.

Lemma lfc_live l : forall cur acc n, lfc l cur acc n = lfc (filter live l) cur acc n.
Proof.
  induction l as [|[[[|b t]|] a] l IH]; intros cur acc n; [reflexivity| | |]; cbn [filter live fst].
  - cbn [lfc is_nil length]. change (ends_with_nl []) with false. cbn iota. rewrite Nat.add_0_r.
    replace (match cur with Some _ => cur | None => match a with Some _ => None | None => cur end end) with cur
      by (destruct cur, a; reflexivity).
    apply IH.
  - cbn [lfc]. destruct (ends_with_nl (b :: t)); apply IH.
  - cbn [lfc]. apply IH.
Qed.

Lemma ta_live_attr_of_stream a b cols :
  filter live (ta (rsegs_of_events a [] [])) = filter live (ta (rsegs_of_events b [] [])) ->
  attr_of_stream a cols = attr_of_stream b cols.
Proof.
  intros H. rewrite !attr_of_stream_ta. destruct cols.
  - rewrite cover_live, H, <- cover_live. reflexivity.
  - rewrite lfc_live, H, <- lfc_live. reflexivity.
Qed.

Lemma ta_texts evs : forall s n, map fst (ta (rsegs_of_events evs s n)) = chunk_texts evs.
Proof.
  induction evs as [|e evs IH]; intros s n; [reflexivity|].
  destruct e as [t m|i nm c|i nm]; cbn [rsegs_of_events chunk_texts]; [|apply IH|apply IH].
  unfold ta in *. cbn [map fst]. rewrite IH. reflexivity.
Qed.

(* ------------------------------------------------------------------ *)
(* event lists in sequence                                             *)
(* ------------------------------------------------------------------ *)
Lemma tabs_app a : forall b s n,
  tabs (a ++ b) s n = tabs b (fst (tabs a s n)) (snd (tabs a s n)).
Proof.
  induction a as [|e a IH]; intros b s n; [reflexivity|].
  destruct e as [t m|i nm c|i nm]; cbn [app tabs]; apply IH.
Qed.

Lemma rsegs_app a : forall b s n,
  rsegs_of_events (a ++ b) s n =
  rsegs_of_events a s n ++ rsegs_of_events b (fst (tabs a s n)) (snd (tabs a s n)).
Proof.
  induction a as [|e a IH]; intros b s n; [reflexivity|].
  destruct e as [t m|i nm c|i nm]; cbn [app rsegs_of_events tabs]; rewrite IH; reflexivity.
Qed.

Lemma lm_insert_next (d : text) (tbl : list text) (n : text) : lm_insert d tbl (len tbl) n = tbl ++ [n].
Proof.
  rewrite (lm_insert_ok d tbl (len tbl) n); [rewrite N.eqb_refl; reflexivity|].
  unfold slot_ok. rewrite N.eqb_refl. reflexivity.
Qed.

Lemma slen_snoc {A} (l : list A) (x : A) : len (l ++ [x]) = len l + 1.
Proof. rewrite slen_app. reflexivity. Qed.

Lemma dense_app a : forall b s n, dense a (len s) (len n) = true ->
  dense (a ++ b) (len s) (len n) = dense b (len (fst (tabs a s n))) (len (snd (tabs a s n))).
Proof.
  induction a as [|e a IH]; intros b s n H; [reflexivity|].
  destruct e as [t m|i nm c|i nm]; cbn [app dense tabs] in *; apply andb_true_iff in H; destruct H as [H1 H2].
  - rewrite H1. cbn [andb]. apply IH. exact H2.
  - rewrite H1. cbn [andb]. apply N.eqb_eq in H1. subst i. rewrite lm_insert_next.
    rewrite <- (slen_snoc s nm) in *. apply IH. exact H2.
  - rewrite H1. cbn [andb]. apply N.eqb_eq in H1. subst i. rewrite lm_insert_next.
    rewrite <- (slen_snoc n nm) in *. apply IH. exact H2.
Qed.

Lemma dense_app_true a b s n :
  dense a (len s) (len n) = true ->
  dense b (len (fst (tabs a s n))) (len (snd (tabs a s n))) = true ->
  dense (a ++ b) (len s) (len n) = true.
Proof. intros H1 H2. rewrite dense_app by exact H1. exact H2. Qed.

(* ------------------------------------------------------------------ *)
(* de-duplication tables                                               *)
(* ------------------------------------------------------------------ *)
Lemma find_text_nth tbl t : forall i g, find_text tbl t i = Some g -> nth_opt tbl (g - i) = Some t.
Proof.
  induction tbl as [|x tbl IH]; intros i g H; cbn [find_text] in H; [discriminate|].
  destruct (text_eqb x t) eqn:E.
  - inversion H. subst g. apply text_eqb_eq in E. subst x. rewrite N.sub_diag. apply snth_0.
  - pose proof (find_text_bound _ _ _ _ H) as [B _]. apply IH in H.
    replace (g - i) with (g - (i + 1) + 1) by lia. rewrite snth_succ. exact H.
Qed.

Lemma find_text_nth0 tbl t g : find_text tbl t 0 = Some g -> nth_opt tbl g = Some t.
Proof. intros H. apply find_text_nth in H. rewrite N.sub_0_r in H. exact H. Qed.

Lemma snth_len_snoc {A} (l : list A) (x : A) : nth_opt (l ++ [x]) (len l) = Some x.
Proof.
  unfold nth_opt, len. rewrite Nat2N.id, nth_error_app2 by lia. rewrite Nat.sub_diag. reflexivity.
Qed.

(* idx translates the child's table ct into the global table gt, string by string *)
Definition ren_ok (idx : list N) (ct gt : list text) : Prop :=
  forall j x, nth_opt ct j = Some x -> exists g, lm_get idx j = Some g /\ nth_opt gt g = Some x.

Lemma ren_ok_nil gt : ren_ok [] [] gt.
Proof. intros j x H. rewrite snth_nil in H. discriminate. Qed.

Lemma ren_ok_grow idx ct gt e : ren_ok idx ct gt -> ren_ok idx ct (gt ++ e).
Proof.
  intros H j x Hj. destruct (H j x Hj) as [g [A B]]. exists g. split; [exact A|].
  rewrite snth_app_l; [exact B|]. eapply snth_some_lt. exact B.
Qed.

Lemma ren_ok_insert idx ct gt g name : ren_ok idx ct gt -> nth_opt gt g = Some name ->
  ren_ok (lm_insert 0 idx (len ct) g) (ct ++ [name]) gt.
Proof.
  intros H Hg j x Hj. destruct (N.lt_trichotomy j (len ct)) as [L|[L|L]].
  - rewrite snth_app_l in Hj by exact L. destruct (H j x Hj) as [g' [A B]]. exists g'.
    split; [|exact B]. apply lm_get_insert_other; [lia|exact A].
  - subst j. rewrite snth_len_snoc in Hj. inversion Hj. subst x. exists g.
    split; [apply lm_get_insert_same|exact Hg].
  - rewrite snth_none in Hj; [discriminate|]. rewrite slen_snoc. lia.
Qed.

(* ------------------------------------------------------------------ *)
(* one event of a child                                                *)
(* ------------------------------------------------------------------ *)
Record rinv (st : cstate) (cs cn : list text) : Prop := mkRinv {
  ri_close : c_close st = false;
  ri_src : ren_ok (c_src_idx st) cs (c_sources st);
  ri_name : ren_ok (c_name_idx st) cn (c_names st) }.

(* the composite's own announcements are dense and its tables are the de-duplication tables *)
Definition out_ok (st st' : cstate) (out : list event) : Prop :=
  tabs out (c_sources st) (c_names st) = (c_sources st', c_names st') /\
  dense out (len (c_sources st)) (len (c_names st)) = true.

Lemma concat_event_attr st e evs cs cn :
  rinv st cs cn -> dense (e :: evs) (len cs) (len cn) = true ->
  rinv (fst (concat_event false st e)) (fst (tabs [e] cs cn)) (snd (tabs [e] cs cn)) /\
  dense evs (len (fst (tabs [e] cs cn))) (len (snd (tabs [e] cs cn))) = true /\
  out_ok st (fst (concat_event false st e)) (snd (concat_event false st e)) /\
  ta (rsegs_of_events (snd (concat_event false st e)) (c_sources st) (c_names st))
  = ta (rsegs_of_events [e] cs cn).
Proof.
  intros [Hc Hs Hn] Hd. destruct e as [chunk m|i name content|i name].
  - (* chunk *)
    cbn [concat_event]. rewrite Hc. cbn [andb app]. cbn [dense] in Hd.
    apply andb_true_iff in Hd. destruct Hd as [Hm Hd]. cbn [tabs fst snd].
    destruct (m_orig m) as [o|] eqn:Eo.
    + apply andb_true_iff in Hm. destruct Hm as [Ho Hna]. apply N.ltb_lt in Ho.
      destruct (snth_lt_some cs (o_src o) Ho) as [x Hx]. destruct (Hs _ _ Hx) as [g [G1 G2]].
      rewrite G1. pose proof (snth_some_lt _ _ _ G2) as Gl. apply N.ltb_lt in Gl.
      destruct (o_name o) as [k|] eqn:Ek.
      * apply N.ltb_lt in Hna. destruct (snth_lt_some cn k Hna) as [y Hy].
        destruct (Hn _ _ Hy) as [gk [K1 K2]]. rewrite K1.
        pose proof (snth_some_lt _ _ _ K2) as Kl. apply N.ltb_lt in Kl.
        split; [constructor; cbn [c_close c_src_idx c_name_idx c_sources c_names]; [reflexivity|exact Hs|exact Hn]|].
        split; [exact Hd|]. split.
        { split; [reflexivity|]. cbn [dense m_orig o_src o_name c_sources c_names]. rewrite Gl, Kl. reflexivity. }
        unfold ta. cbn [rsegs_of_events map fst snd m_orig o_src o_line o_col o_name].
        rewrite Eo. cbn [o_src o_name]. rewrite Ek, G2, K2, Hx, Hy. reflexivity.
      * split; [constructor; cbn [c_close c_src_idx c_name_idx c_sources c_names]; [reflexivity|exact Hs|exact Hn]|].
        split; [exact Hd|]. split.
        { split; [reflexivity|]. cbn [dense m_orig o_src o_name c_sources c_names]. rewrite Gl. reflexivity. }
        unfold ta. cbn [rsegs_of_events map fst snd m_orig o_src o_line o_col o_name].
        rewrite Eo. cbn [o_src o_name]. rewrite Ek, G2, Hx. reflexivity.
    + split; [constructor; cbn [c_close c_src_idx c_name_idx c_sources c_names]; [reflexivity|exact Hs|exact Hn]|].
      split; [exact Hd|]. split; [split; reflexivity|].
      unfold ta. cbn [rsegs_of_events map fst snd m_orig unmapped]. rewrite Eo. reflexivity.
  - (* source *)
    cbn [dense] in Hd. apply andb_true_iff in Hd. destruct Hd as [Hi Hd]. apply N.eqb_eq in Hi. subst i.
    cbn [tabs fst snd]. rewrite lm_insert_next, slen_snoc.
    cbn [concat_event]. destruct (find_text (c_sources st) name 0) as [g|] eqn:E; cbn [fst snd].
    + split.
      { constructor; cbn [c_close c_src_idx c_name_idx c_sources c_names]; [exact Hc| |exact Hn].
        apply ren_ok_insert; [exact Hs|apply find_text_nth0; exact E]. }
      split; [exact Hd|]. split; [split; reflexivity|reflexivity].
    + split.
      { constructor; cbn [c_close c_src_idx c_name_idx c_sources c_names]; [exact Hc| |exact Hn].
        apply ren_ok_insert; [apply ren_ok_grow; exact Hs|apply snth_len_snoc]. }
      split; [exact Hd|]. split; [|reflexivity].
      split; cbn [tabs dense c_sources c_names].
      * rewrite lm_insert_next. reflexivity.
      * rewrite N.eqb_refl. reflexivity.
  - (* name *)
    cbn [dense] in Hd. apply andb_true_iff in Hd. destruct Hd as [Hi Hd]. apply N.eqb_eq in Hi. subst i.
    cbn [tabs fst snd]. rewrite lm_insert_next, slen_snoc.
    cbn [concat_event]. destruct (find_text (c_names st) name 0) as [g|] eqn:E; cbn [fst snd].
    + split.
      { constructor; cbn [c_close c_src_idx c_name_idx c_sources c_names]; [exact Hc|exact Hs|].
        apply ren_ok_insert; [exact Hn|apply find_text_nth0; exact E]. }
      split; [exact Hd|]. split; [split; reflexivity|reflexivity].
    + split.
      { constructor; cbn [c_close c_src_idx c_name_idx c_sources c_names]; [exact Hc|exact Hs|].
        apply ren_ok_insert; [apply ren_ok_grow; exact Hn|apply snth_len_snoc]. }
      split; [exact Hd|]. split; [|reflexivity].
      split; cbn [tabs dense c_sources c_names].
      * rewrite lm_insert_next. reflexivity.
      * rewrite N.eqb_refl. reflexivity.
Qed.

Lemma out_ok_app st st1 st2 o1 o2 : out_ok st st1 o1 -> out_ok st1 st2 o2 -> out_ok st st2 (o1 ++ o2).
Proof.
  intros [A1 A2] [B1 B2]. split.
  - rewrite tabs_app, A1. exact B1.
  - apply dense_app_true; [exact A2|]. rewrite A1. exact B2.
Qed.

Lemma concat_events_attr evs : forall st cs cn,
  rinv st cs cn -> dense evs (len cs) (len cn) = true ->
  c_close (fst (concat_events false st evs)) = false /\
  out_ok st (fst (concat_events false st evs)) (snd (concat_events false st evs)) /\
  ta (rsegs_of_events (snd (concat_events false st evs)) (c_sources st) (c_names st))
  = ta (rsegs_of_events evs cs cn).
Proof.
  induction evs as [|e evs IH]; intros st cs cn HI Hd.
  - cbn [concat_events fst snd]. split; [apply HI|]. split; [split; reflexivity|reflexivity].
  - cbn [concat_events]. pose proof (concat_event_attr st e evs cs cn HI Hd) as [A1 [A2 [A3 A4]]].
    destruct (concat_event false st e) as [st1 o1]. cbn [fst snd] in *.
    pose proof (IH st1 _ _ A1 A2) as [B1 [B3 B4]].
    destruct (concat_events false st1 evs) as [st2 o2]. cbn [fst snd] in *.
    split; [exact B1|]. split; [eapply out_ok_app; eassumption|].
    destruct A3 as [A3 _]. rewrite rsegs_app, A3. cbn [fst snd]. rewrite ta_app, A4, B4.
    change (e :: evs) with ([e] ++ evs). rewrite rsegs_app, ta_app. reflexivity.
Qed.

(* ------------------------------------------------------------------ *)
(* one child, the fold over the children                               *)
(* ------------------------------------------------------------------ *)
Lemma concat_child_attr st evs gi :
  c_close st = false -> dense evs 0 0 = true ->
  c_close (fst (concat_child false st evs gi)) = false /\
  out_ok st (fst (concat_child false st evs gi)) (snd (concat_child false st evs gi)) /\
  ta (rsegs_of_events (snd (concat_child false st evs gi)) (c_sources st) (c_names st))
  = ta (rsegs_of_events evs [] []).
Proof.
  intros Hc Hd. unfold concat_child.
  assert (HI : rinv (concat_child_start st) [] []).
  { constructor; [exact Hc|apply ren_ok_nil|apply ren_ok_nil]. }
  pose proof (concat_events_attr evs (concat_child_start st) [] [] HI Hd) as [A1 [A2 A3]].
  change (c_sources (concat_child_start st)) with (c_sources st) in *.
  change (c_names (concat_child_start st)) with (c_names st) in *.
  unfold out_ok in *.
  change (c_sources (concat_child_start st)) with (c_sources st) in A2.
  change (c_names (concat_child_start st)) with (c_names st) in A2.
  destruct (concat_events false (concat_child_start st) evs) as [st1 o1]. cbn [fst snd] in *.
  unfold concat_child_end. rewrite A1. cbn [andb orb fst snd c_close c_sources c_names app].
  rewrite app_nil_r. split; [reflexivity|]. split; [exact A2|exact A3].
Qed.

Lemma concat_fold_cons final k kids acc :
  concat_fold final (k :: kids) acc =
  concat_fold final kids
    (fst (concat_child final (fst acc) (fst k) (snd k)),
     snd acc ++ snd (concat_child final (fst acc) (fst k) (snd k))).
Proof.
  unfold concat_fold. cbn [fold_left]. destruct acc as [st out]. cbn [fst snd].
  destruct (concat_child final st (fst k) (snd k)) as [st' o]. reflexivity.
Qed.

Definition kid_dense (k : list event * (N * N)) : Prop := dense (fst k) 0 0 = true.

Lemma concat_fold_attr kids : Forall kid_dense kids -> forall st out,
  c_close st = false ->
  tabs out [] [] = (c_sources st, c_names st) -> dense out 0 0 = true ->
  c_close (fst (concat_fold false kids (st, out))) = false /\
  tabs (snd (concat_fold false kids (st, out))) [] []
  = (c_sources (fst (concat_fold false kids (st, out))), c_names (fst (concat_fold false kids (st, out)))) /\
  dense (snd (concat_fold false kids (st, out))) 0 0 = true /\
  ta (rsegs_of_events (snd (concat_fold false kids (st, out))) [] [])
  = ta (rsegs_of_events out [] []) ++ flat_map (fun k => ta (rsegs_of_events (fst k) [] [])) kids.
Proof.
  induction 1 as [|k kids Hk _ IH]; intros st out Hc Ht Hd.
  - cbn [concat_fold fold_left fst snd flat_map]. rewrite app_nil_r. repeat split; assumption.
  - rewrite concat_fold_cons. cbn [fst snd].
    pose proof (concat_child_attr st (fst k) (snd k) Hc Hk) as [A1 [[A2 A2'] A3]].
    destruct (concat_child false st (fst k) (snd k)) as [st' o]. cbn [fst snd] in *.
    assert (Ht' : tabs (out ++ o) [] [] = (c_sources st', c_names st')).
    { rewrite tabs_app, Ht. exact A2. }
    assert (Hd' : dense (out ++ o) 0 0 = true).
    { apply (dense_app_true out o [] []); [exact Hd|]. rewrite Ht. exact A2'. }
    pose proof (IH st' (out ++ o) A1 Ht' Hd') as [B1 [B2 [B3 B4]]].
    split; [exact B1|]. split; [exact B2|]. split; [exact B3|].
    rewrite B4, rsegs_app, Ht, ta_app. cbn [fst snd flat_map]. rewrite A3, <- app_assoc. reflexivity.
Qed.

(* ------------------------------------------------------------------ *)
(* Q1                                                                  *)
(* ------------------------------------------------------------------ *)
Theorem concat_fold_ta (kids : list (list event * (N * N))) :
  Forall kid_dense kids ->
  ta (rsegs_of_events (snd (concat_fold false kids (concat_init, []))) [] [])
  = flat_map (fun k => ta (rsegs_of_events (fst k) [] [])) kids.
Proof.
  intros H. destruct (concat_fold_attr kids H concat_init [] eq_refl eq_refl eq_refl) as [_ [_ [_ A]]].
  exact A.
Qed.

(* every position inside the text contributed by child k is attributed as child k does *)
Theorem concat_attr_cols (kids : list (list event * (N * N))) :
  Forall (fun k => dense (fst k) 0 0 = true) kids ->
  attr_of_stream (snd (concat_fold false kids (concat_init, []))) true
  = flat_map (fun k => attr_of_stream (fst k) true) kids.
Proof.
  intros H. rewrite attr_of_stream_ta, (concat_fold_ta kids H), cover_flat_map.
  apply flat_map_ext. intros k. rewrite attr_of_stream_ta. reflexivity.
Qed.

(* the composite's announcements are dense again: composites nest *)
Theorem concat_fold_dense (kids : list (list event * (N * N))) :
  Forall (fun k => dense (fst k) 0 0 = true) kids ->
  dense (snd (concat_fold false kids (concat_init, []))) 0 0 = true.
Proof.
  intros H. destruct (concat_fold_attr kids H concat_init [] eq_refl eq_refl eq_refl) as [_ [_ [A _]]].
  exact A.
Qed.

(* the chunk texts are those of the children, in order; in particular no closing segment
   (`closer`, an `EChunk None _`) is emitted in the text-carrying mode: c_close is only ever
   set in final-source mode *)
Theorem concat_fold_chunk_texts (kids : list (list event * (N * N))) :
  Forall (fun k => dense (fst k) 0 0 = true) kids ->
  chunk_texts (snd (concat_fold false kids (concat_init, []))) = flat_map (fun k => chunk_texts (fst k)) kids.
Proof.
  intros H. rewrite <- (ta_texts _ [] []), (concat_fold_ta kids H).
  clear H. induction kids as [|k kids IH]; [reflexivity|]. cbn [flat_map]. rewrite map_app, ta_texts. f_equal. exact IH.
Qed.

Definition carries_text (evs : list event) : Prop := Forall (fun t => t <> None) (chunk_texts evs).

Corollary concat_fold_no_closer (kids : list (list event * (N * N))) :
  Forall (fun k => dense (fst k) 0 0 = true) kids ->
  Forall (fun k => carries_text (fst k)) kids ->
  carries_text (snd (concat_fold false kids (concat_init, []))).
Proof.
  intros H Ht. unfold carries_text. rewrite (concat_fold_chunk_texts kids H).
  induction Ht as [|k kids Hk _ IH]; [constructor|]. cbn [flat_map]. apply Forall_app.
  inversion H. subst. split; [exact Hk|apply IH; assumption].
Qed.

Corollary concat_fold_close_false (kids : list (list event * (N * N))) :
  Forall (fun k => dense (fst k) 0 0 = true) kids ->
  c_close (fst (concat_fold false kids (concat_init, []))) = false.
Proof.
  intros H. destruct (concat_fold_attr kids H concat_init [] eq_refl eq_refl eq_refl) as [A _]. exact A.
Qed.

(* the clause of chk_C06 *)
Corollary concat_attr_expected (kids : list (list event * (N * N))) :
  Forall (fun k => dense (fst k) 0 0 = true) kids ->
  list_eqb_attr attr_eqb (attr_of_stream (snd (concat_fold false kids (concat_init, []))) true)
                (concat_expected (map fst kids)) = true.
Proof.
  intros H. apply attr_lists_eqb. rewrite (concat_attr_cols kids H). unfold concat_expected.
  rewrite flat_map_concat_map, flat_map_concat_map, map_map. reflexivity.
Qed.

(* ------------------------------------------------------------------ *)
(* Q2: contents                                                        *)
(* ------------------------------------------------------------------ *)
Definition cfind (f : text) (l : list (text * option text)) : option (text * option text) :=
  find (fun p => text_eqb (fst p) f) l.

Lemma content_of_cfind evs f :
  content_of evs f = match cfind f (contents_of_events evs) with Some (_, c) => c | None => None end.
Proof. reflexivity. Qed.

Lemma cfind_app f a b :
  cfind f (a ++ b) = match cfind f a with Some p => Some p | None => cfind f b end.
Proof.
  unfold cfind. induction a as [|p a IH]; [reflexivity|]. cbn [app find].
  destruct (text_eqb (fst p) f); [reflexivity|exact IH].
Qed.

Lemma cfind_none_notin f l : cfind f l = None -> ~ In f (map fst l).
Proof.
  unfold cfind. induction l as [|p l IH]; intros H Hin; [exact Hin|]. cbn [find] in H.
  destruct (text_eqb (fst p) f) eqn:E; [discriminate|]. cbn [map] in Hin.
  destruct Hin as [Hin|Hin]; [rewrite Hin, text_eqb_refl in E; discriminate|exact (IH H Hin)].
Qed.

Lemma cfind_some f l p : cfind f l = Some p -> In p l /\ fst p = f.
Proof.
  unfold cfind. intros H. apply find_some in H. destruct H as [A B]. apply text_eqb_eq in B. split; assumption.
Qed.

Lemma cfind_in f l : In f (map fst l) -> exists c, cfind f l = Some (f, c).
Proof.
  intros H. destruct (cfind f l) as [[n c]|] eqn:E.
  - destruct (cfind_some _ _ _ E) as [_ B]. cbn [fst] in B. subst n. exists c. reflexivity.
  - exfalso. exact (cfind_none_notin _ _ E H).
Qed.

(* a later announcement of a name already announced is never looked at *)
Lemma cfind_skip f L n c R : In n (map fst L) -> cfind f (L ++ (n, c) :: R) = cfind f (L ++ R).
Proof.
  intros Hin. rewrite !cfind_app. destruct (cfind f L) as [p|] eqn:E; [reflexivity|].
  unfold cfind at 1. cbn [find fst]. destruct (text_eqb n f) eqn:E2; [|reflexivity].
  apply text_eqb_eq in E2. subst n. exfalso. exact (cfind_none_notin _ _ E Hin).
Qed.

Lemma contents_app a b : contents_of_events (a ++ b) = contents_of_events a ++ contents_of_events b.
Proof.
  induction a as [|e a IH]; [reflexivity|]. destruct e; cbn [app contents_of_events]; rewrite IH; reflexivity.
Qed.

Lemma nth_opt_In {A} (l : list A) i x : nth_opt l i = Some x -> In x l.
Proof. unfold nth_opt. apply nth_error_In. Qed.

(* what one event adds to the de-duplication table and to the announced contents *)
Lemma concat_event_contents final st e :
  (c_sources (fst (concat_event final st e)), contents_of_events (snd (concat_event final st e))) =
  match e with
  | ESource i name content =>
    match find_text (c_sources st) name 0 with
    | Some _ => (c_sources st, [])
    | None => (c_sources st ++ [name], [(name, content)])
    end
  | _ => (c_sources st, [])
  end.
Proof.
  destruct e as [t m|i name content|i name]; cbn [concat_event].
  - destruct (m_orig m) as [o|]; [destruct (lm_get (c_src_idx st) (o_src o))|];
      destruct (c_close st && negb ((g_line m =? 1) && (g_col m =? 0))); reflexivity.
  - destruct (find_text (c_sources st) name 0); reflexivity.
  - destruct (find_text (c_names st) name 0); reflexivity.
Qed.

Lemma concat_events_contents f final evs : forall st L, map fst L = c_sources st ->
  map fst (L ++ contents_of_events (snd (concat_events final st evs)))
  = c_sources (fst (concat_events final st evs)) /\
  forall R, cfind f (L ++ contents_of_events (snd (concat_events final st evs)) ++ R)
            = cfind f (L ++ contents_of_events evs ++ R).
Proof.
  induction evs as [|e evs IH]; intros st L HL.
  - cbn [concat_events fst snd contents_of_events]. rewrite app_nil_r. split; [exact HL|reflexivity].
  - cbn [concat_events]. pose proof (concat_event_contents final st e) as A.
    destruct (concat_event final st e) as [st1 o1]. cbn [fst snd] in A.
    destruct e as [t m|i name content|i name].
    + inversion A as [[A1 A2]]. specialize (IH st1 L). rewrite A1 in IH. specialize (IH HL).
      destruct (concat_events final st1 evs) as [st2 o2]. cbn [fst snd] in *.
      rewrite contents_app, A2. cbn [app contents_of_events]. exact IH.
    + destruct (find_text (c_sources st) name 0) as [g|] eqn:E; inversion A as [[A1 A2]].
      * specialize (IH st1 L). rewrite A1 in IH. specialize (IH HL).
        destruct (concat_events final st1 evs) as [st2 o2]. cbn [fst snd] in *.
        rewrite contents_app, A2. cbn [app contents_of_events]. destruct IH as [I1 I2].
        split; [exact I1|]. intros R. rewrite I2. symmetry. apply cfind_skip. rewrite HL.
        apply find_text_nth0 in E. eapply nth_opt_In. exact E.
      * specialize (IH st1 (L ++ [(name, content)])).
        assert (HL1 : map fst (L ++ [(name, content)]) = c_sources st1).
        { rewrite map_app, HL, A1. reflexivity. }
        specialize (IH HL1). destruct (concat_events final st1 evs) as [st2 o2]. cbn [fst snd] in *.
        rewrite contents_app, A2. cbn [app contents_of_events]. destruct IH as [I1 I2].
        rewrite <- app_assoc in I1. cbn [app] in I1. split; [exact I1|]. intros R.
        specialize (I2 R). rewrite <- !app_assoc in I2. cbn [app] in I2. exact I2.
    + inversion A as [[A1 A2]]. specialize (IH st1 L). rewrite A1 in IH. specialize (IH HL).
      destruct (concat_events final st1 evs) as [st2 o2]. cbn [fst snd] in *.
      rewrite contents_app, A2. cbn [app contents_of_events]. exact IH.
Qed.

Lemma concat_child_contents f final st evs gi : forall L, map fst L = c_sources st ->
  map fst (L ++ contents_of_events (snd (concat_child final st evs gi)))
  = c_sources (fst (concat_child final st evs gi)) /\
  forall R, cfind f (L ++ contents_of_events (snd (concat_child final st evs gi)) ++ R)
            = cfind f (L ++ contents_of_events evs ++ R).
Proof.
  intros L HL. unfold concat_child.
  pose proof (concat_events_contents f final evs (concat_child_start st) L HL) as [A1 A2].
  destruct (concat_events final (concat_child_start st) evs) as [st1 o1]. cbn [fst snd] in *.
  unfold concat_child_end. cbn [fst snd c_sources]. rewrite contents_app.
  replace (contents_of_events (if c_close st1 && negb ((fst gi =? 1) && (snd gi =? 0)) then [closer st1] else []))
    with (@nil (text * option text))
    by (destruct (c_close st1 && negb ((fst gi =? 1) && (snd gi =? 0))); reflexivity).
  rewrite app_nil_r. split; assumption.
Qed.

Lemma concat_fold_contents f final kids : forall st out,
  map fst (contents_of_events out) = c_sources st ->
  map fst (contents_of_events (snd (concat_fold final kids (st, out))))
  = c_sources (fst (concat_fold final kids (st, out))) /\
  cfind f (contents_of_events (snd (concat_fold final kids (st, out))))
  = cfind f (contents_of_events out ++ flat_map (fun k => contents_of_events (fst k)) kids).
Proof.
  induction kids as [|k kids IH]; intros st out H.
  - cbn [concat_fold fold_left fst snd flat_map]. rewrite app_nil_r. split; [exact H|reflexivity].
  - rewrite concat_fold_cons. cbn [fst snd].
    pose proof (concat_child_contents f final st (fst k) (snd k) (contents_of_events out) H) as [A1 A2].
    destruct (concat_child final st (fst k) (snd k)) as [st' o]. cbn [fst snd] in *.
    specialize (IH st' (out ++ o)). rewrite contents_app in IH. destruct (IH A1) as [B1 B2].
    split; [exact B1|]. rewrite B2. cbn [flat_map]. rewrite <- !app_assoc. apply A2.
Qed.

(* the files a dense stream attributes to are files it announced *)
Lemma dense_files evs : forall s n, dense evs (len s) (len n) = true ->
  Forall (fun a => match a with
                   | Some l => In (l_file l) (s ++ map fst (contents_of_events evs))
                   | None => True end)
         (attr_cover (rsegs_of_events evs s n)).
Proof.
  induction evs as [|e evs IH]; intros s n H; [constructor|].
  destruct e as [t m|i nm c|i nm]; cbn [dense rsegs_of_events contents_of_events] in *;
    apply andb_true_iff in H; destruct H as [H1 H2].
  - specialize (IH s n H2). destruct t as [t|]; cbn [attr_cover]; [|exact IH].
    apply Forall_app. split; [|exact IH].
    apply Forall_forall. intros a Ha. apply in_map_iff in Ha. destruct Ha as [b [Ha _]]. subst a.
    destruct (m_orig m) as [o|]; [|exact I]. cbn [l_file].
    apply andb_true_iff in H1. destruct H1 as [Ho _]. apply N.ltb_lt in Ho.
    destruct (snth_lt_some s (o_src o) Ho) as [x Hx]. rewrite Hx. apply in_or_app. left.
    eapply nth_opt_In. exact Hx.
  - apply N.eqb_eq in H1. subst i. rewrite lm_insert_next. specialize (IH (s ++ [nm]) n).
    rewrite slen_snoc in IH. specialize (IH H2). cbn [map fst]. rewrite <- app_assoc in IH. exact IH.
  - apply N.eqb_eq in H1. subst i. rewrite lm_insert_next. specialize (IH s (n ++ [nm])).
    rewrite slen_snoc in IH. exact (IH H2).
Qed.

Lemma bindings_consistent_in l : bindings_consistent l = true ->
  forall n c c', In (n, c) l -> In (n, c') l -> c = c'.
Proof.
  induction l as [|[n0 c0] l IH]; intros H n c c' H1 H2; [destruct H1|].
  cbn [bindings_consistent] in H. apply andb_true_iff in H. destruct H as [Hf Hr].
  rewrite forallb_forall in Hf.
  assert (K : forall d, In (n0, d) l -> d = c0).
  { intros d Hd. specialize (Hf _ Hd). cbn [fst snd] in Hf. rewrite text_eqb_refl in Hf.
    cbn [negb orb] in Hf. apply opt_text_eqb_eq in Hf. exact Hf. }
  destruct H1 as [H1|H1], H2 as [H2|H2].
  - congruence.
  - inversion H1; subst. symmetry. apply K. exact H2.
  - inversion H2; subst. apply K. exact H1.
  - eapply IH; eassumption.
Qed.

Lemma flat_map_map {A B C} (g : A -> B) (f : B -> list C) (l : list A) :
  flat_map f (map g l) = flat_map (fun x => f (g x)) l.
Proof. induction l as [|x l IH]; [reflexivity|]. cbn [map flat_map]. rewrite IH. reflexivity. Qed.

(* Q2: every file a child references keeps its content in the composite, provided a file name
   announced by several children always carries the same content *)
Theorem concat_contents_preserved (final : bool) (kids : list (list event * (N * N))) :
  Forall (fun k => dense (fst k) 0 0 = true) kids ->
  bindings_consistent (flat_map contents_of_events (map fst kids)) = true ->
  contents_preserved (snd (concat_fold final kids (concat_init, []))) (map fst kids) = true.
Proof.
  intros Hd Hb. unfold contents_preserved. apply forallb_forall. intros evs Hin.
  apply forallb_forall. intros a Ha. destruct a as [l|]; [|reflexivity].
  apply in_map_iff in Hin. destruct Hin as [k [Hk Hin]]. subst evs.
  rewrite Forall_forall in Hd. specialize (Hd k Hin).
  pose proof (dense_files (fst k) [] [] Hd) as F. rewrite Forall_forall in F. specialize (F _ Ha).
  cbn [app] in F. set (f := l_file l) in *.
  destruct (cfind_in f _ F) as [c1 E1].
  set (all := flat_map contents_of_events (map fst kids)) in *.
  assert (In1 : In (f, c1) all).
  { destruct (cfind_some _ _ _ E1) as [X _]. unfold all. apply in_flat_map. exists (fst k).
    split; [apply in_map; exact Hin|exact X]. }
  destruct (concat_fold_contents f final kids concat_init [] eq_refl) as [_ B].
  cbn [contents_of_events app] in B. rewrite <- (flat_map_map fst contents_of_events kids) in B. fold all in B.
  assert (F2 : In f (map fst all)).
  { apply in_map_iff. exists (f, c1). split; [reflexivity|exact In1]. }
  destruct (cfind_in f _ F2) as [c2 E2]. destruct (cfind_some _ _ _ E2) as [In2 _].
  pose proof (bindings_consistent_in all Hb f c2 c1 In2 In1) as Eq. subst c2.
  rewrite !content_of_cfind, B, E2, E1. apply opt_text_eqb_eq. reflexivity.
Qed.

(* the side condition cannot be dropped: the composite keeps the first content *)
Example concat_contents_needs_consistency :
  let ch := fun c t => ([ESource 0 [102] (Some [c]); EChunk (Some [t]) (mkMapping 1 0 (Some (mkOrig 0 1 0 None)))], (1, 1)) in
  let kids := [ch 97 120; ch 98 121] in
  (bindings_consistent (flat_map contents_of_events (map fst kids)),
   contents_preserved (snd (concat_fold false kids (concat_init, []))) (map fst kids)) = (false, false).
Proof. vm_compute. reflexivity. Qed.

(* ------------------------------------------------------------------ *)
(* the stream of a ConcatSource is this fold over its children's streams *)
(* ------------------------------------------------------------------ *)
Fixpoint kid_streams (st : store) (cs : list src) (o : opts) : list (list event * (N * N)) * store :=
  match cs with
  | [] => ([], st)
  | c :: cs' =>
    let '(evs, gi, st1) := stream st c o in
    let '(ks, st2) := kid_streams st1 cs' o in
    ((evs, gi) :: ks, st2)
  end.

Lemma cfold_concat_fold o cs : forall cst evs st,
  fold_left (cfold_step o) cs (cst, evs, st) =
  (concat_fold (final_source o) (fst (kid_streams st cs o)) (cst, evs), snd (kid_streams st cs o)).
Proof.
  induction cs as [|c cs IH]; intros cst evs st; [reflexivity|].
  cbn [fold_left kid_streams]. rewrite cfold_step_eq.
  destruct (stream st c o) as [[cevs gi] st1].
  destruct (concat_child (final_source o) cst cevs gi) as [cst' out] eqn:E.
  rewrite IH. destruct (kid_streams st1 cs o) as [ks st2]. cbn [fst snd].
  rewrite concat_fold_cons. cbn [fst snd]. rewrite E. reflexivity.
Qed.

(* ConcatSource with other than one child *)
Lemma stream_concat_fold st cs o : length cs <> 1%nat ->
  stream st (SConcat cs) o =
  (snd (concat_fold (final_source o) (fst (kid_streams st cs o)) (concat_init, [])),
   concat_result (fst (concat_fold (final_source o) (fst (kid_streams st cs o)) (concat_init, []))),
   snd (kid_streams st cs o)).
Proof.
  intros Hl. rewrite stream_concat_eq. destruct cs as [|c [|c2 r]]; [reflexivity|exfalso; apply Hl; reflexivity|].
  rewrite cfold_concat_fold.
  destruct (concat_fold (final_source o) (fst (kid_streams st (c :: c2 :: r) o)) (concat_init, [])) as [cst evs].
  reflexivity.
Qed.

(* C06, clauses 1 and 2, for the model's ConcatSource *)
Theorem concat_tree_C06 (st : store) (cs : list src) :
  length cs <> 1%nat ->
  let kids := fst (kid_streams st cs (mkOpts true false)) in
  let comp := fst (fst (stream st (SConcat cs) (mkOpts true false))) in
  Forall (fun k => dense (fst k) 0 0 = true) kids ->
  list_eqb_attr attr_eqb (attr_of_stream comp true) (concat_expected (map fst kids)) = true /\
  (bindings_consistent (flat_map contents_of_events (map fst kids)) = true ->
   contents_preserved comp (map fst kids) = true) /\
  dense comp 0 0 = true.
Proof.
  intros Hl kids comp Hd. unfold comp. rewrite (stream_concat_fold st cs _ Hl). cbn [fst snd final_source].
  fold kids. split; [apply concat_attr_expected; exact Hd|]. split.
  - intros Hb. apply concat_contents_preserved; assumption.
  - apply concat_fold_dense. exact Hd.
Qed.

Print Assumptions concat_attr_cols.
Print Assumptions concat_fold_dense.
Print Assumptions concat_fold_no_closer.
Print Assumptions concat_attr_expected.
Print Assumptions concat_contents_preserved.
Print Assumptions concat_tree_C06.
