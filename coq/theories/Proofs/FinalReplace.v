(* C03 for composite trees, part 1 (G1): ReplaceSource.
   A ReplaceSource streams its inner source with final_source = false whatever the caller
   asked for, so its "text-less" stream is its text-carrying stream.  Looking the segments
   of that stream up by position (what map() does) attributes every byte as the chunk that
   covers it, because the stream reassembles, is well positioned, and no chunk has a line
   feed before its last byte.
   `self_cols_dense` is `self_cols` (CacheReplay.v) for event lists with announcements. *)
From RS Require Import Base.Prelude Base.Text Rope.RopeModel Codec.Vlq Codec.CodecSpec
  Checkers.ChkCodec Stream.Types Stream.Leaves Stream.Concat Stream.Replace Stream.Combined Stream.Tree
  Sem.Attr Checkers.ChkTree
  Proofs.StreamText Proofs.StreamLeaves Proofs.StreamMap Proofs.StreamConcat Proofs.StreamTree
  Proofs.RStreamText Proofs.RStreamPos Proofs.RStreamTree
  Proofs.AttrCodec Proofs.AttrSms Proofs.AttrLeaves Proofs.LawConcatAttr Proofs.LawWrappers
  Proofs.CacheReplay Proofs.FinalDense.
Require Import Lia List.

Local Open Scope N_scope.

(* ------------------------------------------------------------------ *)
(* the chunks of an event list, resolved through its final tables       *)
(* ------------------------------------------------------------------ *)
Definition chunks_only (evs : list event) : list event := filter is_chunk evs.

Lemma chunks_only_only evs : only_chunks (chunks_only evs) = true.
Proof.
  unfold only_chunks, chunks_only. apply forallb_forall. intros e He. apply filter_In in He. apply He.
Qed.

Lemma chunks_only_chunks_of evs : chunks_of (chunks_only evs) = chunks_of evs.
Proof.
  induction evs as [|e evs IH]; [reflexivity|].
  destruct e as [t m|i n c|i n]; cbn [chunks_only filter is_chunk chunks_of]; fold (chunks_only evs);
    rewrite ?IH; reflexivity.
Qed.

Lemma chunks_only_texts evs : chunk_texts (chunks_only evs) = chunk_texts evs.
Proof. rewrite !chunk_texts_map, chunks_only_chunks_of. reflexivity. Qed.

Lemma chunks_only_mappings evs : chunk_mappings (chunks_only evs) = chunk_mappings evs.
Proof. rewrite !chunk_mappings_chunks_of, chunks_only_chunks_of. reflexivity. Qed.

Lemma rsegs_final_tables : forall evs srcs names, ann_ok evs srcs names = true ->
  rsegs_of_events evs srcs names =
  rsegs_of_events (chunks_only evs) (fst (tabs evs srcs names)) (snd (tabs evs srcs names)).
Proof.
  induction evs as [|e evs IH]; intros srcs names H; [reflexivity|].
  destruct e as [t m|i n c|i n]; cbn [ann_ok rsegs_of_events tabs chunks_only filter is_chunk] in *;
    fold (chunks_only evs); apply andb_true_iff in H; destruct H as [H1 H2].
  - cbn [rsegs_of_events]. rewrite (IH _ _ H2). f_equal.
    destruct (tabs_ext _ _ _ H2) as [es [en E]]. rewrite E. cbn [fst snd].
    destruct (m_orig m) as [o|]; [|reflexivity].
    apply andb_true_iff in H1. destruct H1 as [Hs Hn]. apply N.ltb_lt in Hs.
    rewrite (snth_app_l srcs es) by exact Hs.
    destruct (o_name o) as [k|]; [|reflexivity].
    apply N.ltb_lt in Hn. rewrite (snth_app_l names en) by exact Hn. reflexivity.
  - apply IH. exact H2.
  - apply IH. exact H2.
Qed.

(* ------------------------------------------------------------------ *)
(* the two notions of "a line feed at most as last byte" agree          *)
(* ------------------------------------------------------------------ *)
Lemma nl_last_bridge t : RStreamPos.nl_last t -> AttrSms.nl_last t.
Proof.
  intros [body [Hb [->| ->]]]; [apply AttrSms.nl_last_no_nl|apply AttrSms.nl_last_snoc]; exact Hb.
Qed.

Lemma NLL_text_nl evs t : Reass evs t -> NLL evs -> Forall text_nl (chunk_texts evs).
Proof.
  intros [ts [Hs _]] Hn. unfold NLL in Hn. revert ts Hs Hn.
  induction (chunk_texts evs) as [|ot l IH]; intros ts Hs Hn; [constructor|].
  inversion Hn as [|? ? H1 H2]; subst. cbn [all_some] in Hs.
  destruct ot as [x|]; [|discriminate].
  destruct (all_some l) as [r|] eqn:E; [|discriminate].
  constructor; [cbn [text_nl]; apply nl_last_bridge; exact H1|]. apply (IH r eq_refl H2).
Qed.

(* ------------------------------------------------------------------ *)
(* C02 => covering = looking up, for streams with (dense) announcements  *)
(* ------------------------------------------------------------------ *)
Theorem self_cols_dense (evs : list event) (t : text) :
  dense evs 0 0 = true -> Reass evs t -> WP evs (1, 0) -> NLL evs ->
  attr_of_final_events evs t true = attr_of_stream evs true.
Proof.
  intros Hd Hr Hw Hn. pose proof (dense_ann_ok evs [] [] Hd) as Ha.
  unfold attr_of_final_events, attr_of_stream. rewrite (rsegs_final_tables evs [] [] Ha).
  apply self_cols.
  - apply chunks_only_only.
  - destruct Hr as [ts [H1 H2]]. exists ts. rewrite chunks_only_texts. split; assumption.
  - unfold WP. rewrite chunks_only_chunks_of. exact Hw.
  - rewrite chunks_only_texts. apply (NLL_text_nl evs t); assumption.
Qed.

(* the boolean form *)
Corollary self_cols_dense_b (evs : list event) (t : text) :
  dense evs 0 0 = true -> reassembles evs t = true -> well_positioned (chunks_of evs) 1 0 = true ->
  chunks_nl_last evs = true ->
  attr_of_final_events evs t true = attr_of_stream evs true.
Proof.
  intros Hd Hr Hw Hn. apply self_cols_dense; [exact Hd|apply reassembles_iff; exact Hr|exact Hw|].
  apply chunks_nl_last_iff. exact Hn.
Qed.

(* ------------------------------------------------------------------ *)
(* G1                                                                  *)
(* ------------------------------------------------------------------ *)
(* the same events, end info and store in both modes (by computation) *)
Theorem replace_final_same (st : store) (inner : src) (rs : list repl) (c f : bool) :
  stream st (SReplace inner rs) (mkOpts c f) = stream st (SReplace inner rs) (mkOpts c false).
Proof. reflexivity. Qed.

Corollary replace_final_same_events (st : store) (inner : src) (rs : list repl) (c : bool) :
  fst (fst (stream st (SReplace inner rs) (mkOpts c true))) =
  fst (fst (stream st (SReplace inner rs) (mkOpts c false))).
Proof. reflexivity. Qed.

(* every text-mode stream of the class attributes by position as it attributes by covering *)
Theorem rshape_self_cols (st : store) (s : src) :
  rshape s = true -> treeA s = true -> rsmall s = true ->
  attr_of_final_events (fst (fst (stream st s (mkOpts true false)))) (source s) true =
  attr_of_stream (fst (fst (stream st s (mkOpts true false)))) true.
Proof.
  intros H1 H2 H3. pose proof (rgood_all s st true H1 H2 H3) as [[A1 A2] [A3 _]]. cbn zeta in *.
  apply self_cols_dense; [|exact A1|exact A2|exact A3]. apply dense_tree_any; assumption.
Qed.

(* G1: the text-less stream of a ReplaceSource attributes every byte as its text-carrying one *)
Theorem replace_final_attr (st : store) (inner : src) (rs : list repl) :
  let s := SReplace inner rs in
  rshape s = true -> treeA s = true -> rsmall s = true ->
  attr_of_final_events (fst (fst (stream st s (mkOpts true true)))) (source s) true =
  attr_of_stream (fst (fst (stream st s (mkOpts true false)))) true.
Proof.
  intros s H1 H2 H3. unfold s. rewrite replace_final_same_events.
  apply (rshape_self_cols st (SReplace inner rs)); assumption.
Qed.

Print Assumptions self_cols_dense.
Print Assumptions replace_final_same.
Print Assumptions replace_final_attr.
