(* C14 after DIFFERENT histories on the two sides, part 3: the STRICT content clauses when every
   file comes with a content.
   The only history-dependence of map() on equal trees of the class is "absent vs empty" in
   sourcesContent (EqDiffChk.D_absent_is_empty): a positional table stores a missing content in
   front of a present one as "".  If every leaf declares a content for every file it announces
   (`present (decl a)`: every OriginalSource does; a SourceMapSource when its sourcesContent is
   as long as its sources; the content may be EMPTY) nothing is ever missing: every announcement
   of every stream over every reachable store is literally a declared pair, every table a cache
   holds and every table map() returns lists declared pairs only (`stab`), and the strict
   lookup of chk_C14_pair agrees on both sides:
     D2_present   consistentb (decl a) -> presentb (decl a) -> verdict 0,
   for any two histories, INSIDE AND OUTSIDE the K7 class (an empty OriginalSource in a cache is
   allowed). *)
From RS Require Import Base.Prelude Base.Text Rope.RopeModel Codec.Vlq Codec.CodecSpec
  Stream.Types Stream.Leaves Stream.Concat Stream.Replace Stream.Combined Stream.Tree
  Api.ApiTree Sem.Attr Sem.HashEq Api.ApiHist Checkers.ChkTree Checkers.ChkHist Checkers.ChkCombined
  Proofs.StreamText Proofs.StreamLeaves Proofs.StreamConcat Proofs.StreamTree
  Proofs.WfStream Proofs.AttrCodec Proofs.AttrSms Proofs.AttrLeaves Proofs.LawConcatAttr Proofs.LawWrappers
  Proofs.CombSearch Proofs.CombPass Proofs.CombAllRun
  Proofs.CacheStore Proofs.FinalConcat Proofs.RStreamTree Proofs.ReplAttrTree Proofs.ProvConcatTables
  Proofs.ColdCache Proofs.ColdCacheTree Proofs.BoundsPos
  Proofs.WarmTreeDefs Proofs.WarmTreeNodes Proofs.WarmTreeMain Proofs.WarmTreeHist
  Proofs.CompWarmLaws Proofs.CompWarmContBase Proofs.CompWarmContInv Proofs.CompWarmLawsFull
  Proofs.EqDiffBase Proofs.EqDiffChk.
Require Import Lia List.
Import ListNotations.

Local Open Scope N_scope.

(* ------------------------------------------------------------------ *)
(* every content present                                                *)
(* ------------------------------------------------------------------ *)
Definition present (D : list (text * option text)) : Prop := forall n c, In (n, c) D -> c <> None.

Definition presentb (D : list (text * option text)) : bool :=
  forallb (fun p => match snd p with Some _ => true | None => false end) D.

Lemma presentb_spec D : presentb D = true -> present D.
Proof.
  unfold presentb. rewrite forallb_forall. intros H n c Hin E. subst c. specialize (H _ Hin). discriminate.
Qed.

Lemma present_incl D l : incl l D -> present D -> present l.
Proof. intros Hi H n c Hin. apply (H n c). apply Hi. exact Hin. Qed.

Lemma nonempty_present D : nonempty_contents D -> present D.
Proof. intros H n c Hin E. destruct (H n c Hin) as [x [l E']]. congruence. Qed.

Definition unsome (c : option text) : text := match c with Some x => x | None => [] end.

(* ------------------------------------------------------------------ *)
(* the contents table of a run whose announcements all carry a content  *)
(* ------------------------------------------------------------------ *)
Lemma run_contents_present evs S Nn S' N' : run evs S Nn S' N' -> present (anns evs) ->
  forall T, t_sources T = S -> len (t_contents T) = len S ->
  t_contents (fold_left tables_event evs T) = t_contents T ++ map (fun p => unsome (snd p)) (anns evs).
Proof.
  induction 1 as [S Nn|s c evs S Nn S' N' _ IH|n evs S Nn S' N' _ IH|t mp evs S Nn S' N' Ho _ IH];
    intros Hp T H1 H2.
  - cbn [fold_left contents_of_events map]. rewrite app_nil_r. reflexivity.
  - cbn [fold_left contents_of_events map snd].
    destruct c as [x|]; [|exfalso; apply (Hp s None); [left; reflexivity|reflexivity]].
    assert (Hp' : present (anns evs)) by (intros n0 c0 Hin; apply (Hp n0 c0); right; exact Hin).
    rewrite (IH Hp' (tables_event T (ESource (len S) s (Some x)))).
    + cbn [tables_event t_contents unsome]. rewrite <- H2, lm_insert_at_len, <- app_assoc. reflexivity.
    + cbn [tables_event t_sources]. rewrite H1. apply lm_insert_at_len.
    + cbn [tables_event t_contents]. rewrite <- H2, lm_insert_at_len, !slen_app, H2. reflexivity.
  - cbn [fold_left contents_of_events]. rewrite (IH Hp (tables_event T (EName (len Nn) n))); [reflexivity|exact H1|exact H2].
  - cbn [fold_left contents_of_events]. rewrite (IH Hp (tables_event T (EChunk t mp))); [reflexivity|exact H1|exact H2].
Qed.

(* ------------------------------------------------------------------ *)
(* tables that list declared pairs, literally                           *)
(* ------------------------------------------------------------------ *)
Definition stab (D : list (text * option text)) (v : option smap) : Prop :=
  match v with Some m => incl (exp_sources m) D | None => True end.

Theorem events_stab D c evs : dense evs 0 0 = true -> present D -> incl (anns evs) D ->
  stab D (map_of_events c evs).
Proof.
  intros Hd HD Ha. unfold stab. destruct (map_of_events c evs) as [m|] eqn:Em; [|exact I].
  unfold map_of_events in Em. destruct (is_nil (encode_mappings c (chunk_mappings evs))); [discriminate|].
  inversion Em as [E]. clear Em.
  destruct (dense_run evs [] [] Hd) as [S' [N' R]].
  assert (C0 : cont_ok (t_contents (mkT [] [] [])) []).
  { split; [cbn; lia|]. intros g p Hg. unfold nth_opt in Hg. destruct (N.to_nat g); discriminate. }
  destruct (run_tables evs [] [] S' N' R (mkT [] [] []) [] eq_refl eq_refl eq_refl C0) as [T1 _].
  pose proof (run_sources _ _ _ _ _ R) as T2. cbn [app] in T2.
  pose proof (run_contents_present evs [] [] S' N' R (present_incl D _ Ha HD) (mkT [] [] []) eq_refl eq_refl) as T3.
  cbn [t_contents app] in T3.
  intros [n x] Hin. apply in_exp_sources in Hin. destruct Hin as [j [Hj [-> ->]]].
  cbn [sm_sources sm_contents] in *. unfold get_source. cbn [sm_root].
  rewrite T1, T2 in Hj |- *. rewrite T3. rewrite map_length in Hj.
  destruct (nth_error (anns evs) j) as [p|] eqn:Ep; [|apply nth_error_None in Ep; lia].
  assert (En : nth j (map fst (anns evs)) [] = fst p).
  { apply (nth_error_nth _ _ []). rewrite nth_error_map, Ep. reflexivity. }
  assert (Ec : nth_opt (map (fun q : text * option text => unsome (snd q)) (anns evs)) (N.of_nat j) = snd p).
  { unfold nth_opt. rewrite Nat2N.id, nth_error_map, Ep. cbn [option_map]. destruct p as [pn [pc|]]; [reflexivity|].
    exfalso. apply (HD pn None); [apply Ha; apply (nth_error_In _ _ Ep)|reflexivity]. }
  rewrite En, Ec. apply Ha. destruct p as [pn pc]. apply (nth_error_In _ _ Ep).
Qed.

(* the strict lookup of chk_C14_pair returns an entry of the table *)
Theorem content_of_file_in m f :
  (exists j, (j < length (sm_sources m))%nat /\ get_source m (nth j (sm_sources m) []) = f) ->
  In (f, content_of_file (Some m) f) (exp_sources m).
Proof.
  intros [j [Hj Ej]]. unfold content_of_file.
  destruct (file_index_found m f (sm_sources m) 0 j Hj Ej) as [k Ek]. rewrite Ek.
  destruct (file_index_some m f (sm_sources m) 0 k Ek) as [j' [A [B C]]]. cbn in A. subst k.
  apply in_exp_sources. exists j'. split; [exact B|]. split; [symmetry; exact C|reflexivity].
Qed.

Lemma ceq_some (x y : text) : ceq (Some x) (Some y) -> x = y.
Proof.
  intros H. apply ceq_iff in H. destruct x as [|a x], y as [|b y]; cbn [nrm] in H; try discriminate; [reflexivity|].
  inversion H. reflexivity.
Qed.

Theorem contents_agree_present D (x y : option smap) (t : text) (c : bool) :
  consistent D -> present D -> attr_of_map x t c = attr_of_map y t c ->
  stab D x -> stab D y -> segs_in x -> segs_in y ->
  referenced_contents_agree x y t c = true.
Proof.
  intros HD HP Eq Tx Ty Sx Sy. unfold referenced_contents_agree. apply forallb_forall. intros a Ha.
  destruct a as [l|]; [|reflexivity].
  pose proof Ha as Hb. rewrite Eq in Hb.
  destruct x as [mx|]; [|exfalso; apply (in_none_map t l Ha)].
  destruct y as [my|]; [|exfalso; apply (in_none_map t l Hb)].
  cbn [stab segs_in] in *.
  pose proof (Tx _ (content_of_file_in mx (l_file l) (attr_of_map_file mx t c l Sx Ha))) as Dx.
  pose proof (Ty _ (content_of_file_in my (l_file l) (attr_of_map_file my t c l Sy Hb))) as Dy.
  pose proof (HD _ _ _ Dx Dy) as K.
  destruct (content_of_file (Some mx) (l_file l)) as [cx|]; [|exfalso; apply (HP _ _ Dx); reflexivity].
  destruct (content_of_file (Some my) (l_file l)) as [cy|]; [|exfalso; apply (HP _ _ Dy); reflexivity].
  apply ceq_some in K. subst cy. cbn [opt_eqb]. apply text_eqb_refl.
Qed.

(* ------------------------------------------------------------------ *)
(* the tree induction (the shape of CompWarmContInv.cont_all)           *)
(* ------------------------------------------------------------------ *)
Section Cont.
Variable U : src.
Hypothesis HU : ColdCache.ids_distinct U.
Variable D : list (text * option text).
Hypothesis HD : present D.

Definition SCt (st : store) : Prop :=
  forall id inner, In (id, inner) (nodes U) ->
  forall o v, cache_get (store_get st id) o = Some v -> stab D v.

Definition SInv (st : store) : Prop := Sound st U /\ SCt st.

Lemma sct_empty : SCt [].
Proof. intros id inner _ o v H. discriminate. Qed.

Lemma sct_put st id inner o v : In (id, inner) (nodes U) -> SCt st -> stab D v -> SCt (store_put st id o v).
Proof.
  intros Hin Hs Hv id' inner' Hin' o' x H. apply store_put_get_inv in H.
  destruct H as [H|[Ei [Eo [Ex _]]]].
  - apply (Hs id' inner' Hin' o' x H).
  - subst x. exact Hv.
Qed.

Definition sstream_ok (s : src) : Prop :=
  forall st o, SInv st -> incl (anns (fst (fst (stream st s o)))) D /\ SCt (snd (stream st s o)).

Definition smap_ok (s : src) : Prop :=
  forall st c, SInv st -> stab D (fst (map_of st s c)) /\ SCt (snd (map_of st s c)).

Definition SPC (s : src) : Prop :=
  incl (nodes s) (nodes U) -> cls s -> incl (decl s) D -> sstream_ok s /\ smap_ok s.

Lemma sget_map_ok s : incl (nodes s) (nodes U) -> cls s -> sstream_ok s ->
  forall st c, SInv st -> stab D (fst (Tree.get_map st s c)) /\ SCt (snd (Tree.get_map st s c)).
Proof.
  intros Hin Hcl K st c Hs. destruct (K st (mkOpts c true) Hs) as [A B].
  destruct (sound_stream U HU s st (mkOpts c true) Hin Hcl (proj1 Hs)) as [Dn _]. unfold Tree.get_map.
  destruct (stream st s (mkOpts c true)) as [[evs gi] st']. cbn [fst snd] in *.
  split; [apply events_stab; assumption|exact B].
Qed.

Lemma sraw_ok (s : src) :
  (forall st o, stream st s o = (raw_stream (source s) (final_source o), st)) ->
  (forall st c, map_of st s c = (None, st)) -> sstream_ok s /\ smap_ok s.
Proof.
  intros E1 E2. split.
  - intros st o Hs. rewrite E1. cbn [fst snd]. rewrite raw_anns. split; [intros x []|apply Hs].
  - intros st c Hs. rewrite E2. cbn [fst snd]. split; [exact I|apply Hs].
Qed.

Lemma skids o : forall cs, (forall ch, In ch cs -> incl (nodes ch) (nodes U) /\ cls ch /\ sstream_ok ch) ->
  forall st, SInv st ->
  incl (flat_map (fun k : list event * (N * N) => anns (fst k)) (fst (kid_streams st cs o))) D /\
  SInv (snd (kid_streams st cs o)).
Proof.
  induction cs as [|ch cs IH]; intros Hall st Hs.
  - cbn [kid_streams fst snd flat_map]. split; [intros x []|exact Hs].
  - cbn [kid_streams]. destruct (Hall ch (or_introl eq_refl)) as [Hin [Hcl K]].
    destruct (K st o Hs) as [A B]. destruct (sound_stream U HU ch st o Hin Hcl (proj1 Hs)) as [_ S].
    destruct (stream st ch o) as [[evs gi] st1]. cbn [fst snd] in *.
    destruct (IH (fun x Hx => Hall x (or_intror Hx)) st1 (conj S B)) as [A2 S2].
    destruct (kid_streams st1 cs o) as [ks st2]. cbn [fst snd flat_map] in *.
    split; [|exact S2]. apply incl_app; assumption.
Qed.

Theorem scont_all : forall s, SPC s.
Proof.
  apply (src_ind' SPC); unfold SPC.
  - intros b v _ _ _. apply sraw_ok; intros; reflexivity.
  - intros v _ _ _. apply sraw_ok; intros; reflexivity.
  - intros v _ _ _. apply sraw_ok; intros; reflexivity.
  - (* SOriginal *) intros v n Hin Hcl Hdc.
    assert (A : sstream_ok (SOriginal v n)).
    { intros st o Hs. cbn [stream fst snd]. rewrite original_anns. split; [exact Hdc|apply Hs]. }
    split; [exact A|]. intros st c Hs.
    change (map_of st (SOriginal v n) c) with (Tree.get_map st (SOriginal v n) c). apply sget_map_ok; assumption.
  - (* SMapped *) intros v n m og i r Hin Hcl Hdc. destruct i as [im|].
    + destruct Hcl as [_ [Sh _]]. discriminate.
    + cbn [decl] in Hdc. split.
      * intros st o Hs. cbn [stream fst snd]. split; [|apply Hs].
        apply (incl_tran (sm_anns v m o)). exact Hdc.
      * intros st c Hs. cbn [map_of fst snd stab]. split; [exact Hdc|apply Hs].
  - (* SConcat *) intros cs IH Hin Hcl Hdc. rewrite Forall_forall in IH.
    assert (Hkids : forall ch, In ch cs -> incl (nodes ch) (nodes U) /\ cls ch /\ sstream_ok ch).
    { intros ch Hch.
      assert (Hi : incl (nodes ch) (nodes U)) by (intros x Hx; apply Hin; apply (nodes_child cs ch Hch); exact Hx).
      split; [exact Hi|]. split; [apply (cls_concat cs ch Hcl Hch)|].
      apply (IH ch Hch Hi (cls_concat cs ch Hcl Hch)). apply (incl_tran (decl_child cs ch Hch)). exact Hdc. }
    assert (A : sstream_ok (SConcat cs)).
    { intros st o Hs. destruct (Nat.eq_dec (length cs) 1) as [E|E].
      - destruct cs as [|ch [|c2 r]]; try discriminate.
        change (stream st (SConcat [ch]) o) with (stream st ch o).
        destruct (Hkids ch (or_introl eq_refl)) as [_ [_ K]]. exact (K st o Hs).
      - rewrite (stream_concat_fold st cs o E). cbn [fst snd].
        destruct (skids o cs Hkids st Hs) as [K1 K2]. split; [|apply K2].
        eapply incl_tran; [apply concat_fold_anns_incl|]. cbn [contents_of_events app]. exact K1. }
    split; [exact A|]. intros st c Hs.
    change (map_of st (SConcat cs) c) with (Tree.get_map st (SConcat cs) c). apply sget_map_ok; assumption.
  - (* SReplace *) intros i rs IH Hin Hcl Hdc. destruct (cls_replace i rs Hcl) as [Hci _].
    destruct (IH Hin Hci Hdc) as [IA IM].
    assert (A : sstream_ok (SReplace i rs)).
    { intros st o Hs. cbn [stream]. destruct (IA st (mkOpts (columns o) false) Hs) as [K1 K2].
      destruct (stream st i (mkOpts (columns o) false)) as [[ievs gi] st']. cbn [fst snd] in *.
      rewrite replace_stream_contents. split; assumption. }
    split; [exact A|]. intros st c Hs.
    change (map_of st (SReplace i rs) c) with
      (if is_nil rs then map_of st i c else Tree.get_map st (SReplace i rs) c).
    destruct (is_nil rs); [apply (IM st c Hs)|apply sget_map_ok; assumption].
  - (* SCached *) intros id i IH Hin Hcl Hdc. pose proof (cls_cached id i Hcl) as Hci.
    assert (Hnode : In (id, i) (nodes U)) by (apply Hin; left; reflexivity).
    assert (Hin' : incl (nodes i) (nodes U)) by (intros x Hx; apply Hin; right; exact Hx).
    destruct (IH Hin' Hci Hdc) as [IA IM]. split.
    + intros st o Hs. cbn [stream].
      destruct (cache_get (store_get st id) o) as [v|] eqn:G.
      * pose proof (proj2 Hs id i Hnode o v G) as T. destruct v as [m|]; cbn [fst snd].
        -- split; [|apply Hs]. apply (incl_tran (sm_anns (source i) m o)). exact T.
        -- split; [rewrite raw_anns; intros x []|apply Hs].
      * destruct (IA st o Hs) as [K1 K2]. destruct (sound_stream U HU i st o Hin' Hci (proj1 Hs)) as [Dn _].
        destruct (stream st i o) as [[evs gi] st']. cbn [fst snd] in *.
        split; [exact K1|]. apply (sct_put st' id i o _ Hnode K2). apply events_stab; assumption.
    + intros st c Hs. cbn [map_of].
      destruct (cache_get (store_get st id) (mkOpts c false)) as [v|] eqn:G.
      * cbn [fst snd]. split; [apply (proj2 Hs id i Hnode _ v G)|apply Hs].
      * destruct (IM st c Hs) as [K1 K2]. destruct (map_of st i c) as [m st']. cbn [fst snd] in *.
        pose proof (sct_put st' id i (mkOpts c false) m Hnode K2 K1) as C'. split; [|exact C'].
        destruct (cache_get (store_get (store_put st' id (mkOpts c false) m) id) (mkOpts c false)) as [m'|] eqn:G';
          [apply (C' id i Hnode _ m' G')|exact K1].
Qed.

End Cont.

(* ------------------------------------------------------------------ *)
(* a tree                                                               *)
(* ------------------------------------------------------------------ *)
Section Tree.
Variable s : src.
Hypothesis Hd : ColdCache.ids_distinct s.
Hypothesis Hcl : cls s.
Hypothesis Hp : present (decl s).

Let C := scont_all s Hd (decl s) Hp s (incl_refl _) Hcl (incl_refl _).

Lemma sinv_empty : SInv s (decl s) [].
Proof. split; [apply sound_empty|apply sct_empty]. Qed.

Lemma stream_sinv (st : store) (o : opts) : SInv s (decl s) st -> SInv s (decl s) (snd (stream st s o)).
Proof.
  intros Hs. destruct C as [A _]. split; [|apply (A st o Hs)].
  apply (sound_stream s Hd s st o (incl_refl _) Hcl (proj1 Hs)).
Qed.

Lemma map_sinv (st : store) (c : bool) : SInv s (decl s) st ->
  stab (decl s) (fst (map_of st s c)) /\ SInv s (decl s) (snd (map_of st s c)).
Proof.
  intros Hs. destruct C as [_ M]. destruct (M st c Hs) as [T K]. split; [exact T|].
  split; [apply (sound_map s Hd s st c (incl_refl _) Hcl (proj1 Hs))|exact K].
Qed.

Lemma hop_sinv (st : store) (op : hop) : SInv s (decl s) st -> SInv s (decl s) (snd (run_hop st s op)).
Proof.
  intros Hs. destruct op as [| | | |c|c f| |]; cbn [run_hop snd]; try exact Hs.
  - pose proof (map_sinv st c Hs) as [_ X]. destruct (map_of st s c) as [m st']. exact X.
  - pose proof (stream_sinv st (mkOpts c f) Hs) as X. destruct (stream st s (mkOpts c f)) as [[evs gi] st']. exact X.
Qed.

Lemma hops_sinv : forall (ops : list hop) (st : store), SInv s (decl s) st -> SInv s (decl s) (snd (run_hops st s ops)).
Proof.
  induction ops as [|op ops IH]; intros st Hs; [exact Hs|].
  cbn [run_hops]. pose proof (hop_sinv st op Hs) as H1.
  destruct (run_hop st s op) as [x st1]. cbn [snd] in H1. specialize (IH st1 H1).
  destruct (run_hops st1 s ops) as [as_ st2]. exact IH.
Qed.

Lemma final_maps_stab (st : store) : SInv s (decl s) st ->
  stab (decl s) (get_map (nth_ans (fst (run_hops st s final_ops)) 3)) /\
  stab (decl s) (get_map (nth_ans (fst (run_hops st s final_ops)) 4)).
Proof.
  intros Hs. destruct (final_maps s st) as [-> ->].
  destruct (map_sinv st true Hs) as [T3 S3]. destruct (map_sinv _ false S3) as [T4 _]. split; assumption.
Qed.

End Tree.

(* ------------------------------------------------------------------ *)
(* the checker                                                          *)
(* ------------------------------------------------------------------ *)
Section Pair.
Variables a b : src.
Variables opsa opsb : list hop.
Hypothesis He : src_eqb a b = true.
Hypothesis Hda : ColdCache.ids_distinct a.
Hypothesis Hdb : ColdCache.ids_distinct b.
Hypothesis Hca : cls a.
Hypothesis Hcons : consistent (decl a).
Hypothesis Hpres : present (decl a).

Theorem D2_present_sec : chk_C14_pair a b (api_pair a opsa b opsb) = 0.
Proof.
  pose proof (Hcb a b He Hca) as Hcb'.
  assert (Hpb : present (decl b)) by (rewrite <- (eq_decl a b He); exact Hpres).
  destruct (eq_pair_facts a b opsa opsb He Hda Hdb Hca) as [_ [_ [_ [_ M]]]].
  pose proof (M true) as M3. pose proof (M false) as M4. cbn iota in M3, M4.
  destruct (eq_pair_tables a b opsa opsb He Hda Hdb Hca) as [[_ [SA3 [_ SA4]]] [_ [SB3 [_ SB4]]]].
  pose proof (final_maps_stab a Hda Hca Hpres _ (hops_sinv a Hda Hca Hpres opsa [] (sinv_empty a))) as [TA3 TA4].
  pose proof (final_maps_stab b Hdb Hcb' Hpb _ (hops_sinv b Hdb Hcb' Hpb opsb [] (sinv_empty b))) as [TB3 TB4].
  rewrite <- (eq_decl a b He) in TB3, TB4.
  rewrite (verdict_form a b opsa opsb He Hca), (obs_equiv_form a b opsa opsb He Hda Hdb Hca).
  unfold api_pair in *. cbn [po_a po_b] in *.
  rewrite (contents_agree_present (decl a) _ _ (source a) true Hcons Hpres M3 TA3 TB3 SA3 SB3).
  rewrite (contents_agree_present (decl a) _ _ (source a) false Hcons Hpres M4 TA4 TB4 SA4 SB4).
  reflexivity.
Qed.

End Pair.

(* the strict checker, all clauses, any two histories, inside and outside the K7 class: every file
   comes with a content (possibly empty), and a file name determines its content *)
Theorem D2_present (a b : src) (opsa opsb : list hop) :
  src_eqb a b = true -> ColdCache.ids_distinct a -> ColdCache.ids_distinct b -> cls a -> cls b ->
  consistentb (decl a) = true -> presentb (decl a) = true ->
  chk_C14_pair a b (api_pair a opsa b opsb) = 0.
Proof.
  intros He Hda Hdb Hca _ Hc Hp. apply D2_present_sec; try assumption.
  - apply consistentb_spec. exact Hc.
  - apply presentb_spec. exact Hp.
Qed.

Print Assumptions events_stab.
Print Assumptions contents_agree_present.
Print Assumptions scont_all.
Print Assumptions D2_present.
