(* C13, "the checker accepts the model" for the composition laws between cache-free trees
   (class rshape / treeA / tiny, one content per declared file name), STRICT comparison, after
   arbitrary and independent observer histories on the two sides:
     L1  C13_boxed_nesting_right_checker, C13_boxed_nesting_left_checker
     L2  C13_single_child_checker
     L3  C13_empty_neighbours_checker
     L4  C13_replace_none_checker
     L5  C13_typed_nesting_checker
   Every hypothesis is on the input trees.  The contents hypothesis of L3 covers the empty
   neighbours as well (an empty OriginalSource announces its file with content ""): with
   `consistentb (decl a)` only, the statement is false - empty_neighbours_needs_consistency. *)
From RS Require Import Base.Prelude Base.Text Rope.RopeModel Codec.Vlq Codec.CodecSpec
  Stream.Types Stream.Leaves Stream.Concat Stream.Replace Stream.Combined Stream.Tree
  Api.ApiTree Sem.Attr Sem.HashEq Api.ApiHist Checkers.ChkTree Checkers.ChkHist Checkers.ChkCombined Checkers.ChkComp
  Proofs.ViewsUtf8 Proofs.ProvOriginal
  Proofs.StreamText Proofs.StreamTree Proofs.AttrCodec Proofs.LawConcatAttr Proofs.LawWrappers
  Proofs.RStreamTree Proofs.FinalCache Proofs.LawMaps
  Proofs.ColdCache Proofs.BoundsPos Proofs.BoundsAll Proofs.WfAllChk
  Proofs.CompWarmContBase Proofs.CompWarmContInv Proofs.CompWarmLawsFull
  Proofs.EmptyReplTree Proofs.LawChkBase.
Require Import Lia List.
Import ListNotations.

Local Open Scope N_scope.

(* ------------------------------------------------------------------ *)
(* ASCII trees: the buffer is the text                                  *)
(* ------------------------------------------------------------------ *)
Lemma ascii_lossy v : ascii v = true -> utf8_lossy v = v.
Proof. intros H. apply utf8_lossy_valid. apply ascii_valid. exact H. Qed.

Lemma ascii_buffer : forall s, tree_ascii s = true -> buffer s = source s.
Proof.
  apply (src_ind' (fun s => tree_ascii s = true -> buffer s = source s)); cbn [buffer source tree_ascii]; try reflexivity.
  - intros b v H. destruct b; [symmetry; apply ascii_lossy; exact H|reflexivity].
  - intros v H. symmetry. apply ascii_lossy. exact H.
  - intros cs IH H. f_equal. rewrite Forall_forall in IH. rewrite forallb_forall in H.
    apply map_ext_in. intros c Hc. apply (IH c Hc (H c Hc)).
  - intros id i IH H. apply IH. exact H.
Qed.

Lemma treeA_buffer s : treeA s = true -> buffer s = source s.
Proof. intros H. apply ascii_buffer. apply (treeA_wf_ascii s H). Qed.

(* ------------------------------------------------------------------ *)
(* the generic law with the attribution stated through map()            *)
(* ------------------------------------------------------------------ *)
Theorem law_checker_maps (X Y : src) (opsa opsb : list hop) (D : list (text * option text)) :
  rshape X = true -> treeA X = true -> tiny X = true ->
  rshape Y = true -> treeA Y = true -> tiny Y = true ->
  source X = source Y ->
  (forall c : bool, attr_of_map (fst (map_of [] X c)) (source X) c = attr_of_map (fst (map_of [] Y c)) (source Y) c) ->
  consistent D -> incl (decl X) D -> incl (decl Y) D ->
  chk_C13 X Y false (api_pair X opsa Y opsb) = 0.
Proof.
  intros X1 X2 X3 Y1 Y2 Y3 Hs Hm HD HX HY.
  apply (law_checker X Y opsa opsb D); try assumption.
  - rewrite (treeA_buffer X X2), (treeA_buffer Y Y2). exact Hs.
  - intros c. unfold LawWrappers.evs_of. rewrite <- (map_stream X [] c X1 X2 X3), <- (map_stream Y [] c Y1 Y2 Y3). apply Hm.
Qed.

(* the same tree on both sides (two objects, two histories) *)
Theorem same_tree_checker (X : src) (opsa opsb : list hop) :
  rshape X = true -> treeA X = true -> tiny X = true -> consistentb (decl X) = true ->
  chk_C13 X X false (api_pair X opsa X opsb) = 0.
Proof.
  intros H1 H2 H3 H4.
  apply (law_checker X X opsa opsb (decl X)); try assumption; try reflexivity;
    [apply consistentb_spec; exact H4|apply incl_refl|apply incl_refl].
Qed.

(* ------------------------------------------------------------------ *)
(* L1: boxed nesting                                                    *)
(* ------------------------------------------------------------------ *)
Section Nesting.
Variables a b c : src.
Variables opsa opsb : list hop.
Let F := SConcat [a; b; c].
Let R := SConcat [a; SConcat [b; c]].
Let L := SConcat [SConcat [a; b]; c].
Hypothesis Hs : rshape F = true.
Hypothesis Ha : treeA F = true.
Hypothesis Ht : tiny F = true.
Hypothesis Hc : consistentb (decl F) = true.

Lemma nest_source : source R = source F /\ source L = source F.
Proof. unfold R, L, F. cbn [source map concat]. rewrite !app_nil_r, !app_assoc. split; reflexivity. Qed.

Lemma nest_decl : decl R = decl F /\ decl L = decl F.
Proof. unfold R, L, F. cbn [decl flat_map]. rewrite !app_nil_r, !app_assoc. split; reflexivity. Qed.

Theorem C13_boxed_nesting_right_checker : chk_C13 R F false (api_pair R opsa F opsb) = 0.
Proof.
  destruct (nest_rshape a b c Hs) as [R1 _]. destruct (nest_treeA a b c Ha) as [R2 _].
  destruct (nest_tiny a b c Ht) as [R3 _].
  apply (law_checker R F opsa opsb (decl F)); try assumption.
  - apply nest_source.
  - rewrite (treeA_buffer R R2), (treeA_buffer F Ha). apply nest_source.
  - intros cl. apply (concat_nest_any [] a b c cl cl Hs Ha).
  - apply consistentb_spec. exact Hc.
  - rewrite (proj1 nest_decl). apply incl_refl.
  - apply incl_refl.
Qed.

Theorem C13_boxed_nesting_left_checker : chk_C13 L F false (api_pair L opsa F opsb) = 0.
Proof.
  destruct (nest_rshape a b c Hs) as [_ L1]. destruct (nest_treeA a b c Ha) as [_ L2].
  destruct (nest_tiny a b c Ht) as [_ L3].
  apply (law_checker L F opsa opsb (decl F)); try assumption.
  - apply nest_source.
  - rewrite (treeA_buffer L L2), (treeA_buffer F Ha). apply nest_source.
  - intros cl. apply (concat_nest_any [] a b c cl cl Hs Ha).
  - apply consistentb_spec. exact Hc.
  - rewrite (proj2 nest_decl). apply incl_refl.
  - apply incl_refl.
Qed.

End Nesting.

(* ------------------------------------------------------------------ *)
(* L2: a single child                                                   *)
(* ------------------------------------------------------------------ *)
Lemma single_treeA a : treeA (SConcat [a]) = treeA a.
Proof. unfold treeA. cbn [tree_wf tree_ascii forallb]. rewrite !andb_true_r. reflexivity. Qed.

Lemma single_tiny a : tiny (SConcat [a]) = tiny a.
Proof.
  unfold tiny. cbn [tsize asrc anam nleaves maps_tiny forallb fold_right].
  rewrite !N.add_0_r, !andb_true_r. reflexivity.
Qed.

Lemma single_rshape a : rshape (SConcat [a]) = rshape a.
Proof. cbn [RStreamTree.rshape forallb]. apply andb_true_r. Qed.

Theorem C13_single_child_checker (a : src) (opsa opsb : list hop) :
  rshape a = true -> treeA a = true -> tiny a = true -> consistentb (decl a) = true ->
  chk_C13 (SConcat [a]) a false (api_pair (SConcat [a]) opsa a opsb) = 0.
Proof.
  intros H1 H2 H3 H4.
  assert (X2 : treeA (SConcat [a]) = true) by (rewrite single_treeA; exact H2).
  apply (law_checker (SConcat [a]) a opsa opsb (decl a)); try assumption.
  - rewrite single_rshape. exact H1.
  - rewrite single_tiny. exact H3.
  - apply concat_single_source.
  - rewrite (treeA_buffer _ X2), (treeA_buffer a H2). apply concat_single_source.
  - intros cl. rewrite (concat_single_stream [] a (mkOpts cl false)). reflexivity.
  - apply consistentb_spec. exact H4.
  - cbn [decl flat_map]. rewrite app_nil_r. apply incl_refl.
  - apply incl_refl.
Qed.

(* ------------------------------------------------------------------ *)
(* L3: empty neighbours                                                 *)
(* ------------------------------------------------------------------ *)
Section Empty.
Variables e a e' : src.
Variables opsa opsb : list hop.
Let E := SConcat [e; a; e'].
Hypothesis He : empty_leaf e = true.
Hypothesis He' : empty_leaf e' = true.
Hypothesis Hs : rshape E = true.
Hypothesis Ha : treeA E = true.
Hypothesis Ht : tiny E = true.
Hypothesis Hc : consistentb (decl E) = true.

Lemma empty_mid_rshape : rshape a = true.
Proof.
  pose proof (rshape_concat_inv _ Hs) as H. inversion H as [|? ? _ H1]; subst.
  inversion H1 as [|? ? K _]; subst. exact K.
Qed.

Lemma empty_mid_treeA : treeA a = true.
Proof.
  pose proof (treeA_concat_inv _ Ha) as H. inversion H as [|? ? _ H1]; subst.
  inversion H1 as [|? ? K _]; subst. exact K.
Qed.

Lemma empty_mid_tiny : tiny a = true.
Proof.
  destruct (tiny_parts E Ht) as [T1 [T2 [T3 [T4 T5]]]]. unfold E in *.
  cbn [tsize asrc anam nleaves maps_tiny fold_right forallb] in *.
  apply andb_true_iff in T5. destruct T5 as [_ T5]. apply andb_true_iff in T5. destruct T5 as [T5 _].
  unfold tiny. rewrite T5, andb_true_r.
  repeat (apply andb_true_iff; split); apply N.ltb_lt; lia.
Qed.

Theorem C13_empty_neighbours_checker : chk_C13 E a false (api_pair E opsa a opsb) = 0.
Proof.
  pose proof empty_mid_rshape as A1. pose proof empty_mid_treeA as A2. pose proof empty_mid_tiny as A3.
  assert (Hsrc : source E = source a).
  { apply (concat_empty_neighbours [] e a e' true true He He' (dense_all_any a A1 A2 [] true)). }
  apply (law_checker E a opsa opsb (decl E)); try assumption.
  - rewrite (treeA_buffer E Ha), (treeA_buffer a A2). exact Hsrc.
  - intros cl. apply (concat_empty_neighbours [] e a e' cl cl He He' (dense_all_any a A1 A2 [] cl)).
  - apply consistentb_spec. exact Hc.
  - apply incl_refl.
  - apply (decl_child [e; a; e'] a). right. left. reflexivity.
Qed.

(* without the contents hypothesis: text, buffer and attribution agree; only the contents clauses
   may fire (they do: LawChkExample.empty_neighbours_needs_consistency), the relaxed verdict is 0 *)
Theorem C13_empty_neighbours_checker_partial :
  let v := chk_C13 E a false (api_pair E opsa a opsb) in
  (v = 0 \/ v = 5 \/ v = 6) /\ chk_C13 E a true (api_pair E opsa a opsb) = 0.
Proof.
  pose proof empty_mid_rshape as A1. pose proof empty_mid_treeA as A2. pose proof empty_mid_tiny as A3.
  assert (Hsrc : source E = source a).
  { apply (concat_empty_neighbours [] e a e' true true He He' (dense_all_any a A1 A2 [] true)). }
  assert (Hbuf : buffer E = buffer a).
  { rewrite (treeA_buffer E Ha), (treeA_buffer a A2). exact Hsrc. }
  assert (Hattr : forall cl : bool,
    attr_of_stream (LawWrappers.evs_of (stream [] E (mkOpts cl false))) cl
    = attr_of_stream (LawWrappers.evs_of (stream [] a (mkOpts cl false))) cl).
  { intros cl. apply (concat_empty_neighbours [] e a e' cl cl He He' (dense_all_any a A1 A2 [] cl)). }
  cbn zeta. split.
  - apply (law_checker_partial E a opsa opsb Hs Ha Ht A1 A2 A3 Hsrc Hbuf Hattr).
  - apply (law_checker_relaxed E a opsa opsb Hs Ha Ht A1 A2 A3 Hsrc Hbuf Hattr).
Qed.

End Empty.

(* ------------------------------------------------------------------ *)
(* L4: a ReplaceSource without replacements                             *)
(* ------------------------------------------------------------------ *)
Lemma replace_nil_treeA a : treeA (SReplace a []) = treeA a.
Proof. unfold treeA. cbn [tree_wf tree_ascii forallb]. rewrite !andb_true_r. reflexivity. Qed.

Theorem C13_replace_none_checker (a : src) (opsa opsb : list hop) :
  rshape a = true -> treeA a = true -> tiny a = true -> consistentb (decl a) = true ->
  chk_C13 (SReplace a []) a false (api_pair (SReplace a []) opsa a opsb) = 0.
Proof.
  intros H1 H2 H3 H4.
  apply (law_checker_maps (SReplace a []) a opsa opsb (decl a)); try assumption.
  - rewrite replace_nil_treeA. exact H2.
  - rewrite tiny_replace_nil. exact H3.
  - apply replace_nil_source.
  - intros c. rewrite (replace_nil_map [] a c), (replace_nil_source a). reflexivity.
  - apply consistentb_spec. exact H4.
  - apply incl_refl.
  - apply incl_refl.
Qed.

(* ------------------------------------------------------------------ *)
(* L5: typed nesting (ConcatSource::new / add of ConcatSource values)   *)
(* ------------------------------------------------------------------ *)
Lemma concat_new_typed_flat (xs ys : list citem) (cs : list src) :
  concat_new (xs ++ ITyped cs :: ys) = concat_new (xs ++ map IBoxed cs ++ ys).
Proof.
  unfold concat_new. f_equal. rewrite !flat_map_app. cbn [flat_map]. f_equal. f_equal.
  induction cs as [|x cs IH]; [reflexivity|]. cbn [map flat_map app]. rewrite <- IH. reflexivity.
Qed.

Theorem C13_typed_nesting_checker (xs ys : list citem) (cs : list src) (opsa opsb : list hop) :
  let T := concat_new (xs ++ ITyped cs :: ys) in
  let B := concat_new (xs ++ map IBoxed cs ++ ys) in
  rshape B = true -> treeA B = true -> tiny B = true -> consistentb (decl B) = true ->
  chk_C13 T B false (api_pair T opsa B opsb) = 0.
Proof.
  cbn zeta. rewrite (concat_new_typed_flat xs ys cs). apply same_tree_checker.
Qed.

(* ------------------------------------------------------------------ *)
(* the hypotheses spelled out                                            *)
(* ------------------------------------------------------------------ *)
Theorem C13_boxed_nesting_checker (a b c : src) (opsa opsb : list hop) :
  rshape (SConcat [a; b; c]) = true -> treeA (SConcat [a; b; c]) = true ->
  tiny (SConcat [a; b; c]) = true -> consistentb (decl (SConcat [a; b; c])) = true ->
  chk_C13 (SConcat [a; SConcat [b; c]]) (SConcat [a; b; c]) false
          (api_pair (SConcat [a; SConcat [b; c]]) opsa (SConcat [a; b; c]) opsb) = 0 /\
  chk_C13 (SConcat [SConcat [a; b]; c]) (SConcat [a; b; c]) false
          (api_pair (SConcat [SConcat [a; b]; c]) opsa (SConcat [a; b; c]) opsb) = 0.
Proof.
  intros H1 H2 H3 H4. split;
    [apply C13_boxed_nesting_right_checker|apply C13_boxed_nesting_left_checker]; assumption.
Qed.

Theorem C13_empty_neighbours_checker_full (e a e' : src) (opsa opsb : list hop) :
  empty_leaf e = true -> empty_leaf e' = true ->
  rshape (SConcat [e; a; e']) = true -> treeA (SConcat [e; a; e']) = true ->
  tiny (SConcat [e; a; e']) = true -> consistentb (decl (SConcat [e; a; e'])) = true ->
  chk_C13 (SConcat [e; a; e']) a false (api_pair (SConcat [e; a; e']) opsa a opsb) = 0.
Proof. intros. apply C13_empty_neighbours_checker; assumption. Qed.

(* ------------------------------------------------------------------ *)
(* stronger forms of L4 and L5: when map() returns the SAME value on the *)
(* two sides, neither the class nor the bounds nor the contents matter:  *)
(* any cache-free ASCII tree (SourceMapSource with inner map included)   *)
(* ------------------------------------------------------------------ *)
Lemma nth_final_2 (st : store) (s : src) :
  get_text (nth_ans (fst (run_hops st s final_ops)) 2) = buffer s.
Proof.
  unfold final_ops. cbn [run_hops run_hop]. destruct (map_of st s true) as [m1 st1].
  destruct (map_of st1 s false) as [m0 st0].
  destruct (stream st0 s (mkOpts true false)) as [[e1 g1] st2].
  destruct (stream st2 s (mkOpts false false)) as [[e0 g0] st3]. reflexivity.
Qed.

Lemma content_same_refl x : content_same x x = true.
Proof. apply content_same_ceq. apply ceq_refl. Qed.

Lemma referenced_contents_same_refl x t c : referenced_contents_same x x t c = true.
Proof.
  unfold referenced_contents_same. apply forallb_forall. intros a _. destruct a as [l|]; [|reflexivity].
  apply content_same_refl.
Qed.

Theorem law_checker_eqmaps (X Y : src) (opsa opsb : list hop) :
  has_cached X = false -> has_cached Y = false -> treeA X = true -> treeA Y = true ->
  source X = source Y ->
  (forall c : bool, fst (map_of [] X c) = fst (map_of [] Y c)) ->
  chk_C13 X Y false (api_pair X opsa Y opsb) = 0.
Proof.
  intros NX NY AX AY Hs Hm.
  destruct (CacheReplay.nocache_pure X NX) as [_ PX]. destruct (CacheReplay.nocache_pure Y NY) as [_ PY].
  unfold chk_C13. rewrite AX, AY. cbn [andb negb]. unfold obs_equiv_laws, api_pair. cbn [po_a po_b].
  set (sta := snd (run_hops [] X opsa)). set (stb := snd (run_hops [] Y opsb)).
  rewrite !nth_final_1, !nth_final_2, !nth_final_3, !nth_final_4.
  rewrite (PX sta true), (PY stb true). cbn [fst snd]. rewrite (PX sta false), (PY stb false). cbn [fst].
  rewrite (treeA_buffer X AX), (treeA_buffer Y AY), <- Hs, <- !Hm, text_eqb_refl. cbn [negb].
  rewrite (list_eqb_attr_refl attr_eqb attr_eqb_refl), (list_eqb_attr_refl attr_eqb_fl attr_eqb_fl_refl).
  cbn [negb]. rewrite !referenced_contents_same_refl. reflexivity.
Qed.

Theorem C13_replace_none_checker_free (a : src) (opsa opsb : list hop) :
  has_cached a = false -> treeA a = true ->
  chk_C13 (SReplace a []) a false (api_pair (SReplace a []) opsa a opsb) = 0.
Proof.
  intros H1 H2. apply law_checker_eqmaps; try assumption.
  - rewrite replace_nil_treeA. exact H2.
  - apply replace_nil_source.
  - intros c. rewrite (replace_nil_map [] a c). reflexivity.
Qed.

Theorem same_tree_checker_free (X : src) (opsa opsb : list hop) :
  has_cached X = false -> treeA X = true -> chk_C13 X X false (api_pair X opsa X opsb) = 0.
Proof. intros H1 H2. apply law_checker_eqmaps; try assumption; reflexivity. Qed.

Theorem C13_typed_nesting_checker_free (xs ys : list citem) (cs : list src) (opsa opsb : list hop) :
  let T := concat_new (xs ++ ITyped cs :: ys) in
  let B := concat_new (xs ++ map IBoxed cs ++ ys) in
  has_cached B = false -> treeA B = true ->
  chk_C13 T B false (api_pair T opsa B opsb) = 0.
Proof. cbn zeta. rewrite (concat_new_typed_flat xs ys cs). apply same_tree_checker_free. Qed.

Print Assumptions law_checker_maps.
Print Assumptions same_tree_checker.
Print Assumptions C13_boxed_nesting_checker.
Print Assumptions C13_single_child_checker.
Print Assumptions C13_empty_neighbours_checker_full.
Print Assumptions C13_replace_none_checker.
Print Assumptions C13_typed_nesting_checker.
Print Assumptions law_checker_eqmaps.
Print Assumptions C13_replace_none_checker_free.
Print Assumptions same_tree_checker_free.
Print Assumptions C13_typed_nesting_checker_free.
Print Assumptions C13_empty_neighbours_checker_partial.
