(* Property C04 for ReplaceSource, part 1: a chunk-level version of the induction of
   Proofs/ReplAttrStream.v.  ReplAttrStream describes what every BYTE streamed by a ReplaceSource
   carries; the provenance checker also needs to know where the streamed CHUNKS begin (a chunk of
   the stream becomes a segment of the map, and the next ReplaceSource re-bases columns chunk by
   chunk).  Here the judgement on the output is a relation `Rc attr text tags` that has to hold of
   every streamed chunk and the slice `tags` of the spliced byte function B that lies under it:
     CR Rc (chunks of replace_stream sorted ievs gi) (aspl B (fun r _ => cfill (r_content r)) n sorted 0)
   for any B the cursor of the state machine can be shown to follow (obligations of a chunk:
   `ChunkObC`), replacement content carrying the filler `fillv`.
   The induction is the one of ReplAttrStream (same invariants LInv / LPost / Sync), with the
   chunk relation in place of the byte equation. *)
From RS Require Import Base.Prelude Base.Text Rope.RopeModel Codec.Vlq Codec.CodecSpec
  Stream.Types Stream.Leaves Stream.Replace Stream.Tree Sem.Attr Checkers.ChkTree Checkers.ChkComp
  Proofs.RopeWf Proofs.StreamText Proofs.StreamLeaves Proofs.WfStream Proofs.ReplaceSort Proofs.ReplaceText
  Proofs.RStreamText Proofs.RStreamPos Proofs.AttrCodec Proofs.LawConcatAttr Proofs.ReplAttrRef
  Proofs.ReplAttrStream.
Require Import Lia List ZArith.

Local Open Scope N_scope.

(* ------------------------------------------------------------------ *)
(* the output judgement, chunk by chunk                                 *)
(* ------------------------------------------------------------------ *)
Section OutputC.
Context {A : Type}.
Variable Rc : attr -> text -> list A -> Prop.

Inductive CR : list tattr -> list A -> Prop :=
| CR_nil : CR [] []
| CR_cons t a g chs gs : length g = length t -> Rc a t g -> CR chs gs -> CR ((Some t, a) :: chs) (g ++ gs).

Lemma CR_app c1 g1 c2 g2 : CR c1 g1 -> CR c2 g2 -> CR (c1 ++ c2) (g1 ++ g2).
Proof.
  induction 1 as [|t a g chs gs Hl Hr _ IH]; intros H2; [exact H2|].
  cbn [app]. rewrite <- app_assoc. apply CR_cons; [exact Hl|exact Hr|apply IH; exact H2].
Qed.

Lemma CR_one t a g : length g = length t -> Rc a t g -> CR [(Some t, a)] g.
Proof. intros Hl Hr. rewrite <- (app_nil_r g). apply CR_cons; [exact Hl|exact Hr|apply CR_nil]. Qed.

Definition tchunks (S G : list text) (evs : list event) : list tattr := ta (rsegs_of_events evs S G).

(* evs, read with the tables (S, G) announced so far, leave the tables (S', G'), announce densely,
   carry no empty chunk, and their chunks lie on the slices of `out` as Rc demands *)
Definition OutC (S G : list text) (evs : list event) (S' G' : list text) (out : list A) : Prop :=
  tabs evs S G = (S', G') /\ dense evs (len S) (len G) = true /\ no_empty_chunks evs = true /\
  CR (tchunks S G evs) out.

Lemma OutC_nil S G : OutC S G [] S G [].
Proof. split; [reflexivity|]. split; [reflexivity|]. split; [reflexivity|apply CR_nil]. Qed.

Lemma OutC_app S G a S1 G1 o1 b S2 G2 o2 :
  OutC S G a S1 G1 o1 -> OutC S1 G1 b S2 G2 o2 -> OutC S G (a ++ b) S2 G2 (o1 ++ o2).
Proof.
  intros [A1 [A2 [A4 A3]]] [B1 [B2 [B4 B3]]]. split; [|split; [|split]].
  - rewrite tabs_app, A1. exact B1.
  - apply dense_app_true; [exact A2|]. rewrite A1. exact B2.
  - rewrite no_empty_chunks_app, A4, B4. reflexivity.
  - unfold tchunks in *. rewrite rsegs_app, A1, ta_app. cbn [fst snd]. apply CR_app; assumption.
Qed.

Lemma OutC_chunk S G t mp g : idx_ok S G (m_orig mp) -> t <> [] ->
  length g = length t -> Rc (res S G (m_orig mp)) t g ->
  OutC S G [EChunk (Some t) mp] S G g.
Proof.
  intros H Hne Hl Hr. split; [reflexivity|]. split; [|split].
  - cbn [dense]. rewrite andb_true_r. unfold idx_ok in H. destruct (m_orig mp) as [o|]; [|reflexivity].
    destruct H as [H1 H2]. apply andb_true_iff. split; [apply N.ltb_lt; exact H1|].
    destruct (o_name o); [apply N.ltb_lt; exact H2|reflexivity].
  - destruct t; [contradiction|reflexivity].
  - unfold tchunks, ta. cbn [rsegs_of_events map fst snd]. apply CR_one; [exact Hl|exact Hr].
Qed.

Lemma OutC_name S G nm : OutC S G [EName (len G) nm] S (G ++ [nm]) [].
Proof.
  split; [|split; [|split]].
  - cbn [tabs]. rewrite lm_insert_next. reflexivity.
  - cbn [dense]. rewrite N.eqb_refl. reflexivity.
  - reflexivity.
  - apply CR_nil.
Qed.

Lemma OutC_source S G i nm c : i = len S -> OutC S G [ESource i nm c] (S ++ [nm]) G [].
Proof.
  intros ->. split; [|split; [|split]].
  - cbn [tabs]. rewrite lm_insert_next. reflexivity.
  - cbn [dense]. rewrite N.eqb_refl. reflexivity.
  - reflexivity.
  - apply CR_nil.
Qed.

(* ------------------------------------------------------------------ *)
(* replacement content                                                 *)
(* ------------------------------------------------------------------ *)
Variable fillv : A.
Definition cfill (t : text) : list A := map (fun _ => fillv) t.
Hypothesis Rc_fill : forall a t, Rc a t (cfill t).

Lemma cfill_app a b : cfill (a ++ b) = cfill a ++ cfill b.
Proof. apply map_app. Qed.

Lemma content_line_outC S Nn G mo name cl gl gc : idx_ok S Nn mo -> cl <> [] ->
  match name with Some g => g < len G | None => True end ->
  OutC S G [EChunk (Some cl) (mkMapping gl gc (renamed mo name))] S G (cfill cl).
Proof.
  intros Hi Hcl Hn. apply OutC_chunk; [|exact Hcl|apply map_length|apply Rc_fill].
  cbn [m_orig]. unfold idx_ok, renamed. destruct mo as [o|]; [|exact I]. cbn [o_src o_name].
  destruct Hi as [Hi _]. split; [exact Hi|]. destruct name; [exact Hn|exact I].
Qed.

Lemma emit_content_C S Nn G mo : idx_ok S Nn mo -> forall (ls : list text) st line gc name st' line' evs,
  (forall l : text, In l ls -> l <> []) ->
  match name with Some g => g < len G | None => True end ->
  emit_content st ls line gc mo name = (st', line', evs) ->
  aux st' = aux st /\ OutC S G evs S G (cfill (concat ls)).
Proof.
  intros Hi. induction ls as [|cl ls IH]; intros st line gc name st' line' evs Hls Hn H.
  - cbn [emit_content] in H. inversion H. subst. split; [reflexivity|apply OutC_nil].
  - cbn [emit_content] in H. fold (renamed mo name) in H.
    destruct (is_nil ls && negb (ends_with_nl cl)).
    + match type of H with context [emit_content ?a ls ?b ?c ?d ?e] =>
        destruct (emit_content a ls b c d e) as [[st2 line2] evs2] eqn:E end.
      destruct (IH _ _ _ None _ _ _ (fun l Hl => Hls l (or_intror Hl)) I E) as [E1 E2]. inversion H. subst. split.
      * rewrite E1. destruct (rs_cline st =? line)%Z; reflexivity.
      * cbn [concat]. rewrite cfill_app.
        match goal with |- OutC _ _ (?e :: ?l) _ _ _ => change (e :: l) with ([e] ++ l) end.
        apply (OutC_app S G _ S G _ _ S G); [|exact E2].
        apply (content_line_outC S Nn); [exact Hi|apply Hls; left; reflexivity|exact Hn].
    + match type of H with context [emit_content ?a ls ?b ?c ?d ?e] =>
        destruct (emit_content a ls b c d e) as [[st2 line2] evs2] eqn:E end.
      destruct (IH _ _ _ None _ _ _ (fun l Hl => Hls l (or_intror Hl)) I E) as [E1 E2]. inversion H. subst. split.
      * rewrite E1. reflexivity.
      * cbn [concat]. rewrite cfill_app.
        match goal with |- OutC _ _ (?e :: ?l) _ _ _ => change (e :: l) with ([e] ++ l) end.
        apply (OutC_app S G _ S G _ _ S G); [|exact E2].
        apply (content_line_outC S Nn); [exact Hi|apply Hls; left; reflexivity|exact Hn].
Qed.

(* the name of a replacement announces at most one name and no chunk *)
Lemma loop_name_C S st1 v1 r st2 ni evn :
  loop_name st1 v1 r = (st2, ni, evn) -> OutC S (rs_names st1) evn S (rs_names st2) [].
Proof.
  intros H. unfold loop_name in H.
  destruct (r_name r) as [nm|]; [destruct (v_orig v1) as [o|]|].
  - destruct (find_text (rs_names st1) nm 0) as [g|]; inversion H; subst; clear H.
    + apply OutC_nil.
    + cbn [set_names rs_names]. apply OutC_name.
  - inversion H; subst. apply OutC_nil.
  - inversion H; subst. apply OutC_nil.
Qed.
End OutputC.
Definition cfa {A} (fillv : A) (r : repl) (_ : A) : list A := cfill fillv (r_content r).

Section ChunkC.
Context {A : Type}.
Variable Rc : attr -> text -> list A -> Prop.
Variable fillv : A.
Hypothesis Rc_fill : forall a t, Rc a t (cfill fillv t).
Variable B : N -> A.
Notation cattr := (cfa fillv).
Variable n : N.
Variable L : list N.

Variables (start : N) (chunk : text) (S Nn : list text) (C : list (option text)).
Hypothesis chunk_ne : 0 < len chunk.
Hypothesis chunk_in : start + len chunk <= n.

(* the cursor invariant: at offset cpos of the chunk the state machine holds the original mo *)
Variable Cur : N -> option orig -> Prop.
Hypothesis Oidx : forall cpos mo, Cur cpos mo -> idx_ok S Nn mo.
Hypothesis O2 : forall st cpos k mo, rs_contents st = C -> Cur cpos mo -> cpos < k -> k < len chunk ->
  In (start + k) L -> NoCutIn L (start + cpos) (start + k) ->
  Cur k (adv_col st mo (slice cpos k chunk)).
(* a piece emitted with the cursor's original lies on its slice of B as Rc demands *)
Hypothesis O3 : forall cpos k mo, Cur cpos mo -> cpos < k -> k <= len chunk ->
  NoCutIn L (start + cpos) (start + k) ->
  Rc (res S Nn mo) (slice cpos k chunk) (bseg B (start + cpos) (start + k)).

Lemma piece_out st mo cpos k G : Cur cpos mo -> cpos < k -> k <= len chunk ->
  NoCutIn L (start + cpos) (start + k) ->
  ren_ok (rs_name_idx st) Nn (rs_names st) -> rs_names st = G ->
  forall gl gc,
  OutC Rc S G [EChunk (Some (slice cpos k chunk))
                 (mkMapping gl gc (match mo with Some o => Some (map_name st o) | None => None end))]
       S G (bseg B (start + cpos) (start + k)).
Proof.
  intros HI H1 H2 Hn Hr HG gl gc.
  destruct (res_map_name_opt S Nn G st mo Hr HG (Oidx _ _ HI)) as [R1 R2].
  assert (Hl : len (slice cpos k chunk) = k - cpos) by (apply len_slice; lia).
  apply OutC_chunk.
  - exact R2.
  - intros E. rewrite E, len_nil in Hl. lia.
  - rewrite bseg_length. unfold len in Hl. replace (start + k - (start + cpos)) with (k - cpos) by lia. lia.
  - cbn [m_orig]. rewrite R1. apply (O3 cpos k mo HI H1 H2 Hn).
Qed.

(* emission of the chunk part before the replacement *)
Lemma loop_pre_attr st v r rest' line st1 v1 ev1 :
  rs_pos st = start + v_cpos v -> v_cpos v < len chunk -> r_start r < start + len chunk ->
  rs_contents st = C -> ren_ok (rs_name_idx st) Nn (rs_names st) ->
  Cur (v_cpos v) (v_orig v) -> Sync L n (r :: rest') (rs_pos st) (rs_pos st) -> ordered r ->
  loop_pre st v r chunk line = (st1, v1, ev1) ->
  rs_rest st1 = rs_rest st /\ rs_rend st1 = rs_rend st /\ aux st1 = aux st /\
  rs_pos st1 = N.max (rs_pos st) (r_start r) /\
  rs_pos st1 = start + v_cpos v1 /\ v_cpos v1 < len chunk /\ Cur (v_cpos v1) (v_orig v1) /\
  OutC Rc S (rs_names st) ev1 S (rs_names st) (bseg B (rs_pos st) (rs_pos st1)).
Proof.
  intros Hp Hc Hs HC Hr HI Hsy Ho H. unfold loop_pre in H.
  destruct (N.ltb_spec (rs_pos st) (r_start r)) as [Lt|Lt]; inversion H; subst st1 v1 ev1; clear H.
  - cbn [set_pos rs_rest rs_rend rs_pos v_cpos v_orig].
    destruct (Sync_nocut_head L n r rest' (rs_pos st) Hsy Ho) as [N1 N2].
    replace (N.max (rs_pos st) (N.min (r_start r) n)) with (r_start r) in N1, N2 by lia.
    set (k := v_cpos v + (r_start r - rs_pos st)).
    assert (Hk : start + k = r_start r) by (unfold k; lia).
    split; [reflexivity|]. split; [reflexivity|]. split; [reflexivity|].
    split; [lia|]. split; [lia|]. split; [lia|]. split.
    + apply (O2 st (v_cpos v) k (v_orig v) HC HI); [unfold k; lia|lia|rewrite Hk; exact N2|].
      rewrite Hk, <- Hp. exact N1.
    + rewrite <- Hk, Hp. apply (piece_out st (v_orig v) (v_cpos v) k (rs_names st) HI);
        [unfold k; lia|lia| |exact Hr|reflexivity].
      rewrite Hk, <- Hp. exact N1.
  - split; [reflexivity|]. split; [reflexivity|]. split; [reflexivity|].
    split; [lia|]. split; [exact Hp|]. split; [exact Hc|]. split; [exact HI|].
    rewrite bseg_nil by lia. apply OutC_nil.
Qed.

(* the invariant of the while loop *)
Record LInv (rest : list repl) (st : rstate) (v : cvars) : Prop := mkLInv {
  li_rest : rs_rest st = rest;
  li_ord : Forall ordered rest;
  li_pos : rs_pos st = start + v_cpos v;
  li_cpos : v_cpos v < len chunk;
  li_rend : rend_n st <= rs_pos st;
  li_cont : rs_contents st = C;
  li_ren : ren_ok (rs_name_idx st) Nn (rs_names st);
  li_cur : Cur (v_cpos v) (v_orig v);
  li_sync : Sync L n rest (rs_pos st) (rs_pos st) }.

Definition LPost (rest : list repl) (st : rstate) (st' : rstate) (v' : cvars) (early : bool) (out : list A) : Prop :=
  Forall ordered (rs_rest st') /\ rs_contents st' = C /\ rs_name_idx st' = rs_name_idx st /\
  ren_ok (rs_name_idx st') Nn (rs_names st') /\
  if early then
    rs_pos st' = start + len chunk /\ start + len chunk <= rend_n st' /\
    Sync L n (rs_rest st') (start + len chunk) (N.min (rend_n st') n) /\
    out ++ aspl B cattr n (rs_rest st') (N.min (rend_n st') n) = aspl B cattr n rest (rs_pos st)
  else
    rs_pos st' = start + v_cpos v' /\ v_cpos v' < len chunk /\ rend_n st' <= rs_pos st' /\
    head_from (start + len chunk) (rs_rest st') /\ Cur (v_cpos v') (v_orig v') /\
    Sync L n (rs_rest st') (rs_pos st') (rs_pos st') /\
    out ++ aspl B cattr n (rs_rest st') (rs_pos st') = aspl B cattr n rest (rs_pos st).

Lemma repl_loop_attr (gl : N) : forall rest st v, LInv rest st v ->
  forall st' v' evs early,
  repl_loop rest st v chunk gl (start + len chunk) = (st', v', evs, early) ->
  exists out, OutC Rc S (rs_names st) evs S (rs_names st') out /\ LPost rest st st' v' early out.
Proof.
  induction rest as [|r rest' IH]; intros st v [Hrest Hord Hpos Hcp Hre HC Hren HI Hsy] st' v' evs early H.
  - rewrite repl_loop_nil in H. inversion H. subst st' v' evs early. exists []. split; [apply OutC_nil|].
    unfold LPost. rewrite Hrest. split; [constructor|]. split; [exact HC|]. split; [reflexivity|].
    split; [exact Hren|]. split; [exact Hpos|]. split; [exact Hcp|]. split; [exact Hre|]. split; [exact I|].
    split; [exact HI|]. split; [exact Hsy|]. reflexivity.
  - rewrite repl_loop_cons in H. inversion Hord as [|? ? Hr Hord' Eq]. clear Eq.
    destruct (N.ltb_spec (r_start r) (start + len chunk)) as [Hs|Hs]; cbn [negb] in H.
    2:{ inversion H. subst st' v' evs early. exists []. split; [apply OutC_nil|].
        unfold LPost. rewrite Hrest. split; [exact Hord|]. split; [exact HC|]. split; [reflexivity|].
        split; [exact Hren|]. split; [exact Hpos|]. split; [exact Hcp|]. split; [exact Hre|].
        split; [split; [lia|exact Hr]|]. split; [exact HI|]. split; [exact Hsy|]. reflexivity. }
    cbn zeta in H.
    destruct (loop_pre st v r chunk (Z.of_N gl + rs_loff st)%Z) as [[st1 v1] ev1] eqn:E1.
    destruct (loop_pre_attr st v r rest' _ st1 v1 ev1 Hpos Hcp Hs HC Hren HI Hsy Hr E1)
      as [A1 [A2 [A3 [A4 [A5 [A6 [A7 A8]]]]]]].
    apply aux_inv in A3. destruct A3 as [A3a [A3b A3c]].
    destruct (loop_name st1 v1 r) as [[st2 ni] evn] eqn:E2.
    assert (Hren1 : ren_ok (rs_name_idx st1) Nn (rs_names st1)) by (rewrite A3b, A3c; exact Hren).
    destruct (loop_name_attr S Nn st1 v1 r st2 ni evn Hren1 (Oidx _ _ A7) E2)
      as [B1 [B2 [B3 [B4 [B5 [B6 B7]]]]]].
    apply core_inv in B1. destruct B1 as [B1a [B1b B1c]].
    destruct (emit_content st2 (split_lines (r_content r)) (Z.of_N gl + rs_loff st)%Z (v_gc v1) (v_orig v1) ni)
      as [[st3 l3] ev2] eqn:E3.
    destruct (emit_content_text _ _ _ _ _ _ _ _ _ E3) as [C1 _]. apply core_inv in C1. destruct C1 as [C1a [C1b C1c]].
    destruct (emit_content_C Rc fillv Rc_fill S Nn (rs_names st2) (v_orig v1) (Oidx _ _ A7) _ _ _ _ _ _ _ _
                (split_lines_nonempty (r_content r)) B5 E3) as [C2 C3].
    apply aux_inv in C2. destruct C2 as [C2a [C2b C2c]].
    (* what the content carries *)
    assert (HC3 : OutC Rc S (rs_names st2) ev2 S (rs_names st2) (cattr r (B (rs_pos st1)))).
    { unfold cfa. rewrite <- (concat_split_lines (r_content r)). exact C3. }
    assert (Hrn : rend_n st3 = rend_n st) by (unfold rend_n; rewrite C1c, B1c, A2; reflexivity).
    assert (Hp3 : rs_pos st3 = rs_pos st1) by congruence.
    pose proof (new_rend_max st3 r) as Hnr. rewrite Hrn in Hnr.
    set (rend := new_rend st3 r) in *.
    assert (Hn1 : rs_pos st1 < n) by lia.
    (* the events up to the end of the replacement content *)
    assert (Hhead : OutC Rc S (rs_names st) (ev1 ++ evn ++ ev2) S (rs_names st3)
                         (bseg B (rs_pos st) (rs_pos st1) ++ cattr r (B (rs_pos st1)))).
    { apply (OutC_app Rc S (rs_names st) ev1 S (rs_names st) _ _ S (rs_names st3)); [exact A8|].
      change (cattr r (B (rs_pos st1))) with ([] ++ cattr r (B (rs_pos st1))).
      apply (OutC_app Rc S (rs_names st) evn S (rs_names st2) _ _ S (rs_names st3)).
      - rewrite <- A3b. apply (loop_name_C Rc S st1 v1 r st2 ni evn E2).
      - rewrite C2b. exact HC3. }
    (* the splice equation up to the end of the replacement content *)
    assert (Hsp : aspl B cattr n (r :: rest') (rs_pos st)
                  = bseg B (rs_pos st) (rs_pos st1) ++ cattr r (B (rs_pos st1))
                    ++ aspl B cattr n rest' (N.max (rs_pos st) (N.min (r_end r) n))).
    { cbn [aspl]. unfold ordered in Hr.
      replace (N.max (rs_pos st) (N.min (r_start r) n)) with (rs_pos st1) by lia.
      f_equal. destruct (N.ltb_spec (rs_pos st) (r_start r)) as [Lt|Lt].
      - replace (N.min (r_start r) n) with (rs_pos st1) by lia. reflexivity.
      - rewrite !bseg_nil by lia. reflexivity. }
    assert (Hren3 : ren_ok (rs_name_idx st3) Nn (rs_names st3)) by (rewrite C2b, C2c; exact B4).
    assert (Hidx3 : rs_name_idx st3 = rs_name_idx st) by congruence.
    assert (HC3' : rs_contents st3 = C) by congruence.
    unfold ordered in Hr.
    destruct (0 <? Z.of_N (len chunk) - Z.of_N (start + len chunk) + Z.of_N rend - Z.of_N (v_cpos v1))%Z eqn:EO.
    + apply Z.ltb_lt in EO.
      destruct (N.leb_spec (start + len chunk) rend) as [EE|EE].
      * (* the rest of the chunk is replaced *)
        match type of H with context [skip_whole ?a ?b ?c ?d ?e] =>
          pose proof (core_skip_whole a b c d e) as K; pose proof (aux_skip_whole a b c d e) as K';
          set (st5 := skip_whole a b c d e) in * end.
        apply core_inv in K. destruct K as [K1 [K2 K3]].
        apply aux_inv in K'. destruct K' as [K4 [K5 K6]].
        cbn [set_rest_rend rs_pos rs_rest rs_rend rs_contents rs_names rs_name_idx] in K1, K2, K3, K4, K5, K6.
        inversion H. subst st' v' evs early. clear H.
        exists (bseg B (rs_pos st) (rs_pos st1) ++ cattr r (B (rs_pos st1))).
        cbn [set_pos rs_names]. rewrite K5. split; [exact Hhead|].
        unfold LPost, rend_n. cbn [set_pos rs_rest rs_pos rs_rend rs_contents rs_name_idx rs_names].
        rewrite K2, K3, K4, K5, K6.
        split; [exact Hord'|]. split; [exact HC3'|]. split; [exact Hidx3|]. split; [exact Hren3|].
        split; [reflexivity|]. split; [exact EE|].
        assert (Hc' : N.max (rs_pos st) (N.min (r_end r) n) = N.min rend n) by lia.
        split.
        { rewrite <- Hc'. apply (Sync_step L n r rest' (rs_pos st) (start + len chunk) Hsy Hr); lia. }
        rewrite Hsp, <- app_assoc, Hc'. reflexivity.
      * (* part of the chunk is replaced *)
        cbn zeta in H.
        match type of H with context [repl_loop rest' ?a ?b chunk gl _] =>
          destruct (repl_loop rest' a b chunk gl (start + len chunk)) as [[[st6 v3] ev3] early3] eqn:E6;
          set (st5 := a) in *; set (v2 := b) in * end.
        inversion H. subst st' v' evs early. clear H.
        set (k := Z.to_N (Z.of_N (len chunk) - Z.of_N (start + len chunk) + Z.of_N rend - Z.of_N (v_cpos v1))) in *.
        assert (K : core st5 = core (set_pos (set_rest_rend st3 rest' rend) (rs_pos st3 + k))).
        { unfold st5. rewrite core_drop_cols. reflexivity. }
        assert (K' : aux st5 = aux st3).
        { unfold st5. rewrite aux_drop_cols. reflexivity. }
        apply core_inv in K. destruct K as [K1 [K2 K3]].
        apply aux_inv in K'. destruct K' as [K4 [K5 K6]].
        cbn [set_pos set_rest_rend rs_pos rs_rest rs_rend] in K1, K2, K3.
        assert (Hk : k = rend - rs_pos st1) by (unfold k; lia).
        assert (Hp5 : rs_pos st5 = rend) by lia.
        assert (Hrn5 : rend_n st5 = rend) by (unfold rend_n; rewrite K3; reflexivity).
        assert (Hc' : N.max (rs_pos st) (N.min (r_end r) n) = rend) by lia.
        assert (Hsy5 : Sync L n rest' rend rend).
        { rewrite <- Hc'. apply (Sync_step L n r rest' (rs_pos st) _ Hsy Hr); lia. }
        assert (HI5 : Cur (v_cpos v2) (v_orig v2)).
        { unfold v2. cbn [v_cpos v_orig].
          apply (O2 (set_rest_rend st3 rest' rend) (v_cpos v1) (v_cpos v1 + k) (v_orig v1)); [exact HC3'|exact A7|lia|lia| |].
          - replace (start + (v_cpos v1 + k)) with rend by lia.
            destruct Hsy5 as [_ [_ [[X|X] _]]]; [|exact X].
            pose proof (Sync_step L n r rest' (rs_pos st) rend Hsy Hr) as Y.
            rewrite Hc' in Y. destruct Y as [_ [_ [_ _]]]; [lia|lia|].
            (* rend is the consumed cut of r *)
            destruct Hsy as [_ [_ [_ [Ld [EL _]]]]]. rewrite EL. apply in_or_app. right.
            rewrite cuts_from_cons. right. left. exact Hc'.
          - replace (start + (v_cpos v1 + k)) with rend by lia. rewrite <- A5.
            pose proof (Sync_nocut_step L n r rest' (rs_pos st) Hsy Hr) as Y.
            rewrite Hc' in Y. replace (N.max (rs_pos st) (N.min (r_start r) n)) with (rs_pos st1) in Y by lia.
            exact Y. }
        assert (LI5 : LInv rest' st5 v2).
        { constructor; try assumption.
          - unfold v2. cbn [v_cpos]. lia.
          - unfold v2. cbn [v_cpos]. lia.
          - lia.
          - congruence.
          - rewrite K5, K6. exact Hren3.
          - rewrite Hp5. exact Hsy5. }
        destruct (IH st5 v2 LI5 _ _ _ _ E6) as [out3 [D1 D2]].
        exists ((bseg B (rs_pos st) (rs_pos st1) ++ cattr r (B (rs_pos st1))) ++ out3).
        split.
        { rewrite !app_assoc. apply (OutC_app Rc S (rs_names st) _ S (rs_names st3)); [|rewrite <- K5; exact D1].
          rewrite <- app_assoc. exact Hhead. }
        destruct D2 as [D2 [D3 [D4 [D5 D6]]]].
        unfold LPost. split; [exact D2|]. split; [exact D3|]. split; [congruence|]. split; [exact D5|].
        destruct early3.
        -- destruct D6 as [F1 [F2 [F3 F4]]]. rewrite Hp5 in F4.
           split; [exact F1|]. split; [exact F2|]. split; [exact F3|].
           rewrite Hsp, Hc', <- F4, <- !app_assoc. reflexivity.
        -- destruct D6 as [F1 [F2 [F3 [F4 [F5 [F6 F7]]]]]]. rewrite Hp5 in F7.
           split; [exact F1|]. split; [exact F2|]. split; [exact F3|]. split; [exact F4|].
           split; [exact F5|]. split; [exact F6|].
           rewrite Hsp, Hc', <- F7, <- !app_assoc. reflexivity.
    + apply Z.ltb_ge in EO.
      match type of H with context [repl_loop rest' ?a ?b chunk gl _] =>
        destruct (repl_loop rest' a b chunk gl (start + len chunk)) as [[[st6 v3] ev3] early3] eqn:E6;
        set (st4 := a) in * end.
      inversion H. subst st' v' evs early. clear H.
      assert (Hp4 : rs_pos st4 = rs_pos st1) by (unfold st4; cbn [set_rest_rend rs_pos]; exact Hp3).
      assert (Hrn4 : rend_n st4 = rend) by reflexivity.
      assert (Hc' : N.max (rs_pos st) (N.min (r_end r) n) = rs_pos st1) by lia.
      assert (Hsy4 : Sync L n rest' (rs_pos st1) (rs_pos st1)).
      { rewrite <- Hc' at 2. apply (Sync_step L n r rest' (rs_pos st) _ Hsy Hr); lia. }
      assert (LI4 : LInv rest' st4 v1).
      { constructor; try assumption.
        - reflexivity.
        - rewrite Hp4. exact A5.
        - lia.
        - rewrite Hp4. exact Hsy4. }
      destruct (IH st4 v1 LI4 _ _ _ _ E6) as [out3 [D1 D2]].
      exists ((bseg B (rs_pos st) (rs_pos st1) ++ cattr r (B (rs_pos st1))) ++ out3).
      split.
      { rewrite !app_assoc. apply (OutC_app Rc S (rs_names st) _ S (rs_names st3)); [|exact D1].
        rewrite <- app_assoc. exact Hhead. }
      destruct D2 as [D2 [D3 [D4 [D5 D6]]]].
      unfold LPost. split; [exact D2|]. split; [exact D3|]. split; [rewrite D4; exact Hidx3|]. split; [exact D5|].
      destruct early3.
      * destruct D6 as [F1 [F2 [F3 F4]]]. rewrite Hp4 in F4.
        split; [exact F1|]. split; [exact F2|]. split; [exact F3|].
        rewrite Hsp, Hc', <- F4, <- !app_assoc. reflexivity.
      * destruct D6 as [F1 [F2 [F3 [F4 [F5 [F6 F7]]]]]]. rewrite Hp4 in F7.
        split; [exact F1|]. split; [exact F2|]. split; [exact F3|]. split; [exact F4|].
        split; [exact F5|]. split; [exact F6|].
        rewrite Hsp, Hc', <- F7, <- !app_assoc. reflexivity.
Qed.

(* entering the chunk: skipping what an earlier replacement has replaced *)
Lemma chunk_entry_attr st m st1 v1 early :
  rs_pos st = start -> rs_contents st = C -> Sync L n (rs_rest st) start (cref st n) -> Cur 0 (m_orig m) ->
  chunk_entry st chunk m = (st1, v1, early) ->
  aux st1 = aux st /\ rs_rest st1 = rs_rest st /\ rs_rend st1 = rs_rend st /\
  if early then
    rs_pos st1 = start + len chunk /\ start + len chunk <= rend_n st /\
    Sync L n (rs_rest st) (start + len chunk) (cref st n)
  else
    rs_pos st1 = start + v_cpos v1 /\ v_cpos v1 < len chunk /\ rend_n st1 <= rs_pos st1 /\
    rs_pos st1 = cref st n /\ Cur (v_cpos v1) (v_orig v1) /\
    Sync L n (rs_rest st) (rs_pos st1) (rs_pos st1).
Proof.
  intros Hp HC Hsy H0 H. unfold chunk_entry in H. unfold cref, eff, rend_n in *.
  destruct (rs_rend st) as [re|] eqn:ER.
  - destruct (N.ltb_spec (rs_pos st) re) as [Lt|Lt].
    + destruct (N.leb_spec (rs_pos st + len chunk) re) as [L2|L2]; inversion H; subst st1 v1 early; clear H.
      * match goal with |- context [skip_whole ?a ?b ?c ?d ?e] =>
          pose proof (core_skip_whole a b c d e) as K; pose proof (aux_skip_whole a b c d e) as K';
          set (st5 := skip_whole a b c d e) in * end.
        apply core_inv in K. destruct K as [K1 [K2 K3]].
        rewrite aux_set_pos. cbn [set_pos rs_rest rs_rend rs_pos].
        split; [exact K'|]. split; [exact K2|]. split; [rewrite K3; exact ER|].
        split; [lia|]. split; [lia|]. apply (Sync_advance L n _ start _ _ Hsy); lia.
      * match goal with |- context [drop_cols ?a ?b ?c] =>
          pose proof (core_drop_cols a b c) as K; pose proof (aux_drop_cols a b c) as K';
          set (st5 := drop_cols a b c) in * end.
        apply core_inv in K. destruct K as [K1 [K2 K3]]. cbn [set_pos rs_rest rs_rend rs_pos] in K1, K2, K3.
        rewrite aux_set_pos in K'. cbn [v_cpos v_orig].
        assert (Hre : N.min (N.max (rs_pos st) re) n = re) by lia.
        rewrite Hre in Hsy.
        split; [exact K'|]. split; [exact K2|]. split; [rewrite K3; exact ER|].
        rewrite K1, K3, ER. split; [lia|]. split; [lia|]. split; [lia|]. split; [lia|].
        split.
        -- rewrite <- (slice_0_take (re - rs_pos st) chunk).
           apply (O2 st 0 (re - rs_pos st) (m_orig m) HC H0); [lia|lia| |].
           ++ replace (start + (re - rs_pos st)) with re by lia.
              apply (Sync_cut_in L n _ start re Hsy). lia.
           ++ replace (start + (re - rs_pos st)) with re by lia. rewrite N.add_0_r.
              apply (Sync_nocut_skip L n _ start re Hsy).
        -- replace (rs_pos st + (re - rs_pos st)) with re by lia.
           apply (Sync_advance L n _ start re re Hsy); lia.
    + inversion H; subst st1 v1 early; clear H. cbn [v_cpos v_orig]. rewrite ER.
      assert (Hre : N.min (N.max (rs_pos st) re) n = start) by lia. rewrite Hre in Hsy.
      split; [reflexivity|]. split; [reflexivity|]. split; [reflexivity|].
      split; [lia|]. split; [exact chunk_ne|]. split; [lia|]. split; [lia|]. split; [exact H0|].
      rewrite Hp. exact Hsy.
  - inversion H; subst st1 v1 early; clear H. cbn [v_cpos v_orig]. rewrite ER.
    assert (Hre : N.min (N.max (rs_pos st) 0) n = start) by lia. rewrite Hre in Hsy.
    split; [reflexivity|]. split; [reflexivity|]. split; [reflexivity|].
    split; [lia|]. split; [exact chunk_ne|]. split; [lia|]. split; [lia|]. split; [exact H0|].
    rewrite Hp. exact Hsy.
Qed.

Lemma replace_chunk_attr st m st' evs :
  rs_pos st = start -> Forall ordered (rs_rest st) -> rs_contents st = C ->
  ren_ok (rs_name_idx st) Nn (rs_names st) ->
  Sync L n (rs_rest st) start (cref st n) -> Cur 0 (m_orig m) ->
  replace_chunk st chunk m = (st', evs) ->
  exists out, OutC Rc S (rs_names st) evs S (rs_names st') out /\
    rs_pos st' = start + len chunk /\ Forall ordered (rs_rest st') /\ rs_contents st' = C /\
    rs_name_idx st' = rs_name_idx st /\ ren_ok (rs_name_idx st') Nn (rs_names st') /\
    Sync L n (rs_rest st') (start + len chunk) (cref st' n) /\
    out ++ aspl B cattr n (rs_rest st') (cref st' n) = aspl B cattr n (rs_rest st) (cref st n).
Proof.
  intros Hp Hord HC Hren Hsy H0 H. rewrite replace_chunk_eq in H. cbn zeta in H.
  destruct (chunk_entry st chunk m) as [[st1 v1] early] eqn:E1.
  destruct (chunk_entry_attr st m st1 v1 early Hp HC Hsy H0 E1) as [A0 [A1 [A2 A3]]].
  apply aux_inv in A0. destruct A0 as [A0a [A0b A0c]].
  destruct early.
  - inversion H. subst st' evs. clear H. destruct A3 as [A3 [A4 A5]].
    exists []. rewrite A0b. split; [apply OutC_nil|]. split; [exact A3|]. rewrite A1. split; [exact Hord|].
    split; [congruence|]. split; [exact A0c|]. split; [rewrite A0c; exact Hren|].
    assert (Hc : cref st1 n = cref st n).
    { unfold cref, eff, rend_n in *. rewrite A2, A3, Hp. lia. }
    rewrite Hc. split; [exact A5|reflexivity].
  - destruct A3 as [A3 [A4 [A5 [A6 [A7 A8]]]]].
    rewrite Hp in H.
    destruct (repl_loop (rs_rest st1) st1 v1 chunk (g_line m) (start + len chunk))
      as [[[st2 v2] ev2] early2] eqn:E2.
    assert (LI : LInv (rs_rest st1) st1 v1).
    { constructor; try assumption.
      - reflexivity.
      - rewrite A1. exact Hord.
      - congruence.
      - rewrite A0b, A0c. exact Hren.
      - rewrite A1. exact A8. }
    destruct (repl_loop_attr (g_line m) (rs_rest st1) st1 v1 LI _ _ _ _ E2) as [out [B1 B2]].
    destruct B2 as [B2 [B3 [B4 [B5 B6]]]].
    rewrite A0b in B1. rewrite A1, A6 in B6.
    destruct early2.
    + inversion H. subst st' evs. clear H. destruct B6 as [F1 [F2 [F3 F4]]].
      assert (Hc : cref st2 n = N.min (rend_n st2) n) by (unfold cref, eff; lia).
      exists out. split; [exact B1|]. split; [exact F1|]. split; [exact B2|]. split; [exact B3|].
      split; [congruence|]. split; [exact B5|]. rewrite Hc. split; [exact F3|exact F4].
    + inversion H. subst st' evs. clear H. destruct B6 as [F1 [F2 [F3 [F4 [F5 [F6 F7]]]]]].
      replace (v_cpos v2 <? len chunk) with true by (symmetry; apply N.ltb_lt; exact F2).
      assert (Hc : cref (set_pos st2 (start + len chunk)) n = start + len chunk).
      { unfold cref, eff, rend_n in *. cbn [set_pos rs_pos rs_rend]. lia. }
      rewrite Hc. cbn [set_pos rs_pos rs_rest rs_contents rs_name_idx rs_names].
      pose proof (Sync_nocut_final L n _ _ (start + len chunk) F6 F4 chunk_in) as NC.
      exists (out ++ bseg B (rs_pos st2) (start + len chunk)).
      split.
      { apply (OutC_app Rc S (rs_names st) ev2 S (rs_names st2)); [exact B1|].
        rewrite F1. rewrite <- (slice_to_end (v_cpos v2) (len chunk) chunk) by lia.
        apply (piece_out st2 (v_orig v2) (v_cpos v2) (len chunk) (rs_names st2) F5); [exact F2|lia| |exact B5|reflexivity].
        rewrite <- F1. exact NC. }
      split; [reflexivity|]. split; [exact B2|]. split; [exact B3|]. split; [congruence|]. split; [exact B5|].
      split.
      { apply (Sync_walk L n _ _ _ (start + len chunk) F6); [lia|exact chunk_in|exact F4]. }
      rewrite <- F7, <- app_assoc. f_equal. symmetry.
      apply aspl_walk; [lia|exact chunk_in|exact F4].
Qed.

End ChunkC.

(* what has to be shown of one inner chunk (see Section ChunkC) *)
Definition ChunkObC {A} (Rc : attr -> text -> list A -> Prop) (B : N -> A) (L : list N) (start : N) (chunk : text)
    (mo0 : option orig) (S Nn : list text) (C : list (option text)) : Prop :=
  exists Cur : N -> option orig -> Prop,
    Cur 0 mo0 /\
    (forall cpos mo, Cur cpos mo -> idx_ok S Nn mo) /\
    (forall st cpos k mo, rs_contents st = C -> Cur cpos mo -> cpos < k -> k < len chunk ->
       In (start + k) L -> NoCutIn L (start + cpos) (start + k) ->
       Cur k (adv_col st mo (slice cpos k chunk))) /\
    (forall cpos k mo, Cur cpos mo -> cpos < k -> k <= len chunk ->
       NoCutIn L (start + cpos) (start + k) ->
       Rc (res S Nn mo) (slice cpos k chunk) (bseg B (start + cpos) (start + k))).

Section EventsC.
Context {A : Type}.
Variable Rc : attr -> text -> list A -> Prop.
Variable fillv : A.
Hypothesis Rc_fill : forall a t, Rc a t (cfill fillv t).
Variable B : N -> A.
Notation cattr := (cfa fillv).
Variable n : N.
Variable L : list N.

Variable ievs : list event.
Hypothesis HCH : forall done t m todo pre, ievs = done ++ EChunk (Some t) m :: todo -> Reass done pre ->
  ChunkObC Rc B L (len pre) t (m_orig m) (fst (tabs done [] [])) (snd (tabs done [] [])) (ctab done []).

Lemma Reass_snoc_chunkC done pre t m : Reass done pre -> Reass (done ++ [EChunk (Some t) m]) (pre ++ t).
Proof. intros H. apply Reass_app; [exact H|apply Reass_one]. Qed.

Lemma Reass_snoc_silentC done pre e : Reass done pre ->
  match e with EChunk _ _ => False | _ => True end -> Reass (done ++ [e]) pre.
Proof.
  intros H He. rewrite <- (app_nil_r pre). apply Reass_app; [exact H|].
  destruct e; [contradiction| |]; apply Reass_nil.
Qed.

Lemma replace_events_C : forall todo done st pre rest_t S Nn st' evs,
  ievs = done ++ todo -> Reass done pre -> Reass todo rest_t -> len pre + len rest_t <= n ->
  no_empty_chunks todo = true -> tabs done [] [] = (S, Nn) -> dense todo (len S) (len Nn) = true ->
  rs_pos st = len pre -> Forall ordered (rs_rest st) -> rs_contents st = ctab done [] ->
  ren_ok (rs_name_idx st) Nn (rs_names st) ->
  Sync L n (rs_rest st) (len pre) (cref st n) ->
  replace_events st todo = (st', evs) ->
  exists out S', OutC Rc S (rs_names st) evs S' (rs_names st') out /\
    rs_pos st' = len pre + len rest_t /\ Forall ordered (rs_rest st') /\
    out ++ aspl B cattr n (rs_rest st') (cref st' n) = aspl B cattr n (rs_rest st) (cref st n).
Proof.
  induction todo as [|e todo IH]; intros done st pre rest_t S Nn st' evs Hi HRd HRt Hn Hne Ht Hd Hp Hord HC Hren Hsy H.
  - cbn [replace_events] in H. inversion H. subst st' evs.
    rewrite (Reass_fun [] rest_t [] HRt Reass_nil). rewrite len_nil.
    exists [], S. split; [apply OutC_nil|]. split; [lia|]. split; [exact Hord|reflexivity].
  - cbn [replace_events] in H.
    destruct (replace_event st e) as [st1 o1] eqn:E1.
    destruct (replace_events st1 todo) as [st2 o2] eqn:E2.
    inversion H. subst st' evs. clear H.
    assert (Hi' : ievs = (done ++ [e]) ++ todo) by (rewrite <- app_assoc; exact Hi).
    destruct e as [ot m|i nm c|i nm].
    + (* chunk *)
      apply Reass_chunk_inv in HRt. destruct HRt as [t [x [-> [-> HRt]]]].
      cbn [no_empty_chunks chunk_texts forallb] in Hne. apply andb_true_iff in Hne. destruct Hne as [Hne1 Hne].
      cbn [dense] in Hd. apply andb_true_iff in Hd. destruct Hd as [_ Hd].
      rewrite len_app in Hn.
      assert (Hlt : 0 < len t) by (destruct t; [discriminate|rewrite slen_cons; lia]).
      cbn [replace_event] in E1.
      pose proof (HCH done t m todo pre Hi HRd) as Q. rewrite Ht in Q. cbn [fst snd] in Q.
      destruct Q as [Cur [Q1 [Q2 [Q3 Q4]]]].
      assert (Hin : len pre + len t <= n) by lia.
      destruct (replace_chunk_attr Rc fillv Rc_fill B n L (len pre) t S Nn (ctab done []) Hlt Hin Cur Q2 Q3 Q4
                  st m st1 o1 Hp Hord HC Hren Hsy Q1 E1) as [out1 [A1 [A2 [A3 [A4 [A5 [A6 [A7 A8]]]]]]]].
      assert (Hp1 : rs_pos st1 = len (pre ++ t)) by (rewrite len_app; exact A2).
      assert (Ht1 : tabs (done ++ [EChunk (Some t) m]) [] [] = (S, Nn)) by (rewrite tabs_app, Ht; reflexivity).
      assert (HC1 : rs_contents st1 = ctab (done ++ [EChunk (Some t) m]) []) by (rewrite ctab_app; exact A4).
      assert (Hsy1 : Sync L n (rs_rest st1) (len (pre ++ t)) (cref st1 n)) by (rewrite len_app; exact A7).
      assert (Hn1 : len (pre ++ t) + len x <= n) by (rewrite len_app; lia).
      destruct (IH (done ++ [EChunk (Some t) m]) st1 (pre ++ t) x S Nn st2 o2 Hi' (Reass_snoc_chunkC _ _ _ _ HRd) HRt
                  Hn1 Hne Ht1 Hd Hp1 A3 HC1 A6 Hsy1 E2) as [out2 [S' [B1 [B2 [B3 B4]]]]].
      exists (out1 ++ out2), S'. split; [apply (OutC_app Rc S (rs_names st) o1 S (rs_names st1)); assumption|].
      split; [rewrite B2, !len_app; lia|]. split; [exact B3|].
      rewrite <- A8, <- B4, <- app_assoc. reflexivity.
    + (* source *)
      cbn [dense] in Hd. apply andb_true_iff in Hd. destruct Hd as [Hd1 Hd]. apply N.eqb_eq in Hd1. subst i.
      cbn [replace_event] in E1. inversion E1. subst st1 o1. clear E1.
      assert (Ht1 : tabs (done ++ [ESource (len S) nm c]) [] [] = (S ++ [nm], Nn)).
      { rewrite tabs_app, Ht. cbn [tabs fst snd]. rewrite lm_insert_next. reflexivity. }
      rewrite <- (slen_snoc S nm) in Hd.
      match type of E2 with replace_events ?s _ = _ => set (st1 := s) in * end.
      assert (HC1 : rs_contents st1 = ctab (done ++ [ESource (len S) nm c]) []).
      { rewrite ctab_app. cbn [ctab]. unfold st1. cbn [rs_contents]. rewrite HC. reflexivity. }
      destruct (IH (done ++ [ESource (len S) nm c]) st1 pre rest_t (S ++ [nm]) Nn st2 o2 Hi'
                  (Reass_snoc_silentC done pre (ESource (len S) nm c) HRd I) HRt Hn Hne Ht1 Hd Hp Hord HC1 Hren Hsy E2)
        as [out2 [S' [B1 [B2 [B3 B4]]]]].
      exists out2, S'. split; [|split; [exact B2|split; [exact B3|exact B4]]].
      change out2 with ([] ++ out2).
      apply (OutC_app Rc S (rs_names st) [ESource (len S) nm c] (S ++ [nm]) (rs_names st)); [|exact B1].
      apply OutC_source. reflexivity.
    + (* name *)
      cbn [dense] in Hd. apply andb_true_iff in Hd. destruct Hd as [Hd1 Hd]. apply N.eqb_eq in Hd1. subst i.
      assert (Ht1 : tabs (done ++ [EName (len Nn) nm]) [] [] = (S, Nn ++ [nm])).
      { rewrite tabs_app, Ht. cbn [tabs fst snd]. rewrite lm_insert_next. reflexivity. }
      rewrite <- (slen_snoc Nn nm) in Hd.
      assert (HC0 : ctab (done ++ [EName (len Nn) nm]) [] = ctab done []) by (rewrite ctab_app; reflexivity).
      cbn [replace_event] in E1.
      destruct (find_text (rs_names st) nm 0) as [g|] eqn:Ef; inversion E1; subst st1 o1; clear E1.
      * match type of E2 with replace_events ?s _ = _ => set (st1 := s) in * end.
        assert (Hren1 : ren_ok (rs_name_idx st1) (Nn ++ [nm]) (rs_names st1)).
        { unfold st1. cbn [rs_name_idx rs_names]. apply ren_ok_insert; [exact Hren|apply find_text_nth0; exact Ef]. }
        assert (HC1 : rs_contents st1 = ctab (done ++ [EName (len Nn) nm]) []) by (rewrite HC0; exact HC).
        destruct (IH (done ++ [EName (len Nn) nm]) st1 pre rest_t S (Nn ++ [nm]) st2 o2 Hi'
                    (Reass_snoc_silentC done pre (EName (len Nn) nm) HRd I) HRt Hn Hne Ht1 Hd Hp Hord HC1 Hren1 Hsy E2)
          as [out2 [S' [B1 [B2 [B3 B4]]]]].
        exists out2, S'. split; [exact B1|split; [exact B2|split; [exact B3|exact B4]]].
      * match type of E2 with replace_events ?s _ = _ => set (st1 := s) in * end.
        assert (Hren1 : ren_ok (rs_name_idx st1) (Nn ++ [nm]) (rs_names st1)).
        { unfold st1. cbn [rs_name_idx rs_names]. apply ren_ok_insert; [apply ren_ok_grow; exact Hren|apply snth_len_snoc]. }
        assert (HC1 : rs_contents st1 = ctab (done ++ [EName (len Nn) nm]) []) by (rewrite HC0; exact HC).
        destruct (IH (done ++ [EName (len Nn) nm]) st1 pre rest_t S (Nn ++ [nm]) st2 o2 Hi'
                    (Reass_snoc_silentC done pre (EName (len Nn) nm) HRd I) HRt Hn Hne Ht1 Hd Hp Hord HC1 Hren1 Hsy E2)
          as [out2 [S' [B1 [B2 [B3 B4]]]]].
        exists out2, S'. split; [|split; [exact B2|split; [exact B3|exact B4]]].
        change out2 with ([] ++ out2).
        apply (OutC_app Rc S (rs_names st) [EName (len (rs_names st)) nm] S (rs_names st ++ [nm])); [|exact B1].
        apply OutC_name.
Qed.

Lemma unmapped_contentsC : forall rest,
  flat_map (fun r => cattr r (B n)) rest = cfill fillv (concat (map r_content rest)).
Proof.
  induction rest as [|r rest IH]; [reflexivity|].
  cbn [flat_map map concat]. rewrite cfill_app, IH. reflexivity.
Qed.

Theorem replace_stream_chunks (sorted : list repl) (T : text) (gi : N * N) :
  Forall ordered sorted -> Reass ievs T -> n = len T -> no_empty_chunks ievs = true ->
  dense ievs 0 0 = true -> L = cuts_from n sorted 0 ->
  CR Rc (tchunks [] [] (fst (replace_stream sorted ievs gi))) (aspl B cattr n sorted 0) /\
  dense (fst (replace_stream sorted ievs gi)) 0 0 = true /\
  no_empty_chunks (fst (replace_stream sorted ievs gi)) = true.
Proof.
  intros Hord HR Hn Hne Hd HL. unfold replace_stream.
  destruct (replace_events (replace_init sorted) ievs) as [st evs] eqn:E.
  assert (Hc0 : cref (replace_init sorted) n = 0).
  { unfold cref, eff, rend_n. cbn [replace_init rs_pos rs_rend]. lia. }
  assert (Hsy : Sync L n (rs_rest (replace_init sorted)) (len (@nil N)) (cref (replace_init sorted) n)).
  { rewrite Hc0, HL. change (len (@nil N)) with 0. apply Sync_init. }
  assert (Hn0 : len (@nil N) + len T <= n) by (rewrite len_nil; lia).
  destruct (replace_events_C ievs [] (replace_init sorted) [] T [] [] st evs eq_refl Reass_nil HR Hn0 Hne
              eq_refl Hd eq_refl Hord eq_refl (ren_ok_nil _) Hsy E) as [out [S' [A1 [A2 [A3 A4]]]]].
  change (rs_rest (replace_init sorted)) with sorted in A4.
  rewrite Hc0 in A4.
  change (rs_names (replace_init sorted)) with (@nil text) in A1.
  rewrite emit_remainder_content.
  destruct (emit_content st (split_lines (concat (map r_content (rs_rest st))))
              (Z.of_N (fst gi) + rs_loff st)%Z (snd gi) None None) as [[st' line'] evs'] eqn:E2.
  destruct (emit_content_C Rc fillv Rc_fill S' [] (rs_names st) None I _ _ _ _ None _ _ _
              (split_lines_nonempty _) I E2) as [_ C2].
  rewrite concat_split_lines in C2.
  pose proof (OutC_app Rc [] [] evs S' (rs_names st) out evs' S' (rs_names st) _ A1 C2) as [D1 [D2 [D4 D3]]].
  cbn [fst]. split; [|split; [exact D2|exact D4]].
  rewrite <- A4.
  assert (Hc : cref st n = n) by (unfold cref, eff; rewrite A2, len_nil; lia).
  rewrite Hc, aspl_end, unmapped_contentsC. exact D3.
Qed.
End EventsC.

Print Assumptions replace_stream_chunks.
