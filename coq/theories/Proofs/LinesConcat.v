(* C03, columns = false, part 2 (L2): ConcatSource.
   With columns = false every byte of an output line carries the first mapped piece of that
   line, so a child's attribution is NOT the corresponding slice of the composite's: the last
   (open) line of child k continues in the first line of child k+1, and whichever of the two has
   the first mapped piece decides for the bytes of both.  Both attributions of the composite are
   therefore computed through per-line summaries (LinesBase.v), which compose:
     text-carrying stream   tfl (l1 ++ l2) = fst (tfl l1) ++ tfl l2 (open line of l1)
     text-less stream       looking a line L up in the composite's segments = first of the
                            children's lookups at L - c_loff (`sfm_fold`, `sfmK`)
   and the two compositions agree when the children's summaries do (`fsum_kids`).
   What is asked of a child's text-less stream (`kidL_ok`): dense announcements, exact end info,
   every MAPPED segment on a line >= 1 and strictly before the end position - unmapped segments,
   closing segments and the order of the segments are irrelevant for the lookup by line. *)
From RS Require Import Base.Prelude Base.Text Rope.RopeModel Codec.Vlq Codec.CodecSpec
  Checkers.ChkCodec Stream.Types Stream.Leaves Stream.Concat Stream.Replace Stream.Combined Stream.Tree
  Sem.Attr Checkers.ChkTree
  Proofs.CodecKept Proofs.StreamText Proofs.StreamLeaves Proofs.StreamMap Proofs.StreamConcat Proofs.StreamTree
  Proofs.WfStream Proofs.WfFinal Proofs.RStreamPos
  Proofs.AttrCodec Proofs.AttrSms Proofs.LawConcatAttr Proofs.FinalDense Proofs.FinalConcat
  Proofs.LinesBase.
Require Import Lia List.

Local Open Scope N_scope.

Notation sfm := seg_first_mapped.

(* ------------------------------------------------------------------ *)
(* what the fold needs of a child's text-less stream                     *)
(* ------------------------------------------------------------------ *)
(* a mapped segment lies on a line >= 1, strictly before p *)
Definition seg_before (p : N * N) (s : rseg) : Prop :=
  amap (snd s) = true -> 1 <= fst (fst s) /\ plt (fst s) p.

Definition kidL_ok (tr : kid) : Prop :=
  dense (tr_events tr) 0 0 = true /\
  tr_info tr = advance 1 0 (tr_text tr) /\
  Forall (seg_before (tr_info tr)) (fsegs (tr_events tr) [] []).

Lemma kid_info_line tr : kidL_ok tr -> fst (tr_info tr) = 1 + nlc (tr_text tr).
Proof. intros [_ [Hi _]]. rewrite Hi. apply advance_fst. Qed.

(* no mapped segment beyond the last line; none on the last line if that has no byte *)
Lemma kid_sfm_high tr L : kidL_ok tr -> 1 + nlc (tr_text tr) < L -> sfm (fsegs (tr_events tr) [] []) L = None.
Proof.
  intros Hk HL. pose proof (kid_info_line tr Hk) as Hl. destruct Hk as [_ [_ Hs]].
  apply sfm_none. eapply Forall_impl; [|exact Hs]. cbn beta. intros s Hq Hm.
  destruct (Hq Hm) as [_ Hp]. unfold plt in Hp. lia.
Qed.

Lemma kid_sfm_open tr : kidL_ok tr -> open_empty (tr_text tr) = true ->
  sfm (fsegs (tr_events tr) [] []) (1 + nlc (tr_text tr)) = None.
Proof.
  intros Hk Ho. pose proof (kid_info_line tr Hk) as Hl. destruct Hk as [_ [Hi Hs]].
  pose proof (open_empty_snd _ Ho) as Hc. rewrite <- Hi in Hc.
  apply sfm_none. eapply Forall_impl; [|exact Hs]. cbn beta. intros s Hq Hm.
  destruct (Hq Hm) as [_ Hp]. unfold plt in Hp. lia.
Qed.

(* ------------------------------------------------------------------ *)
(* looking a line up in shifted segments                                *)
(* ------------------------------------------------------------------ *)
Lemma sfm_shseg lo co segs L :
  Forall (fun s : rseg => amap (snd s) = true -> 1 <= fst (fst s)) segs ->
  sfm (map (shseg lo co) segs) L = if lo <? L then sfm segs (L - lo) else None.
Proof.
  induction 1 as [|s segs Hs _ IH]; [destruct (lo <? L); reflexivity|].
  cbn [map]. rewrite !sfm_cons, IH. unfold shseg, shift. cbn [fst snd].
  destruct (N.ltb_spec lo L) as [Hlt|Hge].
  - destruct (N.eq_dec (fst (fst s)) (L - lo)) as [E|E].
    + rewrite E. replace (L - lo + lo =? L) with true by (symmetry; apply N.eqb_eq; lia).
      rewrite N.eqb_refl. reflexivity.
    + replace (fst (fst s) + lo =? L) with false by (symmetry; apply N.eqb_neq; lia).
      replace (fst (fst s) =? L - lo) with false by (symmetry; apply N.eqb_neq; lia). reflexivity.
  - destruct (fst (fst s) + lo =? L) eqn:E; [|reflexivity]. apply N.eqb_eq in E.
    destruct (snd s) as [x|]; [|reflexivity]. specialize (Hs eq_refl). lia.
Qed.

Lemma sfm_cl (cl : list rseg) st L : cl = [] \/ cl = [clseg st] -> sfm cl L = None.
Proof.
  intros [->| ->]; [reflexivity|]. rewrite sfm_cons. unfold clseg. cbn [fst snd norm orA seg_first_mapped].
  destruct (c_loff st + 1 =? L); reflexivity.
Qed.

(* ------------------------------------------------------------------ *)
(* one child of the fold                                                *)
(* ------------------------------------------------------------------ *)
Lemma child_decompL st out evs gi T :
  tabs out [] [] = (c_sources st, c_names st) -> dense evs 0 0 = true -> gi = advance 1 0 T ->
  let r := concat_child true st evs gi in
  tabs (out ++ snd r) [] [] = (c_sources (fst r), c_names (fst r)) /\
  cpos (fst r) = shift (c_loff st) (c_coff st) gi /\
  c_loff (fst r) = c_loff st + nlc T /\
  exists cl, (cl = [] \/ cl = [clseg st]) /\
    fsegs (out ++ snd r) [] [] =
    fsegs out [] [] ++ cl ++ map (shseg (c_loff st) (c_coff st)) (fsegs evs [] []).
Proof.
  intros Ht Hd Hi. cbn zeta.
  pose proof (concat_child_segs st evs gi Hd) as [A1 [A2 _]]. cbn zeta in *.
  pose proof (concat_child_cpos true st evs gi T Hi) as A4.
  destruct (concat_child true st evs gi) as [st' o]. cbn [fst snd] in *.
  split; [rewrite tabs_app, Ht; exact A1|].
  assert (Hc : cpos st' = shift (c_loff st) (c_coff st) gi).
  { rewrite A4, <- (shift_start st), adv_shift by (cbn; lia). unfold adv. cbn [fst snd]. rewrite Hi. reflexivity. }
  split; [exact Hc|]. split.
  { apply (f_equal fst) in A4. unfold cpos, adv in A4. cbn [fst snd] in A4. rewrite advance_fst in A4. lia. }
  exists (if c_close st && need (chunk_mappings evs) gi then [clseg st] else []).
  split; [destruct (c_close st && need (chunk_mappings evs) gi); [right|left]; reflexivity|].
  rewrite fsegs_app, Ht. cbn [fst snd]. rewrite A2. reflexivity.
Qed.

(* ------------------------------------------------------------------ *)
(* looking a line up in the composite's segments                         *)
(* ------------------------------------------------------------------ *)
Fixpoint sfmK (trs : list kid) (lo : N) (L : N) : attr :=
  match trs with
  | [] => None
  | tr :: trs' =>
    orA (if lo <? L then sfm (fsegs (tr_events tr) [] []) (L - lo) else None)
        (sfmK trs' (lo + nlc (tr_text tr)) L)
  end.

Lemma sfmK_low : forall trs lo L, L <= lo -> sfmK trs lo L = None.
Proof.
  induction trs as [|tr trs IH]; intros lo L H; [reflexivity|]. cbn [sfmK].
  replace (lo <? L) with false by (symmetry; apply N.ltb_ge; exact H). cbn [orA]. apply IH. lia.
Qed.

Lemma kid_lines1 tr : kidL_ok tr ->
  Forall (fun s : rseg => amap (snd s) = true -> 1 <= fst (fst s)) (fsegs (tr_events tr) [] []).
Proof. intros [_ [_ Hs]]. eapply Forall_impl; [|exact Hs]. cbn beta. intros s Hq Hm. apply (Hq Hm). Qed.

Lemma sfm_fold : forall (trs : list kid) st out,
  tabs out [] [] = (c_sources st, c_names st) -> Forall kidL_ok trs -> forall L,
  sfm (fsegs (snd (concat_fold true (map fst trs) (st, out))) [] []) L =
  orA (sfm (fsegs out [] []) L) (sfmK trs (c_loff st) L).
Proof.
  induction trs as [|tr trs IH]; intros st out Ht HF L.
  - cbn [map concat_fold fold_left snd sfmK]. rewrite orA_none_r. reflexivity.
  - inversion HF as [|? ? Hk HF']; subst. cbn [map]. rewrite concat_fold_cons. cbn [fst snd].
    change (fst (fst tr)) with (tr_events tr). change (snd (fst tr)) with (tr_info tr).
    pose proof (kid_lines1 tr Hk) as Hl1. destruct Hk as [Hd [Hi Hs]].
    pose proof (child_decompL st out (tr_events tr) (tr_info tr) (tr_text tr) Ht Hd Hi)
      as [B1 [_ [B3 [cl [Hcl B4]]]]]. cbn zeta in *.
    destruct (concat_child true st (tr_events tr) (tr_info tr)) as [st' o]. cbn [fst snd] in *.
    rewrite (IH st' (out ++ o) B1 HF' L), B4, !sfm_app, (sfm_cl cl st L Hcl), (sfm_shseg _ _ _ L Hl1), B3.
    cbn [sfmK orA]. rewrite <- orA_assoc. reflexivity.
Qed.

(* ------------------------------------------------------------------ *)
(* the summaries of the children compose alike on both sides             *)
(* ------------------------------------------------------------------ *)
Lemma fsum_app F a b l :
  fsum F (a ++ b) l = (fst (fsum F a l) ++ fst (fsum F b (l + nlc a)), snd (fsum F b (l + nlc a))).
Proof. unfold fsum. cbn [fst snd]. rewrite ffl_app, nlc_app. f_equal. f_equal. lia. Qed.

(* the summary of child `tr` (text-less, by line) is that of the text-carrying events `tk` *)
Definition kid_sum (tr : kid) (tk : list event * (N * N)) : Prop :=
  kidL_ok tr /\ fsum (sfm (fsegs (tr_events tr) [] [])) (tr_text tr) 1 = tfl (tal (fst tk)) None.

Lemma fsum_kids trs tks : Forall2 kid_sum trs tks -> forall lo,
  fsum (sfmK trs lo) (concat (map tr_text trs)) (lo + 1) = tfl (flat_map (fun k => tal (fst k)) tks) None.
Proof.
  induction 1 as [|tr tk trs tks [Hk Hsum] _ IH]; intros lo; [reflexivity|].
  cbn [map concat flat_map]. rewrite fsum_app, tfl_app.
  set (F1 := sfm (fsegs (tr_events tr) [] [])) in *. set (T := tr_text tr) in *.
  assert (Hi1 : ffl F1 T 1 = fst (tfl (tal (fst tk)) None)) by (rewrite <- Hsum; reflexivity).
  assert (Ho1 : F1 (1 + nlc T) = snd (tfl (tal (fst tk)) None)) by (rewrite <- Hsum; reflexivity).
  (* the completed lines of this child *)
  assert (P1 : fst (fsum (sfmK (tr :: trs) lo) T (lo + 1)) = ffl F1 T 1).
  { unfold fsum. cbn [fst]. apply ffl_ext. intros k Hk'. cbn [sfmK]. fold F1. fold T.
    replace (lo <? lo + 1 + k) with true by (symmetry; apply N.ltb_lt; lia).
    rewrite (sfmK_low trs (lo + nlc T) (lo + 1 + k)) by lia. rewrite orA_none_r. f_equal. lia. }
  (* what follows: the open line of this child continues *)
  assert (P2 : fsum (sfmK (tr :: trs) lo) (concat (map tr_text trs)) (lo + 1 + nlc T) =
               adj (F1 (1 + nlc T)) (fsum (sfmK trs (lo + nlc T)) (concat (map tr_text trs)) (lo + nlc T + 1))).
  { replace (lo + 1 + nlc T) with (lo + nlc T + 1) by lia. apply fsum_adj.
    - cbn [sfmK]. fold F1. fold T. replace (lo <? lo + nlc T + 1) with true by (symmetry; apply N.ltb_lt; lia).
      f_equal. f_equal. lia.
    - intros L HL. cbn [sfmK]. fold F1. fold T. replace (lo <? L) with true by (symmetry; apply N.ltb_lt; lia).
      unfold F1. rewrite (kid_sfm_high tr (L - lo) Hk) by (fold T; lia). reflexivity. }
  rewrite P1, P2, (IH (lo + nlc T)), <- tfl_adj, Hi1, Ho1. reflexivity.
Qed.

(* from the attribution lists of a child to its summaries *)
Lemma kid_summary (tr : kid) (tev : list event) :
  kidL_ok tr -> Reass tev (tr_text tr) -> NLL tev ->
  attr_of_final_events (tr_events tr) (tr_text tr) false = attr_of_stream tev false ->
  fsum (sfm (fsegs (tr_events tr) [] [])) (tr_text tr) 1 = tfl (tal tev) None.
Proof.
  intros Hk Hr Hn He. rewrite final_lines_summary, (stream_lines_summary tev _ Hr Hn) in He.
  fold (fsegs (tr_events tr) [] []) in He.
  pose proof (tal_text tev _ Hr) as Ht.
  assert (L2 : len (fst (tfl (tal tev) None)) = nlc (tr_text tr)).
  { rewrite (tfl_length _ (tal_tnl tev Hn) None), Ht. reflexivity. }
  destruct (expand_inj (tr_text tr) (ffl (sfm (fsegs (tr_events tr) [] [])) (tr_text tr) 1)
              (fst (tfl (tal tev) None)) (sfm (fsegs (tr_events tr) [] []) (1 + nlc (tr_text tr)))
              (snd (tfl (tal tev) None)) (ffl_length _ _ 1) L2) as [A B]; [|exact He|].
  - intros Ho. rewrite (kid_sfm_open tr Hk Ho). symmetry. apply tfl_open_empty. rewrite Ht. exact Ho.
  - unfold fsum. rewrite A, B. destruct (tfl (tal tev) None); reflexivity.
Qed.

(* ------------------------------------------------------------------ *)
(* L2                                                                  *)
(* ------------------------------------------------------------------ *)
Lemma tnl_flat_map {A} (f : A -> list tattr) (l : list A) : Forall (fun x => tnl (f x)) l -> tnl (flat_map f l).
Proof. induction 1 as [|x l Hx _ IH]; [constructor|]. cbn [flat_map]. apply Forall_app. split; assumption. Qed.

Lemma ttext_flat_map {A} (f : A -> list tattr) (l : list A) :
  ttext (flat_map f l) = concat (map (fun x => ttext (f x)) l).
Proof. induction l as [|x l IH]; [reflexivity|]. cbn [flat_map map concat]. rewrite ttext_app, IH. reflexivity. Qed.

(* the text-carrying composite through the summaries of its children *)
Lemma concat_text_lines (tks : list (list event * (N * N))) (Ts : list text) :
  Forall (fun k => dense (fst k) 0 0 = true) tks ->
  Forall2 (fun k T => Reass (fst k) T /\ NLL (fst k)) tks Ts ->
  attr_of_stream (snd (concat_fold false tks (concat_init, []))) false =
  expand (fst (tfl (flat_map (fun k => tal (fst k)) tks) None))
         (snd (tfl (flat_map (fun k => tal (fst k)) tks) None)) (concat Ts).
Proof.
  intros Hd H2. rewrite attr_of_stream_ta, (concat_fold_ta tks Hd).
  change (flat_map (fun k => ta (rsegs_of_events (fst k) [] [])) tks) with (flat_map (fun k => tal (fst k)) tks).
  rewrite lfc_summary.
  - f_equal. rewrite ttext_flat_map. f_equal. clear Hd.
    induction H2 as [|k T tks Ts [Hr _] _ IH]; [reflexivity|]. cbn [map]. rewrite IH, (tal_text _ _ Hr). reflexivity.
  - apply tnl_flat_map. clear Hd. induction H2 as [|k T tks Ts [_ Hn] _ IH]; constructor; [apply tal_tnl; exact Hn|exact IH].
Qed.

(* the text-less composite through the lookups of its children *)
Lemma concat_final_lines (trs : list kid) : Forall kidL_ok trs ->
  attr_of_final_events (snd (concat_fold true (map fst trs) (concat_init, []))) (concat (map tr_text trs)) false =
  expand (fst (fsum (sfmK trs 0) (concat (map tr_text trs)) 1))
         (snd (fsum (sfmK trs 0) (concat (map tr_text trs)) 1)) (concat (map tr_text trs)).
Proof.
  intros Hk. rewrite final_lines_summary. unfold fsum. cbn [fst snd].
  fold (fsegs (snd (concat_fold true (map fst trs) (concat_init, []))) [] []).
  pose proof (sfm_fold trs concat_init [] eq_refl Hk) as X. cbn [fsegs rsegs_of_events map seg_first_mapped orA c_loff concat_init] in X.
  f_equal; [|apply X]. apply ffl_ext. intros k _. apply X.
Qed.

(* children: `trs` are (text-less events, end info, text), `tks` the text-carrying streams *)
Theorem concat_lines_vs_text (trs : list kid) (tks : list (list event * (N * N))) :
  Forall kidL_ok trs ->
  Forall2 (fun tr tk => dense (fst tk) 0 0 = true /\ Reass (fst tk) (tr_text tr) /\ NLL (fst tk) /\
                        attr_of_final_events (tr_events tr) (tr_text tr) false = attr_of_stream (fst tk) false)
          trs tks ->
  attr_of_final_events (snd (concat_fold true (map fst trs) (concat_init, []))) (concat (map tr_text trs)) false
  = attr_of_stream (snd (concat_fold false tks (concat_init, []))) false.
Proof.
  intros Hk H2.
  assert (Hd : Forall (fun k => dense (fst k) 0 0 = true) tks).
  { clear Hk. induction H2 as [|tr tk trs tks [Hd _] _ IH]; constructor; assumption. }
  assert (Hrn : Forall2 (fun k T => Reass (fst k) T /\ NLL (fst k)) tks (map tr_text trs)).
  { clear Hk Hd. induction H2 as [|tr tk trs tks [_ [Hr [Hn _]]] _ IH]; cbn [map]; constructor; [split; assumption|exact IH]. }
  assert (Hs : Forall2 kid_sum trs tks).
  { clear Hd Hrn. induction H2 as [|tr tk trs tks [_ [Hr [Hn He]]] _ IH]; [constructor|].
    inversion Hk as [|? ? Hk1 Hk2]; subst. constructor; [|apply IH; exact Hk2].
    split; [exact Hk1|apply kid_summary; assumption]. }
  rewrite (concat_final_lines trs Hk), (concat_text_lines tks _ Hd Hrn).
  pose proof (fsum_kids trs tks Hs 0) as X. change (0 + 1) with 1 in X. rewrite X. reflexivity.
Qed.

Corollary concat_lines_vs_text_fl (trs : list kid) (tks : list (list event * (N * N))) :
  Forall kidL_ok trs ->
  Forall2 (fun tr tk => dense (fst tk) 0 0 = true /\ Reass (fst tk) (tr_text tr) /\ NLL (fst tk) /\
                        attr_of_final_events (tr_events tr) (tr_text tr) false = attr_of_stream (fst tk) false)
          trs tks ->
  list_eqb_attr attr_eqb_fl
    (attr_of_final_events (snd (concat_fold true (map fst trs) (concat_init, []))) (concat (map tr_text trs)) false)
    (attr_of_stream (snd (concat_fold false tks (concat_init, []))) false) = true.
Proof. intros H1 H2. apply attr_lists_eqb_fl. apply concat_lines_vs_text; assumption. Qed.

(* ------------------------------------------------------------------ *)
(* the composite is a good child again                                  *)
(* ------------------------------------------------------------------ *)
Lemma fold_cposL : forall (trs : list kid) st out,
  tabs out [] [] = (c_sources st, c_names st) -> Forall kidL_ok trs ->
  Forall (seg_before (cpos st)) (fsegs out [] []) ->
  cpos (fst (concat_fold true (map fst trs) (st, out))) = adv (cpos st) (concat (map tr_text trs)) /\
  Forall (seg_before (cpos (fst (concat_fold true (map fst trs) (st, out)))))
         (fsegs (snd (concat_fold true (map fst trs) (st, out))) [] []).
Proof.
  induction trs as [|tr trs IH]; intros st out Ht HF Hout.
  - cbn [map concat concat_fold fold_left fst snd]. split; [destruct (cpos st); reflexivity|exact Hout].
  - inversion HF as [|? ? Hk HF']; subst. cbn [map concat]. rewrite concat_fold_cons. cbn [fst snd].
    change (fst (fst tr)) with (tr_events tr). change (snd (fst tr)) with (tr_info tr).
    destruct Hk as [Hd [Hi Hs]].
    pose proof (child_decompL st out (tr_events tr) (tr_info tr) (tr_text tr) Ht Hd Hi)
      as [B1 [B2 [_ [cl [Hcl B4]]]]]. cbn zeta in *.
    pose proof (concat_child_cpos true st (tr_events tr) (tr_info tr) (tr_text tr) Hi) as B5.
    destruct (concat_child true st (tr_events tr) (tr_info tr)) as [st' o]. cbn [fst snd] in *.
    assert (Hmono : ple (cpos st) (cpos st')).
    { rewrite B5. unfold adv. apply advance_ple. }
    assert (Hout' : Forall (seg_before (cpos st')) (fsegs (out ++ o) [] [])).
    { rewrite B4. apply Forall_app. split; [|apply Forall_app; split].
      - eapply Forall_impl; [|exact Hout]. cbn beta. intros s Hq Hm. destruct (Hq Hm) as [Q1 Q2].
        split; [exact Q1|eapply plt_ple_trans; eassumption].
      - destruct Hcl as [->| ->]; [constructor|]. constructor; [|constructor]. intros Hm. discriminate.
      - rewrite Forall_map. eapply Forall_impl; [|exact Hs]. cbn beta. intros s Hq Hm.
        unfold shseg in *. cbn [fst snd] in *. destruct (Hq Hm) as [Q1 Q2]. split.
        + unfold shift. cbn [fst]. lia.
        + rewrite B2. apply shift_plt. exact Q2. }
    destruct (IH st' (out ++ o) B1 HF' Hout') as [C1 C2]. split; [|exact C2].
    rewrite C1, B5, adv_app. reflexivity.
Qed.

(* ConcatSources nest *)
Theorem concat_kidL_ok (trs : list kid) : Forall kidL_ok trs ->
  kidL_ok (snd (concat_fold true (map fst trs) (concat_init, [])),
           concat_result (fst (concat_fold true (map fst trs) (concat_init, []))),
           concat (map tr_text trs)).
Proof.
  intros H. unfold kidL_ok, tr_events, tr_info, tr_text. cbn [fst snd].
  pose proof (fold_cposL trs concat_init [] eq_refl H (Forall_nil _)) as [A1 A2].
  split; [|split].
  - apply concat_fold_dense_any. rewrite Forall_map. eapply Forall_impl; [|exact H]. intros tr [Hd _]. exact Hd.
  - exact A1.
  - exact A2.
Qed.

(* ------------------------------------------------------------------ *)
(* the flat_map form of the column mode is false for columns = false    *)
(* ------------------------------------------------------------------ *)
(* Concat [Raw "x"; Original "a"]: the composite's only line is mapped by the second child, so
   the byte of the first child is attributed to it as well - by both streams of the composite -
   while the first child alone leaves its byte unattributed *)
Example concat_lines_not_flat :
  let f := [102] in
  let fev1 : list event := [] in
  let fev2 := [ESource 0 f (Some [97]); EChunk None (mkMapping 1 0 (Some (mkOrig 0 1 0 None)))] in
  let tev1 := [EChunk (Some [120]) (unmapped 1 0)] in
  let tev2 := [ESource 0 f (Some [97]); EChunk (Some [97]) (mkMapping 1 0 (Some (mkOrig 0 1 0 None)))] in
  attr_of_final_events (snd (concat_fold true [(fev1, (1, 1)); (fev2, (1, 1))] (concat_init, []))) [120; 97] false
  = [Some (mkLoc f 1 0 None); Some (mkLoc f 1 0 None)] /\
  attr_of_stream (snd (concat_fold false [(tev1, (1, 1)); (tev2, (1, 1))] (concat_init, []))) false
  = [Some (mkLoc f 1 0 None); Some (mkLoc f 1 0 None)] /\
  attr_of_final_events fev1 [120] false ++ attr_of_final_events fev2 [97] false
  = [None; Some (mkLoc f 1 0 None)].
Proof. vm_compute. repeat split; reflexivity. Qed.

Print Assumptions concat_lines_vs_text.
Print Assumptions concat_kidL_ok.
