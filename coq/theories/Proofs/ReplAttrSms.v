(* ReplaceSource attribution (C06), part 5: the leaf streams carry no empty chunk.
   Needed by the tree-level statement: an empty inner chunk can capture a pending replacement
   (ReplAttrOrigin.replace_attr_origin_empty_chunk_counterexample).
   The hard leaf is the map-driven splitter sm_stream_full: on an ASCII text with a consistent
   map (segments strictly increasing, inside the text) none of its five phases emits an empty chunk. *)
From RS Require Import Base.Prelude Base.Text Rope.RopeModel Codec.Vlq Codec.CodecSpec
  Stream.Types Stream.Leaves Stream.Replace Stream.Tree Sem.Attr Checkers.ChkTree
  Proofs.RopeWf Proofs.StreamText Proofs.StreamLeaves Proofs.StreamMap Proofs.RStreamText Proofs.RStreamPos
  Proofs.AttrCodec Proofs.LawConcatAttr Proofs.ReplAttrRef Proofs.ReplAttrStream.
Require Import Lia List.

Local Open Scope N_scope.

Lemma ne_one (t : text) m : t <> [] -> no_empty_chunks [EChunk (Some t) m] = true.
Proof. intros H. destruct t; [contradiction|reflexivity]. Qed.

Lemma ne_cons (t : text) m evs : t <> [] -> no_empty_chunks evs = true ->
  no_empty_chunks (EChunk (Some t) m :: evs) = true.
Proof.
  intros H1 H2. change (EChunk (Some t) m :: evs) with ([EChunk (Some t) m] ++ evs).
  rewrite no_empty_chunks_app, (ne_one t m H1), H2. reflexivity.
Qed.

Lemma ne_silent evs : chunk_texts evs = [] -> no_empty_chunks evs = true.
Proof. intros H. unfold no_empty_chunks. rewrite H. reflexivity. Qed.

(* ------------------------------------------------------------------ *)
(* raw leaves and OriginalSource                                       *)
(* ------------------------------------------------------------------ *)
Lemma raw_chunks_ne : forall (ls : list text) line, (forall l, In l ls -> l <> []) ->
  no_empty_chunks (raw_chunks ls line) = true.
Proof.
  induction ls as [|l ls IH]; intros line H; [reflexivity|]. cbn [raw_chunks].
  apply ne_cons; [apply H; left; reflexivity|]. apply IH. intros x Hx. apply H. right. exact Hx.
Qed.

Lemma raw_stream_ne t : no_empty_chunks (fst (raw_stream t false)) = true.
Proof. unfold raw_stream. cbn [fst]. apply raw_chunks_ne. apply split_lines_nonempty. Qed.

Lemma original_tokens_ne : forall (toks : list text) line col, (forall l, In l toks -> l <> []) ->
  no_empty_chunks (fst (original_tokens toks false line col)) = true.
Proof.
  induction toks as [|tk toks IH]; intros line col H; [reflexivity|].
  cbn [original_tokens].
  assert (Htk : tk <> []) by (apply H; left; reflexivity).
  assert (Hr : forall l, In l toks -> l <> []) by (intros x Hx; apply H; right; exact Hx).
  destruct (ends_with_nl tk).
  - specialize (IH (line + 1) 0 Hr). destruct (original_tokens toks false (line + 1) 0) as [evs gi].
    cbn [fst] in *. rewrite no_empty_chunks_app, IH, andb_true_r.
    destruct (true && (len tk =? 1)); apply ne_one; exact Htk.
  - specialize (IH line (col + len tk) Hr). destruct (original_tokens toks false line (col + len tk)) as [evs gi].
    cbn [fst andb] in *. rewrite no_empty_chunks_app, IH, andb_true_r. apply ne_one. exact Htk.
Qed.

Lemma original_stream_ne v name : no_empty_chunks (fst (original_stream v name (mkOpts true false))) = true.
Proof.
  unfold original_stream. cbn [columns final_source].
  pose proof (original_tokens_ne (potential_tokens v) 1 0 (potential_tokens_nonempty v)) as H.
  destruct (original_tokens (potential_tokens v) false 1 0) as [evs gi]. cbn [fst] in *. exact H.
Qed.

(* ------------------------------------------------------------------ *)
(* substrings of ASCII lines                                           *)
(* ------------------------------------------------------------------ *)
Lemma sub_part_ne line a b : ascii line = true -> a < b -> a < len line ->
  substring line a (Some b) <> [].
Proof.
  intros Ha Hab Hl. unfold substring.
  replace (b <=? a) with false by (symmetry; apply N.leb_gt; exact Hab).
  rewrite !(co_ascii line _ Ha). intros E.
  assert (K : len (slice (N.min a (len line)) (N.min b (len line)) line)
              = N.min b (len line) - N.min a (len line)) by (apply len_slice; lia).
  rewrite E, len_nil in K. lia.
Qed.

Lemma sub_rest_ne line a : ascii line = true -> a < len line -> substring line a None <> [].
Proof.
  intros Ha Hl. unfold substring.
  replace (len line + 1 <=? a) with false by (symmetry; apply N.leb_gt; lia).
  rewrite !(co_ascii line _ Ha). intros E.
  assert (K : len (slice (N.min a (len line)) (N.min (len line + 1) (len line)) line)
              = N.min (len line + 1) (len line) - N.min a (len line)) by (apply len_slice; lia).
  rewrite E, len_nil in K. lia.
Qed.

(* ------------------------------------------------------------------ *)
(* lines                                                               *)
(* ------------------------------------------------------------------ *)
Lemma lines_shape_not_last : forall ls, lines_shape ls -> forall L line,
  line_at ls L = Some line -> L < len ls -> ends_with_nl line = true.
Proof.
  induction 1 as [|b Hne Hb|b ls Hb Hls IH]; intros L line Hl HL.
  - apply line_at_some in Hl. rewrite slen_nil in Hl. lia.
  - apply line_at_some in Hl. change (len [b]) with 1 in HL. lia.
  - pose proof (line_at_some _ _ _ Hl) as [H1 [H2 Hn]]. rewrite slen_cons in HL.
    destruct (N.eq_dec L 1) as [->|Hne].
    + change (1 - 1) with 0 in Hn. rewrite snth_0 in Hn. inversion Hn.
      rewrite ends_with_nl_snoc. reflexivity.
    + rewrite snth_pos in Hn by lia.
      apply (IH (L - 1) line); [|lia].
      unfold line_at. replace (L - 1 =? 0) with false by (symmetry; apply N.eqb_neq; lia). exact Hn.
Qed.

(* ------------------------------------------------------------------ *)
(* every map: an unmapped chunk with an empty text is not emitted       *)
(* ------------------------------------------------------------------ *)
Lemma ne_opt_one (t : text) m : no_empty_chunks (if is_nil t then [] else [EChunk (Some t) m]) = true.
Proof. destruct t; reflexivity. Qed.

Lemma ph1_ne_any ls st m : no_empty_chunks (snd (ph1 ls st m)) = true.
Proof.
  unfold ph1. destruct (f_active st && (f_line st <=? len ls)); [|reflexivity].
  destruct (line_at ls (f_line st)) as [line|]; [|reflexivity].
  destruct (negb (g_line m =? f_line st)); cbn [snd]; apply ne_opt_one.
Qed.

Lemma ph2_ne_any ls st m : no_empty_chunks (snd (ph2 ls st m)) = true.
Proof.
  unfold ph2. destruct ((f_line st <? g_line m) && (0 <? f_col st)); [|reflexivity].
  cbn [snd]. destruct (f_line st <=? len ls); [|reflexivity].
  destruct (line_at ls (f_line st)) as [line|]; [|reflexivity]. cbv zeta. apply ne_opt_one.
Qed.

Lemma ph4_ne_any ls st m : no_empty_chunks (snd (ph4 ls st m)) = true.
Proof.
  unfold ph4. destruct (f_col st <? g_col m); [|reflexivity].
  cbn [snd]. destruct (f_line st <=? len ls); [|reflexivity].
  destruct (line_at ls (f_line st)) as [line|]; [|reflexivity]. cbv zeta. apply ne_opt_one.
Qed.

Lemma whole_lines_ne_any : forall (suf : list text) i cur target, (forall l, In l suf -> l <> []) ->
  no_empty_chunks (whole_lines suf i cur target) = true.
Proof.
  induction suf as [|l suf IH]; intros i cur target H; [reflexivity|].
  assert (Hr : forall x, In x suf -> x <> []) by (intros x Hx; apply H; right; exact Hx).
  cbn [whole_lines]. destruct ((cur <=? i) && (i <? target)); [|apply IH; exact Hr].
  apply ne_cons; [apply H; left; reflexivity|apply IH; exact Hr].
Qed.

Lemma ph3_ne_any ls st m : (forall l, In l ls -> l <> []) -> no_empty_chunks (snd (ph3 ls st m)) = true.
Proof.
  intros H. unfold ph3. destruct (f_line st <? g_line m); [|reflexivity]. cbn [snd].
  apply whole_lines_ne_any. exact H.
Qed.

Lemma step_ne_any ls fl fc st m : (forall l, In l ls -> l <> []) ->
  no_empty_chunks (snd (sm_full_step ls fl fc st m)) = true.
Proof.
  intros H. rewrite sm_full_step_eq. destruct (step_guard st m); [reflexivity|].
  pose proof (ph1_ne_any ls st m) as N1. destruct (ph1 ls st m) as [st1 ev1].
  pose proof (ph2_ne_any ls st1 m) as N2. destruct (ph2 ls st1 m) as [st2 ev2].
  pose proof (ph3_ne_any ls st2 m H) as N3. destruct (ph3 ls st2 m) as [st3 ev3].
  pose proof (ph4_ne_any ls st3 m) as N4. destruct (ph4 ls st3 m) as [st4 ev4].
  cbn [fst snd] in *. rewrite !no_empty_chunks_app, N1, N2, N3, N4. reflexivity.
Qed.

Lemma loop_ne_any ls fl fc : (forall l, In l ls -> l <> []) -> forall ms st,
  no_empty_chunks (snd (sm_full_loop ls fl fc st ms)) = true.
Proof.
  intros H. induction ms as [|m ms IH]; intros st; [reflexivity|].
  cbn [sm_full_loop]. pose proof (step_ne_any ls fl fc st m H) as N1.
  destruct (sm_full_step ls fl fc st m) as [st1 e1]. specialize (IH st1).
  destruct (sm_full_loop ls fl fc st1 ms) as [st2 e2]. cbn [fst snd] in *.
  rewrite no_empty_chunks_app, N1, IH. reflexivity.
Qed.

(* the stream of the map-driven splitter carries no empty chunk, whatever the map and the text *)
Theorem sm_stream_full_ne_any (t : text) (m : smap) :
  no_empty_chunks (fst (sm_stream_full t m)) = true.
Proof.
  unfold sm_stream_full. destruct (is_nil (split_lines t)); [reflexivity|].
  destruct (lines_end_info (split_lines t)) as [fl fc].
  pose proof (loop_ne_any (split_lines t) fl fc (split_lines_nonempty t)
                (decode_mappings (sm_mappings m)) (mkF 1 0 false None)) as A.
  destruct (sm_full_loop (split_lines t) fl fc (mkF 1 0 false None) (decode_mappings (sm_mappings m))) as [st evs].
  pose proof (step_ne_any (split_lines t) fl fc st (unmapped fl fc) (split_lines_nonempty t)) as B.
  destruct (sm_full_step (split_lines t) fl fc st (unmapped fl fc)) as [st' evs']. cbn [fst snd] in *.
  rewrite !no_empty_chunks_app, A, B, !andb_true_r.
  rewrite (ne_silent (announce_sources m (sm_sources m) 0)), (ne_silent (announce_names (sm_names m) 0)); [reflexivity| |].
  - rewrite chunk_texts_chunks_of, announce_names_chunks. reflexivity.
  - rewrite chunk_texts_chunks_of, announce_sources_chunks. reflexivity.
Qed.

Section Sms.
Variable ls : list text.
Hypothesis Hshape : lines_shape ls.
Hypothesis Hasc : Forall (fun l => ascii l = true) ls.
Hypothesis SOK : Forall starts_ok ls.
Variables fl fc : N.

Lemma line_ascii L line : line_at ls L = Some line -> ascii line = true.
Proof. intros H. rewrite Forall_forall in Hasc. apply Hasc. apply (line_at_in _ _ _ H). Qed.

Lemma line_ne L line : line_at ls L = Some line -> line <> [].
Proof.
  intros H. pose proof (lines_shape_pieces ls Hshape) as Hp. rewrite Forall_forall in Hp.
  apply piece_nonempty. apply Hp. apply (line_at_in _ _ _ H).
Qed.

(* all lines before L end with a line feed *)
Definition nl_before (L : N) : Prop :=
  forall L' line, L' < L -> line_at ls L' = Some line -> ends_with_nl line = true.

Lemma ph1_ne st m : no_empty_chunks (snd (ph1 ls st m)) = true.
Proof.
  unfold ph1. destruct (f_active st && (f_line st <=? len ls)); [|reflexivity].
  destruct (line_at ls (f_line st)) as [line|]; [|reflexivity].
  destruct (negb (g_line m =? f_line st)); cbn [snd].
  - destruct (substring line (f_col st) None) eqn:E; [reflexivity|]. cbn [is_nil]. reflexivity.
  - destruct (substring line (f_col st) (Some (g_col m))) eqn:E; [reflexivity|]. cbn [is_nil]. reflexivity.
Qed.

Lemma ph1_pos st m :
  1 <= f_line st -> ple (fpos st) (mpos m) -> Vb ls (f_line st) (f_col st) -> Vb ls (g_line m) (g_col m) ->
  1 <= f_line (fst (ph1 ls st m)) /\ ple (fpos (fst (ph1 ls st m))) (mpos m) /\
  Vb ls (f_line (fst (ph1 ls st m))) (f_col (fst (ph1 ls st m))).
Proof.
  intros H1 Hle Hv Hvm. unfold ph1.
  destruct (f_active st && (f_line st <=? len ls)); [|cbn [fst]; auto].
  destruct (line_at ls (f_line st)) as [line|]; [|cbn [fst]; auto].
  unfold ple, fpos, mpos in *. cbn [fst snd] in *.
  destruct (g_line m =? f_line st) eqn:E; cbn [negb fst f_line f_col].
  - apply N.eqb_eq in E. split; [exact H1|]. split; [right; split; [lia|lia]|]. rewrite <- E. exact Hvm.
  - apply N.eqb_neq in E. split; [lia|]. split; [lia|]. intros l _. lia.
Qed.

Lemma ph2_ne st m : Vb ls (f_line st) (f_col st) -> nl_before (g_line m) ->
  no_empty_chunks (snd (ph2 ls st m)) = true.
Proof. intros _ _. apply ph2_ne_any. Qed.

Lemma whole_lines_ne : forall (suf : list text) i cur target, (forall l, In l suf -> l <> []) ->
  no_empty_chunks (whole_lines suf i cur target) = true.
Proof.
  induction suf as [|l suf IH]; intros i cur target H; [reflexivity|].
  assert (Hr : forall x, In x suf -> x <> []) by (intros x Hx; apply H; right; exact Hx).
  cbn [whole_lines]. destruct ((cur <=? i) && (i <? target)); [|apply IH; exact Hr].
  apply ne_cons; [apply H; left; reflexivity|apply IH; exact Hr].
Qed.

Lemma ph3_ne st m : no_empty_chunks (snd (ph3 ls st m)) = true.
Proof.
  unfold ph3. destruct (f_line st <? g_line m); [|reflexivity]. cbn [snd].
  apply whole_lines_ne. intros l Hl. pose proof (lines_shape_pieces ls Hshape) as Hp.
  rewrite Forall_forall in Hp. apply piece_nonempty. apply Hp. exact Hl.
Qed.

Lemma ph4_ne st m : f_line st = g_line m -> Vb ls (g_line m) (g_col m) ->
  no_empty_chunks (snd (ph4 ls st m)) = true.
Proof. intros _ _. apply ph4_ne_any. Qed.

Lemma step_ne st m :
  1 <= f_line st -> ple (fpos st) (mpos m) -> Vb ls (f_line st) (f_col st) -> Vb ls (g_line m) (g_col m) ->
  nl_before (g_line m) ->
  no_empty_chunks (snd (sm_full_step ls fl fc st m)) = true.
Proof.
  intros H1 Hle Hv Hvm Hnl.
  rewrite sm_full_step_in_order by (apply step_guard_false; exact Hle). rewrite sm_full_step_body_eq.
  pose proof (ph1_ne st m) as N1. pose proof (ph1_pos st m H1 Hle Hv Hvm) as [A1 [A2 A3]].
  destruct (ph1 ls st m) as [st1 ev1]. cbn [fst snd] in *.
  pose proof (ph2_ne st1 m A3 Hnl) as N2.
  pose proof (ph3_ne (fst (ph2 ls st1 m)) m) as N3.
  assert (N4 : no_empty_chunks (snd (ph4 ls (fst (ph3 ls (fst (ph2 ls st1 m)) m)) m)) = true).
  { apply ph4_ne; [|exact Hvm].
    unfold ple, fpos, mpos in A2. cbn [fst snd] in A2. destruct A2 as [Hlt|[Heq _]].
    - pose proof (ph2_spec ls (Vb ls) SOK st1 m A1 Hlt) as [B1 [B2 [B3 _]]].
      pose proof (ph3_spec ls (Vb ls) (fst (ph2 ls st1 m)) m B1 B2 B3) as [C1 _].
      unfold fpos in C1. inversion C1. reflexivity.
    - assert (E2 : ph2 ls st1 m = (st1, [])).
      { unfold ph2. replace (f_line st1 <? g_line m) with false by (symmetry; apply N.ltb_ge; lia). reflexivity. }
      rewrite E2. cbn [fst].
      assert (E3 : ph3 ls st1 m = (st1, [])).
      { unfold ph3. replace (f_line st1 <? g_line m) with false by (symmetry; apply N.ltb_ge; lia). reflexivity. }
      rewrite E3. cbn [fst]. exact Heq. }
  destruct (ph2 ls st1 m) as [st2 ev2]. cbn [fst snd] in *.
  destruct (ph3 ls st2 m) as [st3 ev3]. cbn [fst snd] in *.
  destruct (ph4 ls st3 m) as [st4 ev4]. cbn [fst snd] in *.
  rewrite !no_empty_chunks_app, N1, N2, N3, N4. reflexivity.
Qed.

Hypothesis Hend : fl <= len ls + 1 /\ (fl = len ls + 1 -> fc = 0).

Definition seg_ok (m : mapping) : Prop := Vb ls (g_line m) (g_col m) /\ nl_before (g_line m).

Lemma loop_ne : forall ms st,
  Inv fl fc st -> Vb ls (f_line st) (f_col st) ->
  sorted_by pos_le ms = true -> Forall seg_ok ms ->
  match ms with m :: _ => ple (fpos st) (mpos m) | [] => True end ->
  no_empty_chunks (snd (sm_full_loop ls fl fc st ms)) = true /\
  Inv fl fc (fst (sm_full_loop ls fl fc st ms)) /\
  Vb ls (f_line (fst (sm_full_loop ls fl fc st ms))) (f_col (fst (sm_full_loop ls fl fc st ms))).
Proof.
  induction ms as [|m ms IH]; intros st HI Hv Hs Hok Hle.
  - cbn [sm_full_loop fst snd]. split; [reflexivity|]. split; assumption.
  - cbn [sm_full_loop]. inversion Hok as [|? ? [Hvm Hnl] Hoks]. subst.
    pose proof (step_ne st m (proj1 HI) Hle Hv Hvm Hnl) as N1.
    pose proof (step_spec ls (Vb ls) SOK fl fc Hend st m HI Hle Hvm) as [A1 [A2 _]].
    destruct (sm_full_step ls fl fc st m) as [st1 e1]. cbn [fst snd] in *.
    assert (Hv1 : Vb ls (f_line st1) (f_col st1)).
    { unfold fpos, mpos in A1. inversion A1 as [[E1 E2]]. rewrite E1, E2. exact Hvm. }
    assert (Hs' : sorted_by pos_le ms = true /\ match ms with m' :: _ => ple (fpos st1) (mpos m') | [] => True end).
    { destruct ms as [|m' ms']; [split; [reflexivity|exact I]|].
      cbn [sorted_by] in Hs. apply andb_true_iff in Hs. destruct Hs as [Hs1 Hs2]. split; [exact Hs2|].
      rewrite A1. unfold pos_le in Hs1. unfold ple, mpos. cbn [fst snd].
      apply orb_true_iff in Hs1. destruct Hs1 as [E|E]; [left; apply N.ltb_lt; exact E|].
      apply andb_true_iff in E. destruct E as [E1 E2]. apply N.eqb_eq in E1. apply N.leb_le in E2.
      right. split; assumption. }
    destruct Hs' as [Hs1 Hs2].
    pose proof (IH st1 A2 Hv1 Hs1 Hoks Hs2) as [B1 [B2 B3]].
    destruct (sm_full_loop ls fl fc st1 ms) as [st2 e2]. cbn [fst snd] in *.
    rewrite no_empty_chunks_app, N1, B1. split; [reflexivity|]. split; assumption.
Qed.
End Sms.

(* positions inside the text *)
Lemma line_contents_len t :
  len (line_contents t) = len (split_lines t) + (if is_nil t || ends_with_nl t then 1 else 0).
Proof.
  unfold line_contents. rewrite slen_app. f_equal.
  - unfold len. rewrite map_length. reflexivity.
  - destruct (is_nil t || ends_with_nl t); reflexivity.
Qed.

Lemma last_line_nl t : ends_with_nl t = true -> forall line,
  line_at (split_lines t) (len (split_lines t)) = Some line -> ends_with_nl line = true.
Proof.
  intros Ht line Hl. pose proof (lines_shape_ends _ (split_lines_shape t)) as H.
  rewrite concat_split_lines, Ht in H.
  destruct (rev_head (split_lines t)) as [x|] eqn:E; [|discriminate].
  apply rev_head_nth in E. apply line_at_some in Hl. destruct Hl as [_ [_ Hl]].
  rewrite E in Hl. inversion Hl. subst. symmetry. exact H.
Qed.

Lemma position_nl_before t L C : t <> [] -> is_position t L C = true -> nl_before (split_lines t) L.
Proof.
  intros Hne H L' line HL Hl. unfold is_position in H.
  destruct (L =? 0) eqn:E0; [discriminate|]. apply N.eqb_neq in E0.
  destruct (nth_opt (line_contents t) (L - 1)) as [x|] eqn:En; [|discriminate].
  apply snth_some_lt in En. rewrite line_contents_len in En.
  pose proof (line_at_some _ _ _ Hl) as [K1 [K2 _]].
  destruct (N.lt_ge_cases L' (len (split_lines t))) as [Lt|Ge].
  - apply (lines_shape_not_last _ (split_lines_shape t) L' line Hl Lt).
  - assert (L' = len (split_lines t)) by lia. subst L'.
    destruct (is_nil t || ends_with_nl t) eqn:Eb; [|lia].
    apply orb_true_iff in Eb. destruct Eb as [Eb|Eb]; [destruct t; [contradiction|discriminate]|].
    apply (last_line_nl t Eb line Hl).
Qed.

Theorem sm_stream_full_ne (t : text) (m : smap) :
  ascii t = true -> map_consistent t m = true ->
  no_empty_chunks (fst (sm_stream_full t m)) = true.
Proof. intros _ _. apply sm_stream_full_ne_any. Qed.

Print Assumptions sm_stream_full_ne.
Print Assumptions sm_stream_full_ne_any.
