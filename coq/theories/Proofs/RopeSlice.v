(* R7: rope_slice agrees with str::get on the flat string, never reaches the
   unchecked access, and returns a well-formed valid rope. *)
From RS Require Import Base.Prelude Base.Text Rope.RopeModel Proofs.RopeBasic Proofs.RopeWf
  Proofs.RopeUtf8 Proofs.RopeOps.

(* ---- validity of piece lists ---- *)
Definition pvalid (ps : list (text * N)) : Prop := forallb valid_utf8 (map fst ps) = true.

Lemma pvalid_app a b : pvalid (a ++ b) <-> pvalid a /\ pvalid b.
Proof. unfold pvalid. rewrite map_app, forallb_app, andb_true_iff. reflexivity. Qed.

Lemma pvalid_cons c s ps : pvalid ((c, s) :: ps) <-> uv c /\ pvalid ps.
Proof. unfold pvalid. cbn [map fst forallb]. rewrite andb_true_iff, valid_uv. reflexivity. Qed.

Lemma pvalid_nil : pvalid [].
Proof. reflexivity. Qed.

Lemma uv_cat ps : pvalid ps -> uv (cat ps).
Proof.
  induction ps as [|[c s] ps IH]; intros H; [constructor|].
  apply pvalid_cons in H. destruct H as [Hc Hps]. rewrite cat_cons.
  apply uv_app; [exact Hc|exact (IH Hps)].
Qed.

Lemma pvalid_with_offsets ts start :
  forallb valid_utf8 ts = true -> pvalid (with_offsets ts start).
Proof. intros H. unfold pvalid. rewrite map_fst_with_offsets. exact H. Qed.

(* ---- str_get ---- *)
Lemma str_get_intro (s : text) (a b : N) :
  a <= b -> b <= len s ->
  str_get s a b = if is_boundary s a && is_boundary s b then Some (slice a b s) else None.
Proof.
  intros Hab Hb. unfold str_get.
  replace (a <=? b) with true by (symmetry; apply N.leb_le; exact Hab).
  replace (b <=? len s) with true by (symmetry; apply N.leb_le; exact Hb).
  cbn [andb]. reflexivity.
Qed.

Lemma str_get_some (s : text) (a b : N) (t : text) :
  str_get s a b = Some t ->
  a <= b /\ b <= len s /\ is_boundary s a = true /\ is_boundary s b = true /\ t = slice a b s.
Proof.
  unfold str_get.
  destruct (a <=? b) eqn:E1; [|discriminate].
  destruct (b <=? len s) eqn:E2; [|discriminate].
  destruct (is_boundary s a) eqn:E3; [|discriminate].
  destruct (is_boundary s b) eqn:E4; [|discriminate].
  cbn [andb]. intros H. injection H as <-.
  apply N.leb_le in E1. apply N.leb_le in E2. auto.
Qed.

Lemma str_get_uv (s : text) (a b : N) (t : text) : uv s -> str_get s a b = Some t -> uv t.
Proof.
  intros Hs H. apply str_get_some in H. destruct H as (H1 & H2 & H3 & H4 & ->).
  apply uv_slice; assumption.
Qed.

Lemma str_get_oob (s : text) (a b : N) : len s < b -> str_get s a b = None.
Proof.
  intros H. unfold str_get.
  replace (b <=? len s) with false by (symmetry; apply N.leb_gt; exact H).
  rewrite andb_false_r. reflexivity.
Qed.

Lemma str_get_rev (s : text) (a b : N) : b < a -> str_get s a b = None.
Proof.
  intros H. unfold str_get.
  replace (a <=? b) with false by (symmetry; apply N.leb_gt; exact H). reflexivity.
Qed.

Lemma is_boundary_piece' (p c q : text) (s x : N) :
  uv c -> uv q -> s = len p -> s <= x -> x <= s + len c ->
  is_boundary (p ++ c ++ q) x = is_boundary c (x - s).
Proof.
  intros Hc Hq -> H1 H2. rewrite <- (is_boundary_piece p c q (x - len p)) by (assumption || lia).
  f_equal. lia.
Qed.

Lemma slice_app_mid' {A} (p c q : list A) (s x y : N) :
  s = len p -> s <= x -> x <= y -> y <= s + len c ->
  slice x y (p ++ c ++ q) = slice (x - s) (y - s) c.
Proof.
  intros -> H1 H2 H3. rewrite <- (slice_app_mid p c q (x - len p) (y - len p)) by lia.
  f_equal; lia.
Qed.

Lemma str_get_piece (p c q : text) (s a b : N) :
  uv c -> uv q -> s = len p -> s <= a -> a <= b -> b <= s + len c ->
  str_get (p ++ c ++ q) a b = str_get c (a - s) (b - s).
Proof.
  intros Hc Hq Hs H1 H2 H3.
  rewrite str_get_intro by (rewrite ?len_app; lia).
  rewrite str_get_intro by lia.
  rewrite (is_boundary_piece' p c q s a) by (assumption || lia).
  rewrite (is_boundary_piece' p c q s b) by (assumption || lia).
  rewrite (slice_app_mid' p c q s a b) by (assumption || lia).
  reflexivity.
Qed.

Lemma str_get_to_end (c : text) (x : N) :
  x <= len c -> str_get c x (len c) = if is_boundary c x then Some (drop x c) else None.
Proof.
  intros H. rewrite str_get_intro by lia. rewrite is_boundary_len, andb_true_r.
  unfold slice. rewrite take_all by (rewrite len_drop; lia). reflexivity.
Qed.

Lemma str_get_from_start (c : text) (y : N) :
  y <= len c -> str_get c 0 y = if is_boundary c y then Some (take y c) else None.
Proof.
  intros H. rewrite str_get_intro by lia. rewrite is_boundary_0. cbn [andb].
  unfold slice. rewrite drop_0, N.sub_0_r. reflexivity.
Qed.

(* ---- the end piece for offset x ---- *)
Lemma locate_end ps start x :
  offsets_ok ps start = true -> ps <> [] -> start <= x -> x <= start + len (cat ps) ->
  exists pre c s post, ps = pre ++ (c, s) :: post /\ (s < x \/ pre = []) /\ x <= s + len c.
Proof.
  intros Hok Hne Hlo Hhi.
  destruct (N.eq_dec x start) as [->|Hx].
  - destruct ps as [|[c s] ps]; [contradiction|].
    destruct (offsets_ok_cons _ _ _ _ Hok) as (-> & _ & _).
    exists [], c, start, ps. split; [reflexivity|]. split; [right; reflexivity|lia].
  - destruct (locate_le ps start x Hok ltac:(lia) Hhi) as (pre & c & s & post & E & H1 & H2).
    exists pre, c, s, post. auto.
Qed.

(* ---- slice_pieces by phases ---- *)
Lemma slice_pieces_skip pre rest i si ei a b acc :
  i + len pre <= si ->
  slice_pieces (pre ++ rest) i si ei a b acc = slice_pieces rest (i + len pre) si ei a b acc.
Proof.
  revert i. induction pre as [|[c s] pre IH]; intros i H.
  - rewrite len_nil, N.add_0_r. reflexivity.
  - rewrite len_cons in H. cbn [app slice_pieces].
    replace (i <? si) with true by (symmetry; apply N.ltb_lt; lia).
    rewrite IH by lia. rewrite len_cons. f_equal. lia.
Qed.

Lemma slice_pieces_mid mid rest i si ei a b acc :
  si < i -> i + len mid <= ei ->
  slice_pieces (mid ++ rest) i si ei a b acc =
  match slice_pieces rest (i + len mid) si ei a b (acc + len (cat mid)) with
  | None => None
  | Some r => Some (with_offsets (map fst mid) acc ++ r)
  end.
Proof.
  revert i acc. induction mid as [|[c s] mid IH]; intros i acc H1 H2.
  - change (len (cat [])) with 0. change (len (@nil (text * N))) with 0.
    rewrite !N.add_0_r. cbn [app map with_offsets].
    destruct (slice_pieces rest i si ei a b acc); reflexivity.
  - rewrite len_cons in H2. cbn [app slice_pieces].
    replace (i <? si) with false by (symmetry; apply N.ltb_ge; lia).
    replace (ei <? i) with false by (symmetry; apply N.ltb_ge; lia).
    replace (i =? si) with false by (symmetry; apply N.eqb_neq; lia).
    replace (i =? ei) with false by (symmetry; apply N.eqb_neq; lia).
    rewrite IH by lia. rewrite len_cons, cat_cons, len_app.
    replace (i + 1 + len mid) with (i + (len mid + 1)) by lia.
    replace (acc + len c + len (cat mid)) with (acc + (len c + len (cat mid))) by lia.
    destruct (slice_pieces rest (i + (len mid + 1)) si ei a b (acc + (len c + len (cat mid))));
      reflexivity.
Qed.

Lemma slice_pieces_after post i si ei a b acc :
  si <= i -> ei < i -> slice_pieces post i si ei a b acc = Some [].
Proof.
  intros H1 H2. destruct post as [|[c s] post]; [reflexivity|].
  cbn [slice_pieces].
  replace (i <? si) with false by (symmetry; apply N.ltb_ge; lia).
  replace (ei <? i) with true by (symmetry; apply N.ltb_lt; lia). reflexivity.
Qed.

Lemma slice_pieces_span preA cA sA mid cB sB postB a b :
  slice_pieces (preA ++ (cA, sA) :: mid ++ (cB, sB) :: postB) 0
    (len preA) (len preA + 1 + len mid) a b 0 =
  match str_get cA (a - sA) (len cA) with
  | None => None
  | Some pA =>
    match str_get cB 0 (b - sB) with
    | None => None
    | Some pB =>
      Some ((pA, 0) :: with_offsets (map fst mid) (len pA) ++ [(pB, len pA + len (cat mid))])
    end
  end.
Proof.
  rewrite slice_pieces_skip by lia. rewrite N.add_0_l.
  cbn [slice_pieces].
  rewrite N.ltb_irrefl.
  replace (len preA + 1 + len mid <? len preA) with false by (symmetry; apply N.ltb_ge; lia).
  rewrite N.eqb_refl.
  destruct (str_get cA (a - sA) (len cA)) as [pA|]; [|reflexivity].
  rewrite slice_pieces_mid by lia.
  cbn [slice_pieces].
  replace (len preA + 1 + len mid <? len preA) with false by (symmetry; apply N.ltb_ge; lia).
  rewrite N.ltb_irrefl.
  replace (len preA + 1 + len mid =? len preA) with false by (symmetry; apply N.eqb_neq; lia).
  rewrite N.eqb_refl.
  destruct (str_get cB 0 (b - sB)) as [pB|]; [|reflexivity].
  rewrite slice_pieces_after by lia.
  rewrite N.add_0_l. reflexivity.
Qed.

(* ---- the Full case ---- *)
Definition slice_spec (s : text) (r : rope) (a b : N) : Prop :=
  match str_get s a b with
  | Some t => exists r', rope_slice r a b = SOk r' /\ flat r' = t /\
                         rope_wf r' = true /\ rope_valid r' = true
  | None => exists w, rope_slice r a b = SErr w
  end.

Lemma rope_slice_full ps a b :
  ps <> [] -> offsets_ok ps 0 = true -> pvalid ps -> a <= b -> b <= len (cat ps) ->
  slice_spec (cat ps) (Full ps) a b.
Proof.
  intros Hne Hok Hv Hab Hb. unfold slice_spec, rope_slice. cbn [rope_len].
  rewrite (full_len_ok ps 0 Hok Hne), N.add_0_l.
  replace (b <? a) with false by (symmetry; apply N.ltb_ge; lia).
  replace (len (cat ps) <? b) with false by (symmetry; apply N.ltb_ge; lia).
  destruct (locate_start ps 0 a Hok Hne ltac:(lia)) as (preA & cA & sA & postA & EA & HA1 & HA2).
  destruct (locate_end ps 0 b Hok Hne ltac:(lia) ltac:(lia))
    as (preB & cB & sB & postB & EB & HB1 & HB2).
  assert (Hsi : start_chunk_index ps a = len preA).
  { rewrite EA. apply (start_chunk_index_locate _ _ _ _ 0); [rewrite <- EA; exact Hok|assumption..]. }
  assert (Hei : end_chunk_index ps b = len preB).
  { rewrite EB. apply (end_chunk_index_locate _ _ _ _ 0); [rewrite <- EB; exact Hok|assumption..]. }
  cbv zeta. rewrite Hsi, Hei. clear Hsi Hei.
  destruct (lt_eq_lt_dec (length preA) (length preB)) as [[Hlt|Heq]|Hgt].
  - (* si < ei : several pieces *)
    rewrite EA in EB.
    destruct (app_cons_split _ _ _ _ _ _ EB Hlt) as (mid & -> & ->). clear EB.
    subst ps.
    destruct (offsets_ok_mid _ _ _ _ _ Hok) as (HsA & HcA & HokA & Hok2).
    destruct (offsets_ok_mid _ _ _ _ _ Hok2) as (HsB & HcB & Hokmid & HokB).
    rewrite N.add_0_l in HsA.
    apply pvalid_app in Hv. destruct Hv as [HvA Hv].
    apply pvalid_cons in Hv. destruct Hv as [HuA Hv].
    apply pvalid_app in Hv. destruct Hv as [Hvmid Hv].
    apply pvalid_cons in Hv. destruct Hv as [HuB HvB].
    assert (HaA : a < sA + len cA) by (destruct HA2 as [H|H]; [exact H|destruct mid; discriminate]).
    assert (HbB : sB < b) by (destruct HB1 as [H|H]; [exact H|destruct preA; discriminate]).
    assert (Elen : len (preA ++ (cA, sA) :: mid) = len preA + 1 + len mid)
      by (rewrite len_app, len_cons; lia).
    rewrite Elen.
    replace (len preA =? len preA + 1 + len mid) with false by (symmetry; apply N.eqb_neq; lia).
    replace (len preA + 1 + len mid <? len preA) with false by (symmetry; apply N.ltb_ge; lia).
    replace (len (preA ++ (cA, sA) :: mid ++ (cB, sB) :: postB) <=? len preA + 1 + len mid)
      with false
      by (symmetry; apply N.leb_gt; rewrite len_app, len_cons, len_app, len_cons; lia).
    rewrite slice_pieces_span.
    rewrite str_get_to_end by lia. rewrite str_get_from_start by lia.
    (* the flat string *)
    set (F := cat (preA ++ (cA, sA) :: mid ++ (cB, sB) :: postB)) in *.
    assert (EF1 : F = cat preA ++ cA ++ cat (mid ++ (cB, sB) :: postB)) by apply cat_mid.
    assert (EF2 : F = cat (preA ++ (cA, sA) :: mid) ++ cB ++ cat postB).
    { unfold F. rewrite (app_assoc preA ((cA, sA) :: mid)) || idtac.
      change (preA ++ (cA, sA) :: mid ++ (cB, sB) :: postB)
        with (preA ++ ((cA, sA) :: mid) ++ (cB, sB) :: postB).
      rewrite app_assoc. apply cat_mid. }
    assert (HsB' : sB = len (cat (preA ++ (cA, sA) :: mid))).
    { rewrite cat_app, cat_cons, !len_app. lia. }
    assert (Hu2 : uv (cat (mid ++ (cB, sB) :: postB))).
    { apply uv_cat. apply pvalid_app. split; [exact Hvmid|]. apply pvalid_cons. auto. }
    assert (BA : is_boundary F a = is_boundary cA (a - sA)).
    { rewrite EF1. apply is_boundary_piece'; try assumption; lia. }
    assert (BB : is_boundary F b = is_boundary cB (b - sB)).
    { rewrite EF2. apply is_boundary_piece'; try assumption; try lia. apply uv_cat; exact HvB. }
    rewrite str_get_intro by lia. rewrite BA, BB.
    destruct (is_boundary cA (a - sA)) eqn:E1; cbn [andb]; [|exists 3; reflexivity].
    destruct (is_boundary cB (b - sB)) eqn:E2; [|exists 3; reflexivity].
    eexists. split; [reflexivity|].
    assert (HuPA : uv (drop (a - sA) cA)) by exact (proj2 (uv_split cA (a - sA) HuA ltac:(lia) E1)).
    assert (HuPB : uv (take (b - sB) cB)) by exact (proj1 (uv_split cB (b - sB) HuB ltac:(lia) E2)).
    assert (HlA : 0 < len (drop (a - sA) cA)) by (rewrite len_drop; lia).
    assert (HlB : 0 < len (take (b - sB) cB)) by (rewrite len_take; lia).
    split; [|split].
    + (* flat *)
      rewrite flat_full. rewrite cat_cons, cat_app. unfold cat at 1. rewrite map_fst_with_offsets.
      cbn [cat map fst concat]. rewrite app_nil_r. fold (cat mid).
      rewrite EF1. unfold slice.
      rewrite drop_app_r by lia. rewrite drop_app_l by lia.
      replace (a - len (cat preA)) with (a - sA) by lia.
      rewrite cat_app, cat_cons.
      rewrite take_app_r by (rewrite len_drop; lia). f_equal.
      rewrite take_app_r by (rewrite len_drop; lia). f_equal.
      rewrite take_app_l by (rewrite len_drop; lia).
      f_equal. rewrite len_drop. lia.
    + (* wf *)
      apply wf_full_intro; [discriminate|].
      apply offsets_ok_cons_intro; [reflexivity|exact HlA|].
      rewrite offsets_ok_app. rewrite N.add_0_l.
      rewrite offsets_ok_with_offsets by exact (offsets_ok_nonnil _ _ Hokmid).
      cbn [andb]. apply offsets_ok_cons_intro; [|exact HlB|reflexivity].
      unfold cat at 2. rewrite map_fst_with_offsets. reflexivity.
    + (* valid *)
      rewrite rope_valid_full. change (pvalid ((drop (a - sA) cA, 0)
        :: with_offsets (map fst mid) (len (drop (a - sA) cA))
           ++ [(take (b - sB) cB, len (drop (a - sA) cA) + len (cat mid))])).
      apply pvalid_cons. split; [exact HuPA|]. apply pvalid_app. split.
      * apply pvalid_with_offsets. exact Hvmid.
      * apply pvalid_cons. split; [exact HuPB|exact pvalid_nil].
  - (* si = ei : one piece *)
    rewrite EA in EB.
    destruct (app_cons_same _ _ _ _ _ _ EB Heq) as (<- & Epc & <-). clear EB.
    injection Epc as <- <-. subst ps.
    destruct (offsets_ok_mid _ _ _ _ _ Hok) as (HsA & HcA & HokA & Hok2).
    rewrite N.add_0_l in HsA.
    apply pvalid_app in Hv. destruct Hv as [HvA Hv].
    apply pvalid_cons in Hv. destruct Hv as [HuA HvP].
    rewrite N.eqb_refl. rewrite nth_opt_len_app.
    rewrite cat_mid.
    rewrite (str_get_piece (cat preA) cA (cat postA) sA a b)
      by (try assumption; try lia; apply uv_cat; exact HvP).
    destruct (str_get cA (a - sA) (b - sA)) as [t|] eqn:Eg; [|exists 3; reflexivity].
    exists (Light t). split; [reflexivity|]. split; [reflexivity|]. split; [reflexivity|].
    rewrite rope_valid_light. apply valid_uv. exact (str_get_uv _ _ _ _ HuA Eg).
  - (* ei < si : the empty slice at a piece start *)
    rewrite EA in EB. symmetry in EB.
    destruct (app_cons_split _ _ _ _ _ _ EB Hgt) as (mid & -> & ->). clear EB.
    subst ps. rewrite <- app_assoc in Hok, Hv. cbn [app] in Hok, Hv.
    destruct (offsets_ok_mid _ _ _ _ _ Hok) as (HsB & HcB & HokB & Hok2).
    destruct (offsets_ok_mid _ _ _ _ _ Hok2) as (HsA & HcA & Hokmid & HokA).
    assert (Elen : len (preB ++ (cB, sB) :: mid) = len preB + 1 + len mid)
      by (rewrite len_app, len_cons; lia).
    rewrite Elen.
    replace (len preB + 1 + len mid =? len preB) with false by (symmetry; apply N.eqb_neq; lia).
    replace (len preB <? len preB + 1 + len mid) with true by (symmetry; apply N.ltb_lt; lia).
    assert (Ea : a = sA) by lia. assert (Eb : b = sA) by lia.
    apply pvalid_app in Hv. destruct Hv as [HvB Hv].
    apply pvalid_cons in Hv. destruct Hv as [HuB Hv].
    apply pvalid_app in Hv. destruct Hv as [Hvmid Hv].
    rewrite str_get_intro by lia.
    assert (BA : is_boundary (cat ((preB ++ (cB, sB) :: mid) ++ (cA, sA) :: postA)) sA = true).
    { rewrite cat_app.
      replace sA with (len (cat (preB ++ (cB, sB) :: mid)))
        by (rewrite cat_app, cat_cons, !len_app; lia).
      apply is_boundary_start. apply uv_cat. exact Hv. }
    subst a b. rewrite BA. cbn [andb].
    exists rope_new. split; [reflexivity|]. split; [|split; reflexivity].
    unfold slice. rewrite N.sub_diag. reflexivity.
Qed.

(* ------------------------------------------------------------------ *)
(* R7                                                                  *)
(* ------------------------------------------------------------------ *)
Theorem rope_slice_flat (r : rope) (a b : N) :
  rope_wf r = true -> rope_valid r = true ->
  match str_get (flat r) a b with
  | Some t => exists r', rope_slice r a b = SOk r' /\ flat r' = t /\
                         rope_wf r' = true /\ rope_valid r' = true
  | None => exists w, rope_slice r a b = SErr w
  end.
Proof.
  intros Hwf Hv.
  destruct (N.lt_ge_cases b a) as [Hba|Hab].
  { rewrite str_get_rev by exact Hba. exists 1. unfold rope_slice.
    replace (b <? a) with true by (symmetry; apply N.ltb_lt; exact Hba). reflexivity. }
  destruct (N.lt_ge_cases (len (flat r)) b) as [Hlb|Hb].
  { rewrite str_get_oob by exact Hlb. exists 2. unfold rope_slice.
    replace (b <? a) with false by (symmetry; apply N.ltb_ge; exact Hab).
    rewrite (rope_len_flat r Hwf).
    replace (len (flat r) <? b) with true by (symmetry; apply N.ltb_lt; exact Hlb). reflexivity. }
  destruct r as [s|ps].
  - cbn [flat] in *. unfold rope_slice. cbn [rope_len].
    replace (b <? a) with false by (symmetry; apply N.ltb_ge; exact Hab).
    replace (len s <? b) with false by (symmetry; apply N.ltb_ge; exact Hb).
    destruct (str_get s a b) as [t|] eqn:Eg; [|exists 3; reflexivity].
    exists (Light t). split; [reflexivity|]. split; [reflexivity|]. split; [reflexivity|].
    rewrite rope_valid_light in *. apply valid_uv. apply valid_uv in Hv.
    exact (str_get_uv _ _ _ _ Hv Eg).
  - destruct (wf_full ps Hwf) as [Hne Hok]. rewrite flat_full in *.
    exact (rope_slice_full ps a b Hne Hok Hv Hab Hb).
Qed.

Print Assumptions rope_slice_flat.
