(* B2, B3, B4: `outer_chunk` of stream_chunks_of_combined_source_map (Stream/Combined.v).
   B2: when no source of the outer map is the inner source, the combined stream resolves
       to exactly the segments of the plain SourceMapSource stream (indices differ, strings
       do not).
   B3: with an empty inner line table a chunk of the inner source falls back to the inner
       source itself at the outer original position (or to unmapped when remove = true).
   B4: a chunk resolved through an inner row is attributed to the row's file and line, and a
       column between the row's column and that column advanced by the offset in the row. *)
From RS Require Import Base.Prelude Base.Text Rope.RopeModel Codec.Vlq Codec.CodecSpec
  Stream.Types Stream.Leaves Stream.Combined Sem.Attr Checkers.ChkTree
  Proofs.StreamText Proofs.StreamMap Proofs.HashEqBasic Proofs.WfStream Proofs.AttrCodec
  Proofs.AttrSms Proofs.PanicDecoder Proofs.CombSearch.
Require Import Lia List ZArith FinFun.

Local Open Scope N_scope.

(* ------------------------------------------------------------------ *)
(* outer_chunk, one definition per branch                              *)
(* ------------------------------------------------------------------ *)
Definition m_src (m : mapping) : Z := match m_orig m with Some o => Z.of_N (o_src o) | None => (-1)%Z end.
Definition m_oline (m : mapping) : Z := match m_orig m with Some o => Z.of_N (o_line o) | None => (-1)%Z end.
Definition m_ocol (m : mapping) : Z := match m_orig m with Some o => Z.of_N (o_col o) | None => (-1)%Z end.
Definition m_name (m : mapping) : Z := match m_orig m with Some o => zopt (o_name o) | None => (-1)%Z end.

Definition pass_name (st : bstate) (name_index : Z) : bstate * Z * list event :=
  let fni0 := if (0 <=? name_index)%Z
              then match lm_get (b_name_idx st) (Z.to_N name_index) with Some v => v | None => (-1)%Z end
              else (-1)%Z in
  if (fni0 =? -2)%Z then outer_name st name_index else (st, fni0, []).

Definition pass_chunk (st : bstate) (chunk : option text) (m : mapping) : bstate * list event :=
  let fsi := if (m_src m <? 0)%Z then (-1)%Z
             else match lm_get (b_src_idx st) (Z.to_N (m_src m)) with Some v => v | None => (-1)%Z end in
  if (fsi <? 0)%Z then (st, [EChunk chunk (unmapped (g_line m) (g_col m))])
  else
    let '(st1, fni, evn) := pass_name st (m_name m) in
    (st1, evn ++ [mk_chunk chunk m fsi (m_oline m) (m_ocol m) fni]).

Definition resolve (st : bstate) (m : mapping) : option (Z * Z * Z * Z * Z * text) :=
  match find_inner st (m_oline m) (m_ocol m) with
  | Some ((igc, isrc, iline, icol, iname), inner_chunk) =>
    if (0 <=? isrc)%Z then Some (igc, isrc, iline, icol, iname, inner_chunk) else None
  | None => None
  end.

Definition adv_col (st : bstate) (m : mapping) (igc isrc iline icol iname : Z) (inner_chunk : text) : Z * Z :=
  let loc := (m_ocol m - igc)%Z in
  if (0 <? loc)%Z then
    match content_lines st isrc with
    | Some ls =>
      match line_of ls iline with
      | Some l =>
        let oc := substring l (Z.to_N icol) (Some (Z.to_N (icol + loc))) in
        if opt_eqb text_eqb (str_get inner_chunk 0 (len oc)) (Some oc)
        then ((icol + loc)%Z, (-1)%Z) else (icol, iname)
      | None => (icol, iname)
      end
    | None => (icol, iname)
    end
  else (icol, iname).

Definition inner_src (st : bstate) (isrc : Z) : bstate * Z * list event :=
  let si0 := match lm_get (b_in_src_idx st) (Z.to_N isrc) with Some v => v | None => (-2)%Z end in
  if (si0 =? -2)%Z then
    let '(source, content) :=
      match lm_get (b_in_src_val st) (Z.to_N isrc) with Some v => v | None => ([], None) end in
    let '(tbl, g, fresh) := intern (b_sources st) source in
    (upd_in_src_idx (upd_sources st tbl) (lm_insert 0%Z (b_in_src_idx st) (Z.to_N isrc) (Z.of_N g)),
     Z.of_N g, if fresh then [ESource g source content] else [])
  else (st, si0, []).

Definition inner_nm (st1 : bstate) (m : mapping) (isrc iline icol1 iname1 : Z) : bstate * Z * list event :=
  if (0 <=? iname1)%Z then
    let f0 := match lm_get (b_in_name_idx st1) (Z.to_N iname1) with Some v => v | None => (-2)%Z end in
    if (f0 =? -2)%Z then
      match lm_get (b_in_name_val st1) (Z.to_N iname1) with
      | Some name =>
        let '(tbl, g, fresh) := intern (b_names st1) name in
        (upd_in_name_idx (upd_names st1 tbl) (lm_insert 0%Z (b_in_name_idx st1) (Z.to_N iname1) (Z.of_N g)),
         Z.of_N g, if fresh then [EName g name] else [])
      | None =>
        (upd_in_name_idx st1 (lm_insert 0%Z (b_in_name_idx st1) (Z.to_N iname1) (-1)%Z), (-1)%Z, [])
      end
    else (st1, f0, [])
  else if (0 <=? m_name m)%Z then
    match content_lines st1 isrc, lm_get (b_name_val st1) (Z.to_N (m_name m)) with
    | Some ls, Some name =>
      let original_name :=
        match line_of ls iline with
        | Some l => substring l (Z.to_N icol1) (Some (Z.to_N icol1 + len name))
        | None => []
        end in
      if text_eqb name original_name then outer_name st1 (m_name m) else (st1, (-1)%Z, [])
    | _, _ => (st1, (-1)%Z, [])
    end
  else (st1, (-1)%Z, []).

Definition resolved_chunk (st : bstate) (chunk : option text) (m : mapping) (r : Z * Z * Z * Z * Z * text)
  : bstate * list event :=
  let '(igc, isrc, iline, icol, iname, inner_chunk) := r in
  let '(icol1, iname1) := adv_col st m igc isrc iline icol iname inner_chunk in
  let '(st1, si, evs) := inner_src st isrc in
  let '(st2, fni, evn) := inner_nm st1 m isrc iline icol1 iname1 in
  (st2, evs ++ evn ++ [mk_chunk chunk m si iline icol1 fni]).

Definition fallback_chunk (inner_name : text) (st : bstate) (chunk : option text) (m : mapping) : bstate * list event :=
  match lm_get (b_src_idx st) (Z.to_N (m_src m)) with
  | Some (-2)%Z =>
    let '(tbl, g, fresh) := intern (b_sources st) inner_name in
    let st1 := upd_src_idx (upd_sources st tbl)
                 (lm_insert 0%Z (b_src_idx st) (Z.to_N (m_src m)) (Z.of_N g)) in
    let '(st2, evs) := pass_chunk st1 chunk m in
    (st2, (if fresh then [ESource g inner_name (b_inner_source st)] else []) ++ evs)
  | _ => pass_chunk st chunk m
  end.

Lemma outer_chunk_eq inner_name remove st chunk m :
  outer_chunk inner_name remove st chunk m =
  if (m_src m =? b_inner_index st)%Z then
    match resolve st m with
    | Some r => resolved_chunk st chunk m r
    | None =>
      if remove then (st, [EChunk chunk (unmapped (g_line m) (g_col m))])
      else fallback_chunk inner_name st chunk m
    end
  else pass_chunk st chunk m.
Proof. reflexivity. Qed.

(* ------------------------------------------------------------------ *)
(* small facts                                                         *)
(* ------------------------------------------------------------------ *)
Lemma wrap32z_small n : n < two32 -> wrap32z (Z.of_N n) = n.
Proof. intros H. unfold wrap32z. unfold two32 in H. rewrite Z.mod_small by lia. lia. Qed.

Lemma lm_insert_at_len {A} (d : A) tbl x : lm_insert d tbl (len tbl) x = tbl ++ [x].
Proof. unfold lm_insert, len. rewrite Nat2N.id. apply lm_set_len. Qed.

Lemma find_text_sound tbl t : forall i g, find_text tbl t i = Some g -> nth_opt tbl (g - i) = Some t.
Proof.
  induction tbl as [|x tbl IH]; intros i g H; cbn [find_text] in H; [discriminate|].
  destruct (text_eqb x t) eqn:E.
  - inversion H. subst g. apply text_eqb_eq in E. subst x. rewrite N.sub_diag. reflexivity.
  - pose proof (find_text_bound _ _ _ _ H) as [B1 B2]. apply IH in H.
    replace (g - i) with ((g - (i + 1)) + 1) by lia. rewrite nth_opt_cons_succ. exact H.
Qed.

Lemma find_text_sound0 tbl t g : find_text tbl t 0 = Some g -> nth_opt tbl g = Some t /\ g < len tbl.
Proof.
  intros H. pose proof (find_text_bound _ _ _ _ H) as [_ B]. apply find_text_sound in H.
  rewrite N.sub_0_r in H. split; [exact H|lia].
Qed.

Lemma nth_opt_app_last {A} (l : list A) x : nth_opt (l ++ [x]) (len l) = Some x.
Proof. unfold nth_opt, len. rewrite Nat2N.id, nth_error_app2, Nat.sub_diag by lia. reflexivity. Qed.

Lemma nth_opt_app_some {A} (a b : list A) i x : nth_opt a i = Some x -> nth_opt (a ++ b) i = Some x.
Proof. intros H. rewrite snth_app_l; [exact H|]. apply (cs_nth_opt_lt _ _ _ H). Qed.

Lemma chunk_texts_rsegs : forall evs S Nn, chunk_texts evs = map fst (rsegs_of_events evs S Nn).
Proof.
  induction evs as [|e evs IH]; intros S Nn; [reflexivity|].
  destruct e as [t m|i n c|i n]; cbn [chunk_texts rsegs_of_events map fst]; [f_equal| |]; apply IH.
Qed.

(* a duplicate-free list of numbers below n has at most n elements *)
Lemma nodup_bounded (l : list N) (n : N) : NoDup l -> (forall x, In x l -> x < n) -> len l <= n.
Proof.
  intros Hn Hb.
  assert (H1 : NoDup (map N.to_nat l)).
  { apply Injective_map_NoDup; [|exact Hn]. intros a b. apply N2Nat.inj. }
  assert (H2 : incl (map N.to_nat l) (seq 0 (N.to_nat n))).
  { intros k Hk. apply in_map_iff in Hk. destruct Hk as [x [E Hx]]. subst k. apply in_seq.
    specialize (Hb x Hx). lia. }
  pose proof (NoDup_incl_length H1 H2) as H3. rewrite map_length, seq_length in H3. unfold len. lia.
Qed.

(* ------------------------------------------------------------------ *)
(* the decoder's original fields are u32                               *)
(* ------------------------------------------------------------------ *)
Definition orig_u32 (mo : option orig) : Prop :=
  match mo with
  | Some o => o_src o < two32 /\ o_line o < two32 /\ o_col o < two32 /\
              match o_name o with Some n => n < two32 | None => True end
  | None => True
  end.

Lemma emit_u32 d pos mp : flds d -> emit d pos = Some mp -> orig_u32 (m_orig mp).
Proof.
  intros (H0 & H1 & H2 & H3 & H4). unfold emit.
  destruct (pos =? 1); [intros E; inversion E; exact I|].
  destruct (pos =? 4); [intros E; inversion E; cbn; tauto|].
  destruct (pos =? 5); [intros E; inversion E; cbn; tauto|discriminate].
Qed.

Lemma dec_byte_flds d c : flds d -> flds (fst (dec_byte d c)).
Proof.
  intros Hf. unfold dec_byte. cbv zeta. generalize (b64_val c) as v. intros v.
  destruct (v =? ERR); [exact Hf|].
  destruct (negb (N.land v COM =? 0)).
  { destruct Hf as (H0 & H1 & H2 & H3 & H4).
    destruct (v =? SEM); unfold flds; cbn [fst d0 d1 d2 d3 d4]; repeat split; try assumption;
      try (unfold two32; lia). }
  destruct (N.land v 32 =? 0); cbn [fst].
  - match goal with |- context [if d_pos d <? 5 then ?a else d] =>
      assert (Hf' : flds (if d_pos d <? 5 then a else d)) end.
    { destruct (d_pos d <? 5); [|exact Hf]. apply dec_set_flds; [exact Hf|apply wrap32z_lt]. }
    destruct Hf' as (H0 & H1 & H2 & H3 & H4). unfold flds. cbn [d0 d1 d2 d3 d4]. tauto.
  - destruct Hf as (H0 & H1 & H2 & H3 & H4). unfold flds. cbn [d0 d1 d2 d3 d4]. tauto.
Qed.

Lemma dec_byte_out_u32 d c mp : flds d -> snd (dec_byte d c) = Some mp -> orig_u32 (m_orig mp).
Proof.
  intros Hf. unfold dec_byte. cbv zeta. generalize (b64_val c) as v. intros v.
  destruct (v =? ERR); [discriminate|].
  destruct (negb (N.land v COM =? 0)); cbn [snd].
  - apply emit_u32. exact Hf.
  - destruct (N.land v 32 =? 0); discriminate.
Qed.

Lemma dec_run_u32 : forall s d, flds d -> Forall (fun mp => orig_u32 (m_orig mp)) (dec_run d s).
Proof.
  induction s as [|c s IH]; intros d Hf; cbn [dec_run].
  - destruct (emit d (d_pos d)) as [mp|] eqn:E; [|constructor].
    constructor; [|constructor]. apply (emit_u32 d (d_pos d)); assumption.
  - pose proof (dec_byte_flds d c Hf) as H1. pose proof (dec_byte_out_u32 d c) as H2.
    destruct (dec_byte d c) as [d' out]. cbn [fst snd] in *.
    destruct out as [mp|]; [constructor; [apply (H2 mp Hf eq_refl)|]|]; apply IH; exact H1.
Qed.

Lemma decode_mappings_u32 s : Forall (fun mp => orig_u32 (m_orig mp)) (decode_mappings s).
Proof.
  apply dec_run_u32. unfold flds, dec_init, two32. cbn [d0 d1 d2 d3 d4]. repeat split; lia.
Qed.

(* ------------------------------------------------------------------ *)
(* the shape of a source-map driven stream, with a predicate on origins *)
(* ------------------------------------------------------------------ *)
Definition chunkP (R : option orig -> Prop) (e : event) : Prop :=
  match e with EChunk _ m => R (m_orig m) | _ => False end.

Section Shape.
Variables P Q : option orig -> Prop.
Hypothesis PN : P None.
Hypothesis QN : Q None.
Hypothesis PQ : forall o, P (Some o) -> Q (Some (strip_name o)).

Lemma g_final_loop rl rc ms : Forall (fun mp => P (m_orig mp)) ms ->
  forall active, Forall (chunkP P) (sm_final_loop ms rl rc active).
Proof.
  induction 1 as [|m ms Hm _ IH]; intros active; [constructor|]. cbn [sm_final_loop].
  destruct ((rl <=? g_line m) && ((rc <=? g_col m) || (rl <? g_line m))); [apply IH|].
  destruct (m_orig m) as [o|] eqn:E.
  - constructor; [|apply IH]. cbn [chunkP]. rewrite E. exact Hm.
  - destruct (active =? g_line m); [constructor; [exact PN|]|]; apply IH.
Qed.

Lemma g_whole_lines (R : option orig -> Prop) ls : R None -> forall i cur target, Forall (chunkP R) (whole_lines ls i cur target).
Proof.
  intros RN. induction ls as [|l ls IH]; intros i cur target; cbn [whole_lines]; [constructor|].
  destruct ((cur <=? i) && (i <? target)); [constructor; [exact RN|]|]; apply IH.
Qed.

Lemma g_full_step ls fl fc st m : P (f_orig st) -> P (m_orig m) ->
  P (f_orig (fst (sm_full_step ls fl fc st m))) /\ Forall (chunkP P) (snd (sm_full_step ls fl fc st m)).
Proof.
  intros Hst Hm. rewrite sm_full_step_eq.
  destruct (step_guard st m); [split; [exact Hst|constructor]|].
  assert (P1 : P (f_orig (fst (ph1 ls st m))) /\ Forall (chunkP P) (snd (ph1 ls st m))).
  { unfold ph1. destruct (f_active st && (f_line st <=? len ls)); [|split; [exact Hst|constructor]].
    destruct (line_at ls (f_line st)) as [line|]; [|split; [exact Hst|constructor]].
    destruct (negb (g_line m =? f_line st)); cbn [fst snd f_orig]; (split; [exact Hst|]);
      match goal with |- context [is_nil ?x] => destruct (is_nil x) end;
      repeat constructor; exact Hst. }
  destruct (ph1 ls st m) as [st1 ev1]. cbn [fst snd] in P1. destruct P1 as [H1 E1].
  assert (P2 : P (f_orig (fst (ph2 ls st1 m))) /\ Forall (chunkP P) (snd (ph2 ls st1 m))).
  { unfold ph2. destruct ((f_line st1 <? g_line m) && (0 <? f_col st1)); [|split; [exact H1|constructor]].
    cbn [fst snd f_orig]. split; [exact H1|]. destruct (f_line st1 <=? len ls); [|constructor].
    destruct (line_at ls (f_line st1)); [|constructor]. cbv zeta.
    match goal with |- context [is_nil ?x] => destruct (is_nil x) end; [constructor|].
    repeat constructor. exact PN. }
  destruct (ph2 ls st1 m) as [st2 ev2]. cbn [fst snd] in P2. destruct P2 as [H2 E2].
  assert (P3 : P (f_orig (fst (ph3 ls st2 m))) /\ Forall (chunkP P) (snd (ph3 ls st2 m))).
  { unfold ph3. destruct (f_line st2 <? g_line m); [|split; [exact H2|constructor]].
    cbn [fst snd f_orig]. split; [exact H2|apply g_whole_lines; exact PN]. }
  destruct (ph3 ls st2 m) as [st3 ev3]. cbn [fst snd] in P3. destruct P3 as [H3 E3].
  assert (P4 : P (f_orig (fst (ph4 ls st3 m))) /\ Forall (chunkP P) (snd (ph4 ls st3 m))).
  { unfold ph4. destruct (f_col st3 <? g_col m); [|split; [exact H3|constructor]].
    cbn [fst snd f_orig]. split; [exact H3|]. destruct (f_line st3 <=? len ls); [|constructor].
    destruct (line_at ls (f_line st3)); [|constructor]. cbv zeta.
    match goal with |- context [is_nil ?x] => destruct (is_nil x) end; [constructor|].
    repeat constructor. exact PN. }
  destruct (ph4 ls st3 m) as [st4 ev4]. cbn [fst snd] in P4. destruct P4 as [H4 E4].
  cbn [fst snd]. split.
  - unfold ph5. destruct (m_orig m) as [o|]; [|exact H4].
    destruct ((g_line m <? fl) || ((g_line m =? fl) && (g_col m <? fc))); [exact Hm|exact H4].
  - repeat (apply Forall_app; split); assumption.
Qed.

Lemma g_full_loop ls fl fc ms : Forall (fun mp => P (m_orig mp)) ms -> forall st,
  P (f_orig st) ->
  P (f_orig (fst (sm_full_loop ls fl fc st ms))) /\ Forall (chunkP P) (snd (sm_full_loop ls fl fc st ms)).
Proof.
  induction 1 as [|m ms Hm _ IH]; intros st Hst; [split; [exact Hst|constructor]|].
  cbn [sm_full_loop]. pose proof (g_full_step ls fl fc st m Hst Hm) as [A B].
  destruct (sm_full_step ls fl fc st m) as [st1 e1]. cbn [fst snd] in A, B.
  pose proof (IH st1 A) as [C D]. destruct (sm_full_loop ls fl fc st1 ms) as [st2 e2].
  cbn [fst snd] in *. split; [exact C|apply Forall_app; split; assumption].
Qed.

Lemma g_lines_final_loop fin ms : Forall (fun mp => P (m_orig mp)) ms ->
  forall cur, Forall (chunkP Q) (sm_lines_final_loop ms cur fin).
Proof.
  induction 1 as [|m ms Hm _ IH]; intros cur; [constructor|]. cbn [sm_lines_final_loop].
  destruct (m_orig m) as [o|]; [|apply IH].
  destruct ((cur <=? g_line m) && (g_line m <=? fin)); [|apply IH].
  constructor; [|apply IH]. cbn [chunkP m_orig]. apply PQ. exact Hm.
Qed.

Lemma g_lines_full_loop ls ms : Forall (fun mp => P (m_orig mp)) ms ->
  forall cur, Forall (chunkP Q) (snd (sm_lines_full_loop ls ms cur)).
Proof.
  induction 1 as [|m ms Hm _ IH]; intros cur; [constructor|]. cbn [sm_lines_full_loop].
  destruct (m_orig m) as [o|]; [|apply IH].
  destruct ((g_line m <? cur) || (len ls <? g_line m)); [apply IH|].
  specialize (IH (g_line m + 1)). destruct (sm_lines_full_loop ls ms (g_line m + 1)) as [cur' evs].
  cbn [snd] in *. apply Forall_app. split; [apply g_whole_lines; exact QN|]. apply Forall_app. split; [|exact IH].
  destruct (line_at ls (g_line m)); constructor; [|constructor].
  cbn [chunkP m_orig]. apply PQ. exact Hm.
Qed.

(* announcements of all sources, then (columns only) of all names, then chunks *)
Theorem sm_stream_shape (t : text) (m : smap) (o : opts) :
  Forall (fun mp => P (m_orig mp)) (decode_mappings (sm_mappings m)) ->
  fst (sm_stream t m o) = [] \/
  exists chunks,
    fst (sm_stream t m o) =
      announce_sources m (sm_sources m) 0 ++
      announce_names (if columns o then sm_names m else []) 0 ++ chunks /\
    Forall (chunkP (if columns o then P else Q)) chunks.
Proof.
  intros Hs. unfold sm_stream. destruct (columns o), (final_source o).
  - unfold sm_stream_final. destruct (gen_info t) as [rl rc].
    destruct ((rl =? 1) && (rc =? 0)); cbn [fst]; [left; reflexivity|right].
    eexists. split; [reflexivity|]. apply g_final_loop. exact Hs.
  - unfold sm_stream_full. destruct (is_nil (split_lines t)); [left; reflexivity|right].
    destruct (lines_end_info (split_lines t)) as [fl fc].
    pose proof (g_full_loop (split_lines t) fl fc _ Hs (mkF 1 0 false None) PN) as [A B].
    destruct (sm_full_loop (split_lines t) fl fc (mkF 1 0 false None) (decode_mappings (sm_mappings m)))
      as [st evs]. cbn [fst snd] in A, B.
    pose proof (g_full_step (split_lines t) fl fc st (unmapped fl fc) A PN) as [_ D].
    destruct (sm_full_step (split_lines t) fl fc st (unmapped fl fc)) as [st' evs']. cbn [fst snd] in *.
    eexists. split; [reflexivity|]. apply Forall_app. split; assumption.
  - unfold sm_stream_lines_final. destruct (gen_info t) as [rl rc].
    destruct ((rl =? 1) && (rc =? 0)); cbn [fst]; [left; reflexivity|right].
    eexists. split; [reflexivity|]. apply g_lines_final_loop. exact Hs.
  - unfold sm_stream_lines_full. destruct (is_nil (split_lines t)); [left; reflexivity|right].
    pose proof (g_lines_full_loop (split_lines t) _ Hs 1) as A.
    destruct (sm_lines_full_loop (split_lines t) (decode_mappings (sm_mappings m)) 1) as [cur evs].
    cbn [fst snd] in *. eexists. split; [reflexivity|].
    apply Forall_app. split; [exact A|apply g_whole_lines; exact QN].
Qed.

End Shape.

(* ------------------------------------------------------------------ *)
(* outer_events over an append                                         *)
(* ------------------------------------------------------------------ *)
Lemma outer_events_app f nm rm a : forall st b,
  outer_events f nm rm st (a ++ b) =
  (fst (outer_events f nm rm (fst (outer_events f nm rm st a)) b),
   snd (outer_events f nm rm st a) ++ snd (outer_events f nm rm (fst (outer_events f nm rm st a)) b)).
Proof.
  induction a as [|e a IH]; intros st b.
  - cbn [app outer_events fst snd]. destruct (outer_events f nm rm st b); reflexivity.
  - cbn [app outer_events]. destruct (outer_event f nm rm st e) as [st1 o1]. rewrite IH.
    destruct (outer_events f nm rm st1 a) as [st2 o2]. cbn [fst snd].
    destruct (outer_events f nm rm st2 b) as [st3 o3]. cbn [fst snd]. rewrite app_assoc. reflexivity.
Qed.

Ltac bsimp :=
  cbn [fst snd b_sources b_names b_src_idx b_name_idx b_name_val b_inner_index b_inner_source
       b_in_src_idx b_in_src_val b_in_contents b_in_name_idx b_in_name_val b_lines
       upd_sources upd_names upd_src_idx upd_name_idx upd_name_val upd_inner upd_in_src_idx upd_in_name_idx].
Ltac bsimp_in H :=
  cbn [fst snd b_sources b_names b_src_idx b_name_idx b_name_val b_inner_index b_inner_source
       b_in_src_idx b_in_src_val b_in_contents b_in_name_idx b_in_name_val b_lines
       upd_sources upd_names upd_src_idx upd_name_idx upd_name_val upd_inner upd_in_src_idx upd_in_name_idx] in H.

Lemma nth_opt_nil {A} (i : N) : nth_opt (@nil A) i = None.
Proof. unfold nth_opt. destruct (N.to_nat i); reflexivity. Qed.

(* ------------------------------------------------------------------ *)
(* B2, phase 1: the outer map announces its sources                    *)
(* ------------------------------------------------------------------ *)
(* every announced outer source j has a global index g <= j carrying the same string *)
Definition src_inv (st : bstate) (pre : list text) : Prop :=
  len (b_sources st) <= len pre /\
  forall j s, nth_opt pre j = Some s ->
    exists g, lm_get (b_src_idx st) j = Some (Z.of_N g) /\ nth_opt (b_sources st) g = Some s /\ g <= j.

Definition names_same (st st' : bstate) : Prop :=
  b_names st' = b_names st /\ b_name_idx st' = b_name_idx st /\ b_name_val st' = b_name_val st /\
  b_inner_index st' = b_inner_index st.

Definition srcs_same (st st' : bstate) : Prop :=
  b_sources st' = b_sources st /\ b_src_idx st' = b_src_idx st /\ b_inner_index st' = b_inner_index st.

Lemma source_step f name rm st pre i source content :
  src_inv st pre -> i = len pre -> text_eqb source name = false ->
  src_inv (fst (outer_event f name rm st (ESource i source content))) (pre ++ [source]) /\
  names_same st (fst (outer_event f name rm st (ESource i source content))) /\
  forall rest N0,
    rsegs_of_events (snd (outer_event f name rm st (ESource i source content)) ++ rest) (b_sources st) N0 =
    rsegs_of_events rest (b_sources (fst (outer_event f name rm st (ESource i source content)))) N0.
Proof.
  intros [Hlen Hinv] Hi Hne. cbn [outer_event]. rewrite Hne. unfold intern.
  assert (Hcases : forall j s, nth_opt (pre ++ [source]) j = Some s ->
            (j < len pre /\ nth_opt pre j = Some s) \/ (j = len pre /\ s = source)).
  { intros j s H. pose proof (cs_nth_opt_lt _ _ _ H) as Hj. rewrite slen_app in Hj.
    change (len [source]) with 1 in Hj. destruct (N.eq_dec j (len pre)) as [->|Hn].
    - right. rewrite nth_opt_app_last in H. inversion H. split; reflexivity.
    - left. assert (j < len pre) by lia. split; [assumption|]. rewrite snth_app_l in H; assumption. }
  destruct (find_text (b_sources st) source 0) as [g|] eqn:E; unfold src_inv, names_same; bsimp.
  - apply find_text_sound0 in E. destruct E as [E1 E2]. split; [|split].
    + split; [rewrite slen_app; lia|]. intros j s H. destruct (Hcases j s H) as [[Hj Hs]|[-> ->]].
      * destruct (Hinv j s Hs) as [g' [A [B C]]]. exists g'. split; [|split; assumption].
        apply lm_get_insert_other; [lia|exact A].
      * exists g. rewrite Hi. split; [apply lm_get_insert_same|]. split; [exact E1|lia].
    + repeat split.
    + intros rest N0. reflexivity.
  - split; [|split].
    + split; [rewrite !slen_app; change (len [source]) with 1; lia|].
      intros j s H. destruct (Hcases j s H) as [[Hj Hs]|[-> ->]].
      * destruct (Hinv j s Hs) as [g' [A [B C]]]. exists g'. split; [|split].
        -- apply lm_get_insert_other; [lia|exact A].
        -- apply nth_opt_app_some. exact B.
        -- exact C.
      * exists (len (b_sources st)). rewrite Hi. split; [apply lm_get_insert_same|].
        split; [apply nth_opt_app_last|lia].
    + repeat split.
    + intros rest N0. cbn [app rsegs_of_events]. rewrite lm_insert_at_len. reflexivity.
Qed.

Lemma names_same_refl st : names_same st st.
Proof. repeat split. Qed.
Lemma names_same_trans a b c : names_same a b -> names_same b c -> names_same a c.
Proof. intros (A1 & A2 & A3 & A4) (B1 & B2 & B3 & B4). repeat split; congruence. Qed.
Lemma srcs_same_refl st : srcs_same st st.
Proof. repeat split. Qed.
Lemma srcs_same_trans a b c : srcs_same a b -> srcs_same b c -> srcs_same a c.
Proof. intros (A1 & A2 & A3) (B1 & B2 & B3). repeat split; congruence. Qed.

Lemma sources_phase f name rm m srcs : forall st pre i,
  src_inv st pre -> i = len pre ->
  forallb (fun s => negb (text_eqb (get_source m s) name)) srcs = true ->
  src_inv (fst (outer_events f name rm st (announce_sources m srcs i))) (pre ++ map (get_source m) srcs) /\
  names_same st (fst (outer_events f name rm st (announce_sources m srcs i))) /\
  forall rest N0,
    rsegs_of_events (snd (outer_events f name rm st (announce_sources m srcs i)) ++ rest) (b_sources st) N0 =
    rsegs_of_events rest (b_sources (fst (outer_events f name rm st (announce_sources m srcs i)))) N0.
Proof.
  induction srcs as [|s srcs IH]; intros st pre i Hinv Hi Hall.
  - cbn [announce_sources outer_events fst snd map]. rewrite app_nil_r. split; [exact Hinv|].
    split; [apply names_same_refl|]. intros; reflexivity.
  - cbn [forallb] in Hall. apply andb_true_iff in Hall. destruct Hall as [H1 H2].
    apply negb_true_iff in H1. cbn [announce_sources outer_events map].
    pose proof (source_step f name rm st pre i (get_source m s) (nth_opt (sm_contents m) i) Hinv Hi H1)
      as [A [B C]].
    destruct (outer_event f name rm st (ESource i (get_source m s) (nth_opt (sm_contents m) i))) as [st1 o1].
    cbn [fst snd] in A, B, C.
    assert (Hi1 : i + 1 = len (pre ++ [get_source m s])) by (rewrite slen_app; change (len [get_source m s]) with 1; lia).
    pose proof (IH st1 _ (i + 1) A Hi1 H2) as [D [E F]].
    destruct (outer_events f name rm st1 (announce_sources m srcs (i + 1))) as [st2 o2].
    cbn [fst snd] in *. rewrite <- app_assoc in D. cbn [app] in D. split; [exact D|].
    split; [eapply names_same_trans; eassumption|].
    intros rest N0. rewrite <- app_assoc, C, F. reflexivity.
Qed.

(* ------------------------------------------------------------------ *)
(* B2, phase 2: the outer map announces its names (nothing is emitted) *)
(* ------------------------------------------------------------------ *)
(* every announced outer name is recorded; it is pending (-2) or translated to a global index
   carrying the same string; `used` lists, per global index, the outer index that created it *)
Definition name_inv (st : bstate) (pre : list text) : Prop :=
  (exists used, len used = len (b_names st) /\
     forall p j, nth_opt used p = Some j -> j < two32 /\ lm_get (b_name_idx st) j = Some (Z.of_N p)) /\
  forall j s, nth_opt pre j = Some s ->
    lm_get (b_name_val st) j = Some s /\
    (lm_get (b_name_idx st) j = Some (-2)%Z \/
     exists g, lm_get (b_name_idx st) j = Some (Z.of_N g) /\ nth_opt (b_names st) g = Some s).

Lemma name_inv_bound st Nn : name_inv st Nn -> len (b_names st) <= two32.
Proof.
  intros [[used [Hl Hu]] _]. rewrite <- Hl. apply nodup_bounded.
  - apply NoDup_nth_error. intros i j Hi E.
    destruct (nth_error used i) as [x|] eqn:Ex; [|apply nth_error_None in Ex; lia].
    symmetry in E.
    pose proof (Hu (N.of_nat i) x) as A. unfold nth_opt in A. rewrite Nat2N.id in A. destruct (A Ex) as [_ A1].
    pose proof (Hu (N.of_nat j) x) as B. unfold nth_opt in B. rewrite Nat2N.id in B. destruct (B E) as [_ B1].
    rewrite A1 in B1. inversion B1. lia.
  - intros x Hx. apply In_nth_error in Hx. destruct Hx as [k Hk].
    pose proof (Hu (N.of_nat k) x) as A. unfold nth_opt in A. rewrite Nat2N.id in A. destruct (A Hk) as [A1 _].
    exact A1.
Qed.

Lemma name_step f name rm st pre i n :
  b_names st = [] -> name_inv st pre -> i = len pre ->
  snd (outer_event f name rm st (EName i n)) = [] /\
  b_names (fst (outer_event f name rm st (EName i n))) = [] /\
  name_inv (fst (outer_event f name rm st (EName i n))) (pre ++ [n]) /\
  srcs_same st (fst (outer_event f name rm st (EName i n))).
Proof.
  intros Hb [_ Hinv] Hi. cbn [outer_event]. unfold name_inv, srcs_same. bsimp. split; [reflexivity|]. split; [exact Hb|].
  split; [|repeat split]. split.
  - exists []. rewrite Hb. split; [reflexivity|]. intros p j H. rewrite nth_opt_nil in H. discriminate.
  - intros j s H. pose proof (cs_nth_opt_lt _ _ _ H) as Hj. rewrite slen_app in Hj.
    change (len [n]) with 1 in Hj. destruct (N.eq_dec j (len pre)) as [->|Hn].
    + rewrite nth_opt_app_last in H. inversion H. subst s. rewrite Hi.
      split; [apply lm_get_insert_same|]. left. apply lm_get_insert_same.
    + assert (Hlt : j < len pre) by lia. rewrite snth_app_l in H by assumption.
      destruct (Hinv j s H) as [A B]. split; [apply lm_get_insert_other; [lia|exact A]|].
      destruct B as [B|[g [B1 B2]]].
      * left. apply lm_get_insert_other; [lia|exact B].
      * right. exists g. split; [apply lm_get_insert_other; [lia|exact B1]|exact B2].
Qed.

Lemma names_phase f name rm ns : forall st pre i,
  b_names st = [] -> name_inv st pre -> i = len pre ->
  snd (outer_events f name rm st (announce_names ns i)) = [] /\
  b_names (fst (outer_events f name rm st (announce_names ns i))) = [] /\
  name_inv (fst (outer_events f name rm st (announce_names ns i))) (pre ++ ns) /\
  srcs_same st (fst (outer_events f name rm st (announce_names ns i))).
Proof.
  induction ns as [|n ns IH]; intros st pre i Hb Hinv Hi.
  - cbn [announce_names outer_events fst snd]. rewrite app_nil_r.
    split; [reflexivity|]. split; [exact Hb|]. split; [exact Hinv|apply srcs_same_refl].
  - cbn [announce_names outer_events].
    pose proof (name_step f name rm st pre i n Hb Hinv Hi) as [A [B [C D]]].
    destruct (outer_event f name rm st (EName i n)) as [st1 o1]. cbn [fst snd] in A, B, C, D.
    assert (Hi1 : i + 1 = len (pre ++ [n])) by (rewrite slen_app; change (len [n]) with 1; lia).
    pose proof (IH st1 _ (i + 1) B C Hi1) as [E [F [G H]]].
    destruct (outer_events f name rm st1 (announce_names ns (i + 1))) as [st2 o2]. cbn [fst snd] in *.
    subst o1 o2. split; [reflexivity|]. split; [exact F|]. rewrite <- app_assoc in G. cbn [app] in G.
    split; [exact G|]. eapply srcs_same_trans; eassumption.
Qed.

(* ------------------------------------------------------------------ *)
(* B2, phase 3: chunks pass through                                    *)
(* ------------------------------------------------------------------ *)
Lemma pass_name_none st : pass_name st (-1)%Z = (st, (-1)%Z, []).
Proof. reflexivity. Qed.

Lemma src_inv_same st st' S : srcs_same st st' -> src_inv st S -> src_inv st' S.
Proof. intros (A & B & _) H. unfold src_inv. rewrite A, B. exact H. Qed.

(* a pending or translated outer name: the global index of its string *)
Lemma pass_name_some st Nn nm s : name_inv st Nn -> nth_opt Nn nm = Some s -> nm < two32 ->
  exists st' g evn, pass_name st (Z.of_N nm) = (st', Z.of_N g, evn) /\ g < two32 /\
    nth_opt (b_names st') g = Some s /\ name_inv st' Nn /\ srcs_same st st' /\
    forall rest S0, rsegs_of_events (evn ++ rest) S0 (b_names st) = rsegs_of_events rest S0 (b_names st').
Proof.
  intros Hinv Hs Hlt. pose proof (name_inv_bound st Nn Hinv) as Hbound.
  destruct Hinv as [[used [Hul Hu]] Hn].
  destruct (Hn nm s Hs) as [Hv [Hi|[g [Hi Hg]]]].
  - unfold pass_name. assert (H0 : (0 <=? Z.of_N nm)%Z = true) by (apply Z.leb_le; lia).
    rewrite H0, N2Z.id, Hi, Z.eqb_refl. unfold outer_name. rewrite N2Z.id, Hi, Z.eqb_refl, Hv.
    assert (Hused : forall p j, nth_opt used p = Some j -> j <> nm).
    { intros p j H E. subst j. destruct (Hu p nm H) as [_ A]. rewrite Hi in A. inversion A. lia. }
    unfold intern. destruct (find_text (b_names st) s 0) as [g|] eqn:E.
    + apply find_text_sound0 in E. destruct E as [E1 E2].
      eexists _, g, []. split; [reflexivity|]. unfold name_inv, srcs_same. bsimp.
      split; [lia|]. split; [exact E1|]. split; [|split; [repeat split|intros; reflexivity]].
      split.
      * exists used. split; [exact Hul|]. intros p j H. destruct (Hu p j H) as [A B].
        split; [exact A|]. apply lm_get_insert_other; [apply (Hused p j H)|exact B].
      * intros j s' H. destruct (Hn j s' H) as [A B]. split; [exact A|].
        destruct (N.eq_dec j nm) as [->|Hne].
        -- right. exists g. split; [apply lm_get_insert_same|]. rewrite Hs in H. inversion H. subst s'. exact E1.
        -- destruct B as [B|[g' [B1 B2]]].
           ++ left. apply lm_get_insert_other; assumption.
           ++ right. exists g'. split; [apply lm_get_insert_other; assumption|exact B2].
    + assert (Hinv' : name_inv (upd_name_idx (upd_names st (b_names st ++ [s]))
                         (lm_insert 0%Z (b_name_idx st) nm (Z.of_N (len (b_names st))))) Nn).
      { unfold name_inv. bsimp. split.
        - exists (used ++ [nm]). split; [rewrite !slen_app; change (len [nm]) with 1; change (len [s]) with 1; lia|].
          intros p j H. pose proof (cs_nth_opt_lt _ _ _ H) as Hp. rewrite slen_app in Hp.
          change (len [nm]) with 1 in Hp. destruct (N.eq_dec p (len used)) as [->|Hne].
          + rewrite nth_opt_app_last in H. inversion H. subst j. split; [exact Hlt|].
            rewrite Hul. apply lm_get_insert_same.
          + assert (Hp' : p < len used) by lia. rewrite snth_app_l in H by assumption.
            destruct (Hu p j H) as [A B]. split; [exact A|].
            apply lm_get_insert_other; [apply (Hused p j H)|exact B].
        - intros j s' H. destruct (Hn j s' H) as [A B]. split; [exact A|].
          destruct (N.eq_dec j nm) as [->|Hne].
          + right. exists (len (b_names st)). split; [apply lm_get_insert_same|].
            rewrite Hs in H. inversion H. subst s'. apply nth_opt_app_last.
          + destruct B as [B|[g' [B1 B2]]].
            * left. apply lm_get_insert_other; assumption.
            * right. exists g'. split; [apply lm_get_insert_other; assumption|apply nth_opt_app_some; exact B2]. }
      pose proof (name_inv_bound _ _ Hinv') as Hb'. bsimp_in Hb'. rewrite slen_app in Hb'.
      change (len [s]) with 1 in Hb'.
      eexists _, (len (b_names st)), _. split; [reflexivity|]. split; [lia|].
      split; [bsimp; apply nth_opt_app_last|]. split; [exact Hinv'|]. split; [repeat split|].
      intros rest S0. bsimp. cbn [app rsegs_of_events]. rewrite lm_insert_at_len. reflexivity.
  - unfold pass_name. assert (H0 : (0 <=? Z.of_N nm)%Z = true) by (apply Z.leb_le; lia).
    rewrite H0, N2Z.id, Hi. assert (H1 : (Z.of_N g =? -2)%Z = false) by (apply Z.eqb_neq; lia).
    rewrite H1. exists st, g, []. split; [reflexivity|].
    pose proof (cs_nth_opt_lt _ _ _ Hg). split; [lia|]. split; [exact Hg|].
    split; [split; [exists used; split; assumption|exact Hn]|]. split; [apply srcs_same_refl|].
    intros; reflexivity.
Qed.

Lemma pass_chunk_unmapped st t mp : m_orig mp = None ->
  pass_chunk st t mp = (st, [EChunk t (unmapped (g_line mp) (g_col mp))]).
Proof. intros E. unfold pass_chunk, m_src. rewrite E. reflexivity. Qed.

Lemma pass_chunk_mapped st t mp o g : m_orig mp = Some o ->
  lm_get (b_src_idx st) (o_src o) = Some (Z.of_N g) ->
  pass_chunk st t mp =
  let '(st1, fni, evn) := pass_name st (zopt (o_name o)) in
  (st1, evn ++ [mk_chunk t mp (Z.of_N g) (Z.of_N (o_line o)) (Z.of_N (o_col o)) fni]).
Proof.
  intros E H. unfold pass_chunk, m_src, m_name, m_oline, m_ocol. rewrite E.
  assert (H0 : (Z.of_N (o_src o) <? 0)%Z = false) by (apply Z.ltb_ge; lia).
  assert (H1 : (Z.of_N g <? 0)%Z = false) by (apply Z.ltb_ge; lia).
  rewrite H0, N2Z.id, H, H1. reflexivity.
Qed.

Definition orig_fit (ns nn : N) (mo : option orig) : Prop := orig_ok ns nn mo /\ orig_u32 mo.

(* no inner source has been announced; all outer sources and names are *)
Definition pass_inv (st : bstate) (S Nn : list text) : Prop :=
  b_inner_index st = (-2)%Z /\ src_inv st S /\ name_inv st Nn.

Lemma chunk_step f name rm st S Nn t mp :
  pass_inv st S Nn -> orig_fit (len S) (len Nn) (m_orig mp) ->
  pass_inv (fst (outer_event f name rm st (EChunk t mp))) S Nn /\
  forall rest,
    rsegs_of_events (snd (outer_event f name rm st (EChunk t mp)) ++ rest) (b_sources st) (b_names st) =
    rsegs_of_events [EChunk t mp] S Nn ++
    rsegs_of_events rest (b_sources (fst (outer_event f name rm st (EChunk t mp))))
                         (b_names (fst (outer_event f name rm st (EChunk t mp)))).
Proof.
  intros (Hidx & Hsrc & Hnm) [Hok Hu]. cbn [outer_event]. rewrite outer_chunk_eq, Hidx.
  destruct (m_orig mp) as [o|] eqn:Eo.
  - assert (H0 : (m_src mp =? -2)%Z = false) by (unfold m_src; rewrite Eo; apply Z.eqb_neq; lia).
    rewrite H0. cbn [orig_ok] in Hok. destruct Hok as [Hs Hn]. cbn [orig_u32] in Hu.
    destruct Hu as (U1 & U2 & U3 & U4).
    destruct (cs_nth_opt_some S (o_src o) Hs) as [file Hfile].
    destruct Hsrc as [Hlen Hsi]. destruct (Hsi _ _ Hfile) as [g [G1 [G2 G3]]].
    rewrite (pass_chunk_mapped st t mp o g Eo G1).
    assert (Hg0 : (0 <=? Z.of_N g)%Z = true) by (apply Z.leb_le; lia).
    assert (Hg32 : g < two32) by lia.
    destruct (o_name o) as [nm|] eqn:En.
    + cbn [zopt]. destruct (cs_nth_opt_some Nn nm Hn) as [nstr Hnstr].
      destruct (pass_name_some st Nn nm nstr Hnm Hnstr U4) as (st' & gn & evn & P1 & P2 & P3 & P4 & P5 & P6).
      rewrite P1. cbn [fst snd]. split.
      * split; [destruct P5 as (_ & _ & Q); rewrite Q; exact Hidx|].
        split; [apply (src_inv_same st st' S P5); split; assumption|exact P4].
      * intros rest. rewrite <- app_assoc, P6. cbn [app rsegs_of_events]. rewrite Eo, En.
        unfold mk_chunk. rewrite Hg0.
        assert (Hgn0 : (0 <=? Z.of_N gn)%Z = true) by (apply Z.leb_le; lia). rewrite Hgn0.
        rewrite !wrap32z_small by assumption. cbn [g_line g_col m_orig o_src o_line o_col o_name].
        destruct P5 as (Q1 & _ & _). rewrite Q1, G2, P3, Hfile, Hnstr. reflexivity.
    + cbn [zopt]. rewrite pass_name_none. cbn [fst snd]. split.
      * split; [exact Hidx|]. split; [split; assumption|exact Hnm].
      * intros rest. cbn [app rsegs_of_events]. rewrite Eo, En. unfold mk_chunk. rewrite Hg0.
        change ((0 <=? -1)%Z) with false. cbn iota.
        rewrite !wrap32z_small by assumption. cbn [g_line g_col m_orig o_src o_line o_col o_name].
        rewrite G2, Hfile. reflexivity.
  - assert (H0 : (m_src mp =? -2)%Z = false) by (unfold m_src; rewrite Eo; reflexivity).
    rewrite H0, (pass_chunk_unmapped st t mp Eo). cbn [fst snd]. split.
    + split; [exact Hidx|]. split; assumption.
    + intros rest. cbn [app rsegs_of_events unmapped g_line g_col m_orig]. rewrite Eo. reflexivity.
Qed.

Lemma chunks_phase f name rm S Nn chunks : forall st,
  pass_inv st S Nn -> Forall (chunkP (orig_fit (len S) (len Nn))) chunks ->
  rsegs_of_events (snd (outer_events f name rm st chunks)) (b_sources st) (b_names st) =
  rsegs_of_events chunks S Nn.
Proof.
  induction chunks as [|e chunks IH]; intros st Hinv Hall; [reflexivity|].
  inversion Hall as [|e' l' He Hrest]. subst e' l'.
  destruct e as [t mp|i n c|i n]; cbn [chunkP] in He; try contradiction.
  cbn [outer_events]. pose proof (chunk_step f name rm st S Nn t mp Hinv He) as [A B].
  destruct (outer_event f name rm st (EChunk t mp)) as [st1 o1]. cbn [fst snd] in A, B.
  specialize (IH st1 A Hrest). destruct (outer_events f name rm st1 chunks) as [st2 o2].
  cbn [fst snd] in *. rewrite B, IH. reflexivity.
Qed.

(* ------------------------------------------------------------------ *)
(* B2                                                                  *)
(* ------------------------------------------------------------------ *)
Definition no_inner_source (m : smap) (name : text) : bool :=
  forallb (fun s => negb (text_eqb (get_source m s) name)) (sm_sources m).

Lemma b_init_src_inv orig : src_inv (b_init orig) [].
Proof.
  split; [cbn; lia|]. intros j s H. rewrite nth_opt_nil in H. discriminate.
Qed.

Lemma name_inv_nil st : b_names st = [] -> name_inv st [].
Proof.
  intros Hb. split.
  - exists []. rewrite Hb. split; [reflexivity|]. intros p j H. rewrite nth_opt_nil in H. discriminate.
  - intros j s H. rewrite nth_opt_nil in H. discriminate.
Qed.

Lemma slen_map {A B} (g : A -> B) l : len (map g l) = len l.
Proof. unfold len. rewrite map_length. reflexivity. Qed.

(* the resolved segments (chunk text, generated position, file string, original position,
   name string) of the combined stream are those of the plain stream *)
Theorem combined_pass_rsegs (v : text) (m : smap) (name : text) (orig : option text) (im : smap)
        (remove : bool) (o : opts) :
  map_consistent v m = true -> no_inner_source m name = true ->
  rsegs_of_events (fst (combined_stream v m name orig im remove o)) [] [] =
  rsegs_of_events (fst (sm_stream v m o)) [] [].
Proof.
  intros Hc Hno. unfold combined_stream.
  set (f := fun c => fst (sm_stream c im (mkOpts (columns o) false))).
  set (ns := len (sm_sources m)). set (nn := len (sm_names m)).
  assert (Hsegs : Forall (fun mp => orig_fit ns nn (m_orig mp)) (decode_mappings (sm_mappings m))).
  { apply Forall_and; [apply (map_consistent_segs v m Hc)|apply decode_mappings_u32]. }
  pose proof (sm_stream_shape (orig_fit ns nn) (orig_fit ns 0) (conj I I) (conj I I)) as Hshape.
  assert (PQ : forall o0, orig_fit ns nn (Some o0) -> orig_fit ns 0 (Some (strip_name o0))).
  { intros o0 [[A _] (B1 & B2 & B3 & _)]. split; cbn; tauto. }
  specialize (Hshape PQ v m o Hsegs).
  destruct (sm_stream v m o) as [oevs gi]. cbn [fst] in Hshape.
  destruct Hshape as [->|[chunks [-> Hch]]].
  { cbn [outer_events fst]. reflexivity. }
  set (S := map (get_source m) (sm_sources m)).
  set (Nn := if columns o then sm_names m else []) in *.
  assert (Hch' : Forall (chunkP (orig_fit (len S) (len Nn))) chunks).
  { unfold S, Nn. rewrite slen_map. fold ns. destruct (columns o); exact Hch. }
  rewrite !outer_events_app.
  pose proof (sources_phase f name remove m (sm_sources m) (b_init orig) [] 0 (b_init_src_inv orig) eq_refl Hno)
    as [A1 [A2 A3]].
  destruct (outer_events f name remove (b_init orig) (announce_sources m (sm_sources m) 0)) as [stA oA].
  cbn [fst snd app] in A1, A2, A3 |- *. fold S in A1.
  destruct A2 as (A21 & A22 & A23 & A24).
  pose proof (names_phase f name remove Nn stA [] 0 A21 (name_inv_nil stA A21) eq_refl) as [B1 [B2 [B3 B4]]].
  destruct (outer_events f name remove stA (announce_names Nn 0)) as [stN oN].
  cbn [fst snd app] in B1, B2, B3, B4 |- *. subst oN. cbn [app].
  assert (Hinv : pass_inv stN S Nn).
  { split; [destruct B4 as (_ & _ & Q); rewrite Q, A24; reflexivity|].
    split; [apply (src_inv_same stA stN S B4 A1)|exact B3]. }
  pose proof (chunks_phase f name remove S Nn chunks stN Hinv Hch') as C.
  destruct (outer_events f name remove stN chunks) as [stC oC]. cbn [fst snd] in C |- *.
  change (@nil text) with (b_sources (b_init orig)) at 1. rewrite A3.
  destruct B4 as (B41 & _ & _). rewrite B41, B2 in C. rewrite C.
  rewrite (rsegs_announce_sources m (sm_sources m) [] []). cbn [app].
  rewrite (rsegs_announce_names Nn [] _ chunks). cbn [app]. reflexivity.
Qed.

(* B2: same chunk texts, same attribution of every byte (text-carrying options), same segment
   list (text-less options), same end info *)
Theorem combined_pass_attr v m name orig im remove o cols :
  map_consistent v m = true -> no_inner_source m name = true ->
  attr_of_stream (fst (combined_stream v m name orig im remove o)) cols =
  attr_of_stream (fst (sm_stream v m o)) cols.
Proof.
  intros Hc Hno. unfold attr_of_stream. rewrite (combined_pass_rsegs v m name orig im remove o Hc Hno).
  reflexivity.
Qed.

Theorem combined_pass_final_attr v m name orig im remove o t cols :
  map_consistent v m = true -> no_inner_source m name = true ->
  attr_of_final_events (fst (combined_stream v m name orig im remove o)) t cols =
  attr_of_final_events (fst (sm_stream v m o)) t cols.
Proof.
  intros Hc Hno. unfold attr_of_final_events.
  rewrite (combined_pass_rsegs v m name orig im remove o Hc Hno). reflexivity.
Qed.

Theorem combined_pass_texts v m name orig im remove o :
  map_consistent v m = true -> no_inner_source m name = true ->
  chunk_texts (fst (combined_stream v m name orig im remove o)) = chunk_texts (fst (sm_stream v m o)).
Proof.
  intros Hc Hno. rewrite (chunk_texts_rsegs _ [] []), (chunk_texts_rsegs (fst (sm_stream v m o)) [] []).
  rewrite (combined_pass_rsegs v m name orig im remove o Hc Hno). reflexivity.
Qed.

(* the generated positions of the chunks, too *)
Theorem combined_pass_positions v m name orig im remove o :
  map_consistent v m = true -> no_inner_source m name = true ->
  map (fun mp => (g_line mp, g_col mp)) (chunk_mappings (fst (combined_stream v m name orig im remove o))) =
  map (fun mp => (g_line mp, g_col mp)) (chunk_mappings (fst (sm_stream v m o))).
Proof.
  intros Hc Hno.
  assert (H : forall evs S Nn, map (fun mp => (g_line mp, g_col mp)) (chunk_mappings evs) =
                               map (fun r => (fst (fst (snd r)), snd (fst (snd r)))) (rsegs_of_events evs S Nn)).
  { induction evs as [|e evs IH]; intros S Nn; [reflexivity|].
    destruct e as [t mp|i n c|i n]; cbn [chunk_mappings rsegs_of_events map fst snd]; [f_equal| |]; apply IH. }
  rewrite (H _ [] []), (H (fst (sm_stream v m o)) [] []).
  rewrite (combined_pass_rsegs v m name orig im remove o Hc Hno). reflexivity.
Qed.

(* holds without any hypothesis *)
Theorem combined_end_info v m name orig im remove o :
  snd (combined_stream v m name orig im remove o) = snd (sm_stream v m o).
Proof.
  unfold combined_stream. destruct (sm_stream v m o) as [oevs gi].
  destruct (outer_events _ name remove (b_init orig) oevs) as [st evs]. reflexivity.
Qed.

(* ------------------------------------------------------------------ *)
(* B3: fallback when the inner line table is empty                     *)
(* ------------------------------------------------------------------ *)
(* the F10b path: the outer map announces the inner source, nothing to stream *)
Lemma announce_inner_no_content f name rm st i source :
  text_eqb source name = true -> b_inner_source st = None ->
  outer_event f name rm st (ESource i source None) =
  (upd_src_idx (upd_inner st (Z.of_N i) None) (lm_insert 0%Z (b_src_idx st) i (-2)%Z), []).
Proof. intros H1 H2. cbn [outer_event]. rewrite H1, H2. reflexivity. Qed.

Lemma announce_inner_no_content_state f name rm st i source :
  text_eqb source name = true -> b_inner_source st = None ->
  let st1 := fst (outer_event f name rm st (ESource i source None)) in
  b_lines st1 = b_lines st /\ b_inner_index st1 = Z.of_N i /\ lm_get (b_src_idx st1) i = Some (-2)%Z /\
  b_inner_source st1 = None.
Proof.
  intros H1 H2. rewrite (announce_inner_no_content f name rm st i source H1 H2). bsimp.
  repeat split. apply lm_get_insert_same.
Qed.

Lemma find_inner_empty st line column : b_lines st = [] -> find_inner st line column = None.
Proof.
  intros H. unfold find_inner. destruct (line <? 1)%Z; [reflexivity|]. rewrite H, nth_opt_nil. reflexivity.
Qed.

Lemma resolve_empty st mp : b_lines st = [] -> resolve st mp = None.
Proof. intros H. unfold resolve. rewrite (find_inner_empty st _ _ H). reflexivity. Qed.

Lemma fallback_chunk_other name st t mp z : lm_get (b_src_idx st) (Z.to_N (m_src mp)) = Some z ->
  z <> (-2)%Z -> fallback_chunk name st t mp = pass_chunk st t mp.
Proof.
  intros H Hz. unfold fallback_chunk. rewrite H.
  destruct z as [|p|p]; try reflexivity.
  destruct p as [p|p|]; try reflexivity. destruct p as [p|p|]; try reflexivity. contradiction.
Qed.

(* pass_name touches the name tables only *)
Definition name_frame (st st' : bstate) : Prop :=
  b_sources st' = b_sources st /\ b_src_idx st' = b_src_idx st /\ b_inner_index st' = b_inner_index st /\
  b_inner_source st' = b_inner_source st /\ b_lines st' = b_lines st /\
  b_in_src_idx st' = b_in_src_idx st /\ b_in_src_val st' = b_in_src_val st /\
  b_in_contents st' = b_in_contents st /\ b_in_name_idx st' = b_in_name_idx st /\
  b_in_name_val st' = b_in_name_val st /\ b_name_val st' = b_name_val st.

Lemma name_frame_refl st : name_frame st st.
Proof. repeat split. Qed.

Lemma outer_name_frame st ni : name_frame st (fst (fst (outer_name st ni))).
Proof.
  unfold outer_name.
  destruct (match lm_get (b_name_idx st) (Z.to_N ni) with Some v => v | None => (-2)%Z end =? -2)%Z;
    [|apply name_frame_refl].
  destruct (lm_get (b_name_val st) (Z.to_N ni)) as [nm|]; [|repeat split].
  unfold intern. destruct (find_text (b_names st) nm 0); repeat split.
Qed.

Lemma pass_name_frame st ni : name_frame st (fst (fst (pass_name st ni))).
Proof.
  unfold pass_name.
  match goal with |- context [(?x =? -2)%Z] => destruct (x =? -2)%Z end;
    [apply outer_name_frame|apply name_frame_refl].
Qed.

(* every event produced for a name is an announcement of a name *)
Definition is_name_ann (e : event) : Prop := match e with EName _ _ => True | _ => False end.

Lemma outer_name_events st ni : Forall is_name_ann (snd (outer_name st ni)).
Proof.
  unfold outer_name.
  destruct (match lm_get (b_name_idx st) (Z.to_N ni) with Some v => v | None => (-2)%Z end =? -2)%Z;
    [|constructor].
  destruct (lm_get (b_name_val st) (Z.to_N ni)) as [nm|]; [|constructor].
  unfold intern. destruct (find_text (b_names st) nm 0); cbn [snd]; repeat constructor.
Qed.

Lemma pass_name_events st ni : Forall is_name_ann (snd (pass_name st ni)).
Proof.
  unfold pass_name.
  match goal with |- context [(?x =? -2)%Z] => destruct (x =? -2)%Z end;
    [apply outer_name_events|constructor].
Qed.

(* the emitted chunk, read as a mapping *)
Lemma mk_chunk_mapped t mp g l c fni : g < two32 -> l < two32 -> c < two32 ->
  mk_chunk t mp (Z.of_N g) (Z.of_N l) (Z.of_N c) fni =
  EChunk t (mkMapping (g_line mp) (g_col mp)
              (Some (mkOrig g l c (if (0 <=? fni)%Z then Some (wrap32z fni) else None)))).
Proof.
  intros Hg Hl Hc. unfold mk_chunk.
  assert (H0 : (0 <=? Z.of_N g)%Z = true) by (apply Z.leb_le; lia).
  rewrite H0, !wrap32z_small by assumption. reflexivity.
Qed.

Section Fallback.
Variables (name : text) (st : bstate) (t : option text) (mp : mapping) (o : orig).
Hypothesis Hlines : b_lines st = [].
Hypothesis Horig : m_orig mp = Some o.
Hypothesis Hinner : b_inner_index st = Z.of_N (o_src o).

Lemma fb_src : m_src mp = Z.of_N (o_src o).
Proof. unfold m_src. rewrite Horig. reflexivity. Qed.

(* remove_original_source: the chunk becomes unmapped *)
Theorem fallback_remove :
  outer_chunk name true st t mp = (st, [EChunk t (unmapped (g_line mp) (g_col mp))]).
Proof.
  rewrite outer_chunk_eq, fb_src, Hinner, Z.eqb_refl, (resolve_empty st mp Hlines). reflexivity.
Qed.

(* first use: the inner source is given a global index (announced when its name is new);
   the chunk keeps the outer original position *)
Theorem fallback_first :
  lm_get (b_src_idx st) (o_src o) = Some (-2)%Z ->
  outer_chunk name false st t mp =
  let '(tbl, g, fresh) := intern (b_sources st) name in
  let st1 := upd_src_idx (upd_sources st tbl) (lm_insert 0%Z (b_src_idx st) (o_src o) (Z.of_N g)) in
  let '(st2, fni, evn) := pass_name st1 (zopt (o_name o)) in
  (st2, (if fresh then [ESource g name (b_inner_source st)] else []) ++ evn ++
        [mk_chunk t mp (Z.of_N g) (Z.of_N (o_line o)) (Z.of_N (o_col o)) fni]).
Proof.
  intros Hidx.
  rewrite outer_chunk_eq, fb_src, Hinner, Z.eqb_refl, (resolve_empty st mp Hlines).
  unfold fallback_chunk. rewrite fb_src, N2Z.id, Hidx.
  destruct (intern (b_sources st) name) as [[tbl g] fresh].
  rewrite (pass_chunk_mapped _ t mp o g Horig) by (bsimp; apply lm_get_insert_same).
  destruct (pass_name _ (zopt (o_name o))) as [[st2 fni] evn]. reflexivity.
Qed.

(* the same, as properties of the result *)
Theorem fallback_first_spec :
  lm_get (b_src_idx st) (o_src o) = Some (-2)%Z ->
  exists st' g pre fni,
    outer_chunk name false st t mp =
      (st', pre ++ [mk_chunk t mp (Z.of_N g) (Z.of_N (o_line o)) (Z.of_N (o_col o)) fni]) /\
    nth_opt (b_sources st') g = Some name /\
    lm_get (b_src_idx st') (o_src o) = Some (Z.of_N g) /\
    b_lines st' = [] /\ b_inner_index st' = b_inner_index st /\
    Forall (fun e => match e with EChunk _ _ => False | _ => True end) pre.
Proof.
  intros Hidx. rewrite (fallback_first Hidx). unfold intern.
  destruct (find_text (b_sources st) name 0) as [g|] eqn:E.
  - apply find_text_sound0 in E. destruct E as [E1 _].
    match goal with |- context [pass_name ?s ?n] =>
      pose proof (pass_name_frame s n) as F; pose proof (pass_name_events s n) as G;
      destruct (pass_name s n) as [[st2 fni] evn] end.
    cbn [fst snd] in F, G. destruct F as (F1 & F2 & F3 & _ & F5 & _). bsimp_in F1. bsimp_in F2.
    bsimp_in F3. bsimp_in F5.
    exists st2, g, evn, fni. cbn [app]. split; [reflexivity|]. rewrite F1, F2, F3, F5.
    split; [exact E1|]. split; [apply lm_get_insert_same|]. split; [exact Hlines|]. split; [reflexivity|].
    eapply Forall_impl; [|exact G]. intros [? ?|? ? ?|? ?]; cbn; tauto.
  - match goal with |- context [pass_name ?s ?n] =>
      pose proof (pass_name_frame s n) as F; pose proof (pass_name_events s n) as G;
      destruct (pass_name s n) as [[st2 fni] evn] end.
    cbn [fst snd] in F, G. destruct F as (F1 & F2 & F3 & _ & F5 & _). bsimp_in F1. bsimp_in F2.
    bsimp_in F3. bsimp_in F5.
    exists st2, (len (b_sources st)), (ESource (len (b_sources st)) name (b_inner_source st) :: evn), fni.
    split; [reflexivity|]. rewrite F1, F2, F3, F5.
    split; [apply nth_opt_app_last|]. split; [apply lm_get_insert_same|]. split; [exact Hlines|].
    split; [reflexivity|]. constructor; [exact I|].
    eapply Forall_impl; [|exact G]. intros [? ?|? ? ?|? ?]; cbn; tauto.
Qed.

(* later uses: the global index recorded at the first use *)
Theorem fallback_later g :
  lm_get (b_src_idx st) (o_src o) = Some (Z.of_N g) ->
  outer_chunk name false st t mp =
  let '(st2, fni, evn) := pass_name st (zopt (o_name o)) in
  (st2, evn ++ [mk_chunk t mp (Z.of_N g) (Z.of_N (o_line o)) (Z.of_N (o_col o)) fni]).
Proof.
  intros Hidx.
  rewrite outer_chunk_eq, fb_src, Hinner, Z.eqb_refl, (resolve_empty st mp Hlines).
  rewrite (fallback_chunk_other name st t mp (Z.of_N g)); [|rewrite fb_src, N2Z.id; exact Hidx|lia].
  apply (pass_chunk_mapped st t mp o g Horig Hidx).
Qed.

Theorem fallback_later_spec g :
  lm_get (b_src_idx st) (o_src o) = Some (Z.of_N g) ->
  exists st' pre fni,
    outer_chunk name false st t mp =
      (st', pre ++ [mk_chunk t mp (Z.of_N g) (Z.of_N (o_line o)) (Z.of_N (o_col o)) fni]) /\
    b_sources st' = b_sources st /\ b_src_idx st' = b_src_idx st /\
    b_lines st' = [] /\ b_inner_index st' = b_inner_index st /\
    Forall is_name_ann pre.
Proof.
  intros Hidx. rewrite (fallback_later g Hidx).
  pose proof (pass_name_frame st (zopt (o_name o))) as F. pose proof (pass_name_events st (zopt (o_name o))) as G.
  destruct (pass_name st (zopt (o_name o))) as [[st2 fni] evn]. cbn [fst snd] in F, G.
  destruct F as (F1 & F2 & F3 & _ & F5 & _).
  exists st2, evn, fni. split; [reflexivity|]. rewrite F5. repeat split; assumption.
Qed.

End Fallback.

(* the resolved reading of the fallback chunk: the file of global index g (the inner source's
   own name, by fallback_first_spec), the outer original line and column *)
Lemma rsegs_fallback_chunk t mp g l c fni S Nn rest : g < two32 -> l < two32 -> c < two32 ->
  rsegs_of_events (mk_chunk t mp (Z.of_N g) (Z.of_N l) (Z.of_N c) fni :: rest) S Nn =
  (t, (g_line mp, g_col mp,
       Some (mkLoc (match nth_opt S g with Some s => s | None => BAD end) l c
                   (if (0 <=? fni)%Z
                    then Some (match nth_opt Nn (wrap32z fni) with Some x => x | None => BAD end)
                    else None)))) :: rsegs_of_events rest S Nn.
Proof.
  intros Hg Hl Hc. rewrite (mk_chunk_mapped t mp g l c fni Hg Hl Hc).
  cbn [rsegs_of_events g_line g_col m_orig o_src o_line o_col o_name].
  destruct (0 <=? fni)%Z; reflexivity.
Qed.

(* ------------------------------------------------------------------ *)
(* B4: a chunk resolved through a row of the inner map                 *)
(* ------------------------------------------------------------------ *)
(* the string the inner map announced for its source index k *)
Definition inner_file (st : bstate) (k : N) : text :=
  fst (match lm_get (b_in_src_val st) k with Some v => v | None => ([], None) end).
Definition inner_content (st : bstate) (k : N) : option text :=
  snd (match lm_get (b_in_src_val st) k with Some v => v | None => ([], None) end).

Lemma resolve_found st mp igc isrc iline icol iname ich :
  find_inner st (m_oline mp) (m_ocol mp) = Some ((igc, isrc, iline, icol, iname), ich) ->
  (0 <= isrc)%Z -> resolve st mp = Some (igc, isrc, iline, icol, iname, ich).
Proof.
  intros H H0. unfold resolve. rewrite H. apply Z.leb_le in H0. rewrite H0. reflexivity.
Qed.

(* the column is the row's column, or that column advanced by the offset into the row *)
Lemma adv_col_spec st mp igc isrc iline icol iname ich :
  (adv_col st mp igc isrc iline icol iname ich = (icol, iname)) \/
  ((0 < m_ocol mp - igc)%Z /\
   adv_col st mp igc isrc iline icol iname ich = ((icol + (m_ocol mp - igc))%Z, (-1)%Z)).
Proof.
  unfold adv_col. destruct (0 <? m_ocol mp - igc)%Z eqn:E; [|left; reflexivity].
  apply Z.ltb_lt in E.
  destruct (content_lines st isrc) as [ls|]; [|left; reflexivity].
  destruct (line_of ls iline) as [l|]; [|left; reflexivity].
  match goal with |- context [if ?b then _ else _] => destruct b end;
    [right; split; [exact E|reflexivity]|left; reflexivity].
Qed.

Lemma adv_col_bounds st mp igc isrc iline icol iname ich : (igc <= m_ocol mp)%Z ->
  (icol <= fst (adv_col st mp igc isrc iline icol iname ich) <= icol + (m_ocol mp - igc))%Z.
Proof.
  intros H. destruct (adv_col_spec st mp igc isrc iline icol iname ich) as [E|[E1 E]]; rewrite E; cbn [fst]; lia.
Qed.

(* frame of the source and name steps of a resolved chunk *)
Definition src_frame (st st' : bstate) : Prop :=
  b_names st' = b_names st /\ b_src_idx st' = b_src_idx st /\ b_name_idx st' = b_name_idx st /\
  b_name_val st' = b_name_val st /\ b_inner_index st' = b_inner_index st /\
  b_inner_source st' = b_inner_source st /\ b_lines st' = b_lines st /\
  b_in_src_val st' = b_in_src_val st /\ b_in_contents st' = b_in_contents st /\
  b_in_name_idx st' = b_in_name_idx st /\ b_in_name_val st' = b_in_name_val st.

Definition is_src_ann (e : event) : Prop := match e with ESource _ _ _ => True | _ => False end.

Lemma inner_src_frame st isrc :
  src_frame st (fst (fst (inner_src st isrc))) /\ Forall is_src_ann (snd (inner_src st isrc)).
Proof.
  unfold inner_src.
  destruct (match lm_get (b_in_src_idx st) (Z.to_N isrc) with Some v => v | None => (-2)%Z end =? -2)%Z;
    [|split; [repeat split|constructor]].
  destruct (match lm_get (b_in_src_val st) (Z.to_N isrc) with Some v => v | None => ([], None) end)
    as [source content].
  unfold intern. destruct (find_text (b_sources st) source 0); cbn [fst snd];
    (split; [repeat split|repeat constructor]).
Qed.

(* first use of the inner source index: it is interned under the announced string *)
Lemma inner_src_first st isrc :
  lm_get (b_in_src_idx st) (Z.to_N isrc) = Some (-2)%Z ->
  exists g, snd (fst (inner_src st isrc)) = Z.of_N g /\
    nth_opt (b_sources (fst (fst (inner_src st isrc)))) g = Some (inner_file st (Z.to_N isrc)) /\
    lm_get (b_in_src_idx (fst (fst (inner_src st isrc)))) (Z.to_N isrc) = Some (Z.of_N g) /\
    snd (inner_src st isrc) =
      (if find_text (b_sources st) (inner_file st (Z.to_N isrc)) 0 then []
       else [ESource g (inner_file st (Z.to_N isrc)) (inner_content st (Z.to_N isrc))]).
Proof.
  intros H. unfold inner_src, inner_file, inner_content. rewrite H, Z.eqb_refl.
  destruct (match lm_get (b_in_src_val st) (Z.to_N isrc) with Some v => v | None => ([], None) end)
    as [source content]. cbn [fst snd].
  unfold intern. destruct (find_text (b_sources st) source 0) as [g|] eqn:E; bsimp.
  - apply find_text_sound0 in E. destruct E as [E1 _]. exists g.
    split; [reflexivity|]. split; [exact E1|]. split; [apply lm_get_insert_same|reflexivity].
  - exists (len (b_sources st)). split; [reflexivity|]. split; [apply nth_opt_app_last|].
    split; [apply lm_get_insert_same|reflexivity].
Qed.

(* later uses: the recorded global index *)
Lemma inner_src_later st isrc g :
  lm_get (b_in_src_idx st) (Z.to_N isrc) = Some (Z.of_N g) ->
  inner_src st isrc = (st, Z.of_N g, []).
Proof.
  intros H. unfold inner_src. rewrite H.
  assert (E : (Z.of_N g =? -2)%Z = false) by (apply Z.eqb_neq; lia). rewrite E. reflexivity.
Qed.

Definition nm_frame (st st' : bstate) : Prop :=
  b_sources st' = b_sources st /\ b_src_idx st' = b_src_idx st /\ b_inner_index st' = b_inner_index st /\
  b_inner_source st' = b_inner_source st /\ b_lines st' = b_lines st /\
  b_in_src_idx st' = b_in_src_idx st /\ b_in_src_val st' = b_in_src_val st /\
  b_in_contents st' = b_in_contents st /\ b_in_name_val st' = b_in_name_val st /\
  b_name_val st' = b_name_val st.

Lemma name_frame_nm st st' : name_frame st st' -> nm_frame st st'.
Proof. intros (A1 & A2 & A3 & A4 & A5 & A6 & A7 & A8 & A9 & A10 & A11). repeat split; assumption. Qed.

Lemma inner_nm_frame st1 mp isrc iline icol1 iname1 :
  nm_frame st1 (fst (fst (inner_nm st1 mp isrc iline icol1 iname1))) /\
  Forall is_name_ann (snd (inner_nm st1 mp isrc iline icol1 iname1)).
Proof.
  unfold inner_nm. destruct (0 <=? iname1)%Z.
  - destruct (match lm_get (b_in_name_idx st1) (Z.to_N iname1) with Some v => v | None => (-2)%Z end =? -2)%Z;
      [|split; [repeat split|constructor]].
    destruct (lm_get (b_in_name_val st1) (Z.to_N iname1)) as [nm|]; [|split; [repeat split|constructor]].
    unfold intern. destruct (find_text (b_names st1) nm 0); cbn [fst snd];
      (split; [repeat split|repeat constructor]).
  - destruct (0 <=? m_name mp)%Z; [|split; [repeat split|constructor]].
    destruct (content_lines st1 isrc) as [ls|]; [|split; [repeat split|constructor]].
    destruct (lm_get (b_name_val st1) (Z.to_N (m_name mp))) as [nm|]; [|split; [repeat split|constructor]].
    match goal with |- context [if ?b then _ else _] => destruct b end; [|split; [repeat split|constructor]].
    split; [apply name_frame_nm; apply outer_name_frame|apply outer_name_events].
Qed.

Definition is_ann (e : event) : Prop := match e with EChunk _ _ => False | _ => True end.

Section Resolved.
Variables (name : text) (remove : bool) (st : bstate) (t : option text) (mp : mapping).
Variables (igc isrc iline icol iname : Z) (ich : text).
Hypothesis Hsrc : m_src mp = b_inner_index st.
Hypothesis Hfind : find_inner st (m_oline mp) (m_ocol mp) = Some ((igc, isrc, iline, icol, iname), ich).
Hypothesis Hisrc : (0 <= isrc)%Z.

Lemma resolved_eq :
  outer_chunk name remove st t mp = resolved_chunk st t mp (igc, isrc, iline, icol, iname, ich).
Proof.
  rewrite outer_chunk_eq, Hsrc, Z.eqb_refl, (resolve_found st mp _ _ _ _ _ _ Hfind Hisrc). reflexivity.
Qed.

(* the row found starts at or before the wanted column (no sortedness needed) *)
Lemma resolved_row_le : (igc <= m_ocol mp)%Z /\ (1 <= m_oline mp)%Z.
Proof. destruct (find_inner_le st _ _ _ _ Hfind) as [A B]. cbn [row_col] in B. split; assumption. Qed.

(* B4: one chunk, of the inner row's line, a column between the row's column and that column
   advanced by the offset into the row; announcements only before it; the source index is the
   global index of the string the inner map announced for the row's source *)
Theorem resolved_attr :
  exists st' pre si c fni,
    outer_chunk name remove st t mp = (st', pre ++ [mk_chunk t mp si iline c fni]) /\
    (icol <= c <= icol + (m_ocol mp - igc))%Z /\
    Forall is_ann pre /\
    b_lines st' = b_lines st /\ b_inner_index st' = b_inner_index st /\
    b_in_src_val st' = b_in_src_val st /\
    (lm_get (b_in_src_idx st) (Z.to_N isrc) = Some (-2)%Z ->
       exists g, si = Z.of_N g /\ nth_opt (b_sources st') g = Some (inner_file st (Z.to_N isrc)) /\
                 lm_get (b_in_src_idx st') (Z.to_N isrc) = Some (Z.of_N g)) /\
    (forall g, lm_get (b_in_src_idx st) (Z.to_N isrc) = Some (Z.of_N g) ->
       si = Z.of_N g /\ b_sources st' = b_sources st /\ b_in_src_idx st' = b_in_src_idx st).
Proof.
  rewrite resolved_eq. unfold resolved_chunk.
  destruct resolved_row_le as [Hle _].
  pose proof (adv_col_bounds st mp igc isrc iline icol iname ich Hle) as Hb.
  destruct (adv_col st mp igc isrc iline icol iname ich) as [icol1 iname1]. cbn [fst] in Hb.
  pose proof (inner_src_frame st isrc) as [F1 G1].
  pose proof (inner_src_first st isrc) as First. pose proof (inner_src_later st isrc) as Later.
  destruct (inner_src st isrc) as [[st1 si] evs]. cbn [fst snd] in F1, G1, First, Later.
  pose proof (inner_nm_frame st1 mp isrc iline icol1 iname1) as [F2 G2].
  destruct (inner_nm st1 mp isrc iline icol1 iname1) as [[st2 fni] evn]. cbn [fst snd] in F2, G2.
  exists st2, (evs ++ evn), si, icol1, fni. rewrite <- app_assoc. split; [reflexivity|].
  split; [exact Hb|].
  destruct F1 as (A1 & A2 & A3 & A4 & A5 & A6 & A7 & A8 & A9 & A10 & A11).
  destruct F2 as (B1 & B2 & B3 & B4 & B5 & B6 & B7 & B8 & B9 & B10).
  split.
  { apply Forall_app. split; (eapply Forall_impl; [|eassumption]); intros [? ?|? ? ?|? ?]; cbn; tauto. }
  split; [congruence|]. split; [congruence|]. split; [congruence|]. split.
  - intros H. destruct (First H) as [g (C1 & C2 & C3 & _)]. exists g. rewrite B1, B6. repeat split; assumption.
  - intros g H. specialize (Later g H). inversion Later. subst st1 si evs. rewrite B1, B6. repeat split.
Qed.

End Resolved.

(* reading the emitted chunk: indices, lines and columns inside u32 are not wrapped *)
Lemma wrap32z_in_range z : (0 <= z < 4294967296)%Z -> wrap32z z = Z.to_N z.
Proof. intros H. unfold wrap32z. rewrite Z.mod_small by lia. reflexivity. Qed.

Lemma rsegs_resolved_chunk t mp si line c fni S Nn rest :
  (0 <= si < 4294967296)%Z -> (0 <= line < 4294967296)%Z -> (0 <= c < 4294967296)%Z ->
  rsegs_of_events (mk_chunk t mp si line c fni :: rest) S Nn =
  (t, (g_line mp, g_col mp,
       Some (mkLoc (match nth_opt S (Z.to_N si) with Some s => s | None => BAD end)
                   (Z.to_N line) (Z.to_N c)
                   (if (0 <=? fni)%Z
                    then Some (match nth_opt Nn (wrap32z fni) with Some x => x | None => BAD end)
                    else None)))) :: rsegs_of_events rest S Nn.
Proof.
  intros Hs Hl Hc. unfold mk_chunk.
  assert (H0 : (0 <=? si)%Z = true) by (apply Z.leb_le; lia).
  rewrite H0, !wrap32z_in_range by assumption.
  cbn [rsegs_of_events g_line g_col m_orig o_src o_line o_col o_name].
  destruct (0 <=? fni)%Z; reflexivity.
Qed.

Print Assumptions sm_stream_shape.
Print Assumptions combined_pass_rsegs.
Print Assumptions combined_pass_attr.
Print Assumptions combined_pass_final_attr.
Print Assumptions combined_pass_texts.
Print Assumptions combined_pass_positions.
Print Assumptions combined_end_info.
Print Assumptions fallback_remove.
Print Assumptions fallback_first.
Print Assumptions fallback_first_spec.
Print Assumptions fallback_later.
Print Assumptions fallback_later_spec.
Print Assumptions announce_inner_no_content_state.
Print Assumptions rsegs_fallback_chunk.
Print Assumptions resolved_eq.
Print Assumptions resolved_attr.
Print Assumptions rsegs_resolved_chunk.
