(* Warm caches over combined-map leaves, part 4: the entry a cold CachedSource stores.
   WarmTreeCodec.v for `cls2` / `bnd2`: the map built from a stream that satisfies `FG2` or `TG2`
   is a `good_entry2` again.  The encoder's domain needs every field below 2^30: positions are
   positions of a text shorter than KB = 2^28, original lines / columns at most KB2 = 2^29,
   indices below asrc2 / anam2 < KB. *)
From RS Require Import Base.Prelude Base.Text Rope.RopeModel Codec.Vlq Codec.CodecSpec
  Checkers.ChkCodec Stream.Types Stream.Leaves Stream.Concat Stream.Replace Stream.Combined Stream.Tree
  Api.ApiTree Sem.Attr Sem.HashEq Api.ApiHist Checkers.ChkTree Checkers.ChkHist
  Proofs.CodecKept Proofs.CodecMain Proofs.StreamText Proofs.StreamLeaves Proofs.StreamMap Proofs.StreamConcat Proofs.StreamTree
  Proofs.WfStream Proofs.WfFinal Proofs.RStreamText Proofs.RStreamPos Proofs.RStreamTree
  Proofs.AttrCodec Proofs.AttrSms Proofs.AttrLeaves Proofs.LawConcatAttr Proofs.LawWrappers
  Proofs.CacheStore Proofs.CacheReplay Proofs.FinalDense Proofs.FinalReplace Proofs.FinalConcat Proofs.FinalTree Proofs.FinalCache
  Proofs.ReplAttrStream Proofs.LinesBase Proofs.LinesSelf Proofs.LinesConcat Proofs.LinesTree
  Proofs.ColdCache Proofs.ColdCacheTree Proofs.BoundsPos Proofs.BoundsOrig Proofs.BoundsIdx Proofs.BoundsAll
  Proofs.CombLeafTree Proofs.WarmTreeDefs Proofs.WarmTreeCodec Proofs.WarmCombBounds Proofs.WarmCombDefs.
Require Import Lia List.

Local Open Scope N_scope.

(* ------------------------------------------------------------------ *)
(* the entry built from an event list                                   *)
(* ------------------------------------------------------------------ *)
Section Entry2.
Variables (c : bool) (s : src) (evs : list event).
Hypothesis Hcl : cls2 s.
Hypothesis Hd : dense evs 0 0 = true.
Hypothesis Hso : ssorted (chunk_mappings evs).
Hypothesis Hpos : Forall (seg_pos (source s)) (chunk_mappings evs).
Hypothesis Hb : bnd2 s evs.

Let t := source s.
Let ms := chunk_mappings evs.

Lemma entry_idx2 : Forall (idx_lt (nS evs) (nN evs)) ms.
Proof. apply (dense_idx evs 0 0 Hd). Qed.

Lemma entry_ob2 : Forall (segb KB2) ms.
Proof.
  destruct Hb as [B _]. unfold ms. clear - B. induction evs as [|e l IH]; [constructor|].
  inversion B as [|? ? H1 H2]. subst. destruct e as [tx m|i n cc|i n]; cbn [chunk_mappings]; [|apply IH; exact H2..].
  constructor; [exact H1|apply IH; exact H2].
Qed.

Lemma entry_small2 : forallb mapping_small ms = true.
Proof.
  destruct (cls2_sizes s Hcl) as [L [S1 [S2 _]]]. destruct Hb as [_ [N1 N2]].
  apply Forall3_small.
  - eapply Forall_impl; [|exact Hpos]. cbn beta. intros m Hm. apply is_position_small in Hm.
    fold t in Hm. unfold t in *. unfold KB, KB2, K30 in *. lia.
  - eapply Forall_impl; [|exact entry_ob2]. cbn beta. intros m Hm. unfold segb in Hm.
    destruct (m_orig m) as [o|]; [|exact I]. cbn [ob] in Hm. unfold KB, KB2, K30 in *. lia.
  - eapply Forall_impl; [|exact entry_idx2]. intros m. apply idx_lt_mono; unfold KB, K30 in *; lia.
Qed.

Lemma entry_domain2 : enc_domain ms = true.
Proof. pose proof entry_small2 as E. unfold enc_domain, ms in *. rewrite (ssorted_sorted _ Hso), E. reflexivity. Qed.

Lemma entry_attr2 : attr_of_map (map_of_events c evs) t c = attr_of_final_events evs t c.
Proof. apply attr_codec_dense; [exact Hd|exact entry_domain2]. Qed.

Lemma entry_tables2 m : map_of_events c evs = Some m ->
  sm_sources m = fst (tabs evs [] []) /\ sm_names m = snd (tabs evs [] []) /\
  sm_contents m = t_contents (fold_left tables_event evs (mkT [] [] [])).
Proof.
  unfold map_of_events. destruct (is_nil (encode_mappings c (chunk_mappings evs))); [discriminate|].
  intros H. inversion H. cbn [sm_sources sm_names sm_contents].
  destruct (fold_tables evs (mkT [] [] []) (dense_ann_ok evs [] [] Hd)) as [E1 E2].
  cbn [t_sources t_names] in E1, E2. rewrite E1, E2. repeat split; reflexivity.
Qed.

Lemma entry_decoded2 m : map_of_events c evs = Some m ->
  decode_mappings (sm_mappings m) = if c then kept ms else line_firsts ms.
Proof.
  intros Hm. rewrite (map_of_events_some _ _ _ Hm). destruct c; cbn [encode_mappings].
  - apply decode_encode. exact entry_domain2.
  - apply lines_only_decode. exact entry_domain2.
Qed.

Lemma entry_lens2 m : map_of_events c evs = Some m ->
  len (sm_sources m) = nS evs /\ len (sm_names m) = nN evs.
Proof.
  intros Hm. destruct (entry_tables2 m Hm) as [E1 [E2 _]]. rewrite E1, E2.
  destruct (tabs_len evs [] [] Hd) as [A B]. change (len (@nil text)) with 0 in *. split; lia.
Qed.

Lemma entry_mapR2 m : map_of_events c evs = Some m -> mapR t m.
Proof.
  intros Hm. pose proof (entry_decoded2 m Hm) as Hdec. destruct (entry_lens2 m Hm) as [L1 L2].
  unfold mapR. rewrite Hdec, L1, L2.
  pose proof (sorted_ssorted _ (enc_domain_sorted _ entry_domain2)) as Hs.
  destruct c.
  - split; [apply ssorted_sorted; apply ssorted_kept; exact Hs|].
    split; [apply kept_from_Forall; exact Hpos|].
    apply kept_from_Forall. eapply Forall_impl; [|exact entry_idx2]. intros x Hx.
    unfold WfStream.seg_ok, idx_lt in *. destruct (m_orig x) as [o|]; [exact Hx|exact I].
  - split; [apply ssorted_sorted; apply line_firsts_ssorted; exact Hs|].
    split.
    + apply (line_firsts_Forall (seg_pos t)); [|exact Hpos]. intros x o Hx _. unfold seg_pos in *.
      cbn [g_line g_col]. apply (is_position_line0 t (g_line x) (g_col x) (g_line x) Hx); [|lia].
      apply is_position_small in Hx. lia.
    + apply (line_firsts_Forall (idx_lt (nS evs) (nN evs))); [|exact entry_idx2].
      intros x o Hx Ho. unfold idx_lt in Hx. rewrite Ho in Hx. unfold WfStream.seg_ok.
      cbn [m_orig orig_ok o_src o_name]. split; [apply Hx|exact I].
Qed.

Lemma entry_mbnd2 m : map_of_events c evs = Some m -> mbnd2 s m.
Proof.
  intros Hm. pose proof (entry_decoded2 m Hm) as Hdec. destruct (entry_lens2 m Hm) as [L1 L2].
  destruct (entry_tables2 m Hm) as [_ [_ E3]]. destruct Hb as [B1 [B2 B3]].
  unfold mbnd2. rewrite Hdec, L1, L2, E3. split; [|split; [|split; assumption]].
  - destruct c.
    + apply kept_from_Forall. exact entry_ob2.
    + apply (line_firsts_Forall (segb KB2)); [|exact entry_ob2]. intros x o Hx Ho. unfold segb in *.
      rewrite Ho in Hx. cbn [m_orig ob o_line o_col] in *. split; [apply Hx|lia].
  - pose proof (fold_tables_contents KB2 evs (mkT [] [] []) B1 (Forall_nil _)) as F.
    unfold cbound in F. rewrite Forall_forall in F. exact F.
Qed.

Theorem entry_good2 : attr_of_final_events evs t c = refA s c -> good_entry2 s c (map_of_events c evs).
Proof.
  intros Hattr. split; [fold t; rewrite entry_attr2; exact Hattr|].
  destruct (map_of_events c evs) as [m|] eqn:E; [|exact I].
  split; [apply entry_mapR2; exact E|apply entry_mbnd2; exact E].
Qed.

End Entry2.

(* ------------------------------------------------------------------ *)
(* from a text-less stream                                              *)
(* ------------------------------------------------------------------ *)
Theorem entry_of_final2 (c : bool) (s : src) (r : list event * (N * N)) :
  cls2 s -> FG2 c s r -> good_entry2 s c (map_of_events c (fst r)).
Proof.
  intros Hcl [[K1 [K2 [K3 K4]]] [_ [Hattr Hb]]]. unfold tr_events, tr_info, tr_text in *. cbn [fst snd] in *.
  apply entry_good2; try assumption. apply ev_pos_cm. exact K2.
Qed.

(* ------------------------------------------------------------------ *)
(* from a text-carrying stream                                          *)
(* ------------------------------------------------------------------ *)
Lemma TG_self2 (c : bool) (s : src) (r : list event * (N * N)) : TG2 c s r ->
  attr_of_final_events (fst r) (source s) c = attr_of_stream (fst r) c.
Proof.
  intros [Hd [Hr [Hw [Hn [Hne _]]]]]. destruct c.
  - apply self_cols_dense; assumption.
  - apply self_lines_dense; try assumption. apply no_empty_ne_chunk. apply Hne. reflexivity.
Qed.

Lemma TG_positions2 (c : bool) (s : src) (r : list event * (N * N)) : TG2 c s r ->
  ssorted (chunk_mappings (fst r)) /\ Forall (seg_pos (source s)) (chunk_mappings (fst r)).
Proof.
  intros [_ [Hr [Hw _]]]. destruct (wp_facts _ [] _ Hr Hw) as [W1 W2]. cbn [app] in W2.
  split; [exact W1|]. eapply Forall_impl; [|exact W2]. intros m [Hm _]. exact Hm.
Qed.

Theorem entry_of_text2 (c : bool) (s : src) (r : list event * (N * N)) :
  cls2 s -> TG2 c s r -> good_entry2 s c (map_of_events c (fst r)).
Proof.
  intros Hcl HT. destruct (TG_positions2 c s r HT) as [P1 P2]. pose proof (TG_self2 c s r HT) as Hself.
  destruct HT as [Hd [_ [_ [_ [_ [_ [Hattr Hb]]]]]]].
  apply entry_good2; try assumption. rewrite Hself. exact Hattr.
Qed.

(* a text-carrying stream, read as a text-less one (what a ReplaceSource streams in the
   text-less mode) *)
Theorem FG_of_TG2 (c : bool) (s : src) (r : list event * (N * N)) : TG2 c s r -> FG2 c s r.
Proof.
  intros HT. destruct (TG_positions2 c s r HT) as [P1 P2]. pose proof (TG_self2 c s r HT) as Hself.
  destruct HT as [Hd [Hr [Hw [Hn [Hne [Hi [Hattr Hb]]]]]]].
  split; [|split; [|split; [rewrite Hself; exact Hattr|exact Hb]]].
  - unfold kid_ok, tr_events, tr_info, tr_text. cbn [fst snd].
    split; [exact Hd|]. split; [apply cm_ev_pos; exact P2|]. split; [exact Hi|exact P1].
  - intros Hc. destruct r as [evs gi]. cbn [fst snd] in *. apply text_stream_kidL; try assumption.
    apply Hne. exact Hc.
Qed.

Print Assumptions entry_of_final2.
Print Assumptions entry_of_text2.
Print Assumptions FG_of_TG2.
