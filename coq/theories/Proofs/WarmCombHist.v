(* Warm caches over combined-map leaves, part 7: histories (WarmTreeHist.v for `cls2`).
   Every answer of every history of observer calls on a tree of the class `cls2` - combined-map
   leaves AND CachedSource nodes, in any arrangement allowed by `k2_shape s = false` - from the
   empty store, from any sound store, and after any warm-up history of calls on inner CachedSource
   nodes, is `answer_equiv` to the answer of the freshly built cache-free tree `uncache s`; hence
   also to the answer of the freshly built tree itself (thist form) and, for a root CachedSource,
   of the freshly built wrapped tree (chist form, C10), and the extracted checker `chk_hist`
   accepts. *)
From RS Require Import Base.Prelude Base.Text Rope.RopeModel Codec.Vlq Codec.CodecSpec
  Checkers.ChkCodec Stream.Types Stream.Leaves Stream.Concat Stream.Replace Stream.Combined Stream.Tree
  Api.ApiTree Sem.Attr Sem.HashEq Api.ApiHist Checkers.ChkTree Checkers.ChkHist Checkers.ChkCombined
  Proofs.StreamText Proofs.StreamLeaves Proofs.StreamConcat Proofs.StreamTree Proofs.RStreamTree
  Proofs.AttrCodec Proofs.LawWrappers
  Proofs.CacheStore Proofs.CacheReplay Proofs.FinalConcat Proofs.FinalCache
  Proofs.ColdCache Proofs.ColdCacheTree Proofs.ColdCacheRoot Proofs.BoundsPos
  Proofs.CombAllSpec Proofs.CombAllT12 Proofs.CombAllTop Proofs.CombLeafTree Proofs.CombLeafExample
  Proofs.WarmTreeDefs Proofs.WarmTreeNodes Proofs.WarmTreeMain Proofs.WarmTreeHist
  Proofs.WarmCombBounds Proofs.WarmCombDefs Proofs.WarmCombNodes Proofs.WarmCombMain.
Require Import Lia List.

Local Open Scope N_scope.

(* ------------------------------------------------------------------ *)
(* one observer call                                                    *)
(* ------------------------------------------------------------------ *)
Section Hist2.
Variable s : src.
Hypothesis Hd : ids_distinct s.
Hypothesis Hcl : cls2 s.

Let W := warm_all2 s Hd s (incl_refl _) Hcl.
Let WR := warm_all2 (uncache s) (uncache_distinct s) (uncache s) (incl_refl _) (cls2_uncache s Hcl).

Lemma ref_stream_text2 c :
  let r := stream [] (uncache s) (mkOpts c false) in
  reassembles (fst (fst r)) (source s) = true /\ snd (fst r) = advance 1 0 (source s) /\
  attr_of_stream (fst (fst r)) c = refA s c.
Proof.
  cbn zeta. destruct (ref_TG2 c s Hcl) as [_ [Hr [_ [_ [_ [Hi [Ha _]]]]]]].
  split; [apply reassembles_iff; exact Hr|]. split; [exact Hi|exact Ha].
Qed.

Lemma ref_stream_final2 c :
  let r := stream [] (uncache s) (mkOpts c true) in
  snd (fst r) = advance 1 0 (source s) /\
  attr_of_final_events (fst (fst r)) (source s) c = refA s c.
Proof.
  cbn zeta. destruct WR as [_ [B _]]. destruct (B [] c (sound2_empty _)) as [T _].
  destruct T as [[_ [_ [Hi _]]] [_ [Ha _]]]. unfold tr_info, tr_text in Hi. cbn [fst snd] in Hi.
  rewrite uncache_source in Hi, Ha. rewrite refA_uncache in Ha. split; assumption.
Qed.

Lemma ref_map2 c : attr_of_map (fst (map_of [] (uncache s) c)) (source s) c = refA s c.
Proof.
  destruct WR as [_ [_ M]]. destruct (M [] c (sound2_empty _)) as [[E _] _].
  rewrite uncache_source, refA_uncache in E. exact E.
Qed.

Theorem hop_warm2 (st : store) (op : hop) : Sound2 st s ->
  answer_equiv (source s) op (fst (run_hop st s op)) (fst (run_hop [] (uncache s) op)) = true /\
  Sound2 (snd (run_hop st s op)) s.
Proof.
  intros Hs. destruct op as [| | | |c|c f| |]; cbn [run_hop fst snd].
  - rewrite uncache_source. split; [apply text_eqb_refl|exact Hs].
  - rewrite uncache_buffer. split; [apply text_eqb_refl|exact Hs].
  - rewrite uncache_size. split; [apply N.eqb_refl|exact Hs].
  - rewrite uncache_rope. split; [apply opt_text_eqb_refl|exact Hs].
  - (* map() *)
    destruct W as [_ [_ M]]. destruct (M st c Hs) as [[E _] S]. pose proof (ref_map2 c) as R.
    destruct (map_of st s c) as [m st']. destruct (map_of [] (uncache s) c) as [m0 st0]. cbn [fst snd] in *.
    split; [|exact S]. cbn [answer_equiv]. apply attr_list_ok. rewrite E, R. reflexivity.
  - destruct f.
    + (* text-less stream *)
      destruct W as [_ [B _]]. destruct (B st c Hs) as [T S]. pose proof (ref_stream_final2 c) as R. cbn zeta in R.
      destruct (stream st s (mkOpts c true)) as [[evs gi] st'].
      destruct (stream [] (uncache s) (mkOpts c true)) as [[evs0 gi0] st0]. cbn [fst snd] in *.
      split; [|exact S]. destruct T as [[_ [_ [Hi _]]] [_ [Ha _]]]. unfold tr_info, tr_text in Hi. cbn [fst snd] in Hi, Ha.
      destruct R as [R1 R2]. cbn [answer_equiv]. rewrite Hi, R1, gi_eqb_refl. cbn [andb].
      apply attr_list_ok. rewrite Ha, R2. reflexivity.
    + (* text-carrying stream *)
      destruct W as [A _]. destruct (A st c Hs) as [T S]. pose proof (ref_stream_text2 c) as R. cbn zeta in R.
      destruct (stream st s (mkOpts c false)) as [[evs gi] st'].
      destruct (stream [] (uncache s) (mkOpts c false)) as [[evs0 gi0] st0]. cbn [fst snd] in *.
      split; [|exact S]. destruct T as [_ [Hr [_ [_ [_ [Hi [Ha _]]]]]]]. cbn [fst snd] in Hr, Hi, Ha.
      destruct R as [R0 [R1 R2]]. cbn [answer_equiv]. rewrite Hi, R1, gi_eqb_refl. cbn [andb].
      apply reassembles_iff in Hr. rewrite Hr, R0. cbn [andb].
      apply attr_list_ok. rewrite Ha, R2. reflexivity.
  - split; [reflexivity|exact Hs].
  - split; [reflexivity|exact Hs].
Qed.

(* ------------------------------------------------------------------ *)
(* every history, from any sound store                                  *)
(* ------------------------------------------------------------------ *)
Theorem history_warm_from2 : forall (ops : list hop) (st : store) (i : N), Sound2 st s ->
  answers_equiv (source s) ops (fst (run_hops st s ops)) (fresh_answers (uncache s) ops) i = 0 /\
  Sound2 (snd (run_hops st s ops)) s.
Proof.
  induction ops as [|op ops IH]; intros st i Hs; [split; [reflexivity|exact Hs]|].
  cbn [run_hops fresh_answers map]. destruct (hop_warm2 st op Hs) as [He Hs1].
  destruct (run_hop st s op) as [x st1]. cbn [fst snd] in He, Hs1.
  destruct (IH st1 (i + 1) Hs1) as [IH1 IH2].
  destruct (run_hops st1 s ops) as [as_ st2]. cbn [fst snd] in *.
  cbn [answers_equiv]. rewrite He. split; [exact IH1|exact IH2].
Qed.

(* W3: from the empty store *)
Theorem history_warm2 (ops : list hop) :
  answers_equiv (source s) ops (fst (run_hops [] s ops)) (fresh_answers (uncache s) ops) 0 = 0.
Proof. apply (history_warm_from2 ops [] 0 (sound2_empty s)). Qed.

(* ------------------------------------------------------------------ *)
(* warm-up histories on inner CachedSource nodes                        *)
(* ------------------------------------------------------------------ *)
Lemma find_cached_sub2 : forall t id node, find_cached t id = Some node ->
  incl (nodes node) (nodes t) /\ (cls2 t -> cls2 node).
Proof.
  apply (src_ind' (fun t => forall id node, find_cached t id = Some node ->
                            incl (nodes node) (nodes t) /\ (cls2 t -> cls2 node))); try (intros; discriminate).
  - intros cs IH id node H. cbn [find_cached] in H.
    assert (G : exists c, In c cs /\ find_cached c id = Some node).
    { revert H. clear IH. induction cs as [|c cs IHc]; intros H; [discriminate|].
      destruct (find_cached c id) as [x|] eqn:E.
      - inversion H. subst x. exists c. split; [left; reflexivity|exact E].
      - destruct (IHc H) as [c' [Hc' E']]. exists c'. split; [right; exact Hc'|exact E']. }
    destruct G as [c [Hc E]]. rewrite Forall_forall in IH. destruct (IH c Hc id node E) as [A B]. split.
    + intros x Hx. apply (nodes_child cs c Hc). apply A. exact Hx.
    + intros Hcls. apply B. apply (cls2_concat cs c Hcls Hc).
  - intros i rs IH id node H. cbn [find_cached] in H. destruct (IH id node H) as [A B]. split.
    + exact A.
    + intros Hcls. apply B. apply (cls2_replace i rs Hcls).
  - intros k i IH id node H. cbn [find_cached] in H. destruct (k =? id).
    + inversion H. subst node. split; [apply incl_refl|exact (fun X => X)].
    + destruct (IH id node H) as [A B]. split.
      * intros x Hx. cbn [nodes]. right. apply A. exact Hx.
      * intros Hcls. apply B. apply (cls2_cached k i Hcls).
Qed.

Lemma wop_sound2 (st : store) (node : src) (w : wop) :
  incl (nodes node) (nodes s) -> cls2 node -> Sound2 st s -> Sound2 (run_wop st node w) s.
Proof.
  intros Hin Hn Hs. destruct (warm_all2 s Hd node Hin Hn) as [A [B M]].
  destruct w as [c|c f]; cbn [run_wop].
  - apply (M st c Hs).
  - destruct f; [apply (B st c Hs)|apply (A st c Hs)].
Qed.

Theorem warm_sound2 : forall (ws : list (N * wop)) (st : store), Sound2 st s -> Sound2 (run_warm st s ws) s.
Proof.
  induction ws as [|[id w] ws IH]; intros st Hs; [exact Hs|].
  cbn [run_warm]. destruct (find_cached s id) as [node|] eqn:E; [|apply IH; exact Hs].
  destruct (find_cached_sub2 s id node E) as [A B]. apply IH. apply wop_sound2; [exact A|apply B; exact Hcl|exact Hs].
Qed.

(* W3: after any warm-up *)
Theorem history_warm_after2 (ws : list (N * wop)) (ops : list hop) :
  answers_equiv (source s) ops (fst (run_hops (run_warm [] s ws) s ops)) (fresh_answers (uncache s) ops) 0 = 0.
Proof. apply (history_warm_from2 ops _ 0 (warm_sound2 ws [] (sound2_empty s))). Qed.

(* the reference "the freshly built tree itself" (api_thist; the repeatability clause of C14) *)
Corollary history_warm_self2 (ws : list (N * wop)) (ops : list hop) :
  answers_equiv (source s) ops (fst (run_hops (run_warm [] s ws) s ops)) (fresh_answers s ops) 0 = 0.
Proof.
  rewrite (answers_equiv_same (source s) ops _ _ _ _ 0
             (Forall2_same ans_same ans_same_refl _) (fresh_answers_uncache s ops Hd)).
  apply history_warm_after2.
Qed.

End Hist2.

(* ------------------------------------------------------------------ *)
(* the statements with the hypotheses spelled out                       *)
(* ------------------------------------------------------------------ *)
Theorem warm_history_transparent2 (s : src) (ws : list (N * wop)) (ops : list hop) :
  ids_distinct s -> k2_shape s = false -> rshape2 (uncache s) = true -> treeA s = true ->
  rsmall (uncache s) = true -> tiny2 (uncache s) = true ->
  answers_equiv (source s) ops (fst (run_hops (run_warm [] s ws) s ops)) (fresh_answers (uncache s) ops) 0 = 0.
Proof. intros H1 H2 H3 H4 H5 H6. apply history_warm_after2; [exact H1|repeat split; assumption]. Qed.

(* C10, checker form: the root is a CachedSource, the reference the freshly built wrapped tree *)
Theorem warm_chist_transparent2 (id : N) (a : src) (ops : list hop) :
  ids_distinct (SCached id a) -> k2_shape a = false -> rshape2 (uncache a) = true -> treeA a = true ->
  rsmall (uncache a) = true -> tiny2 (uncache a) = true ->
  let '(ans, ref) := api_chist (SCached id a) ops in
  answers_equiv (source (SCached id a)) ops ans ref 0 = 0.
Proof.
  intros H1 H2 H3 H4 H5 H6. cbn [api_chist].
  assert (Hcl : cls2 (SCached id a)) by (repeat split; assumption).
  assert (Hda : ids_distinct a) by (unfold ids_distinct in *; cbn [ids] in H1; inversion H1; assumption).
  rewrite (answers_equiv_same (source (SCached id a)) ops _ _ _ _ 0
             (Forall2_same ans_same ans_same_refl _) (fresh_answers_uncache a ops Hda)).
  apply (history_warm2 (SCached id a) H1 Hcl ops).
Qed.

Theorem chk_hist_warm_chist2 (id : N) (a : src) (ops : list hop) :
  ids_distinct (SCached id a) -> k2_shape a = false -> rshape2 (uncache a) = true -> treeA a = true ->
  rsmall (uncache a) = true -> tiny2 (uncache a) = true ->
  chk_hist (SCached id a) ops (fst (api_chist (SCached id a) ops)) (snd (api_chist (SCached id a) ops)) = 0.
Proof.
  intros H1 H2 H3 H4 H5 H6. pose proof (warm_chist_transparent2 id a ops H1 H2 H3 H4 H5 H6) as E.
  unfold chk_hist. replace (treeA (SCached id a)) with (treeA a) by reflexivity. rewrite H4. cbn [negb].
  destruct (api_chist (SCached id a) ops) as [ans ref] eqn:Ea. cbn [fst snd]. rewrite E.
  cbn [api_chist] in Ea. inversion Ea. subst ans.
  rewrite (all_equal_const _ _ (hashes_const (SCached id a) ops [])). reflexivity.
Qed.

(* C14 repeatability form: the object itself, fresh for each call *)
Theorem chk_hist_warm_thist2 (s : src) (ops : list hop) :
  ids_distinct s -> k2_shape s = false -> rshape2 (uncache s) = true -> treeA s = true ->
  rsmall (uncache s) = true -> tiny2 (uncache s) = true ->
  chk_hist s ops (fst (api_thist s ops)) (snd (api_thist s ops)) = 0.
Proof.
  intros H1 H2 H3 H4 H5 H6. assert (Hcl : cls2 s) by (repeat split; assumption).
  pose proof (history_warm_self2 s H1 Hcl [] ops) as E. cbn [run_warm] in E.
  unfold chk_hist, api_thist. rewrite H4. cbn [negb fst snd]. rewrite E.
  rewrite (all_equal_const _ _ (hashes_const s ops [])). reflexivity.
Qed.

(* `rsmall` follows from `tiny2`: the class from the input-side hypotheses alone *)
Lemma tiny2_cls2 (s : src) :
  k2_shape s = false -> rshape2 (uncache s) = true -> treeA s = true -> tiny2 (uncache s) = true -> cls2 s.
Proof.
  intros H1 H2 H3 H4. split; [exact H1|]. split; [exact H2|]. split; [exact H3|]. split; [|exact H4].
  apply tiny_rsmall; [apply treeA_uncache; exact H3|apply tiny2_tiny; exact H4].
Qed.

(* ------------------------------------------------------------------ *)
(* tests: the statements are not vacuous                                 *)
(* ------------------------------------------------------------------ *)
(* combined-map leaves (CombLeafExample.v: `ex_leaf`, `um_leaf`, both values of
   remove_original_source) beneath CachedSource nodes beneath ConcatSource nodes, a nested cache
   above a combined leaf and an OriginalSource, and a ReplaceSource without replacements above a
   cached combined leaf *)
Definition wc_tree (r : bool) : src :=
  SConcat [SRaw false [120];
           SCached 1 (ex_leaf r);
           SCached 2 (SConcat [um_leaf r; SCached 3 (SOriginal [121; 10; 122] [111; 111])]);
           SReplace (SCached 4 (ex_leaf r)) []].
(* the smallest shape asked for: Concat [Cached (combined leaf); raw] *)
Definition wc_small (r : bool) : src := SConcat [SCached 1 (ex_leaf r); SRaw false [10; 120]].

Definition wc_ops := [OStream true false; OStream false false; OStream true true; OStream false true; OMap true; OMap false].
Definition wc_warm := [(1, WStream true false); (2, WMap false); (3, WStream false true); (4, WMap true);
                       (2, WStream true true); (4, WStream false false); (1, WMap false)].

Definition wc_hyps (s : src) : bool * bool * bool * bool * bool * bool * bool :=
  (ids_distinctb s, k2_shape s, rshape2 (uncache s), rshape (uncache s), treeA s, rsmall (uncache s), tiny2 (uncache s)).

(* every hypothesis of warm_text2 / warm_final2 / warm_map2 / warm_history_transparent2 holds; the
   trees are outside the class of WarmTreeMain.v (`rshape (uncache s) = false`) *)
Example wc_tree_hyps (r : bool) :
  wc_hyps (wc_tree r) = (true, false, true, false, true, true, true) /\
  wc_hyps (wc_small r) = (true, false, true, false, true, true, true).
Proof. destruct r; vm_compute; split; reflexivity. Qed.

Lemma wc_tree_distinct r : ids_distinct (wc_tree r).
Proof. apply ids_distinctb_spec. destruct r; vm_compute; reflexivity. Qed.

Lemma wc_small_distinct r : ids_distinct (wc_small r).
Proof. apply ids_distinctb_spec. destruct r; vm_compute; reflexivity. Qed.

(* G2 instantiated: from the empty store and from the store a warm-up history leaves *)
Example wc_small_streams (r c : bool) :
  (let '(evs, gi, st') := stream [] (wc_small r) (mkOpts c false) in
   reassembles evs (source (wc_small r)) = true /\ gi = advance 1 0 (source (wc_small r)) /\
   attr_of_stream evs c = reference2 (wc_small r) c /\ Sound2 st' (wc_small r)) /\
  (let '(evs, gi, st') := stream [] (wc_small r) (mkOpts c true) in
   gi = advance 1 0 (source (wc_small r)) /\
   attr_of_final_events evs (source (wc_small r)) c = reference2 (wc_small r) c /\ Sound2 st' (wc_small r)) /\
  attr_of_map (fst (map_of [] (wc_small r) c)) (source (wc_small r)) c = reference2 (wc_small r) c.
Proof.
  assert (H : forall r, k2_shape (wc_small r) = false /\ rshape2 (uncache (wc_small r)) = true /\
            treeA (wc_small r) = true /\ rsmall (uncache (wc_small r)) = true /\ tiny2 (uncache (wc_small r)) = true)
    by (intros [|]; vm_compute; repeat split; reflexivity).
  destruct (H r) as [H1 [H2 [H3 [H4 H5]]]]. pose proof (wc_small_distinct r) as Hd.
  split; [apply (warm_text2 _ Hd H1 H2 H3 H4 H5 [] c (sound2_empty _))|].
  split; [apply (warm_final2 _ Hd H1 H2 H3 H4 H5 [] c (sound2_empty _))|].
  apply (warm_map2 _ Hd H1 H2 H3 H4 H5 [] c (sound2_empty _)).
Qed.

(* the combined leaf really is mapped through its inner map beneath the cache (the statement is
   not about unmapped streams): bytes of the cached leaf are attributed to the inner map's file *)
Example wc_small_mapped :
  existsb (fun a => match a with Some l => text_eqb (l_file l) [111] | None => false end)
          (reference2 (wc_small false) true) = true.
Proof. vm_compute. reflexivity. Qed.

(* G3 instantiated, and the same recomputed *)
Example wc_tree_instance (r : bool) :
  answers_equiv (source (wc_tree r)) (wc_ops ++ wc_ops)
                (fst (run_hops (run_warm [] (wc_tree r) wc_warm) (wc_tree r) (wc_ops ++ wc_ops)))
                (fresh_answers (uncache (wc_tree r)) (wc_ops ++ wc_ops)) 0 = 0.
Proof.
  apply warm_history_transparent2; try (destruct r; vm_compute; reflexivity). apply wc_tree_distinct.
Qed.

Example wc_tree_recomputed (r : bool) :
  answers_equiv (source (wc_tree r)) (wc_ops ++ wc_ops)
                (fst (run_hops (run_warm [] (wc_tree r) wc_warm) (wc_tree r) (wc_ops ++ wc_ops)))
                (fresh_answers (uncache (wc_tree r)) (wc_ops ++ wc_ops)) 0 = 0.
Proof. destruct r; vm_compute; reflexivity. Qed.

Example wc_chist_instance (r : bool) :
  let '(ans, ref) := api_chist (SCached 9 (wc_tree r)) (wc_ops ++ wc_ops) in
  answers_equiv (source (SCached 9 (wc_tree r))) (wc_ops ++ wc_ops) ans ref 0 = 0.
Proof.
  apply warm_chist_transparent2; try (destruct r; vm_compute; reflexivity).
  apply ids_distinctb_spec. destruct r; vm_compute; reflexivity.
Qed.

Print Assumptions hop_warm2.
Print Assumptions history_warm2.
Print Assumptions history_warm_after2.
Print Assumptions warm_history_transparent2.
Print Assumptions warm_chist_transparent2.
Print Assumptions chk_hist_warm_chist2.
Print Assumptions chk_hist_warm_thist2.
Print Assumptions wc_small_streams.
Print Assumptions wc_tree_instance.
Print Assumptions wc_chist_instance.
