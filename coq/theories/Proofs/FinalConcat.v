(* C03 for composite trees, part 2 (G2): ConcatSource.
   The text-less stream (final_source = true) of a ConcatSource, looked up by position,
   attributes every byte as the text-less streams of the children do:
     attr_of_final_events F (T1 ++ ... ++ Tn) = attr_of_final_events F1 T1 ++ ... ++ attr_of_final_events Fn Tn
   (`concat_final_attr`).  With `concat_attr_cols` (the same fact for the text-carrying
   mode and attribution by covering) this lifts "map() attributes as the stream" from the
   children to the composite (`concat_final_vs_text`). *)
From RS Require Import Base.Prelude Base.Text Rope.RopeModel Codec.Vlq Codec.CodecSpec
  Checkers.ChkCodec Stream.Types Stream.Leaves Stream.Concat Stream.Replace Stream.Combined Stream.Tree
  Sem.Attr Checkers.ChkTree
  Proofs.CodecKept Proofs.StreamText Proofs.StreamLeaves Proofs.StreamMap Proofs.StreamConcat Proofs.StreamTree
  Proofs.WfStream Proofs.WfFinal
  Proofs.AttrCodec Proofs.AttrSms Proofs.LawConcatAttr Proofs.FinalDense.
Require Import Lia List.

Local Open Scope N_scope.

Ltac alia := unfold rseg, attr in *; lia.

(* ------------------------------------------------------------------ *)
(* resolved segments of an event list                                   *)
(* ------------------------------------------------------------------ *)
Definition fsegs (evs : list event) (s n : list text) : list rseg := map snd (rsegs_of_events evs s n).

Lemma fsegs_app a b s n :
  fsegs (a ++ b) s n = fsegs a s n ++ fsegs b (fst (tabs a s n)) (snd (tabs a s n)).
Proof. unfold fsegs. rewrite rsegs_app, map_app. reflexivity. Qed.

Lemma fsegs_nochunk : forall evs s n, chunk_mappings evs = [] -> fsegs evs s n = [].
Proof.
  induction evs as [|e evs IH]; intros s n H; [reflexivity|].
  destruct e as [t m|i nm c|i nm]; cbn [chunk_mappings] in H; [discriminate| |];
    unfold fsegs in *; cbn [rsegs_of_events]; apply IH; exact H.
Qed.

(* a segment moved by the offsets of a ConcatSource child *)
Definition shseg (lo co : N) (s : rseg) : rseg := (shift lo co (fst s), snd s).

(* the closing segment *)
Definition clseg (st : cstate) : rseg := (c_loff st + 1, c_coff st, None).

Definition at10 (m : mapping) : bool := (g_line m =? 1) && (g_col m =? 0).

(* ------------------------------------------------------------------ *)
(* one event, either mode                                              *)
(* ------------------------------------------------------------------ *)
Lemma concat_event_segs final st e evs cs cn :
  ren_ok (c_src_idx st) cs (c_sources st) -> ren_ok (c_name_idx st) cn (c_names st) ->
  dense (e :: evs) (len cs) (len cn) = true ->
  let r := concat_event final st e in
  ren_ok (c_src_idx (fst r)) (fst (tabs [e] cs cn)) (c_sources (fst r)) /\
  ren_ok (c_name_idx (fst r)) (snd (tabs [e] cs cn)) (c_names (fst r)) /\
  dense evs (len (fst (tabs [e] cs cn))) (len (snd (tabs [e] cs cn))) = true /\
  tabs (snd r) (c_sources st) (c_names st) = (c_sources (fst r), c_names (fst r)) /\
  fsegs (snd r) (c_sources st) (c_names st) =
    (match e with
     | EChunk _ m => if c_close st && negb (at10 m) then [clseg st] else []
     | _ => [] end)
    ++ map (shseg (c_loff st) (c_coff st)) (fsegs [e] cs cn) /\
  c_close (fst r) = (match e with EChunk _ _ => false | _ => c_close st end) /\
  c_last_line (fst r) =
    (match e with EChunk _ m => if is_mapped m then g_line m else 0 | _ => c_last_line st end).
Proof.
  intros Hs Hn Hd. cbn zeta. destruct e as [chunk m|i name content|i name].
  - (* chunk *)
    cbn [concat_event]. cbn [dense] in Hd.
    apply andb_true_iff in Hd. destruct Hd as [Hm Hd]. cbn [tabs fst snd].
    assert (Hcl : forall out,
      fsegs ((if c_close st && negb ((g_line m =? 1) && (g_col m =? 0)) then [closer st] else []) ++ [out])
            (c_sources st) (c_names st) =
      (if c_close st && negb (at10 m) then [clseg st] else []) ++ fsegs [out] (c_sources st) (c_names st)).
    { intros out. unfold at10. destruct (c_close st && negb ((g_line m =? 1) && (g_col m =? 0))); reflexivity. }
    assert (Htb : forall out : event, (exists t mp, out = EChunk t mp) ->
      tabs ((if c_close st && negb ((g_line m =? 1) && (g_col m =? 0)) then [closer st] else []) ++ [out])
           (c_sources st) (c_names st) = (c_sources st, c_names st)).
    { intros out [t [mp ->]]. destruct (c_close st && negb ((g_line m =? 1) && (g_col m =? 0))); reflexivity. }
    unfold is_mapped.
    destruct (m_orig m) as [o|] eqn:Eo.
    + apply andb_true_iff in Hm. destruct Hm as [Ho Hna]. apply N.ltb_lt in Ho.
      destruct (snth_lt_some cs (o_src o) Ho) as [x Hx]. destruct (Hs _ _ Hx) as [g [G1 G2]].
      rewrite G1.
      destruct (o_name o) as [k|] eqn:Ek.
      * apply N.ltb_lt in Hna. destruct (snth_lt_some cn k Hna) as [y Hy].
        destruct (Hn _ _ Hy) as [gk [K1 K2]]. rewrite K1.
        cbn [fst snd c_close c_src_idx c_name_idx c_sources c_names c_last_line].
        split; [exact Hs|]. split; [exact Hn|]. split; [exact Hd|].
        split; [apply Htb; eexists; eexists; reflexivity|]. split; [|split; reflexivity].
        rewrite Hcl. f_equal. unfold fsegs, shseg, shift.
        cbn [rsegs_of_events map fst snd m_orig o_src o_line o_col o_name g_line g_col].
        rewrite Eo. cbn [o_src o_name]. rewrite Ek, G2, K2, Hx, Hy. reflexivity.
      * cbn [fst snd c_close c_src_idx c_name_idx c_sources c_names c_last_line].
        split; [exact Hs|]. split; [exact Hn|]. split; [exact Hd|].
        split; [apply Htb; eexists; eexists; reflexivity|]. split; [|split; reflexivity].
        rewrite Hcl. f_equal. unfold fsegs, shseg, shift.
        cbn [rsegs_of_events map fst snd m_orig o_src o_line o_col o_name g_line g_col].
        rewrite Eo. cbn [o_src o_name]. rewrite Ek, G2, Hx. reflexivity.
    + cbn [fst snd c_close c_src_idx c_name_idx c_sources c_names c_last_line].
      split; [exact Hs|]. split; [exact Hn|]. split; [exact Hd|].
      split; [apply Htb; eexists; eexists; reflexivity|]. split; [|split; reflexivity].
      rewrite Hcl. f_equal. unfold fsegs, shseg, shift.
      cbn [rsegs_of_events map fst snd m_orig unmapped g_line g_col]. rewrite Eo. reflexivity.
  - (* source *)
    cbn [dense] in Hd. apply andb_true_iff in Hd. destruct Hd as [Hi Hd]. apply N.eqb_eq in Hi. subst i.
    cbn [tabs fst snd]. rewrite lm_insert_next, slen_snoc.
    cbn [concat_event]. destruct (find_text (c_sources st) name 0) as [g|] eqn:E;
      cbn [fst snd c_close c_src_idx c_name_idx c_sources c_names c_last_line].
    + split; [apply ren_ok_insert; [exact Hs|apply find_text_nth0; exact E]|].
      split; [exact Hn|]. split; [exact Hd|]. repeat split; reflexivity.
    + split; [apply ren_ok_insert; [apply ren_ok_grow; exact Hs|apply snth_len_snoc]|].
      split; [exact Hn|]. split; [exact Hd|].
      split; [cbn [tabs]; rewrite lm_insert_next; reflexivity|]. repeat split; reflexivity.
  - (* name *)
    cbn [dense] in Hd. apply andb_true_iff in Hd. destruct Hd as [Hi Hd]. apply N.eqb_eq in Hi. subst i.
    cbn [tabs fst snd]. rewrite lm_insert_next, slen_snoc.
    cbn [concat_event]. destruct (find_text (c_names st) name 0) as [g|] eqn:E;
      cbn [fst snd c_close c_src_idx c_name_idx c_sources c_names c_last_line].
    + split; [exact Hs|].
      split; [apply ren_ok_insert; [exact Hn|apply find_text_nth0; exact E]|].
      split; [exact Hd|]. repeat split; reflexivity.
    + split; [exact Hs|].
      split; [apply ren_ok_insert; [apply ren_ok_grow; exact Hn|apply snth_len_snoc]|].
      split; [exact Hd|].
      split; [cbn [tabs]; rewrite lm_insert_next; reflexivity|]. repeat split; reflexivity.
Qed.

(* ------------------------------------------------------------------ *)
(* the events of one child, either mode                                 *)
(* ------------------------------------------------------------------ *)
Definition head10 (ms : list mapping) : bool := match ms with [] => true | m :: _ => at10 m end.

Fixpoint last_ml (ms : list mapping) (d : N) : N :=
  match ms with
  | [] => d
  | m :: ms' => last_ml ms' (if is_mapped m then g_line m else 0)
  end.

Lemma concat_events_segs final : forall evs st cs cn,
  ren_ok (c_src_idx st) cs (c_sources st) -> ren_ok (c_name_idx st) cn (c_names st) ->
  dense evs (len cs) (len cn) = true ->
  let r := concat_events final st evs in
  tabs (snd r) (c_sources st) (c_names st) = (c_sources (fst r), c_names (fst r)) /\
  fsegs (snd r) (c_sources st) (c_names st) =
    (if c_close st && negb (head10 (chunk_mappings evs)) then [clseg st] else [])
    ++ map (shseg (c_loff st) (c_coff st)) (fsegs evs cs cn) /\
  c_close (fst r) = c_close st && is_nil (chunk_mappings evs) /\
  c_last_line (fst r) = last_ml (chunk_mappings evs) (c_last_line st).
Proof.
  induction evs as [|e evs IH]; intros st cs cn Hs Hn Hd; cbn zeta.
  - cbn [concat_events fst snd chunk_mappings head10 negb is_nil last_ml tabs].
    rewrite !andb_false_r, andb_true_r. repeat split; reflexivity.
  - cbn [concat_events].
    pose proof (concat_event_segs final st e evs cs cn Hs Hn Hd) as [A1 [A2 [A3 [A4 [A5 [A6 A7]]]]]].
    pose proof (concat_event_offs final st e) as [O1 O2].
    destruct (concat_event final st e) as [st1 o1]. cbn [fst snd] in *.
    pose proof (IH st1 _ _ A1 A2 A3) as [B1 [B2 [B3 B4]]].
    destruct (concat_events final st1 evs) as [st2 o2]. cbn [fst snd] in *.
    assert (Hcl : clseg st1 = clseg st) by (unfold clseg; rewrite O1, O2; reflexivity).
    rewrite O1, O2, Hcl in B2.
    split; [rewrite tabs_app, A4; exact B1|].
    change (e :: evs) with ([e] ++ evs) at 2. rewrite (fsegs_app [e] evs), map_app.
    rewrite fsegs_app, A4. cbn [fst snd]. rewrite A5, B2.
    destruct e as [t m|i nm c|i nm].
    + rewrite A6 in *. cbn [andb app] in *. cbn [chunk_mappings head10 is_nil last_ml].
      rewrite andb_false_r. split; [rewrite <- app_assoc; reflexivity|]. split; [exact B3|].
      rewrite B4, A7. reflexivity.
    + rewrite A6 in *. cbn [chunk_mappings]. cbn [app].
      assert (E : fsegs [ESource i nm c] cs cn = []) by reflexivity. rewrite E. cbn [map app].
      split; [reflexivity|]. split; [exact B3|]. rewrite B4, A7. reflexivity.
    + rewrite A6 in *. cbn [chunk_mappings]. cbn [app].
      assert (E : fsegs [EName i nm] cs cn = []) by reflexivity. rewrite E. cbn [map app].
      split; [reflexivity|]. split; [exact B3|]. rewrite B4, A7. reflexivity.
Qed.

(* ------------------------------------------------------------------ *)
(* one child, text-less mode                                            *)
(* ------------------------------------------------------------------ *)
(* is a closing segment due before this child's segments? *)
Definition need (ms : list mapping) (gi : N * N) : bool :=
  match ms with
  | [] => negb ((fst gi =? 1) && (snd gi =? 0))
  | m :: _ => negb (at10 m)
  end.

Lemma concat_child_segs st evs gi :
  dense evs 0 0 = true ->
  let r := concat_child true st evs gi in
  let ms := chunk_mappings evs in
  tabs (snd r) (c_sources st) (c_names st) = (c_sources (fst r), c_names (fst r)) /\
  fsegs (snd r) (c_sources st) (c_names st) =
    (if c_close st && need ms gi then [clseg st] else [])
    ++ map (shseg (c_loff st) (c_coff st)) (fsegs evs [] []) /\
  c_close (fst r) =
    match ms with
    | [] => (c_close st && negb (need ms gi)) || (0 =? fst gi)
    | _ :: _ => last_ml ms 0 =? fst gi
    end.
Proof.
  intros Hd. cbn zeta. unfold concat_child.
  pose proof (concat_events_segs true evs (concat_child_start st) [] []
                (ren_ok_nil _) (ren_ok_nil _) Hd) as [A1 [A2 [A3 A4]]].
  pose proof (concat_events_offs true evs (concat_child_start st)) as [O1 O2].
  change (c_sources (concat_child_start st)) with (c_sources st) in *.
  change (c_names (concat_child_start st)) with (c_names st) in *.
  change (c_loff (concat_child_start st)) with (c_loff st) in *.
  change (c_coff (concat_child_start st)) with (c_coff st) in *.
  change (c_close (concat_child_start st)) with (c_close st) in *.
  change (c_last_line (concat_child_start st)) with 0 in *.
  change (clseg (concat_child_start st)) with (clseg st) in *.
  destruct (concat_events true (concat_child_start st) evs) as [st1 o1]. cbn [fst snd] in *.
  unfold concat_child_end. cbn [fst snd c_sources c_names c_close].
  assert (Hcl : clseg st1 = clseg st) by (unfold clseg; rewrite O1, O2; reflexivity).
  rewrite A3, A4.
  destruct (chunk_mappings evs) as [|m ms] eqn:Ems.
  - (* no chunk: the closer, if any, comes at the end *)
    cbn [is_nil head10 negb need last_ml] in *. rewrite andb_true_r, andb_false_r in *. cbn [app] in A2.
    rewrite (fsegs_nochunk evs [] [] Ems) in *. cbn [map] in A2.
    split.
    { rewrite tabs_app, A1. destruct (c_close st && negb ((fst gi =? 1) && (snd gi =? 0))); reflexivity. }
    split.
    { rewrite fsegs_app, A1, A2. cbn [fst snd app map]. rewrite app_nil_r.
      destruct (c_close st && negb ((fst gi =? 1) && (snd gi =? 0))); [|reflexivity].
      unfold fsegs. cbn [rsegs_of_events closer unmapped map snd g_line g_col m_orig]. rewrite O1, O2. reflexivity. }
    destruct (c_close st); cbn [andb orb negb]; [|reflexivity].
    destruct (negb ((fst gi =? 1) && (snd gi =? 0))); reflexivity.
  - cbn [is_nil head10 need] in *. rewrite andb_false_r in *. cbn [andb app orb].
    rewrite app_nil_r. split; [exact A1|]. split; [exact A2|]. reflexivity.
Qed.

(* ------------------------------------------------------------------ *)
(* looking a position up in a segment list                              *)
(* ------------------------------------------------------------------ *)
Definition squal (l c : N) (s : rseg) : bool := (fst (fst s) =? l) && (snd (fst s) <=? c).
Definition qualb (segs : list rseg) (l c : N) : bool := existsb (squal l c) segs.

Lemma seg_lookup_cons s segs l c best :
  seg_lookup (s :: segs) l c best = seg_lookup segs l c (if squal l c s then snd s else best).
Proof. destruct s as [[sl sc] a]. unfold squal. cbn [seg_lookup fst snd]. destruct ((sl =? l) && (sc <=? c)); reflexivity. Qed.

Lemma seg_lookup_app a : forall b l c best,
  seg_lookup (a ++ b) l c best = seg_lookup b l c (seg_lookup a l c best).
Proof.
  induction a as [|s a IH]; intros b l c best; [reflexivity|].
  cbn [app]. rewrite !seg_lookup_cons. apply IH.
Qed.

Lemma seg_lookup_best segs l c : forall best,
  seg_lookup segs l c best = if qualb segs l c then seg_lookup segs l c None else best.
Proof.
  induction segs as [|s segs IH]; intros best; [reflexivity|].
  rewrite !seg_lookup_cons. unfold qualb. cbn [existsb]. destruct (squal l c s); cbn [orb].
  - reflexivity.
  - apply IH.
Qed.

Lemma seg_lookup_noqual segs l c best :
  Forall (fun s => squal l c s = false) segs -> seg_lookup segs l c best = best.
Proof.
  intros H. rewrite seg_lookup_best. replace (qualb segs l c) with false; [reflexivity|].
  symmetry. unfold qualb. induction H as [|s segs Hs _ IH]; [reflexivity|]. cbn [existsb]. rewrite Hs, IH. reflexivity.
Qed.

Lemma qualb_mono segs l c c' : qualb segs l c = true -> c <= c' -> qualb segs l c' = true.
Proof.
  unfold qualb. intros H Hc. apply existsb_exists in H. destruct H as [s [Hin Hs]].
  apply existsb_exists. exists s. split; [exact Hin|]. unfold squal in *.
  apply andb_true_iff in Hs. destruct Hs as [H1 H2]. rewrite H1. apply N.leb_le in H2. apply N.leb_le. lia.
Qed.

Lemma squal_shift lo co s l c : 1 <= fst (fst s) -> 1 <= l ->
  squal (l + lo) (if l =? 1 then c + co else c) (shseg lo co s) = squal l c s.
Proof.
  destruct s as [[sl sc] a]. unfold squal, shseg, shift. cbn [fst snd]. intros Hs Hl.
  destruct (N.eq_dec sl l) as [->|Hne].
  - rewrite !N.eqb_refl. cbn [andb]. destruct (l =? 1).
    + destruct (sc <=? c) eqn:E.
      * apply N.leb_le in E. apply N.leb_le. lia.
      * apply N.leb_gt in E. apply N.leb_gt. lia.
    + reflexivity.
  - replace (sl + lo =? l + lo) with false by (symmetry; apply N.eqb_neq; lia).
    replace (sl =? l) with false by (symmetry; apply N.eqb_neq; lia). reflexivity.
Qed.

Lemma seg_lookup_shift lo co segs l c : Forall (fun s => 1 <= fst (fst s)) segs -> 1 <= l -> forall best,
  seg_lookup (map (shseg lo co) segs) (l + lo) (if l =? 1 then c + co else c) best = seg_lookup segs l c best.
Proof.
  intros H Hl. induction H as [|s segs Hs _ IH]; intros best; [reflexivity|].
  cbn [map]. rewrite !seg_lookup_cons, (squal_shift lo co s l c Hs Hl). apply IH.
Qed.

(* ------------------------------------------------------------------ *)
(* positions                                                           *)
(* ------------------------------------------------------------------ *)
Lemma shift_ple lo co p q : ple p q -> ple (shift lo co p) (shift lo co q).
Proof.
  unfold ple, shift. cbn [fst snd]. intros [H|[H1 H2]]; [left; lia|]. right. rewrite H1.
  split; [reflexivity|]. destruct (fst q =? 1); lia.
Qed.

Lemma shift_plt lo co p q : plt p q -> plt (shift lo co p) (shift lo co q).
Proof.
  unfold plt, shift. cbn [fst snd]. intros [H|[H1 H2]]; [left; lia|]. right. rewrite H1.
  split; [reflexivity|]. destruct (fst q =? 1); lia.
Qed.

Lemma is_position_ple T l c : is_position T l c = true -> 1 <= l /\ ple (l, c) (advance 1 0 T).
Proof.
  intros H. apply is_position_split in H. destruct H as [a [b [-> A]]].
  pose proof (advance_line_ge 1 0 a) as Hge. rewrite A in Hge. cbn [fst] in Hge. split; [exact Hge|].
  rewrite (advance_app' 1 0 a b l c A). apply advance_ple.
Qed.

Lemma plt_not_squal l c s : plt (l, c) (fst s) -> squal l c s = false.
Proof.
  destruct s as [[sl sc] a]. unfold plt, squal. cbn [fst snd]. intros H.
  apply andb_false_iff. destruct (N.eq_dec sl l) as [E|E].
  - right. apply N.leb_gt. lia.
  - left. apply N.eqb_neq. exact E.
Qed.

Lemma line_lt_not_squal l c s : fst (fst s) < l -> squal l c s = false.
Proof.
  destruct s as [[sl sc] a]. unfold squal. cbn [fst snd]. intros H.
  apply andb_false_iff. left. apply N.eqb_neq. lia.
Qed.

(* ------------------------------------------------------------------ *)
(* one position of one child                                            *)
(* ------------------------------------------------------------------ *)
Lemma child_lookup pre cl segs post lo co gl gc l c :
  Forall (fun s => ple (fst s) (lo + 1, co)) pre ->
  (cl = [] \/ cl = [(lo + 1, co, None)]) ->
  Forall (fun s => 1 <= fst (fst s)) segs ->
  Forall (fun s => ple (shift lo co (gl, gc)) (fst s)) post ->
  ((forall C, co <= C -> seg_lookup (pre ++ cl) (lo + 1) C None = None) \/ qualb segs 1 0 = true) ->
  1 <= l -> plt (l, c) (gl, gc) ->
  seg_lookup (pre ++ cl ++ map (shseg lo co) segs ++ post) (l + lo) (if l =? 1 then c + co else c) None
  = seg_lookup segs l c None.
Proof.
  intros Hpre Hcl Hsegs Hpost Hinv Hl Hlt.
  rewrite app_assoc, seg_lookup_app, seg_lookup_app.
  rewrite (seg_lookup_noqual post).
  2:{ eapply Forall_impl; [|exact Hpost]. cbn beta. intros s Hs. apply plt_not_squal.
      eapply plt_ple_trans; [|exact Hs]. apply (shift_plt lo co (l, c) (gl, gc)) in Hlt.
      unfold shift in Hlt at 1. cbn [fst snd] in Hlt. exact Hlt. }
  rewrite (seg_lookup_shift lo co segs l c Hsegs Hl), seg_lookup_best.
  destruct (qualb segs l c) eqn:Eq; [reflexivity|].
  rewrite (seg_lookup_best segs l c None), Eq.
  destruct (N.eq_dec l 1) as [->|Hne].
  - change (1 =? 1) with true. cbn iota. replace (1 + lo) with (lo + 1) by lia.
    destruct Hinv as [Ha|Hb]; [apply Ha; lia|].
    rewrite (qualb_mono segs 1 0 c Hb) in Eq by lia. discriminate.
  - apply seg_lookup_noqual. apply Forall_app. split.
    + eapply Forall_impl; [|exact Hpre]. cbn beta. intros s Hs. apply line_lt_not_squal.
      unfold ple in Hs. cbn [fst snd] in Hs. alia.
    + destruct Hcl as [->| ->]; [constructor|]. constructor; [|constructor].
      apply line_lt_not_squal. cbn [fst]. lia.
Qed.

(* ------------------------------------------------------------------ *)
(* attribution of a text moved by the offsets                           *)
(* ------------------------------------------------------------------ *)
Lemma attr_by_fun_shift f g lo co t : forall l c, 1 <= l ->
  (forall l' c', 1 <= l' -> ple (l, c) (l', c') -> plt (l', c') (advance l c t) ->
     f (l' + lo) (if l' =? 1 then c' + co else c') = g l' c') ->
  attr_by_fun f t (l + lo) (if l =? 1 then c + co else c) = attr_by_fun g t l c.
Proof.
  induction t as [|b t IH]; intros l c Hl H; [reflexivity|]. cbn [attr_by_fun]. f_equal.
  - apply H; [exact Hl|apply ple_refl|apply advance_plt].
  - cbn [advance] in H. destruct (b =? NL).
    + replace (l + lo + 1) with ((l + 1) + lo) by lia.
      specialize (IH (l + 1) 0).
      replace (l + 1 =? 1) with false in IH by (symmetry; apply N.eqb_neq; lia).
      apply IH; [lia|]. intros l' c' H0 H1 H2. apply H; [exact H0| |exact H2].
      eapply ple_trans; [|exact H1]. unfold ple. cbn [fst snd]. lia.
    + specialize (IH l (c + 1)).
      replace ((if l =? 1 then c + co else c) + 1) with (if l =? 1 then c + 1 + co else c + 1)
        by (destruct (l =? 1); lia).
      apply IH; [exact Hl|]. intros l' c' H0 H1 H2. apply H; [exact H0| |exact H2].
      eapply ple_trans; [|exact H1]. unfold ple. cbn [fst snd]. lia.
Qed.

(* ------------------------------------------------------------------ *)
(* the segments of a dense event list, through its final tables         *)
(* ------------------------------------------------------------------ *)
Definition kfile (evs : list event) : N -> text := fileT (fst (tabs evs [] [])).
Definition kname (evs : list event) : N -> text := fileT (snd (tabs evs [] [])).

Lemma fsegs_dense evs : dense evs 0 0 = true ->
  fsegs evs [] [] = map (rsF (kfile evs) (kname evs)) (chunk_mappings evs).
Proof. intros H. apply rsegs_resolved. apply (dense_ann_ok evs [] []). exact H. Qed.

Lemma ev_pos_cm t evs : Forall (ev_pos t) evs ->
  Forall (fun m => is_position t (g_line m) (g_col m) = true) (chunk_mappings evs).
Proof.
  induction 1 as [|e evs He _ IH]; [constructor|].
  destruct e as [tx m|i n c|i n]; cbn [chunk_mappings]; [constructor; [exact He|exact IH]|exact IH|exact IH].
Qed.

(* after a child whose last segment is not a mapped one on its last line, nothing is left
   open on that line *)
Lemma tail_closed fS fN gl gc c0 : forall ms d b,
  ssorted ms -> Forall (fun m => 1 <= g_line m /\ ple (mpos m) (gl, gc)) ms ->
  last_ml ms d <> gl -> gc <= c0 ->
  seg_lookup (map (rsF fS fN) ms) gl c0 b = if existsb (fun m => g_line m =? gl) ms then None else b.
Proof.
  induction ms as [|m ms IH]; intros d b Hs Hp Hl Hc; [reflexivity|].
  destruct Hs as [Hm Hs]. inversion Hp as [|? ? [Hm1 Hm2] Hp']; subst.
  cbn [map]. rewrite seg_lookup_cons. cbn [last_ml existsb] in *.
  change (rsF fS fN m) with (g_line m, g_col m, optF fS fN (m_orig m)). unfold squal. cbn [fst snd].
  destruct (g_line m =? gl) eqn:E.
  - apply N.eqb_eq in E. unfold ple, mpos in Hm2. cbn [fst snd] in Hm2.
    replace (g_col m <=? c0) with true by (symmetry; apply N.leb_le; lia). cbn [andb orb].
    rewrite (IH _ (optF fS fN (m_orig m)) Hs Hp' Hl Hc).
    destruct (existsb (fun m0 => g_line m0 =? gl) ms) eqn:Ex; [reflexivity|].
    destruct ms as [|m2 ms2].
    + cbn [last_ml] in Hl. unfold is_mapped in Hl. destruct (m_orig m); [contradiction|reflexivity].
    + exfalso. cbn [existsb] in Ex. apply orb_false_iff in Ex. destruct Ex as [Ex _]. apply N.eqb_neq in Ex.
      inversion Hm as [|? ? Hle _]; subst. apply pos_le_iff in Hle.
      inversion Hp' as [|? ? [_ H2] _]; subst. unfold ple, mpos in H2. cbn [fst snd] in H2. lia.
  - cbn [andb orb]. apply (IH _ b Hs Hp' Hl Hc).
Qed.

(* ------------------------------------------------------------------ *)
(* children: what the fold needs of each of them                         *)
(* ------------------------------------------------------------------ *)
Definition kid := (list event * (N * N) * text)%type.

Definition kid_ok (tr : kid) : Prop :=
  dense (tr_events tr) 0 0 = true /\
  Forall (ev_pos (tr_text tr)) (tr_events tr) /\
  tr_info tr = advance 1 0 (tr_text tr) /\
  ssorted (chunk_mappings (tr_events tr)).

Lemma kid_facts tr : kid_ok tr ->
  Forall (fun m => 1 <= g_line m /\ ple (mpos m) (tr_info tr)) (chunk_mappings (tr_events tr)).
Proof.
  intros [_ [Hp [Hi _]]]. rewrite Hi. eapply Forall_impl; [|apply (ev_pos_cm _ _ Hp)]. cbn beta.
  intros m Hm. apply is_position_ple. exact Hm.
Qed.

Lemma kid_seg_lines tr : kid_ok tr -> Forall (fun s : rseg => 1 <= fst (fst s)) (fsegs (tr_events tr) [] []).
Proof.
  intros H. destruct H as [Hd Hr]. rewrite (fsegs_dense _ Hd). apply Forall_forall. intros s Hs.
  apply in_map_iff in Hs. destruct Hs as [m [<- Hm]]. cbn [rsF fst].
  pose proof (kid_facts tr (conj Hd Hr)) as F. rewrite Forall_forall in F. apply (F m Hm).
Qed.

(* what one child adds *)
Definition child_cl (st : cstate) (tr : kid) : list rseg :=
  if c_close st && need (chunk_mappings (tr_events tr)) (tr_info tr) then [clseg st] else [].

Lemma child_decomp st out tr :
  tabs out [] [] = (c_sources st, c_names st) -> kid_ok tr ->
  let r := concat_child true st (tr_events tr) (tr_info tr) in
  tabs (out ++ snd r) [] [] = (c_sources (fst r), c_names (fst r)) /\
  cpos (fst r) = shift (c_loff st) (c_coff st) (tr_info tr) /\
  fsegs (out ++ snd r) [] [] =
    fsegs out [] [] ++ child_cl st tr ++ map (shseg (c_loff st) (c_coff st)) (fsegs (tr_events tr) [] []) /\
  c_close (fst r) =
    match chunk_mappings (tr_events tr) with
    | [] => (c_close st && negb (need [] (tr_info tr))) || (0 =? fst (tr_info tr))
    | _ :: _ => last_ml (chunk_mappings (tr_events tr)) 0 =? fst (tr_info tr)
    end.
Proof.
  intros Ht [Hd [Hp [Hi Hs]]]. cbn zeta.
  pose proof (concat_child_segs st (tr_events tr) (tr_info tr) Hd) as [A1 [A2 A3]]. cbn zeta in *.
  pose proof (concat_child_cpos true st (tr_events tr) (tr_info tr) (tr_text tr) Hi) as A4.
  destruct (concat_child true st (tr_events tr) (tr_info tr)) as [st' o]. cbn [fst snd] in *.
  split; [rewrite tabs_app, Ht; exact A1|]. split.
  { rewrite A4, <- (shift_start st), adv_shift by (cbn; lia). unfold adv. cbn [fst snd]. rewrite Hi. reflexivity. }
  split; [|destruct (chunk_mappings (tr_events tr)); exact A3].
  rewrite fsegs_app, Ht. cbn [fst snd]. rewrite A2. reflexivity.
Qed.

(* ------------------------------------------------------------------ *)
(* the invariant of the fold                                            *)
(* ------------------------------------------------------------------ *)
Record finv (st : cstate) (out : list event) : Prop := mkFinv {
  fi_tabs : tabs out [] [] = (c_sources st, c_names st);
  fi_le : Forall (fun s : rseg => ple (fst s) (cpos st)) (fsegs out [] []);
  fi_open : c_close st = false -> forall C, c_coff st <= C ->
            seg_lookup (fsegs out [] []) (c_loff st + 1) C None = None }.

Lemma finv_init : finv concat_init [].
Proof. constructor; [reflexivity|constructor|reflexivity]. Qed.

Lemma clseg_squal st C : c_coff st <= C -> squal (c_loff st + 1) C (clseg st) = true.
Proof.
  intros H. unfold squal, clseg. cbn [fst snd]. rewrite N.eqb_refl.
  replace (c_coff st <=? C) with true by (symmetry; apply N.leb_le; exact H). reflexivity.
Qed.

(* before the child's own segments, nothing is open at the join - unless the child starts with a
   segment at (1,0), or is empty *)
Lemma child_join st out tr : finv st out -> kid_ok tr ->
  (forall C, c_coff st <= C ->
     seg_lookup (fsegs out [] [] ++ child_cl st tr) (c_loff st + 1) C None = None)
  \/ qualb (fsegs (tr_events tr) [] []) 1 0 = true \/ tr_text tr = [].
Proof.
  intros [_ _ Hopen] [Hd [Hp [Hi Hs]]]. unfold child_cl.
  destruct (c_close st) eqn:Ec; cbn [andb].
  - destruct (need (chunk_mappings (tr_events tr)) (tr_info tr)) eqn:En.
    + left. intros C HC. rewrite seg_lookup_app, seg_lookup_cons, (clseg_squal st C HC).
      reflexivity.
    + right. rewrite (fsegs_dense _ Hd). destruct (chunk_mappings (tr_events tr)) as [|m ms]; cbn [need] in En.
      * right. apply negb_false_iff in En. apply andb_true_iff in En. destruct En as [E1 E2].
        apply N.eqb_eq in E1. apply N.eqb_eq in E2. apply advance_start_nil. rewrite <- Hi.
        destruct (tr_info tr) as [gl gc]. cbn [fst snd] in *. subst. reflexivity.
      * left. apply negb_false_iff in En. unfold at10 in En. apply andb_true_iff in En. destruct En as [E1 E2].
        apply N.eqb_eq in E2. unfold qualb. cbn [map existsb].
        change (rsF (kfile (tr_events tr)) (kname (tr_events tr)) m)
          with (g_line m, g_col m, optF (kfile (tr_events tr)) (kname (tr_events tr)) (m_orig m)).
        unfold squal at 1. cbn [fst snd]. rewrite E1, E2. reflexivity.
  - left. intros C HC. rewrite app_nil_r. apply Hopen; [reflexivity|exact HC].
Qed.

Lemma finv_step st out tr : finv st out -> kid_ok tr ->
  finv (fst (concat_child true st (tr_events tr) (tr_info tr)))
       (out ++ snd (concat_child true st (tr_events tr) (tr_info tr))).
Proof.
  intros HI Hk. pose proof (child_join st out tr HI Hk) as Hjoin.
  destruct HI as [Ht Hle Hopen].
  pose proof (child_decomp st out tr Ht Hk) as [B1 [B2 [B3 B4]]]. cbn zeta in *.
  pose proof (kid_facts tr Hk) as Hf. pose proof (kid_seg_lines tr Hk) as Hlines.
  destruct Hk as [Hd [Hp [Hi Hs]]].
  destruct (concat_child true st (tr_events tr) (tr_info tr)) as [st' o]. cbn [fst snd] in *.
  assert (Hmono : ple (cpos st) (cpos st')).
  { rewrite B2, <- (shift_start st). apply shift_ple. rewrite Hi. apply advance_ple. }
  assert (Hcl : child_cl st tr = [] \/ child_cl st tr = [(c_loff st + 1, c_coff st, None)]).
  { unfold child_cl. destruct (c_close st && need (chunk_mappings (tr_events tr)) (tr_info tr)); [right|left]; reflexivity. }
  constructor.
  - exact B1.
  - rewrite B3. apply Forall_app. split; [|apply Forall_app; split].
    + eapply Forall_impl; [|exact Hle]. cbn beta. intros s Hs0. eapply ple_trans; eassumption.
    + destruct Hcl as [->| ->]; [constructor|]. constructor; [exact Hmono|constructor].
    + rewrite (fsegs_dense _ Hd), map_map. apply Forall_forall. intros s Hin.
      apply in_map_iff in Hin. destruct Hin as [m [<- Hm]]. unfold shseg. cbn [fst rsF].
      rewrite B2. apply shift_ple. rewrite Forall_forall in Hf. apply (Hf m Hm).
  - intros Hc C HC. rewrite B3.
    destruct (tr_info tr) as [gl gc] eqn:Egi. cbn [fst snd] in *.
    assert (Hgl : 1 <= gl).
    { pose proof (advance_line_ge 1 0 (tr_text tr)) as G. rewrite <- Hi in G. exact G. }
    unfold cpos in B2. unfold shift in B2. cbn [fst snd] in B2. inversion B2 as [[L1 L2]].
    set (c0 := if gl =? 1 then C - c_coff st else C).
    assert (Hc0 : gc <= c0) by (unfold c0; destruct (gl =? 1); lia).
    assert (HC0 : C = if gl =? 1 then c0 + c_coff st else c0) by (unfold c0; destruct (gl =? 1); lia).
    clearbody c0. replace (c_loff st' + 1) with (gl + c_loff st) by lia. rewrite HC0. clear HC0 HC.
    rewrite app_assoc, seg_lookup_app, (seg_lookup_shift _ _ _ gl c0 Hlines Hgl).
    assert (Hb2 : 2 <= gl ->
      seg_lookup (fsegs out [] [] ++ child_cl st tr) (gl + c_loff st) (if gl =? 1 then c0 + c_coff st else c0) None = None).
    { intros H2. apply seg_lookup_noqual. apply Forall_app. split.
      - eapply Forall_impl; [|exact Hle]. cbn beta. intros s Hs0. apply line_lt_not_squal.
        unfold ple, cpos in Hs0. cbn [fst snd] in Hs0. alia.
      - destruct Hcl as [->| ->]; [constructor|]. constructor; [|constructor].
        apply line_lt_not_squal. cbn [fst]. lia. }
    rewrite (fsegs_dense _ Hd).
    destruct (chunk_mappings (tr_events tr)) as [|m ms] eqn:Ems.
    + (* no segment of its own *)
      cbn [map seg_lookup].
      destruct (N.eq_dec gl 1) as [->|Hne]; [|apply Hb2; lia].
      change (1 =? 1) with true. cbn iota. replace (1 + c_loff st) with (c_loff st + 1) by lia.
      destruct Hjoin as [Hj|[Hj|Hj]].
      * apply Hj. lia.
      * rewrite (fsegs_dense _ Hd), Ems in Hj. discriminate.
      * (* empty child *)
        unfold child_cl. rewrite Ems. cbn [need fst snd]. rewrite Hj in Hi. cbn [advance] in Hi. inversion Hi; subst.
        rewrite Egi. cbn [fst snd N.eqb Pos.eqb andb negb]. rewrite andb_false_r, app_nil_r.
        cbn [need fst snd N.eqb Pos.eqb andb negb orb] in B4. rewrite andb_true_r, orb_false_r in B4.
        apply Hopen; [congruence|lia].
    + rewrite <- Ems in *.
      assert (Hll : last_ml (chunk_mappings (tr_events tr)) 0 <> gl).
      { rewrite Ems in B4. rewrite <- Ems in B4. rewrite Hc in B4. symmetry in B4. apply N.eqb_neq in B4. exact B4. }
      rewrite (tail_closed _ _ gl gc c0 _ 0 _ Hs Hf Hll Hc0).
      destruct (existsb (fun m0 => g_line m0 =? gl) (chunk_mappings (tr_events tr))) eqn:Ex; [reflexivity|].
      apply Hb2. rewrite Ems in Hf, Ex. inversion Hf as [|? ? [F1 F2] _]; subst.
      cbn [existsb] in Ex. apply orb_false_iff in Ex. destruct Ex as [Ex _]. apply N.eqb_neq in Ex.
      unfold ple, mpos in F2. cbn [fst snd] in F2. lia.
Qed.

(* ------------------------------------------------------------------ *)
(* everything emitted later lies at or after the current position        *)
(* ------------------------------------------------------------------ *)
Lemma child_mono st out tr : tabs out [] [] = (c_sources st, c_names st) -> kid_ok tr ->
  ple (cpos st) (cpos (fst (concat_child true st (tr_events tr) (tr_info tr)))).
Proof.
  intros Ht Hk. pose proof (child_decomp st out tr Ht Hk) as [_ [B2 _]]. cbn zeta in B2.
  rewrite B2, <- (shift_start st). apply shift_ple. destruct Hk as [_ [_ [Hi _]]]. rewrite Hi. apply advance_ple.
Qed.

Lemma fold_future : forall (trs : list kid) st out,
  tabs out [] [] = (c_sources st, c_names st) -> Forall kid_ok trs ->
  exists R, fsegs (snd (concat_fold true (map fst trs) (st, out))) [] [] = fsegs out [] [] ++ R /\
            Forall (fun s : rseg => ple (cpos st) (fst s)) R.
Proof.
  induction trs as [|tr trs IH]; intros st out Ht HF.
  - exists []. cbn [map concat_fold fold_left snd]. rewrite app_nil_r. split; [reflexivity|constructor].
  - inversion HF as [|? ? Hk HF']; subst. cbn [map]. rewrite concat_fold_cons. cbn [fst snd].
    change (fst (fst tr)) with (tr_events tr). change (snd (fst tr)) with (tr_info tr).
    pose proof (child_decomp st out tr Ht Hk) as [B1 [B2 [B3 _]]]. cbn zeta in *.
    pose proof (child_mono st out tr Ht Hk) as Hmono.
    pose proof (kid_facts tr Hk) as Hf. destruct Hk as [Hd _].
    destruct (concat_child true st (tr_events tr) (tr_info tr)) as [st' o]. cbn [fst snd] in *.
    destruct (IH st' (out ++ o) B1 HF') as [R' [E HR']].
    exists (child_cl st tr ++ map (shseg (c_loff st) (c_coff st)) (fsegs (tr_events tr) [] []) ++ R').
    split; [rewrite E, B3, <- !app_assoc; reflexivity|].
    apply Forall_app. split; [|apply Forall_app; split].
    + unfold child_cl. destruct (c_close st && need (chunk_mappings (tr_events tr)) (tr_info tr)); [|constructor].
      constructor; [apply ple_refl|constructor].
    + rewrite (fsegs_dense _ Hd), map_map. apply Forall_forall. intros s Hin.
      apply in_map_iff in Hin. destruct Hin as [m [<- Hm]]. unfold shseg. cbn [fst rsF].
      rewrite <- (shift_start st). apply shift_ple. rewrite Forall_forall in Hf. destruct (Hf m Hm) as [F1 _].
      unfold ple. cbn [fst snd]. lia.
    + eapply Forall_impl; [|exact HR']. cbn beta. intros s Hs. eapply ple_trans; eassumption.
Qed.

(* ------------------------------------------------------------------ *)
(* the fold: the composite's segments attribute each child's text as the child's do *)
(* ------------------------------------------------------------------ *)
Lemma concat_final_fold : forall (trs : list kid) st out, finv st out -> Forall kid_ok trs ->
  attr_by_fun (seg_fun (fsegs (snd (concat_fold true (map fst trs) (st, out))) [] []) true)
              (concat (map tr_text trs)) (c_loff st + 1) (c_coff st)
  = flat_map (fun tr => attr_of_final_events (tr_events tr) (tr_text tr) true) trs.
Proof.
  induction trs as [|tr trs IH]; intros st out HI HF; [reflexivity|].
  inversion HF as [|? ? Hk HF']; subst. cbn [map concat flat_map]. rewrite concat_fold_cons. cbn [fst snd].
  change (fst (fst tr)) with (tr_events tr). change (snd (fst tr)) with (tr_info tr).
  pose proof (finv_step st out tr HI Hk) as HI'.
  pose proof (child_join st out tr HI Hk) as Hjoin.
  pose proof (child_decomp st out tr (fi_tabs _ _ HI) Hk) as [B1 [B2 [B3 _]]]. cbn zeta in *.
  pose proof (kid_seg_lines tr Hk) as Hlines.
  assert (Hi : tr_info tr = advance 1 0 (tr_text tr)) by (destruct Hk as [_ [_ [Hi _]]]; exact Hi).
  pose proof (concat_child_cpos true st (tr_events tr) (tr_info tr) (tr_text tr) Hi) as B4.
  destruct (concat_child true st (tr_events tr) (tr_info tr)) as [st' o]. cbn [fst snd] in *.
  destruct (fold_future trs st' (out ++ o) B1 HF') as [R [E HR]].
  rewrite attr_by_fun_app. f_equal.
  - unfold attr_of_final_events. rewrite attr_by_pos_fun. fold (fsegs (tr_events tr) [] []).
    pose proof (attr_by_fun_shift
                  (seg_fun (fsegs (snd (concat_fold true (map fst trs) (st', out ++ o))) [] []) true)
                  (seg_fun (fsegs (tr_events tr) [] []) true)
                  (c_loff st) (c_coff st) (tr_text tr) 1 0 (N.le_refl 1)) as X.
    change (1 =? 1) with true in X. cbn iota in X. change (0 + c_coff st) with (c_coff st) in X.
    replace (1 + c_loff st) with (c_loff st + 1) in X by lia. apply X. clear X.
    intros l' c' Hl' Hge Hlt. unfold seg_fun. rewrite E, B3, <- !app_assoc.
    destruct (advance 1 0 (tr_text tr)) as [gl gc] eqn:Eadv.
    apply (child_lookup _ _ _ _ _ _ gl gc).
    + destruct HI as [_ Hle _]. exact Hle.
    + unfold child_cl. destruct (c_close st && need (chunk_mappings (tr_events tr)) (tr_info tr)); [right|left]; reflexivity.
    + exact Hlines.
    + rewrite <- Hi, <- B2. exact HR.
    + destruct Hjoin as [Hj|[Hj|Hj]]; [left; exact Hj|right; exact Hj|].
      exfalso. rewrite Hj in Eadv. cbn [advance] in Eadv. inversion Eadv; subst.
      unfold ple, plt in *. cbn [fst snd] in *. lia.
    + exact Hl'.
    + exact Hlt.
  - unfold cpos, adv in B4. cbn [fst snd] in B4. rewrite <- B4. cbn [fst snd]. apply IH; assumption.
Qed.

(* G2, the core lemma *)
Theorem concat_final_attr (trs : list kid) : Forall kid_ok trs ->
  attr_of_final_events (snd (concat_fold true (map fst trs) (concat_init, []))) (concat (map tr_text trs)) true
  = flat_map (fun tr => attr_of_final_events (tr_events tr) (tr_text tr) true) trs.
Proof.
  intros H. unfold attr_of_final_events at 1. rewrite attr_by_pos_fun.
  apply (concat_final_fold trs concat_init [] finv_init H).
Qed.

(* ------------------------------------------------------------------ *)
(* G2: the composite's text-less stream against its text-carrying one   *)
(* ------------------------------------------------------------------ *)
(* children: `trs` are (text-less events, end info, text), `tks` the text-carrying streams *)
Theorem concat_final_vs_text (trs : list kid) (tks : list (list event * (N * N))) :
  Forall kid_ok trs ->
  Forall (fun k => dense (fst k) 0 0 = true) tks ->
  Forall2 (fun tr tk => attr_of_final_events (tr_events tr) (tr_text tr) true = attr_of_stream (fst tk) true)
          trs tks ->
  attr_of_final_events (snd (concat_fold true (map fst trs) (concat_init, []))) (concat (map tr_text trs)) true
  = attr_of_stream (snd (concat_fold false tks (concat_init, []))) true.
Proof.
  intros Hk Hd H2. rewrite (concat_final_attr trs Hk), (concat_attr_cols tks Hd).
  clear Hk Hd. induction H2 as [|tr tk trs tks H _ IH]; [reflexivity|].
  cbn [flat_map]. rewrite H, IH. reflexivity.
Qed.

(* ------------------------------------------------------------------ *)
(* the composite is a good child again                                  *)
(* ------------------------------------------------------------------ *)
Fixpoint psorted (ps : list (N * N)) : Prop :=
  match ps with
  | [] => True
  | p :: ps' => Forall (ple p) ps' /\ psorted ps'
  end.

Lemma ssorted_psorted ms : ssorted ms <-> psorted (map mpos ms).
Proof.
  induction ms as [|m ms IH]; [split; intros; exact I|]. cbn [ssorted map psorted].
  rewrite IH, Forall_map. split; intros [A B]; (split; [|exact B]);
    (eapply Forall_impl; [|exact A]); cbn beta; intros x Hx.
  - apply pos_le_ple. exact Hx.
  - apply pos_le_iff. unfold ple, mpos in Hx. cbn [fst snd] in Hx. exact Hx.
Qed.

Lemma psorted_app a b : psorted a -> psorted b -> (forall x y, In x a -> In y b -> ple x y) -> psorted (a ++ b).
Proof.
  induction a as [|p a IH]; intros Ha Hb Hab; [exact Hb|]. destruct Ha as [Ha1 Ha2]. cbn [app psorted]. split.
  - apply Forall_app. split; [exact Ha1|]. apply Forall_forall. intros y Hy. apply Hab; [left; reflexivity|exact Hy].
  - apply IH; [exact Ha2|exact Hb|]. intros x y Hx Hy. apply Hab; [right; exact Hx|exact Hy].
Qed.

Lemma psorted_shift lo co ps : psorted ps -> psorted (map (shift lo co) ps).
Proof.
  induction ps as [|p ps IH]; intros H; [exact I|]. destruct H as [H1 H2]. cbn [map psorted]. split; [|apply IH; exact H2].
  rewrite Forall_map. eapply Forall_impl; [|exact H1]. cbn beta. intros q Hq. apply shift_ple. exact Hq.
Qed.

Lemma fsegs_pos : forall evs s n, map fst (fsegs evs s n) = map mpos (chunk_mappings evs).
Proof.
  induction evs as [|e evs IH]; intros s n; [reflexivity|].
  destruct e as [t m|i nm c|i nm]; unfold fsegs in *; cbn [rsegs_of_events chunk_mappings]; [|apply IH|apply IH].
  cbn [map snd fst]. rewrite IH. reflexivity.
Qed.

Lemma map_fst_shseg lo co (segs : list rseg) :
  map fst (map (shseg lo co) segs) = map (shift lo co) (map fst segs).
Proof. induction segs as [|s segs IH]; [reflexivity|]. cbn [map shseg fst]. rewrite IH. reflexivity. Qed.

Lemma child_added_ge st tr : kid_ok tr ->
  Forall (fun s : rseg => ple (cpos st) (fst s))
         (child_cl st tr ++ map (shseg (c_loff st) (c_coff st)) (fsegs (tr_events tr) [] [])).
Proof.
  intros Hk. pose proof (kid_facts tr Hk) as Hf. destruct Hk as [Hd _]. apply Forall_app. split.
  - unfold child_cl. destruct (c_close st && need (chunk_mappings (tr_events tr)) (tr_info tr)); [|constructor].
    constructor; [apply ple_refl|constructor].
  - rewrite (fsegs_dense _ Hd), map_map. apply Forall_forall. intros s Hin.
    apply in_map_iff in Hin. destruct Hin as [m [<- Hm]]. unfold shseg. cbn [fst rsF].
    rewrite <- (shift_start st). apply shift_ple. rewrite Forall_forall in Hf. destruct (Hf m Hm) as [F1 _].
    unfold ple. cbn [fst snd]. lia.
Qed.

Lemma fold_psorted : forall (trs : list kid) st out,
  finv st out -> psorted (map fst (fsegs out [] [])) -> Forall kid_ok trs ->
  psorted (map fst (fsegs (snd (concat_fold true (map fst trs) (st, out))) [] [])).
Proof.
  induction trs as [|tr trs IH]; intros st out HI Hp HF; [exact Hp|].
  inversion HF as [|? ? Hk HF']; subst. cbn [map]. rewrite concat_fold_cons. cbn [fst snd].
  change (fst (fst tr)) with (tr_events tr). change (snd (fst tr)) with (tr_info tr).
  pose proof (finv_step st out tr HI Hk) as HI'.
  pose proof (child_decomp st out tr (fi_tabs _ _ HI) Hk) as [_ [_ [B3 _]]]. cbn zeta in *.
  pose proof (child_added_ge st tr Hk) as Hge.
  destruct (concat_child true st (tr_events tr) (tr_info tr)) as [st' o]. cbn [fst snd] in *.
  apply IH; [exact HI'| |exact HF'].
  rewrite B3, map_app. apply psorted_app; [exact Hp| |].
  - rewrite map_app. apply psorted_app.
    + unfold child_cl. destruct (c_close st && need (chunk_mappings (tr_events tr)) (tr_info tr)); cbn [map psorted];
        [split; [constructor|exact I]|exact I].
    + rewrite map_fst_shseg.
      apply psorted_shift. rewrite fsegs_pos. apply ssorted_psorted. destruct Hk as [_ [_ [_ Hs]]]. exact Hs.
    + intros x y Hx Hy. apply Forall_app in Hge. destruct Hge as [G1 G2].
      unfold child_cl in Hx. destruct (c_close st && need (chunk_mappings (tr_events tr)) (tr_info tr)); [|destruct Hx].
      cbn [map fst clseg] in Hx. destruct Hx as [<-|[]].
      apply in_map_iff in Hy. destruct Hy as [s [<- Hs]]. rewrite Forall_forall in G2. apply (G2 s Hs).
  - intros x y Hx Hy. apply in_map_iff in Hx. destruct Hx as [s [<- Hs]]. apply in_map_iff in Hy. destruct Hy as [s' [<- Hs']].
    destruct HI as [_ Hle _]. rewrite Forall_forall in Hle, Hge. eapply ple_trans; [apply (Hle s Hs)|apply (Hge s' Hs')].
Qed.

Lemma fold_pos : forall (trs : list kid) st out T,
  cpos st = adv (1, 0) T -> Forall (ev_pos T) out -> Forall kid_ok trs ->
  cpos (fst (concat_fold true (map fst trs) (st, out))) = adv (1, 0) (T ++ concat (map tr_text trs)) /\
  Forall (ev_pos (T ++ concat (map tr_text trs))) (snd (concat_fold true (map fst trs) (st, out))).
Proof.
  induction trs as [|tr trs IH]; intros st out T HT Hout HF.
  - cbn [map concat concat_fold fold_left fst snd]. rewrite app_nil_r. split; assumption.
  - inversion HF as [|? ? Hk HF']; subst. cbn [map concat]. rewrite concat_fold_cons. cbn [fst snd].
    change (fst (fst tr)) with (tr_events tr). change (snd (fst tr)) with (tr_info tr).
    destruct Hk as [_ [Hp [Hi _]]].
    pose proof (concat_child_cpos true st (tr_events tr) (tr_info tr) (tr_text tr) Hi) as B.
    pose proof (concat_child_pos true T (tr_text tr) st (tr_events tr) (tr_info tr) HT Hp) as D.
    destruct (concat_child true st (tr_events tr) (tr_info tr)) as [st' o]. cbn [fst snd] in *.
    rewrite app_assoc. apply IH; [rewrite B, HT, adv_app; reflexivity| |exact HF'].
    apply Forall_app. split; [|exact D]. eapply Forall_impl; [|exact Hout]. intros e. apply ev_pos_app_r.
Qed.

(* ConcatSources nest: the text-less stream of the composite satisfies what was asked of the children *)
Theorem concat_kid_ok (trs : list kid) : Forall kid_ok trs ->
  kid_ok (snd (concat_fold true (map fst trs) (concat_init, [])),
          concat_result (fst (concat_fold true (map fst trs) (concat_init, []))),
          concat (map tr_text trs)).
Proof.
  intros H. unfold kid_ok, tr_events, tr_info, tr_text. cbn [fst snd].
  pose proof (fold_pos trs concat_init [] [] eq_refl (Forall_nil _) H) as [A1 A2]. cbn [app] in A1, A2.
  split; [|split; [exact A2|split; [exact A1|]]].
  - apply concat_fold_dense_any. rewrite Forall_map. eapply Forall_impl; [|exact H]. intros tr [Hd _]. exact Hd.
  - apply ssorted_psorted. rewrite <- (fsegs_pos _ [] []).
    apply (fold_psorted trs concat_init [] finv_init I H).
Qed.

(* ------------------------------------------------------------------ *)
(* the order hypothesis of `kid_ok` cannot be dropped                    *)
(* ------------------------------------------------------------------ *)
(* G2 as first stated asked of the text-less events of a child only: dense announcements, every
   segment on a position of the child's text, exact end info, and the same attribution as the
   child's text-carrying events.  That statement is FALSE: ConcatSource decides whether a mapping
   is still open at the join from the LAST segment a child streamed (`c_last_line`), so a child
   that streams its segments out of order - here (2,0) mapped, then (1,0) unmapped, for the text
   "x\ny" - leaves its last line open without ConcatSource noticing, and the next child's "z"
   inherits the mapping.  Every child of the model streams its segments in order (`ssorted`),
   which is what `kid_ok` adds. *)
Example concat_final_needs_sorted :
  let f := [102] in
  let A := mkMapping 2 0 (Some (mkOrig 0 1 0 None)) in
  let tev1 := [ESource 0 f None; EChunk (Some [120; 10]) (unmapped 1 0); EChunk (Some [121]) A] in
  let fev1 := [ESource 0 f None; EChunk None A; EChunk None (unmapped 1 0)] in
  let T1 := [120; 10; 121] in
  let tev2 := [EChunk (Some [122]) (unmapped 1 0)] in
  let fev2 : list event := [] in
  let T2 := [122] in
  (* the children satisfy everything but the order *)
  (dense tev1 0 0, dense fev1 0 0, reassembles tev1 T1, well_positioned (chunks_of tev1) 1 0,
   positions_of_text T1 (chunks_of fev1), advance 1 0 T1,
   list_eqb_attr attr_eqb (attr_of_final_events fev1 T1 true) (attr_of_stream tev1 true),
   list_eqb_attr attr_eqb (attr_of_final_events fev2 T2 true) (attr_of_stream tev2 true),
   sorted_by pos_le (chunk_mappings fev1))
  = (true, true, true, true, true, (2, 1), true, true, false) /\
  (* the composite's last byte "z": mapped by the text-less stream, unmapped by the other *)
  nth 3 (attr_of_final_events (snd (concat_fold true [(fev1, (2, 1)); (fev2, (1, 1))] (concat_init, [])))
                              (T1 ++ T2) true) None
  = Some (mkLoc f 1 0 None) /\
  nth 3 (attr_of_stream (snd (concat_fold false [(tev1, (2, 1)); (tev2, (1, 1))] (concat_init, []))) true) None
  = None.
Proof. vm_compute. repeat split; reflexivity. Qed.

Print Assumptions concat_final_attr.
Print Assumptions concat_final_vs_text.
Print Assumptions concat_kid_ok.
