(* C04, checker level, for trees with CachedSource nodes in ANY warm state, part 1: the clauses
   that only read the ATTRIBUTION of the returned maps.
   Class: `cls s` (WarmTreeDefs.v), every cache id once, `c04_domain s` (no CachedSource below a
   ReplaceSource), `pshape (uncache s)`, `csmall (uncache s)`.
     warm_c04_length   clause 9: one provenance tag per byte of source();
     warm_c04_bytes    clause 2 (`byte_ok`): map() over any `Sound` store attributes every byte as
                       the reference (WarmTreeMain.warm_map), and the reference satisfies the byte
                       relation with `prov` (ProvReplaceBytes.pshape_stream_prov);
     warm_c04_lines    clause 6 (`line_ok`, trees without ReplaceSource): `line_ok` reads the map
                       with columns = false only through `seg_first_mapped` on the lines of the
                       bytes, i.e. through its attribution; cold clause: ProvConcatLines;
     chk_C04_warm_from the verdict is 0 as soon as clause 1 (`seg_ok`: every mapped SEGMENT sits
                       on a byte of its own origin) and clause 5 (sources / sourcesContent tables)
                       hold for the map with columns;
     chk_C04_warm_partial   after ANY warm-up history the verdict is 0, 1 or 5 - never 2, 6, 9, 100.
   Clauses 1 and 5 need the segments and the tables of the warm maps, not only their attribution:
   parts 2 and 3 (ChkMoreProvWarmSegs.v, ChkMoreProvWarmTables.v: `chk_C04_warm`, verdict 0). *)
From RS Require Import Base.Prelude Base.Text Rope.RopeModel Codec.Vlq Codec.CodecSpec
  Checkers.ChkCodec Stream.Types Stream.Leaves Stream.Concat Stream.Replace Stream.Combined Stream.Tree
  Api.ApiTree Sem.Attr Sem.Prov Sem.HashEq Api.ApiHist Checkers.ChkTree Checkers.ChkHist Checkers.ChkProv
  Proofs.CodecKept Proofs.CodecEnc Proofs.CodecMain Proofs.StreamText Proofs.StreamLeaves Proofs.StreamMap Proofs.StreamConcat Proofs.StreamTree
  Proofs.WfStream Proofs.WfFinal Proofs.WfMap Proofs.RStreamText Proofs.RStreamPos Proofs.RStreamTree
  Proofs.AttrCodec Proofs.AttrSms Proofs.AttrLeaves Proofs.LawConcatAttr Proofs.LawWrappers
  Proofs.CacheStore Proofs.CacheReplay Proofs.FinalDense Proofs.FinalReplace Proofs.FinalConcat Proofs.FinalTree Proofs.FinalCache
  Proofs.ReplAttrStream Proofs.ReplAttrTree Proofs.ProvOriginal
  Proofs.ProvConcatBytes Proofs.ProvConcatSegs Proofs.ProvConcatTables Proofs.ProvConcatLines
  Proofs.ProvReplaceBytes Proofs.ProvReplaceSegs Proofs.ProvReplaceTables
  Proofs.ColdCache Proofs.ColdCacheTree Proofs.BoundsPos Proofs.BoundsOrig Proofs.BoundsIdx Proofs.BoundsAll
  Proofs.WarmTreeDefs Proofs.WarmTreeReplay Proofs.WarmTreeCodec Proofs.WarmTreeNodes Proofs.WarmTreeMain Proofs.WarmTreeHist
  Proofs.ChkMoreProvCold.
Require Import Lia List.
Import ListNotations.

Local Open Scope N_scope.

(* ------------------------------------------------------------------ *)
(* small facts                                                          *)
(* ------------------------------------------------------------------ *)
Lemma ids_nocache : forall s, has_cached s = false -> ids s = [].
Proof.
  apply (src_ind' (fun s => has_cached s = false -> ids s = [])); cbn [has_cached ids]; try reflexivity.
  - intros cs IH H. induction IH as [|c cs Hc _ IHl]; [reflexivity|].
    cbn [existsb] in H. apply orb_false_iff in H. destruct H as [H1 H2].
    cbn [flat_map]. rewrite (Hc H1), (IHl H2). reflexivity.
  - intros i rs IH H. apply IH. exact H.
  - intros id i _ H. discriminate.
Qed.

Lemma ids_distinct_uncache s : ids_distinct (uncache s).
Proof. unfold ids_distinct. rewrite (ids_nocache _ (uncache_nocache s)). constructor. Qed.

(* the segments streamed by a cache-free tree of the class stay inside the encoder's domain *)
Lemma cls_fields_small (c : bool) (s : src) (st : store) : cls s -> has_cached s = false ->
  forallb mapping_small (chunk_mappings (fst (fst (stream st s (mkOpts c true))))) = true.
Proof.
  intros Hcl Hn. destruct (nocache_FG c s st Hcl Hn) as [[[K1 [K2 [K3 K4]]] [_ [_ Hb]]] _].
  unfold tr_events, tr_info, tr_text in *. cbn [fst snd] in *.
  pose proof (entry_domain s _ Hcl K1 K4 (ev_pos_cm _ _ K2) Hb) as E.
  unfold enc_domain in E. apply andb_true_iff in E. apply E.
Qed.

(* `line_ok` reads the map only through the attribution with columns = false *)
Lemma line_ok_attr tg segsA segsB t : forall tags l c,
  attr_by_pos segsA false t l c = attr_by_pos segsB false t l c ->
  forallb (line_ok tg segsA) (tagged t tags l c) = forallb (line_ok tg segsB) (tagged t tags l c).
Proof.
  induction t as [|b t IH]; intros tags l c H; [reflexivity|].
  destruct tags as [|g tags]; [reflexivity|]. cbn [tagged forallb]. cbn [attr_by_pos] in H.
  inversion H as [[H1 H2]]. f_equal.
  - unfold line_ok. rewrite H1. reflexivity.
  - destruct (b =? NL); apply IH; exact H2.
Qed.

Lemma segs_attr0 (m : option smap) (t : text) :
  attr_by_pos (segs_of m) false t 1 0 = attr_of_map m t false.
Proof. destruct m; [reflexivity|]. apply attr_by_pos_nil. Qed.

(* ------------------------------------------------------------------ *)
(* the attribution clauses over any sound store                         *)
(* ------------------------------------------------------------------ *)
Section C04A.
Variable s : src.
Hypothesis Hd : ids_distinct s.
Hypothesis Hcl : cls s.
Hypothesis Hp : pshape (uncache s) = true.
Hypothesis Hc : csmall (uncache s) = true.

Let HA : treeA (uncache s) = true.
Proof. destruct (cls_uncache s Hcl) as [_ [_ [A _]]]. exact A. Qed.

Let Hsm : rsmall (uncache s) = true.
Proof. destruct Hcl as [_ [_ [_ [S _]]]]. exact S. Qed.

Theorem warm_c04_length : len (prov s) = len (source s).
Proof.
  rewrite <- uncache_prov, <- uncache_source. unfold len. f_equal.
  apply (pshape_stream_prov [] (uncache s) Hp HA Hsm Hc).
Qed.

Theorem warm_c04_bytes (st : store) : Sound st s ->
  forallb (byte_ok (segs_of (fst (map_of st s true)))) (tagged (source s) (prov s) 1 0) = true.
Proof.
  intros Hs. destruct Hcl as [K [Sh [A [Sm T]]]].
  rewrite byte_ok_all2, segs_attr, (proj1 (warm_map s Hd K Sh A Sm T st true Hs)).
  unfold reference. rewrite <- uncache_prov.
  apply (pshape_stream_prov [] (uncache s) Hp HA Hsm Hc).
Qed.

Theorem warm_c04_lines (st : store) : Sound st s -> has_replace s = false ->
  forallb (line_ok (tagged (source s) (prov s) 1 0) (segs_of (fst (map_of st s false))))
          (tagged (source s) (prov s) 1 0) = true.
Proof.
  intros Hs Hr. set (u := uncache s).
  assert (Hcs : cshape u = true).
  { apply (pshape_no_replace u Hp). unfold u. rewrite uncache_has_replace. exact Hr. }
  pose proof (concat_c04_lines [] u Hcs HA (cls_fields_small false u [] (cls_uncache s Hcl) (uncache_nocache s))) as Hcold.
  cbn zeta in Hcold. fold (segs_of (fst (map_of [] u false))) in Hcold.
  unfold u in Hcold. rewrite uncache_source, uncache_prov in Hcold. rewrite <- Hcold.
  apply line_ok_attr. rewrite !segs_attr0.
  destruct Hcl as [K [Sh [A [Sm T]]]].
  rewrite (proj1 (warm_map s Hd K Sh A Sm T st false Hs)).
  destruct (cls_uncache s (conj K (conj Sh (conj A (conj Sm T))))) as [K' [Sh' [A' [Sm' T']]]].
  pose proof (proj1 (warm_map (uncache s) (ids_distinct_uncache s) K' Sh' A' Sm' T' [] false (sound_empty _))) as E.
  rewrite uncache_source in E. rewrite E. unfold reference. rewrite uncache_idem. reflexivity.
Qed.

(* the checker from the two remaining clauses *)
Theorem chk_C04_warm_from (st : store) (o : tree_obs) : Sound st s -> c04_domain s = true ->
  to_source o = source s ->
  to_maps o = [fst (map_of st s true); fst (map_of st s false)] ->
  forallb (ChkProv.seg_ok (tagged (source s) (prov s) 1 0)) (segs_of (fst (map_of st s true))) = true ->
  match fst (map_of st s true) with
  | Some m => nodup_texts (sm_sources m) && forallb (file_listed m (originals s)) (surviving_files (prov s))
  | None => is_nil (surviving_files (prov s))
  end = true ->
  chk_C04 s o = 0.
Proof.
  intros Hs Hdm E1 E2 H1 H5. unfold chk_C04. rewrite Hdm, E1, E2. cbn [negb].
  rewrite warm_c04_length, N.eqb_refl. cbn [negb].
  fold (segs_of (fst (map_of st s true))). fold (segs_of (fst (map_of st s false))).
  rewrite H1, (warm_c04_bytes st Hs), H5. cbn [negb].
  destruct (has_replace s) eqn:Hr; [reflexivity|]. rewrite (warm_c04_lines st Hs Hr). reflexivity.
Qed.

Theorem chk_C04_warm_partial_store (st : store) (o : tree_obs) : Sound st s -> c04_domain s = true ->
  to_source o = source s ->
  to_maps o = [fst (map_of st s true); fst (map_of st s false)] ->
  chk_C04 s o = 0 \/ chk_C04 s o = 1 \/ chk_C04 s o = 5.
Proof.
  intros Hs Hdm E1 E2. unfold chk_C04. rewrite Hdm, E1, E2. cbn [negb].
  rewrite warm_c04_length, N.eqb_refl. cbn [negb].
  fold (segs_of (fst (map_of st s true))). fold (segs_of (fst (map_of st s false))).
  destruct (forallb _ (segs_of (fst (map_of st s true)))); cbn [negb]; [|right; left; reflexivity].
  rewrite (warm_c04_bytes st Hs). cbn [negb].
  destruct (match fst (map_of st s true) with Some m => _ | None => _ end); cbn [negb]; [|right; right; reflexivity].
  left. destruct (has_replace s) eqn:Hr; [reflexivity|]. rewrite (warm_c04_lines st Hs Hr). reflexivity.
Qed.

(* the full statement, chk_C04 s (api_tree s ws) = 0, is ChkMoreProvWarmTables.chk_C04_warm *)
Theorem chk_C04_warm_partial (ws : list (N * wop)) : c04_domain s = true ->
  chk_C04 s (api_tree s ws) = 0 \/ chk_C04 s (api_tree s ws) = 1 \/ chk_C04 s (api_tree s ws) = 5.
Proof.
  intros Hdm.
  apply (chk_C04_warm_partial_store (run_warm [] s ws) (api_tree s ws)
           (warm_sound s Hd Hcl ws [] (sound_empty s)) Hdm eq_refl eq_refl).
Qed.

End C04A.

Print Assumptions warm_c04_length.
Print Assumptions warm_c04_bytes.
Print Assumptions warm_c04_lines.
Print Assumptions chk_C04_warm_from.
Print Assumptions chk_C04_warm_partial.
