(* C06, columns = false, part 3 (G3): clauses 6 and 5 of chk_C06 for ReplaceSource.
   Clause 6: the ReplaceSource's line-granular attribution equals the line-first broadcast of
   the byte-level reference `replace_reference` computed from the inner stream - with Leibniz
   equality.  From the bridge applied to the ReplaceSource's own stream and
   ReplAttrOrigin.replace_attr_origin, which holds for ANY inner event list that reassembles a
   text, announces densely and has no empty chunk (whatever mode produced it): the line-first
   broadcast only looks at (file, line) of its input (`lfb_fl`), so the origin statement is
   enough and neither `bindings_consistent` nor a bound on the recorded contents is needed.
   Clause 5: a ReplaceSource forwards its inner source announcements unchanged, so every file
   keeps its content. *)
From RS Require Import Base.Prelude Base.Text Rope.RopeModel Codec.Vlq Codec.CodecSpec
  Stream.Types Stream.Leaves Stream.Concat Stream.Replace Stream.Tree
  Sem.Attr Checkers.ChkTree Checkers.ChkComp
  Proofs.StreamText Proofs.StreamLeaves Proofs.StreamConcat Proofs.ReplaceSort Proofs.ReplaceText
  Proofs.RStreamText Proofs.RStreamPos Proofs.AttrCodec Proofs.AttrSms Proofs.LawConcatAttr
  Proofs.ReplAttrRef Proofs.ReplAttrStream Proofs.ReplAttrOrigin Proofs.ReplAttrTree
  Proofs.LinesBase Proofs.CompLinesBridge.
Require Import Lia List.

Local Open Scope N_scope.

(* ------------------------------------------------------------------ *)
(* the byte rule only looks at (file, line)                             *)
(* ------------------------------------------------------------------ *)
Lemma fl_norm a b : fl a = fl b -> norm a = norm b.
Proof.
  destruct a as [x|], b as [y|]; cbn [fl option_map norm]; intros H; try discriminate; [|reflexivity].
  inversion H as [[H1 H2]]. rewrite H1, H2. reflexivity.
Qed.

Lemma lfb_fl : forall t A B cur n acc, map fl A = map fl B -> lfb t A cur n acc = lfb t B cur n acc.
Proof.
  induction t as [|b t IH]; intros A B cur n acc H.
  - destruct A, B; reflexivity.
  - destruct A as [|a A], B as [|a' B]; try discriminate; [reflexivity|].
    cbn [map] in H. inversion H as [[H1 H2]]. rewrite !lfb_cons, (fl_norm a a' H1).
    destruct (b =? NL); apply IH; exact H2.
Qed.

(* ------------------------------------------------------------------ *)
(* G3, clause 6                                                        *)
(* ------------------------------------------------------------------ *)
(* any end info `gi`, given what the ReplaceSource's own stream reassembles *)
Theorem replace_lines_attr_gen (rs : list repl) (ievs : list event) (T T' : text) (gi : N * N) :
  Forall (fun r => r_start r <= r_end r) rs ->
  reassembles ievs T = true -> no_empty_chunks ievs = true -> dense ievs 0 0 = true ->
  let comp := fst (replace_stream (sort_repls rs) ievs gi) in
  reassembles comp T' = true -> chunks_nl_last comp = true ->
  attr_of_stream comp false = line_first_bytes T' (replace_reference ievs rs) None 0 [].
Proof.
  intros Hord Hr Hne Hd comp Hr' Hn'. rewrite (lines_bridge comp T' Hr' Hn').
  apply lfb_fl. apply (replace_attr_origin rs ievs T gi Hord Hr Hne Hd).
Qed.

(* from the inner stream alone: well positioned, chunks with a line feed at most as last
   byte, inner text + inserted contents below 2^32 bytes (positions are reported as u32) *)
Theorem replace_lines_attr (rs : list repl) (ievs : list event) (T : text) :
  Forall (fun r => r_start r <= r_end r) rs ->
  reassembles ievs T = true -> well_positioned (chunks_of ievs) 1 0 = true ->
  chunks_nl_last ievs = true -> no_empty_chunks ievs = true -> dense ievs 0 0 = true ->
  len T + len (concat (map r_content rs)) + 1 < 4294967296 ->
  attr_of_stream (fst (replace_stream (sort_repls rs) ievs (advance 1 0 T))) false
  = line_first_bytes (replace_source_text T rs) (replace_reference ievs rs) None 0 [].
Proof.
  intros Hord Hr Hw Hn Hne Hd Hb.
  pose proof (replace_source_stream_positioned rs ievs T Hord Hr Hw Hn Hb) as [A1 [_ [A3 _]]]. cbn zeta in A1, A3.
  apply (replace_lines_attr_gen rs ievs T _ _ Hord Hr Hne Hd A1 A3).
Qed.

(* clause 6 of chk_C06 *)
Corollary replace_lines_expected (rs : list repl) (ievs : list event) (T : text) :
  Forall (fun r => r_start r <= r_end r) rs ->
  reassembles ievs T = true -> well_positioned (chunks_of ievs) 1 0 = true ->
  chunks_nl_last ievs = true -> no_empty_chunks ievs = true -> dense ievs 0 0 = true ->
  len T + len (concat (map r_content rs)) + 1 < 4294967296 ->
  list_eqb_attr attr_eqb_fl
    (attr_of_stream (fst (replace_stream (sort_repls rs) ievs (advance 1 0 T))) false)
    (line_first_bytes (replace_source_text T rs) (replace_reference ievs rs) None 0 []) = true.
Proof. intros. apply attr_lists_eqb_fl. apply replace_lines_attr; assumption. Qed.

(* ------------------------------------------------------------------ *)
(* clause 5: contents                                                   *)
(* ------------------------------------------------------------------ *)
Lemma content_of_contents a b f : contents_of_events a = contents_of_events b -> content_of a f = content_of b f.
Proof. unfold content_of. intros ->. reflexivity. Qed.

Lemma contents_preserved_same comp k : contents_of_events comp = contents_of_events k ->
  contents_preserved comp [k] = true.
Proof.
  intros E. unfold contents_preserved. cbn [forallb]. rewrite andb_true_r.
  apply forallb_forall. intros a _. destruct a as [l|]; [|reflexivity].
  rewrite (content_of_contents comp k (l_file l) E). apply opt_text_eqb_refl.
Qed.

(* any replacements, any inner event list, both streaming modes of the inner source *)
Theorem replace_contents_preserved (sorted : list repl) (ievs : list event) (gi : N * N) :
  contents_preserved (fst (replace_stream sorted ievs gi)) [ievs] = true.
Proof. apply contents_preserved_same. apply replace_stream_contents. Qed.

Print Assumptions replace_lines_attr_gen.
Print Assumptions replace_lines_attr.
Print Assumptions replace_lines_expected.
Print Assumptions replace_contents_preserved.
