(* Trees with combined-map leaves, part 2 (L2, columns = true): for trees of the class `rshape2`
   (CombLeafTree.v), ASCII texts and consistent maps (`treeA`), ReplaceSource nodes below 2^32
   bytes (`rsmall`), the analogues of FinalTree.v:
     final_attr_tree2     the text-less stream, looked up by position, attributes every byte of
                          source() as the text-carrying stream does by covering;
     final_stream_facts2  the text-less stream is dense, on positions of source(), sorted, has the
                          exact end info and leaves the store alone;
     mapped_same_tree2    a chunk is mapped in one mode iff one is in the other;
     C03_tree_cols2       map() attributes as the stream and is None exactly when no text-mode
                          chunk is mapped (given the encoder's domain: segment fields < 2^30).
   The induction of FinalTree.v is re-run with the combined leaf (CombLeafBase.v, CombLeafCols.v);
   the Concat / Replace steps are those of FinalConcat.v / FinalReplace.v. *)
From RS Require Import Base.Prelude Base.Text Rope.RopeModel Codec.Vlq Codec.CodecSpec
  Checkers.ChkCodec Stream.Types Stream.Leaves Stream.Concat Stream.Replace Stream.Combined Stream.Tree
  Sem.Attr Checkers.ChkTree Checkers.ChkCombined
  Proofs.CodecKept Proofs.StreamText Proofs.StreamLeaves Proofs.StreamMap Proofs.StreamConcat Proofs.StreamTree
  Proofs.WfStream Proofs.WfFinal Proofs.RStreamText Proofs.RStreamPos Proofs.RStreamTree
  Proofs.AttrCodec Proofs.AttrSms Proofs.AttrLeaves Proofs.LawConcatAttr Proofs.LawWrappers
  Proofs.CacheReplay Proofs.FinalDense Proofs.FinalReplace Proofs.FinalConcat Proofs.FinalTree
  Proofs.CombAllSpec Proofs.CombAllT12 Proofs.CombLeafBase Proofs.CombLeafCols Proofs.CombLeafTree.
Require Import Lia List.

Local Open Scope N_scope.

(* what the induction carries, without the hypotheses on the tree *)
Definition ffacts (s : src) : Prop :=
  forall st,
    kid_ok (fst (stream st s oF), source s) /\ snd (stream st s oF) = st /\
    attr_of_final_events (fst (fst (stream st s oF))) (source s) true =
    attr_of_stream (fst (fst (stream st s oT))) true.

Definition tgood2 (s : src) : Prop :=
  rshape2 s = true -> treeA s = true -> rsmall s = true -> ffacts s.

(* ---- leaves ---- *)
Lemma rshape_ffacts s : rshape s = true -> treeA s = true -> rsmall s = true -> ffacts s.
Proof. intros H1 H2 H3 st. apply (tgood_all s st H1 H2 H3). Qed.

Lemma combined_ffacts v n m og im r :
  treeA (SMapped v n m og (Some im) r) = true -> c09_wf v m n og im -> ffacts (SMapped v n m og (Some im) r).
Proof.
  intros HA Hwf st. cbn [stream fst snd source].
  split; [apply (combined_kid v n m og im r Hwf true)|]. split; [reflexivity|].
  apply combined_final_text_attr; assumption.
Qed.

(* ---- ConcatSource ---- *)
Lemma concat_ffacts cs : Forall ffacts cs -> Forall tfacts cs ->
  (forall c, In c cs -> forall o st, dense (fst (fst (stream st c o))) 0 0 = true) ->
  ffacts (SConcat cs).
Proof.
  intros IH IT HD st. rewrite Forall_forall in IH, IT.
  destruct (Nat.eq_dec (length cs) 1) as [E|E].
  { destruct cs as [|c [|c2 r]]; try discriminate.
    assert (Hin : In c [c]) by (left; reflexivity).
    pose proof (IH c Hin st) as X.
    change (stream st (SConcat [c]) oF) with (stream st c oF).
    change (stream st (SConcat [c]) oT) with (stream st c oT).
    cbn [source map concat]. rewrite app_nil_r. exact X. }
  assert (PF : forall c, In c cs -> forall st0, snd (stream st0 c oF) = st0).
  { intros c Hin st0. apply (IH c Hin st0). }
  assert (PT : forall c, In c cs -> forall st0, snd (stream st0 c oT) = st0).
  { intros c Hin st0. apply (IT c Hin st0 true). }
  rewrite (stream_concat_fold st cs oF E), (stream_concat_fold st cs oT E).
  rewrite (kid_streams_pure oF cs PF st), (kid_streams_pure oT cs PT st). cbn [fst snd final_source oF oT].
  set (trs := map (fun c => (fst (stream st c oF), source c)) cs : list kid).
  assert (E1 : map (fun c => fst (stream st c oF)) cs = map fst trs).
  { unfold trs. rewrite map_map. apply map_ext. intros c. reflexivity. }
  assert (E2 : map source cs = map tr_text trs).
  { unfold trs. rewrite map_map. apply map_ext. intros c. reflexivity. }
  assert (Hk : Forall kid_ok trs).
  { unfold trs. rewrite Forall_map. apply Forall_forall. intros c Hin. apply (IH c Hin st). }
  cbn [source]. rewrite E1, E2.
  split; [apply concat_kid_ok; exact Hk|]. split; [reflexivity|].
  apply concat_final_vs_text.
  - exact Hk.
  - rewrite Forall_map. apply Forall_forall. intros c Hin. apply HD. exact Hin.
  - unfold trs. apply Forall2_map_same. intros c Hin. unfold tr_events, tr_text. cbn [fst snd].
    apply (IH c Hin st).
Qed.

(* ---- ReplaceSource: its text-less stream is its text-carrying one ---- *)
Lemma replace_ffacts i rs : tfacts (SReplace i rs) ->
  (forall o st, dense (fst (fst (stream st (SReplace i rs) o))) 0 0 = true) ->
  ffacts (SReplace i rs).
Proof.
  intros HT HD st. pose proof (HT st true) as [[A1 A2] [A3 [A4 A5]]]. cbn zeta in *.
  change (stream st (SReplace i rs) oF) with (stream st (SReplace i rs) oT).
  fold oT in A1, A2, A3, A4, A5.
  split; [|split; [exact A5|]].
  - unfold kid_ok, tr_events, tr_info, tr_text. cbn [fst snd].
    pose proof (wp_facts _ [] _ A1 A2) as [W1 W2]. cbn [app] in W2.
    split; [apply HD|]. split; [|split; [exact A4|exact W1]].
    apply cm_ev_pos. eapply Forall_impl; [|exact W2]. intros mp [Hm _]. exact Hm.
  - apply self_cols_dense; [apply HD|exact A1|exact A2|exact A3].
Qed.

(* ---- the induction ---- *)
Lemma tgood2_all : forall s, tgood2 s.
Proof.
  apply src_ind'.
  - intros b v _ H2 H3. apply rshape_ffacts; [reflexivity|assumption|assumption].
  - intros v _ H2 H3. apply rshape_ffacts; [reflexivity|assumption|assumption].
  - intros v _ H2 H3. apply rshape_ffacts; [reflexivity|assumption|assumption].
  - intros v n _ H2 H3. apply rshape_ffacts; [reflexivity|assumption|assumption].
  - intros v n m og i r H1 H2 H3. destruct i as [im|].
    + cbn [rshape2] in H1. apply c09_wfb_iff in H1. apply combined_ffacts; assumption.
    + apply rshape_ffacts; [reflexivity|assumption|assumption].
  - intros cs IH Hsh Ha Hsm. pose proof (rshape2_concat cs Hsh) as Hsh'.
    pose proof (treeA_concat cs Ha) as Ha'. pose proof (rsmall_concat cs Hsm) as Hsm'.
    rewrite Forall_forall in IH. apply concat_ffacts.
    + apply Forall_forall. intros c Hc. apply (IH c Hc (Hsh' c Hc) (Ha' c Hc) (Hsm' c Hc)).
    + apply Forall_forall. intros c Hc. apply (rgood2_all c (Hsh' c Hc) (Ha' c Hc) (Hsm' c Hc)).
    + intros c Hc o st. apply dense2_tree_any; [apply Hsh'|apply Ha']; exact Hc.
  - intros i rs _ Hsh Ha Hsm. apply replace_ffacts.
    + apply (rgood2_all (SReplace i rs) Hsh Ha Hsm).
    + intros o st. apply dense2_tree_any; assumption.
  - intros id i _ Hsh. discriminate.
Qed.

(* ------------------------------------------------------------------ *)
(* the analogues of FinalTree.final_attr_tree / final_stream_facts       *)
(* ------------------------------------------------------------------ *)
Theorem final_attr_tree2 (st : store) (s : src) :
  rshape2 s = true -> treeA s = true -> rsmall s = true ->
  attr_of_final_events (fst (fst (stream st s (mkOpts true true)))) (source s) true =
  attr_of_stream (fst (fst (stream st s (mkOpts true false)))) true.
Proof. intros H1 H2 H3. apply (tgood2_all s H1 H2 H3 st). Qed.

Theorem final_stream_facts2 (st : store) (s : src) :
  rshape2 s = true -> treeA s = true -> rsmall s = true ->
  let r := stream st s (mkOpts true true) in
  dense (fst (fst r)) 0 0 = true /\
  positions_of_text (source s) (chunks_of (fst (fst r))) = true /\
  snd (fst r) = advance 1 0 (source s) /\
  sorted_by pos_le (chunk_mappings (fst (fst r))) = true /\
  snd r = st.
Proof.
  intros H1 H2 H3. destruct (tgood2_all s H1 H2 H3 st) as [[K1 [K2 [K3 K4]]] [S _]].
  unfold tr_events, tr_info, tr_text in *. cbn [fst snd] in *. fold oF. cbn zeta.
  split; [exact K1|]. split; [apply positions_of_events; exact K2|]. split; [exact K3|].
  split; [apply ssorted_sorted; exact K4|exact S].
Qed.

(* ------------------------------------------------------------------ *)
(* map() attributes as the stream                                       *)
(* ------------------------------------------------------------------ *)
Theorem final_enc_domain2 (st : store) (s : src) :
  rshape2 s = true -> treeA s = true -> rsmall s = true ->
  forallb mapping_small (chunk_mappings (fst (fst (stream st s (mkOpts true true))))) = true ->
  enc_domain (chunk_mappings (fst (fst (stream st s (mkOpts true true))))) = true.
Proof.
  intros H1 H2 H3 Hs. destruct (final_stream_facts2 st s H1 H2 H3) as [_ [_ [_ [So _]]]]. cbn zeta in So.
  unfold enc_domain. rewrite So, Hs. reflexivity.
Qed.

Theorem get_map_attr_tree2 (st : store) (s : src) :
  rshape2 s = true -> treeA s = true -> rsmall s = true ->
  forallb mapping_small (chunk_mappings (fst (fst (stream st s (mkOpts true true))))) = true ->
  attr_of_map (fst (get_map st s true)) (source s) true =
  attr_of_stream (fst (fst (stream st s (mkOpts true false)))) true.
Proof.
  intros H1 H2 H3 Hs. pose proof (final_enc_domain2 st s H1 H2 H3 Hs) as He.
  pose proof (dense2_tree_any s st (mkOpts true true) H1 H2) as Hd.
  pose proof (final_attr_tree2 st s H1 H2 H3) as G3.
  unfold get_map. destruct (stream st s (mkOpts true true)) as [[evs gi] st']. cbn [fst snd] in *.
  rewrite (attr_codec_dense evs (source s) true Hd He). exact G3.
Qed.

(* ------------------------------------------------------------------ *)
(* a chunk is mapped in one mode iff one is in the other                 *)
(* ------------------------------------------------------------------ *)
Definition msame2 (s : src) : Prop :=
  rshape2 s = true -> treeA s = true -> rsmall s = true -> forall st,
    mapped_chunk_exists (fst (fst (stream st s oF))) = mapped_chunk_exists (fst (fst (stream st s oT))).

Lemma msame2_all : forall s, msame2 s.
Proof.
  apply src_ind'.
  - intros b v _ H2 H3 st. apply (msame_all (SRaw b v) st eq_refl H2 H3).
  - intros v _ H2 H3 st. apply (msame_all (SRawString v) st eq_refl H2 H3).
  - intros v _ H2 H3 st. apply (msame_all (SRawBuffer v) st eq_refl H2 H3).
  - intros v n _ H2 H3 st. apply (msame_all (SOriginal v n) st eq_refl H2 H3).
  - intros v n m og i r H1 H2 H3 st. destruct i as [im|].
    + cbn [rshape2] in H1. apply c09_wfb_iff in H1. cbn [stream fst]. apply combined_mapped_same; assumption.
    + apply (msame_all (SMapped v n m og None r) st eq_refl H2 H3).
  - intros cs IH Hsh Ha Hsm st.
    pose proof (rshape2_concat cs Hsh) as Hsh'. pose proof (treeA_concat cs Ha) as Ha'.
    pose proof (rsmall_concat cs Hsm) as Hsm'. rewrite Forall_forall in IH.
    destruct (Nat.eq_dec (length cs) 1) as [E|E].
    { destruct cs as [|c [|c2 r]]; try discriminate.
      assert (Hin : In c [c]) by (left; reflexivity).
      change (stream st (SConcat [c]) oF) with (stream st c oF).
      change (stream st (SConcat [c]) oT) with (stream st c oT).
      apply (IH c Hin (Hsh' c Hin) (Ha' c Hin) (Hsm' c Hin) st). }
    assert (PF : forall c, In c cs -> forall st0, snd (stream st0 c oF) = st0).
    { intros c Hin st0. apply (tgood2_all c (Hsh' c Hin) (Ha' c Hin) (Hsm' c Hin) st0). }
    assert (PT : forall c, In c cs -> forall st0, snd (stream st0 c oT) = st0).
    { intros c Hin st0. apply (rgood2_all c (Hsh' c Hin) (Ha' c Hin) (Hsm' c Hin) st0 true). }
    rewrite (stream_concat_fold st cs oF E), (stream_concat_fold st cs oT E).
    rewrite (kid_streams_pure oF cs PF st), (kid_streams_pure oT cs PT st). cbn [fst snd final_source oF oT].
    set (trs := map (fun c => (fst (stream st c oF), source c)) cs : list kid).
    assert (E1 : map (fun c => fst (stream st c oF)) cs = map fst trs).
    { unfold trs. rewrite map_map. apply map_ext. intros c. reflexivity. }
    assert (Hk : Forall kid_ok trs).
    { unfold trs. rewrite Forall_map. apply Forall_forall. intros c Hin.
      apply (tgood2_all c (Hsh' c Hin) (Ha' c Hin) (Hsm' c Hin) st). }
    rewrite E1, (concat_final_mapped trs Hk), concat_text_mapped.
    2:{ rewrite Forall_map. apply Forall_forall. intros c Hin.
        apply dense2_tree_any; [apply Hsh'|apply Ha']; exact Hin. }
    unfold trs. rewrite !existsb_map'. apply existsb_map_same. intros c Hin.
    unfold tr_events. cbn [fst]. apply (IH c Hin (Hsh' c Hin) (Ha' c Hin) (Hsm' c Hin) st).
  - intros i rs _ _ _ _ st. reflexivity.
  - intros id i _ Hsh. discriminate.
Qed.

Theorem mapped_same_tree2 (st : store) (s : src) :
  rshape2 s = true -> treeA s = true -> rsmall s = true ->
  mapped_chunk_exists (fst (fst (stream st s (mkOpts true true)))) =
  mapped_chunk_exists (fst (fst (stream st s (mkOpts true false)))).
Proof. intros H1 H2 H3. apply (msame2_all s H1 H2 H3 st). Qed.

Theorem get_map_none_tree2 (st : store) (s : src) :
  rshape2 s = true -> treeA s = true -> rsmall s = true ->
  forallb mapping_small (chunk_mappings (fst (fst (stream st s (mkOpts true true))))) = true ->
  is_none (fst (get_map st s true)) =
  negb (mapped_chunk_exists (fst (fst (stream st s (mkOpts true false))))).
Proof.
  intros H1 H2 H3 Hs. pose proof (final_enc_domain2 st s H1 H2 H3 Hs) as He.
  rewrite <- (mapped_same_tree2 st s H1 H2 H3).
  unfold get_map. destruct (stream st s (mkOpts true true)) as [[evs gi] st']. cbn [fst snd] in *.
  apply map_of_events_none. exact He.
Qed.

(* property C03, columns = true, for trees with combined-map leaves *)
Theorem C03_tree_cols2 (st : store) (s : src) :
  rshape2 s = true -> treeA s = true -> rsmall s = true ->
  forallb mapping_small (chunk_mappings (fst (fst (stream st s (mkOpts true true))))) = true ->
  attr_of_map (fst (get_map st s true)) (source s) true =
  attr_of_stream (fst (fst (stream st s (mkOpts true false)))) true /\
  is_none (fst (get_map st s true)) =
  negb (mapped_chunk_exists (fst (fst (stream st s (mkOpts true false))))).
Proof.
  intros H1 H2 H3 Hs. split; [apply get_map_attr_tree2|apply get_map_none_tree2]; assumption.
Qed.

(* map() of a Concat / Replace tree IS get_map (map_of delegates only for leaves and wrappers) *)
Lemma map_of_concat st cs cols : map_of st (SConcat cs) cols = get_map st (SConcat cs) cols.
Proof. reflexivity. Qed.

Lemma map_of_replace st i rs cols : is_nil rs = false ->
  map_of st (SReplace i rs) cols = get_map st (SReplace i rs) cols.
Proof. intros H. cbn [map_of]. rewrite H. reflexivity. Qed.

Lemma map_of_combined st v n m og im r cols :
  map_of st (SMapped v n m og (Some im) r) cols = get_map st (SMapped v n m og (Some im) r) cols.
Proof. reflexivity. Qed.

Print Assumptions final_attr_tree2.
Print Assumptions final_stream_facts2.
Print Assumptions mapped_same_tree2.
Print Assumptions C03_tree_cols2.
