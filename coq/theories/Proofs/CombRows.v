(* B1, closing the loop: the rows that the inner stream pushes into `b_lines` are sorted by
   generated column (and paired with their chunks) whenever the inner stream is well
   positioned, which it is for ASCII contents and consistent inner maps.  Hence `find_inner`
   returns the last row at or before the wanted column in the state reached after the outer
   map has announced the inner source (once). *)
From RS Require Import Base.Prelude Base.Text Rope.RopeModel Codec.Vlq Codec.CodecSpec
  Stream.Types Stream.Leaves Stream.Combined Sem.Attr Checkers.ChkTree
  Proofs.StreamText Proofs.StreamLeaves Proofs.StreamMap Proofs.WfStream Proofs.AttrCodec
  Proofs.CombSearch Proofs.CombPass.
Require Import Lia List ZArith.

Local Open Scope N_scope.

(* ------------------------------------------------------------------ *)
(* nth_opt of a pushed line table                                      *)
(* ------------------------------------------------------------------ *)
Lemma nth_opt_repeat {A} (x y : A) n i : nth_opt (repeat x n) i = Some y -> y = x.
Proof.
  unfold nth_opt. intros H. apply nth_error_In in H. apply repeat_spec in H. exact H.
Qed.

Lemma nth_opt_app_cases {A} (a b : list A) i x : nth_opt (a ++ b) i = Some x ->
  nth_opt a i = Some x \/ (len a <= i /\ nth_opt b (i - len a) = Some x).
Proof.
  unfold nth_opt, len. intros H. destruct (Nat.lt_ge_cases (N.to_nat i) (length a)) as [L|L].
  - left. rewrite nth_error_app1 in H by exact L. exact H.
  - right. rewrite nth_error_app2 in H by exact L. split; [lia|].
    replace (N.to_nat (i - N.of_nat (length a))) with (N.to_nat i - length a)%nat by lia. exact H.
Qed.

Lemma lm_insert_nth_other {A} (d : A) l k v i x : k < len l -> i <> k ->
  nth_opt (lm_insert d l k v) i = Some x -> nth_opt l i = Some x.
Proof.
  intros Hk Hne H. pose proof (cs_nth_opt_lt _ _ _ H) as Hi. rewrite lm_insert_len in Hi.
  assert (Hi' : i < len l) by lia. destruct (cs_nth_opt_some l i Hi') as [y Hy].
  pose proof (lm_get_insert_other d l k v i y Hne Hy) as Hy'. unfold lm_get in Hy'.
  rewrite H in Hy'. inversion Hy'. subst y. exact Hy.
Qed.

Definition old_or_empty (ls : list line_data) (i : N) (ld : line_data) : Prop :=
  nth_opt ls i = Some ld \/ ld = ([], []).

Lemma push_row_nth ls gl r chunk i rows chunks : 1 <= gl ->
  nth_opt (push_row ls gl r chunk) i = Some (rows, chunks) ->
  (i <> gl - 1 /\ old_or_empty ls i (rows, chunks)) \/
  (i = gl - 1 /\ exists rows0 chunks0, rows = rows0 ++ [r] /\ chunks = chunks0 ++ [chunk] /\
                  old_or_empty ls i (rows0, chunks0)).
Proof.
  intros Hgl. unfold push_row.
  set (padded := ls ++ repeat ([], []) (N.to_nat (gl + 1) - length ls)).
  assert (Hpad : forall j ld, nth_opt padded j = Some ld -> old_or_empty ls j ld).
  { intros j ld H. apply nth_opt_app_cases in H. destruct H as [H|[_ H]]; [left; exact H|right].
    apply nth_opt_repeat in H. exact H. }
  assert (Hlen : gl - 1 < len padded).
  { unfold padded, len. rewrite app_length, repeat_length. lia. }
  destruct (cs_nth_opt_some padded (gl - 1) Hlen) as [[rows0 chunks0] H0]. rewrite H0.
  intros H. destruct (N.eq_dec i (gl - 1)) as [->|Hne].
  - right. split; [reflexivity|]. unfold nth_opt in H. unfold lm_insert in H.
    rewrite WfStream.lm_set_same in H. inversion H. exists rows0, chunks0.
    split; [reflexivity|]. split; [reflexivity|]. apply Hpad. exact H0.
  - left. split; [exact Hne|]. apply Hpad. apply (lm_insert_nth_other _ _ _ _ _ _ Hlen Hne H).
Qed.

(* ------------------------------------------------------------------ *)
(* the invariant of the inner stream                                   *)
(* ------------------------------------------------------------------ *)
(* rows of every line sorted, one chunk per row, every row (line i+1, column c) at or before p *)
Definition rows_inv (ls : list line_data) (p : N * N) : Prop :=
  forall i rows chunks, nth_opt ls i = Some (rows, chunks) ->
    cols_sorted rows /\ length chunks = length rows /\
    forall k r, nth_opt rows k = Some r -> exists c, row_col r = Z.of_N c /\ ple (i + 1, c) p.

Lemma rows_inv_nil p : rows_inv [] p.
Proof. intros i rows chunks H. rewrite nth_opt_nil in H. discriminate. Qed.

Lemma rows_inv_mono ls p q : ple p q -> rows_inv ls p -> rows_inv ls q.
Proof.
  intros Hpq H i rows chunks Hn. destruct (H i rows chunks Hn) as [A [B C]].
  split; [exact A|]. split; [exact B|]. intros k r Hr. destruct (C k r Hr) as [c [C1 C2]].
  exists c. split; [exact C1|]. eapply ple_trans; eassumption.
Qed.

Lemma cols_sorted_nil : cols_sorted [].
Proof. intros i j ri rj _ H. rewrite nth_opt_nil in H. discriminate. Qed.

Lemma cols_sorted_snoc rows r : cols_sorted rows ->
  (forall k r0, nth_opt rows k = Some r0 -> (row_col r0 <= row_col r)%Z) ->
  cols_sorted (rows ++ [r]).
Proof.
  intros Hs Hle i j ri rj Hij Hi Hj.
  apply nth_opt_app_cases in Hi. apply nth_opt_app_cases in Hj.
  destruct Hi as [Hi|[Li Hi]]; destruct Hj as [Hj|[Lj Hj]].
  - apply (Hs i j ri rj Hij Hi Hj).
  - assert (rj = r).
    { pose proof (cs_nth_opt_lt _ _ _ Hj) as L. change (len [r]) with 1 in L.
      replace (j - len rows) with 0 in Hj by lia. inversion Hj. reflexivity. }
    subst rj. apply (Hle i ri Hi).
  - pose proof (cs_nth_opt_lt _ _ _ Hj). lia.
  - pose proof (cs_nth_opt_lt _ _ _ Hi) as L1. pose proof (cs_nth_opt_lt _ _ _ Hj) as L2.
    change (len [r]) with 1 in L1, L2.
    replace (i - len rows) with 0 in Hi by lia. replace (j - len rows) with 0 in Hj by lia.
    inversion Hi. inversion Hj. subst. lia.
Qed.

Lemma rows_inv_push ls gl gc r chunk : 1 <= gl -> row_col r = Z.of_N gc ->
  rows_inv ls (gl, gc) -> rows_inv (push_row ls gl r chunk) (gl, gc).
Proof.
  intros Hgl Hr H i rows chunks Hn.
  assert (Hold : forall ld, old_or_empty ls i ld ->
            cols_sorted (fst ld) /\ length (snd ld) = length (fst ld) /\
            forall k r0, nth_opt (fst ld) k = Some r0 -> exists c, row_col r0 = Z.of_N c /\ ple (i + 1, c) (gl, gc)).
  { intros [rows0 chunks0] [Ho|Ho].
    - apply (H i rows0 chunks0 Ho).
    - inversion Ho. cbn [fst snd]. split; [apply cols_sorted_nil|]. split; [reflexivity|].
      intros k r0 Hk. rewrite nth_opt_nil in Hk. discriminate. }
  destruct (push_row_nth ls gl r chunk i rows chunks Hgl Hn) as [[Hne Ho]|[He [rows0 [chunks0 [-> [-> Ho]]]]]].
  - apply (Hold (rows, chunks) Ho).
  - destruct (Hold (rows0, chunks0) Ho) as [A [B C]]. cbn [fst snd] in A, B, C. split; [|split].
    + apply cols_sorted_snoc; [exact A|]. intros k r0 Hk. destruct (C k r0 Hk) as [c [C1 C2]].
      rewrite C1, Hr. unfold ple in C2. cbn [fst snd] in C2. lia.
    + rewrite !app_length. cbn [length]. lia.
    + intros k r0 Hk. apply nth_opt_app_cases in Hk. destruct Hk as [Hk|[_ Hk]]; [apply (C k r0 Hk)|].
      assert (r0 = r).
      { pose proof (cs_nth_opt_lt _ _ _ Hk) as L. change (len [r]) with 1 in L.
        replace (k - len rows0) with 0 in Hk by lia. inversion Hk. reflexivity. }
      subst r0. exists gc. split; [exact Hr|]. subst i. replace (gl - 1 + 1) with gl by lia. apply ple_refl.
Qed.

Lemma inner_events_rows : forall evs st l c,
  well_positioned (chunks_of evs) l c = true -> 1 <= l -> rows_inv (b_lines st) (l, c) ->
  exists q, rows_inv (b_lines (fold_left inner_event evs st)) q.
Proof.
  induction evs as [|e evs IH]; intros st l c Hwp Hl Hinv; [exists (l, c); exact Hinv|].
  cbn [fold_left]. destruct e as [[t|] m|i s ct|i n]; cbn [chunks_of well_positioned] in Hwp.
  - apply andb_true_iff in Hwp. destruct Hwp as [Hwp H3]. apply andb_true_iff in Hwp.
    destruct Hwp as [H1 H2]. apply N.eqb_eq in H1. apply N.eqb_eq in H2.
    pose proof (advance_ple t l c) as Hadv. destruct (advance l c t) as [l' c'] eqn:E.
    apply (IH _ l' c' H3).
    + unfold ple in Hadv. cbn [fst snd] in Hadv. lia.
    + cbn [inner_event b_lines]. apply (rows_inv_mono _ (l, c)); [exact Hadv|].
      rewrite H1. apply (rows_inv_push _ l c); [exact Hl| |exact Hinv].
      rewrite <- H2. destruct (m_orig m); reflexivity.
  - discriminate.
  - apply (IH _ l c Hwp Hl). cbn [inner_event b_lines]. exact Hinv.
  - apply (IH _ l c Hwp Hl). cbn [inner_event b_lines]. exact Hinv.
Qed.

(* a well positioned stream fills an empty table with sorted, paired rows *)
Theorem inner_rows_sorted evs st : b_lines st = [] ->
  well_positioned (chunks_of evs) 1 0 = true ->
  forall i rows chunks, nth_opt (b_lines (fold_left inner_event evs st)) i = Some (rows, chunks) ->
    cols_sorted rows /\ length chunks = length rows.
Proof.
  intros Hb Hwp i rows chunks Hn.
  destruct (inner_events_rows evs st 1 0 Hwp ltac:(lia)) as [q Hq]; [rewrite Hb; apply rows_inv_nil|].
  destruct (Hq i rows chunks Hn) as [A [B _]]. split; assumption.
Qed.

(* ------------------------------------------------------------------ *)
(* the inner streams of the model are well positioned                  *)
(* ------------------------------------------------------------------ *)
Theorem inner_stream_positioned (c : text) (im : smap) (cols : bool) :
  ascii c = true -> map_consistent c im = true ->
  well_positioned (chunks_of (fst (sm_stream c im (mkOpts cols false)))) 1 0 = true.
Proof.
  intros Ha Hc. unfold sm_stream. cbn [columns final_source]. destruct cols.
  - destruct (map_consistent_ok c im Hc) as [H1 H2]. apply sm_stream_full_positioned_partial; assumption.
  - apply sm_stream_lines_full_positioned.
Qed.

(* ------------------------------------------------------------------ *)
(* the state after the outer map announced the inner source            *)
(* ------------------------------------------------------------------ *)
Theorem announce_inner_rows (im : smap) (cols : bool) name rm st i source content c :
  text_eqb source name = true -> b_lines st = [] ->
  (match b_inner_source st with Some s => Some s | None => content end) = Some c ->
  ascii c = true -> map_consistent c im = true ->
  let f := fun x => fst (sm_stream x im (mkOpts cols false)) in
  let st' := fst (outer_event f name rm st (ESource i source content)) in
  b_inner_index st' = Z.of_N i /\
  forall j rows chunks, nth_opt (b_lines st') j = Some (rows, chunks) ->
    cols_sorted rows /\ length chunks = length rows.
Proof.
  intros Hn Hb Hc Ha Hm f st'. unfold st'. cbn [outer_event]. rewrite Hn, Hc. cbn [fst].
  split.
  - assert (H : forall evs s, b_inner_index (fold_left inner_event evs s) = b_inner_index s).
    { induction evs as [|e evs IH]; intros s; [reflexivity|]. cbn [fold_left]. rewrite IH.
      destruct e as [[t|] m|? ? ?|? ?]; reflexivity. }
    rewrite H. reflexivity.
  - apply inner_rows_sorted; [exact Hb|]. apply inner_stream_positioned; assumption.
Qed.

(* B1 in a reachable state: find_inner returns the last row at or before the column *)
Corollary find_inner_sorted_state st line column rw ch :
  (forall j rows chunks, nth_opt (b_lines st) j = Some (rows, chunks) ->
     cols_sorted rows /\ length chunks = length rows) ->
  find_inner st line column = Some (rw, ch) ->
  exists rows chunks k,
    nth_opt (b_lines st) (Z.to_N line - 1) = Some (rows, chunks) /\
    last_le rows column k rw /\ nth_opt chunks k = Some ch.
Proof.
  intros Hinv H. destruct (find_inner_le st line column rw ch H) as [Hl _].
  destruct (nth_opt (b_lines st) (Z.to_N line - 1)) as [[rows chunks]|] eqn:E.
  - destruct (Hinv _ rows chunks E) as [A B].
    destruct (find_inner_some st line column rows chunks rw ch Hl E A B H) as [k [K1 K2]].
    exists rows, chunks, k. split; [reflexivity|]. split; assumption.
  - unfold find_inner in H. rewrite E in H. destruct (line <? 1)%Z; discriminate.
Qed.

Print Assumptions inner_rows_sorted.
Print Assumptions inner_stream_positioned.
Print Assumptions announce_inner_rows.
Print Assumptions find_inner_sorted_state.
