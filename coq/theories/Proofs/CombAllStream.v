(* C09, whole stream, part 4: the three phases of the outer stream (sources, names, chunks)
   put together.
     T1  combined_rsegs : the resolved segments of the combined stream are those of the outer
         splitter - same chunk texts, same generated positions - with `resolve_combined`
         applied to every attribution (all four option pairs);
     T2  combined_dense : every announcement takes the next free index and every index used
         by a chunk has been announced before (the `dense` predicate of C11);
         combined_sources_once : a file name is announced once;
         combined_contents : every announcement carries a (file, content) of the outer map,
         of the inner map, or the inner source with the supplied content. *)
From RS Require Import Base.Prelude Base.Text Rope.RopeModel Codec.Vlq Codec.CodecSpec
  Stream.Types Stream.Leaves Stream.Combined Stream.Tree Sem.Attr Checkers.ChkTree Checkers.ChkCombined
  Proofs.StreamText Proofs.StreamLeaves Proofs.StreamMap Proofs.WfStream Proofs.AttrCodec Proofs.AttrSms
  Proofs.CombSearch Proofs.CombPass Proofs.CombRows Proofs.CombReach
  Proofs.CombAllSpec Proofs.CombAllInner Proofs.CombAllRun Proofs.CombAllStep.
Require Import Lia List ZArith.

Local Open Scope N_scope.

Lemma src_pairs_fst m : forall srcs i, map fst (src_pairs m srcs i) = map (get_source m) srcs.
Proof.
  induction srcs as [|s srcs IH]; intros i; [reflexivity|].
  unfold src_pairs. cbn [announce_sources map fst]. f_equal. apply IH.
Qed.

Lemma S_out_eq m : S_out m = map (get_source m) (sm_sources m).
Proof. unfold S_out, SPfull. apply src_pairs_fst. Qed.

Lemma outer_events_cons f nm rm st e evs :
  outer_events f nm rm st (e :: evs) =
  (fst (outer_events f nm rm (fst (outer_event f nm rm st e)) evs),
   snd (outer_event f nm rm st e) ++ snd (outer_events f nm rm (fst (outer_event f nm rm st e)) evs)).
Proof.
  cbn [outer_events]. destruct (outer_event f nm rm st e) as [st1 o1]. cbn [fst snd].
  destruct (outer_events f nm rm st1 evs) as [st2 o2]. reflexivity.
Qed.

Section Stream.
Variables (cols : bool) (m im : smap) (name : text) (given : option text) (remove : bool) (i0 : N).

Let f := fun c : text => fst (sm_stream c im (mkOpts cols false)).

Hypothesis Hi0 : nth_opt (S_out m) i0 = Some name.
Hypothesis Huniq : forall j, nth_opt (S_out m) j = Some name -> j = i0.
Hypothesis HboundS : len (ALLS m im) < two32.
Hypothesis HboundN : len (ALLN cols m im) < two32.
Hypothesis Hinner_fit : forall ot, original m name given = Some ot ->
  Forall (fun ch : text * mapping => inner_fit cols im (m_orig (snd ch))) (tchunks (f ot)).
Hypothesis Horig : original m name given =
  match given with Some s => Some s | None => nth_opt (sm_contents m) i0 end.
Hypothesis Hok : forall ot, original m name given = Some ot ->
  ascii ot = true /\ map_consistent ot im = true.

Notation SINV := (sinv m im name).
Notation NINV := (ninv cols m im).
Notation IINV := (iinv cols m im name given i0).
Notation FILESv := (FILES m im name given).

(* ------------------------------------------------------------------ *)
(* phase 1: the sources of the outer map                               *)
(* ------------------------------------------------------------------ *)
Lemma sources_phase : forall srcs pre st,
  sm_sources m = pre ++ srcs ->
  SINV st (map (get_source m) pre) -> NINV st [] -> IINV st (i0 <? len pre) ->
  exists st' anns,
    outer_events f name remove st (announce_sources m srcs (len pre)) = (st', anns) /\
    SINV st' (S_out m) /\ NINV st' [] /\ IINV st' (i0 <? len (sm_sources m)) /\
    run anns (b_sources st) (b_names st) (b_sources st') (b_names st') /\
    chunks_of anns = [] /\ Forall (fun p => In p FILESv) (contents_of_events anns).
Proof.
  induction srcs as [|s srcs IH]; intros pre st Hsplit Hs Hn Hi.
  - rewrite app_nil_r in Hsplit. subst pre. cbn [announce_sources outer_events].
    exists st, []. split; [reflexivity|]. rewrite S_out_eq. split; [exact Hs|]. split; [exact Hn|].
    split; [exact Hi|]. split; [apply R_nil|]. split; [reflexivity|constructor].
  - cbn [announce_sources]. rewrite outer_events_cons.
    assert (Hsrc : nth_opt (sm_sources m) (len pre) = Some s).
    { rewrite Hsplit. unfold nth_opt, len. rewrite Nat2N.id, nth_error_app2, Nat.sub_diag by lia. reflexivity. }
    assert (Hfile : nth_opt (S_out m) (len pre) = Some (get_source m s)).
    { rewrite S_out_eq, snth_map, Hsrc. reflexivity. }
    assert (Hpair : nth_opt (SPfull m) (len pre) = Some (get_source m s, nth_opt (sm_contents m) (len pre))).
    { unfold SPfull. rewrite src_pairs_nth, Hsrc, N.add_0_l. reflexivity. }
    assert (Hsplit' : sm_sources m = (pre ++ [s]) ++ srcs) by (rewrite <- app_assoc; exact Hsplit).
    assert (Hlen' : len (pre ++ [s]) = len pre + 1) by (rewrite slen_app; reflexivity).
    assert (Hmap' : map (get_source m) pre ++ [get_source m s] = map (get_source m) (pre ++ [s]))
      by (rewrite map_app; reflexivity).
    destruct (N.eq_dec (len pre) i0) as [Ei|Ei].
    + (* the inner source *)
      assert (Hname : get_source m s = name) by (rewrite Ei, Hi0 in Hfile; inversion Hfile; reflexivity).
      replace (i0 <? len pre) with false in Hi by (symmetry; apply N.ltb_ge; lia).
      rewrite Hname, Ei.
      destruct (inner_source_event cols m im name given remove i0 st (map (get_source m) pre) []
                  (nth_opt (sm_contents m) i0) Hs Hn Hi) as (st1 & E1 & A1 & A2 & A3 & A4 & A5).
      { rewrite slen_map. exact Ei. }
      { exact Horig. }
      { exact Hok. }
      fold f in E1. rewrite E1. cbn [fst snd app].
      replace (map (get_source m) pre ++ [name]) with (map (get_source m) (pre ++ [s])) in A1
        by (rewrite map_app; cbn [map]; rewrite Hname; reflexivity).
      assert (A3' : IINV st1 (i0 <? len (pre ++ [s]))).
      { replace (i0 <? len (pre ++ [s])) with true by (symmetry; apply N.ltb_lt; lia). exact A3. }
      destruct (IH (pre ++ [s]) st1 Hsplit' A1 A2 A3') as (st2 & anns & E2 & B1 & B2 & B3 & B4 & B5 & B6).
      rewrite Hlen', Ei in E2. rewrite E2. cbn [fst snd].
      exists st2, anns. split; [reflexivity|]. split; [exact B1|]. split; [exact B2|]. split; [exact B3|].
      rewrite A4, A5 in B4. split; [exact B4|]. split; [exact B5|exact B6].
    + (* another source *)
      assert (Hne : get_source m s <> name).
      { intros Q. apply Ei. apply Huniq. rewrite <- Q. exact Hfile. }
      assert (Hall : In (get_source m s) (ALLS m im)).
      { apply in_or_app. left. apply (In_nth_opt _ _ _ Hfile). }
      destruct (source_event cols m im name given remove i0 st (map (get_source m) pre) [] (i0 <? len pre)
                  (len pre) (get_source m s) (nth_opt (sm_contents m) (len pre)) Hs Hn Hi)
        as (st1 & an1 & E1 & A1 & A2 & A3 & A4 & A5 & A6).
      { rewrite slen_map. reflexivity. }
      { exact Hne. }
      { exact Hall. }
      fold f in E1. rewrite E1. cbn [fst snd].
      rewrite Hmap' in A1.
      assert (A3' : IINV st1 (i0 <? len (pre ++ [s]))).
      { replace (i0 <? len (pre ++ [s])) with (i0 <? len pre); [exact A3|].
        rewrite Hlen'. destruct (i0 <? len pre) eqn:Q.
        - apply N.ltb_lt in Q. symmetry. apply N.ltb_lt. lia.
        - apply N.ltb_ge in Q. symmetry. apply N.ltb_ge. lia. }
      destruct (IH (pre ++ [s]) st1 Hsplit' A1 A2 A3') as (st2 & anns & E2 & B1 & B2 & B3 & B4 & B5 & B6).
      rewrite Hlen' in E2. rewrite E2. cbn [fst snd].
      exists st2, (an1 ++ anns). split; [reflexivity|]. split; [exact B1|]. split; [exact B2|]. split; [exact B3|].
      split; [apply (run_app _ _ _ _ (b_sources st1) (b_names st1)); assumption|].
      split; [rewrite chunks_of_app, A5, B5; reflexivity|].
      rewrite contents_app. apply Forall_app. split; [|exact B6].
      eapply Forall_impl; [|exact A6]. cbn beta. intros p ->. unfold FILES. apply in_or_app. left.
      apply filter_In. split; [apply (In_nth_opt _ _ _ Hpair)|]. cbn [fst].
      rewrite (text_eqb_false _ _ Hne). reflexivity.
Qed.

(* ------------------------------------------------------------------ *)
(* phase 2: the names of the outer map                                 *)
(* ------------------------------------------------------------------ *)
Lemma names_phase : forall ns pre st,
  SINV st (S_out m) -> NINV st pre -> IINV st true ->
  exists st',
    outer_events f name remove st (announce_names ns (len pre)) = (st', []) /\
    SINV st' (S_out m) /\ NINV st' (pre ++ ns) /\ IINV st' true /\
    b_sources st' = b_sources st /\ b_names st' = b_names st.
Proof.
  induction ns as [|n ns IH]; intros pre st Hs Hn Hi.
  - cbn [announce_names outer_events]. exists st. rewrite app_nil_r. repeat (split; [assumption || reflexivity|]). reflexivity.
  - cbn [announce_names]. rewrite outer_events_cons.
    destruct (name_event cols m im name given remove i0 st (S_out m) pre true (len pre) n Hs Hn Hi eq_refl)
      as (st1 & E1 & A1 & A2 & A3 & A4 & A5).
    fold f in E1. rewrite E1. cbn [fst snd app].
    destruct (IH (pre ++ [n]) st1 A1 A2 A3) as (st2 & E2 & B1 & B2 & B3 & B4 & B5).
    rewrite slen_app in E2. change (len [n]) with 1 in E2. rewrite E2. cbn [fst snd].
    exists st2. split; [reflexivity|]. split; [exact B1|]. rewrite <- app_assoc in B2. split; [exact B2|].
    split; [exact B3|]. split; congruence.
Qed.

(* ------------------------------------------------------------------ *)
(* phase 3: the chunks                                                 *)
(* ------------------------------------------------------------------ *)
Definition chunk_fit (mo : option orig) : Prop :=
  orig_fit (len (S_out m)) (len (N_out cols m)) mo /\ col31 mo.

Definition rc_chunk (ch : option text * mapping) : option text * rseg :=
  (fst ch, (g_line (snd ch), g_col (snd ch),
            resolve_combined cols m im name given remove
              (optF (fileT (S_out m)) (fileT (N_out cols m)) (m_orig (snd ch))))).

Lemma chunks_phase : forall chunks st,
  SINV st (S_out m) -> NINV st (N_out cols m) -> IINV st true ->
  Forall (chunkP chunk_fit) chunks ->
  exists st' out,
    outer_events f name remove st chunks = (st', out) /\
    SINV st' (S_out m) /\ NINV st' (N_out cols m) /\
    run out (b_sources st) (b_names st) (b_sources st') (b_names st') /\
    Forall (fun p => In p FILESv) (contents_of_events out) /\
    rsegs_of_events out (b_sources st) (b_names st) = map rc_chunk (chunks_of chunks).
Proof.
  induction chunks as [|e chunks IH]; intros st Hs Hn Hi Hall.
  - cbn [outer_events]. exists st, []. split; [reflexivity|]. split; [exact Hs|]. split; [exact Hn|].
    split; [apply R_nil|]. split; [constructor|reflexivity].
  - inversion Hall as [|e' l' He Hrest]. subst e' l'.
    destruct e as [t mp|i n c|i n]; cbn [chunkP] in He; try contradiction. destruct He as [Hfit Hc31].
    rewrite outer_events_cons.
    destruct (chunk_step cols m im name given remove i0 Hi0 Huniq HboundS HboundN Hinner_fit st t mp
                Hs Hn Hi Hfit Hc31)
      as (st1 & anns & mp' & E1 & A1 & A2 & A3 & A4 & A5 & A6 & A7 & A8 & A9 & A10).
    fold f in E1. rewrite E1. cbn [fst snd].
    destruct (IH st1 A1 A2 A3 Hrest) as (st2 & out & E2 & B1 & B2 & B3 & B4 & B5).
    rewrite E2. cbn [fst snd].
    exists st2, ((anns ++ [EChunk t mp']) ++ out). split; [reflexivity|]. split; [exact B1|]. split; [exact B2|].
    split.
    { apply (run_app _ _ _ _ (b_sources st1) (b_names st1)); [|exact B3].
      apply (run_app _ _ _ _ (b_sources st1) (b_names st1)); [exact A4|]. apply run_chunk1. exact A9. }
    split.
    { rewrite !contents_app. cbn [contents_of_events]. rewrite app_nil_r. apply Forall_app. split; assumption. }
    rewrite <- app_assoc. rewrite (run_rsegs _ _ _ _ _ A4 A5). cbn [app]. rewrite rsegs_chunk_head.
    cbn [chunks_of map]. rewrite B5, A7, A8, A10. reflexivity.
Qed.

(* ------------------------------------------------------------------ *)
(* the whole outer stream                                              *)
(* ------------------------------------------------------------------ *)
Lemma b_init_invs : SINV (b_init given) [] /\ NINV (b_init given) [] /\ IINV (b_init given) false.
Proof.
  split; [|split].
  - unfold sinv, b_init. bsimp. split; [|split; [|split; [|split]]].
    + intros j s H. rewrite nth_opt_nil in H. discriminate.
    + intros j H. rewrite nth_opt_nil in H. discriminate.
    + intros k p H. rewrite nth_opt_nil in H. discriminate.
    + constructor.
    + intros x [].
  - unfold ninv, b_init. bsimp. split; [|split; [|split]].
    + intros j s H. rewrite nth_opt_nil in H. discriminate.
    + intros k n H. rewrite nth_opt_nil in H. discriminate.
    + constructor.
    + intros x [].
  - unfold iinv, b_init, in_tables. bsimp. repeat split.
Qed.

Theorem whole_stream chunks :
  Forall (chunkP chunk_fit) chunks ->
  exists st' out,
    outer_events f name remove (b_init given)
      (announce_sources m (sm_sources m) 0 ++ announce_names (N_out cols m) 0 ++ chunks) = (st', out) /\
    run out [] [] (b_sources st') (b_names st') /\
    NoDup (b_sources st') /\
    Forall (fun p => In p FILESv) (contents_of_events out) /\
    rsegs_of_events out [] [] = map rc_chunk (chunks_of chunks).
Proof.
  intros Hall. destruct b_init_invs as (Hs0 & Hn0 & Hi0').
  assert (Hlt : i0 < len (sm_sources m)).
  { pose proof (cs_nth_opt_lt _ _ _ Hi0) as H. rewrite S_out_eq, slen_map in H. exact H. }
  assert (Hi0'' : IINV (b_init given) (i0 <? len (@nil text))).
  { replace (i0 <? len (@nil text)) with false; [exact Hi0'|]. symmetry. apply N.ltb_ge. cbn. lia. }
  destruct (sources_phase (sm_sources m) [] (b_init given) eq_refl Hs0 Hn0 Hi0'')
    as (st1 & an1 & E1 & A1 & A2 & A3 & A4 & A5 & A6).
  replace (i0 <? len (sm_sources m)) with true in A3 by (symmetry; apply N.ltb_lt; exact Hlt).
  destruct (names_phase (N_out cols m) [] st1 A1 A2 A3) as (st2 & E2 & B1 & B2 & B3 & B4 & B5).
  cbn [app] in B2.
  destruct (chunks_phase chunks st2 B1 B2 B3 Hall) as (st3 & out & E3 & C1 & C2 & C3 & C4 & C5).
  change (len (@nil text)) with 0 in E1, E2.
  rewrite !outer_events_app, E1. cbn [fst snd]. rewrite E2. cbn [fst snd]. rewrite E3. cbn [fst snd app].
  exists st3, (an1 ++ out). split; [reflexivity|].
  rewrite B4, B5 in C3, C5. split; [apply (run_app _ _ _ _ (b_sources st1) (b_names st1)); assumption|].
  split; [destruct C1 as (_ & _ & _ & Q & _); exact Q|].
  split; [rewrite contents_app; apply Forall_app; split; assumption|].
  rewrite (run_rsegs _ _ _ _ _ A4 A5). exact C5.
Qed.

End Stream.

Print Assumptions whole_stream.
