(* B4 in reachable states: the translation table of the inner source indices is sound in every
   state that `outer_events` reaches from `b_init`, whatever the outer event list.  Hence a
   chunk resolved through an inner row whose source index was announced by the inner map is
   always attributed to the string announced for that index. *)
From RS Require Import Base.Prelude Base.Text Rope.RopeModel Codec.Vlq Codec.CodecSpec
  Stream.Types Stream.Leaves Stream.Combined Sem.Attr Checkers.ChkTree
  Proofs.StreamText Proofs.WfStream Proofs.AttrCodec Proofs.CombSearch Proofs.CombPass.
Require Import Lia List ZArith.

Local Open Scope N_scope.

Definition file_of (val : list (text * option text)) (k : N) : text :=
  fst (match lm_get val k with Some v => v | None => ([], None) end).

Lemma inner_file_of st k : inner_file st k = file_of (b_in_src_val st) k.
Proof. reflexivity. Qed.

(* every inner source index announced by the inner map is pending (-2) or translated to a
   global index that carries the announced string *)
Definition ok3 (idx : list Z) (val : list (text * option text)) (srcs : list text) : Prop :=
  len val <= len idx /\
  forall k, k < len val ->
    exists v, lm_get idx k = Some v /\
      (v = (-2)%Z \/ exists g, v = Z.of_N g /\ nth_opt srcs g = Some (file_of val k)).

Definition in_src_ok (st : bstate) : Prop := ok3 (b_in_src_idx st) (b_in_src_val st) (b_sources st).

Lemma ok3_app idx val srcs e : ok3 idx val srcs -> ok3 idx val (srcs ++ e).
Proof.
  intros [A B]. split; [exact A|]. intros k Hk. destruct (B k Hk) as [v [V1 V2]]. exists v.
  split; [exact V1|]. destruct V2 as [V2|[g [G1 G2]]]; [left; exact V2|right].
  exists g. split; [exact G1|apply nth_opt_app_some; exact G2].
Qed.

(* states that differ by appended global sources only *)
Definition ext3 (st st' : bstate) : Prop :=
  (exists e, b_sources st' = b_sources st ++ e) /\
  b_in_src_idx st' = b_in_src_idx st /\ b_in_src_val st' = b_in_src_val st.

Lemma ext3_refl st : ext3 st st.
Proof. split; [exists []; rewrite app_nil_r; reflexivity|split; reflexivity]. Qed.

Lemma ext3_trans a b c : ext3 a b -> ext3 b c -> ext3 a c.
Proof.
  intros [[e1 A1] [A2 A3]] [[e2 B1] [B2 B3]]. split; [|split; congruence].
  exists (e1 ++ e2). rewrite B1, A1, app_assoc. reflexivity.
Qed.

Lemma in_src_ok_ext st st' : ext3 st st' -> in_src_ok st -> in_src_ok st'.
Proof.
  intros [[e A1] [A2 A3]] H. unfold in_src_ok. rewrite A1, A2, A3. apply ok3_app. exact H.
Qed.

Lemma intern_spec tbl s : exists e, fst (fst (intern tbl s)) = tbl ++ e /\
  nth_opt (fst (fst (intern tbl s))) (snd (fst (intern tbl s))) = Some s.
Proof.
  unfold intern. destruct (find_text tbl s 0) as [g|] eqn:E; cbn [fst snd].
  - exists []. rewrite app_nil_r. split; [reflexivity|]. apply (find_text_sound0 _ _ _ E).
  - exists [s]. split; [reflexivity|apply nth_opt_app_last].
Qed.

(* ------------------------------------------------------------------ *)
(* the inner stream                                                    *)
(* ------------------------------------------------------------------ *)
Lemma inner_event_source_ok st i s c : i <= len (b_in_src_val st) -> in_src_ok st ->
  in_src_ok (inner_event st (ESource i s c)) /\ i + 1 <= len (b_in_src_val (inner_event st (ESource i s c))) /\
  b_sources (inner_event st (ESource i s c)) = b_sources st.
Proof.
  intros Hi [A B]. cbn [inner_event]. unfold in_src_ok. bsimp. split; [|split; [rewrite lm_insert_len; lia|reflexivity]].
  split; [rewrite !lm_insert_len; lia|]. intros k Hk. rewrite lm_insert_len in Hk.
  destruct (N.eq_dec k i) as [->|Hne].
  - exists (-2)%Z. split; [apply lm_get_insert_same|left; reflexivity].
  - assert (Hk' : k < len (b_in_src_val st)) by lia. destruct (B k Hk') as [v [V1 V2]].
    exists v. split; [apply lm_get_insert_other; assumption|].
    destruct V2 as [V2|[g [G1 G2]]]; [left; exact V2|right]. exists g. split; [exact G1|].
    rewrite G2. f_equal. unfold file_of.
    destruct (cs_nth_opt_some (b_in_src_val st) k Hk') as [x Hx].
    change (lm_get (b_in_src_val st) k = Some x) in Hx.
    rewrite (lm_get_insert_other _ _ _ _ _ x Hne Hx), Hx. reflexivity.
Qed.

Definition same3 (st st' : bstate) : Prop :=
  b_sources st' = b_sources st /\ b_in_src_idx st' = b_in_src_idx st /\ b_in_src_val st' = b_in_src_val st.

Lemma same3_ext st st' : same3 st st' -> ext3 st st'.
Proof. intros (A & B & C). split; [exists []; rewrite app_nil_r; exact A|split; assumption]. Qed.

Lemma inner_event_other_same st e : (match e with ESource _ _ _ => False | _ => True end) ->
  same3 st (inner_event st e).
Proof. destruct e as [[t|] m|? ? ?|? ?]; intros H; try contradiction; repeat split. Qed.

Lemma inner_fold_other evs : Forall (fun e => match e with ESource _ _ _ => False | _ => True end) evs ->
  forall st, same3 st (fold_left inner_event evs st).
Proof.
  induction 1 as [|e evs He _ IH]; intros st; [repeat split|]. cbn [fold_left].
  destruct (inner_event_other_same st e He) as (A & B & C). destruct (IH (inner_event st e)) as (D & E & F).
  repeat split; congruence.
Qed.

Lemma inner_fold_sources im srcs : forall st i, i <= len (b_in_src_val st) -> in_src_ok st ->
  in_src_ok (fold_left inner_event (announce_sources im srcs i) st) /\
  b_sources (fold_left inner_event (announce_sources im srcs i) st) = b_sources st.
Proof.
  induction srcs as [|s srcs IH]; intros st i Hi Hok; [split; [exact Hok|reflexivity]|].
  cbn [announce_sources fold_left].
  destruct (inner_event_source_ok st i (get_source im s) (nth_opt (sm_contents im) i) Hi Hok) as [A [B C]].
  destruct (IH _ (i + 1) B A) as [D E]. split; [exact D|congruence].
Qed.

Lemma announce_names_no_source ns : forall i,
  Forall (fun e => match e with ESource _ _ _ => False | _ => True end) (announce_names ns i).
Proof. induction ns as [|n ns IH]; intros i; cbn [announce_names]; constructor; [exact I|apply IH]. Qed.

Lemma chunkP_no_source R evs : Forall (chunkP R) evs ->
  Forall (fun e => match e with ESource _ _ _ => False | _ => True end) evs.
Proof.
  intros H. eapply Forall_impl; [|exact H]. intros [? ?|? ? ?|? ?]; cbn [chunkP]; tauto.
Qed.

(* streaming the inner map keeps the table sound and the global sources unchanged *)
Lemma inner_stream_ok c im o st : in_src_ok st ->
  in_src_ok (fold_left inner_event (fst (sm_stream c im o)) st) /\
  b_sources (fold_left inner_event (fst (sm_stream c im o)) st) = b_sources st.
Proof.
  intros Hok.
  destruct (sm_stream_shape (fun _ => True) (fun _ => True) I I (fun _ _ => I) c im o) as [E|[chunks [E Hch]]].
  { apply Forall_forall. intros; exact I. }
  - rewrite E. split; [exact Hok|reflexivity].
  - rewrite E, !fold_left_app.
    destruct (inner_fold_sources im (sm_sources im) st 0 ltac:(lia) Hok) as [A B].
    set (st1 := fold_left inner_event (announce_sources im (sm_sources im) 0) st) in *.
    set (Nn := if columns o then sm_names im else []) in *.
    pose proof (inner_fold_other _ (announce_names_no_source Nn 0) st1) as S1.
    set (st2 := fold_left inner_event (announce_names Nn 0) st1) in *.
    assert (Hns : Forall (fun e => match e with ESource _ _ _ => False | _ => True end) chunks).
    { destruct (columns o); apply (chunkP_no_source _ _ Hch). }
    pose proof (inner_fold_other _ Hns st2) as S2.
    split.
    + apply (in_src_ok_ext st2); [apply same3_ext; exact S2|].
      apply (in_src_ok_ext st1); [apply same3_ext; exact S1|exact A].
    + destruct S1 as (S11 & _ & _). destruct S2 as (S21 & _ & _). congruence.
Qed.

(* ------------------------------------------------------------------ *)
(* the outer events                                                    *)
(* ------------------------------------------------------------------ *)
Lemma name_frame_same3 st st' : name_frame st st' -> same3 st st'.
Proof. intros (A1 & A2 & A3 & A4 & A5 & A6 & A7 & _). repeat split; assumption. Qed.

Lemma pass_chunk_same3 st t mp : same3 st (fst (pass_chunk st t mp)).
Proof.
  unfold pass_chunk.
  match goal with |- context [(?x <? 0)%Z] => destruct (x <? 0)%Z end; [repeat split|].
  pose proof (pass_name_frame st (m_name mp)) as F.
  destruct (pass_name st (m_name mp)) as [[st1 fni] evn]. cbn [fst] in *. apply name_frame_same3. exact F.
Qed.

Lemma fallback_chunk_ext name st t mp : ext3 st (fst (fallback_chunk name st t mp)).
Proof.
  unfold fallback_chunk.
  assert (P : ext3 st (fst (pass_chunk st t mp))) by (apply same3_ext; apply pass_chunk_same3).
  destruct (lm_get (b_src_idx st) (Z.to_N (m_src mp))) as [z|]; [|exact P].
  destruct z as [|p|p]; try exact P.
  destruct p as [p|p|]; try exact P. destruct p as [p|p|]; try exact P.
  destruct (intern_spec (b_sources st) name) as [e [E1 _]].
  destruct (intern (b_sources st) name) as [[tbl g] fresh]. cbn [fst snd] in E1.
  match goal with |- context [pass_chunk ?s t mp] =>
    pose proof (pass_chunk_same3 s t mp) as Q; destruct (pass_chunk s t mp) as [st2 evs] end.
  cbn [fst] in *. destruct Q as (Q1 & Q2 & Q3). bsimp_in Q1. bsimp_in Q2. bsimp_in Q3.
  split; [exists e; congruence|split; assumption].
Qed.

Lemma inner_src_ok st isrc : in_src_ok st -> in_src_ok (fst (fst (inner_src st isrc))).
Proof.
  intros [A B]. unfold inner_src.
  destruct (match lm_get (b_in_src_idx st) (Z.to_N isrc) with Some v => v | None => (-2)%Z end =? -2)%Z;
    [|split; assumption].
  pose proof (intern_spec (b_sources st) (file_of (b_in_src_val st) (Z.to_N isrc))) as [e [E1 E2]].
  unfold file_of in E1, E2.
  destruct (match lm_get (b_in_src_val st) (Z.to_N isrc) with Some v => v | None => ([], None) end)
    as [source content] eqn:Ev. cbn [fst] in E1, E2.
  destruct (intern (b_sources st) source) as [[tbl g] fresh]. cbn [fst snd] in E1, E2.
  unfold in_src_ok. bsimp. split; [rewrite lm_insert_len; lia|].
  intros k Hk. destruct (N.eq_dec k (Z.to_N isrc)) as [->|Hne].
  - exists (Z.of_N g). split; [apply lm_get_insert_same|right]. exists g. split; [reflexivity|].
    unfold file_of. rewrite Ev. exact E2.
  - destruct (B k Hk) as [v [V1 V2]]. exists v. split; [apply lm_get_insert_other; assumption|].
    destruct V2 as [V2|[g' [G1 G2]]]; [left; exact V2|right]. exists g'. split; [exact G1|].
    rewrite E1. apply nth_opt_app_some. exact G2.
Qed.

Lemma nm_frame_same3 st st' : nm_frame st st' -> same3 st st'.
Proof. intros (A1 & A2 & A3 & A4 & A5 & A6 & A7 & _). repeat split; assumption. Qed.

Lemma resolved_chunk_ok st t mp r : in_src_ok st -> in_src_ok (fst (resolved_chunk st t mp r)).
Proof.
  intros Hok. destruct r as [[[[[igc isrc] iline] icol] iname] ich]. unfold resolved_chunk.
  destruct (adv_col st mp igc isrc iline icol iname ich) as [icol1 iname1].
  pose proof (inner_src_ok st isrc Hok) as A. destruct (inner_src st isrc) as [[st1 si] evs]. cbn [fst] in A.
  pose proof (inner_nm_frame st1 mp isrc iline icol1 iname1) as [F _].
  destruct (inner_nm st1 mp isrc iline icol1 iname1) as [[st2 fni] evn]. cbn [fst] in *.
  apply (in_src_ok_ext st1); [apply same3_ext; apply nm_frame_same3; exact F|exact A].
Qed.

Lemma outer_chunk_ok name rm st t mp : in_src_ok st -> in_src_ok (fst (outer_chunk name rm st t mp)).
Proof.
  intros Hok. rewrite outer_chunk_eq. destruct (m_src mp =? b_inner_index st)%Z.
  - destruct (resolve st mp) as [r|]; [apply resolved_chunk_ok; exact Hok|].
    destruct rm; [exact Hok|]. apply (in_src_ok_ext st); [apply fallback_chunk_ext|exact Hok].
  - apply (in_src_ok_ext st); [apply same3_ext; apply pass_chunk_same3|exact Hok].
Qed.

Section Reach.
Variables (im : smap) (io : opts) (name : text) (rm : bool).
Let f := fun c => fst (sm_stream c im io).

Lemma outer_event_ok st e : in_src_ok st -> in_src_ok (fst (outer_event f name rm st e)).
Proof.
  intros Hok. destruct e as [t mp|i source content|i n]; cbn [outer_event].
  - apply outer_chunk_ok. exact Hok.
  - destruct (text_eqb source name).
    + match goal with |- context [upd_src_idx ?a ?b] => set (st1 := upd_src_idx a b) end.
      assert (H1 : in_src_ok st1) by exact Hok.
      destruct (match b_inner_source st with Some s => Some s | None => content end) as [c|]; cbn [fst].
      * apply (inner_stream_ok c im io st1 H1).
      * exact H1.
    + destruct (intern_spec (b_sources st) source) as [e [E1 _]].
      destruct (intern (b_sources st) source) as [[tbl g] fresh]. cbn [fst snd] in *.
      apply (in_src_ok_ext st); [|exact Hok]. split; [exists e; exact E1|split; reflexivity].
  - exact Hok.
Qed.

Lemma outer_events_ok evs : forall st, in_src_ok st -> in_src_ok (fst (outer_events f name rm st evs)).
Proof.
  induction evs as [|e evs IH]; intros st Hok; [exact Hok|]. cbn [outer_events].
  pose proof (outer_event_ok st e Hok) as A. destruct (outer_event f name rm st e) as [st1 o1]. cbn [fst] in A.
  specialize (IH st1 A). destruct (outer_events f name rm st1 evs) as [st2 o2]. exact IH.
Qed.

(* every state reached from the initial one, by any outer event list *)
Theorem reachable_in_src_ok orig evs : in_src_ok (fst (outer_events f name rm (b_init orig) evs)).
Proof.
  apply outer_events_ok. split; [cbn; lia|]. intros k Hk. cbn in Hk. lia.
Qed.

End Reach.

(* ------------------------------------------------------------------ *)
(* B4 with a sound table                                               *)
(* ------------------------------------------------------------------ *)
Theorem resolved_attr_file name remove st t mp igc isrc iline icol iname ich :
  in_src_ok st ->
  m_src mp = b_inner_index st ->
  find_inner st (m_oline mp) (m_ocol mp) = Some ((igc, isrc, iline, icol, iname), ich) ->
  (0 <= isrc)%Z -> Z.to_N isrc < len (b_in_src_val st) ->
  exists st' pre g c fni,
    outer_chunk name remove st t mp = (st', pre ++ [mk_chunk t mp (Z.of_N g) iline c fni]) /\
    nth_opt (b_sources st') g = Some (inner_file st (Z.to_N isrc)) /\
    (icol <= c <= icol + (m_ocol mp - igc))%Z /\
    Forall is_ann pre /\ in_src_ok st'.
Proof.
  intros Hok Hsrc Hfind H0 Hann.
  pose proof (outer_chunk_ok name remove st t mp Hok) as Hok'.
  destruct (resolved_attr name remove st t mp igc isrc iline icol iname ich Hsrc Hfind H0)
    as (st' & pre & si & c & fni & E & Hc & Hpre & _ & _ & _ & Hfirst & Hlater).
  rewrite E in Hok'. cbn [fst] in Hok'.
  destruct Hok as [_ B]. destruct (B _ Hann) as [v [V1 [V2|[g [G1 G2]]]]].
  - subst v. destruct (Hfirst V1) as [g [S1 [S2 _]]]. subst si.
    exists st', pre, g, c, fni. split; [exact E|]. split; [exact S2|]. split; [exact Hc|].
    split; [exact Hpre|exact Hok'].
  - subst v. destruct (Hlater g V1) as [S1 [S2 _]]. subst si.
    exists st', pre, g, c, fni. split; [exact E|]. split; [rewrite S2; exact G2|]. split; [exact Hc|].
    split; [exact Hpre|exact Hok'].
Qed.

Print Assumptions reachable_in_src_ok.
Print Assumptions resolved_attr_file.
